/-
General proof of the grouping specification of `measure_quantum_vector` (C11): for every register size and every
ascending tuple of measured qubits, un-ravelling a flat position against the merged (run-length) shape and ravelling the
kept digits equals reading the measured bits.  Route: literal positional form → structural form on the run-length list
(`gIdx`) → structural bitwise form on the kind list (`bIdx`) → the literal bitwise fold.
-/
import NumqiProofs.MeasureLemmas

namespace Numqi
open Function

/-- positional selection = structural selection -/
theorem filter_pos_map {α β : Type} (P : α → Bool) (a0 : α) (d : β) :
    ∀ (z : List α) (l : List β), l.length = z.length →
      ((List.range z.length).filter (fun x => P (z.getD x a0))).map (fun x => l.getD x d)
        = ((z.zip l).filter (fun q => P q.1)).map (·.2)
  | [], l, _ => by simp
  | a :: z, [], h => by simp at h
  | a :: z, e :: l, h => by
    have ih := filter_pos_map P a0 d z l (by simpa using h)
    rw [List.length_cons, List.range_succ_eq_map, List.filter_cons, List.zip_cons_cons, List.filter_cons]
    have hmap : (List.filter (fun x => P ((a :: z).getD x a0)) (List.map Nat.succ (List.range z.length))).map
        (fun x => (e :: l).getD x d) = ((z.zip l).filter (fun q => P q.1)).map (·.2) := by
      rw [List.filter_map, List.map_map, ← ih]
      rfl
    by_cases hp : P a = true
    · simp only [List.getD_cons_zero, hp, if_true, List.map_cons, hmap]
    · have hp' : P a = false := by simpa using hp
      simp only [List.getD_cons_zero, hp', Bool.false_eq_true, if_false, hmap]

theorem zip_filter_fst {α β : Type} (P : α → Bool) :
    ∀ (z : List α) (l : List β), l.length = z.length →
      ((z.zip l).filter (fun q => P q.1)).map (·.1) = z.filter P
  | [], l, _ => by simp
  | a :: z, [], h => by simp at h
  | a :: z, e :: l, h => by
    have ih := zip_filter_fst P z l (by simpa using h)
    rw [List.zip_cons_cons, List.filter_cons, List.filter_cons]
    by_cases hp : P a = true
    · simp [hp, ih]
    · simp [hp, ih]

theorem foldl_mul_pow2 (z : List (Bool × Nat)) (a : Nat) :
    (z.map fun g => 2 ^ g.2).foldl (· * ·) a = a * 2 ^ (z.map (·.2)).sum := by
  induction z generalizing a with
  | nil => simp
  | cons g z ih => simp only [List.map_cons, List.foldl_cons, ih, List.sum_cons, pow_add]; ring

theorem unravel_length : ∀ (shape : List Nat) (p : Nat), (unravel shape p).length = shape.length
  | [], _ => rfl
  | _ :: ds, p => by simp [unravel, unravel_length ds]



def grpBits (z : List (Bool × Nat)) : Nat := (z.map (·.2)).sum
def keptBits (z : List (Bool × Nat)) : Nat := ((z.filter (·.1)).map (·.2)).sum

/-- structural form of the grouped index -/
def gIdx : List (Bool × Nat) → Nat → Nat
  | [], _ => 0
  | (b, _) :: r, p => (if b then (p / 2 ^ grpBits r) * 2 ^ keptBits r else 0) + gIdx r (p % 2 ^ grpBits r)

/-- structural form of the bitwise index -/
def bIdx : List Bool → Nat → Nat
  | [], _ => 0
  | b :: r, p => (if b then (p / 2 ^ r.length % 2) * 2 ^ (r.count true) else 0) + bIdx r (p % 2 ^ r.length)

theorem runLength_ne_nil (b : Bool) (l : List Bool) : runLength (b :: l) ≠ [] := by
  simp only [runLength]
  split
  · split <;> simp
  · simp

theorem grpBits_runLength : ∀ l : List Bool, grpBits (runLength l) = l.length
  | [] => rfl
  | b :: l => by
    have ih := grpBits_runLength l
    simp only [runLength]
    split
    · rename_i b' c r h
      rw [h] at ih
      split
      · simp only [grpBits, List.map_cons, List.sum_cons, List.length_cons] at ih ⊢; omega
      · simp only [grpBits, List.map_cons, List.sum_cons, List.length_cons] at ih ⊢; omega
    · rename_i h
      cases l with
      | nil => simp [grpBits]
      | cons a l => exact absurd h (runLength_ne_nil a l)

theorem keptBits_runLength : ∀ l : List Bool, keptBits (runLength l) = l.count true
  | [] => rfl
  | b :: l => by
    have ih := keptBits_runLength l
    simp only [runLength]
    split
    · rename_i b' c r h
      rw [h] at ih
      split
      · rename_i hb
        have hb' : b = b' := by simpa using hb
        subst hb'
        cases b <;> simp [keptBits] at ih ⊢ <;> omega
      · cases b <;> cases b' <;> simp [keptBits] at ih ⊢ <;> omega
    · rename_i h
      cases l with
      | nil => cases b <;> simp [keptBits]
      | cons a l => exact absurd h (runLength_ne_nil a l)

theorem gIdx_runLength_eq_bIdx : ∀ (l : List Bool) (p : Nat), p < 2 ^ l.length → gIdx (runLength l) p = bIdx l p
  | [], p, _ => rfl
  | b :: l, p, hp => by
    have hg := grpBits_runLength l
    have hk := keptBits_runLength l
    have hp' : p % 2 ^ l.length < 2 ^ l.length := Nat.mod_lt _ (by positivity)
    have ih := gIdx_runLength_eq_bIdx l (p % 2 ^ l.length) hp'
    have hlt : p / 2 ^ l.length < 2 := by
      rw [Nat.div_lt_iff_lt_mul (by positivity)]; simpa [pow_succ, mul_comm] using hp
    have hmod2 : p / 2 ^ l.length % 2 = p / 2 ^ l.length := Nat.mod_eq_of_lt hlt
    simp only [bIdx, hmod2]
    rw [← ih]
    simp only [runLength]
    split
    · rename_i b' c r h
      rw [h] at hg hk
      split
      · rename_i hb
        have hb' : b = b' := by simpa using hb
        subst hb'
        -- merged group
        rw [h]
        simp only [gIdx]
        have hgl : l.length = c + grpBits r := by
          simp only [grpBits, List.map_cons, List.sum_cons] at hg ⊢; omega
        have hW : (2 : Nat) ^ l.length = 2 ^ c * 2 ^ grpBits r := by rw [hgl, pow_add]
        have hmm : p % 2 ^ l.length % 2 ^ grpBits r = p % 2 ^ grpBits r := by
          rw [hW]; exact Nat.mod_mul_left_mod _ _ _
        have hdiv : p / 2 ^ grpBits r = (p / 2 ^ l.length) * 2 ^ c + p % 2 ^ l.length / 2 ^ grpBits r := by
          rw [hW]
          have h2 : 0 < 2 ^ grpBits r := by positivity
          have h3 : 0 < 2 ^ c := by positivity
          rw [mul_comm (2 ^ c) (2 ^ grpBits r), ← Nat.div_div_eq_div_mul, Nat.mod_mul_right_div_self]
          exact (Nat.div_add_mod' (p / 2 ^ grpBits r) (2 ^ c)).symm
        rw [hmm]
        cases b
        · simp
        · have hkc : l.count true = c + keptBits r := by
            simp only [keptBits, List.filter_cons, if_true, List.map_cons, List.sum_cons] at hk ⊢; omega
          simp only [if_true, hdiv, hkc, pow_add]
          ring
      · -- new group
        rw [← h] at hg hk ⊢
        simp only [gIdx]
        rw [hg, hk]
    · rename_i h
      cases l with
      | nil => simp [gIdx, grpBits, keptBits, runLength]
      | cons a l => exact absurd h (runLength_ne_nil a l)


/-- kept (group, digit) pairs of the position `p` -/
def keptPairs (z : List (Bool × Nat)) (p : Nat) : List ((Bool × Nat) × Nat) :=
  (z.zip (unravel (z.map fun g => 2 ^ g.2) p)).filter (fun q => q.1.1)

def ravelPairs (F : List ((Bool × Nat) × Nat)) (a : Nat) : Nat := F.foldl (fun acc q => acc * 2 ^ q.1.2 + q.2) a

theorem ravelPairs_acc (F : List ((Bool × Nat) × Nat)) (a : Nat) :
    ravelPairs F a = a * 2 ^ (F.map (·.1.2)).sum + ravelPairs F 0 := by
  induction F generalizing a with
  | nil => simp [ravelPairs]
  | cons q F ih =>
    simp only [ravelPairs, List.foldl_cons] at ih ⊢
    rw [ih (a * 2 ^ q.1.2 + q.2), ih (0 * 2 ^ q.1.2 + q.2)]
    simp only [List.map_cons, List.sum_cons, pow_add]
    ring

theorem keptPairs_bits (z : List (Bool × Nat)) (p : Nat) : ((keptPairs z p).map (·.1.2)).sum = keptBits z := by
  have h := zip_filter_fst (fun g : Bool × Nat => g.1) z (unravel (z.map fun g => 2 ^ g.2) p)
    (by rw [unravel_length, List.length_map])
  unfold keptPairs keptBits
  rw [← h, List.map_map]; rfl

theorem ravelPairs_keptPairs : ∀ (z : List (Bool × Nat)) (p : Nat), ravelPairs (keptPairs z p) 0 = gIdx z p
  | [], p => by simp [keptPairs, ravelPairs, gIdx, unravel]
  | (b, c) :: r, p => by
    have hW : (r.map fun g => 2 ^ g.2).foldl (· * ·) 1 = 2 ^ grpBits r := by
      rw [foldl_mul_pow2, one_mul]; rfl
    have ih := ravelPairs_keptPairs r (p % 2 ^ grpBits r)
    have hk := keptPairs_bits r (p % 2 ^ grpBits r)
    have hunf : keptPairs ((b, c) :: r) p
        = if b then ((b, c), p / 2 ^ grpBits r) :: keptPairs r (p % 2 ^ grpBits r) else keptPairs r (p % 2 ^ grpBits r) := by
      simp only [keptPairs, List.map_cons, unravel, hW, List.zip_cons_cons, List.filter_cons]
    rw [hunf]
    cases b
    · simp only [Bool.false_eq_true, if_false, gIdx, ih, zero_add]
    · simp only [if_true, gIdx]
      rw [ravelPairs, List.foldl_cons]
      have := ravelPairs_acc (keptPairs r (p % 2 ^ grpBits r)) (0 * 2 ^ c + p / 2 ^ grpBits r)
      rw [ravelPairs] at this
      rw [this, hk, ih]
      ring

/-- the literal grouped index is the structural one -/
theorem keptIndexGrouped_eq_gIdx (n : Nat) (index : List Nat) (p : Nat) :
    keptIndexGrouped n index p = gIdx (runLength ((List.range n).map fun i => index.contains i)) p := by
  rw [← ravelPairs_keptPairs]
  simp only [keptIndexGrouped, measureGrouping]
  set z := runLength ((List.range n).map fun i => index.contains i) with hz
  have h1 := filter_pos_map (fun g : Bool × Nat => g.1) (false, 0) (0 : Nat) z (unravel (z.map fun g => 2 ^ g.2) p)
    (by rw [unravel_length, List.length_map])
  have h2 := filter_pos_map (fun g : Bool × Nat => g.1) (false, 0) (1 : Nat) z (z.map fun g => 2 ^ g.2) (by simp)
  have h3 : ((z.zip (z.map fun g => 2 ^ g.2)).filter fun q => q.1.1).map (·.2) = (keptPairs z p).map (fun q => 2 ^ q.1.2) := by
    have hz1 := zip_filter_fst (fun g : Bool × Nat => g.1) z (unravel (z.map fun g => 2 ^ g.2) p)
      (by rw [unravel_length, List.length_map])
    have : (keptPairs z p).map (fun q => 2 ^ q.1.2) = (z.filter (·.1)).map (fun g => 2 ^ g.2) := by
      unfold keptPairs; rw [← hz1, List.map_map]; rfl
    rw [this]
    clear h1 h2 hz1 this hz
    induction z with
    | nil => rfl
    | cons g z ih =>
      simp only [List.map_cons, List.zip_cons_cons, List.filter_cons]
      cases g.1 <;> simp [ih]
  rw [h1, h2, h3]
  unfold ravel ravelPairs
  rw [show List.filter (fun q => q.1.1) (z.zip (unravel (List.map (fun g => 2 ^ g.2) z) p)) = keptPairs z p from rfl,
    List.zip_map', List.foldl_map]



/-- positions of the `true` entries -/
def posTrue (K : List Bool) : List Nat := (List.range K.length).filter fun q => K.getD q false

theorem posTrue_cons (b : Bool) (r : List Bool) :
    posTrue (b :: r) = (if b then [0] else []) ++ (posTrue r).map Nat.succ := by
  unfold posTrue
  rw [List.length_cons, List.range_succ_eq_map, List.filter_cons, List.filter_map]
  have : (fun q => (b :: r).getD q false) ∘ Nat.succ = fun q => r.getD q false := by funext q; simp
  rw [this]
  cases b <;> simp

theorem posTrue_length (K : List Bool) : (posTrue K).length = K.count true := by
  induction K with
  | nil => rfl
  | cons b r ih => rw [posTrue_cons]; cases b <;> simp [ih]

theorem posTrue_lt (K : List Bool) : ∀ q ∈ posTrue K, q < K.length := by
  intro q hq; unfold posTrue at hq; simp at hq; exact hq.1

theorem foldl_bit_acc (h : Nat → Nat) (l : List Nat) (a : Nat) :
    l.foldl (fun acc q => 2 * acc + h q) a = a * 2 ^ l.length + l.foldl (fun acc q => 2 * acc + h q) 0 := by
  induction l generalizing a with
  | nil => simp
  | cons q l ih =>
    simp only [List.foldl_cons, List.length_cons]
    rw [ih (2 * a + h q), ih (2 * 0 + h q)]
    ring

theorem foldl_congr_mem {β : Type} (f g : β → Nat → β) (l : List Nat) (a : β) (h : ∀ q ∈ l, ∀ acc, f acc q = g acc q) :
    l.foldl f a = l.foldl g a := by
  induction l generalizing a with
  | nil => rfl
  | cons q l ih =>
    simp only [List.foldl_cons]
    rw [h q (by simp), ih _ (fun q' hq' => h q' (List.mem_cons_of_mem _ hq'))]

theorem keptIndexBitwise_posTrue : ∀ (K : List Bool) (p : Nat), keptIndexBitwise K.length (posTrue K) p = bIdx K p
  | [], p => by simp [keptIndexBitwise, posTrue, bIdx]
  | b :: r, p => by
    have ih := keptIndexBitwise_posTrue r (p % 2 ^ r.length)
    unfold keptIndexBitwise at ih ⊢
    rw [posTrue_cons, List.foldl_append, List.foldl_map]
    -- the tail reads the low bits only
    have htail : ∀ a, (posTrue r).foldl (fun acc q => 2 * acc + (p.testBit ((b :: r).length - 1 - q.succ)).toNat) a
        = (posTrue r).foldl (fun acc q => 2 * acc + ((p % 2 ^ r.length).testBit (r.length - 1 - q)).toNat) a := by
      intro a
      apply foldl_congr_mem
      intro q hq acc
      have hlt := posTrue_lt r q hq
      have e1 : (b :: r).length - 1 - q.succ = r.length - 1 - q := by simp; omega
      rw [e1, Nat.testBit_mod_two_pow]
      have : r.length - 1 - q < r.length := by omega
      simp [this]
    rw [htail, foldl_bit_acc, ih, posTrue_length]
    simp only [bIdx]
    cases b
    · simp
    · simp only [if_true, List.foldl_cons, List.foldl_nil, List.length_cons, Nat.add_sub_cancel, Nat.sub_zero, mul_zero, zero_add]
      congr 2
      rw [Nat.testBit, Nat.shiftRight_eq_div_pow]
      rcases Nat.mod_two_eq_zero_or_one (p / 2 ^ r.length) with h | h <;> simp [h]


theorem filter_contains_of_sublist {n : Nat} {index : List Nat} (h : index.Sublist (List.range n)) :
    (List.range n).filter (fun q => index.contains q) = index := by
  have h2 : (List.range n).Pairwise (· < ·) := List.pairwise_lt_range
  have h1 : index.Pairwise (· < ·) := h2.sublist h
  have h3 : ((List.range n).filter (fun q => index.contains q)).Pairwise (· < ·) := h2.sublist List.filter_sublist
  refine List.Pairwise.eq_of_mem_iff h3 h1 (fun a => ?_)
  simp only [List.mem_filter, List.contains_eq_mem, decide_eq_true_eq]
  exact ⟨fun h => h.2, fun ha => ⟨h.subset ha, ha⟩⟩

/-- **the grouping specification for every register size and every ascending subset** -/
theorem groupingSpec_all (n : Nat) (index : List Nat) (h : index ∈ (List.range n).sublists) : GroupingSpec n index := by
  rw [List.mem_sublists] at h
  intro p hp
  set K := (List.range n).map fun i => index.contains i with hK
  have hlen : K.length = n := by simp [hK]
  have hpos : posTrue K = index := by
    unfold posTrue
    rw [hlen, ← filter_contains_of_sublist h]
    apply List.filter_congr
    intro q hq
    have hq' : q < n := List.mem_range.1 hq
    simp [hK, List.getD_eq_getElem?_getD, hq']
  rw [keptIndexGrouped_eq_gIdx, gIdx_runLength_eq_bIdx K p (by rw [hlen]; exact hp)]
  have := keptIndexBitwise_posTrue K p
  rw [hlen, hpos] at this
  exact this.symm


end Numqi
