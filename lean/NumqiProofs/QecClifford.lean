/-
C19: the tableau step `conj1` is conjugation by the gate, on state vectors
(`applyGate g (P v) = P' (applyGate g v)` with `P' = conj1 P g`), for every gate of the model.
-/
import NumqiProofs.QecBits

namespace Numqi.Qec
variable {R : Type} [CommRing R]

theorem ipow_eq (I : R) (k : Nat) : ipow I k = I ^ k := by
  induction k with
  | zero => simp [ipow]
  | succ k ih => rw [ipow, ih, pow_succ]

theorem ipow_congr {I : R} (hI : I * I = -1) {a b : Nat} (h : a % 4 = b % 4) : ipow I a = ipow I b := by
  have h4 : I ^ 4 = 1 := by
    have : I ^ 4 = (I * I) * (I * I) := by ring
    rw [this, hI]; ring
  rw [ipow_eq, ipow_eq, ← Nat.div_add_mod a 4, ← Nat.div_add_mod b 4, pow_add, pow_add, pow_mul, pow_mul, h4, h]
  simp

theorem ipow_mod {I : R} (hI : I * I = -1) (a : Nat) : ipow I (a % 4) = ipow I a :=
  ipow_congr hI (by omega)

theorem ipow_add (I : R) (a b : Nat) : ipow I (a + b) = ipow I a * ipow I b := by
  simp only [ipow_eq, pow_add]

theorem ipow_zero (I : R) : ipow I 0 = 1 := rfl
theorem ipow_one (I : R) : ipow I 1 = I := by simp [ipow]
theorem ipow_two {I : R} (hI : I * I = -1) : ipow I 2 = -1 := by simp [ipow, hI]
theorem ipow_three {I : R} (hI : I * I = -1) : ipow I 3 = -I := by simp [ipow, hI]
theorem ipow_mul (I : R) (a b : Nat) : ipow I (a * b) = ipow (ipow I a) b := by
  simp only [ipow_eq, pow_mul]

/-- move single-bit flips to the right -/
theorem xor_bit_right_comm (a q b : Nat) : (a ^^^ bit q) ^^^ b = (a ^^^ b) ^^^ bit q := by ac_rfl

theorem bit_ne_testBit {c t : Nat} (h : c ≠ t) : (bit c).testBit t = false := by
  simp [testBit_bit, h]

theorem par_flipIf_and (c : Bool) (z a : Nat) {q : Nat} (hq : q < 32) :
    par (flipIf c z q &&& a) = (par (z &&& a) ^^ (c && a.testBit q)) := by
  cases c <;> simp [flipIf, par_fl_and _ _ hq]

theorem par_and_flipIf (c : Bool) (z a : Nat) {q : Nat} (hq : q < 32) :
    par (z &&& flipIf c a q) = (par (z &&& a) ^^ (c && z.testBit q)) := by
  cases c <;> simp [flipIf, par_and_fl _ _ hq]

theorem testBit_flipIf (c : Bool) (m q j : Nat) :
    (flipIf c m q).testBit j = (m.testBit j ^^ (c && decide (q = j))) := by
  cases c <;> simp [flipIf, testBit_bit]

theorem xor_flipIf (c : Bool) (a m q : Nat) : a ^^^ flipIf c m q = flipIf c (a ^^^ m) q := by
  cases c <;> simp [flipIf, Nat.xor_assoc]

/-- case split on a Boolean term, rewriting it everywhere in the goal -/
macro "bsplit " e:term : tactic =>
  `(tactic| (rcases Bool.eq_false_or_eq_true $e with h | h <;> simp only [h]))

section gates
variable {I : R} (hI : I * I = -1)
include hI

theorem conj1_x (p : MP) (q : Nat) (hq : q < 32) (v : Nat → R) :
    applyGate I (.x q) (pauliAct I p v)
      = pauliAct I ⟨(p.k + 2 * (tb p.z q).toNat) % 4, p.x, p.z⟩ (applyGate I (.x q) v) := by
  funext i
  simp only [applyGate, pauliAct, fl, tb, xor_bit_right_comm, par_and_fl _ _ hq]
  bsplit (par (p.z &&& (i ^^^ p.x))) <;> bsplit (p.z.testBit q) <;>
    simp [ipow_add, ipow_mod hI, ipow_two hI]

theorem conj1_z (p : MP) (q : Nat) (v : Nat → R) :
    applyGate I (.z q) (pauliAct I p v)
      = pauliAct I ⟨(p.k + 2 * (tb p.x q).toNat) % 4, p.x, p.z⟩ (applyGate I (.z q) v) := by
  funext i
  simp only [applyGate, pauliAct, tb, Nat.testBit_xor]
  bsplit (par (p.z &&& (i ^^^ p.x))) <;> bsplit (p.x.testBit q) <;> bsplit (i.testBit q) <;>
    simp [ipow_add, ipow_mod hI, ipow_two hI]

theorem conj1_s (p : MP) (q : Nat) (hq : q < 32) (v : Nat → R) :
    applyGate I (.s q) (pauliAct I p v)
      = pauliAct I ⟨(p.k + (tb p.x q).toNat) % 4, p.x, flipIf (tb p.x q) p.z q⟩ (applyGate I (.s q) v) := by
  funext i
  simp only [applyGate, pauliAct, tb, par_flipIf_and _ _ _ hq, Nat.testBit_xor]
  bsplit (p.x.testBit q) <;> bsplit (i.testBit q) <;> bsplit (par (p.z &&& (i ^^^ p.x))) <;>
    simp [ipow_add, ipow_mod hI, ipow_two hI, ipow_one] <;>
    first | ring1 | linear_combination (ipow I p.k * v (i ^^^ p.x)) * hI | linear_combination (-(ipow I p.k * v (i ^^^ p.x))) * hI

theorem conj1_cx (p : MP) (c t : Nat) (hc : c < 32) (ht : t < 32) (hct : c ≠ t) (v : Nat → R) :
    applyGate I (.cx c t) (pauliAct I p v)
      = pauliAct I ⟨p.k % 4, flipIf (tb p.x c) p.x t, flipIf (tb p.z t) p.z c⟩ (applyGate I (.cx c t) v) := by
  funext i
  have htc : ¬ (t = c) := fun e => hct e.symm
  simp only [applyGate, pauliAct, tb, fl, xor_flipIf, par_flipIf_and _ _ _ hc, par_and_flipIf _ _ _ ht,
    testBit_flipIf, Nat.testBit_xor, xor_bit_right_comm, par_and_fl _ _ ht, htc, decide_false, Bool.and_false, Bool.xor_false]
  bsplit (p.x.testBit c) <;> bsplit (i.testBit c) <;> bsplit (p.z.testBit t) <;>
    bsplit (par (p.z &&& (i ^^^ p.x))) <;>
    simp [flipIf, xor_bit_cancel, ipow_add, ipow_mod hI, ipow_two hI]

theorem conj1_cz (p : MP) (c t : Nat) (hc : c < 32) (ht : t < 32) (v : Nat → R) :
    applyGate I (.cz c t) (pauliAct I p v)
      = pauliAct I ⟨(p.k + 2 * (tb p.x c && tb p.x t).toNat) % 4, p.x,
          flipIf (tb p.x c) (flipIf (tb p.x t) p.z c) t⟩ (applyGate I (.cz c t) v) := by
  funext i
  simp only [applyGate, pauliAct, tb, par_flipIf_and _ _ _ hc, par_flipIf_and _ _ _ ht, Nat.testBit_xor]
  bsplit (p.x.testBit c) <;> bsplit (p.x.testBit t) <;> bsplit (i.testBit c) <;> bsplit (i.testBit t) <;>
    bsplit (par (p.z &&& (i ^^^ p.x))) <;>
    simp [ipow_add, ipow_mod hI, ipow_two hI]

theorem conj1_y (p : MP) (q : Nat) (hq : q < 32) (v : Nat → R) :
    applyGate I (.y q) (pauliAct I p v)
      = pauliAct I ⟨(p.k + 2 * (tb p.x q).toNat + 2 * (tb p.z q).toNat) % 4, p.x, p.z⟩ (applyGate I (.y q) v) := by
  funext i
  simp only [applyGate, pauliAct, tb, fl, Nat.testBit_xor, xor_bit_right_comm, par_and_fl _ _ hq]
  bsplit (p.x.testBit q) <;> bsplit (p.z.testBit q) <;> bsplit (i.testBit q) <;>
    bsplit (par (p.z &&& (i ^^^ p.x))) <;>
    simp [ipow_add, ipow_mod hI, ipow_two hI] <;> ring1

theorem conj1_cy (p : MP) (c t : Nat) (hc : c < 32) (ht : t < 32) (hct : c ≠ t) (v : Nat → R) :
    applyGate I (.cy c t) (pauliAct I p v)
      = pauliAct I
          (let xt := tb p.x t
           let k1 := (p.k + 3 * xt.toNat) % 4
           let z1 := flipIf xt p.z t
           let x2 := flipIf (tb p.x c) p.x t
           let z2 := flipIf (tb z1 t) z1 c
           let xt2 := tb x2 t
           ⟨(k1 + xt2.toNat) % 4, x2, flipIf xt2 z2 t⟩) (applyGate I (.cy c t) v) := by
  funext i
  have htc : ¬ (t = c) := fun e => hct e.symm
  have h2 : I ^ 2 = -1 := by rw [pow_two, hI]
  have h3 : I ^ 3 = -I := by rw [pow_succ, h2]; ring
  simp only [applyGate, pauliAct, tb, fl, xor_flipIf, par_flipIf_and _ _ _ hc, par_flipIf_and _ _ _ ht, par_and_flipIf _ _ _ ht,
    testBit_flipIf, Nat.testBit_xor, xor_bit_right_comm, par_and_fl _ _ ht, htc, decide_false, decide_true, Bool.and_false, Bool.xor_false,
    Bool.and_true]
  bsplit (p.x.testBit c) <;> bsplit (p.x.testBit t) <;> bsplit (i.testBit c) <;> bsplit (i.testBit t) <;> bsplit (p.z.testBit t) <;>
    bsplit (par (p.z &&& (i ^^^ p.x))) <;>
    simp [flipIf, xor_bit_cancel, ipow_add, ipow_mod hI, ipow_two hI, ipow_one, ipow_three hI] <;>
    first | ring1 | (ring_nf; simp only [h2, h3]; ring1)

theorem conj1_h (p : MP) (q : Nat) (hq : q < 32) (v : Nat → R) :
    applyGate I (.h q) (pauliAct I p v)
      = pauliAct I ⟨(p.k + 2 * (tb p.x q && tb p.z q).toNat) % 4, flipIf (tb p.x q != tb p.z q) p.x q,
          flipIf (tb p.x q != tb p.z q) p.z q⟩ (applyGate I (.h q) v) := by
  funext i
  simp only [applyGate, pauliAct, tb, fl, xor_flipIf, par_flipIf_and _ _ _ hq, par_and_flipIf _ _ _ hq,
    testBit_flipIf, Nat.testBit_xor, xor_bit_right_comm, par_and_fl _ _ hq, decide_true, Bool.and_true]
  bsplit (p.x.testBit q) <;> bsplit (p.z.testBit q) <;> bsplit (i.testBit q) <;>
    bsplit (par (p.z &&& (i ^^^ p.x))) <;>
    simp [flipIf, xor_bit_cancel, ipow_add, ipow_mod hI, ipow_two hI] <;> ring1

/-- **The tableau step is conjugation by the gate**: `G (P v) = P' (G v)` with `P' = conj1 P G`,
for every gate of the model on qubits `< n ≤ 32`. -/
theorem conj1_sound {n : Nat} (hn : n ≤ 32) (g : Gate) (hg : gateOk n g = true) (p p' : MP)
    (h : conj1 p g = some p') (v : Nat → R) :
    applyGate I g (pauliAct I p v) = pauliAct I p' (applyGate I g v) := by
  cases g with
  | h q =>
    simp only [gateOk, decide_eq_true_eq] at hg
    simp only [conj1, Option.some.injEq] at h
    rw [← h]; exact conj1_h hI p q (by omega) v
  | x q =>
    simp only [gateOk, decide_eq_true_eq] at hg
    simp only [conj1, Option.some.injEq] at h
    rw [← h]; exact conj1_x hI p q (by omega) v
  | y q =>
    simp only [gateOk, decide_eq_true_eq] at hg
    simp only [conj1, Option.some.injEq] at h
    rw [← h]; exact conj1_y hI p q (by omega) v
  | z q =>
    simp only [conj1, Option.some.injEq] at h
    rw [← h]; exact conj1_z hI p q v
  | s q =>
    simp only [gateOk, decide_eq_true_eq] at hg
    simp only [conj1, Option.some.injEq] at h
    rw [← h]; exact conj1_s hI p q (by omega) v
  | cx c t =>
    simp only [gateOk, Bool.and_eq_true, decide_eq_true_eq, bne_iff_ne, ne_eq] at hg
    have hct : (c == t) = false := by simpa using hg.2
    simp only [conj1, hct, Bool.false_eq_true, if_false, Option.some.injEq] at h
    rw [← h]; exact conj1_cx hI p c t (by omega) (by omega) hg.2 v
  | cy c t =>
    simp only [gateOk, Bool.and_eq_true, decide_eq_true_eq, bne_iff_ne, ne_eq] at hg
    have hct : (c == t) = false := by simpa using hg.2
    simp only [conj1, hct, Bool.false_eq_true, if_false, Option.some.injEq] at h
    rw [← h]; exact conj1_cy hI p c t (by omega) (by omega) hg.2 v
  | cz c t =>
    simp only [gateOk, Bool.and_eq_true, decide_eq_true_eq, bne_iff_ne, ne_eq] at hg
    have hct : (c == t) = false := by simpa using hg.2
    simp only [conj1, hct, Bool.false_eq_true, if_false, Option.some.injEq] at h
    rw [← h]; exact conj1_cz hI p c t (by omega) (by omega) v
  | unknown => simp [gateOk] at hg

/-- the same through a whole circuit: `U (P v) = P' (U v)` with `P' = conjCirc P gates` -/
theorem conjCirc_sound {n : Nat} (hn : n ≤ 32) (gs : List Gate) (hg : gs.all (gateOk n) = true) (p p' : MP)
    (h : conjCirc p gs = some p') (v : Nat → R) :
    run I gs (pauliAct I p v) = pauliAct I p' (run I gs v) := by
  induction gs generalizing p v with
  | nil => simp only [conjCirc, Option.some.injEq] at h; subst h; rfl
  | cons g gs ih =>
    simp only [List.all_cons, Bool.and_eq_true] at hg
    simp only [conjCirc] at h
    cases h1 : conj1 p g with
    | none => simp [h1] at h
    | some p1 =>
      simp only [h1] at h
      simp only [run]
      rw [conj1_sound hI hn g hg.1 p p1 h1 v]
      exact ih hg.2 p1 h _

end gates
end Numqi.Qec
