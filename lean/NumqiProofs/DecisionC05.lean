/-
C05, verdict layer — property theorems about `NumqiModel/Decision.lean` at the constants of
`NumqiModel/Generated/Thresholds.lean` (regenerated from the numqi sources on every run).
Listed in `THEOREM_FILES` of `harness/c05.py`; kept apart from `NumqiProps/C05.lean` so that a change of a tolerance or
comparison in the source breaks exactly these obligations.
-/
import NumqiModel.Decision
import Mathlib.Tactic
import Mathlib.Data.Real.Basic

namespace Numqi.C05
open Numqi Numqi.Ent Numqi.Ent.Thresholds

/-! ## (iii) verdict layer: robust acceptance with the regenerated constants -/

/-- every comparison / guard of the verdict functions was recognised by the translator -/
theorem thresholds_recognised :
    psdCholesky = true ∧ psdShiftCoeff ≠ 0 ∧ isPptShiftCoeff ≠ 0 ∧ reductionShiftCoeff ≠ 0 ∧
    gpptAcceptOp ≠ Cmp.other ∧ gpptBreakOp ≠ Cmp.other ∧ gpptRhsOnePlusThreshold = true ∧ swapOp ≠ Cmp.other := by
  decide

/-- the Hermiticity guards of `is_ppt`, `check_reduction_witness`, `get_negativity` are present and complete (reject real-asymmetric,
imaginary-diagonal and imaginary-symmetric deviations of size `1` and `1e-9`, accept deviations of `1e-12`) -/
theorem herm_guards_recognised : isPptHermGuard = true ∧ reductionHermGuard = true ∧ negativityHermGuard = true := by
  decide

/-- a guard never rejects a Hermitian matrix - in particular never a separable state -/
theorem hermGuard_accepts_hermitian (guard : Bool) (N : ℕ) (herm : ℕ → ℕ → Bool) (h : ∀ r c, r < N → c < N → herm r c = true) :
    hermGuardRejects guard N herm = false := by
  have hall : ((List.range N).all fun r => (List.range N).all fun c => herm r c) = true := by
    simp only [List.all_eq_true, List.mem_range]
    exact fun r hr c hc => h r c hr hc
  simp [hermGuardRejects, hall]

/-- with the guard present, a matrix with a non-Hermitian pair of entries is rejected -/
theorem hermGuard_rejects (N : ℕ) (herm : ℕ → ℕ → Bool) (r c : ℕ) (hr : r < N) (hc : c < N) (h : herm r c = false) :
    hermGuardRejects true N herm = true := by
  have hall : ((List.range N).all fun r => (List.range N).all fun c => herm r c) = false := by
    rw [Bool.eq_false_iff]
    intro hh
    simp only [List.all_eq_true, List.mem_range] at hh
    rw [hh r hr c hc] at h
    exact Bool.noConfusion h
  simp [hermGuardRejects, hall]

/-- the shift that `is_ppt` really adds to the diagonal before Cholesky, at the default `eps` -/
def pptSlack : ℚ := (psdShiftCoeff : ℚ) * ((isPptShiftCoeff : ℚ) * isPptEpsDefault)
/-- … and `check_reduction_witness` -/
def reductionSlack : ℚ := (psdShiftCoeff : ℚ) * ((reductionShiftCoeff : ℚ) * reductionEpsDefault)
/-- distance of the swap-witness threshold below the exact bound 0 -/
def swapSlack : ℚ := -swapEpsDefault
/-- distance of the nuclear-norm threshold above the exact bound 1 -/
def gpptSlack : ℚ := gpptThresholdDefault

/-- **slack obligations**: every criterion has strictly positive room for rounding. These fail to elaborate when a
default tolerance is set to 0, changes sign, or a shift is applied with the wrong sign. -/
theorem ppt_slack_pos : 0 < pptSlack := by
  norm_num [pptSlack, psdShiftCoeff, isPptShiftCoeff, isPptEpsDefault]
theorem reduction_slack_pos : 0 < reductionSlack := by
  norm_num [reductionSlack, psdShiftCoeff, reductionShiftCoeff, reductionEpsDefault]
theorem swap_slack_pos : 0 < swapSlack := by
  norm_num [swapSlack, swapEpsDefault]
theorem gppt_slack_pos : 0 < gpptSlack := by
  norm_num [gpptSlack, gpptThresholdDefault]

/-- **`is_ppt` accepts robustly**: if the exact smallest eigenvalue of a partial transpose is `≥ 0` (theorem
`sep_ppt_full`) and the eigenvalue seen by Cholesky differs from it by at most `δ < slack`, the verdict is `True`. -/
theorem isPpt_robust_accept (lminExact lmin δ : ℝ) (h0 : 0 ≤ lminExact) (hδ : |lmin - lminExact| ≤ δ)
    (hs : δ < (pptSlack : ℝ)) : isPptAccept ((isPptEpsDefault : ℚ) : ℝ) lmin = true := by
  have := abs_le.1 hδ
  simp only [isPptAccept, psdAccept, psdCholesky, Bool.true_and, decide_eq_true_eq]
  have e : ((pptSlack : ℚ) : ℝ) = ((psdShiftCoeff : ℤ) : ℝ) * (((isPptShiftCoeff : ℤ) : ℝ) * ((isPptEpsDefault : ℚ) : ℝ)) := by
    simp [pptSlack]
  rw [e] at hs
  linarith [this.1]

theorem reduction_robust_accept (lminExact lmin δ : ℝ) (h0 : 0 ≤ lminExact) (hδ : |lmin - lminExact| ≤ δ)
    (hs : δ < (reductionSlack : ℝ)) : reductionAccept ((reductionEpsDefault : ℚ) : ℝ) lmin = true := by
  have := abs_le.1 hδ
  simp only [reductionAccept, psdAccept, psdCholesky, Bool.true_and, decide_eq_true_eq]
  have e : ((reductionSlack : ℚ) : ℝ) = ((psdShiftCoeff : ℤ) : ℝ) * (((reductionShiftCoeff : ℤ) : ℝ) * ((reductionEpsDefault : ℚ) : ℝ)) := by
    simp [reductionSlack]
  rw [e] at hs
  linarith [this.1]

/-- **`check_swap_witness` accepts robustly** -/
theorem swap_robust_accept (vExact v δ : ℝ) (h0 : 0 ≤ vExact) (hδ : |v - vExact| ≤ δ)
    (hs : δ < (swapSlack : ℝ)) : swapAccept ((swapEpsDefault : ℚ) : ℝ) v = true := by
  have := abs_le.1 hδ
  have e : ((swapSlack : ℚ) : ℝ) = -((swapEpsDefault : ℚ) : ℝ) := by simp [swapSlack]
  rw [e] at hs
  simp only [swapAccept, swapOp, Cmp.eval, decide_eq_true_eq]
  linarith [this.1]

/-- **`is_generalized_ppt` accepts robustly**: exact nuclear norm `≤ 1`, rounding `δ ≤ threshold` -/
theorem gppt_robust_accept (nucExact nuc δ : ℝ) (h1 : nucExact ≤ 1) (hδ : |nuc - nucExact| ≤ δ)
    (hs : δ ≤ (gpptSlack : ℝ)) : gpptAccept ((gpptThresholdDefault : ℚ) : ℝ) nuc = true := by
  have := abs_le.1 hδ
  have e : ((gpptSlack : ℚ) : ℝ) = ((gpptThresholdDefault : ℚ) : ℝ) := rfl
  rw [e] at hs
  simp only [gpptAccept, gpptRhsOnePlusThreshold, gpptAcceptOp, Cmp.eval, Bool.true_and, decide_eq_true_eq]
  linarith [this.2]

/-- the early exit of `is_generalized_ppt` (`return_info=False`) fires exactly when the final test would fail,
for every threshold: both return paths give the same verdict -/
theorem gppt_break_iff_reject (threshold nuc : ℝ) : gpptBreak threshold nuc = !gpptAccept threshold nuc := by
  simp only [gpptBreak, gpptAccept, gpptRhsOnePlusThreshold, gpptAcceptOp, gpptBreakOp, Cmp.eval, Bool.true_and]
  by_cases h : nuc ≤ 1 + threshold <;> simp [h, not_lt.2, lt_of_not_ge]


/-! ## non-vacuity -/

/-- the robust-acceptance hypotheses are satisfiable: exact value on the boundary, no rounding -/
example : isPptAccept ((isPptEpsDefault : ℚ) : ℝ) 0 = true :=
  isPpt_robust_accept 0 0 0 le_rfl (by simp) (by exact_mod_cast ppt_slack_pos)

example : gpptAccept ((gpptThresholdDefault : ℚ) : ℝ) 1 = true :=
  gppt_robust_accept 1 1 0 le_rfl (by simp) (by exact_mod_cast gppt_slack_pos.le)

/-- a rejection is a certificate: `is_ppt` answers False only if the (computed) eigenvalue is below `-slack` -/
example (lmin : ℝ) (h : isPptAccept ((isPptEpsDefault : ℚ) : ℝ) lmin = false) : lmin ≤ -(pptSlack : ℝ) := by
  by_contra hc
  simp only [isPptAccept, psdAccept, psdCholesky, Bool.true_and, decide_eq_false_iff_not, not_lt] at h
  have e : ((pptSlack : ℚ) : ℝ) = ((psdShiftCoeff : ℤ) : ℝ) * (((isPptShiftCoeff : ℤ) : ℝ) * ((isPptEpsDefault : ℚ) : ℝ)) := by
    simp [pptSlack]
  rw [e] at hc
  linarith

end Numqi.C05
