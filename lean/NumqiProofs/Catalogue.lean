/-
Helper lemmas for C18: sums of Kronecker deltas over `Fin d × Fin d`, the swap and the trace functionals.
-/
import NumqiModel.Catalogue
import Mathlib.Tactic
import Mathlib.Data.Matrix.Mul
import Mathlib.Algebra.BigOperators.Fin
import Mathlib.Algebra.BigOperators.Ring.Finset
import Mathlib.Algebra.Order.Chebyshev
import Mathlib.Algebra.Order.BigOperators.Ring.Finset

set_option linter.unusedSectionVars false

namespace Numqi.Catalogue
open Finset

variable {K : Type} [Field K]

theorem delta_fin {d : ℕ} (i j : Fin d) : (delta (i : ℕ) (j : ℕ) : K) = if i = j then 1 else 0 := by
  simp only [delta, Fin.ext_iff]

theorem delta_comm (i j : ℕ) : (delta i j : K) = delta j i := by
  simp only [delta, eq_comm]

/-- `Σ_q δ_{p q} f q = f p` -/
theorem sum_delta_left {d : ℕ} (p : Fin d) (f : Fin d → K) : ∑ q : Fin d, (delta (p : ℕ) (q : ℕ) : K) * f q = f p := by
  simp [delta_fin]

theorem sum_delta_right {d : ℕ} (p : Fin d) (f : Fin d → K) : ∑ q : Fin d, (delta (q : ℕ) (p : ℕ) : K) * f q = f p := by
  simp [delta_fin]

/-- quadratic form of a matrix given by an entry function on index pairs -/
def qform {ι : Type} [Fintype ι] (M : ι → ι → K) (x : ι → K) : K := ∑ p, ∑ q, x p * M p q * x q

/-- the swap functional `T(x) = Σ_{ij} x_ij x_ji` and the norm `S(x) = Σ_{ij} x_ij²` -/
def Ssum {d : ℕ} (x : Fin d × Fin d → K) : K := ∑ i, ∑ j, x (i, j) * x (i, j)
def Tsum {d : ℕ} (x : Fin d × Fin d → K) : K := ∑ i, ∑ j, x (i, j) * x (j, i)
def Dsum {d : ℕ} (x : Fin d × Fin d → K) : K := ∑ i, x (i, i)

theorem Ssum_swap {d : ℕ} (x : Fin d × Fin d → K) : ∑ i, ∑ j, x (j, i) * x (j, i) = Ssum x := by
  unfold Ssum; rw [Finset.sum_comm]

/-- `Σ_{pq} x_p (δ_ik δ_jl) x_q = S` -/
theorem qform_id {d : ℕ} (x : Fin d × Fin d → K) :
    qform (fun p q : Fin d × Fin d => (delta (p.1 : ℕ) (q.1 : ℕ) * delta (p.2 : ℕ) (q.2 : ℕ) : K)) x = Ssum x := by
  unfold qform Ssum
  simp only [Fintype.sum_prod_type]
  refine Finset.sum_congr rfl fun i _ => Finset.sum_congr rfl fun j _ => ?_
  have : ∀ k l : Fin d, x (i, j) * (delta (i : ℕ) (k : ℕ) * delta (j : ℕ) (l : ℕ)) * x (k, l)
      = delta (i : ℕ) (k : ℕ) * (delta (j : ℕ) (l : ℕ) * (x (i, j) * x (k, l))) := fun k l => by ring
  simp only [this, ← Finset.mul_sum, sum_delta_left]

/-- `Σ_{pq} x_p (δ_il δ_jk) x_q = T` -/
theorem qform_swap {d : ℕ} (x : Fin d × Fin d → K) :
    qform (fun p q : Fin d × Fin d => (delta (p.1 : ℕ) (q.2 : ℕ) * delta (p.2 : ℕ) (q.1 : ℕ) : K)) x = Tsum x := by
  unfold qform Tsum
  simp only [Fintype.sum_prod_type]
  refine Finset.sum_congr rfl fun i _ => Finset.sum_congr rfl fun j _ => ?_
  have : ∀ k l : Fin d, x (i, j) * (delta (i : ℕ) (l : ℕ) * delta (j : ℕ) (k : ℕ)) * x (k, l)
      = delta (j : ℕ) (k : ℕ) * (delta (i : ℕ) (l : ℕ) * (x (i, j) * x (k, l))) := fun k l => by ring
  simp only [this, ← Finset.mul_sum, sum_delta_left]

/-- `Σ_{pq} x_p (δ_ij δ_kl) x_q = (Σ_i x_ii)²` -/
theorem qform_diag {d : ℕ} (x : Fin d × Fin d → K) :
    qform (fun p q : Fin d × Fin d => (delta (p.1 : ℕ) (p.2 : ℕ) * delta (q.1 : ℕ) (q.2 : ℕ) : K)) x = Dsum x * Dsum x := by
  unfold qform Dsum
  simp only [Fintype.sum_prod_type]
  have : ∀ i j k l : Fin d, x (i, j) * (delta (i : ℕ) (j : ℕ) * delta (k : ℕ) (l : ℕ)) * x (k, l)
      = (delta (i : ℕ) (j : ℕ) * x (i, j)) * (delta (k : ℕ) (l : ℕ) * x (k, l)) := fun i j k l => by ring
  simp only [this, ← Finset.mul_sum, ← Finset.sum_mul, sum_delta_left]

theorem qform_add {ι : Type} [Fintype ι] (M N : ι → ι → K) (x : ι → K) :
    qform (fun p q => M p q + N p q) x = qform M x + qform N x := by
  unfold qform; simp only [mul_add, add_mul, Finset.sum_add_distrib]

theorem qform_smul {ι : Type} [Fintype ι] (c : K) (M : ι → ι → K) (x : ι → K) :
    qform (fun p q => c * M p q) x = c * qform M x := by
  unfold qform; simp only [Finset.mul_sum]
  refine Finset.sum_congr rfl fun p _ => Finset.sum_congr rfl fun q _ => by ring

section order
variable [LinearOrder K] [IsStrictOrderedRing K]

theorem Ssum_nonneg {d : ℕ} (x : Fin d × Fin d → K) : 0 ≤ Ssum x :=
  Finset.sum_nonneg fun i _ => Finset.sum_nonneg fun j _ => mul_self_nonneg _

/-- `|T| ≤ S` -/
theorem S_add_T_nonneg {d : ℕ} (x : Fin d × Fin d → K) : 0 ≤ Ssum x + Tsum x := by
  have h : 0 ≤ ∑ i, ∑ j, (x (i, j) + x (j, i)) * (x (i, j) + x (j, i)) :=
    Finset.sum_nonneg fun i _ => Finset.sum_nonneg fun j _ => mul_self_nonneg _
  have e : ∑ i, ∑ j, (x (i, j) + x (j, i)) * (x (i, j) + x (j, i)) = 2 * (Ssum x + Tsum x) := by
    have : ∀ i j : Fin d, (x (i, j) + x (j, i)) * (x (i, j) + x (j, i))
        = x (i, j) * x (i, j) + x (j, i) * x (j, i) + 2 * (x (i, j) * x (j, i)) := fun i j => by ring
    simp only [this, Finset.sum_add_distrib, ← Finset.mul_sum, Ssum_swap]
    unfold Ssum Tsum; ring
  rw [e] at h; linarith

theorem S_sub_T_nonneg {d : ℕ} (x : Fin d × Fin d → K) : 0 ≤ Ssum x - Tsum x := by
  have h : 0 ≤ ∑ i, ∑ j, (x (i, j) - x (j, i)) * (x (i, j) - x (j, i)) :=
    Finset.sum_nonneg fun i _ => Finset.sum_nonneg fun j _ => mul_self_nonneg _
  have e : ∑ i, ∑ j, (x (i, j) - x (j, i)) * (x (i, j) - x (j, i)) = 2 * (Ssum x - Tsum x) := by
    have : ∀ i j : Fin d, (x (i, j) - x (j, i)) * (x (i, j) - x (j, i))
        = x (i, j) * x (i, j) + x (j, i) * x (j, i) - 2 * (x (i, j) * x (j, i)) := fun i j => by ring
    simp only [this, Finset.sum_add_distrib, Finset.sum_sub_distrib, ← Finset.mul_sum, Ssum_swap]
    unfold Ssum Tsum; ring
  rw [e] at h; linarith

/-- Cauchy–Schwarz: `(Σ_i x_ii)² ≤ d · S` -/
theorem Dsum_sq_le {d : ℕ} (x : Fin d × Fin d → K) : Dsum x * Dsum x ≤ (d : K) * Ssum x := by
  have h1 := sq_sum_le_card_mul_sum_sq (s := (Finset.univ : Finset (Fin d))) (f := fun i => x (i, i))
  simp only [Finset.card_univ, Fintype.card_fin] at h1
  have h2 : ∑ i, x (i, i) ^ 2 ≤ Ssum x := by
    unfold Ssum
    refine Finset.sum_le_sum fun i _ => ?_
    rw [sq]
    exact Finset.single_le_sum (f := fun j => x (i, j) * x (i, j)) (fun j _ => mul_self_nonneg _) (Finset.mem_univ i)
  have hd : (0 : K) ≤ d := Nat.cast_nonneg d
  calc Dsum x * Dsum x = (∑ i, x (i, i)) ^ 2 := by unfold Dsum; ring
    _ ≤ (d : K) * ∑ i, x (i, i) ^ 2 := h1
    _ ≤ (d : K) * Ssum x := mul_le_mul_of_nonneg_left h2 hd

end order

end Numqi.Catalogue
