/-
Tripartite test `is_ABC_completely_entangled_subspace` at level 1 (C20): the two bipartition cuts, and the step from a linear
relation among the vectors of a family to a kernel vector of its Gram matrix.
-/
import NumqiProofs.MatrixSpaceLemmas

namespace Numqi.MatrixSpace
open Finset

section
variable {R : Type} [CommRing R]

theorem antisym2_symm (X Y : ℕ → ℕ → R) (x y x' y' : ℕ) : antisym2 Y X x y x' y' = antisym2 X Y x y x' y' := by
  unfold antisym2; ring

/-- the polarised `2×2` minor of a rank-one matrix vanishes -/
theorem antisym2_rank_one (u v : ℕ → R) (x y x' y' : ℕ) :
    antisym2 (fun a b => u a * v b) (fun a b => u a * v b) x y x' y' = 0 := by
  unfold antisym2; ring

theorem antisym2_bilinear {N : ℕ} (c : Fin N → R) (S : Fin N → ℕ → ℕ → R) (x y x' y' : ℕ) :
    antisym2 (fun a b => ∑ i, c i * S i a b) (fun a b => ∑ i, c i * S i a b) x y x' y'
      = ∑ i, ∑ j, c i * c j * antisym2 (S i) (S j) x y x' y' := by
  unfold antisym2
  simp only [Finset.sum_mul_sum, mul_sub, mul_add, Finset.sum_sub_distrib, Finset.sum_add_distrib]
  have h : ∀ (f g : Fin N → R), ∑ i, ∑ j, c i * f i * (c j * g j) = ∑ i, ∑ j, c i * c j * (f i * g j) :=
    fun f g => Finset.sum_congr rfl fun i _ => Finset.sum_congr rfl fun j _ => by ring
  simp only [h]

theorem matA_BC_sum {N : ℕ} (dC : ℕ) (c : Fin N → R) (S : Fin N → ℕ → ℕ → ℕ → R) :
    matA_BC dC (fun a b z => ∑ i, c i * S i a b z) = fun a bc => ∑ i, c i * matA_BC dC (S i) a bc := rfl

theorem matAB_C_sum {N : ℕ} (dB : ℕ) (c : Fin N → R) (S : Fin N → ℕ → ℕ → ℕ → R) :
    matAB_C dB (fun a b z => ∑ i, c i * S i a b z) = fun ab z => ∑ i, c i * matAB_C dB (S i) ab z := rfl

/-- both matricisations of a product tensor `x ⊗ y ⊗ z` have rank one -/
theorem matA_BC_product (dC : ℕ) (x y z : ℕ → R) :
    matA_BC dC (fun a b c => x a * y b * z c) = fun a bc => x a * (y (bc / dC) * z (bc % dC)) := by
  funext a bc; unfold matA_BC; ring

theorem matAB_C_product (dB : ℕ) (x y z : ℕ → R) :
    matAB_C dB (fun a b c => x a * y b * z c) = fun ab c => (x (ab / dB) * y (ab % dB)) * z c := rfl

/-- the matricisations are the plain reshapes: at row-major positions they read the tensor entry -/
theorem matA_BC_apply (dC : ℕ) (T : ℕ → ℕ → ℕ → R) (a b c : ℕ) (hc : c < dC) : matA_BC dC T a (b * dC + c) = T a b c := by
  unfold matA_BC
  have h1 : (b * dC + c) / dC = b := by
    rw [Nat.add_comm, Nat.add_mul_div_right _ _ (by omega : 0 < dC), Nat.div_eq_of_lt hc, Nat.zero_add]
  have h2 : (b * dC + c) % dC = c := by rw [Nat.add_comm, Nat.add_mul_mod_self_right, Nat.mod_eq_of_lt hc]
  rw [h1, h2]

theorem matAB_C_apply (dB : ℕ) (T : ℕ → ℕ → ℕ → R) (a b c : ℕ) (hb : b < dB) : matAB_C dB T (a * dB + b) c = T a b c := by
  unfold matAB_C
  have h1 : (a * dB + b) / dB = a := by
    rw [Nat.add_comm, Nat.add_mul_div_right _ _ (by omega : 0 < dB), Nat.div_eq_of_lt hb, Nat.zero_add]
  have h2 : (a * dB + b) % dB = b := by rw [Nat.add_comm, Nat.add_mul_mod_self_right, Nat.mod_eq_of_lt hb]
  rw [h1, h2]

theorem abcEntry_symm (dB dC : ℕ) (T1 T2 : ℕ → ℕ → ℕ → R) (a b c a' b' c' : ℕ) :
    abcEntry dB dC T2 T1 a b c a' b' c' = abcEntry dB dC T1 T2 a b c a' b' c' := by
  unfold abcEntry; rw [antisym2_symm, antisym2_symm (matAB_C dB T1)]

theorem abcEntry_product (dB dC : ℕ) (x y z : ℕ → R) (a b c a' b' c' : ℕ) :
    abcEntry dB dC (fun a b c => x a * y b * z c) (fun a b c => x a * y b * z c) a b c a' b' c' = 0 := by
  unfold abcEntry
  rw [matA_BC_product, matAB_C_product,
    antisym2_rank_one x (fun bc => y (bc / dC) * z (bc % dC)), antisym2_rank_one (fun ab => x (ab / dB) * y (ab % dB)) z, add_zero]

theorem abcEntry_bilinear {N : ℕ} (dB dC : ℕ) (c : Fin N → R) (S : Fin N → ℕ → ℕ → ℕ → R) (a b z a' b' z' : ℕ) :
    abcEntry dB dC (fun a b z => ∑ i, c i * S i a b z) (fun a b z => ∑ i, c i * S i a b z) a b z a' b' z'
      = ∑ i, ∑ j, c i * c j * abcEntry dB dC (S i) (S j) a b z a' b' z' := by
  unfold abcEntry
  rw [matA_BC_sum, matAB_C_sum, antisym2_bilinear c (fun i => matA_BC dC (S i)), antisym2_bilinear c (fun i => matAB_C dB (S i)),
    ← Finset.sum_add_distrib]
  refine Finset.sum_congr rfl fun i _ => ?_
  rw [← Finset.sum_add_distrib]
  exact Finset.sum_congr rfl fun j _ => by ring

end

/-- **a linear relation among the vectors of a family gives a kernel vector of their Gram matrix**
(`G[α,β] = Σ_x v_α[x]·conj v_β[x]`, the matrix `matAAT` / `TAlphaBeta` of the implementation) -/
theorem gram_kernel_of_relation {R : Type} [CommRing R] [StarRing R] {ι κ : Type} [Fintype ι] [Fintype κ]
    (v : ι → κ → R) (d : ι → R) (hrel : ∀ x, ∑ α, d α * v α x = 0) (β : ι) :
    ∑ α, d α * ∑ x, v α x * star (v β x) = 0 := by
  simp only [Finset.mul_sum]
  rw [Finset.sum_comm]
  refine Finset.sum_eq_zero fun x _ => ?_
  have := congrArg (fun t => t * star (v β x)) (hrel x)
  simp only [Finset.sum_mul, zero_mul] at this
  rw [← this]
  exact Finset.sum_congr rfl fun α _ => by ring

end Numqi.MatrixSpace
