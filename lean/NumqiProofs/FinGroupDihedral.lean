/-
C14 helper: the dihedral table (`get_dihedral_group_cayley_table`) is a group table of order `2n`
for every `n > 2`.  Rows of `circulant(arange n).T` are the rotations `k ↦ k - a`, the rows of
`tmp0 @ eye(n)[::-1]` the reflections `k ↦ -1 - k - a` (mod `n`).
-/
import NumqiProofs.FinGroupPerm
import Mathlib.Data.ZMod.Basic

namespace Numqi.FinGroup

def rotF (n a k : Nat) : Nat := (k + (n - a)) % n
def reflF (n a k : Nat) : Nat := ((n - 1 - k) + (n - a)) % n

theorem dihRot_eq (n a : Nat) : dihRot n a = (List.range n).map (rotF n a) := rfl
theorem dihRefl_eq (n a : Nat) : dihRefl n a = (List.range n).map (reflF n a) := rfl

theorem compose_map_range {n : Nat} (f g : Nat → Nat) (hg : ∀ k, k < n → g k < n) :
    compose ((List.range n).map f) ((List.range n).map g) = (List.range n).map (fun k => f (g k)) := by
  unfold compose
  rw [List.map_map]
  apply List.map_congr_left
  intro k hk
  have := hg k (by simpa using hk)
  simp [List.getD_eq_getElem?_getD, List.getElem?_range this]

theorem mod_eq_of_zmod {n x y : Nat} (h : (x : ZMod n) = (y : ZMod n)) : x % n = y % n :=
  (ZMod.natCast_eq_natCast_iff' x y n).1 h

section
variable {n a b k : Nat}

theorem rotF_lt (hn : 0 < n) : rotF n a k < n := Nat.mod_lt _ hn
theorem reflF_lt (hn : 0 < n) : reflF n a k < n := Nat.mod_lt _ hn

theorem cast_rotF (ha : a ≤ n) : ((rotF n a k : Nat) : ZMod n) = (k : ZMod n) - a := by
  unfold rotF
  rw [ZMod.natCast_mod]
  push_cast [Nat.cast_sub ha, ZMod.natCast_self]
  ring

theorem cast_reflF (ha : a ≤ n) (hk : k < n) : ((reflF n a k : Nat) : ZMod n) = -1 - (k : ZMod n) - a := by
  unfold reflF
  rw [ZMod.natCast_mod, Nat.sub_sub]
  push_cast [Nat.cast_sub ha, Nat.cast_sub (show 1 + k ≤ n by omega), ZMod.natCast_self]
  ring

theorem rot_rot (hn : 0 < n) (ha : a < n) (hb : b < n) :
    rotF n a (rotF n b k) = rotF n ((a + b) % n) k := by
  have h1 : rotF n a (rotF n b k) % n = rotF n ((a + b) % n) k % n := by
    apply mod_eq_of_zmod
    rw [cast_rotF ha.le, cast_rotF hb.le, cast_rotF (Nat.mod_lt _ hn).le, ZMod.natCast_mod]
    push_cast; ring
  rwa [Nat.mod_eq_of_lt (rotF_lt hn), Nat.mod_eq_of_lt (rotF_lt hn)] at h1

theorem rot_refl (hn : 0 < n) (ha : a < n) (hb : b < n) (hk : k < n) :
    rotF n a (reflF n b k) = reflF n ((a + b) % n) k := by
  have h1 : rotF n a (reflF n b k) % n = reflF n ((a + b) % n) k % n := by
    apply mod_eq_of_zmod
    rw [cast_rotF ha.le, cast_reflF hb.le hk, cast_reflF (Nat.mod_lt _ hn).le hk, ZMod.natCast_mod]
    push_cast; ring
  rwa [Nat.mod_eq_of_lt (rotF_lt hn), Nat.mod_eq_of_lt (reflF_lt hn)] at h1

theorem refl_rot (hn : 0 < n) (ha : a < n) (hb : b < n) (hk : k < n) :
    reflF n a (rotF n b k) = reflF n ((a + (n - b)) % n) k := by
  have h1 : reflF n a (rotF n b k) % n = reflF n ((a + (n - b)) % n) k % n := by
    apply mod_eq_of_zmod
    rw [cast_reflF ha.le (rotF_lt hn), cast_rotF hb.le, cast_reflF (Nat.mod_lt _ hn).le hk, ZMod.natCast_mod]
    push_cast [Nat.cast_sub hb.le, ZMod.natCast_self]; ring
  rwa [Nat.mod_eq_of_lt (reflF_lt hn), Nat.mod_eq_of_lt (reflF_lt hn)] at h1

theorem refl_refl (hn : 0 < n) (ha : a < n) (hb : b < n) (hk : k < n) :
    reflF n a (reflF n b k) = rotF n ((a + (n - b)) % n) k := by
  have h1 : reflF n a (reflF n b k) % n = rotF n ((a + (n - b)) % n) k % n := by
    apply mod_eq_of_zmod
    rw [cast_reflF ha.le (reflF_lt hn), cast_reflF hb.le hk, cast_rotF (Nat.mod_lt _ hn).le, ZMod.natCast_mod]
    push_cast [Nat.cast_sub hb.le, ZMod.natCast_self]; ring
  rwa [Nat.mod_eq_of_lt (reflF_lt hn), Nat.mod_eq_of_lt (rotF_lt hn)] at h1
end

/-! ### the four composition rules on the rows -/

section
variable {n a b : Nat}

theorem comp_rot_rot (hn : 0 < n) (ha : a < n) (hb : b < n) :
    compose (dihRot n a) (dihRot n b) = dihRot n ((a + b) % n) := by
  rw [dihRot_eq, dihRot_eq, dihRot_eq, compose_map_range _ _ (fun _ _ => rotF_lt hn)]
  exact List.map_congr_left fun k _ => rot_rot hn ha hb

theorem comp_rot_refl (hn : 0 < n) (ha : a < n) (hb : b < n) :
    compose (dihRot n a) (dihRefl n b) = dihRefl n ((a + b) % n) := by
  rw [dihRot_eq, dihRefl_eq, dihRefl_eq, compose_map_range _ _ (fun _ _ => reflF_lt hn)]
  exact List.map_congr_left fun k hk => rot_refl hn ha hb (by simpa using hk)

theorem comp_refl_rot (hn : 0 < n) (ha : a < n) (hb : b < n) :
    compose (dihRefl n a) (dihRot n b) = dihRefl n ((a + (n - b)) % n) := by
  rw [dihRefl_eq, dihRot_eq, dihRefl_eq, compose_map_range _ _ (fun _ _ => rotF_lt hn)]
  exact List.map_congr_left fun k hk => refl_rot hn ha hb (by simpa using hk)

theorem comp_refl_refl (hn : 0 < n) (ha : a < n) (hb : b < n) :
    compose (dihRefl n a) (dihRefl n b) = dihRot n ((a + (n - b)) % n) := by
  rw [dihRefl_eq, dihRefl_eq, dihRot_eq, compose_map_range _ _ (fun _ _ => reflF_lt hn)]
  exact List.map_congr_left fun k hk => refl_refl hn ha hb (by simpa using hk)

theorem dihRot_zero (n : Nat) : dihRot n 0 = List.range n := by
  rw [dihRot_eq]
  conv_rhs => rw [← List.map_id (List.range n)]
  apply List.map_congr_left
  intro k hk
  have hk : k < n := by simpa using hk
  simp [rotF, Nat.mod_eq_of_lt hk]

theorem mem_dihRows {x : List Nat} :
    x ∈ dihRows n ↔ ∃ a, a < n ∧ (x = dihRot n a ∨ x = dihRefl n a) := by
  simp only [dihRows, List.mem_append, List.mem_map, List.mem_range]
  constructor
  · rintro (⟨a, ha, rfl⟩ | ⟨a, ha, rfl⟩)
    · exact ⟨a, ha, Or.inl rfl⟩
    · exact ⟨a, ha, Or.inr rfl⟩
  · rintro ⟨a, ha, rfl | rfl⟩
    · exact Or.inl ⟨a, ha, rfl⟩
    · exact Or.inr ⟨a, ha, rfl⟩

theorem dihRows_length (n : Nat) : (dihRows n).length = 2 * n := by
  simp [dihRows]; omega

theorem row_length {x : List Nat} (hx : x ∈ dihRows n) : x.length = n := by
  obtain ⟨a, _, rfl | rfl⟩ := mem_dihRows.1 hx <;> simp [dihRot, dihRefl]

theorem row_lt (hn : 0 < n) {x : List Nat} (hx : x ∈ dihRows n) : ∀ v ∈ x, v < n := by
  obtain ⟨a, _, rfl | rfl⟩ := mem_dihRows.1 hx
  · intro v hv; simp only [dihRot, List.mem_map] at hv; obtain ⟨k, _, rfl⟩ := hv; exact Nat.mod_lt _ hn
  · intro v hv; simp only [dihRefl, List.mem_map] at hv; obtain ⟨k, _, rfl⟩ := hv; exact Nat.mod_lt _ hn

theorem eq_of_cast_eq {a b : Nat} (ha : a < n) (hb : b < n) (h : (a : ZMod n) = (b : ZMod n)) : a = b := by
  have := (ZMod.natCast_eq_natCast_iff' a b n).1 h
  rwa [Nat.mod_eq_of_lt ha, Nat.mod_eq_of_lt hb] at this

theorem dihRot_inj (hn : 0 < n) (ha : a < n) (hb : b < n) (h : dihRot n a = dihRot n b) : a = b := by
  rw [dihRot_eq, dihRot_eq, List.map_inj_left] at h
  have h0 := congrArg (Nat.cast (R := ZMod n)) (h 0 (by simpa using hn))
  rw [cast_rotF ha.le, cast_rotF hb.le] at h0
  exact eq_of_cast_eq ha hb (by simpa using h0)

theorem dihRefl_inj (hn : 0 < n) (ha : a < n) (hb : b < n) (h : dihRefl n a = dihRefl n b) : a = b := by
  rw [dihRefl_eq, dihRefl_eq, List.map_inj_left] at h
  have h0 := congrArg (Nat.cast (R := ZMod n)) (h 0 (by simpa using hn))
  rw [cast_reflF ha.le hn, cast_reflF hb.le hn] at h0
  exact eq_of_cast_eq ha hb (by simpa using h0)

theorem dihRot_ne_dihRefl (hn : 2 < n) (ha : a < n) (hb : b < n) : dihRot n a ≠ dihRefl n b := by
  intro h
  rw [dihRot_eq, dihRefl_eq, List.map_inj_left] at h
  have h0 := congrArg (Nat.cast (R := ZMod n)) (h 0 (by simp; omega))
  have h1 := congrArg (Nat.cast (R := ZMod n)) (h 1 (by simp; omega))
  rw [cast_rotF ha.le, cast_reflF hb.le (by omega)] at h0 h1
  have h2 : ((2 : Nat) : ZMod n) = 0 := by
    push_cast at h0 h1 ⊢
    linear_combination h1 - h0
  have := (ZMod.natCast_eq_zero_iff 2 n).1 h2
  have := Nat.le_of_dvd (by norm_num) this
  omega

theorem dihRows_nodup (n : Nat) (hn : 2 < n) : (dihRows n).Nodup := by
  have hn0 : 0 < n := by omega
  unfold dihRows
  rw [List.nodup_append]
  refine ⟨?_, ?_, ?_⟩
  · rw [List.nodup_map_iff_inj_on List.nodup_range]
    intro x hx y hy h
    exact dihRot_inj hn0 (by simpa using hx) (by simpa using hy) h
  · rw [List.nodup_map_iff_inj_on List.nodup_range]
    intro x hx y hy h
    exact dihRefl_inj hn0 (by simpa using hx) (by simpa using hy) h
  · intro x hx y hy
    simp only [List.mem_map, List.mem_range] at hx hy
    obtain ⟨a, ha, rfl⟩ := hx
    obtain ⟨b, hb, rfl⟩ := hy
    exact dihRot_ne_dihRefl hn ha hb

/-- **`get_dihedral_group_cayley_table(n)` is a group table of order `2n`, for every `n > 2`.** -/
theorem dihTable_isGroupTable' (n : Nat) (hn : 2 < n) : IsGroupTable (dihTable n) (2 * n) := by
  have hn0 : 0 < n := by omega
  have hmod : ∀ x, x % n < n := fun x => Nat.mod_lt _ hn0
  rw [← dihRows_length n]
  refine tableOf_isGroupTable (dihRows n) compose (dihRows_nodup n hn) ?_ ?_ (List.range n) ?_ ?_ ?_
  · intro x hx y hy
    obtain ⟨a, ha, rfl | rfl⟩ := mem_dihRows.1 hx <;> obtain ⟨b, hb, rfl | rfl⟩ := mem_dihRows.1 hy
    · rw [comp_rot_rot hn0 ha hb]; exact mem_dihRows.2 ⟨_, hmod _, Or.inl rfl⟩
    · rw [comp_rot_refl hn0 ha hb]; exact mem_dihRows.2 ⟨_, hmod _, Or.inr rfl⟩
    · rw [comp_refl_rot hn0 ha hb]; exact mem_dihRows.2 ⟨_, hmod _, Or.inr rfl⟩
    · rw [comp_refl_refl hn0 ha hb]; exact mem_dihRows.2 ⟨_, hmod _, Or.inl rfl⟩
  · intro x _ y hy z hz
    exact compose_assoc (row_length hy) (row_lt hn0 hz)
  · exact mem_dihRows.2 ⟨0, hn0, Or.inl (dihRot_zero n).symm⟩
  · intro x hx
    exact ⟨compose_range_left (row_lt hn0 hx), compose_range_right (row_length hx)⟩
  · intro x hx
    obtain ⟨a, ha, rfl | rfl⟩ := mem_dihRows.1 hx
    · refine ⟨dihRot n ((n - a) % n), mem_dihRows.2 ⟨_, hmod _, Or.inl rfl⟩, ?_, ?_⟩
      · rw [comp_rot_rot hn0 ha (hmod _), Nat.add_mod_mod, Nat.add_sub_cancel' ha.le, Nat.mod_self, dihRot_zero]
      · rw [comp_rot_rot hn0 (hmod _) ha, Nat.mod_add_mod, Nat.sub_add_cancel ha.le, Nat.mod_self, dihRot_zero]
    · refine ⟨dihRefl n a, hx, ?_, ?_⟩ <;>
        rw [comp_refl_refl hn0 ha ha, Nat.add_sub_cancel' ha.le, Nat.mod_self, dihRot_zero]

end

end Numqi.FinGroup
