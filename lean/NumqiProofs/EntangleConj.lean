/-
Bridge from the model's op-only `Conj` class to `star` in a star ring, and small sum lemmas used by `NumqiProps/C13.lean`.
-/
import NumqiProofs.EntangleIndex
import Mathlib.Algebra.Star.BigOperators
import Mathlib.Data.Matrix.Mul
import Mathlib.LinearAlgebra.Matrix.ConjTranspose

namespace Numqi.Ent

/-- in a star ring the model's `conj` is `star` -/
scoped instance starConj {R : Type} [Star R] : Conj R := ⟨star⟩

theorem conj_eq_star {R : Type} [Star R] (x : R) : conj x = star x := rfl

theorem star_sumRange {R : Type} [NonUnitalNonAssocSemiring R] [StarRing R] (n : Nat) (f : Nat → R) :
    star (sumRange n f) = sumRange n fun i => star (f i) := by
  simp [sumRange_eq_sum, star_sum]

end Numqi.Ent
