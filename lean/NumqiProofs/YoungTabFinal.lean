/-
C14 helper (tableaux, part 4): from the unpadded enumeration `tabCore` to the model `tabAux` / `allTableaux`
(zero padded rows as the code's arrays are) and to the Boolean checker `isStandard`.
-/
import NumqiProofs.YoungTabCore

namespace Numqi.Young

/-! ### padding -/

theorem padTo_of_le {w : Nat} {row : List Nat} (h : w ≤ row.length) : padTo w row = row := by
  simp [padTo, Nat.sub_eq_zero_of_le h]

theorem padTo_padTo {w w2 : Nat} {row : List Nat} (h1 : row.length ≤ w2) (h2 : w2 ≤ w) :
    padTo w (padTo w2 row) = padTo w row := by
  simp only [padTo, List.length_append, List.length_replicate, List.append_assoc, List.replicate_append_replicate]
  congr 2; omega

theorem take_padTo {w : Nat} {row : List Nat} : (padTo w row).take row.length = row := by
  simp [padTo]

section child
variable {r r2 i0 : Nat} {rest np0 lower : List Nat}

/-- every position tuple of the general branch hands the recursive call arguments that satisfy the preconditions again -/
theorem child_ok (hv : ValidShape (r :: r2 :: rest)) (h1 : r ≠ 1) (h2 : r2 ≠ 1) (hidx : SInc (i0 :: np0))
    (hN : (i0 :: np0).length = (r :: r2 :: rest).sum) (hl : lower.length = r - 1) {xy : List Nat}
    (hxy : xy ∈ boundedComb (lower.zip ((List.range' 1 (r - 1)).map fun c =>
      (r :: r2 :: rest).sum - ((transpose (r :: r2 :: rest)).drop c).sum))) :
    xy.length = r - 1 ∧ SInc (unpicked np0 xy) ∧ (unpicked np0 xy).length = (r2 :: rest).sum ∧
      ((nextLower xy).take (r2 - 1)).length = (r2 :: rest).headD 0 - 1 ∧ Feas (r2 :: rest) ((nextLower xy).take (r2 - 1)) := by
  have hnp : SInc np0 := (sinc_cons.1 hidx).2
  have hv' := hv.tail
  have hr2pos : 0 < r2 := hv.2.1 r2 (by simp)
  have hrr2 : r2 ≤ r := hv.le_head r2 (by simp)
  have hk : 0 < r - 1 := by omega
  have hNs : np0.length + 1 = r + (r2 :: rest).sum := by
    have := hN; simp only [List.length_cons, List.sum_cons] at this ⊢; omega
  have hle : ∀ i, i < r - 1 → upB (r :: r2 :: rest) i ≤ np0.length := by
    intro i hi
    have := upB_le (r := r) (rest := r2 :: rest) (i := i) (by omega)
    rw [List.sum_cons] at this; omega
  obtain ⟨hu, hU⟩ := upper_general hv
  obtain ⟨_, b2⟩ := boundedComb_zip hk hl hu
  obtain ⟨hok, _, hlt⟩ := rowOK_of_xy hnp hk hl hu hU hle hxy
  obtain ⟨hxl, _, hxb⟩ := (b2 xy).1 hxy
  have hrl := restOf_length hnp hok.1 hok.2.1
  refine ⟨hxl, ?_, ?_, ?_, ?_⟩
  · rw [unpicked_eq_restOf hnp hlt]; exact sinc_restOf hnp _
  · rw [unpicked_eq_restOf hnp hlt]; have := hok.2.2.1; omega
  · simp [nextLower_length]; omega
  · intro i hi
    have hi' : i < r2 - 1 := by
      have : i < r2 - 1 ∧ i < r - 1 := by simpa [nextLower_length, hxl] using hi
      exact this.1
    rw [List.getElem_take, nextLower_getElem]
    have hb := (hxb i (by omega)).2
    rw [hU i (by omega)] at hb
    obtain ⟨e1, e2⟩ := upB_tail (r := r) (s := r2 :: rest) (i := i) hv'.2.1 (by simp) (by omega)
    omega

end child

/-! ### `tabAux` is `tabCore` with the rows padded to the width of the first row -/

section unfoldAux
variable {r r2 : Nat} {rest idx lower : List Nat}

theorem tabAux_col (h : r = 1) : tabAux (r :: r2 :: rest) idx lower = [idx.map fun v => [v]] := by
  simp [tabAux, h]

theorem tabAux_hook0 (h1 : r ≠ 1) (h2 : r2 = 1) (hz : lower.all (· == 0) = true) :
    tabAux (r :: r2 :: rest) idx lower =
      (combPos (r - 1) 0 (idx.drop 1).length).map fun xy =>
        (idx.headD 0 :: pick (idx.drop 1) xy) :: (unpicked (idx.drop 1) xy).map fun v => padTo r [v] := by
  simp only [tabAux, h1, h2, hz, if_false, if_true]

theorem tabAux_hook1 (h1 : r ≠ 1) (h2 : r2 = 1) (hz : lower.all (· == 0) = false) :
    tabAux (r :: r2 :: rest) idx lower =
      (boundedComb (lower.zip (pyRange ((transpose (r :: r2 :: rest)).headD 0) (transpose (r :: r2 :: rest)).sum))).map fun xy =>
        (idx.headD 0 :: pick (idx.drop 1) xy) :: (unpicked (idx.drop 1) xy).map fun v => padTo r [v] := by
  simp only [tabAux, h1, h2, hz, if_false, if_true, Bool.false_eq_true]

theorem tabAux_gen (h1 : r ≠ 1) (h2 : r2 ≠ 1) :
    tabAux (r :: r2 :: rest) idx lower =
      (boundedComb (lower.zip ((List.range' 1 (r - 1)).map fun c =>
          (r :: r2 :: rest).sum - ((transpose (r :: r2 :: rest)).drop c).sum))).flatMap fun xy =>
        (tabAux (r2 :: rest) (unpicked (idx.drop 1) xy) ((nextLower xy).take (r2 - 1))).map fun t =>
          (idx.headD 0 :: pick (idx.drop 1) xy) :: t.map (padTo r) := by
  simp only [tabAux, h1, h2, if_false]

end unfoldAux

theorem pick_length (np0 xy : List Nat) : (pick np0 xy).length = xy.length := by simp [pick]

theorem tabAux_eq_pad : ∀ (shape idx lower : List Nat), ValidShape shape → SInc idx → idx.length = shape.sum →
    lower.length = shape.headD 0 - 1 → Feas shape lower →
    tabAux shape idx lower = (tabCore shape idx lower).map fun t => t.map (padTo (shape.headD 0))
  | [], _, _, hv, _, _, _, _ => absurd rfl hv.1
  | [r], idx, lower, _, _, hlen, _, _ => by
    have : idx.length = r := by simpa using hlen
    simp [tabAux, tabCore, padTo_of_le (le_of_eq this.symm)]
  | r :: r2 :: rest, idx, lower, hv, hidx, hlen, hl, _ => by
    have hr : 0 < r := hv.2.1 r List.mem_cons_self
    obtain ⟨i0, np0, rfl⟩ : ∃ i0 np0, idx = i0 :: np0 := by
      cases idx with
      | nil => simp at hlen; omega
      | cons a b => exact ⟨a, b, rfl⟩
    have hl' : lower.length = r - 1 := by simpa using hl
    simp only [List.headD_cons]
    by_cases h1 : r = 1
    · rw [tabAux_col h1, tabCore_col h1]
      subst h1
      simp [padTo, Function.comp_def]
    · have hk : 0 < r - 1 := by omega
      by_cases h2 : r2 = 1
      · subst h2
        by_cases hz : lower.all (· == 0) = true
        · rw [tabAux_hook0 h1 rfl hz, tabCore_hook0 h1 rfl hz, List.map_map]
          apply List.map_congr_left
          intro xy hxy
          have hxl := (((combPos_spec (r - 1) 0 _).2 xy).1 hxy).1
          simp only [Function.comp_apply, List.map_cons, List.map_map]
          rw [padTo_of_le (by simp [pick_length, hxl]; omega)]
          rfl
        · have hz' : lower.all (· == 0) = false := by simpa using hz
          rw [tabAux_hook1 h1 rfl hz', tabCore_hook1 h1 rfl hz', List.map_map]
          apply List.map_congr_left
          intro xy hxy
          obtain ⟨hu, _⟩ := upper_hook hv (by omega)
          have hxl := (((boundedComb_zip hk hl' hu).2 xy).1 hxy).1
          simp only [Function.comp_apply, List.map_cons, List.map_map]
          rw [padTo_of_le (by simp [pick_length, hxl]; omega)]
          rfl
      · rw [tabAux_gen h1 h2, tabCore_gen h1 h2, List.map_flatMap]
        apply List.flatMap_congr
        intro xy hxy
        simp only [List.drop_one, List.tail_cons, List.headD_cons] at hxy ⊢
        obtain ⟨hxl, c1, c2, c3, c4⟩ := child_ok hv h1 h2 hidx hlen hl' hxy
        rw [tabAux_eq_pad (r2 :: rest) _ _ hv.tail c1 c2 c3 c4, List.map_map, List.map_map]
        apply List.map_congr_left
        intro t' ht'
        have hspec := tabCore_spec (r2 :: rest) _ _ hv.tail c1 c2 c3 c4
        have htab := ((hspec.2 t').1 ht').1
        simp only [Function.comp_apply, List.map_cons, List.headD_cons, List.map_map]
        rw [padTo_of_le (by simp [pick_length, hxl]; omega)]
        congr 1
        apply List.map_congr_left
        intro row hrow
        have hrl : row.length ≤ r2 := by
          have : row.length ∈ t'.map List.length := List.mem_map.2 ⟨row, hrow, rfl⟩
          rw [htab.rows] at this
          exact hv.tail.le_head _ this
        simp only [Function.comp_apply]
        exact padTo_padTo hrl (hv.le_head r2 (by simp))

/-! ### the top-level call and the Boolean checker -/

/-- standard Young tableau of the shape with entries `0..N-1` (rows without padding) -/
def IsSYT (shape : List Nat) (t : List (List Nat)) : Prop := IsTab shape (List.range shape.sum) t

theorem sinc_range (n : Nat) : SInc (List.range n) := List.pairwise_lt_range

theorem feas_zero {shape : List Nat} (hv : ValidShape shape) :
    Feas shape (List.replicate (shape.headD 0 - 1) 0) := by
  intro i _
  simp only [List.getElem_replicate]
  have h1 := colsFrom_add_length_le hv.2.1 i
  have h2 : 0 < shape.length := List.length_pos_iff.2 hv.1
  rw [upB]; omega

/-- the unpadded enumeration at the top level -/
def coreTableaux (shape : List Nat) : List (List (List Nat)) :=
  tabCore shape (List.range shape.sum) (List.replicate (shape.headD 0 - 1) 0)

theorem allTableaux_eq_pad {shape : List Nat} (hv : ValidShape shape) :
    allTableaux shape = (coreTableaux shape).map fun t => t.map (padTo (shape.headD 0)) :=
  tabAux_eq_pad shape _ _ hv (sinc_range _) (by simp) (by simp) (feas_zero hv)

theorem coreTableaux_spec {shape : List Nat} (hv : ValidShape shape) :
    (coreTableaux shape).Nodup ∧ ∀ t, t ∈ coreTableaux shape ↔ IsSYT shape t := by
  obtain ⟨h1, h2⟩ := tabCore_spec shape _ _ hv (sinc_range shape.sum) (by simp) (by simp) (feas_zero hv)
  refine ⟨h1, fun t => ?_⟩
  rw [coreTableaux, h2]
  constructor
  · exact fun h => h.1
  · intro h
    refine ⟨h, ?_⟩
    intro i hi _
    simp

theorem cells_pad : ∀ (t : List (List Nat)) (shape : List Nat) (w : Nat), t.map List.length = shape →
    cells shape (t.map (padTo w)) = t
  | [], shape, w, h => by simp at h; subst h; simp [cells]
  | row :: t, shape, w, h => by
    cases shape with
    | nil => simp at h
    | cons a s =>
      simp only [List.map_cons, List.cons.injEq] at h
      have ih := cells_pad t s w h.2
      simp only [cells] at ih ⊢
      simp only [List.map_cons, List.zip_cons_cons]
      rw [ih, ← h.1, take_padTo]

theorem strictIncr_of_sinc : ∀ {l : List Nat}, SInc l → strictIncr l = true
  | [], _ => rfl
  | [_], _ => rfl
  | a :: b :: l, h => by
    obtain ⟨h1, h2⟩ := sinc_cons.1 h
    simp only [strictIncr, Bool.and_eq_true, decide_eq_true_eq]
    exact ⟨h1 b List.mem_cons_self, strictIncr_of_sinc h2⟩

theorem zipWith_all_of_colLt : ∀ (a b : List Nat), colLt a b →
    (List.zipWith (fun x y => decide (x < y)) a b).all id = true
  | [], _, _ => by simp
  | _ :: _, [], _ => by simp
  | x :: a, y :: b, h => by
    simp only [List.zipWith_cons_cons, List.all_cons, id_eq, Bool.and_eq_true, decide_eq_true_eq]
    refine ⟨by simpa using h 0 (by simp) (by simp), zipWith_all_of_colLt a b ?_⟩
    intro j h1 h2
    simpa using h (j + 1) (by simpa using h1) (by simpa using h2)

theorem colsIncr_of_colChain : ∀ (t : List (List Nat)), ColChain t → colsIncr t = true
  | [], _ => rfl
  | [_], _ => rfl
  | a :: b :: t, h => by
    simp only [colsIncr, Bool.and_eq_true]
    exact ⟨zipWith_all_of_colLt a b h.1, colsIncr_of_colChain (b :: t) h.2⟩

theorem distinctBelow_of_nodup (N : Nat) : ∀ (l : List Nat) (seen : Nat), l.Nodup →
    (∀ v ∈ l, v < N ∧ seen.testBit v = false) → distinctBelow N l seen = true
  | [], _, _, _ => rfl
  | v :: l, seen, hnd, h => by
    obtain ⟨hv1, hv2⟩ := h v List.mem_cons_self
    simp only [distinctBelow, Bool.and_eq_true, decide_eq_true_eq, Bool.not_eq_true']
    refine ⟨⟨hv1, hv2⟩, distinctBelow_of_nodup N l _ (List.nodup_cons.1 hnd).2 ?_⟩
    intro u hu
    obtain ⟨hu1, hu2⟩ := h u (List.mem_cons_of_mem _ hu)
    refine ⟨hu1, ?_⟩
    have hne : v ≠ u := fun e => (List.nodup_cons.1 hnd).1 (e ▸ hu)
    rw [Nat.testBit_or, hu2, Nat.one_shiftLeft, Nat.testBit_two_pow]
    simp [hne]

/-- **soundness in the form of the Boolean checker**: the padded image of a standard tableau passes `isStandard` -/
theorem isStandard_of_isSYT {shape : List Nat} {t : List (List Nat)} (ht : IsSYT shape t) :
    isStandard shape (t.map (padTo (shape.headD 0))) = true := by
  have hc := cells_pad t shape (shape.headD 0) ht.rows
  have hlen : t.length = shape.length := by simpa using congrArg List.length ht.rows
  simp only [isStandard, hc, Bool.and_eq_true, beq_iff_eq, List.length_map, List.all_eq_true]
  refine ⟨⟨⟨⟨hlen, ht.rows⟩, ?_⟩, fun row hrow => strictIncr_of_sinc (ht.rowInc row hrow)⟩, colsIncr_of_colChain t ht.colInc⟩
  apply distinctBelow_of_nodup
  · exact ht.perm.nodup_iff.2 List.nodup_range
  · intro v hv
    exact ⟨by simpa using ht.perm.mem_iff.1 hv, by simp⟩

end Numqi.Young
