/-
The index table of `get_partial_trace_ABk_to_AB_index` lists exactly the support of the closed-form overlap coefficient
(list bookkeeping for `C17.dicke_reduction_eq`).
-/
import Mathlib.Tactic
import Mathlib.Algebra.BigOperators.Fin
import Mathlib.Data.List.Nodup
import Mathlib.Data.List.GetD
import NumqiModel.Dicke
import NumqiProofs.Dicke
import Mathlib.Analysis.Real.Sqrt
import Mathlib.Data.Complex.Basic

namespace Numqi
namespace Dicke
open Finset

/-- `zipIdx` as a map over the index range -/
theorem zipIdx_eq_range_map {β : Type} (l : List β) (dflt : β) :
    l.zipIdx = (List.range l.length).map fun i => (l.getD i dflt, i) := by
  apply List.ext_getElem
  · simp
  · intro i h1 h2
    have hi : i < l.length := by simpa using h1
    simp [List.getElem?_eq_getElem hi]

/-- value of `g` on an optional entry, `0` if there is none -/
def optVal {M : Type*} [Zero M] {γ : Type*} (g : γ → M) : Option γ → M
  | some e => g e
  | none => 0

/-- a sum over a list produced by `filterMap` over an index range is a sum over the range -/
theorem sum_filterMap_range {M : Type*} [AddCommMonoid M] {γ : Type*} (L : ℕ) (φ : ℕ → Option γ) (g : γ → M) :
    (((List.range L).filterMap φ).map g).sum = ∑ i ∈ range L, optVal g (φ i) := by
  induction L with
  | zero => simp
  | succ L ih =>
    rw [List.range_succ, List.filterMap_append, List.map_append, List.sum_append, ih, Finset.sum_range_succ]
    congr 1
    cases h : φ L <;> simp [h, optVal]

theorem foldr_eq_sum_map {M : Type*} [AddCommMonoid M] {γ : Type*} (T : List γ) (g : γ → M) :
    T.foldr (fun e acc => g e + acc) 0 = (T.map g).sum := by
  induction T with
  | nil => rfl
  | cons e T ih => simp [ih]

/-! ### `shift` and the support condition of the overlap coefficient -/

/-- the condition under which `⟨r,·|D_a⟩` and `⟨s,·|D_b⟩` overlap: `a − e_r = b − e_s` -/
def Cond (r s : ℕ) (a b : List ℕ) : Prop :=
  0 < a.getD r 0 ∧ 0 < b.getD s 0 ∧ a.set r (a.getD r 0 - 1) = b.set s (b.getD s 0 - 1)

instance (r s : ℕ) (a b : List ℕ) : Decidable (Cond r s a b) := by unfold Cond; infer_instance

theorem shift_none (a : List ℕ) (r s : ℕ) (h : a.getD r 0 = 0) : shift a r s = none := by
  unfold shift; rw [if_pos h]

theorem shift_some (a : List ℕ) (r s : ℕ) (h : 0 < a.getD r 0) :
    shift a r s = some ((a.set r (a.getD r 0 - 1)).set s ((a.set r (a.getD r 0 - 1)).getD s 0 + 1)) := by
  have : ¬ a.getD r 0 = 0 := by omega
  unfold shift; rw [if_neg this]

theorem getD_set_self (l : List ℕ) (i x : ℕ) (h : i < l.length) : (l.set i x).getD i 0 = x := by
  rw [List.getD_eq_getElem _ _ (by simpa using h), List.getElem_set_self]

theorem set_getD_self (l : List ℕ) (i : ℕ) (h : i < l.length) : l.set i (l.getD i 0) = l := by
  rw [List.getD_eq_getElem _ _ h, List.set_getElem_self]

theorem cond_core (a' b : List ℕ) (s : ℕ) (hs : s < b.length) (hsa' : s < a'.length) :
    (0 < b.getD s 0 ∧ a' = b.set s (b.getD s 0 - 1)) ↔ b = a'.set s (a'.getD s 0 + 1) := by
  constructor
  · rintro ⟨hb, he⟩
    have h1 : a'.getD s 0 = b.getD s 0 - 1 := by rw [he, getD_set_self b s _ hs]
    have h2 : b = (b.set s (b.getD s 0 - 1)).set s (b.getD s 0) := by
      rw [List.set_set, set_getD_self b s hs]
    rw [h1, Nat.sub_add_cancel hb, he]; exact h2
  · intro hb
    refine ⟨?_, ?_⟩
    · rw [hb, getD_set_self _ _ _ hsa']; omega
    · rw [hb, getD_set_self _ _ _ hsa', List.set_set, Nat.add_sub_cancel, set_getD_self _ _ hsa']

/-- the only partner of `a` is `b₀ = a − e_r + e_s` -/
theorem cond_iff (r s : ℕ) (a b : List ℕ) (hs : s < b.length) (hsa : s < a.length) (ha : 0 < a.getD r 0) :
    Cond r s a b ↔ b = (a.set r (a.getD r 0 - 1)).set s ((a.set r (a.getD r 0 - 1)).getD s 0 + 1) := by
  rw [← cond_core (a.set r (a.getD r 0 - 1)) b s hs (by simpa using hsa)]
  unfold Cond
  constructor
  · rintro ⟨_, h2, h3⟩; exact ⟨h2, h3⟩
  · rintro ⟨h2, h3⟩; exact ⟨ha, h2, h3⟩

theorem sum_set_incr (l : List ℕ) (i : ℕ) (h : i < l.length) : (l.set i (l.getD i 0 + 1)).sum = l.sum + 1 := by
  induction l generalizing i with
  | nil => simp at h
  | cons x xs ih =>
    cases i with
    | zero => simp; omega
    | succ i =>
      simp only [List.set_cons_succ, List.sum_cons, List.getD_cons_succ]
      rw [ih i (by simpa using h)]; omega

/-- real coefficient for total copy number `N` -/
noncomputable def coefN (N r s : ℕ) (a b : List ℕ) : ℝ :=
  if Cond r s a b then √((a.getD r 0 : ℝ) * (b.getD s 0 : ℝ)) / (N : ℝ) else 0

/-- `√(value²)` of a table entry -/
noncomputable def wRoot (q : ℚ) : ℂ := ((√((q : ℚ) : ℝ) : ℝ) : ℂ)

theorem wRoot_entry (N x y : ℕ) :
    wRoot (((x * y : ℕ) : ℚ) / ((N * N : ℕ) : ℚ)) = ((√((x : ℝ) * (y : ℝ)) / (N : ℝ) : ℝ) : ℂ) := by
  unfold wRoot
  congr 1
  push_cast
  rw [Real.sqrt_div (by positivity), Real.sqrt_mul_self (by positivity)]

/-- the row of the table belonging to the Dicke index `i`, written over the index range -/
def rowEntry (N d r s : ℕ) (i : ℕ) : Option (ℕ × ℕ × ℚ) :=
  let kl := klist d N
  let a := kl.getD i []
  if r = s then some (i, i, ((a.getD r 0 * a.getD r 0 : ℕ) : ℚ) / ((N * N : ℕ) : ℚ))
  else match shift a r s with
    | none => none
    | some b => match indexOf? kl b with
      | none => none
      | some j => some (i, j, ((a.getD r 0 * b.getD s 0 : ℕ) : ℚ) / ((N * N : ℕ) : ℚ))

theorem bijTable_eq (N d r s : ℕ) :
    bijTable N d r s = (List.range (klist d N).length).filterMap (rowEntry N d r s) := by
  unfold bijTable rowEntry
  simp only
  rw [zipIdx_eq_range_map (klist d N) []]
  by_cases h : r = s
  · simp only [h, if_true, List.map_map]
    rw [← List.filterMap_eq_map]
    rfl
  · simp only [h, if_false, List.filterMap_map]
    rfl

theorem indexOf_some (l : List (List ℕ)) (b : List ℕ) (hb : b ∈ l) :
    ∃ j, indexOf? l b = some j ∧ j < l.length ∧ l.getD j [] = b := by
  have hlt : l.idxOf b < l.length := List.idxOf_lt_length_iff.2 hb
  refine ⟨l.idxOf b, by simp [indexOf?, hlt], hlt, ?_⟩
  rw [List.getD_eq_getElem _ _ hlt, List.getElem_idxOf]

/-- **row lemma**: the entry stored for the Dicke index `i` carries exactly the non-zero overlap coefficients of `a_i` -/
theorem row_sum (N d r s : ℕ) (hd : 1 ≤ d) (hr : r < d) (hs : s < d) (i : ℕ) (hi : i < (klist d N).length)
    (G : ℕ → ℕ → ℂ) :
    optVal (fun e : ℕ × ℕ × ℚ => G e.1 e.2.1 * wRoot e.2.2) (rowEntry N d r s i)
      = ∑ j ∈ range (klist d N).length, G i j * ((coefN N r s ((klist d N).getD i []) ((klist d N).getD j []) : ℝ) : ℂ) := by
  obtain ⟨d', rfl⟩ : ∃ d', d = d' + 1 := ⟨d - 1, by omega⟩
  set kl := klist (d' + 1) N with hkl
  set a := kl.getD i [] with ha
  have hmem : ∀ j, j < kl.length → (kl.getD j []).length = d' + 1 ∧ (kl.getD j []).sum = N := by
    intro j hj
    rw [List.getD_eq_getElem _ _ hj]
    exact (mem_klist_iff d' N _).1 (List.getElem_mem hj)
  have hnd : kl.Nodup := klist_nodup d' N
  obtain ⟨hal, has⟩ := hmem i hi
  rw [← ha] at hal has
  have hinj : ∀ j, j < kl.length → kl.getD j [] = a → j = i := by
    intro j hj e
    rw [ha, List.getD_eq_getElem _ _ hj, List.getD_eq_getElem _ _ hi] at e
    exact (hnd.getElem_inj_iff).1 e
  by_cases hpos : 0 < a.getD r 0
  · -- the partner b₀ = a − e_r + e_s is in the list
    set a' := a.set r (a.getD r 0 - 1) with ha'
    set b0 := a'.set s (a'.getD s 0 + 1) with hb0
    have ha'l : a'.length = d' + 1 := by simp [ha', hal]
    have hb0l : b0.length = d' + 1 := by simp [hb0, ha'l]
    have ha's : a'.sum + 1 = N := by rw [← has]; exact sum_set a r (by omega) hpos
    have hb0s : b0.sum = N := by rw [hb0, sum_set_incr a' s (by omega)]; exact ha's
    have hb0mem : b0 ∈ kl := (mem_klist_iff d' N b0).2 ⟨hb0l, hb0s⟩
    obtain ⟨j0, hj0, hj0lt, hj0e⟩ := indexOf_some kl b0 hb0mem
    have hcond : ∀ j, j < kl.length → (Cond r s a (kl.getD j []) ↔ kl.getD j [] = b0) := fun j hj =>
      cond_iff r s a _ (by rw [(hmem j hj).1]; exact hs) (by rw [hal]; exact hs) hpos
    have hb0s_val : b0.getD s 0 = a'.getD s 0 + 1 := getD_set_self a' s _ (by omega)
    have huniq : ∀ j, j < kl.length → kl.getD j [] = b0 → j = j0 := by
      intro j hj e
      rw [← hj0e, List.getD_eq_getElem _ _ hj, List.getD_eq_getElem _ _ hj0lt] at e
      exact (hnd.getElem_inj_iff).1 e
    by_cases hrs : r = s
    · -- diagonal branch: b₀ = a, the stored entry is (i, i, a_r²/N²)
      subst hrs
      have hb0a : b0 = a := by
        rw [hb0, ha', getD_set_self a r _ (by omega), List.set_set, Nat.sub_add_cancel hpos, set_getD_self a r (by omega)]
      have hj0i : j0 = i := hinj j0 hj0lt (by rw [hj0e, hb0a])
      have hrow : rowEntry N (d' + 1) r r i = some (i, i, ((a.getD r 0 * a.getD r 0 : ℕ) : ℚ) / ((N * N : ℕ) : ℚ)) := by
        unfold rowEntry; exact if_pos rfl
      rw [hrow, sum_eq_single i]
      · simp only [optVal]
        rw [wRoot_entry, coefN, if_pos ((hcond i hi).2 (by rw [← ha, hb0a]))]
      · intro j hj hne
        have : ¬ Cond r r a (kl.getD j []) := fun h =>
          hne (hinj j (mem_range.1 hj) (by rw [(hcond j (mem_range.1 hj)).1 h, hb0a]))
        rw [coefN, if_neg this]; simp
      · intro h; exact absurd (mem_range.2 hi) h
    · have hrow : rowEntry N (d' + 1) r s i
          = some (i, j0, ((a.getD r 0 * b0.getD s 0 : ℕ) : ℚ) / ((N * N : ℕ) : ℚ)) := by
        simp only [rowEntry, ← hkl, ← ha, hrs, if_false, shift_some a r s hpos, ← ha', ← hb0, hj0]
      rw [hrow, sum_eq_single j0]
      · simp only [optVal]
        rw [wRoot_entry, coefN, if_pos ((hcond j0 hj0lt).2 hj0e), hj0e]
      · intro j hj hne
        have : ¬ Cond r s a (kl.getD j []) := fun h => hne (huniq j (mem_range.1 hj) ((hcond j (mem_range.1 hj)).1 h))
        rw [coefN, if_neg this]; simp
      · intro h; exact absurd (mem_range.2 hj0lt) h
  · -- a_r = 0: no partner; the diagonal branch stores the value 0
    have hz : a.getD r 0 = 0 := by omega
    have hzero : ∀ j, coefN N r s a (kl.getD j []) = 0 := by
      intro j; rw [coefN, if_neg]; rintro ⟨h, _⟩; omega
    simp only [hzero, Complex.ofReal_zero, mul_zero, sum_const_zero]
    by_cases hrs : r = s
    · subst hrs
      have hrow : rowEntry N (d' + 1) r r i = some (i, i, ((a.getD r 0 * a.getD r 0 : ℕ) : ℚ) / ((N * N : ℕ) : ℚ)) := by
        unfold rowEntry; exact if_pos rfl
      rw [hrow]; simp only [hz, optVal]; simp [wRoot]
    · have hrow : rowEntry N (d' + 1) r s i = none := by
        simp only [rowEntry, ← hkl, ← ha, hrs, if_false, shift_none a r s hz]
      rw [hrow]; rfl

end Dicke
end Numqi
