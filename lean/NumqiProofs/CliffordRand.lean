/-
C07/C09/C10 link: a row-symplectic matrix (C09: `S Λ Sᵀ = Λ`, what `from_int_tuple` produces) has symplectic
columns (`Sᵀ Λ S = Λ`, the hypothesis `Tab.colSp` of `apply_hom`); hence `rand_Clifford_group` always returns a
phase-exact automorphism.
-/
import NumqiProofs.SpF2Inverse
import NumqiProofs.CliffordAlgebra

namespace Numqi.Clifford
open Numqi.SpF2

theorem cnt_parity_xorUpTo (m a b : Nat) :
    cnt m a b % 2 = (xorUpTo (fun t => a.testBit t && b.testBit t) m).toNat := by
  induction m with
  | zero => rfl
  | succ m ih =>
    rw [cnt, xorUpTo]
    have := ih
    revert this
    generalize cnt m a b = C
    cases xorUpTo (fun t => a.testBit t && b.testBit t) m <;> cases a.testBit m <;> cases b.testBit m <;>
      simp <;> omega

theorem colsOfRows_getD {m : Nat} (rows : List Nat) {j : Nat} (hj : j < m) :
    (colsOfRows m rows).getD j 0 = ofFn m fun a => (rows.getD a 0).testBit j := by
  unfold colsOfRows; rw [getD_map_range' _ _ _ hj]

/-- **rows symplectic ⇒ columns symplectic** -/
theorem colSp_of_rowsSp (n r : Nat) (M : List Nat) (hwf : WF n M) (hsp : RowsSp n M) :
    (Tab.mk n r (colsOfRows (2 * n) M)).colSp = true := by
  rw [colSp_iff]
  intro a b hab hb
  have hb' : b < 2 * n := hb
  have ha' : a < 2 * n := by omega
  -- the (i, b) entry of `inverse(M) · M = 1` with `(i + n) % 2n = a`
  obtain ⟨i, hi2, hia, hib⟩ : ∃ i, i < 2 * n ∧ (i + n) % (2 * n) = a ∧ (i = b ↔ b = a + n) := by
    by_cases h : a < n
    · refine ⟨a + n, by omega, ?_, by omega⟩
      have e : a + n + n = a + 2 * n := by omega
      rw [e, Nat.add_mod_right, Nat.mod_eq_of_lt ha']
    · refine ⟨a - n, by omega, ?_, by omega⟩
      have e : a - n + n = a := by omega
      rw [e, Nat.mod_eq_of_lt ha']
  have hinv := inverse_matMul M hwf hsp
  have hent : ((matMul (2 * n) (inverse n M) M).getD i 0).testBit b = ((idMat (2 * n)).getD i 0).testBit b := by
    rw [hinv]
  rw [matMul_getD _ _ hi2, testBit_vecMul, idMat_getD hi2, Nat.testBit_two_pow] at hent
  -- rewrite the sum over t < 2n as the two halves
  have hsum : xorUpTo (fun t => ((inverse n M).getD i 0).testBit t && (M.getD t 0).testBit b) (2 * n) =
      (xorUpTo (fun s => (M.getD (s + n) 0).testBit a && (M.getD s 0).testBit b) n ^^
        xorUpTo (fun s => (M.getD s 0).testBit a && (M.getD (s + n) 0).testBit b) n) := by
    rw [two_mul, xorUpTo_add]
    congr 1
    · apply xorUpTo_congr; intro s hs
      rw [inverse_getD M hi2, testBit_ofFn, hia, Nat.mod_eq_of_lt (by omega : s + n < 2 * n)]
      simp [show s < 2 * n by omega]
    · apply xorUpTo_congr; intro s hs
      rw [inverse_getD M hi2, testBit_ofFn, hia]
      have : (s + n + n) % (2 * n) = s := by
        have e : s + n + n = s + 2 * n := by omega
        rw [e, Nat.add_mod_right, Nat.mod_eq_of_lt (by omega)]
      rw [this]
      simp [show s + n < 2 * n by omega]
  -- the two halves are the parities of `zx a b`, `zx b a`
  have hz1 : (Tab.mk n r (colsOfRows (2 * n) M)).zx a b % 2 =
      (xorUpTo (fun s => (M.getD (s + n) 0).testBit a && (M.getD s 0).testBit b) n).toNat := by
    simp only [Tab.zx]
    rw [colsOfRows_getD M ha', colsOfRows_getD M hb', cnt_parity_xorUpTo]
    congr 1
    apply xorUpTo_congr; intro s hs
    rw [Nat.testBit_shiftRight, testBit_ofFn, testBit_ofFn, Nat.add_comm n s]
    simp [show s + n < 2 * n by omega, show s < 2 * n by omega]
  have hz2 : (Tab.mk n r (colsOfRows (2 * n) M)).zx b a % 2 =
      (xorUpTo (fun s => (M.getD s 0).testBit a && (M.getD (s + n) 0).testBit b) n).toNat := by
    simp only [Tab.zx]
    rw [colsOfRows_getD M ha', colsOfRows_getD M hb', cnt_parity_xorUpTo]
    congr 1
    apply xorUpTo_congr; intro s hs
    rw [Nat.testBit_shiftRight, testBit_ofFn, testBit_ofFn, Nat.add_comm n s]
    simp [show s + n < 2 * n by omega, show s < 2 * n by omega, Bool.and_comm]
  rw [hsum] at hent
  have hdec : decide (i = b) = decide (b = a + n) := by
    rw [decide_eq_decide]; exact hib
  rw [hdec] at hent
  show ((Tab.mk n r (colsOfRows (2 * n) M)).zx a b + (Tab.mk n r (colsOfRows (2 * n) M)).zx b a) % 2 = _
  revert hent hz1 hz2
  generalize (Tab.mk n r (colsOfRows (2 * n) M)).zx a b = Z1
  generalize (Tab.mk n r (colsOfRows (2 * n) M)).zx b a = Z2
  generalize xorUpTo (fun s => (M.getD (s + n) 0).testBit a && (M.getD s 0).testBit b) n = X1
  generalize xorUpTo (fun s => (M.getD s 0).testBit a && (M.getD (s + n) 0).testBit b) n = X2
  intro hent hz1 hz2
  by_cases hc : b = a + n
  · rw [if_pos hc]
    simp only [hc, decide_true] at hent
    revert hent hz1 hz2
    cases X1 <;> cases X2 <;> simp <;> omega
  · rw [if_neg hc]
    simp only [hc, decide_false] at hent
    revert hent hz1 hz2
    cases X1 <;> cases X2 <;> simp <;> omega

/-- **`rand_Clifford_group` returns a symplectic tableau for every raw draw** (tuple entries below their bases) -/
theorem randCliffordGroup_colSp (n rawBits : Nat) (rawTuple : List (Nat × Nat)) (hlen : rawTuple.length = n)
    (hr : inRange rawTuple = true) : (randCliffordGroup n rawBits rawTuple).colSp = true := by
  have h := fromRev_all rawTuple.reverse hr
  rw [List.length_reverse, hlen] at h
  exact colSp_of_rowsSp n _ _ h.1 h.2.1

end Numqi.Clifford
