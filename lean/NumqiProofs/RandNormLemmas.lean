/-
C10 helper (validity): the normalisation steps of `NumqiModel/RandNorm.lean` at `K = ℂ`, bridged to Mathlib matrices.
-/
import Mathlib.Tactic
import Mathlib.LinearAlgebra.Matrix.PosDef
import Mathlib.LinearAlgebra.UnitaryGroup
import Mathlib.Analysis.Complex.Order
import Mathlib.Analysis.SpecialFunctions.Pow.Real
import NumqiModel.RandNorm

namespace Numqi.RandNorm
open Matrix
open scoped ComplexOrder

/-- conjugation of the model is `star` on ℂ -/
scoped instance conjComplex : Conj ℂ := ⟨star⟩

/-- the real operations on ℂ (acting on the real part) -/
noncomputable scoped instance randOpsComplex : RandOps ℂ where
  rsqrt z := ((Real.sqrt z.re : ℝ) : ℂ)
  invSqrt0 z := ((1 / Real.sqrt (max 0 z.re) : ℝ) : ℂ)
  rootN z n := ((z.re ^ ((1 : ℝ) / n) : ℝ) : ℂ)
  sgn1 z := if z.re < 0 then -1 else 1

theorem conj_eq_star (z : ℂ) : conj z = star z := rfl

theorem sumR_eq (n : Nat) (f : Nat → ℂ) : sumR n f = ∑ i : Fin n, f i.val := by
  unfold sumR
  induction n with
  | zero => simp
  | succ n ih => rw [List.range_succ, List.map_append, List.sum_append, ih, Fin.sum_univ_castSucc]; simp

/-- a matrix function as a Mathlib matrix -/
def toMat (m n : Nat) (f : Nat → Nat → ℂ) : Matrix (Fin m) (Fin n) ℂ := Matrix.of fun i j => f i.val j.val

theorem toMat_gram (n k : Nat) (G : Nat → Nat → ℂ) : toMat n n (gram k G) = toMat n k G * (toMat n k G)ᴴ := by
  ext i j
  simp [toMat, gram, sumR_eq, Matrix.mul_apply, conj_eq_star]

theorem traceN_eq (n : Nat) (A : Nat → Nat → ℂ) : traceN n A = (toMat n n A).trace := by
  simp [traceN, sumR_eq, Matrix.trace, toMat]

theorem toMat_specMat (n : Nat) (V : Nat → Nat → ℂ) (w : Nat → ℂ) :
    toMat n n (specMat n V w) = toMat n n V * Matrix.diagonal (fun a : Fin n => w a.val) * (toMat n n V)ᴴ := by
  ext i j
  simp [toMat, specMat, sumR_eq, Matrix.mul_apply, Matrix.diagonal_apply, conj_eq_star]

theorem toMat_conj3 (n : Nat) (T A : Nat → Nat → ℂ) : toMat n n (conj3 n T A) = toMat n n T * toMat n n A * toMat n n T := by
  ext i j
  simp only [toMat, conj3, sumR_eq, Matrix.mul_apply, Matrix.of_apply, Finset.sum_mul]
  rw [Finset.sum_comm]

/-! ### unit vectors -/

theorem normSq_eq (n : Nat) (v : Nat → ℂ) : normSq n v = ((∑ i : Fin n, Complex.normSq (v i.val) : ℝ) : ℂ) := by
  simp only [normSq, sumR_eq, conj_eq_star]
  push_cast
  refine Finset.sum_congr rfl fun i _ => ?_
  rw [Complex.star_def, Complex.mul_conj]

theorem normSq_normalize (n : Nat) (v : Nat → ℂ) (h : normSq n v ≠ 0) : normSq n (normalize n v) = 1 := by
  have hS := normSq_eq n v
  set S : ℝ := ∑ i : Fin n, Complex.normSq (v i.val) with hSd
  have hS0 : 0 ≤ S := Finset.sum_nonneg fun i _ => Complex.normSq_nonneg _
  have hSne : S ≠ 0 := by intro e; apply h; rw [hS, e]; simp
  have hr : rsqrt (normSq n v) = ((Real.sqrt S : ℝ) : ℂ) := by
    show ((Real.sqrt (normSq n v).re : ℝ) : ℂ) = _
    rw [hS]; simp
  have hsq : ((Real.sqrt S : ℝ) : ℂ) * ((Real.sqrt S : ℝ) : ℂ) = (S : ℂ) := by
    rw [← Complex.ofReal_mul, Real.mul_self_sqrt hS0]
  have hrne : ((Real.sqrt S : ℝ) : ℂ) ≠ 0 := by
    intro e; rw [e] at hsq; simp at hsq; exact hSne (by exact_mod_cast hsq.symm)
  have hS' : ∑ i : Fin n, v i.val * star (v i.val) = (S : ℂ) := by
    rw [← hS]; simp [normSq, sumR_eq, conj_eq_star]
  have hterm : ∀ i : Fin n, v i.val / ((Real.sqrt S : ℝ) : ℂ) * star (v i.val / ((Real.sqrt S : ℝ) : ℂ))
      = (v i.val * star (v i.val)) / (S : ℂ) := by
    intro i
    rw [star_div₀, Complex.star_def, Complex.conj_ofReal, div_mul_div_comm, hsq]
  show sumR n (fun j => normalize n v j * conj (normalize n v j)) = 1
  rw [sumR_eq]
  simp only [normalize, hr, conj_eq_star]
  rw [Finset.sum_congr rfl fun i _ => hterm i, ← Finset.sum_div, hS']
  exact div_self (by exact_mod_cast hSne)

/-! ### ball -/

theorem normSq_smul (n : Nat) (v : Nat → ℂ) (ρ : ℝ) : normSq n (fun i => v i * (ρ : ℂ)) = normSq n v * ((ρ * ρ : ℝ) : ℂ) := by
  simp only [normSq, sumR_eq, conj_eq_star]
  rw [Finset.sum_mul]
  refine Finset.sum_congr rfl fun i _ => ?_
  simp only [star_mul', Complex.star_def, Complex.conj_ofReal]
  push_cast; ring

theorem ballPoint_normSq (n : Nat) (v : Nat → ℂ) (u : ℂ) (h : normSq n v ≠ 0) :
    normSq n (ballPoint n v u) = (((u.re ^ ((1 : ℝ) / n)) * (u.re ^ ((1 : ℝ) / n)) : ℝ) : ℂ) := by
  have : ballPoint n v u = fun i => normalize n v i * ((u.re ^ ((1 : ℝ) / n) : ℝ) : ℂ) := rfl
  rw [this, normSq_smul, normSq_normalize n v h, one_mul]

/-! ### sign fix -/

theorem toMat_signFix (n : Nat) (Q : Nat → Nat → ℂ) (d : Nat → ℂ) :
    toMat n n (signFix Q d) = toMat n n Q * Matrix.diagonal (fun j : Fin n => sgn1 (d j.val)) := by
  ext i j
  simp [toMat, signFix, Matrix.mul_apply, Matrix.diagonal_apply]

theorem sgn1_unimodular (z : ℂ) : star (sgn1 z) * sgn1 z = 1 := by
  show star (if z.re < 0 then (-1 : ℂ) else 1) * (if z.re < 0 then (-1 : ℂ) else 1) = 1
  split <;> simp

/-! ### density matrix -/

theorem toMat_densityMatrix (n k : Nat) (G : Nat → Nat → ℂ) :
    toMat n n (densityMatrix n k G) =
      ((toMat n k G * (toMat n k G)ᴴ).trace)⁻¹ • (toMat n k G * (toMat n k G)ᴴ) := by
  rw [← toMat_gram, ← traceN_eq]
  ext i j
  simp [toMat, densityMatrix, div_eq_inv_mul]

/-! ### inverse square root from the `eigh` contract -/

theorem invSqrt0_mul (x : ℝ) (hx : 0 < x) : invSqrt0 (x : ℂ) * (x : ℂ) * invSqrt0 (x : ℂ) = 1 := by
  show ((1 / Real.sqrt (max 0 (x : ℂ).re) : ℝ) : ℂ) * (x : ℂ) * ((1 / Real.sqrt (max 0 (x : ℂ).re) : ℝ) : ℂ) = 1
  simp only [Complex.ofReal_re, max_eq_right hx.le]
  rw [← Complex.ofReal_mul, ← Complex.ofReal_mul]
  have h1 : Real.sqrt x ≠ 0 := (Real.sqrt_pos.2 hx).ne'
  have : 1 / Real.sqrt x * x * (1 / Real.sqrt x) = 1 := by
    field_simp
    exact (Real.sq_sqrt hx.le).symm
  rw [this]; simp

/-- **`T S T = 1`** for `T = (V·diag(1/√λ))·Vᴴ` — from the contract of `np.linalg.eigh`: `V` unitary, `S = V·diag(λ)·Vᴴ`, `λ > 0` -/
theorem invSqrt_contract (n : Nat) (V : Nat → Nat → ℂ) (lam : Nat → ℝ) (S : Matrix (Fin n) (Fin n) ℂ)
    (hV : (toMat n n V)ᴴ * toMat n n V = 1) (hV' : toMat n n V * (toMat n n V)ᴴ = 1) (hpos : ∀ a, a < n → 0 < lam a)
    (hS : S = toMat n n V * Matrix.diagonal (fun a : Fin n => ((lam a.val : ℝ) : ℂ)) * (toMat n n V)ᴴ) :
    toMat n n (invSqrtMat n V fun a => (lam a : ℂ)) * S * toMat n n (invSqrtMat n V fun a => (lam a : ℂ)) = 1 := by
  unfold invSqrtMat
  rw [toMat_specMat, hS]
  set W := toMat n n V
  set D := Matrix.diagonal (fun a : Fin n => invSqrt0 ((lam a.val : ℝ) : ℂ))
  set L := Matrix.diagonal (fun a : Fin n => ((lam a.val : ℝ) : ℂ))
  have : W * D * Wᴴ * (W * L * Wᴴ) * (W * D * Wᴴ) = W * (D * (Wᴴ * W) * L * (Wᴴ * W) * D) * Wᴴ := by
    simp only [Matrix.mul_assoc]
  rw [this, hV, Matrix.mul_one, Matrix.mul_one]
  have hD : D * L * D = 1 := by
    simp only [D, L, Matrix.diagonal_mul_diagonal]
    rw [← Matrix.diagonal_one]
    congr 1
    funext a
    exact invSqrt0_mul (lam a.val) (hpos a.val a.isLt)
  rw [hD, Matrix.mul_one, hV']

theorem invSqrtMat_hermitian (n : Nat) (V : Nat → Nat → ℂ) (lam : Nat → ℝ) :
    (toMat n n (invSqrtMat n V fun a => (lam a : ℂ)))ᴴ = toMat n n (invSqrtMat n V fun a => (lam a : ℂ)) := by
  unfold invSqrtMat
  rw [toMat_specMat]
  simp only [Matrix.conjTranspose_mul, Matrix.conjTranspose_conjTranspose, Matrix.diagonal_conjTranspose, Matrix.mul_assoc]
  congr 2
  ext a b
  simp only [Matrix.diagonal_apply, Pi.star_apply]
  split
  · show star ((1 / Real.sqrt (max 0 ((lam a.val : ℝ) : ℂ).re) : ℝ) : ℂ) = _
    rw [Complex.star_def, Complex.conj_ofReal]; rfl
  · rfl

/-! ### POVM -/

theorem toMat_povm (n : Nat) (B : Nat → Nat → Nat → ℂ) (V : Nat → Nat → ℂ) (evl : Nat → ℂ) (s : Nat) :
    toMat n n (povm n B V evl s) =
      toMat n n (invSqrtMat n V evl) * (toMat n n (B s) * (toMat n n (B s))ᴴ) * toMat n n (invSqrtMat n V evl) := by
  unfold povm
  rw [toMat_conj3, toMat_gram]

theorem toMat_povmSum (n m : Nat) (B : Nat → Nat → Nat → ℂ) :
    toMat n n (povmSum n m B) = ∑ s : Fin m, toMat n n (B s.val) * (toMat n n (B s.val))ᴴ := by
  ext i j
  simp only [toMat, povmSum, sumR_eq, Matrix.of_apply, Matrix.sum_apply]
  refine Finset.sum_congr rfl fun s _ => ?_
  have := congrFun (congrFun (toMat_gram n n (B s.val)) i) j
  simpa [toMat] using this

/-! ### Kraus -/

theorem toMat_krausOut (dout din : Nat) (Z : Nat → Nat → Nat → ℂ) (Minv : Nat → Nat → ℂ) (s : Nat) :
    toMat dout din (krausOut din Z Minv s) = toMat dout din (Z s) * (toMat din din Minv)ᴴ := by
  ext a i
  simp [toMat, krausOut, sumR_eq, Matrix.mul_apply, conj_eq_star]

/-! ### Hermitian matrix with prescribed spectrum -/

theorem hermEig_hermitian (n : Nat) (V : Nat → Nat → ℂ) (lam : Nat → ℝ) :
    (toMat n n (hermEig n V fun a => (lam a : ℂ)))ᴴ = toMat n n (hermEig n V fun a => (lam a : ℂ)) := by
  unfold hermEig
  rw [toMat_specMat]
  simp only [Matrix.conjTranspose_mul, Matrix.conjTranspose_conjTranspose, Matrix.diagonal_conjTranspose, Matrix.mul_assoc]
  congr 2
  ext a b
  simp only [Matrix.diagonal_apply, Pi.star_apply]
  split
  · rw [Complex.star_def, Complex.conj_ofReal]
  · rfl

/-! ### Choi operator -/

theorem choiOut_partial_trace (din dout r : Nat) (G T : Nat → Nat → ℂ) (i j : Nat) :
    sumR dout (fun a => choiOut din dout r G T (i * dout + a) (j * dout + a)) =
      sumR din fun k => sumR din fun l => conj (T k i) * choiPT din dout r G k l * T l j := by
  simp only [sumR_eq, choiOut, choiPT]
  have hdm : ∀ (x : Nat) (a : Fin dout), (x * dout + a.val) / dout = x ∧ (x * dout + a.val) % dout = a.val := by
    intro x a
    have hpos : 0 < dout := Nat.lt_of_le_of_lt (Nat.zero_le _) a.isLt
    constructor
    · rw [Nat.add_comm, Nat.add_mul_div_right _ _ hpos, Nat.div_eq_of_lt a.isLt, Nat.zero_add]
    · rw [Nat.add_comm, Nat.add_mul_mod_self_right, Nat.mod_eq_of_lt a.isLt]
  simp only [hdm]
  rw [Finset.sum_comm]
  refine Finset.sum_congr rfl fun k _ => ?_
  rw [Finset.sum_comm]
  refine Finset.sum_congr rfl fun l _ => ?_
  rw [Finset.mul_sum, Finset.sum_mul]

/-! ### adjacency matrix -/

theorem adjacency_symm (D : Nat → Nat → Nat) (i j : Nat) : adjacency D i j = adjacency D j i := by
  unfold adjacency; omega

theorem adjacency_diag (D : Nat → Nat → Nat) (i : Nat) : adjacency D i i = 0 := by
  simp [adjacency]

theorem adjacency_le_one (D : Nat → Nat → Nat) (hD : ∀ i j, D i j ≤ 1) (i j : Nat) : adjacency D i j ≤ 1 := by
  unfold adjacency
  have := hD i j; have := hD j i
  split <;> split <;> omega

/-! ### `rand_F2` -/

theorem f2Result_spec (nz no : Bool) : ∀ (draws : List (List Nat)) (r : List Nat) (k : Nat),
    f2Result nz no draws = some (r, k) →
      f2Rejected nz no r = false ∧ 1 ≤ k ∧ draws[k - 1]? = some r ∧ ∀ j, j < k - 1 → ∃ x, draws[j]? = some x ∧ f2Rejected nz no x = true := by
  intro draws
  induction draws with
  | nil => intro r k h; simp [f2Result] at h
  | cons x rest ih =>
    intro r k h
    by_cases hx : f2Rejected nz no x = true
    · simp only [f2Result, hx, if_true, Option.map_eq_some_iff] at h
      obtain ⟨⟨r', k'⟩, h', he⟩ := h
      simp only [Prod.mk.injEq] at he
      obtain ⟨rfl, rfl⟩ := he
      obtain ⟨a1, a2, a3, a4⟩ := ih r' k' h'
      refine ⟨a1, by omega, ?_, ?_⟩
      · have : k' + 1 - 1 = (k' - 1) + 1 := by omega
        rw [this, List.getElem?_cons_succ]; exact a3
      · intro j hj
        cases j with
        | zero => exact ⟨x, by simp, hx⟩
        | succ j => rw [List.getElem?_cons_succ]; exact a4 j (by omega)
    · have hx' : f2Rejected nz no x = false := by simpa using hx
      simp only [f2Result, hx', Bool.false_eq_true, if_false, Option.some.injEq, Prod.mk.injEq] at h
      obtain ⟨rfl, rfl⟩ := h
      exact ⟨hx', le_refl _, by simp, by intro j hj; omega⟩

end Numqi.RandNorm
