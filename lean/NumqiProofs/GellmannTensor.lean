/- Round 6 (C16): the executed `tensor_n = 2` list (`itertools.product` order, `np.kron` flattening) is the reindexed Kronecker product of the basis,
hence orthogonal with `Tr = 4 δ`; the `with_I=False` lists are the prefixes without the last element. -/
import NumqiProofs.GellmannLemmas
import Mathlib.LinearAlgebra.Matrix.Kronecker
import Mathlib.Logic.Equiv.Fin.Basic

namespace Numqi.Gellmann
open Matrix

variable {R : Type} [CommRing R] {d : Nat}

/-- element `a*|L₂| + b` of the `itertools.product` enumeration -/
theorem getElem?_flatMap_map {β γ δ : Type} (f : β → γ → δ) (L₁ : List β) (L₂ : List γ) (a b : Nat) (ha : a < L₁.length) (hb : b < L₂.length) :
    (L₁.flatMap fun A => L₂.map fun B => f A B)[a * L₂.length + b]? = some (f L₁[a] L₂[b]) := by
  induction L₁ generalizing a with
  | nil => simp at ha
  | cons A t ih =>
    rw [List.flatMap_cons]
    cases a with
    | zero =>
      rw [Nat.zero_mul, Nat.zero_add, List.getElem?_append_left (by simpa using hb)]
      simp [hb]
    | succ a =>
      have hle : (L₂.map fun B => f A B).length ≤ (a + 1) * L₂.length + b := by
        simp only [List.length_map]; nlinarith
      rw [List.getElem?_append_right hle]
      have : (a + 1) * L₂.length + b - (L₂.map fun B => f A B).length = a * L₂.length + b := by
        simp only [List.length_map]; rw [Nat.add_mul, Nat.one_mul]; omega
      rw [this, ih a (by simpa using ha)]
      simp

theorem length_flatMap_map {β γ δ : Type} (f : β → γ → δ) (L₁ : List β) (L₂ : List γ) :
    (L₁.flatMap fun A => L₂.map fun B => f A B).length = L₁.length * L₂.length := by
  induction L₁ with
  | nil => simp
  | cons A t ih => rw [List.flatMap_cons, List.length_append, ih]; simp [Nat.add_mul, Nat.add_comm]

/-- `np.kron` of two matrices is the Mathlib Kronecker product reindexed by `(r1, r2) ↦ r1*d + r2` -/
theorem of_kron2 (A B : Mat d R) :
    Matrix.of (kron2 d A B) = Matrix.reindex finProdFinEquiv finProdFinEquiv (kroneckerMap (· * ·) (Matrix.of A) (Matrix.of B)) := by
  ext r c
  simp only [Matrix.of_apply, kron2, Matrix.reindex_apply, Matrix.submatrix_apply, kroneckerMap_apply]
  rfl

/-- element `x` of the executed `all_gellmann_matrix(d, tensor_n=2)` as a Mathlib matrix (`0` outside the range) -/
def basisT2 (S : Scalars R) (d x : Nat) : Matrix (Fin (d * d)) (Fin (d * d)) R := ((allGellmannT2 S d true).map Matrix.of).getD x 0

theorem length_allGellmannT2 (S : Scalars R) (hd : 1 ≤ d) : (allGellmannT2 S d true).length = (d * d) * (d * d) := by
  simp only [allGellmannT2, dropI, if_true]
  rw [length_flatMap_map, length_allGellmann S hd]

/-- **the executed flattening**: element `a*d² + b` is `G_a ⊗ G_b` (reindexed Kronecker product) -/
theorem basisT2_eq (S : Scalars R) (hd : 1 ≤ d) {a b : Nat} (ha : a < d * d) (hb : b < d * d) :
    basisT2 S d (a * (d * d) + b) = Matrix.reindex finProdFinEquiv finProdFinEquiv (kroneckerMap (· * ·) (basis S d a) (basis S d b)) := by
  have hl := length_allGellmann S hd
  have ha' : a < (allGellmann S d).length := by rw [hl]; exact ha
  have hb' : b < (allGellmann S d).length := by rw [hl]; exact hb
  have key := getElem?_flatMap_map (fun A B => kron2 d A B) (allGellmann S d) (allGellmann S d) a b ha' hb'
  rw [hl] at key
  unfold basisT2 basis
  simp only [allGellmannT2, dropI, if_true, List.getD_eq_getElem?_getD, List.getElem?_map, key, Option.map_some, Option.getD_some,
    List.getElem?_eq_getElem ha', List.getElem?_eq_getElem hb']
  exact of_kron2 _ _

theorem trace_reindex_mul {m n : Type} [Fintype m] [Fintype n] [DecidableEq m] [DecidableEq n] (e : m ≃ n) (M N : Matrix m m R) :
    trace (Matrix.reindex e e M * Matrix.reindex e e N) = trace (M * N) := by
  simp only [Matrix.reindex_apply, Matrix.submatrix_mul_equiv]
  simp only [trace, Matrix.diag, Matrix.submatrix_apply]
  exact Equiv.sum_comp e.symm (fun i => (M * N) i i)

/-- **orthogonality of the executed `tensor_n = 2` list: `Tr(T_x T_y) = 4 δ_xy`** for all `x, y < d⁴` -/
theorem basisT2_orthogonal [StarRing R] (S : Scalars R) (hS : S.Valid d) (hd : 1 ≤ d) {x y : Nat}
    (hx : x < (d * d) * (d * d)) (hy : y < (d * d) * (d * d)) :
    trace (basisT2 S d x * basisT2 S d y) = if x = y then 4 else 0 := by
  have hpos : 0 < d * d := Nat.mul_pos hd hd
  have ex : x = x / (d * d) * (d * d) + x % (d * d) := (Nat.div_add_mod' x (d * d)).symm
  have ey : y = y / (d * d) * (d * d) + y % (d * d) := (Nat.div_add_mod' y (d * d)).symm
  have ha : x / (d * d) < d * d := Nat.div_lt_of_lt_mul hx
  have hb : x % (d * d) < d * d := Nat.mod_lt _ hpos
  have ha' : y / (d * d) < d * d := Nat.div_lt_of_lt_mul hy
  have hb' : y % (d * d) < d * d := Nat.mod_lt _ hpos
  rw [ex, ey, basisT2_eq S hd ha hb, basisT2_eq S hd ha' hb', trace_reindex_mul, ← Matrix.mul_kronecker_mul, Matrix.trace_kronecker,
    basis_orthogonal S hS hd ha ha', basis_orthogonal S hS hd hb hb', ← ex, ← ey]
  have hiff : (x / (d * d) = y / (d * d) ∧ x % (d * d) = y % (d * d)) ↔ x = y := by
    constructor
    · rintro ⟨h1, h2⟩; rw [ex, ey, h1, h2]
    · rintro rfl; exact ⟨rfl, rfl⟩
  by_cases h : x = y
  · subst h
    simp; norm_num
  · have : ¬ (x / (d * d) = y / (d * d) ∧ x % (d * d) = y % (d * d)) := fun hh => h (hiff.1 hh)
    rw [if_neg h]
    by_cases h1 : x / (d * d) = y / (d * d)
    · have h2 : ¬ x % (d * d) = y % (d * d) := fun h2 => this ⟨h1, h2⟩
      simp [h2]
    · simp [h1]

/-- `with_I = False`: the same lists without their last element (the identity, resp. `I ⊗ I`) -/
theorem allGellmannOpt_false (S : Scalars R) : allGellmannOpt S d false = (allGellmann S d).dropLast := rfl
theorem allGellmannT2_false (S : Scalars R) : allGellmannT2 S d false = (allGellmannT2 S d true).dropLast := rfl
theorem getElem?_dropLast_of_lt {β : Type} (L : List β) (x : Nat) (hx : x + 1 < L.length) : L.dropLast[x]? = L[x]? := by
  rw [List.dropLast_eq_take, List.getElem?_take_of_lt (by omega)]

end Numqi.Gellmann
