/- Model-specific lemmas for C01: symmetric matrices, Frobenius normalisation, channel compositions. -/
import NumqiProofs.ManifoldPsd

namespace Numqi.Manifold
open Matrix Finset
open Numqi.Gellmann (Scalars synthesis)
open scoped ComplexOrder

variable {dim rank : Nat}

/-! ### `to_symmetric_matrix` -/

/-- coefficient vector of the traceless real placement `[θ[:N0], 0_{N0}, θ[N0:], 0]` -/
def symVecR (dim : Nat) (θ : Nat → ℝ) : Nat → ℂ := fun p =>
  if p < dim * (dim - 1) / 2 then ((θ p : ℝ) : ℂ) else if p < 2 * (dim * (dim - 1) / 2) then 0
  else if p < dim * dim - 1 then ((θ (p - dim * (dim - 1) / 2) : ℝ) : ℂ) else 0

theorem symVecR_real (θ : Nat → ℝ) (a : Nat) : star (symVecR dim θ a) = symVecR dim θ a := by
  unfold symVecR; split_ifs <;> simp

theorem symVecR_last (θ : Nat → ℝ) (hd : 1 ≤ dim) : symVecR dim θ (dim * dim - 1) = 0 := by
  unfold symVecR
  have h2 : ¬ dim * dim - 1 < dim * dim - 1 := lt_irrefl _
  have h1 : ¬ dim * dim - 1 < dim * (dim - 1) / 2 := by
    obtain ⟨n, rfl⟩ : ∃ n, dim = n + 1 := ⟨dim - 1, by omega⟩
    simp only [Nat.add_sub_cancel]
    have : (n + 1) * n / 2 ≤ (n + 1) * n := Nat.div_le_self _ _
    have : (n + 1) * (n + 1) = (n + 1) * n + n + 1 := by ring
    omega
  rw [if_neg h1]
  split_ifs <;> simp

/-- **`to_symmetric_matrix` is Hermitian (symmetric in the real case) for all four placements** -/
theorem symmetricRaw_hermitian' (S : Scalars ℂ) (hS : S.Valid dim) (hd : 1 ≤ dim) (isReal isTrace0 : Bool) (θ : Nat → ℝ) :
    (toM dim dim (symmetricRaw S dim isReal isTrace0 θ))ᴴ = toM dim dim (symmetricRaw S dim isReal isTrace0 θ) := by
  ext r c
  simp only [conjTranspose_apply, toM, Matrix.of_apply]
  cases isReal <;> cases isTrace0
  · -- complex, full
    simp only [symmetricRaw, NMat.get_ofFn_fin, CxOps.ofReal, CxOps.I]
    rcases lt_trichotomy r.val c.val with h | h | h
    · have h' : ¬ c.val < r.val := by omega
      simp [h, h']
    · simp [h]
    · have h' : ¬ r.val < c.val := by omega
      simp [h, h']
  · -- complex, traceless
    have hH := Gellmann.synthesis_hermitian S hS hd (genVecC dim θ) (fun a _ => genVecC_real θ a)
    have := congrFun (congrFun hH r) c
    simp only [conjTranspose_apply, Matrix.of_apply] at this
    simp only [symmetricRaw, NMat.get_ofFn_fin, synthesisN_fin]
    exact this
  · -- real, full
    simp only [symmetricRaw, NMat.get_ofFn_fin, CxOps.ofReal]
    rcases lt_trichotomy r.val c.val with h | h | h
    · have h' : ¬ c.val < r.val := by omega
      simp [h, h']
    · simp [h]
    · have h' : ¬ r.val < c.val := by omega
      simp [h, h']
  · -- real, traceless
    have hH := Gellmann.synthesis_hermitian S hS hd (symVecR dim θ) (fun a _ => symVecR_real θ a)
    have := congrFun (congrFun hH r) c
    simp only [conjTranspose_apply, Matrix.of_apply] at this
    simp only [symmetricRaw, NMat.get_ofFn_fin, synthesisN_fin, CxOps.ofReal, CxOps.re]
    change star (((synthesis S dim (symVecR dim θ) c r).re : ℝ) : ℂ) = (((synthesis S dim (symVecR dim θ) r c).re : ℝ) : ℂ)
    rw [← this]; simp

/-- **trace zero** for the traceless placements -/
theorem symmetricRaw_trace' (S : Scalars ℂ) (hd : 1 ≤ dim) (isReal : Bool) (θ : Nat → ℝ) :
    trace (toM dim dim (symmetricRaw S dim isReal true θ)) = 0 := by
  cases isReal
  · have := Gellmann.synthesis_trace S hd (genVecC dim θ)
    have h0 : genVecC dim θ (dim * dim - 1) = 0 := by simp [genVecC]
    rw [h0, zero_mul] at this
    rw [← this]
    simp only [trace, diag_apply, toM, Matrix.of_apply, symmetricRaw, NMat.get_ofFn_fin, synthesisN_fin]
    rfl
  · have := Gellmann.synthesis_trace S hd (symVecR dim θ)
    rw [symVecR_last θ hd, zero_mul] at this
    simp only [trace, diag_apply, toM, Matrix.of_apply, symmetricRaw, NMat.get_ofFn_fin, synthesisN_fin, CxOps.ofReal, CxOps.re]
    simp only [trace, diag_apply, Matrix.of_apply] at this
    change ∑ i : Fin dim, (((synthesis S dim (symVecR dim θ) i i).re : ℝ) : ℂ) = 0
    rw [← Complex.ofReal_sum, ← Complex.re_sum, this]; simp

/-! ### normalisation by the Frobenius norm -/

theorem frobSq_eq (m n : Nat) (A : NMat ℂ) :
    frobSq m n A = ∑ i : Fin m, ∑ j : Fin n, Complex.normSq (A.get i.val j.val) := by
  unfold frobSq
  rw [sumRange_eq, Finset.sum_range]
  refine Finset.sum_congr rfl (fun i _ => ?_)
  rw [sumRange_eq, Finset.sum_range]
  refine Finset.sum_congr rfl (fun j _ => ?_)
  simp only [CxOps.re, CxOps.conj]
  rw [mul_comm, Complex.mul_conj]; simp

theorem frobSq_nonneg (m n : Nat) (A : NMat ℂ) : 0 ≤ frobSq m n A := by
  rw [frobSq_eq]; exact Finset.sum_nonneg fun i _ => Finset.sum_nonneg fun j _ => Complex.normSq_nonneg _

/-- **dividing by the Frobenius norm gives Frobenius norm one** (non-zero matrix) -/
theorem frobSq_divReal (m n : Nat) (A : NMat ℂ) (hA : frobSq m n A ≠ 0) :
    frobSq m n (divReal m n A (sqrt (frobSq m n A))) = 1 := by
  have h0 := frobSq_nonneg m n A
  have hs : Real.sqrt (frobSq m n A) * Real.sqrt (frobSq m n A) = frobSq m n A := Real.mul_self_sqrt h0
  rw [frobSq_eq]
  have : ∀ (i : Fin m) (j : Fin n), Complex.normSq ((divReal m n A (sqrt (frobSq m n A))).get i.val j.val)
      = Complex.normSq (A.get i.val j.val) / frobSq m n A := by
    intro i j
    simp only [divReal, NMat.get_ofFn_fin, CxOps.ofReal, CxOps.I, CxOps.re, CxOps.im, sqrt_eq]
    rw [Complex.normSq_apply, Complex.normSq_apply]
    simp only [Complex.add_re, Complex.ofReal_re, Complex.mul_re, Complex.I_re, zero_mul, Complex.I_im, Complex.ofReal_im,
      mul_zero, sub_zero, add_zero, Complex.add_im, Complex.mul_im, one_mul, zero_add]
    rw [div_mul_div_comm, div_mul_div_comm, hs, add_div]
  simp only [this, ← Finset.sum_div]
  rw [← frobSq_eq]; exact div_self hA

/-- with `is_norm1` the output has Frobenius norm one (θ such that the raw matrix is non-zero) -/
theorem symmetricMatrix_norm1' (S : Scalars ℂ) (isReal isTrace0 : Bool) (θ : Nat → ℝ)
    (hne : frobSq dim dim (symmetricRaw S dim isReal isTrace0 θ) ≠ 0) :
    frobSq dim dim (symmetricMatrix S dim isReal isTrace0 true θ) = 1 := by
  unfold symmetricMatrix; simp only [if_true]
  exact frobSq_divReal dim dim _ hne

/-- `to_stiefel_polar`, `rank = 1`: unit norm (non-zero θ) -/
theorem stiefelPolar_rank1' (invSqrt : NMat ℂ → NMat ℂ) (isReal : Bool) (θ : Nat → ℝ)
    (hne : frobSq dim 1 (stiefelMat (K := ℂ) dim 1 isReal θ) ≠ 0) :
    frobSq dim 1 (stiefelPolar invSqrt dim 1 isReal θ) = 1 := by
  unfold stiefelPolar; simp only [if_true]
  exact frobSq_divReal dim 1 _ hne

/-! ### compositions -/

/-- **complete Kraus set**: `Σ_s K_sᴴ K_s = XᴴX` (so `= 1` on the Stiefel manifold) -/
theorem kraus_complete' (dimIn dimOut choiRank : Nat) (X : NMat ℂ) (i j : Fin dimIn) :
    ∑ s : Fin choiRank, ∑ o : Fin dimOut, star (krausOfStiefel dimOut X s.val o.val i.val) * krausOfStiefel dimOut X s.val o.val j.val
      = ((toM (choiRank * dimOut) dimIn X)ᴴ * toM (choiRank * dimOut) dimIn X) i j := by
  simp only [Matrix.mul_apply, conjTranspose_apply, toM, Matrix.of_apply, krausOfStiefel]
  rw [← Finset.sum_product', ← (finProdFinEquiv (m := choiRank) (n := dimOut)).sum_comp]
  refine Finset.sum_congr rfl (fun x _ => ?_)
  simp only [finProdFinEquiv_apply_val]
  rw [show x.2.val + dimOut * x.1.val = x.1.val * dimOut + x.2.val by ring]

/-- the Choi operator is `V Vᴴ`, hence positive semidefinite -/
theorem choi_posSemidef' (dimIn dimOut choiRank : Nat) (Ks : Nat → Nat → Nat → ℂ) :
    (Matrix.of fun (a b : Fin dimOut × Fin dimIn) => choiOfKraus choiRank Ks a.1.val a.2.val b.1.val b.2.val).PosSemidef := by
  have : (Matrix.of fun (a b : Fin dimOut × Fin dimIn) => choiOfKraus choiRank Ks a.1.val a.2.val b.1.val b.2.val)
      = (Matrix.of fun (a : Fin dimOut × Fin dimIn) (s : Fin choiRank) => Ks s.val a.1.val a.2.val)
        * (Matrix.of fun (a : Fin dimOut × Fin dimIn) (s : Fin choiRank) => Ks s.val a.1.val a.2.val)ᴴ := by
    ext a b
    simp [choiOfKraus, sumK_eq, Matrix.mul_apply, CxOps.conj]
  rw [this]; exact Matrix.posSemidef_self_mul_conjTranspose _

/-- trace preservation: the partial trace of the Choi operator over the output is `conj(XᴴX)` (`= 1` on the Stiefel manifold) -/
theorem choi_partial_trace' (dimIn dimOut choiRank : Nat) (X : NMat ℂ) (i i' : Fin dimIn) :
    ∑ o : Fin dimOut, choiOfKraus choiRank (krausOfStiefel dimOut X) o.val i.val o.val i'.val
      = star (((toM (choiRank * dimOut) dimIn X)ᴴ * toM (choiRank * dimOut) dimIn X) i i') := by
  rw [← kraus_complete' dimIn dimOut choiRank X i i']
  simp only [choiOfKraus, sumK_eq, CxOps.conj, star_sum, star_mul', star_star]
  rw [Finset.sum_comm]
  refine Finset.sum_congr rfl (fun s _ => Finset.sum_congr rfl (fun o _ => ?_))
  rw [Complex.star_def, mul_comm]

/-- dividing by a real number is a real scalar multiple -/
theorem toM_divReal (m n : Nat) (A : NMat ℂ) (x : ℝ) : toM m n (divReal m n A x) = ((x⁻¹ : ℝ) : ℂ) • toM m n A := by
  ext i j
  simp only [toM, divReal, Matrix.of_apply, NMat.get_ofFn_fin, Matrix.smul_apply, smul_eq_mul, CxOps.ofReal, CxOps.I, CxOps.re, CxOps.im]
  apply Complex.ext <;> simp [div_eq_inv_mul]

/-- `to_symmetric_matrix` stays Hermitian (and traceless) after the `is_norm1` normalisation -/
theorem symmetricMatrix_hermitian' (S : Scalars ℂ) (hS : S.Valid dim) (hd : 1 ≤ dim) (isReal isTrace0 isNorm1 : Bool) (θ : Nat → ℝ) :
    (toM dim dim (symmetricMatrix S dim isReal isTrace0 isNorm1 θ))ᴴ = toM dim dim (symmetricMatrix S dim isReal isTrace0 isNorm1 θ) := by
  unfold symmetricMatrix
  simp only []
  split_ifs
  · rw [toM_divReal, conjTranspose_smul, symmetricRaw_hermitian' S hS hd]; simp
  · exact symmetricRaw_hermitian' S hS hd isReal isTrace0 θ

theorem symmetricMatrix_trace' (S : Scalars ℂ) (hd : 1 ≤ dim) (isReal isNorm1 : Bool) (θ : Nat → ℝ) :
    trace (toM dim dim (symmetricMatrix S dim isReal true isNorm1 θ)) = 0 := by
  unfold symmetricMatrix
  simp only []
  split_ifs
  · rw [toM_divReal, trace_smul, symmetricRaw_trace' S hd, smul_zero]
  · exact symmetricRaw_trace' S hd isReal θ

/-- the first `rank` columns of a unitary matrix are orthonormal (`Stiefel(method='so-exp'/'so-cayley')`) -/
theorem soColumns_orthonormal (rank : Nat) (h : rank ≤ dim) (U : NMat ℂ) (hU : (toM dim dim U)ᴴ * toM dim dim U = 1) :
    (toM dim rank (soColumns dim rank U))ᴴ * toM dim rank (soColumns dim rank U) = 1 := by
  ext c1 c2
  have := congrFun (congrFun hU ⟨c1.val, lt_of_lt_of_le c1.isLt h⟩) ⟨c2.val, lt_of_lt_of_le c2.isLt h⟩
  simp only [Matrix.mul_apply, conjTranspose_apply, toM, Matrix.of_apply, Matrix.one_apply, Fin.mk.injEq] at this ⊢
  simp only [soColumns, NMat.get_ofFn_fin, Fin.ext_iff]
  exact this

end Numqi.Manifold
