/- Round 6 (C02): differential of `to_discrete_probability_sphere` = (entrywise square) ∘ (quotient sphere map); kernel and rank. -/
import NumqiProofs.ManifoldVecDiff
import Mathlib.Analysis.Calculus.FDeriv.Pi
import Mathlib.Analysis.Calculus.FDeriv.Pow

namespace Numqi.Manifold
open Module

variable {n : Nat}

/-- entrywise square `ℝⁿ → ℝⁿ` -/
def sqMap (y : EuclideanSpace ℝ (Fin n)) : Fin n → ℝ := fun i => y i ^ 2

/-- its differential `v ↦ (2 y_i v_i)_i` -/
noncomputable def sqD (y : EuclideanSpace ℝ (Fin n)) : EuclideanSpace ℝ (Fin n) →L[ℝ] (Fin n → ℝ) :=
  ContinuousLinearMap.pi fun i => (2 * y i) • (EuclideanSpace.proj i : EuclideanSpace ℝ (Fin n) →L[ℝ] ℝ)

theorem sqD_apply (y v : EuclideanSpace ℝ (Fin n)) (i : Fin n) : sqD y v i = 2 * y i * v i := by
  simp [sqD]

theorem hasFDerivAt_sqMap (y : EuclideanSpace ℝ (Fin n)) : HasFDerivAt (sqMap : EuclideanSpace ℝ (Fin n) → Fin n → ℝ) (sqD y) y := by
  rw [hasFDerivAt_pi']
  intro i
  have hp : HasFDerivAt (fun z : EuclideanSpace ℝ (Fin n) => z i) (EuclideanSpace.proj i : EuclideanSpace ℝ (Fin n) →L[ℝ] ℝ) y :=
    (EuclideanSpace.proj i : EuclideanSpace ℝ (Fin n) →L[ℝ] ℝ).hasFDerivAt
  have h2 := hp.pow 2
  refine h2.congr_fderiv ?_
  ext v
  simp [sqD]

theorem sqD_injective {y : EuclideanSpace ℝ (Fin n)} (hy : ∀ i, y i ≠ 0) : Function.Injective (sqD y) := by
  intro v w h
  ext i
  have := congrFun h i
  rw [sqD_apply, sqD_apply] at this
  exact mul_left_cancel₀ (mul_ne_zero two_ne_zero (hy i)) this

/-- the probability-sphere map -/
noncomputable def probSphereMap (x : EuclideanSpace ℝ (Fin n)) : Fin n → ℝ := sqMap (quotMap x)

/-- its differential at `x ≠ 0` -/
noncomputable def probSphereD (x : EuclideanSpace ℝ (Fin n)) : EuclideanSpace ℝ (Fin n) →L[ℝ] (Fin n → ℝ) :=
  (sqD (quotMap x)).comp (quotD x)

theorem hasFDerivAt_probSphereMap {x : EuclideanSpace ℝ (Fin n)} (hx : x ≠ 0) :
    HasFDerivAt (probSphereMap : EuclideanSpace ℝ (Fin n) → Fin n → ℝ) (probSphereD x) x :=
  (hasFDerivAt_sqMap (quotMap x)).comp x (hasFDerivAt_quotMap hx)

theorem quotMap_coord_ne {x : EuclideanSpace ℝ (Fin n)} (hx : ∀ i, x i ≠ 0) (i : Fin n) : (quotMap x) i ≠ 0 := by
  have hx0 : x ≠ 0 := fun h => hx i (by rw [h]; rfl)
  simp only [quotMap, PiLp.smul_apply, smul_eq_mul]
  exact mul_ne_zero (inv_ne_zero (norm_ne_zero_iff.2 hx0)) (hx i)

/-- **kernel = radial line at every interior point** (all coordinates non-zero) -/
theorem ker_probSphereD {x : EuclideanSpace ℝ (Fin n)} (hx : ∀ i, x i ≠ 0) (hn : 0 < n) :
    LinearMap.ker (probSphereD x : EuclideanSpace ℝ (Fin n) →ₗ[ℝ] (Fin n → ℝ)) = Submodule.span ℝ {x} := by
  have hx0 : x ≠ 0 := fun h => hx ⟨0, hn⟩ (by rw [h]; rfl)
  rw [← ker_quotD hx0]
  ext v
  simp only [LinearMap.mem_ker, ContinuousLinearMap.coe_coe, probSphereD, ContinuousLinearMap.comp_apply]
  constructor
  · intro h
    exact sqD_injective (quotMap_coord_ne hx) (by rw [h, map_zero])
  · intro h; rw [h, map_zero]

/-- **rank `n − 1` = dimension of the simplex, at every interior point** -/
theorem finrank_range_probSphereD {x : EuclideanSpace ℝ (Fin n)} (hx : ∀ i, x i ≠ 0) (hn : 0 < n) :
    finrank ℝ (LinearMap.range (probSphereD x : EuclideanSpace ℝ (Fin n) →ₗ[ℝ] (Fin n → ℝ))) + 1 = n := by
  have hx0 : x ≠ 0 := fun h => hx ⟨0, hn⟩ (by rw [h]; rfl)
  have h := LinearMap.finrank_range_add_finrank_ker (probSphereD x : EuclideanSpace ℝ (Fin n) →ₗ[ℝ] (Fin n → ℝ))
  rw [ker_probSphereD hx hn, finrank_span_singleton hx0, finrank_euclideanSpace, Fintype.card_fin] at h
  exact h

/-- the model's `probSphereVec` is this map -/
theorem probSphereVec_eq (n : Nat) (θ : Nat → ℝ) (i : Fin n) : probSphereVec n θ i.val = probSphereMap (toE n θ) i := by
  simp only [probSphereVec, probSphereMap, sqMap, sphereQuotientVec_eq, sq]

end Numqi.Manifold
