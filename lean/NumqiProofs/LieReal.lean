/-
Helper lemmas for the extraction `so3_to_angle` (C15, Part B): cofactor identities of SO(3), the algebraic
round trips of the three branches, and the real instance of `Trig`.
-/
import NumqiProofs.Lie
import Mathlib.LinearAlgebra.Matrix.Adjugate
import Mathlib.Analysis.SpecialFunctions.Complex.Arg
import Mathlib.Analysis.SpecialFunctions.Trigonometric.Inverse

set_option linter.unusedSectionVars false

namespace Numqi.Lie
open Matrix

variable {R : Type} [CommRing R]

/-- a special orthogonal matrix equals its cofactor matrix -/
theorem so3_transpose_eq_adjugate (M : Matrix (Fin 3) (Fin 3) R) (hO : M * Mᵀ = 1) (hd : M.det = 1) :
    Mᵀ = adjugate M := by
  have hO' : Mᵀ * M = 1 := mul_eq_one_comm.mp hO
  calc Mᵀ = Mᵀ * (M * adjugate M) := by rw [Matrix.mul_adjugate, hd, one_smul, Matrix.mul_one]
    _ = (Mᵀ * M) * adjugate M := by rw [Matrix.mul_assoc]
    _ = adjugate M := by rw [hO', Matrix.one_mul]

theorem so3_cofactor (M : Matrix (Fin 3) (Fin 3) R) (hO : M * Mᵀ = 1) (hd : M.det = 1) :
    M 0 0 = M 1 1 * M 2 2 - M 1 2 * M 2 1 ∧ M 0 1 = -(M 1 0 * M 2 2) + M 1 2 * M 2 0 ∧
    M 1 0 = -(M 0 1 * M 2 2) + M 0 2 * M 2 1 ∧ M 1 1 = M 0 0 * M 2 2 - M 0 2 * M 2 0 := by
  have h := so3_transpose_eq_adjugate M hO hd
  rw [Matrix.adjugate_fin_three] at h
  refine ⟨?_, ?_, ?_, ?_⟩
  · have := congrFun (congrFun h 0) 0; simpa using this
  · have := congrFun (congrFun h 1) 0; simpa using this
  · have := congrFun (congrFun h 0) 1; simpa using this
  · have := congrFun (congrFun h 1) 1; simpa using this

/-- row 2 and column 2 of an orthogonal matrix have unit norm -/
theorem so3_norms (M : Matrix (Fin 3) (Fin 3) R) (hO : M * Mᵀ = 1) :
    M 2 0 * M 2 0 + M 2 1 * M 2 1 + M 2 2 * M 2 2 = 1 ∧ M 0 2 * M 0 2 + M 1 2 * M 1 2 + M 2 2 * M 2 2 = 1
    ∧ M 0 0 * M 0 0 + M 1 0 * M 1 0 + M 2 0 * M 2 0 = 1 := by
  have hO' : Mᵀ * M = 1 := mul_eq_one_comm.mp hO
  refine ⟨?_, ?_, ?_⟩
  · have := congrFun (congrFun hO 2) 2; simpa [mul3_apply] using this
  · have := congrFun (congrFun hO' 2) 2; simpa [mul3_apply] using this
  · have := congrFun (congrFun hO' 0) 0; simpa [mul3_apply] using this

/-- **generic branch, algebraic form**: with `s = sin β ≠ 0` (inverse `si`), `s² = 1 - M22²`, the angles read off the
third row and column rebuild `M`. -/
theorem roundtrip_generic_alg (M : Matrix (Fin 3) (Fin 3) R) (hO : M * Mᵀ = 1) (hd : M.det = 1)
    (s si : R) (hsi : s * si = 1) (hs : s * s = 1 - M 2 2 * M 2 2) :
    M3 (angleToSO3cs (M 0 2 * si) (M 1 2 * si) (M 2 2) s (-M 2 0 * si) (M 2 1 * si)) = M := by
  obtain ⟨e00, e01, e10, e11⟩ := so3_cofactor M hO hd
  apply mat3_ext <;> simp only [angleToSO3cs, mk3_00, mk3_01, mk3_02, mk3_10, mk3_11, mk3_12, mk3_20, mk3_21, mk3_22]
  · linear_combination (-(si*si)) * e00 + (-(si*si) * M 2 2) * e11 + (-(si*si) * M 0 0) * hs + (M 0 0 * (s*si + 1)) * hsi
  · linear_combination (-(si*si)) * e01 + ((si*si) * M 2 2) * e10 + (-(si*si) * M 0 1) * hs + (M 0 1 * (s*si + 1)) * hsi
  · linear_combination (M 0 2) * hsi
  · linear_combination (-(si*si)) * e10 + ((si*si) * M 2 2) * e01 + (-(si*si) * M 1 0) * hs + (M 1 0 * (s*si + 1)) * hsi
  · linear_combination (-(si*si)) * e11 + (-(si*si) * M 2 2) * e00 + (-(si*si) * M 1 1) * hs + (M 1 1 * (s*si + 1)) * hsi
  · linear_combination (M 1 2) * hsi
  · linear_combination (M 2 0) * hsi
  · linear_combination (M 2 1) * hsi

/-- **β = 0 branch, algebraic form**: `ch, sh` are the cosine / sine of `(α+γ)/2`. -/
theorem roundtrip_zero_alg (M : Matrix (Fin 3) (Fin 3) R) (hO : M * Mᵀ = 1) (hd : M.det = 1)
    (h22 : M 2 2 = 1) (h20 : M 2 0 = 0) (h21 : M 2 1 = 0) (h02 : M 0 2 = 0) (h12 : M 1 2 = 0)
    (ch sh : R) (hc : ch * ch - sh * sh = M 0 0) (hs : 2 * sh * ch = M 1 0) :
    M3 (angleToSO3cs ch sh 1 0 ch sh) = M := by
  obtain ⟨e00, e01, e10, e11⟩ := so3_cofactor M hO hd
  simp only [h22, h12, h02, h20, h21] at e00 e01 e10 e11
  apply mat3_ext <;> simp only [angleToSO3cs, mk3_00, mk3_01, mk3_02, mk3_10, mk3_11, mk3_12, mk3_20, mk3_21, mk3_22]
  · linear_combination hc
  · linear_combination -hs - e01
  · linear_combination -h02
  · linear_combination hs
  · linear_combination hc - e11
  · linear_combination -h12
  · linear_combination -h20
  · linear_combination -h21
  · exact h22.symm

/-- **β = π branch, algebraic form**: `ct, st` are the cosine / sine of `α - γ`. -/
theorem roundtrip_pi_alg (M : Matrix (Fin 3) (Fin 3) R) (hO : M * Mᵀ = 1) (hd : M.det = 1)
    (h22 : M 2 2 = -1) (h20 : M 2 0 = 0) (h21 : M 2 1 = 0) (h02 : M 0 2 = 0) (h12 : M 1 2 = 0)
    (ct st : R) (hc : ct = -M 0 0) (hs : st = -M 1 0) :
    M3 (angleToSO3cs ct st (-1) 0 1 0) = M := by
  obtain ⟨e00, e01, e10, e11⟩ := so3_cofactor M hO hd
  simp only [h22, h12, h02, h20, h21] at e00 e01 e10 e11
  apply mat3_ext <;> simp only [angleToSO3cs, mk3_00, mk3_01, mk3_02, mk3_10, mk3_11, mk3_12, mk3_20, mk3_21, mk3_22]
  · linear_combination -hc
  · linear_combination -hs - e01
  · linear_combination -h02
  · linear_combination -hs
  · linear_combination hc - e11
  · linear_combination -h12
  · linear_combination -h20
  · linear_combination -h21
  · exact h22.symm

/-! ### the real instance of `Trig` -/

/-- `np.arctan2 y x` is the argument of `x + i y`; `% (2π)` is `x - 2π ⌊x / 2π⌋`. -/
noncomputable instance instTrigReal : Trig ℝ where
  cos := Real.cos
  sin := Real.sin
  acos := Real.arccos
  atan2 y x := Complex.arg ⟨x, y⟩
  pi := Real.pi
  mod2pi x := x - (2 * Real.pi) * ⌊x / (2 * Real.pi)⌋

theorem cos_mod2pi (x : ℝ) : Real.cos (Trig.mod2pi x) = Real.cos x := by
  show Real.cos (x - (2 * Real.pi) * ⌊x / (2 * Real.pi)⌋) = _
  rw [mul_comm]; exact Real.cos_sub_int_mul_two_pi x _

theorem sin_mod2pi (x : ℝ) : Real.sin (Trig.mod2pi x) = Real.sin x := by
  show Real.sin (x - (2 * Real.pi) * ⌊x / (2 * Real.pi)⌋) = _
  rw [mul_comm]; exact Real.sin_sub_int_mul_two_pi x _

theorem mod2pi_nonneg (x : ℝ) : 0 ≤ (Trig.mod2pi x : ℝ) := by
  show 0 ≤ x - (2 * Real.pi) * ⌊x / (2 * Real.pi)⌋
  have hp : 0 < 2 * Real.pi := by positivity
  have := Int.floor_le (x / (2 * Real.pi))
  have h2 : (⌊x / (2 * Real.pi)⌋ : ℝ) * (2 * Real.pi) ≤ x := by
    rwa [le_div_iff₀ hp] at this
  linarith

theorem mod2pi_lt (x : ℝ) : (Trig.mod2pi x : ℝ) < 2 * Real.pi := by
  show x - (2 * Real.pi) * ⌊x / (2 * Real.pi)⌋ < 2 * Real.pi
  have hp : 0 < 2 * Real.pi := by positivity
  have := Int.lt_floor_add_one (x / (2 * Real.pi))
  rw [div_lt_iff₀ hp] at this
  linarith

/-- the contract of `arctan2` used by the extraction: `r cos(atan2 y x) = x`, `r sin(atan2 y x) = y`, `r = √(x²+y²) > 0`. -/
theorem cos_atan2 {x y r : ℝ} (hr : 0 < r) (h : x * x + y * y = r * r) : Real.cos (Trig.atan2 y x) = x / r := by
  show Real.cos (Complex.arg ⟨x, y⟩) = _
  have hn : ‖(⟨x, y⟩ : ℂ)‖ = r := by
    rw [Complex.norm_def, Complex.normSq_mk, h]; exact Real.sqrt_mul_self hr.le
  have hz : (⟨x, y⟩ : ℂ) ≠ 0 := by
    intro e; rw [e, norm_zero] at hn; exact hr.ne hn
  rw [Complex.cos_arg hz, hn]

theorem sin_atan2 {x y r : ℝ} (hr : 0 < r) (h : x * x + y * y = r * r) : Real.sin (Trig.atan2 y x) = y / r := by
  show Real.sin (Complex.arg ⟨x, y⟩) = _
  have hn : ‖(⟨x, y⟩ : ℂ)‖ = r := by
    rw [Complex.norm_def, Complex.normSq_mk, h]; exact Real.sqrt_mul_self hr.le
  rw [Complex.sin_arg, hn]

theorem sq_sum_zero {x y : ℝ} (h : x * x + y * y = 0) : x = 0 ∧ y = 0 := by
  have hx := mul_self_nonneg x; have hy := mul_self_nonneg y
  exact ⟨mul_self_eq_zero.mp (by linarith), mul_self_eq_zero.mp (by linarith)⟩

theorem cos_mul_self_add (x : ℝ) : Real.cos x * Real.cos x + Real.sin x * Real.sin x = 1 := by
  have := Real.cos_sq_add_sin_sq x; linear_combination this

theorem so3_entry_bounds (M : Matrix (Fin 3) (Fin 3) ℝ) (hO : M * Mᵀ = 1) : -1 ≤ M 2 2 ∧ M 2 2 ≤ 1 := by
  obtain ⟨hr2, _, _⟩ := so3_norms M hO
  have h1 : M 2 2 * M 2 2 ≤ 1 := by linarith [mul_self_nonneg (M 2 0), mul_self_nonneg (M 2 1)]
  exact abs_le_of_sq_le_sq' (by rw [sq, one_pow]; exact h1) zero_le_one

theorem clip1_of_mem {x : ℝ} (h1 : -1 ≤ x) (h2 : x ≤ 1) : clip1 x = x := by
  unfold clip1; rw [if_neg (not_lt.mpr h1), if_neg (not_lt.mpr h2)]

end Numqi.Lie
