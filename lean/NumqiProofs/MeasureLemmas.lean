/-
Helper lemmas for the measurement model (C11).
-/
import NumqiProofs.SimLemmas
import NumqiModel.Measure
import Mathlib.Data.List.Sort

namespace Numqi
open Function
variable {R : Type} {n m : Nat}


theorem foldl_bits_toNat : ∀ {m : Nat} (y : Bits m) (a : Nat),
    (List.ofFn y).foldl (fun acc b => 2 * acc + b.toNat) a = a * 2 ^ m + y.toNat
  | 0, y, a => by simp [Bits.toNat]
  | m + 1, y, a => by
    rw [List.ofFn_succ, List.foldl_cons, foldl_bits_toNat (fun i => y i.succ)]
    simp only [Bits.toNat, pow_succ]
    ring

/-- the bitwise reading of the measured positions is the flat index of the selected bits -/
theorem keptIndexBitwise_eq (s : Fin m → Fin n) (p : Nat) :
    keptIndexBitwise n (List.ofFn fun j => (s j).val) p = ((Bits.ofNat n p).sel s).toNat := by
  have h := foldl_bits_toNat ((Bits.ofNat n p).sel s) 0
  simp only [zero_mul, zero_add] at h
  rw [← h, keptIndexBitwise]
  have : (List.ofFn fun j => (s j).val) = (List.ofFn s).map Fin.val := by simp [List.map_ofFn, Function.comp_def]
  rw [this, List.foldl_map]
  have h2 : List.ofFn ((Bits.ofNat n p).sel s) = (List.ofFn s).map (fun i => (Bits.ofNat n p) i) := by
    simp only [List.map_ofFn, Function.comp_def]; rfl
  rw [h2, List.foldl_map]
  rfl

theorem toNat_eq_iff {m : Nat} (y : Bits m) {v : Nat} (hv : v < 2 ^ m) : y.toNat = v ↔ y = Bits.ofNat m v := by
  constructor
  · intro h; rw [← h, Bits.ofNat_toNat]
  · intro h; rw [h, Bits.toNat_ofNat hv]

theorem sum_range_eq_finRange {M : Type} [AddCommMonoid M] (N : Nat) (f : Nat → M) :
    ((List.range N).map f).sum = ((List.finRange N).map fun i => f i.val).sum := by
  rw [← List.map_coe_finRange_eq_range, List.map_map]; rfl


theorem ofFn_mem_sublists {n m : Nat} (s : Fin m → Fin n) (hs : StrictMono s) :
    (List.ofFn fun j => (s j).val) ∈ (List.range n).sublists := by
  rw [List.mem_sublists]
  have h1 : (List.ofFn fun j => (s j).val).Pairwise (· < ·) := by
    rw [List.pairwise_ofFn]; intro i j hij; exact hs hij
  have h2 : (List.range n).Pairwise (· < ·) := List.pairwise_lt_range
  refine List.sublist_of_subperm_of_pairwise (List.subperm_of_subset (h1.imp (fun h => Nat.ne_of_lt h)) ?_) h1 h2
  intro x hx
  rw [List.mem_ofFn] at hx
  obtain ⟨j, rfl⟩ := hx
  exact List.mem_range.2 (s j).isLt

section records
variable {α : Type} [Add α] [Mul α] [Zero α] [Conj α]

theorem measureRecords_append (c1 c2 : List (Op n α)) (a : Array α) :
    measureRecords (c1 ++ c2) a = measureRecords c1 a ++ measureRecords c2 (applyStateA c1 a) := by
  induction c1 generalizing a with
  | nil => simp [measureRecords, applyStateA]
  | cons g c1 ih =>
    simp only [List.cons_append, measureRecords, ih, List.append_assoc]
    rfl

omit [Conj α] in
theorem applyStateA_append (c1 c2 : List (Op n α)) (a : Array α) :
    applyStateA (c1 ++ c2) a = applyStateA c2 (applyStateA c1 a) := by
  simp [applyStateA, List.foldl_append]
end records

end Numqi
