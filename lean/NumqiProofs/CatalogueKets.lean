/-
Helper lemmas for C18: support of the W state.
-/
import NumqiProofs.Catalogue
import NumqiProofs.Dicke

set_option linter.unusedSectionVars false

namespace Numqi.Catalogue
open Finset

theorem ketW_sq (n x : ℕ) :
    (ketW n x).sq = if x ∈ (Finset.range n).image (fun k => 2 ^ k) then 1 / (n : ℚ) else 0 := by
  unfold ketW
  have h : ((List.range n).any fun k => x == 2 ^ k) = true ↔ x ∈ (Finset.range n).image (fun k => 2 ^ k) := by
    simp only [List.any_eq_true, List.mem_range, beq_iff_eq, Finset.mem_image, Finset.mem_range]
    constructor
    · rintro ⟨k, hk, e⟩; exact ⟨k, hk, e.symm⟩
    · rintro ⟨k, hk, e⟩; exact ⟨k, hk, e.symm⟩
  by_cases hx : x ∈ (Finset.range n).image (fun k => 2 ^ k)
  · rw [if_pos (h.mpr hx), if_pos hx]
  · rw [if_neg (fun e => hx (h.mp e)), if_neg hx]; rfl

theorem ketW_norm (n : ℕ) (hn : n ≠ 0) : ∑ x ∈ Finset.range (2 ^ n), (ketW n x).sq = 1 := by
  simp only [ketW_sq]
  rw [← Finset.sum_filter]
  have hsub : (Finset.range (2 ^ n)).filter (fun x => x ∈ (Finset.range n).image (fun k => 2 ^ k))
      = (Finset.range n).image (fun k => 2 ^ k) := by
    ext x
    simp only [Finset.mem_filter, Finset.mem_range, Finset.mem_image]
    constructor
    · rintro ⟨_, h⟩; exact h
    · rintro ⟨k, hk, rfl⟩
      exact ⟨Nat.pow_lt_pow_right (by norm_num) hk, k, hk, rfl⟩
  rw [hsub, Finset.sum_const, Finset.card_image_of_injective _ (Nat.pow_right_injective (le_refl 2)), Finset.card_range]
  have : (n : ℚ) ≠ 0 := Nat.cast_ne_zero.mpr hn
  simp [this]

theorem ketGHZ_norm (n : ℕ) (hn : n ≠ 0) : ∑ x ∈ Finset.range (2 ^ n), (ketGHZ n x).sq = 1 := by
  have h2 : 2 ≤ 2 ^ n := by
    calc 2 = 2 ^ 1 := by norm_num
      _ ≤ 2 ^ n := Nat.pow_le_pow_right (by norm_num) (Nat.one_le_iff_ne_zero.mpr hn)
  have hsq : ∀ x, (ketGHZ n x).sq = (if x = 0 then (1/2 : ℚ) else 0) + (if x = 2 ^ n - 1 then (1/2 : ℚ) else 0) := by
    intro x
    unfold ketGHZ
    by_cases h0 : x = 0
    · subst h0
      have : ¬ (0 = 2 ^ n - 1) := by omega
      simp [this]
    · by_cases h1 : x + 1 = 2 ^ n
      · have e : x = 2 ^ n - 1 := by omega
        rw [if_pos (Or.inr h1), if_neg h0, if_pos e]; norm_num
      · have : ¬ (x = 2 ^ n - 1) := by omega
        simp [h0, h1, this, SAmp.zero]
  simp only [hsq, Finset.sum_add_distrib, Finset.sum_ite_eq', Finset.mem_range]
  have a : 0 < 2 ^ n := by omega
  have b : 2 ^ n - 1 < 2 ^ n := by omega
  simp [a, b]; norm_num

/-- Dicke states are normalised for every occupation list (bridge to `cnt_eq_multinomial` of the C17 development) -/
theorem ketDicke_norm (klist : List ℕ) :
    ∑ x ∈ Finset.range (klist.length ^ klist.sum), (ketDicke klist x).sq = 1 := by
  have hM : (Dicke.multinomial klist : ℚ) ≠ 0 := by exact_mod_cast (Dicke.multinomial_pos klist).ne'
  have h := Dicke.cnt_eq_multinomial klist.length klist.sum klist rfl rfl
  have : ∀ x ∈ Finset.range (klist.length ^ klist.sum), (ketDicke klist x).sq
      = ((if Dicke.occ klist.length (Dicke.digits klist.length klist.sum x) = klist then 1 else 0 : ℕ) : ℚ)
          * (1 / (Dicke.multinomial klist : ℚ)) := by
    intro x _; unfold ketDicke; split <;> simp [SAmp.zero]
  rw [Finset.sum_congr rfl this, ← Finset.sum_mul, ← Nat.cast_sum]
  have hc : (∑ x ∈ Finset.range (klist.length ^ klist.sum),
      if Dicke.occ klist.length (Dicke.digits klist.length klist.sum x) = klist then 1 else 0)
      = Dicke.cnt klist.length klist.sum klist := rfl
  rw [hc, h]; field_simp

end Numqi.Catalogue
