/- Round 6 (C02): derivative positivity of the scalar trivialisations (softplus, exp, open interval). -/
import NumqiProofs.ManifoldLemmas
import Mathlib.Analysis.SpecialFunctions.ExpDeriv
import Mathlib.Analysis.SpecialFunctions.Log.Deriv
import Mathlib.Analysis.Calculus.Deriv.Inv

namespace Numqi.Manifold

theorem softplus_eq_log (x : ℝ) : softplus x = Real.log (1 + Real.exp x) := by
  unfold softplus
  split_ifs with h
  · simp only [log1p_eq, exp_eq]
    have h1 : (0 : ℝ) < 1 + Real.exp (-x) := by positivity
    have h2 : x = Real.log (Real.exp x) := (Real.log_exp x).symm
    have h3 : Real.log (1 + Real.exp (-x)) + x = Real.log ((1 + Real.exp (-x)) * Real.exp x) := by
      rw [Real.log_mul (ne_of_gt h1) (Real.exp_pos x).ne', Real.log_exp]
    rw [h3]
    congr 1
    rw [add_mul, one_mul, ← Real.exp_add]; simp; ring
  · simp only [log1p_eq, exp_eq]

/-- `to_positive_real_softplus` is differentiable with derivative `sigmoid x > 0`: the chart has rank 1 at every θ -/
theorem softplus_hasDerivAt_pos (x : ℝ) :
    HasDerivAt (softplus : ℝ → ℝ) (Real.exp x / (1 + Real.exp x)) x ∧ 0 < Real.exp x / (1 + Real.exp x) := by
  have hpos : (0 : ℝ) < 1 + Real.exp x := by positivity
  constructor
  · have h1 : HasDerivAt (fun y => 1 + Real.exp y) (Real.exp x) x := (Real.hasDerivAt_exp x).const_add 1
    have h2 := h1.log (ne_of_gt hpos)
    have e : (softplus : ℝ → ℝ) = fun y => Real.log (1 + Real.exp y) := funext softplus_eq_log
    rw [e]; exact h2
  · positivity

/-- `to_positive_real_exp`: derivative `exp x > 0` -/
theorem expMap_hasDerivAt_pos (x : ℝ) : HasDerivAt (expMap : ℝ → ℝ) (Real.exp x) x ∧ 0 < Real.exp x :=
  ⟨Real.hasDerivAt_exp x, Real.exp_pos x⟩

/-- `to_open_interval(·, l, u)`: derivative `(u-l)·s(1-s)` with `s = sigmoid x`, positive for `l < u` -/
theorem openInterval_hasDerivAt_pos (x l u : ℝ) (h : l < u) :
    ∃ D : ℝ, HasDerivAt (fun y => openInterval y l u) D x ∧ 0 < D ∧ D = (u - l) * (sigmoid x * (1 - sigmoid x)) := by
  have hpos : (0 : ℝ) < 1 + Real.exp (-x) := by positivity
  have h1 : HasDerivAt (fun y => 1 + Real.exp (-y)) (-Real.exp (-x)) x := by
    have := ((hasDerivAt_neg x).exp).const_add 1
    simpa using this
  have h2 : HasDerivAt (fun y => (1 + Real.exp (-y))⁻¹) (-(-Real.exp (-x)) / (1 + Real.exp (-x)) ^ 2) x := h1.inv (ne_of_gt hpos)
  have hs : (fun y => sigmoid y) = fun y => (1 + Real.exp (-y))⁻¹ := by funext y; simp [sigmoid, one_div]
  have h3 : HasDerivAt (fun y => openInterval y l u) (-(-Real.exp (-x)) / (1 + Real.exp (-x)) ^ 2 * (u - l)) x := by
    have := (h2.mul_const (u - l)).add_const l
    have e : (fun y => openInterval y l u) = fun y => (1 + Real.exp (-y))⁻¹ * (u - l) + l := by
      funext y; simp [openInterval, sigmoid, one_div]
    rw [e]; exact this
  refine ⟨_, h3, ?_, ?_⟩
  · have : 0 < u - l := by linarith
    have he := Real.exp_pos (-x)
    have : 0 < -(-Real.exp (-x)) / (1 + Real.exp (-x)) ^ 2 := by rw [neg_neg]; positivity
    positivity
  · simp only [sigmoid, exp_eq]
    field_simp
    ring
