/-
C19: the model of `make_error_list` enumerates every Pauli string of weight `1..d-1` exactly once.
-/
import Mathlib.Tactic
import NumqiProofs.QecBits

namespace Numqi.Qec

/-! ### `combs` = `itertools.combinations` -/

theorem mem_combs {α : Type} (l : List α) (k : Nat) (s : List α) :
    s ∈ combs l k ↔ s.Sublist l ∧ s.length = k := by
  induction l generalizing k s with
  | nil =>
    cases k with
    | zero => simp [combs]
    | succ k =>
      simp only [combs, List.not_mem_nil, List.sublist_nil, false_iff, not_and]
      intro h; subst h; simp
  | cons a l ih =>
    cases k with
    | zero =>
      simp only [combs, List.mem_singleton, List.length_eq_zero_iff]
      constructor
      · intro h; subst h; simp
      · intro h; exact h.2
    | succ k =>
      simp only [combs, List.mem_append, List.mem_map, ih]
      constructor
      · rintro (⟨r, ⟨hr, hl⟩, rfl⟩ | ⟨hs, hl⟩)
        · exact ⟨hr.cons_cons a, by simp [hl]⟩
        · exact ⟨hs.cons a, hl⟩
      · rintro ⟨hs, hl⟩
        cases hs with
        | cons _ h => right; exact ⟨h, hl⟩
        | cons_cons _ h =>
          left
          rename_i r
          exact ⟨r, ⟨h, by simpa using hl⟩, rfl⟩

theorem nodup_combs {α : Type} (l : List α) (hl : l.Nodup) (k : Nat) : (combs l k).Nodup := by
  induction l generalizing k with
  | nil => cases k <;> simp [combs]
  | cons a l ih =>
    cases k with
    | zero => simp [combs]
    | succ k =>
      rw [List.nodup_cons] at hl
      simp only [combs]
      rw [List.nodup_append]
      refine ⟨(ih hl.2 k).map (fun x y h => by simpa using h), ih hl.2 (k + 1), ?_⟩
      intro s hs t ht hst
      rw [List.mem_map] at hs
      obtain ⟨r, _, rfl⟩ := hs
      rw [mem_combs] at ht
      subst hst
      exact hl.1 (ht.1.subset (List.mem_cons_self ..))

/-- a sublist of a duplicate-free list is determined by its elements -/
theorem sublist_eq_filter {α : Type} [DecidableEq α] {s l : List α} (h : s.Sublist l) (hl : l.Nodup) :
    l.filter (fun x => decide (x ∈ s)) = s := by
  induction h with
  | slnil => rfl
  | cons a h ih =>
    rename_i s l
    rw [List.nodup_cons] at hl
    have : a ∉ s := fun ha => hl.1 (h.subset ha)
    rw [List.filter_cons]
    simp only [this, decide_false, Bool.false_eq_true, if_false]
    exact ih hl.2
  | cons_cons a h ih =>
    rename_i s l
    rw [List.nodup_cons] at hl
    rw [List.filter_cons]
    simp only [List.mem_cons, true_or, decide_true, if_true]
    have hc : List.filter (fun x => decide (x = a ∨ x ∈ s)) l = List.filter (fun x => decide (x ∈ s)) l := by
      apply List.filter_congr
      intro x hx
      have : x ≠ a := fun e => hl.1 (e ▸ hx)
      simp [this]
    rw [hc, ih hl.2]

/-! ### `prods` = `itertools.product([X,Y,Z], repeat=w)` -/

theorem mem_prods (w : Nat) (g : List Nat) :
    g ∈ prods w ↔ g.length = w ∧ ∀ x ∈ g, x = 1 ∨ x = 2 ∨ x = 3 := by
  induction w generalizing g with
  | zero => simp only [prods, List.mem_singleton, List.length_eq_zero_iff]; constructor
            · intro h; subst h; simp
            · intro h; exact h.1
  | succ w ih =>
    simp only [prods, List.mem_flatMap, List.mem_map, ih]
    constructor
    · rintro ⟨o, ho, r, ⟨hl, hr⟩, rfl⟩
      refine ⟨by simp [hl], ?_⟩
      intro x hx
      rcases List.mem_cons.1 hx with rfl | hx
      · simpa using ho
      · exact hr x hx
    · rintro ⟨hl, hr⟩
      cases g with
      | nil => simp at hl
      | cons o r =>
        refine ⟨o, ?_, r, ⟨by simpa using hl, fun x hx => hr x (List.mem_cons_of_mem _ hx)⟩, rfl⟩
        have := hr o (List.mem_cons_self ..)
        simpa using this

theorem nodup_prods (w : Nat) : (prods w).Nodup := by
  induction w with
  | zero => simp [prods]
  | succ w ih =>
    simp only [prods]
    rw [List.nodup_flatMap]
    refine ⟨fun o _ => ih.map (fun x y h => by simpa using h), ?_⟩
    have : [1, 2, 3].Pairwise (fun a b : Nat => a ≠ b) := by decide
    refine this.imp ?_
    intro a b hab
    simp only [Function.onFun, List.disjoint_left, List.mem_map]
    rintro s ⟨r, _, rfl⟩ ⟨r', _, h⟩
    simp only [List.cons.injEq] at h
    exact hab h.1.symm

/-! ### canonical strings -/

/-- symbol at qubit `q` of an error given as a (qubit, symbol) list -/
def val (e : List (Nat × Nat)) (q : Nat) : Nat :=
  match e.find? (fun qs => qs.1 == q) with
  | some qs => qs.2
  | none => 0

theorem sparseToSyms_eq (n : Nat) (e : List (Nat × Nat)) : sparseToSyms n e = (List.range n).map (val e) := rfl

theorem val_nil (q : Nat) : val [] q = 0 := rfl

theorem val_cons (a g : Nat) (e : List (Nat × Nat)) (q : Nat) :
    val ((a, g) :: e) q = if a = q then g else val e q := by
  unfold val
  by_cases h : a = q
  · simp [h]
  · simp [h]

theorem val_zip_map (qs : List Nat) (f : Nat → Nat) (q : Nat) :
    val (qs.zip (qs.map f)) q = if q ∈ qs then f q else 0 := by
  induction qs with
  | nil => simp [val_nil]
  | cons a qs ih =>
    simp only [List.map_cons, List.zip_cons_cons, val_cons, ih, List.mem_cons]
    by_cases h : a = q
    · subst h; simp
    · have : ¬ (q = a) := fun e => h e.symm
      simp [h, this]

theorem val_ne_zero (qs gs : List Nat) (hlen : gs.length = qs.length) (hg : ∀ g ∈ gs, g ≠ 0) (q : Nat) :
    val (qs.zip gs) q ≠ 0 ↔ q ∈ qs := by
  induction qs generalizing gs with
  | nil => simp [val_nil]
  | cons a qs ih =>
    cases gs with
    | nil => simp at hlen
    | cons g gs =>
      simp only [List.zip_cons_cons, val_cons, List.mem_cons]
      by_cases h : a = q
      · subst h; simp [hg g (List.mem_cons_self ..)]
      · have : ¬ (q = a) := fun e => h e.symm
        simp only [h, if_false, this, false_or]
        exact ih gs (by simpa using hlen) (fun g' hg' => hg g' (List.mem_cons_of_mem _ hg'))

theorem map_val (qs gs : List Nat) (hnd : qs.Nodup) (hlen : gs.length = qs.length) :
    qs.map (val (qs.zip gs)) = gs := by
  induction qs generalizing gs with
  | nil => simp at hlen; simp [hlen]
  | cons a qs ih =>
    cases gs with
    | nil => simp at hlen
    | cons g gs =>
      rw [List.nodup_cons] at hnd
      simp only [List.zip_cons_cons, List.map_cons, val_cons, if_true, List.cons.injEq, true_and]
      have hc : qs.map (val ((a, g) :: qs.zip gs)) = qs.map (val (qs.zip gs)) := by
        apply List.map_congr_left
        intro q hq
        have : a ≠ q := fun e => hnd.1 (e ▸ hq)
        simp [val_cons, this]
      rw [hc]
      exact ih gs hnd.2 (by simpa using hlen)

theorem symWeight_map (l : List Nat) (f : Nat → Nat) :
    symWeight (l.map f) = (l.filter (fun q => f q != 0)).length := by
  unfold symWeight
  rw [List.filter_map, List.length_map]
  rfl

theorem list_eq_map_getD (s : List Nat) : s = (List.range s.length).map (fun q => s.getD q 0) := by
  apply List.ext_getElem
  · simp
  · intro i h1 h2
    simp [List.getD_eq_getElem?_getD, List.getElem?_eq_getElem h1]

/-- what an element of `errorList` looks like -/
theorem mem_errorList (n d : Nat) (e : List (Nat × Nat)) :
    e ∈ errorList n d ↔ ∃ qs gs : List Nat, qs.Sublist (List.range n) ∧ 1 ≤ qs.length ∧ qs.length < d ∧
      gs.length = qs.length ∧ (∀ g ∈ gs, g = 1 ∨ g = 2 ∨ g = 3) ∧ e = qs.zip gs := by
  simp only [errorList, List.mem_flatMap, List.mem_range, List.mem_map, mem_combs, mem_prods]
  constructor
  · rintro ⟨w, hw, qs, ⟨hs, hl⟩, gs, ⟨hgl, hg⟩, rfl⟩
    exact ⟨qs, gs, hs, by omega, by omega, by omega, hg, rfl⟩
  · rintro ⟨qs, gs, hs, h1, h2, hgl, hg, rfl⟩
    exact ⟨qs.length - 1, by omega, qs, ⟨hs, by omega⟩, gs, ⟨by omega, hg⟩, rfl⟩

/-- the string of an element of `errorList`: length, symbols, weight -/
theorem syms_of_mem (n : Nat) (qs gs : List Nat) (hs : qs.Sublist (List.range n)) (hgl : gs.length = qs.length)
    (hg : ∀ g ∈ gs, g = 1 ∨ g = 2 ∨ g = 3) :
    (sparseToSyms n (qs.zip gs)).length = n ∧ (∀ x ∈ sparseToSyms n (qs.zip gs), x < 4) ∧
      symWeight (sparseToSyms n (qs.zip gs)) = qs.length := by
  have hg0 : ∀ g ∈ gs, g ≠ 0 := fun g hgm => by rcases hg g hgm with h | h | h <;> omega
  refine ⟨by simp [sparseToSyms_eq], ?_, ?_⟩
  · intro x hx
    rw [sparseToSyms_eq, List.mem_map] at hx
    obtain ⟨q, _, rfl⟩ := hx
    by_cases h : val (qs.zip gs) q = 0
    · omega
    · unfold val at h ⊢
      cases hf : (qs.zip gs).find? (fun qs => qs.1 == q) with
      | none => simp
      | some p =>
        have hm := List.mem_of_find?_eq_some hf
        have := hg p.2 (List.of_mem_zip hm).2
        simp only
        omega
  · rw [sparseToSyms_eq, symWeight_map]
    have : (List.range n).filter (fun q => val (qs.zip gs) q != 0) = (List.range n).filter (fun q => decide (q ∈ qs)) := by
      apply List.filter_congr
      intro q _
      have := val_ne_zero qs gs hgl hg0 q
      by_cases hq : q ∈ qs
      · simp [hq, this.2 hq]
      · have h0 : val (qs.zip gs) q = 0 := by by_contra h; exact hq (this.1 h)
        simp [hq, h0]
    rw [this, sublist_eq_filter hs (List.nodup_range)]

/-- **soundness**: every generated error is a Pauli string on `n` qubits of weight `1..d-1` -/
theorem errorList_sound (n d : Nat) (s : List Nat) (h : s ∈ (errorList n d).map (sparseToSyms n)) :
    s.length = n ∧ (∀ x ∈ s, x < 4) ∧ 1 ≤ symWeight s ∧ symWeight s < d := by
  rw [List.mem_map] at h
  obtain ⟨e, he, rfl⟩ := h
  rw [mem_errorList] at he
  obtain ⟨qs, gs, hs, h1, h2, hgl, hg, rfl⟩ := he
  obtain ⟨a, b, c⟩ := syms_of_mem n qs gs hs hgl hg
  exact ⟨a, b, by omega, by omega⟩

/-- **completeness**: every Pauli string on `n` qubits of weight `1..d-1` is generated -/
theorem errorList_complete (n d : Nat) (s : List Nat) (hl : s.length = n) (hs : ∀ x ∈ s, x < 4)
    (h1 : 1 ≤ symWeight s) (h2 : symWeight s < d) : s ∈ (errorList n d).map (sparseToSyms n) := by
  subst hl
  set f : Nat → Nat := fun q => s.getD q 0 with hf
  set qs := (List.range s.length).filter (fun q => f q != 0) with hqs
  have hsf : s = (List.range s.length).map f := list_eq_map_getD s
  have hw : symWeight s = qs.length := by
    conv_lhs => rw [hsf]
    rw [symWeight_map]
  rw [List.mem_map]
  refine ⟨qs.zip (qs.map f), ?_, ?_⟩
  · rw [mem_errorList]
    refine ⟨qs, qs.map f, List.filter_sublist, by omega, by omega, by simp, ?_, rfl⟩
    intro g hg
    rw [List.mem_map] at hg
    obtain ⟨q, hq, rfl⟩ := hg
    rw [hqs, List.mem_filter, List.mem_range] at hq
    have hlt : f q < 4 := by
      simp only [hf, List.getD_eq_getElem?_getD, List.getElem?_eq_getElem hq.1, Option.getD_some]
      exact hs _ (List.getElem_mem hq.1)
    have hne : f q ≠ 0 := by simpa using hq.2
    omega
  · rw [sparseToSyms_eq]
    conv_rhs => rw [hsf]
    apply List.map_congr_left
    intro q hq
    rw [val_zip_map]
    by_cases h : q ∈ qs
    · simp [h]
    · simp only [h, if_false]
      rw [hqs, List.mem_filter] at h
      by_contra h0
      exact h ⟨hq, by simpa using (Ne.symm h0)⟩

theorem errorList_raw_nodup (n d : Nat) : (errorList n d).Nodup := by
  unfold errorList
  rw [List.nodup_flatMap]
  constructor
  · intro w _
    rw [List.nodup_flatMap]
    constructor
    · intro qs hqs
      rw [mem_combs] at hqs
      refine (nodup_prods (w + 1)).map_on ?_
      intro gs hgs gs' hgs' h
      rw [mem_prods] at hgs hgs'
      have e1 := List.map_snd_zip (l₁ := qs) (l₂ := gs) (by omega)
      have e2 := List.map_snd_zip (l₁ := qs) (l₂ := gs') (by omega)
      rw [← e1, ← e2, h]
    · refine (nodup_combs _ List.nodup_range (w + 1)).imp_of_mem ?_
      intro qs qs' hqs hqs' hne
      rw [mem_combs] at hqs hqs'
      simp only [Function.onFun, List.disjoint_left, List.mem_map]
      rintro e ⟨gs, hgs, rfl⟩ ⟨gs', hgs', h⟩
      rw [mem_prods] at hgs hgs'
      have e1 := List.map_fst_zip (l₁ := qs) (l₂ := gs) (by omega)
      have e2 := List.map_fst_zip (l₁ := qs') (l₂ := gs') (by omega)
      exact hne (by rw [← e1, ← e2, h])
  · refine (List.nodup_range (n := d - 1)).imp_of_mem ?_
    intro w w' _ _ hne
    simp only [Function.onFun, List.disjoint_left, List.mem_flatMap, List.mem_map, mem_combs, mem_prods]
    rintro e ⟨qs, ⟨_, hl⟩, gs, ⟨hgl, _⟩, rfl⟩ ⟨qs', ⟨_, hl'⟩, gs', ⟨hgl', _⟩, h⟩
    have := congrArg List.length h
    simp only [List.length_zip] at this
    omega

/-- **no duplicates**: no Pauli string is generated twice -/
theorem errorList_nodup (n d : Nat) : ((errorList n d).map (sparseToSyms n)).Nodup := by
  refine (errorList_raw_nodup n d).map_on ?_
  intro e he e' he' h
  rw [mem_errorList] at he he'
  obtain ⟨qs, gs, hs, _, _, hgl, hg, rfl⟩ := he
  obtain ⟨qs', gs', hs', _, _, hgl', hg', rfl⟩ := he'
  have hg0 : ∀ g ∈ gs, g ≠ 0 := fun g hgm => by rcases hg g hgm with h | h | h <;> omega
  have hg0' : ∀ g ∈ gs', g ≠ 0 := fun g hgm => by rcases hg' g hgm with h | h | h <;> omega
  rw [sparseToSyms_eq, sparseToSyms_eq] at h
  have hv : ∀ q, q < n → val (qs.zip gs) q = val (qs'.zip gs') q := by
    intro q hq
    have := List.map_inj_left.1 h q (List.mem_range.2 hq)
    exact this
  have hqq : qs = qs' := by
    rw [← sublist_eq_filter hs List.nodup_range, ← sublist_eq_filter hs' List.nodup_range]
    apply List.filter_congr
    intro q hq
    rw [List.mem_range] at hq
    have a := val_ne_zero qs gs hgl hg0 q
    have b := val_ne_zero qs' gs' hgl' hg0' q
    rw [hv q hq] at a
    have : q ∈ qs ↔ q ∈ qs' := a.symm.trans b
    simp [this]
  subst hqq
  have hnd : qs.Nodup := List.Nodup.sublist hs List.nodup_range
  have e1 := map_val qs gs hnd hgl
  have e2 := map_val qs gs' hnd hgl'
  have : qs.map (val (qs.zip gs)) = qs.map (val (qs.zip gs')) := by
    apply List.map_congr_left
    intro q hq
    exact hv q (List.mem_range.1 (hs.subset hq))
  rw [← e1, ← e2, this]

/-! ### the operator of a sparse error is the operator of its canonical string -/

theorem ofSparse_x (e : List (Nat × Nat)) (j : Nat) :
    (MP.ofSparse e).x.testBit j = e.any (fun p => p.1 == j && (p.2 == 1 || p.2 == 2)) := by
  induction e with
  | nil => simp [MP.ofSparse, MP.one]
  | cons p e ih =>
    obtain ⟨q, s⟩ := p
    simp only [MP.ofSparse, List.any_cons]
    by_cases h : (s == 1 || s == 2) = true
    · simp only [h, if_true, Nat.testBit_or, ih, testBit_bit, Bool.and_true]
      rw [Bool.or_comm]; congr 1
    · have h' : (s == 1 || s == 2) = false := by simpa using h
      simp only [h', Bool.false_eq_true, if_false, ih, Bool.and_false, Bool.false_or]

theorem ofSparse_z (e : List (Nat × Nat)) (j : Nat) :
    (MP.ofSparse e).z.testBit j = e.any (fun p => p.1 == j && (p.2 == 2 || p.2 == 3)) := by
  induction e with
  | nil => simp [MP.ofSparse, MP.one]
  | cons p e ih =>
    obtain ⟨q, s⟩ := p
    simp only [MP.ofSparse, List.any_cons]
    by_cases h : (s == 2 || s == 3) = true
    · simp only [h, if_true, Nat.testBit_or, ih, testBit_bit, Bool.and_true]
      rw [Bool.or_comm]; congr 1
    · have h' : (s == 2 || s == 3) = false := by simpa using h
      simp only [h', Bool.false_eq_true, if_false, ih, Bool.and_false, Bool.false_or]

theorem ofSparse_k (e : List (Nat × Nat)) : (MP.ofSparse e).k = (e.countP (fun p => p.2 == 2)) % 4 := by
  induction e with
  | nil => simp [MP.ofSparse, MP.one]
  | cons p e ih =>
    obtain ⟨q, s⟩ := p
    simp only [MP.ofSparse, List.countP_cons]
    by_cases h : (s == 2) = true
    · simp only [h, if_true, ih]; omega
    · have h' : (s == 2) = false := by simpa using h
      simp only [h', Bool.false_eq_true, if_false, ih, Nat.add_zero]

/-- with distinct qubits, an entry `(j, g)` of the list is what `val` finds -/
theorem val_of_mem (qs gs : List Nat) (hnd : qs.Nodup) (j g : Nat) (h : (j, g) ∈ qs.zip gs) :
    val (qs.zip gs) j = g := by
  induction qs generalizing gs with
  | nil => simp at h
  | cons a qs ih =>
    cases gs with
    | nil => simp at h
    | cons b gs =>
      rw [List.nodup_cons] at hnd
      simp only [List.zip_cons_cons, List.mem_cons, Prod.mk.injEq] at h
      rw [List.zip_cons_cons, val_cons]
      rcases h with ⟨rfl, rfl⟩ | h
      · simp
      · have hj : j ∈ qs := (List.of_mem_zip h).1
        have : a ≠ j := fun e => hnd.1 (e ▸ hj)
        simp only [this, if_false]
        exact ih gs hnd.2 h

theorem mem_of_val_ne_zero (e : List (Nat × Nat)) (j : Nat) (h : val e j ≠ 0) : (j, val e j) ∈ e := by
  unfold val at h ⊢
  cases hf : e.find? (fun qs => qs.1 == j) with
  | none => simp [hf] at h
  | some p =>
    have hm := List.mem_of_find?_eq_some hf
    have hp := List.find?_some hf
    simp only [beq_iff_eq] at hp
    simp only
    rw [← hp]; exact hm

/-- for a list with distinct qubits, "some entry at qubit `j` has a symbol in `P`" is a property of `val` -/
theorem any_eq_val (qs gs : List Nat) (hnd : qs.Nodup) (P : Nat → Bool) (hP : P 0 = false) (j : Nat) :
    (qs.zip gs).any (fun p => p.1 == j && P p.2) = P (val (qs.zip gs) j) := by
  rw [Bool.eq_iff_iff, List.any_eq_true]
  constructor
  · rintro ⟨⟨q, g⟩, hm, hp⟩
    simp only [Bool.and_eq_true, beq_iff_eq] at hp
    obtain ⟨rfl, hp⟩ := hp
    rw [val_of_mem qs gs hnd q g hm]; exact hp
  · intro h
    have hne : val (qs.zip gs) j ≠ 0 := fun e => by rw [e, hP] at h; exact Bool.false_ne_true h
    exact ⟨(j, val (qs.zip gs) j), mem_of_val_ne_zero _ j hne, by simp [h]⟩

theorem val_range_zip (s : List Nat) (j : Nat) : val ((List.range s.length).zip s) j = s.getD j 0 := by
  have h := val_zip_map (List.range s.length) (fun q => s.getD q 0) j
  rw [← list_eq_map_getD s] at h
  rw [h]
  by_cases hj : j < s.length
  · simp [hj]
  · simp [hj, List.getD_eq_getElem?_getD, List.getElem?_eq_none (Nat.le_of_not_lt hj)]

/-- **the sparse form and the canonical string denote the same operator** (sign `+1`):
`MP.ofSparse e = MP.ofSyms (sparseToSyms n e)` for every generated error. -/
theorem ofSparse_eq_ofSyms (n d : Nat) (e : List (Nat × Nat)) (he : e ∈ errorList n d) :
    MP.ofSparse e = MP.ofSyms (sparseToSyms n e) := by
  rw [mem_errorList] at he
  obtain ⟨qs, gs, hs, _, _, hgl, hg, rfl⟩ := he
  have hnd : qs.Nodup := List.Nodup.sublist hs List.nodup_range
  have hg0 : ∀ g ∈ gs, g ≠ 0 := fun g hgm => by rcases hg g hgm with h | h | h <;> omega
  set s := sparseToSyms n (qs.zip gs) with hsdef
  have hsl : s.length = n := by simp [hsdef, sparseToSyms_eq]
  have hval : ∀ j, val ((List.range s.length).zip s) j = val (qs.zip gs) j := by
    intro j
    rw [val_range_zip]
    by_cases hj : j < n
    · simp [hsdef, sparseToSyms_eq, List.getD_eq_getElem?_getD, hj]
    · have h0 : val (qs.zip gs) j = 0 := by
        by_contra h
        have := (val_ne_zero qs gs hgl hg0 j).1 h
        exact hj (List.mem_range.1 (hs.subset this))
      rw [h0, List.getD_eq_getElem?_getD, List.getElem?_eq_none (by omega)]; rfl
  have hndr : (List.range s.length).Nodup := List.nodup_range
  unfold MP.ofSyms
  have hx : (MP.ofSparse (qs.zip gs)).x = (MP.ofSparse ((List.range s.length).zip s)).x := by
    apply Nat.eq_of_testBit_eq; intro j
    rw [ofSparse_x, ofSparse_x, any_eq_val qs gs hnd (fun v => v == 1 || v == 2) rfl, any_eq_val _ s hndr (fun v => v == 1 || v == 2) rfl, hval]
  have hz : (MP.ofSparse (qs.zip gs)).z = (MP.ofSparse ((List.range s.length).zip s)).z := by
    apply Nat.eq_of_testBit_eq; intro j
    rw [ofSparse_z, ofSparse_z, any_eq_val qs gs hnd (fun v => v == 2 || v == 3) rfl, any_eq_val _ s hndr (fun v => v == 2 || v == 3) rfl, hval]
  have hk : (MP.ofSparse (qs.zip gs)).k = (MP.ofSparse ((List.range s.length).zip s)).k := by
    rw [ofSparse_k, ofSparse_k]
    congr 1
    -- number of Y symbols: in `gs`, and in the string
    have c1 : (qs.zip gs).countP (fun p => p.2 == 2) = gs.countP (· == 2) := by
      have := List.map_snd_zip (l₁ := qs) (l₂ := gs) (by omega)
      conv_rhs => rw [← this]
      rw [List.countP_map]; rfl
    have c2 : ((List.range s.length).zip s).countP (fun p => p.2 == 2) = s.countP (· == 2) := by
      have := List.map_snd_zip (l₁ := List.range s.length) (l₂ := s) (by simp)
      conv_rhs => rw [← this]
      rw [List.countP_map]; rfl
    rw [c1, c2]
    have c3 : s.countP (· == 2) = (List.range n).countP (fun q => val (qs.zip gs) q == 2) := by
      rw [hsdef, sparseToSyms_eq, List.countP_map]; rfl
    have c4 : gs.countP (· == 2) = qs.countP (fun q => val (qs.zip gs) q == 2) := by
      conv_lhs => rw [← map_val qs gs hnd hgl]
      rw [List.countP_map]; rfl
    rw [c3, c4]
    have c5 : qs.countP (fun q => val (qs.zip gs) q == 2)
        = ((List.range n).filter (fun x => decide (x ∈ qs))).countP (fun q => val (qs.zip gs) q == 2) := by
      rw [sublist_eq_filter hs List.nodup_range]
    rw [c5, List.countP_filter]
    apply List.countP_congr
    intro q _
    simp only [Bool.and_eq_true, beq_iff_eq, decide_eq_true_eq]
    constructor
    · intro h; exact h.1
    · intro h; exact ⟨h, (val_ne_zero qs gs hgl hg0 q).1 (by omega)⟩
  cases h1 : MP.ofSparse (qs.zip gs)
  cases h2 : MP.ofSparse ((List.range s.length).zip s)
  simp only [h1, h2] at hx hz hk
  simp [hx, hz, hk]

end Numqi.Qec
