/- Round 6 (C02): injectivity of the remaining three placements of `to_symmetric_matrix` (real full, complex full, real traceless). -/
import NumqiProofs.ManifoldPlacement2
import NumqiProofs.ManifoldPlacement
import NumqiProofs.ManifoldSym
namespace Numqi.Manifold
open Matrix Numqi.Gellmann
variable {dim : Nat}

theorem mem_triuPairs {x : Nat × Nat} : x ∈ triuPairs dim ↔ x.1 ≤ x.2 ∧ x.2 < dim := by
  simp only [triuPairs, List.mem_flatMap, List.mem_range, List.mem_map, List.mem_range'_1]
  constructor
  · rintro ⟨r, hr, c, ⟨h1, h2⟩, rfl⟩; exact ⟨h1, by omega⟩
  · intro ⟨h1, h2⟩; exact ⟨x.1, by omega, x.2, ⟨h1, by omega⟩, rfl⟩

theorem nodup_triuPairs : (triuPairs dim).Nodup := by
  unfold triuPairs
  rw [List.nodup_flatMap]
  refine ⟨fun r _ => ?_, ?_⟩
  · exact (List.nodup_range' (s := r) (n := dim - r)).map (fun a b h => by simpa using h)
  · refine List.Pairwise.imp ?_ (List.nodup_range (n := dim))
    intro a b hab
    simp only [Function.onFun, List.disjoint_left, List.mem_map]
    rintro x ⟨j, _, rfl⟩ ⟨j', _, h⟩
    exact hab (by simpa using (congrArg Prod.fst h).symm)

/-- `to_symmetric_matrix(is_real, is_trace0=False)`: `ret[triu] = θ; ret + retᵀ` determines all `d(d+1)/2` parameters -/
theorem symmetric_full_real_injective (S : Gellmann.Scalars ℂ) (θ θ' : Nat → ℝ)
    (h : toM dim dim (symmetricRaw S dim true false θ) = toM dim dim (symmetricRaw S dim true false θ')) :
    ∀ p, p < (triuPairs dim).length → θ p = θ' p := by
  intro p hp
  have hm := mem_triuPairs.1 (List.getElem_mem hp)
  have hidx := nodup_triuPairs.idxOf_getElem p hp
  set x := (triuPairs dim)[p] with hx
  have hr : x.1 < dim := by omega
  have e := congrFun (congrFun h ⟨x.1, hr⟩) ⟨x.2, hm.2⟩
  simp only [toM, symmetricRaw, Matrix.of_apply, NMat.get_ofFn _ _ _ hr hm.2, CxOps.ofReal] at e
  rcases Nat.lt_or_eq_of_le hm.1 with hlt | heq
  · simp only [hlt, if_true, Prod.mk.eta, hidx] at e
    exact_mod_cast e
  · have h1 : ¬ x.1 < x.2 := by omega
    have h2 : ¬ x.2 < x.1 := by omega
    simp only [h1, h2, if_false, Prod.mk.eta, hidx] at e
    have : θ p + θ p = θ' p + θ' p := by exact_mod_cast e
    linarith

/-- complex, `is_trace0=False`: `M = θ.reshape(d,d)`, `triu(M)+triu(M)ᵀ + 1j(tril(M,-1) - tril(M,-1)ᵀ)` determines all `d²` parameters -/
theorem symmetric_full_complex_injective (S : Gellmann.Scalars ℂ) (θ θ' : Nat → ℝ)
    (h : toM dim dim (symmetricRaw S dim false false θ) = toM dim dim (symmetricRaw S dim false false θ')) :
    ∀ p, p < dim * dim → θ p = θ' p := by
  intro p hp
  have hd : 0 < dim := by
    rcases Nat.eq_zero_or_pos dim with h0 | h0
    · rw [h0] at hp; simp at hp
    · exact h0
  have hr : p / dim < dim := by rw [Nat.div_lt_iff_lt_mul hd]; exact hp
  have hc : p % dim < dim := Nat.mod_lt _ hd
  have ep : p / dim * dim + p % dim = p := by rw [Nat.mul_comm]; exact Nat.div_add_mod p dim
  rcases Nat.lt_trichotomy (p / dim) (p % dim) with hlt | heq | hgt
  · have e := congrFun (congrFun h ⟨p / dim, hr⟩) ⟨p % dim, hc⟩
    simp only [toM, symmetricRaw, Matrix.of_apply, NMat.get_ofFn _ _ _ hr hc, CxOps.ofReal, CxOps.I, hlt, if_true, ep] at e
    have := (ofReal_add_I_inj e).1
    exact this
  · have e := congrFun (congrFun h ⟨p / dim, hr⟩) ⟨p % dim, hc⟩
    have h1 : ¬ p / dim < p % dim := by omega
    have h2 : ¬ p % dim < p / dim := by omega
    simp only [toM, symmetricRaw, Matrix.of_apply, NMat.get_ofFn _ _ _ hr hc, CxOps.ofReal, h1, h2, if_false, ep] at e
    have : θ p + θ p = θ' p + θ' p := by exact_mod_cast e
    linarith
  · -- strictly lower position: read it off the imaginary part of the same entry
    have e := congrFun (congrFun h ⟨p / dim, hr⟩) ⟨p % dim, hc⟩
    have h1 : ¬ p / dim < p % dim := by omega
    simp only [toM, symmetricRaw, Matrix.of_apply, NMat.get_ofFn _ _ _ hr hc, CxOps.ofReal, CxOps.I, h1, hgt, if_false, if_true, ep] at e
    exact (ofReal_add_I_inj e).2
/-- entrywise real part of a Hermitian matrix has the same symmetric and diagonal Gell-Mann coefficients -/
theorem coefK_re_of_hermitian (S : Scalars ℂ) (H : Mat dim ℂ) (hH : ∀ r c, star (H c r) = H r c) (k : Kind dim)
    (hk : (∃ p, k = Kind.sym p) ∨ (∃ j, k = Kind.diag j)) :
    coefK S (fun r c => (((H r c).re : ℝ) : ℂ)) k = coefK S H k := by
  have hdiag : ∀ l, (((H l l).re : ℝ) : ℂ) = H l l := by
    intro l
    have := hH l l
    apply Complex.ext
    · simp
    · have h2 := congrArg Complex.im this
      simp only [Complex.star_def, Complex.conj_im] at h2
      simp only [Complex.ofReal_im]; linarith
  rcases hk with ⟨p, rfl⟩ | ⟨j, rfl⟩
  · simp only [coefK]
    congr 1
    rw [← hH p.1 p.2]
    apply Complex.ext <;> simp
  · simp only [coefK, hdiag]

/-- **the real traceless placement `gellmann_basis_to_matrix([θ[:N0], 0, θ[N0:], 0]).real` is injective** on its `d(d+1)/2 - 1` parameters -/
theorem symmetric_traceless_real_injective (S : Scalars ℂ) (hS : S.Valid dim) (hd : 1 ≤ dim) (θ θ' : Nat → ℝ)
    (h : toM dim dim (symmetricRaw S dim true true θ) = toM dim dim (symmetricRaw S dim true true θ')) :
    ∀ p, p < dim * (dim - 1) / 2 + (dim - 1) → θ p = θ' p := by
  have hM : ∀ θ : Nat → ℝ, toM dim dim (symmetricRaw S dim true true θ)
      = Matrix.of (fun r c => (((synthesis S dim (symVecR dim θ) r c).re : ℝ) : ℂ)) := by
    intro θ; ext r c
    simp only [toM, symmetricRaw, Matrix.of_apply, NMat.get_ofFn_fin, synthesisN_fin]; rfl
  rw [hM, hM] at h
  have hA : (fun r c => (((synthesis S dim (symVecR dim θ) r c).re : ℝ) : ℂ)) = fun r c => (((synthesis S dim (symVecR dim θ') r c).re : ℝ) : ℂ) :=
    Matrix.of.injective h
  have hH : ∀ t : Nat → ℝ, ∀ r c, star (synthesis S dim (symVecR dim t) c r) = synthesis S dim (symVecR dim t) r c := by
    intro t r c
    have := Gellmann.synthesis_hermitian S hS hd (symVecR dim t) (fun a _ => symVecR_real t a)
    have e := congrFun (congrFun this r) c
    simpa only [conjTranspose_apply, Matrix.of_apply] using e
  have hlen : (pairs dim).length = dim * (dim - 1) / 2 := (half_pairs (d := dim)).symm
  have main : ∀ k : Kind dim, k.WF → ((∃ p, k = Kind.sym p) ∨ (∃ j, k = Kind.diag j)) → k.pos < dim * dim →
      symVecR dim θ k.pos = symVecR dim θ' k.pos := by
    intro k hk hform hlt
    have hmem := mem_kinds_of_wf hd hk
    have e1 := coef_synthesis S hS hd (symVecR dim θ) hlt
    have e2 := coef_synthesis S hS hd (symVecR dim θ') hlt
    rw [coef_pos S _ hmem, ← coefK_re_of_hermitian S _ (hH θ) k hform] at e1
    rw [coef_pos S _ hmem, ← coefK_re_of_hermitian S _ (hH θ') k hform] at e2
    rw [← e1, ← e2, hA]
  have hsq : dim * (dim - 1) / 2 * 2 = dim * (dim - 1) := by rw [← hlen]; exact length_pairs
  have hdd : dim * dim = dim * (dim - 1) + dim := by
    obtain ⟨n, rfl⟩ : ∃ n, dim = n + 1 := ⟨dim - 1, by omega⟩
    simp only [Nat.add_sub_cancel]; ring
  intro p hp
  by_cases h1 : p < dim * (dim - 1) / 2
  · have hp' : p < (pairs dim).length := by rw [hlen]; exact h1
    set x := (pairs dim)[p] with hx
    have hxlt : x.1 < x.2 := mem_pairs.1 (List.getElem_mem hp')
    have hidx : (pairs dim).idxOf x = p := nodup_pairs.idxOf_getElem p hp'
    have := main (Kind.sym x) hxlt (Or.inl ⟨x, rfl⟩) (by simp only [Kind.pos, hidx]; omega)
    simp only [Kind.pos, hidx, symVecR, if_pos h1] at this
    exact_mod_cast this
  · -- diagonal parameter `k - 1 = p - N0`, coefficient position `2 N0 + (k - 1)`
    have hk : p - dim * (dim - 1) / 2 + 1 < dim := by omega
    have := main (Kind.diag ⟨p - dim * (dim - 1) / 2 + 1, hk⟩) (by simp [Kind.WF]) (Or.inr ⟨_, rfl⟩)
      (by simp only [Kind.pos, hlen]; omega)
    simp only [Kind.pos, hlen, Nat.add_sub_cancel, symVecR] at this
    rw [if_neg (by omega), if_neg (by omega), if_pos (by omega), if_neg (by omega), if_neg (by omega), if_pos (by omega)] at this
    have e : dim * (dim - 1) / 2 + dim * (dim - 1) / 2 + (p - dim * (dim - 1) / 2) - dim * (dim - 1) / 2 = p := by omega
    rw [e] at this
    exact_mod_cast this
end Numqi.Manifold
