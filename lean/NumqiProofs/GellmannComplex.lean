/-
The exact Gell-Mann scalars over ℂ (real square roots) satisfy `Scalars.Valid` for every `d ≥ 1`:
non-vacuity of the C16 theorems, and the instance used by the C01/C02 theorems about the placements.
-/
import NumqiProofs.GellmannIso
import Mathlib.Analysis.SpecialFunctions.Pow.Real
import Mathlib.Data.Complex.Basic

namespace Numqi.Gellmann

/-- the exact scalars over ℂ -/
noncomputable def complexScalars (d : Nat) : Scalars ℂ where
  half := 1 / 2
  I := Complex.I
  cD := fun k => ((Real.sqrt (2 / ((k : ℝ) * ((k : ℝ) + 1))) : ℝ) : ℂ)
  cI := ((Real.sqrt (2 / (d : ℝ)) : ℝ) : ℂ)
  aD := fun k => 1 / 2 * ((Real.sqrt (2 / ((k : ℝ) * ((k : ℝ) + 1))) : ℝ) : ℂ)
  aI := 1 / 2 * ((Real.sqrt (2 / (d : ℝ)) : ℝ) : ℂ)
  invD := 1 / (d : ℂ)

theorem complexScalars_valid {d : Nat} (hd : 1 ≤ d) : (complexScalars d).Valid d := by
  have hd0 : (d : ℝ) ≠ 0 := by positivity
  refine ⟨by norm_num [complexScalars], by simp [complexScalars], by simp [complexScalars], by simp [complexScalars], ?_, ?_, ?_, ?_,
    fun k => rfl, rfl, ?_⟩
  · intro k hk _
    have hk0 : (0 : ℝ) < (k : ℝ) * ((k : ℝ) + 1) := by positivity
    simp only [complexScalars]
    rw [← Complex.ofReal_mul, Real.mul_self_sqrt (by positivity)]
    have hk1 : (k : ℂ) ≠ 0 := by exact_mod_cast (by omega : k ≠ 0)
    have hk2 : (k : ℂ) + 1 ≠ 0 := by exact_mod_cast (by omega : k + 1 ≠ 0)
    push_cast
    field_simp
  · intro k; simp [complexScalars]
  · simp only [complexScalars]
    rw [← Complex.ofReal_mul, Real.mul_self_sqrt (by positivity)]
    have hdc : (d : ℂ) ≠ 0 := by exact_mod_cast (by omega : d ≠ 0)
    push_cast
    field_simp
  · simp [complexScalars]
  · simp only [complexScalars]
    have : (d : ℂ) ≠ 0 := by exact_mod_cast (by omega : d ≠ 0)
    field_simp

end Numqi.Gellmann
