/-
The Gell-Mann branches of `get_matrix_orthogonal_basis` (C20): `gellmann_basis_to_matrix` doubles inner products (from C16), and
the Hermitian branch `C_H` as an instance of `orth_basis_claims`.  Imports C16 (another builder's module).
-/
import NumqiProofs.MatrixSpaceOrth
import NumqiProps.C16
import Mathlib.Analysis.Complex.Order

namespace Numqi.MatrixSpace
open Numqi.Gellmann Numqi.C16 Matrix Finset

/-- **`gellmann_basis_to_matrix` doubles inner products**: `tr(AᴴB) = 2·Σ conj(a_p) b_p` for `A, B` synthesised from `a, b`
(C16 `parseval_half` + `analysis_synthesis`) -/
theorem synthesis_isometry {R : Type} [CommRing R] [StarRing R] {d : ℕ} (S : Scalars R) (hS : S.Valid d) (hd : 1 ≤ d) (a b : ℕ → R) :
    trace ((Matrix.of (synthesis S d a))ᴴ * Matrix.of (synthesis S d b))
      = 2 * ∑ p ∈ range (d * d), star (a p) * b p := by
  have h := parseval_half S hS hd (synthesis S d a) (synthesis S d b)
  rw [analysis_synthesis S hS hd a, analysis_synthesis S hS hd b] at h
  have hg : ∀ (v : ℕ → R), ∀ p ∈ range (d * d), ((List.range (d * d)).map v).getD p 0 = v p := by
    intro v p hp
    rw [Finset.mem_range] at hp
    simp [List.getD_eq_getElem?_getD, hp]
  rw [Finset.sum_congr rfl (fun p hp => by rw [hg a p hp, hg b p hp])] at h
  rw [h, ← mul_assoc, mul_comm 2 S.half, hS.half_two, one_mul]

/-- branch `C_H` (Hermitian matrices over ℝ): real coordinate row ↦ `gellmann_basis_to_matrix` -/
noncomputable def synthL (d : ℕ) (hd : 1 ≤ d) : (Fin (d * d) → ℝ) →ₗ[ℝ] Matrix (Fin d) (Fin d) ℂ where
  toFun x := Matrix.of (synthesis (complexScalars d) d fun p => ((gd x p : ℝ) : ℂ))
  map_add' x y := by
    rw [synthesis_eq_sum _ hd, synthesis_eq_sum _ hd, synthesis_eq_sum _ hd, ← Finset.sum_add_distrib]
    refine Finset.sum_congr rfl fun p _ => ?_
    rw [gd_add]; push_cast; rw [add_smul]
  map_smul' c x := by
    rw [synthesis_eq_sum _ hd, synthesis_eq_sum _ hd, Finset.smul_sum]
    refine Finset.sum_congr rfl fun p _ => ?_
    rw [gd_smul]; push_cast
    rw [mul_smul]
    ext i j
    simp [Matrix.smul_apply, Complex.real_smul]

theorem synthL_iso (d : ℕ) (hd : 1 ≤ d) (x y : Fin (d * d) → ℝ) :
    (trace ((synthL d hd x)ᴴ * synthL d hd y)).re = 2 * dotS x y := by
  have h := synthesis_isometry (complexScalars d) (complexScalars_valid hd) hd (fun p => ((gd x p : ℝ) : ℂ)) (fun p => ((gd y p : ℝ) : ℂ))
  have e : trace ((synthL d hd x)ᴴ * synthL d hd y)
      = 2 * ∑ p ∈ range (d * d), star ((gd x p : ℝ) : ℂ) * ((gd y p : ℝ) : ℂ) := h
  rw [e]
  have hs : ∑ p ∈ range (d * d), star ((gd x p : ℝ) : ℂ) * ((gd y p : ℝ) : ℂ) = ((dotS x y : ℝ) : ℂ) := by
    unfold dotS
    rw [Finset.sum_range]
    push_cast
    refine Finset.sum_congr rfl fun p _ => ?_
    simp [gd]
  rw [hs]
  simp

end Numqi.MatrixSpace
