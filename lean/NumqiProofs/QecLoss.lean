/-
C19: the model of `knill_laflamme_loss(kind='L2')` vanishes exactly when the Knill–Laflamme conditions hold
for the entries it looks at (strict upper triangle zero, diagonal constant).
-/
import Mathlib.Tactic
import NumqiModel.Qec

namespace Numqi.Qec

theorem sum_eq_zero_iff_of_nonneg (l : List ℚ) (h : ∀ x ∈ l, 0 ≤ x) : l.foldr (· + ·) 0 = 0 ↔ ∀ x ∈ l, x = 0 := by
  induction l with
  | nil => simp
  | cons a l ih =>
    have ha := h a (List.mem_cons_self ..)
    have hl := fun x hx => h x (List.mem_cons_of_mem _ hx)
    have hs : 0 ≤ l.foldr (· + ·) 0 := by
      clear ih
      induction l with
      | nil => simp
      | cons b l ih' =>
        simp only [List.foldr_cons]
        exact add_nonneg (hl b (List.mem_cons_self ..)) (ih' (fun x hx => h x (by simp [List.mem_cons] at hx ⊢; tauto))
          (fun x hx => hl x (List.mem_cons_of_mem _ hx)))
    simp only [List.foldr_cons, List.mem_cons, forall_eq_or_imp]
    constructor
    · intro e
      have : a = 0 := by linarith
      exact ⟨this, (ih hl).1 (by linarith)⟩
    · rintro ⟨rfl, h0⟩
      rw [(ih hl).2 h0]; simp

theorem QI.normSq_nonneg (a : QI) : 0 ≤ QI.normSq a := by
  unfold QI.normSq; nlinarith [mul_self_nonneg a.re, mul_self_nonneg a.im]

theorem QI.normSq_eq_zero (a : QI) : QI.normSq a = 0 ↔ a = 0 := by
  unfold QI.normSq
  constructor
  · intro h
    have h1 : a.re = 0 := by nlinarith [mul_self_nonneg a.re, mul_self_nonneg a.im]
    have h2 : a.im = 0 := by nlinarith [mul_self_nonneg a.re, mul_self_nonneg a.im]
    cases a; simp_all; rfl
  · intro h; rw [h]; show (0 : ℚ) * 0 + 0 * 0 = 0; norm_num

theorem QI.sub_eq_zero (a b : QI) : a - b = 0 ↔ a = b := by
  constructor
  · intro h
    have h1 : a.re - b.re = 0 := congrArg QI.re h
    have h2 : a.im - b.im = 0 := congrArg QI.im h
    cases a; cases b; simp only [QI.mk.injEq] at *; constructor <;> linarith
  · intro h; rw [h]
    show (⟨b.re - b.re, b.im - b.im⟩ : QI) = ⟨0, 0⟩
    simp

/-- **`knill_laflamme_loss(M, 'L2') = 0` iff** for every error `e`: the strict upper triangle of `M_e` vanishes
and the diagonal is constant (equal to its mean) — the Knill–Laflamme conditions on the entries the loss uses
(for Hermitian errors the lower triangle is the conjugate of the upper one). -/
theorem klLossL2_eq_zero_iff (E K : Nat) (M : Nat → Nat → Nat → QI) :
    klLossL2 E K M = 0 ↔
      ∀ e < E, (∀ a < K, ∀ b < K, a < b → M e a b = 0) ∧ (∀ a < K, M e a a = klMean K M e) := by
  have h1 : ∀ x ∈ klOffTerms E K M, 0 ≤ x := by
    intro x hx
    simp only [klOffTerms, List.mem_flatMap, List.mem_map] at hx
    obtain ⟨e, _, a, _, b, _, rfl⟩ := hx
    exact QI.normSq_nonneg _
  have h2 : ∀ x ∈ klDiagTerms E K M, 0 ≤ x := by
    intro x hx
    simp only [klDiagTerms, List.mem_flatMap, List.mem_map] at hx
    obtain ⟨e, _, a, _, rfl⟩ := hx
    exact QI.normSq_nonneg _
  have hs : ∀ l : List ℚ, (∀ x ∈ l, 0 ≤ x) → 0 ≤ l.foldr (· + ·) 0 := by
    intro l hl; induction l with
    | nil => simp
    | cons b l ih => simp only [List.foldr_cons]
                     exact add_nonneg (hl b (List.mem_cons_self ..)) (ih (fun x hx => hl x (List.mem_cons_of_mem _ hx)))
  have n1 : 0 ≤ (klOffTerms E K M).foldr (· + ·) 0 := hs _ h1
  have n2 : 0 ≤ (klDiagTerms E K M).foldr (· + ·) 0 := hs _ h2
  unfold klLossL2
  constructor
  · intro h
    have z1 : (klOffTerms E K M).foldr (· + ·) 0 = 0 := by linarith
    have z2 : (klDiagTerms E K M).foldr (· + ·) 0 = 0 := by linarith
    rw [sum_eq_zero_iff_of_nonneg _ h1] at z1
    rw [sum_eq_zero_iff_of_nonneg _ h2] at z2
    intro e he
    constructor
    · intro a ha b hb hab
      have : QI.normSq (M e a b) ∈ klOffTerms E K M := by
        simp only [klOffTerms, List.mem_flatMap, List.mem_map, List.mem_range, List.mem_filter, decide_eq_true_eq]
        exact ⟨e, he, a, ha, b, ⟨hb, hab⟩, rfl⟩
      exact (QI.normSq_eq_zero _).1 (z1 _ this)
    · intro a ha
      have : QI.normSq (M e a a - klMean K M e) ∈ klDiagTerms E K M := by
        simp only [klDiagTerms, List.mem_flatMap, List.mem_map, List.mem_range]
        exact ⟨e, he, a, ha, rfl⟩
      exact (QI.sub_eq_zero _ _).1 ((QI.normSq_eq_zero _).1 (z2 _ this))
  · intro h
    have z1 : (klOffTerms E K M).foldr (· + ·) 0 = 0 := by
      rw [sum_eq_zero_iff_of_nonneg _ h1]
      intro x hx
      simp only [klOffTerms, List.mem_flatMap, List.mem_map, List.mem_range, List.mem_filter, decide_eq_true_eq] at hx
      obtain ⟨e, he, a, ha, b, ⟨hb, hab⟩, rfl⟩ := hx
      rw [(h e he).1 a ha b hb hab]; exact (QI.normSq_eq_zero 0).2 rfl
    have z2 : (klDiagTerms E K M).foldr (· + ·) 0 = 0 := by
      rw [sum_eq_zero_iff_of_nonneg _ h2]
      intro x hx
      simp only [klDiagTerms, List.mem_flatMap, List.mem_map, List.mem_range] at hx
      obtain ⟨e, he, a, ha, rfl⟩ := hx
      rw [(QI.normSq_eq_zero _).2 ((QI.sub_eq_zero _ _).2 ((h e he).2 a ha))]
    rw [z1, z2]; simp

end Numqi.Qec
