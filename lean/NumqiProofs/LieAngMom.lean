/-
Helper lemmas for C15, Part C: the angular-momentum matrices of `get_angular_momentum_op` for every `j2`,
via the ladder matrices `J₊ = Jx + i Jy`, `J₋ = Jx - i Jy`.
-/
import NumqiProofs.Lie
import Mathlib.Algebra.BigOperators.Fin
import Mathlib.Algebra.BigOperators.Ring.Finset

set_option linter.unusedSectionVars false

namespace Numqi.Lie
open Matrix Finset

variable {K : Type} [CommRing K]

/-- the matrices of the model, as Mathlib matrices of size `j2+1` -/
def JxM (half : K) (sq : ℕ → K) (j2 : ℕ) : Matrix (Fin (j2 + 1)) (Fin (j2 + 1)) K :=
  fun i k => jxEntry half sq j2 i.val k.val
def JyM (I half : K) (sq : ℕ → K) (j2 : ℕ) : Matrix (Fin (j2 + 1)) (Fin (j2 + 1)) K :=
  fun i k => jyEntry I half sq j2 i.val k.val
def JzM (half : K) (j2 : ℕ) : Matrix (Fin (j2 + 1)) (Fin (j2 + 1)) K :=
  fun i k => jzEntry half (fun n : ℕ => (n : K)) j2 i.val k.val

/-- raising / lowering matrices: `√((i+1)(j2-i))` on the super- / sub-diagonal -/
def JpM (sq : ℕ → K) (j2 : ℕ) : Matrix (Fin (j2 + 1)) (Fin (j2 + 1)) K :=
  fun i k => if k.val = i.val + 1 then sq ((i.val + 1) * (j2 - i.val)) else 0
def JmM (sq : ℕ → K) (j2 : ℕ) : Matrix (Fin (j2 + 1)) (Fin (j2 + 1)) K :=
  fun i k => if i.val = k.val + 1 then sq ((k.val + 1) * (j2 - k.val)) else 0

theorem JxM_eq (half : K) (sq : ℕ → K) (j2 : ℕ) : JxM half sq j2 = half • (JpM sq j2 + JmM sq j2) := by
  ext i k
  simp only [JxM, jxEntry, ladder, JpM, JmM, Matrix.smul_apply, Matrix.add_apply, smul_eq_mul]
  split_ifs with h1 h2 <;> first | (exfalso; omega) | ring

theorem JyM_eq (I half : K) (sq : ℕ → K) (j2 : ℕ) :
    JyM I half sq j2 = (-(I * half)) • JpM sq j2 + (I * half) • JmM sq j2 := by
  ext i k
  simp only [JyM, jyEntry, ladder, JpM, JmM, Matrix.smul_apply, Matrix.add_apply, smul_eq_mul]
  split_ifs with h1 h2 <;> first | (exfalso; omega) | ring

/-- `z i = (j2 - i) - j2/2` -/
def zval (half : K) (j2 i : ℕ) : K := ((j2 - i : ℕ) : K) - half * (j2 : K)

theorem JzM_apply (half : K) (j2 : ℕ) (i k : Fin (j2 + 1)) :
    JzM half j2 i k = if i = k then zval half j2 i.val else 0 := by
  simp only [JzM, jzEntry, zval, Fin.ext_iff]

theorem JzM_mul (half : K) (j2 : ℕ) (A : Matrix (Fin (j2 + 1)) (Fin (j2 + 1)) K) (i k : Fin (j2 + 1)) :
    (JzM half j2 * A) i k = zval half j2 i.val * A i k := by
  rw [Matrix.mul_apply, Finset.sum_eq_single i]
  · rw [JzM_apply, if_pos rfl]
  · intro m _ hm; rw [JzM_apply, if_neg (Ne.symm hm), zero_mul]
  · intro h; exact absurd (mem_univ _) h

theorem mul_JzM (half : K) (j2 : ℕ) (A : Matrix (Fin (j2 + 1)) (Fin (j2 + 1)) K) (i k : Fin (j2 + 1)) :
    (A * JzM half j2) i k = A i k * zval half j2 k.val := by
  rw [Matrix.mul_apply, Finset.sum_eq_single k]
  · rw [JzM_apply, if_pos rfl]
  · intro m _ hm; rw [JzM_apply, if_neg hm, mul_zero]
  · intro h; exact absurd (mem_univ _) h

variable (sq : ℕ → K) (hsq : ∀ n, sq n * sq n = (n : K))
include hsq

/-- `J₊ J₋ = diag((i+1)(j2-i))` -/
theorem JpM_mul_JmM (j2 : ℕ) (i k : Fin (j2 + 1)) :
    (JpM sq j2 * JmM sq j2) i k = if i = k then (((i.val + 1) * (j2 - i.val) : ℕ) : K) else 0 := by
  rw [Matrix.mul_apply]
  by_cases hi : i.val + 1 < j2 + 1
  · rw [Finset.sum_eq_single (⟨i.val + 1, hi⟩ : Fin (j2 + 1))]
    · simp only [JpM, JmM, if_true]
      by_cases hik : i = k
      · subst hik; simp [hsq]
      · have hv : ¬ (i.val = k.val) := fun e => hik (Fin.ext e)
        simp [hv, hik]
    · intro m _ hm
      have : ¬ (m.val = i.val + 1) := fun e => hm (Fin.ext e)
      simp [JpM, this]
    · intro h; exact absurd (mem_univ _) h
  · have hij : i.val = j2 := by have := i.isLt; omega
    rw [Finset.sum_eq_zero]
    · split_ifs <;> simp [hij]
    · intro m _
      have : ¬ (m.val = i.val + 1) := by have := m.isLt; omega
      simp [JpM, this]

/-- `J₋ J₊ = diag(i (j2+1-i))` -/
theorem JmM_mul_JpM (j2 : ℕ) (i k : Fin (j2 + 1)) :
    (JmM sq j2 * JpM sq j2) i k = if i = k then ((i.val * (j2 + 1 - i.val) : ℕ) : K) else 0 := by
  rw [Matrix.mul_apply]
  by_cases hi : 0 < i.val
  · have hlt : i.val - 1 < j2 + 1 := by have := i.isLt; omega
    rw [Finset.sum_eq_single (⟨i.val - 1, hlt⟩ : Fin (j2 + 1))]
    · have e1 : i.val = i.val - 1 + 1 := by omega
      simp only [JpM, JmM]
      rw [if_pos e1]
      by_cases hik : i = k
      · subst hik
        rw [if_pos e1, if_pos rfl, hsq]
        have := i.isLt
        have a1 : i.val - 1 + 1 = i.val := by omega
        have a2 : j2 - (i.val - 1) = j2 + 1 - i.val := by omega
        rw [a1, a2]
      · have : ¬ (k.val = i.val - 1 + 1) := fun e => hik (Fin.ext (by omega))
        simp [this, hik]
    · intro m _ hm
      have : ¬ (i.val = m.val + 1) := fun e => hm (Fin.ext (by simp; omega))
      simp [JmM, this]
    · intro h; exact absurd (mem_univ _) h
  · have hi0 : i.val = 0 := by omega
    rw [Finset.sum_eq_zero]
    · split_ifs <;> simp [hi0]
    · intro m _
      have : ¬ (i.val = m.val + 1) := by omega
      simp [JmM, this]

omit hsq in
/-- `[Jz, J₊] = J₊` -/
theorem Jz_comm_Jp (half : K) (j2 : ℕ) :
    JzM half j2 * JpM sq j2 - JpM sq j2 * JzM half j2 = JpM sq j2 := by
  ext i k
  rw [Matrix.sub_apply, JzM_mul, mul_JzM]
  simp only [JpM]
  split_ifs with h
  · have hk := k.isLt
    have e : ((j2 - i.val : ℕ) : K) = ((j2 - k.val : ℕ) : K) + 1 := by
      rw [h]; have : j2 - i.val = (j2 - (i.val + 1)) + 1 := by omega
      rw [this]; push_cast; ring
    simp only [zval, e]; ring
  · ring

omit hsq in
/-- `[Jz, J₋] = -J₋` -/
theorem Jz_comm_Jm (half : K) (j2 : ℕ) :
    JzM half j2 * JmM sq j2 - JmM sq j2 * JzM half j2 = -JmM sq j2 := by
  ext i k
  rw [Matrix.sub_apply, JzM_mul, mul_JzM, Matrix.neg_apply]
  simp only [JmM]
  split_ifs with h
  · have hi := i.isLt
    have e : ((j2 - k.val : ℕ) : K) = ((j2 - i.val : ℕ) : K) + 1 := by
      rw [h]; have : j2 - k.val = (j2 - (k.val + 1)) + 1 := by omega
      rw [this]; push_cast; ring
    simp only [zval, e]; ring
  · ring

/-- `[J₊, J₋] = 2 Jz` -/
theorem Jp_comm_Jm {half : K} (h2 : 2 * half = 1) (j2 : ℕ) :
    JpM sq j2 * JmM sq j2 - JmM sq j2 * JpM sq j2 = (2 : K) • JzM half j2 := by
  ext i k
  rw [Matrix.sub_apply, JpM_mul_JmM sq hsq, JmM_mul_JpM sq hsq, Matrix.smul_apply, JzM_apply, smul_eq_mul]
  split_ifs with h
  · have hi := i.isLt
    simp only [zval]
    have e1 : ((j2 + 1 - i.val : ℕ) : K) = ((j2 - i.val : ℕ) : K) + 1 := by
      have : j2 + 1 - i.val = (j2 - i.val) + 1 := by omega
      rw [this]; push_cast; ring
    have e2 : ((j2 - i.val : ℕ) : K) = (j2 : K) - (i.val : K) := by
      rw [Nat.cast_sub (by omega)]
    push_cast
    rw [e1, e2]
    linear_combination (j2 : K) * h2
  · ring

end Numqi.Lie
