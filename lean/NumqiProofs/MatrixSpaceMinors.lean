/-
Polarised minors: the mathematics behind `has_rank_hierarchical_method` at level `k = 1` (C20).

`polMinor A I J = Σ_{σ,τ ∈ S_q} sgn σ · sgn τ · ∏_m A_m[I(σ m), J(τ m)]` is the full (not coset-reduced) form of
`q! · tensor2d_project_to_antisym_basis([A_0..A_{q-1}])[I, J]`.
-/
import NumqiProofs.MatrixSpaceLemmas
import Mathlib.LinearAlgebra.Matrix.Determinant.Basic
import Mathlib.LinearAlgebra.Matrix.Rank
import Mathlib.LinearAlgebra.Matrix.NonsingularInverse
import Mathlib.Data.Fin.Tuple.Sort

namespace Numqi.MatrixSpace
open Equiv Finset

section
variable {R : Type} [CommRing R] {q : ℕ}

/-- sign of a permutation as a ring element -/
def sgn (σ : Perm (Fin q)) : R := ((Perm.sign σ : ℤ) : R)

theorem sgn_mul_self (σ : Perm (Fin q)) : (sgn σ : R) * sgn σ = 1 := by
  unfold sgn
  rw [← Int.cast_mul, Int.units_coe_mul_self, Int.cast_one]

theorem sgn_mul (σ π : Perm (Fin q)) : (sgn (σ * π) : R) = sgn σ * sgn π := by
  unfold sgn; simp [Perm.sign_mul]

theorem sgn_inv (σ : Perm (Fin q)) : (sgn σ⁻¹ : R) = sgn σ := by
  unfold sgn; simp [Perm.sign_inv]

/-- the polarised `q × q` minor of the matrices `A 0, …, A (q-1)` on rows `I`, columns `J` -/
def polMinor (A : Fin q → Nat → Nat → R) (I J : Fin q → Nat) : R :=
  ∑ σ : Perm (Fin q), ∑ τ : Perm (Fin q), sgn σ * sgn τ * ∏ m, A m (I (σ m)) (J (τ m))

/-- the `q × q` sub-matrix on rows `I`, columns `J` -/
def subMat (M : Nat → Nat → R) (I J : Fin q → Nat) : Matrix (Fin q) (Fin q) R :=
  Matrix.of fun r c => M (I r) (J c)

/-- **on the diagonal the polarised minor is `q!` times the minor** -/
theorem polMinor_diag (M : Nat → Nat → R) (I J : Fin q → Nat) :
    polMinor (fun _ => M) I J = (q.factorial : R) * (subMat M I J).det := by
  unfold polMinor
  have inner : ∀ σ : Perm (Fin q),
      ∑ τ : Perm (Fin q), sgn σ * sgn τ * ∏ m, M (I (σ m)) (J (τ m)) = (subMat M I J).det := by
    intro σ
    have h1 : ∑ τ : Perm (Fin q), (sgn τ : R) * ∏ m, M (I (σ m)) (J (τ m))
        = ((subMat M I J).submatrix σ id).det := by
      rw [← Matrix.det_transpose, Matrix.det_apply']
      refine Finset.sum_congr rfl fun τ _ => ?_
      simp [sgn, subMat, Matrix.transpose_apply]
    calc ∑ τ : Perm (Fin q), sgn σ * sgn τ * ∏ m, M (I (σ m)) (J (τ m))
        = sgn σ * ∑ τ : Perm (Fin q), (sgn τ : R) * ∏ m, M (I (σ m)) (J (τ m)) := by
          rw [Finset.mul_sum]; exact Finset.sum_congr rfl fun τ _ => by ring
      _ = sgn σ * (sgn σ * (subMat M I J).det) := by rw [h1, Matrix.det_permute]; rfl
      _ = (subMat M I J).det := by rw [← mul_assoc, sgn_mul_self, one_mul]
  simp only [inner]
  rw [Finset.sum_const, Finset.card_univ, Fintype.card_perm, Fintype.card_fin, nsmul_eq_mul]

/-- **multilinear expansion**: with every slot equal to `Σ_i c_i S_i`, the polarised minor is the sum over all index maps
`t` of `∏_m c_{t m}` times the polarised minor of `(S_{t 0}, …, S_{t (q-1)})`. -/
theorem polMinor_expand {N : ℕ} (c : Fin N → R) (S : Fin N → Nat → Nat → R) (I J : Fin q → Nat) :
    polMinor (fun _ => fun r s => ∑ i, c i * S i r s) I J
      = ∑ t : Fin q → Fin N, (∏ m, c (t m)) * polMinor (fun m => S (t m)) I J := by
  unfold polMinor
  have hprod : ∀ σ τ : Perm (Fin q), ∏ m, (∑ i, c i * S i (I (σ m)) (J (τ m)))
      = ∑ t : Fin q → Fin N, (∏ m, c (t m)) * ∏ m, S (t m) (I (σ m)) (J (τ m)) := by
    intro σ τ
    rw [Finset.prod_univ_sum, Fintype.piFinset_univ]
    exact Finset.sum_congr rfl fun t _ => Finset.prod_mul_distrib
  simp only [hprod, Finset.mul_sum]
  rw [Finset.sum_congr rfl (fun σ _ => Finset.sum_comm), Finset.sum_comm]
  refine Finset.sum_congr rfl fun t _ => Finset.sum_congr rfl fun σ _ => Finset.sum_congr rfl fun τ _ => by ring

/-- **symmetry**: the polarised minor does not depend on the order of its matrix arguments -/
theorem polMinor_perm (A : Fin q → Nat → Nat → R) (I J : Fin q → Nat) (π : Perm (Fin q)) :
    polMinor (fun m => A (π m)) I J = polMinor A I J := by
  unfold polMinor
  have hterm : ∀ σ τ : Perm (Fin q), ∏ m, A (π m) (I (σ m)) (J (τ m))
      = ∏ m, A m (I ((σ * π⁻¹) m)) (J ((τ * π⁻¹) m)) := by
    intro σ τ
    rw [← Equiv.prod_comp π (fun m => A m (I ((σ * π⁻¹) m)) (J ((τ * π⁻¹) m)))]
    simp
  simp only [hterm]
  have hs : ∀ σ τ : Perm (Fin q), (sgn σ : R) * sgn τ = sgn (σ * π⁻¹) * sgn (τ * π⁻¹) := by
    intro σ τ
    rw [sgn_mul, sgn_mul, sgn_inv]
    have := sgn_mul_self (R := R) π
    linear_combination (-(sgn σ * sgn τ : R)) * this
  rw [Finset.sum_congr rfl (fun σ _ => Finset.sum_congr rfl (fun τ _ => by rw [hs σ τ]))]
  exact Fintype.sum_equiv (Equiv.mulRight π⁻¹) _
    (fun σ => ∑ τ : Perm (Fin q), sgn σ * sgn τ * ∏ m, A m (I (σ m)) (J (τ m)))
    (fun σ => Fintype.sum_equiv (Equiv.mulRight π⁻¹) _
      (fun τ => sgn (σ * π⁻¹) * sgn τ * ∏ m, A m (I ((σ * π⁻¹) m)) (J (τ m))) (fun τ => rfl))

/-- **linear dependence of the antisymmetrised family**: if every `q × q` minor of `M = Σ_i c_i S_i` on the rows `I` and
columns `J` vanishes, then the polarised minors of the generators satisfy the linear relation with coefficients the monomials
`∏_m c_{t m}`. -/
theorem polMinor_dependence {N : ℕ} (c : Fin N → R) (S : Fin N → Nat → Nat → R) (I J : Fin q → Nat)
    (hminor : (subMat (fun r s => ∑ i, c i * S i r s) I J).det = 0) :
    ∑ t : Fin q → Fin N, (∏ m, c (t m)) * polMinor (fun m => S (t m)) I J = 0 := by
  rw [← polMinor_expand, polMinor_diag, hminor, mul_zero]

end

/-- **rank `≤ r` ⇒ all `(r+1)`-minors vanish** (over a field): a matrix that factors through `r < q` columns has zero
`q × q` minors. -/
theorem det_eq_zero_of_factor {K : Type} [Field K] {q r : ℕ} (h : r < q)
    (X : Matrix (Fin q) (Fin r) K) (Y : Matrix (Fin r) (Fin q) K) : (X * Y).det = 0 := by
  by_contra hne
  have hu : IsUnit (X * Y) := (Matrix.isUnit_iff_isUnit_det _).2 (isUnit_iff_ne_zero.2 hne)
  have h1 : (X * Y).rank = q := by simpa using Matrix.rank_of_isUnit (X * Y) hu
  have h2 : (X * Y).rank ≤ r := (Matrix.rank_mul_le_left X Y).trans (by simpa using Matrix.rank_le_card_width X)
  omega


/-! ### the table of `permutation_with_antisymmetric_factor` only depends on the pattern of its argument -/

section relabel
variable (f : ℕ → ℕ) (hf : StrictMono f)
include hf

theorem insertBy_map (x : ℕ) (ys : List ℕ) :
    insertBy (fun a b => decide (a ≤ b)) (f x) (ys.map f) = (insertBy (fun a b => decide (a ≤ b)) x ys).map f := by
  induction ys with
  | nil => rfl
  | cons y ys ih =>
    simp only [List.map_cons, insertBy, hf.le_iff_le]
    split
    · rfl
    · rw [ih]; rfl

theorem sortBy_map (l : List ℕ) :
    sortBy (fun a b => decide (a ≤ b)) (l.map f) = (sortBy (fun a b => decide (a ≤ b)) l).map f := by
  induction l with
  | nil => rfl
  | cons x xs ih => simp only [List.map_cons, sortBy, ih, insertBy_map f hf]

theorem dedupe_map (s : List ℕ) :
    (s.map f).foldr (fun x acc => if acc.head? = some x then acc else x :: acc) []
      = (s.foldr (fun x acc => if acc.head? = some x then acc else x :: acc) []).map f := by
  induction s with
  | nil => rfl
  | cons x xs ih =>
    simp only [List.map_cons, List.foldr_cons, ih]
    generalize xs.foldr (fun x acc => if acc.head? = some x then acc else x :: acc) [] = acc
    cases acc with
    | nil => simp
    | cons a as =>
      simp only [List.map_cons, List.head?_cons, Option.some.injEq, hf.injective.eq_iff]
      split <;> rfl

theorem distinctSorted_map (l : List ℕ) : distinctSorted (l.map f) = (distinctSorted l).map f := by
  unfold distinctSorted
  rw [sortBy_map f hf, dedupe_map f hf]

theorem positionsOf_map (l : List ℕ) (v : ℕ) : positionsOf (l.map f) (f v) = positionsOf l v := by
  unfold positionsOf
  rw [List.length_map]
  apply List.filter_congr
  intro i hi
  rw [List.mem_range] at hi
  simp [List.getD_eq_getElem?_getD, List.getElem?_eq_getElem, hi, hf.injective.eq_iff]

theorem antisymFactorTable_map (l : List ℕ) : antisymFactorTable (l.map f) = antisymFactorTable l := by
  have hg : (distinctSorted (l.map f)).map (positionsOf (l.map f)) = (distinctSorted l).map (positionsOf l) := by
    rw [distinctSorted_map f hf, List.map_map]
    exact List.map_congr_left fun v _ => positionsOf_map f hf l v
  unfold antisymFactorTable
  simp only [List.length_map, hg]

end relabel

/-! ### the coset-reduced sum of the implementation equals the full polarised minor -/

section bridge
variable {R : Type} [CommRing R] {q : ℕ}

theorem nsmulN_eq (n : ℕ) (x : R) : nsmulN n x = (n : R) * x := by
  induction n with
  | zero => simp [nsmulN]
  | succ k ih => simp [nsmulN, ih]; ring

theorem zsmulI_eq (z : ℤ) (x : R) : zsmulI z x = (z : R) * x := by
  cases z with
  | ofNat n => simp [zsmulI, nsmulN_eq]
  | negSucc n => simp [zsmulI, nsmulN_eq, Int.negSucc_eq]; ring

/-- a row of a table read as a map on positions -/
def toFn (q : ℕ) (l : List ℕ) : Fin q → ℕ := fun m => l.getD m.val 0

/-- the multiset of all permutations of `Fin q` with their signs, as position maps -/
def fullMS (q : ℕ) : Multiset ((Fin q → ℕ) × ℤ) :=
  (Finset.univ : Finset (Perm (Fin q))).val.map fun σ => ((fun m => ((σ m : Fin q) : ℕ)), (Perm.sign σ : ℤ))

/-- the table enumerates every permutation exactly once, with its sign -/
def FullTableOK (q : ℕ) (tab : List (List ℕ × ℤ)) : Prop :=
  (↑(tab.map fun e => (toFn q e.1, e.2)) : Multiset ((Fin q → ℕ) × ℤ)) = fullMS q

instance (q : ℕ) (tab : List (List ℕ × ℤ)) : Decidable (FullTableOK q tab) := by
  unfold FullTableOK; infer_instance

/-- permutations of the positions that leave the multi-index `α` unchanged -/
def stab (q : ℕ) (α : Fin q → ℕ) : Finset (Perm (Fin q)) := Finset.univ.filter fun π => ∀ m, α (π m) = α m

/-- the table is a transversal of the cosets `σ·Stab(α)`, each row weighted by `sign · |Stab(α)|`:
expanding every row over the stabiliser gives every permutation exactly once with its sign. -/
def CosetTableOK (q : ℕ) (α : Fin q → ℕ) (tab : List (List ℕ × ℤ)) : Prop :=
  (∀ e ∈ tab, e.2 = ((stab q α).card : ℤ) * (e.2 / ((stab q α).card : ℤ))) ∧
  (Multiset.bind (↑tab : Multiset (List ℕ × ℤ)) fun e => (stab q α).val.map fun π =>
      ((fun m => toFn q e.1 (π m)), e.2 / ((stab q α).card : ℤ) * (Perm.sign π : ℤ))) = fullMS q

instance (q : ℕ) (α : Fin q → ℕ) (tab : List (List ℕ × ℤ)) : Decidable (CosetTableOK q α tab) := by
  unfold CosetTableOK; infer_instance

theorem stab_comp (α : Fin q → ℕ) (f : ℕ → ℕ) (hf : Function.Injective f) : stab q (fun m => f (α m)) = stab q α := by
  unfold stab
  congr 1
  funext π
  simp [hf.eq_iff]

theorem sum_fullMS (G : (Fin q → ℕ) → ℤ → R) :
    ((fullMS q).map fun e => G e.1 e.2).sum = ∑ σ : Perm (Fin q), G (fun m => ((σ m : Fin q) : ℕ)) (Perm.sign σ : ℤ) := by
  unfold fullMS
  rw [Multiset.map_map]
  rfl

theorem listSum_map_eq {ι : Type} (l : List ι) (g : ι → R) : listSum (l.map g) = ((↑l : Multiset ι).map g).sum := by
  rw [listSum_eq]; simp

/-- the row-picked determinant: fixed row selection `s`, antisymmetrised over the columns -/
def rowDet (A : Fin q → ℕ → ℕ → R) (I : ℕ → ℕ) (J : Fin q → ℕ) (s : Fin q → ℕ) : R :=
  ∑ τ : Perm (Fin q), sgn τ * ∏ m, A m (I (s m)) (J (τ m))

theorem polMinor_eq_rowDet (A : Fin q → ℕ → ℕ → R) (I : ℕ → ℕ) (J : Fin q → ℕ) :
    polMinor A (fun i => I i.val) J = ∑ σ : Perm (Fin q), sgn σ * rowDet A I J (fun m => ((σ m : Fin q) : ℕ)) := by
  unfold polMinor rowDet
  refine Finset.sum_congr rfl fun σ _ => ?_
  rw [Finset.mul_sum]
  exact Finset.sum_congr rfl fun τ _ => by ring

/-- permuting the row selection by a permutation that fixes the matrix arguments only changes the sign -/
theorem rowDet_stab (A : Fin q → ℕ → ℕ → R) (I : ℕ → ℕ) (J : Fin q → ℕ) (π : Perm (Fin q))
    (hπ : ∀ m, A (π m) = A m) (s : Fin q → ℕ) :
    rowDet A I J (fun m => s (π m)) = sgn π * rowDet A I J s := by
  unfold rowDet
  have hterm : ∀ τ : Perm (Fin q), ∏ m, A m (I (s (π m))) (J (τ m))
      = ∏ m, A m (I (s m)) (J ((τ * π⁻¹) m)) := by
    intro τ
    rw [← Equiv.prod_comp π (fun m => A m (I (s m)) (J ((τ * π⁻¹) m)))]
    refine Finset.prod_congr rfl fun m _ => ?_
    simp [hπ m]
  simp only [hterm]
  rw [Finset.mul_sum]
  refine Fintype.sum_equiv (Equiv.mulRight π⁻¹) _ _ fun τ => ?_
  simp only [Equiv.coe_mulRight]
  have h1 : (sgn τ : R) = sgn π * sgn (τ * π⁻¹) := by
    rw [sgn_mul, sgn_inv]
    have := sgn_mul_self (R := R) π
    linear_combination (-(sgn τ : R)) * this
  rw [h1]; ring

theorem coset_sum (α : Fin q → ℕ) (tab : List (List ℕ × ℤ)) (h : CosetTableOK q α tab)
    (G : (Fin q → ℕ) → R) (hG : ∀ π ∈ stab q α, ∀ s, G (fun m => s (π m)) = sgn π * G s) :
    listSum (tab.map fun e => (e.2 : R) * G (toFn q e.1))
      = ∑ σ : Perm (Fin q), sgn σ * G (fun m => ((σ m : Fin q) : ℕ)) := by
  have hR := sum_fullMS (R := R) (q := q) (fun s v => (v : R) * G s)
  have hsg : ∀ σ : Perm (Fin q), (sgn σ : R) = ((Perm.sign σ : ℤ) : R) := fun σ => rfl
  simp only [hsg]
  rw [← hR, ← h.2, Multiset.map_bind, Multiset.sum_bind, listSum_map_eq]
  congr 1
  refine Multiset.map_congr rfl fun e he => ?_
  have he' : e ∈ tab := by simpa using he
  rw [Multiset.map_map]
  change _ = ∑ π ∈ stab q α, _
  have hterm : ∀ π ∈ stab q α,
      ((fun e' : (Fin q → ℕ) × ℤ => (e'.2 : R) * G e'.1) ∘ fun π : Perm (Fin q) =>
          ((fun m => toFn q e.1 (π m)), e.2 / ((stab q α).card : ℤ) * (Perm.sign π : ℤ))) π
        = ((e.2 / ((stab q α).card : ℤ) : ℤ) : R) * G (toFn q e.1) := by
    intro π hπ
    simp only [Function.comp]
    rw [hG π hπ, Int.cast_mul]
    have := sgn_mul_self (R := R) π
    unfold sgn at this ⊢
    linear_combination (((e.2 / ((stab q α).card : ℤ) : ℤ) : R) * G (toFn q e.1)) * this
  rw [Finset.sum_congr rfl hterm, Finset.sum_const, nsmul_eq_mul]
  conv_lhs => rw [h.1 e he']
  push_cast; ring

/-- **the implementation's coset-reduced double sum is the full polarised minor**, for any table pair passing the two
(decidable) table checks. -/
theorem polMinorScaled_eq_polMinor (mats : ℕ → ℕ → ℕ → R) (INDEX : List ℕ) (tabI tabJ : List (List ℕ × ℤ))
    (rows cols : List ℕ) (hlen : INDEX.length = q)
    (hJ : FullTableOK q tabJ) (hI : CosetTableOK q (fun m : Fin q => INDEX.getD m.val 0) tabI) :
    polMinorScaled mats INDEX tabI tabJ rows cols
      = polMinor (fun m : Fin q => mats (INDEX.getD m.val 0)) (fun i => rows.getD i.val 0) (fun i => cols.getD i.val 0) := by
  set A : Fin q → ℕ → ℕ → R := fun m => mats (INDEX.getD m.val 0) with hA
  set I : ℕ → ℕ := fun i => rows.getD i 0 with hI'
  set J : Fin q → ℕ := fun i => cols.getD i.val 0 with hJ'
  -- the product over `range q` as a product over `Fin q`
  have hprod : ∀ s t : List ℕ,
      listProd ((List.range INDEX.length).map fun m =>
        mats (INDEX.getD m 0) (rows.getD (s.getD m 0) 0) (cols.getD (t.getD m 0) 0))
      = ∏ m : Fin q, A m (I (toFn q s m)) (cols.getD (toFn q t m) 0) := by
    intro s t
    rw [listProd_eq, hlen, ← List.prod_toFinset _ List.nodup_range, List.toFinset_range, Finset.prod_range]
    rfl
  -- inner sum over the full table = row-picked determinant
  have hinner : ∀ sv : List ℕ × ℤ,
      listSum (tabJ.map fun tw => zsmulI (sv.2 * tw.2) (listProd ((List.range INDEX.length).map fun m =>
        mats (INDEX.getD m 0) (rows.getD (sv.1.getD m 0) 0) (cols.getD (tw.1.getD m 0) 0))))
      = (sv.2 : R) * rowDet A I J (toFn q sv.1) := by
    intro sv
    have h1 := sum_fullMS (R := R) (q := q) (fun t v => (v : R) * ∏ m : Fin q, A m (I (toFn q sv.1 m)) (cols.getD (t m) 0))
    unfold rowDet
    rw [Finset.mul_sum]
    have hsg : ∀ τ : Perm (Fin q), (sv.2 : R) * (sgn τ * ∏ m, A m (I (toFn q sv.1 m)) (J (τ m)))
        = (sv.2 : R) * (((Perm.sign τ : ℤ) : R) * ∏ m : Fin q, A m (I (toFn q sv.1 m)) (cols.getD ((τ m : Fin q) : ℕ) 0)) :=
      fun τ => rfl
    simp only [hsg]
    rw [← Finset.mul_sum, ← h1, ← hJ, listSum_map_eq]
    simp only [Multiset.map_coe, Multiset.sum_coe, List.map_map, Function.comp_def]
    rw [← List.sum_map_mul_left]
    congr 1
    refine List.map_congr_left fun tw _ => ?_
    rw [zsmulI_eq, hprod, Int.cast_mul]; ring
  unfold polMinorScaled
  simp only [hinner]
  rw [coset_sum (fun m : Fin q => INDEX.getD m.val 0) tabI hI (rowDet A I J)]
  · exact (polMinor_eq_rowDet A I J).symm
  · intro π hπ s
    refine rowDet_stab A I J π ?_ s
    intro m
    have : (fun m : Fin q => INDEX.getD m.val 0) (π m) = INDEX.getD m.val 0 := by
      have := (Finset.mem_filter.1 hπ).2 m
      exact this
    simp only [A]
    simp only at this
    rw [this]


end bridge

/-! ### every sorted multi-index is a strictly monotone relabelling of a normalised pattern -/

/-- normalised sorted patterns of length `n`: start at 0, every step `+0` or `+1` -/
def sortedPatterns : ℕ → List (List ℕ)
  | 0 => [[]]
  | 1 => [[0]]
  | n + 2 => (sortedPatterns (n + 1)).flatMap fun p => [p ++ [p.getLastD 0], p ++ [p.getLastD 0 + 1]]

theorem exists_pattern (l : List ℕ) (hs : l.Pairwise (· ≤ ·)) (hne : l ≠ []) :
    ∃ (p : List ℕ) (f : ℕ → ℕ), StrictMono f ∧ l = p.map f ∧ p ∈ sortedPatterns l.length
      ∧ (∀ y ∈ p, y ≤ p.getLastD 0) ∧ p ≠ [] := by
  induction l using List.reverseRecOn with
  | nil => exact absurd rfl hne
  | append_singleton l x ih =>
    by_cases hl : l = []
    · subst hl
      refine ⟨[0], fun y => x + y, fun a b h => by simpa using h, by simp, by simp [sortedPatterns], by simp, by simp⟩
    · have hs' : l.Pairwise (· ≤ ·) := (List.pairwise_append.1 hs).1
      obtain ⟨p, f, hf, hlp, hmem, hle, hpne⟩ := ih hs' hl
      set k := p.getLastD 0 with hk
      have hkmem : k ∈ p := by
        rw [hk, List.getLastD_eq_getLast?]
        cases hp : p.getLast? with
        | none => exact absurd (List.getLast?_eq_none_iff.1 hp) hpne
        | some a => simpa using List.mem_of_getLast? hp
      have hxk : f k ≤ x := by
        have := (List.pairwise_append.1 hs).2.2 (f k) (by rw [hlp]; exact List.mem_map_of_mem hkmem) x (by simp)
        exact this
      have hlen : (l ++ [x]).length = (p.length - 1) + 2 := by
        have : p.length ≠ 0 := by simpa using hpne
        rw [hlp]; simp; omega
      have hlen' : l.length = (p.length - 1) + 1 := by
        have : p.length ≠ 0 := by simpa using hpne
        rw [hlp]; simp; omega
      rcases Nat.eq_or_lt_of_le hxk with hx | hx
      · refine ⟨p ++ [k], f, hf, ?_, ?_, ?_, by simp⟩
        · rw [List.map_append, ← hlp, List.map_singleton, hx]
        · rw [hlen, sortedPatterns, List.mem_flatMap]
          exact ⟨p, by rw [← hlen']; exact hmem, by simp [hk]⟩
        · intro y hy
          rw [List.getLastD_concat]
          rcases List.mem_append.1 hy with h | h
          · exact hle y h
          · simp at h; omega
      · refine ⟨p ++ [k + 1], fun y => if y ≤ k then f y else x + (y - (k + 1)), ?_, ?_, ?_, ?_, by simp⟩
        · intro a b hab
          simp only
          by_cases ha : a ≤ k <;> by_cases hb : b ≤ k
          · simp [ha, hb, hf hab]
          · simp only [ha, hb, if_true, if_false]
            have : f a ≤ f k := hf.monotone ha
            omega
          · omega
          · simp only [ha, hb, if_false]; omega
        · rw [List.map_append, List.map_singleton]
          congr 1
          · rw [hlp]
            exact List.map_congr_left fun y hy => by simp [hle y hy]
          · simp
        · rw [hlen, sortedPatterns, List.mem_flatMap]
          exact ⟨p, by rw [← hlen']; exact hmem, by simp [hk]⟩
        · intro y hy
          rw [List.getLastD_concat]
          rcases List.mem_append.1 hy with h | h
          · exact (hle y h).trans (Nat.le_succ _)
          · simp at h; omega

/-- both table checks, for every normalised sorted pattern of length `q` (decidable; evaluated by the kernel for `q ≤ 4`) -/
def TablesOK (q : ℕ) : Prop :=
  FullTableOK q (antisymFactorTableInt q) ∧
    ∀ p ∈ sortedPatterns q, CosetTableOK q (fun m : Fin q => p.getD m.val 0) (antisymFactorTable p)

instance (q : ℕ) : Decidable (TablesOK q) := by unfold TablesOK; infer_instance

set_option maxRecDepth 1000000 in
theorem tablesOK_one : TablesOK 1 := by decide +kernel
set_option maxRecDepth 1000000 in
theorem tablesOK_two : TablesOK 2 := by decide +kernel
set_option maxRecDepth 1000000 in
theorem tablesOK_three : TablesOK 3 := by decide +kernel
set_option maxRecDepth 1000000 in
theorem tablesOK_four : TablesOK 4 := by decide +kernel

/-- **`tensor2d_project_to_antisym_basis` is the polarised minor map** (times `q!`), for every sorted multi-index of a length
whose tables pass the check. -/
theorem polMinorScaled_sorted {R : Type} [CommRing R] {q : ℕ} (hT : TablesOK q) (mats : ℕ → ℕ → ℕ → R)
    (INDEX rows cols : List ℕ) (hlen : INDEX.length = q) (hq : 0 < q) (hs : INDEX.Pairwise (· ≤ ·)) :
    polMinorScaled mats INDEX (antisymFactorTable INDEX) (antisymFactorTableInt q) rows cols
      = polMinor (fun m : Fin q => mats (INDEX.getD m.val 0)) (fun i => rows.getD i.val 0) (fun i => cols.getD i.val 0) := by
  have hne : INDEX ≠ [] := by intro h; rw [h] at hlen; simp at hlen; omega
  obtain ⟨p, f, hf, hip, hmem, -, -⟩ := exists_pattern INDEX hs hne
  rw [hlen] at hmem
  refine polMinorScaled_eq_polMinor mats INDEX _ _ rows cols hlen hT.1 ?_
  have hplen : p.length = q := by rw [← hlen, hip, List.length_map]
  have hα : (fun m : Fin q => INDEX.getD m.val 0) = fun m : Fin q => f (p.getD m.val 0) := by
    funext m
    have hm : m.val < p.length := by rw [hplen]; exact m.isLt
    rw [hip]
    simp [List.getD_eq_getElem?_getD, List.getElem?_eq_getElem hm]
  have hc := hT.2 p hmem
  unfold CosetTableOK at hc ⊢
  rw [hα, stab_comp _ f hf.injective, hip, antisymFactorTable_map f hf]
  exact hc


/-! ### the multi-index of a tuple of generators -/

/-- the sorted multi-index (`combinations_with_replacement` element) of a tuple `t` of generator labels -/
def sortedIndex {q N : ℕ} (t : Fin q → Fin N) : List ℕ := List.ofFn fun m => ((t (Tuple.sort t m) : Fin N) : ℕ)

theorem sortedIndex_length {q N : ℕ} (t : Fin q → Fin N) : (sortedIndex t).length = q := by simp [sortedIndex]

theorem sortedIndex_sorted {q N : ℕ} (t : Fin q → Fin N) : (sortedIndex t).Pairwise (· ≤ ·) := by
  unfold sortedIndex
  rw [List.pairwise_ofFn]
  intro i j hij
  exact Fin.le_def.1 (Tuple.monotone_sort t hij.le)

theorem sortedIndex_getD {q N : ℕ} (t : Fin q → Fin N) (m : Fin q) :
    (sortedIndex t).getD m.val 0 = ((t (Tuple.sort t m) : Fin N) : ℕ) := by
  simp [sortedIndex, List.getD_eq_getElem?_getD]

theorem sortedIndex_lt {q N : ℕ} (t : Fin q → Fin N) : ∀ i ∈ sortedIndex t, i < N := by
  intro i hi
  simp only [sortedIndex, List.mem_ofFn] at hi
  obtain ⟨m, rfl⟩ := hi
  exact Fin.isLt _

end Numqi.MatrixSpace
