/-
Ranges of entropy / fidelity / relative entropy at the eigenvalue level (C12).
-/
import Mathlib.Tactic
import Mathlib.Analysis.SpecialFunctions.Log.NegMulLog
import Mathlib.Analysis.Convex.Jensen
import Mathlib.Analysis.Real.Sqrt
import Mathlib.Algebra.BigOperators.Fin
import NumqiModel.Channel

namespace Numqi
namespace Channel
open Finset Real

/-- over ℝ the three analytic operations are the usual ones -/
noncomputable instance : Analytic ℝ := ⟨Real.log, Real.sqrt, max⟩

theorem listSum_eq (l : List ℝ) : listSum l = l.sum := by
  induction l with
  | nil => rfl
  | cons x l ih => simp [listSum, List.foldr_cons] at ih ⊢; rw [← ih]

theorem listSum_ofFn {d : ℕ} (f : Fin d → ℝ) (g : ℝ → ℝ) : listSum ((List.ofFn f).map g) = ∑ i, g (f i) := by
  rw [listSum_eq, List.map_ofFn, List.sum_ofFn]; rfl

theorem listSum_zip_ofFn {d : ℕ} (p q : Fin d → ℝ) (g : ℝ × ℝ → ℝ) :
    listSum (((List.ofFn p).zip (List.ofFn q)).map g) = ∑ i, g (p i, q i) := by
  have : (List.ofFn p).zip (List.ofFn q) = List.ofFn fun i => (p i, q i) := by
    apply List.ext_getElem <;> simp
  rw [this, listSum_eq, List.map_ofFn, List.sum_ofFn]; rfl

/-- with `eps = 0` and non-negative eigenvalues the entropy is `Σ negMulLog p_i` -/
theorem entropySpec_zero {d : ℕ} (p : Fin d → ℝ) (hp : ∀ i, 0 ≤ p i) :
    entropySpec 0 (List.ofFn p) = ∑ i, negMulLog (p i) := by
  unfold entropySpec
  rw [listSum_ofFn p (fun x => Analytic.max x 0 * Analytic.log (Analytic.max x 0)), ← sum_neg_distrib]
  refine sum_congr rfl fun i _ => ?_
  show -(max (p i) 0 * Real.log (max (p i) 0)) = _
  rw [max_eq_left (hp i), negMulLog]; ring

theorem entropy_nonneg' {d : ℕ} (p : Fin d → ℝ) (hp : ∀ i, 0 ≤ p i) (hsum : ∑ i, p i = 1) :
    0 ≤ ∑ i, negMulLog (p i) := by
  refine sum_nonneg fun i _ => negMulLog_nonneg (hp i) ?_
  rw [← hsum]; exact single_le_sum (fun j _ => hp j) (mem_univ i)

theorem entropy_le_log' {d : ℕ} (hd : 0 < d) (p : Fin d → ℝ) (hp : ∀ i, 0 ≤ p i) (hsum : ∑ i, p i = 1) :
    ∑ i, negMulLog (p i) ≤ Real.log d := by
  have hd' : (0 : ℝ) < d := by exact_mod_cast hd
  have J := concaveOn_negMulLog.le_map_sum (t := (univ : Finset (Fin d))) (w := fun _ => (1 : ℝ) / d) (p := p)
    (fun _ _ => by positivity) (by simp; field_simp) (fun i _ => hp i)
  simp only [smul_eq_mul, ← mul_sum, hsum, mul_one] at J
  have h1 : negMulLog ((1 : ℝ) / d) = (1 / d) * Real.log d := by
    rw [negMulLog, one_div, Real.log_inv]; ring
  rw [h1] at J
  have := mul_le_mul_of_nonneg_left J hd'.le
  have e1 : (d : ℝ) * (1 / d * ∑ i, negMulLog (p i)) = ∑ i, negMulLog (p i) := by field_simp
  have e2 : (d : ℝ) * (1 / d * Real.log d) = Real.log d := by field_simp
  rwa [e1, e2] at this

/-- with clipping at `0 < eps ≤ 1` (what the code does, `eps = 2.2e-16`) the value is still non-negative -/
theorem entropySpec_clipped_nonneg (eps : ℝ) (heps0 : 0 ≤ eps) (heps1 : eps ≤ 1) (evl : List ℝ) (h1 : ∀ x ∈ evl, x ≤ 1) :
    0 ≤ entropySpec eps evl := by
  unfold entropySpec
  rw [listSum_eq, neg_nonneg]
  induction evl with
  | nil => simp
  | cons x l ih =>
    rw [List.map_cons, List.sum_cons]
    have hl := ih (fun y hy => h1 y (List.mem_cons_of_mem _ hy))
    have hx : max x eps * Real.log (max x eps) ≤ 0 := by
      have h0 : 0 ≤ max x eps := le_max_of_le_right heps0
      have h1' : max x eps ≤ 1 := max_le (h1 x List.mem_cons_self) heps1
      have := negMulLog_nonneg h0 h1'
      rw [negMulLog] at this; linarith
    have hx' : Analytic.max x eps * Analytic.log (Analytic.max x eps) ≤ 0 := hx
    linarith

/-- fidelity of commuting states is the squared Bhattacharyya coefficient -/
theorem fidelitySpec_eq {d : ℕ} (p q : Fin d → ℝ) (hp : ∀ i, 0 ≤ p i) (hq : ∀ i, 0 ≤ q i) :
    fidelitySpec (List.ofFn p) (List.ofFn q) = (∑ i, √(p i) * √(q i)) ^ 2 := by
  unfold fidelitySpec
  simp only
  rw [listSum_zip_ofFn p q, sq]
  have : ∀ i, Analytic.sqrt (Analytic.max 0 (Analytic.sqrt (Analytic.max 0 (p i)) * q i * Analytic.sqrt (Analytic.max 0 (p i))))
      = √(p i) * √(q i) := by
    intro i
    show √(max 0 (√(max 0 (p i)) * q i * √(max 0 (p i)))) = _
    rw [max_eq_right (hp i)]
    have h1 : √(p i) * q i * √(p i) = p i * q i := by
      rw [mul_comm (√(p i)) (q i), mul_assoc, Real.mul_self_sqrt (hp i)]; ring
    rw [h1, max_eq_right (mul_nonneg (hp i) (hq i)), Real.sqrt_mul (hp i)]
  simp only [this]

theorem bc_le_one {d : ℕ} (p q : Fin d → ℝ) (hp : ∀ i, 0 ≤ p i) (hq : ∀ i, 0 ≤ q i)
    (hsp : ∑ i, p i = 1) (hsq : ∑ i, q i = 1) : ∑ i, √(p i) * √(q i) ≤ 1 := by
  have := Real.sum_sqrt_mul_sqrt_le (univ : Finset (Fin d)) (fun i => hp i) (fun i => hq i)
  rwa [hsp, hsq, Real.sqrt_one, one_mul] at this

/-- Gibbs' inequality term by term -/
theorem gibbs_term (x y : ℝ) (hx : 0 ≤ x) (hy : 0 < y) : x - y ≤ x * Real.log x - x * Real.log y := by
  rcases hx.eq_or_lt with rfl | hx
  · simp; exact hy.le
  · have h := Real.log_le_sub_one_of_pos (div_pos hy hx)
    rw [Real.log_div hy.ne' hx.ne'] at h
    have := mul_le_mul_of_nonneg_left h hx.le
    have e : x * (y / x - 1) = y - x := by field_simp
    rw [e] at this
    nlinarith

end Channel
end Numqi
