/-
Helper lemmas for C18: the GenShifts UPB — for every pair of product vectors some qubit carries local vectors whose angles
differ by a quarter turn.
-/
import NumqiProofs.Catalogue

set_option linter.unusedSectionVars false

namespace Numqi.Catalogue

theorem gsIndex_zero (k x : ℕ) : gsIndex k x 0 = 0 := by simp [gsIndex]

/-- value of the rolled index when the offset `(i-1) - x mod n` is known -/
theorem gsIndex_of (k x i r : ℕ) (hi : 0 < i) (hr : r < 2 * k - 1)
    (h : i - 1 + (2 * k - 1) - x = r ∨ i - 1 + (2 * k - 1) - x = r + (2 * k - 1)) : gsIndex k x i = 1 + r := by
  unfold gsIndex
  rw [if_neg (by omega)]
  rcases h with h | h
  · rw [h, Nat.mod_eq_of_lt hr]
  · rw [h, Nat.add_mod_right, Nat.mod_eq_of_lt hr]

/-- for `i < j` there is a party on which the two angles are `v` and `v + k` -/
theorem gs_pair_lt (k i j : ℕ) (hij : i < j) (hj : j < 2 * k) :
    ∃ x < 2 * k - 1, gsAngle k x i + k = gsAngle k x j ∨ gsAngle k x j + k = gsAngle k x i := by
  by_cases hi0 : i = 0
  · -- vector 0 has angle 0 everywhere; vector j has angle k on party j-1
    subst hi0
    refine ⟨j - 1, by omega, Or.inl ?_⟩
    have h1 : gsIndex k (j - 1) j = 1 + 0 := gsIndex_of k (j - 1) j 0 (by omega) (by omega) (Or.inr (by omega))
    simp only [gsAngle, gsIndex_zero, h1, gsPerm]
    have : (1 : ℕ) ≤ k := by omega
    simp [this]
  · have hk : 2 ≤ k := by omega
    by_cases hodd : (j - i) % 2 = 1
    · -- δ = 2v-1: positions k+1-v and k+v
      obtain ⟨v, hv⟩ : ∃ v, j - i + 1 = 2 * v := ⟨(j - i + 1) / 2, by omega⟩
      have hv1 : 1 ≤ v := by omega
      have hvk : v < k := by omega
      by_cases hc : k - v ≤ i - 1
      · refine ⟨i - 1 - (k - v), by omega, Or.inl ?_⟩
        have e1 : gsIndex k (i - 1 - (k - v)) i = 1 + (k - v) := gsIndex_of k _ i (k - v) (by omega) (by omega) (Or.inr (by omega))
        have e2 : gsIndex k (i - 1 - (k - v)) j = 1 + (k + v - 1) := gsIndex_of k _ j (k + v - 1) (by omega) (by omega) (Or.inr (by omega))
        simp only [gsAngle, e1, e2, gsPerm]
        have a1 : ¬ (1 + (k - v) = 0) := by omega
        have a2 : 1 + (k - v) ≤ k := by omega
        have a3 : ¬ (1 + (k + v - 1) = 0) := by omega
        have a4 : ¬ (1 + (k + v - 1) ≤ k) := by omega
        rw [if_neg a1, if_pos a2, if_neg a3, if_neg a4]; omega
      · refine ⟨i - 1 + (2 * k - 1) - (k - v), by omega, Or.inl ?_⟩
        have e1 : gsIndex k (i - 1 + (2 * k - 1) - (k - v)) i = 1 + (k - v) := gsIndex_of k _ i (k - v) (by omega) (by omega) (Or.inl (by omega))
        have e2 : gsIndex k (i - 1 + (2 * k - 1) - (k - v)) j = 1 + (k + v - 1) := gsIndex_of k _ j (k + v - 1) (by omega) (by omega) (Or.inl (by omega))
        simp only [gsAngle, e1, e2, gsPerm]
        have a1 : ¬ (1 + (k - v) = 0) := by omega
        have a2 : 1 + (k - v) ≤ k := by omega
        have a3 : ¬ (1 + (k + v - 1) = 0) := by omega
        have a4 : ¬ (1 + (k + v - 1) ≤ k) := by omega
        rw [if_neg a1, if_pos a2, if_neg a3, if_neg a4]; omega
    · -- δ even: n - δ = 2v-1, vector j sits at k+1-v and vector i at k+v
      obtain ⟨v, hv⟩ : ∃ v, 2 * k - (j - i) = 2 * v := ⟨(2 * k - (j - i)) / 2, by omega⟩
      have hv1 : 1 ≤ v := by omega
      have hvk : v < k := by omega
      by_cases hc : k - v ≤ j - 1
      · refine ⟨j - 1 - (k - v), by omega, Or.inr ?_⟩
        have e1 : gsIndex k (j - 1 - (k - v)) j = 1 + (k - v) := gsIndex_of k _ j (k - v) (by omega) (by omega) (Or.inr (by omega))
        have e2 : gsIndex k (j - 1 - (k - v)) i = 1 + (k + v - 1) := by
          by_cases hw : j - 1 - (k - v) ≤ i - 1
          · exact gsIndex_of k _ i (k + v - 1) (by omega) (by omega) (Or.inr (by omega))
          · exact gsIndex_of k _ i (k + v - 1) (by omega) (by omega) (Or.inl (by omega))
        simp only [gsAngle, e1, e2, gsPerm]
        have a1 : ¬ (1 + (k - v) = 0) := by omega
        have a2 : 1 + (k - v) ≤ k := by omega
        have a3 : ¬ (1 + (k + v - 1) = 0) := by omega
        have a4 : ¬ (1 + (k + v - 1) ≤ k) := by omega
        rw [if_neg a1, if_pos a2, if_neg a3, if_neg a4]; omega
      · refine ⟨j - 1 + (2 * k - 1) - (k - v), by omega, Or.inr ?_⟩
        have e1 : gsIndex k (j - 1 + (2 * k - 1) - (k - v)) j = 1 + (k - v) := gsIndex_of k _ j (k - v) (by omega) (by omega) (Or.inl (by omega))
        have e2 : gsIndex k (j - 1 + (2 * k - 1) - (k - v)) i = 1 + (k + v - 1) := by
          exact gsIndex_of k _ i (k + v - 1) (by omega) (by omega) (Or.inl (by omega))
        simp only [gsAngle, e1, e2, gsPerm]
        have a1 : ¬ (1 + (k - v) = 0) := by omega
        have a2 : 1 + (k - v) ≤ k := by omega
        have a3 : ¬ (1 + (k + v - 1) = 0) := by omega
        have a4 : ¬ (1 + (k + v - 1) ≤ k) := by omega
        rw [if_neg a1, if_pos a2, if_neg a3, if_neg a4]; omega

end Numqi.Catalogue
