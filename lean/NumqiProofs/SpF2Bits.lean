/-
`int_to_bitarray` / `bitarray_to_int`: the bit packing behind the identification "bit array = little-endian `Nat`" of the model.
-/
import NumqiProofs.SpF2Lemmas

namespace Numqi.SpF2

theorem testBit_bitarrayToInt (b : List Bool) (j : Nat) : (bitarrayToInt b).testBit j = b.getD j false := by
  unfold bitarrayToInt
  rw [testBit_ofFn]
  by_cases hj : j < b.length
  · simp [hj]
  · simp [hj, List.getD_eq_getElem?_getD]

theorem bitarrayToInt_lt (b : List Bool) : bitarrayToInt b < 2 ^ b.length := ofFn_lt _ _

theorem two_pow_le_bytes (n : Nat) : 2 ^ n ≤ 256 ^ ((n + 7) / 8) := by
  rw [show (256 : Nat) = 2 ^ 8 from rfl, ← Nat.pow_mul]
  exact Nat.pow_le_pow_right (by norm_num) (by omega)

/-- what comes out when the integer fits into the bytes: the first `n` bits, i.e. `i mod 2^n` -/
theorem bitarrayToInt_intToBitarray {i n : Nat} {b : List Bool} (h : intToBitarray i n = some b) :
    b.length = n ∧ (∀ j, j < n → b.getD j false = i.testBit j) ∧ bitarrayToInt b = i % 2 ^ n := by
  unfold intToBitarray at h
  split at h
  · cases h
  · cases h
    refine ⟨by simp, fun j hj => by simp [List.getD_eq_getElem?_getD, hj], ?_⟩
    apply Nat.eq_of_testBit_eq
    intro j
    rw [testBit_bitarrayToInt, Nat.testBit_mod_two_pow]
    by_cases hj : j < n
    · simp [List.getD_eq_getElem?_getD, hj]
    · simp [List.getD_eq_getElem?_getD, hj]

theorem intToBitarray_of_lt {i n : Nat} (hi : i < 2 ^ n) :
    ∃ b, intToBitarray i n = some b ∧ bitarrayToInt b = i := by
  have hlt : ¬ 256 ^ ((n + 7) / 8) ≤ i := not_le.2 (lt_of_lt_of_le hi (two_pow_le_bytes n))
  refine ⟨(List.range n).map i.testBit, by unfold intToBitarray; rw [if_neg hlt], ?_⟩
  have h : intToBitarray i n = some ((List.range n).map i.testBit) := by unfold intToBitarray; rw [if_neg hlt]
  rw [(bitarrayToInt_intToBitarray h).2.2, Nat.mod_eq_of_lt hi]

theorem intToBitarray_bitarrayToInt (b : List Bool) : intToBitarray (bitarrayToInt b) b.length = some b := by
  have hlt : ¬ 256 ^ ((b.length + 7) / 8) ≤ bitarrayToInt b :=
    not_le.2 (lt_of_lt_of_le (bitarrayToInt_lt b) (two_pow_le_bytes _))
  unfold intToBitarray
  rw [if_neg hlt]
  congr 1
  apply List.ext_getElem
  · simp
  · intro j h1 h2
    simp only [List.getElem_map, List.getElem_range, testBit_bitarrayToInt]
    rw [List.getD_eq_getElem?_getD, List.getElem?_eq_getElem h2, Option.getD_some]

theorem intToBitarray_none_iff (i n : Nat) : intToBitarray i n = none ↔ 256 ^ ((n + 7) / 8) ≤ i := by
  unfold intToBitarray; split <;> simp_all

end Numqi.SpF2
