/-
General proof of `reduceShapeIndex_spec` (C03): for every register size and every control set, indexing
`q0.reshape(shape0)` with the reduced index tuple of `_control_n_index` selects exactly the flat positions whose control
bits are all 1, in increasing order.  Route: `groupRuns` of the per-qubit `(2, 1 | None)` list = expanded run-length
encoding → reduced shape/index in run-length form → `slicePositions` = structural enumeration `ctrlPos` → filter of
`range (2^n)`.
-/
import NumqiProofs.MeasureGrouping

namespace Numqi
open Function

/-- structural bitwise enumeration: flat positions (increasing) whose bits are 1 wherever `K` is `true` -/
def ctrlPos : List Bool → List Nat
  | [] => [0]
  | b :: r => if b then (ctrlPos r).map (2 ^ r.length + ·) else ctrlPos r ++ (ctrlPos r).map (2 ^ r.length + ·)

theorem range_two_mul (m : Nat) : List.range (m + m) = List.range m ++ (List.range m).map (m + ·) := by
  rw [List.range_add]

theorem ctrlPos_replicate_true (len : Nat) (X : List Bool) :
    ctrlPos (List.replicate len true ++ X) = (ctrlPos X).map ((2 ^ len - 1) * 2 ^ X.length + ·) := by
  induction len with
  | zero => simp
  | succ len ih =>
    rw [List.replicate_succ, List.cons_append, ctrlPos, if_pos rfl, ih, List.map_map]
    apply List.map_congr_left
    intro x _
    simp only [comp, List.length_append, List.length_replicate]
    have h1 : 1 ≤ 2 ^ len := Nat.one_le_two_pow
    have : 2 ^ (len + 1) - 1 = 2 ^ len + (2 ^ len - 1) := by rw [pow_succ]; omega
    rw [this, pow_add]; ring

theorem ctrlPos_replicate_false (len : Nat) (X : List Bool) :
    ctrlPos (List.replicate len false ++ X)
      = (List.range (2 ^ len)).flatMap fun a => (ctrlPos X).map (a * 2 ^ X.length + ·) := by
  induction len with
  | zero => simp
  | succ len ih =>
    rw [List.replicate_succ, List.cons_append, ctrlPos, if_neg (by simp), ih]
    have h2 : (2 : Nat) ^ (len + 1) = 2 ^ len + 2 ^ len := by rw [pow_succ]; ring
    rw [h2, range_two_mul, List.flatMap_append]
    congr 1
    rw [List.flatMap_map, List.map_flatMap]
    apply List.flatMap_congr
    intro a _
    rw [List.map_map]
    apply List.map_congr_left
    intro x _
    simp only [comp, List.length_append, List.length_replicate, pow_add]
    ring


/-- the `(shape, index)` pair of one qubit: control ↦ `(2, some 1)`, free ↦ `(2, none)` -/
def ctrlEntry (b : Bool) : Nat × Option Nat := (2, if b then some 1 else none)

theorem runLength_pos : ∀ (K : List Bool), ∀ g ∈ runLength K, 1 ≤ g.2
  | [], g, h => by simp [runLength] at h
  | b :: l, g, h => by
    have ih := runLength_pos l
    simp only [runLength] at h
    split at h
    · rename_i b' c r hr
      rw [hr] at ih
      split at h
      · rcases List.mem_cons.1 h with rfl | h
        · simp
        · exact ih g (List.mem_cons_of_mem _ h)
      · rcases List.mem_cons.1 h with rfl | h
        · simp
        · exact ih g h
    · simp at h; rw [h]

/-- `groupRuns` of the control list is the run-length encoding, expanded -/
theorem groupRuns_ctrl : ∀ K : List Bool,
    groupRuns (K.map ctrlEntry) = (runLength K).map fun g => List.replicate g.2 (ctrlEntry g.1)
  | [] => rfl
  | b :: l => by
    have ih := groupRuns_ctrl l
    have hpos := runLength_pos l
    simp only [List.map_cons, groupRuns, runLength]
    rw [ih]
    cases hr : runLength l with
    | nil => simp
    | cons g r =>
      obtain ⟨b', c⟩ := g
      have hc : 1 ≤ c := hpos (b', c) (by rw [hr]; simp)
      obtain ⟨c', rfl⟩ : ∃ c', c = c' + 1 := ⟨c - 1, by omega⟩
      simp only [List.map_cons, List.replicate_succ]
      have hiso : ((ctrlEntry b).2.isNone == (ctrlEntry b').2.isNone) = (b == b') := by
        cases b <;> cases b' <;> rfl
      rw [hiso]
      by_cases hb : b = b'
      · subst hb; simp [List.replicate_succ]
      · have : (b == b') = false := by simpa using hb
        simp [this, List.replicate_succ]


def expandRuns (z : List (Bool × Nat)) : List Bool := z.flatMap fun g => List.replicate g.2 g.1

theorem expandRuns_length (z : List (Bool × Nat)) : (expandRuns z).length = grpBits z := by
  induction z with
  | nil => rfl
  | cons g z ih => simp [expandRuns, grpBits, List.flatMap_cons] at ih ⊢; try omega

theorem expandRuns_runLength : ∀ K : List Bool, expandRuns (runLength K) = K
  | [] => rfl
  | b :: l => by
    have ih := expandRuns_runLength l
    simp only [runLength]
    split
    · rename_i b' c r hr
      rw [hr] at ih
      split
      · rename_i hb
        have hb' : b = b' := by simpa using hb
        subst hb'
        simp only [expandRuns, List.flatMap_cons, List.replicate_succ, List.cons_append] at ih ⊢
        rw [ih]
      · simp only [expandRuns, List.flatMap_cons] at ih ⊢
        rw [ih]; simp
    · rename_i h
      cases l with
      | nil => simp [expandRuns]
      | cons a l => exact absurd h (runLength_ne_nil a l)

/-- the slice of the reduced shape / index, on a run-length list -/
def sliceRuns (z : List (Bool × Nat)) : List Nat :=
  slicePositions (z.map fun g => 2 ^ g.2) (z.map fun g => if g.1 then some (2 ^ g.2 - 1) else none)

theorem sliceRuns_eq_ctrlPos : ∀ z : List (Bool × Nat), sliceRuns z = ctrlPos (expandRuns z)
  | [] => rfl
  | (b, len) :: r => by
    have ih := sliceRuns_eq_ctrlPos r
    have hW : (r.map fun g => 2 ^ g.2).foldl (· * ·) 1 = 2 ^ grpBits r := by
      rw [foldl_mul_pow2, one_mul]; rfl
    have hexp : expandRuns ((b, len) :: r) = List.replicate len b ++ expandRuns r := by
      simp [expandRuns, List.flatMap_cons]
    rw [hexp]
    unfold sliceRuns at ih ⊢
    simp only [List.map_cons, slicePositions, hW, ih]
    cases b
    · simp only [Bool.false_eq_true, if_false]
      rw [ctrlPos_replicate_false, expandRuns_length]
    · simp only [if_true]
      rw [ctrlPos_replicate_true, expandRuns_length]


theorem foldl_replicate_two (len a : Nat) : (List.replicate len 2).foldl (· * ·) a = a * 2 ^ len := by
  induction len generalizing a with
  | zero => simp
  | succ len ih => rw [List.replicate_succ, List.foldl_cons, ih, pow_succ]; ring

theorem foldl_replicate_ones (len a : Nat) :
    (List.replicate len ((2 : Nat), some (1 : Nat))).foldl (fun acc p => acc * p.1 + p.2.getD 0) a
      = a * 2 ^ len + (2 ^ len - 1) := by
  induction len generalizing a with
  | zero => simp
  | succ len ih =>
    rw [List.replicate_succ, List.foldl_cons, ih]
    have h1 : 1 ≤ 2 ^ len := Nat.one_le_two_pow
    simp only [Option.getD_some, pow_succ]
    have : 2 ^ len * 2 - 1 = 2 ^ len + (2 ^ len - 1) := by omega
    rw [this]; ring

/-- every bit that `K` marks is set in `p` (position 0 of `K` = most significant of `K.length` bits) -/
def okB : List Bool → Nat → Bool
  | [], _ => true
  | b :: r, p => (!b || p.testBit r.length) && okB r p

theorem okB_add_pow (r : List Bool) (i p : Nat) (hi : r.length ≤ i) : okB r (2 ^ i + p) = okB r p := by
  induction r with
  | nil => rfl
  | cons b r ih =>
    simp only [okB, List.length_cons] at hi ⊢
    rw [ih (by omega), Nat.testBit_two_pow_add_gt (by omega)]

theorem ctrlPos_eq_filter : ∀ K : List Bool, ctrlPos K = (List.range (2 ^ K.length)).filter (okB K)
  | [] => by simp [ctrlPos, okB]
  | b :: r => by
    have ih := ctrlPos_eq_filter r
    have h2 : (2 : Nat) ^ (b :: r).length = 2 ^ r.length + 2 ^ r.length := by rw [List.length_cons, pow_succ]; ring
    rw [h2, range_two_mul, List.filter_append, List.filter_map]
    have hlow : (List.range (2 ^ r.length)).filter (okB (b :: r))
        = if b then [] else (List.range (2 ^ r.length)).filter (okB r) := by
      cases b
      · simp only [Bool.false_eq_true, if_false]
        apply List.filter_congr; intro p _; simp [okB]
      · simp only [if_true]
        rw [List.filter_eq_nil_iff]
        intro p hp
        have : p.testBit r.length = false := Nat.testBit_lt_two_pow (List.mem_range.1 hp)
        simp [okB, this]
    have hhigh : (List.range (2 ^ r.length)).filter (okB (b :: r) ∘ fun x => 2 ^ r.length + x)
        = (List.range (2 ^ r.length)).filter (okB r) := by
      apply List.filter_congr
      intro p hp
      have : p.testBit r.length = false := Nat.testBit_lt_two_pow (List.mem_range.1 hp)
      simp only [comp, okB, okB_add_pow r r.length p (le_refl _), Nat.testBit_two_pow_add_eq, this]
      simp
    rw [hlow, hhigh, ← ih, ctrlPos]
    cases b <;> simp

theorem okB_iff (K : List Bool) (p : Nat) :
    okB K p = true ↔ ∀ q, (h : q < K.length) → K[q] = true → p.testBit (K.length - 1 - q) = true := by
  induction K with
  | nil => simp [okB]
  | cons b r ih =>
    simp only [okB, Bool.and_eq_true, Bool.or_eq_true, Bool.not_eq_true', ih, List.length_cons]
    constructor
    · rintro ⟨h0, h1⟩ q hq hK
      cases q with
      | zero =>
        simp only [List.getElem_cons_zero] at hK
        rcases h0 with h0 | h0
        · rw [hK] at h0; exact absurd h0 (by simp)
        · simpa using h0
      | succ q =>
        simp only [List.getElem_cons_succ] at hK
        have := h1 q (by omega) hK
        have e : r.length + 1 - 1 - (q + 1) = r.length - 1 - q := by omega
        rw [e]; exact this
    · intro h
      constructor
      · cases hb : b
        · exact Or.inl rfl
        · right
          have := h 0 (by omega) (by simpa using hb)
          simpa using this
      · intro q hq hK
        have := h (q + 1) (by omega) (by simpa using hK)
        have e : r.length + 1 - 1 - (q + 1) = r.length - 1 - q := by omega
        rw [e] at this; exact this

/-- `_control_n_index`'s reduced shape / index, in run-length form -/
theorem controlSlice_eq (n : Nat) (c : List Nat) :
    controlSlice n c =
      ((runLength ((List.range n).map fun q => c.contains q)).map (fun g => 2 ^ g.2),
       (runLength ((List.range n).map fun q => c.contains q)).map (fun g => if g.1 then some (2 ^ g.2 - 1) else none)) := by
  set K := (List.range n).map fun q => c.contains q with hK
  have hzip : (List.replicate n 2).zip ((List.range n).map fun q => if c.contains q then some 1 else none)
      = K.map ctrlEntry := by
    rw [hK, List.map_map]
    apply List.ext_getElem
    · simp
    · intro i h1 h2
      simp [ctrlEntry]
  have hpos := runLength_pos K
  unfold controlSlice reduceShapeIndex
  simp only [hzip, groupRuns_ctrl, List.map_map]
  refine Prod.ext ?_ ?_
  · apply List.map_congr_left
    intro g _
    simp [comp, ctrlEntry, List.map_replicate, foldl_replicate_two]
  · apply List.map_congr_left
    intro g hg
    obtain ⟨b, len⟩ := g
    have hlen : 1 ≤ len := hpos _ hg
    obtain ⟨l', rfl⟩ : ∃ l', len = l' + 1 := ⟨len - 1, by omega⟩
    cases b
    · simp [comp, ctrlEntry, List.replicate_succ]
    · simp only [comp, ctrlEntry, if_true]
      have := foldl_replicate_ones (l' + 1) 0
      rw [zero_mul, zero_add] at this
      rw [List.replicate_succ] at this ⊢
      simp only [this]

/-- the literal control slice is the structural enumeration -/
theorem controlPositions_eq_ctrlPos (n : Nat) (c : List Nat) :
    controlPositions n c = ctrlPos ((List.range n).map fun q => c.contains q) := by
  unfold controlPositions
  rw [controlSlice_eq]
  show sliceRuns _ = _
  rw [sliceRuns_eq_ctrlPos, expandRuns_runLength]

/-- **`reduceShapeIndex_spec` for every `n` and every control set** -/
theorem controlPositions_eq_bitwise (n : Nat) (c : List Nat) (hc : c ∈ (List.range n).sublists) :
    controlPositions n c = controlPositionsBitwise n c := by
  rw [List.mem_sublists] at hc
  rw [controlPositions_eq_ctrlPos, ctrlPos_eq_filter]
  unfold controlPositionsBitwise
  have hlen : ((List.range n).map fun q => c.contains q).length = n := by simp
  rw [hlen]
  apply List.filter_congr
  intro p _
  rw [Bool.eq_iff_iff, okB_iff, List.all_eq_true]
  simp only [hlen]
  constructor
  · intro h q hq
    have hqn : q < n := List.mem_range.1 (hc.subset hq)
    exact h q hqn (by simpa using hq)
  · intro h q hq hK
    exact h q (by simpa using hK)



end Numqi
