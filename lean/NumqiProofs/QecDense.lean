/-
C19: `make_error_list(tag_full=True)`: the dense matrices are C08's matrices of the generated strings, pairwise different,
and every Pauli string of weight `1..d-1` has its matrix in the list.
-/
import NumqiProofs.QecErrorList
import NumqiProps.C08

namespace Numqi.Qec
open Numqi Numqi.Pauli

variable {R : Type} [CommRing R]

/-- the dense matrix of a string over the ring `R`: `I^k` where the model says `some k`, `0` where it says `none` -/
def denseMat (I : R) (n : Nat) (syms : List Nat) : Matrix (Bits n) (Bits n) R :=
  fun b' b => match denseEntry n syms b' b with
    | some k => I ^ k
    | none => 0

/-- the Kronecker-product form equals C08's operator matrix of the string with sign `+1` -/
theorem denseMat_eq_mat (I : R) (n : Nat) (syms : List Nat) :
    denseMat I n syms = C08.mat I (Pauli.ofStr n syms 0) := by
  funext b' b
  unfold denseMat denseEntry C08.mat
  rw [C08.fullMatrixExp_eq_matExp]
  cases (Pauli.ofStr n syms 0).matExp b' b <;> rfl

/-- different well-formed strings have different matrices -/
theorem denseMat_injective {I : R} (hI : I * I = -1) (h2 : (1 : R) ≠ -1) (n : Nat) (s t : List Nat)
    (hs : s.length = n) (ht : t.length = n) (hs4 : ∀ x ∈ s, x < 4) (ht4 : ∀ x ∈ t, x < 4)
    (h : denseMat I n s = denseMat I n t) : s = t := by
  rw [denseMat_eq_mat, denseMat_eq_mat] at h
  have hb := C08.mat_injective hI h2 _ _ h
  have e1 := C08.toStr_ofStr (n := n) s 0 hs hs4 (by norm_num)
  have e2 := C08.toStr_ofStr (n := n) t 0 ht ht4 (by norm_num)
  have hp : Pauli.ofStr n s 0 = Pauli.ofStr n t 0 := by
    simp only [Pauli.beq, Bool.and_eq_true, beq_iff_eq, Bits.beq_iff] at hb
    obtain ⟨⟨⟨h0, h1⟩, hx⟩, hz⟩ := hb
    cases hp1 : Pauli.ofStr n s 0
    cases hp2 : Pauli.ofStr n t 0
    simp only [hp1, hp2] at h0 h1 hx hz
    simp [h0, h1, hx, hz]
  have := congrArg Pauli.toStr hp
  rw [e1, e2] at this
  exact (Prod.mk.injEq ..).mp this |>.1

/-- **`make_error_list(n, d, tag_full=True)` lists the matrix of every Pauli operator of weight `1..d-1` exactly once**:
each listed matrix is `C08.mat` of a string of weight `1..d-1`; every such string has its matrix in the list; no matrix
occurs twice (over any ring with `I² = -1`, `1 ≠ -1`). -/
theorem errorListFull_spec {I : R} (hI : I * I = -1) (h2 : (1 : R) ≠ -1) (n d : Nat) :
    (∀ M ∈ (errorListFull n d).map (denseMat I n), ∃ s : List Nat, s.length = n ∧ (∀ x ∈ s, x < 4) ∧ 1 ≤ symWeight s
        ∧ symWeight s < d ∧ M = C08.mat I (Pauli.ofStr n s 0))
    ∧ (∀ s : List Nat, s.length = n → (∀ x ∈ s, x < 4) → 1 ≤ symWeight s → symWeight s < d →
        C08.mat I (Pauli.ofStr n s 0) ∈ (errorListFull n d).map (denseMat I n))
    ∧ ((errorListFull n d).map (denseMat I n)).Nodup := by
  refine ⟨?_, ?_, ?_⟩
  · intro M hM
    rw [List.mem_map] at hM
    obtain ⟨s, hs, rfl⟩ := hM
    obtain ⟨a, b, c, e⟩ := errorList_sound n d s hs
    exact ⟨s, a, b, c, e, denseMat_eq_mat I n s⟩
  · intro s hl h4 h1 hd
    rw [List.mem_map]
    exact ⟨s, errorList_complete n d s hl h4 h1 hd, denseMat_eq_mat I n s⟩
  · refine (errorList_nodup n d).map_on ?_
    intro s hs t ht h
    obtain ⟨a, b, _, _⟩ := errorList_sound n d s hs
    obtain ⟨a', b', _, _⟩ := errorList_sound n d t ht
    exact denseMat_injective hI h2 n s t a a' b b' h

end Numqi.Qec
