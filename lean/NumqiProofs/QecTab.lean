/-
C19: the tabulated evaluation used by the driver (`runTab`, `codewordTab`, `pauliTab`) is the proved model
(`run`, `codeword`, `pauliAct`) on the positions `< 2^n`; `klClass` refines `klOne`.
-/
import NumqiProofs.QecBits

namespace Numqi.Qec

theorem ofArray_tabulate (n : Nat) (v : Nat → GInt) (i : Nat) (hi : i < 2 ^ n) : ofArray (tabulate n v) i = v i := by
  simp [ofArray, tabulate, hi]

theorem tabulate_congr (n : Nat) (u v : Nat → GInt) (h : ∀ i < 2 ^ n, u i = v i) : tabulate n u = tabulate n v := by
  unfold tabulate
  congr 1
  apply List.map_congr_left
  intro i hi
  exact h i (List.mem_range.1 hi)

theorem fl_lt {n i q : Nat} (hi : i < 2 ^ n) (hq : q < n) : fl i q < 2 ^ n := by
  unfold fl
  apply Nat.xor_lt_two_pow hi
  rw [bit, Nat.one_shiftLeft]; exact Nat.pow_lt_pow_right (by norm_num) hq

/-- a gate on qubits `< n` only reads positions `< 2^n` when evaluated at a position `< 2^n` -/
theorem applyGate_local (n : Nat) (g : Gate) (hg : gateOk n g = true) (u v : Nat → GInt)
    (h : ∀ i < 2 ^ n, u i = v i) : ∀ i < 2 ^ n, applyGate GInt.I g u i = applyGate GInt.I g v i := by
  intro i hi
  cases g with
  | h q => simp only [gateOk, decide_eq_true_eq] at hg
           simp only [applyGate, h i hi, h _ (fl_lt hi hg)]
  | x q => simp only [gateOk, decide_eq_true_eq] at hg
           simp only [applyGate, h _ (fl_lt hi hg)]
  | y q => simp only [gateOk, decide_eq_true_eq] at hg
           simp only [applyGate, h _ (fl_lt hi hg)]
  | z q => simp only [applyGate, h i hi]
  | s q => simp only [applyGate, h i hi]
  | cx c t => simp only [gateOk, Bool.and_eq_true, decide_eq_true_eq] at hg
              simp only [applyGate, h i hi, h _ (fl_lt hi hg.1.2)]
  | cy c t => simp only [gateOk, Bool.and_eq_true, decide_eq_true_eq] at hg
              simp only [applyGate, h i hi, h _ (fl_lt hi hg.1.2)]
  | cz c t => simp only [applyGate, h i hi]
  | unknown => simp [gateOk] at hg

/-- **the driver's tabulated circuit evaluation is the model's `run`** on the first `2^n` positions -/
theorem runTab_eq (n : Nat) (gs : List Gate) (hg : gs.all (gateOk n) = true) (v : Nat → GInt) :
    runTab n gs (tabulate n v) = tabulate n (run GInt.I gs v) := by
  induction gs generalizing v with
  | nil => rfl
  | cons g gs ih =>
    simp only [List.all_cons, Bool.and_eq_true] at hg
    simp only [runTab, run]
    rw [tabulate_congr n _ (applyGate GInt.I g v)
      (applyGate_local n g hg.1 _ _ (fun i hi => ofArray_tabulate n v i hi)), ih hg.2]

/-- **the driver's code words are the model's `codeword`s** -/
theorem codewordTab_eq (c : Code) (hg : c.encode.all (gateOk c.n) = true) (a : Nat) :
    codewordTab c a = tabulate c.n (codeword GInt.I c a) := by
  unfold codewordTab codeword
  exact runTab_eq c.n c.encode hg _

/-- **the driver's Pauli application is the model's `pauliAct`** (masks below `2^n`) -/
theorem pauliTab_eq (n : Nat) (p : MP) (hx : p.x < 2 ^ n) (v : Nat → GInt) :
    pauliTab n p (tabulate n v) = tabulate n (pauliAct GInt.I p v) := by
  unfold pauliTab
  apply tabulate_congr
  intro i hi
  simp only [pauliAct]
  rw [ofArray_tabulate n v _ (Nat.xor_lt_two_pow hi hx)]

/-- the per-error class printed by the driver refines the Boolean used in `klCheck` -/
theorem klOne_eq_klClass (gs sp : List MP) (p : MP) : klOne gs sp p = (klClass gs sp p != 'F') := by
  unfold klOne klClass
  simp only [MP.force_eq]
  by_cases h : gs.any (fun g => MP.acomm g p) = true
  · simp [h]
  · have h' : gs.any (fun g => MP.acomm g p) = false := by simpa using h
    simp only [h', Bool.false_or, Bool.false_eq_true, if_false]
    cases hf : sp.find? (fun s => s.x == p.x && s.z == p.z) with
    | none =>
      have : sp.any (fun s => s.x == p.x && s.z == p.z) = false := by
        rw [List.find?_eq_none] at hf
        rw [Bool.eq_false_iff]; intro ha
        rw [List.any_eq_true] at ha
        obtain ⟨x, hx, hp⟩ := ha
        exact hf x hx hp
      simp [this]
    | some s =>
      have : sp.any (fun s => s.x == p.x && s.z == p.z) = true := by
        rw [List.any_eq_true]
        exact ⟨s, List.mem_of_find?_eq_some hf, by have := List.find?_some hf; simpa using this⟩
      rw [this]
      show true = ("0123".toList.getD ((p.k + 4 - s.k % 4) % 4) '?' != 'F')
      have h4 : (p.k + 4 - s.k % 4) % 4 < 4 := Nat.mod_lt _ (by norm_num)
      generalize (p.k + 4 - s.k % 4) % 4 = r at h4
      interval_cases r <;> decide

end Numqi.Qec
