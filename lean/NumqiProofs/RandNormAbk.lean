/-
C10 helper (validity, round 6): `rand_ABk_density_matrix` — the permutation sum of `NumqiModel/RandNorm.lean` (`abkSym`).
-/
import NumqiProofs.RandNormCompose
import NumqiProofs.FinGroupPerm

namespace Numqi.RandNorm
open Matrix Numqi.FinGroup
open scoped ComplexOrder

/-! ### base-`b` digits -/

theorem undigits_append (b : Nat) (l : List Nat) (t : Nat) : undigits b (l ++ [t]) = undigits b l * b + t := by
  simp [undigits, List.foldl_append]

theorem digits_succ (b k x : Nat) : digits b (k + 1) x = digits b k (x / b) ++ [x % b] := by
  unfold digits
  rw [List.range_succ, List.map_append]
  congr 1
  · apply List.map_congr_left
    intro m hm
    have hm : m < k := by simpa using hm
    have : k + 1 - 1 - m = (k - 1 - m) + 1 := by omega
    rw [this, pow_succ, Nat.mul_comm, ← Nat.div_div_eq_div_mul]
  · simp

theorem length_digits (b k x : Nat) : (digits b k x).length = k := by simp [digits]

theorem digits_lt (b k x : Nat) (hb : 0 < b) : ∀ t ∈ digits b k x, t < b := by
  intro t ht
  simp only [digits, List.mem_map] at ht
  obtain ⟨m, _, rfl⟩ := ht
  exact Nat.mod_lt _ hb

theorem undigits_digits (b : Nat) : ∀ (k x : Nat), undigits b (digits b k x) = x % b ^ k := by
  intro k
  induction k with
  | zero => intro x; simp [digits, undigits, Nat.mod_one]
  | succ k ih =>
    intro x
    rw [digits_succ, undigits_append, ih, pow_succ', Nat.mod_mul]
    ring

theorem undigits_lt (b : Nat) : ∀ (l : List Nat), (∀ t ∈ l, t < b) → undigits b l < b ^ l.length := by
  intro l
  induction l using List.reverseRecOn with
  | nil => intro _; simp [undigits]
  | append_singleton l t ih =>
    intro h
    have h1 := ih fun s hs => h s (List.mem_append_left _ hs)
    have h2 : t < b := h t (by simp)
    rw [undigits_append, List.length_append, List.length_singleton, pow_succ]
    nlinarith

theorem digits_undigits (b : Nat) : ∀ (l : List Nat), (∀ t ∈ l, t < b) → digits b l.length (undigits b l) = l := by
  intro l
  induction l using List.reverseRecOn with
  | nil => intro _; simp [digits]
  | append_singleton l t ih =>
    intro h
    have h1 := ih fun s hs => h s (List.mem_append_left _ hs)
    have h2 : t < b := h t (by simp)
    have hb : 0 < b := Nat.lt_of_le_of_lt (Nat.zero_le _) h2
    rw [undigits_append, List.length_append, List.length_singleton, digits_succ]
    have e1 : (undigits b l * b + t) / b = undigits b l := by
      rw [Nat.add_comm, Nat.add_mul_div_right _ _ hb, Nat.div_eq_of_lt h2, Nat.zero_add]
    have e2 : (undigits b l * b + t) % b = t := by
      rw [Nat.add_comm, Nat.add_mul_mod_self_right, Nat.mod_eq_of_lt h2]
    rw [e1, e2, h1]

/-! ### permutation tuples -/

theorem scatter_eq (π bs : List Nat) : scatter π bs = compose bs (invPerm π.length π) := by
  simp [scatter, compose, invPerm, List.map_map, Function.comp_def]

theorem length_scatter (π bs : List Nat) : (scatter π bs).length = π.length := by simp [scatter]

theorem scatter_lt (b : Nat) (hb : 0 < b) (π bs : List Nat) (h : ∀ t ∈ bs, t < b) : ∀ t ∈ scatter π bs, t < b := by
  intro t ht
  simp only [scatter, List.mem_map] at ht
  obtain ⟨m, _, rfl⟩ := ht
  rw [List.getD_eq_getElem?_getD]
  cases h' : bs[π.idxOf m]? with
  | none => simpa using hb
  | some v => simpa using h v (List.mem_of_getElem? h')

theorem inv_unique {n : Nat} {p q : List Nat} (hp : p.Perm (List.range n)) (hq : q.Perm (List.range n))
    (h : compose p q = List.range n) : q = invPerm n p := by
  have hi := invPerm_perm hp
  calc q = compose (List.range n) q := (compose_range_left fun x hx => perm_lt hq hx).symm
    _ = compose (compose (invPerm n p) p) q := by rw [compose_invPerm_left hp]
    _ = compose (invPerm n p) (compose p q) := compose_assoc (perm_length hp) fun x hx => perm_lt hq hx
    _ = compose (invPerm n p) (List.range n) := by rw [h]
    _ = invPerm n p := compose_range_right (perm_length hi)

theorem invPerm_compose {n : Nat} {p q : List Nat} (hp : p.Perm (List.range n)) (hq : q.Perm (List.range n)) :
    invPerm n (compose p q) = compose (invPerm n q) (invPerm n p) := by
  have hip := invPerm_perm hp
  have hiq := invPerm_perm hq
  have hc := compose_perm hiq hip
  refine (inv_unique (compose_perm hp hq) hc ?_).symm
  calc compose (compose p q) (compose (invPerm n q) (invPerm n p))
      = compose p (compose q (compose (invPerm n q) (invPerm n p))) :=
        compose_assoc (perm_length hq) fun x hx => perm_lt hc hx
    _ = compose p (compose (compose q (invPerm n q)) (invPerm n p)) := by
        rw [compose_assoc (perm_length hiq) fun x hx => perm_lt hip hx]
    _ = compose p (compose (List.range n) (invPerm n p)) := by rw [compose_invPerm_right hq]
    _ = compose p (invPerm n p) := by rw [compose_range_left fun x hx => perm_lt hip hx]
    _ = List.range n := compose_invPerm_right hp

theorem length_compose (p q : List Nat) : (compose p q).length = q.length := by simp [compose]

theorem scatter_scatter {k : Nat} {π σ : List Nat} (hπ : π.Perm (List.range k)) (hσ : σ.Perm (List.range k)) (bs : List Nat) :
    scatter π (scatter σ bs) = scatter (compose π σ) bs := by
  have hip := invPerm_perm hπ
  have his := invPerm_perm hσ
  rw [scatter_eq π, scatter_eq σ, scatter_eq (compose π σ), length_compose, perm_length hπ, perm_length hσ,
    compose_assoc (perm_length his) fun x hx => perm_lt hip hx, invPerm_compose hπ hσ]

theorem scatter_range (k : Nat) (bs : List Nat) (h : bs.length = k) : scatter (List.range k) bs = bs := by
  rw [scatter_eq, List.length_range]
  have : invPerm k (List.range k) = List.range k := by
    unfold invPerm
    conv_rhs => rw [← List.map_id (List.range k)]
    apply List.map_congr_left
    intro x hx
    have hx : x < k := by simpa using hx
    have h1 : (List.range k).idxOf x < (List.range k).length := List.idxOf_lt_length_iff.2 (by simpa using hx)
    have h2 := List.getElem_idxOf h1
    rw [List.getElem_range] at h2
    exact h2
  rw [this, compose_range_right h]

theorem perm_map_compose_right {k : Nat} {σ : List Nat} (hσ : σ.Perm (List.range k)) :
    ((perms k).map fun π => compose π σ).Perm (perms k) := by
  have his := invPerm_perm hσ
  have hinj : ∀ π ∈ perms k, ∀ π' ∈ perms k, compose π σ = compose π' σ → π = π' := by
    intro π hπ π' hπ' h
    have e : ∀ ρ : List Nat, ρ.Perm (List.range k) → compose (compose ρ σ) (invPerm k σ) = ρ := by
      intro ρ hρ
      rw [compose_assoc (perm_length hσ) fun x hx => perm_lt his hx, compose_invPerm_right hσ, compose_range_right (perm_length hρ)]
    rw [← e π (mem_perms.1 hπ), ← e π' (mem_perms.1 hπ'), h]
  refine (List.perm_ext_iff_of_nodup ((List.nodup_map_iff_inj_on (nodup_perms k)).2 hinj) (nodup_perms k)).2 fun a => ?_
  simp only [List.mem_map]
  constructor
  · rintro ⟨π, hπ, rfl⟩; exact mem_perms.2 (compose_perm (mem_perms.1 hπ) hσ)
  · intro ha
    have ha' := mem_perms.1 ha
    refine ⟨compose a (invPerm k σ), mem_perms.2 (compose_perm ha' his), ?_⟩
    rw [compose_assoc (perm_length his) fun x hx => perm_lt hσ hx, compose_invPerm_left hσ, compose_range_right (perm_length ha')]

theorem sum_perms_compose {k : Nat} {σ : List Nat} (hσ : σ.Perm (List.range k)) (F : List Nat → ℂ) :
    ((perms k).map fun π => F (compose π σ)).sum = ((perms k).map F).sum := by
  have := (perm_map_compose_right hσ).map F
  rw [List.map_map] at this
  exact this.sum_eq

theorem fact_eq (k : Nat) : fact k = k.factorial := by
  induction k with
  | zero => rfl
  | succ k ih => simp [fact, ih, Nat.factorial_succ]

theorem length_perms (k : Nat) : (perms k).length = fact k := by
  have h : (perms k).Perm (List.range k).permutations := by
    refine (List.perm_ext_iff_of_nodup (nodup_perms k) (List.nodup_permutations _ List.nodup_range)).2 fun a => ?_
    rw [List.mem_permutations]; exact mem_perms
  rw [h.length_eq, List.length_permutations, List.length_range, fact_eq]

/-! ### the index map of one term -/

theorem permIdx_parts (dB k : Nat) (hdB : 0 < dB) {π : List Nat} (hπ : π.Perm (List.range k)) (x : Nat) :
    permIdx dB k π x / dB ^ k = x / dB ^ k ∧
      permIdx dB k π x % dB ^ k = undigits dB (scatter π (digits dB k (x % dB ^ k))) := by
  have hB : 0 < dB ^ k := Nat.pow_pos hdB
  have hu : undigits dB (scatter π (digits dB k (x % dB ^ k))) < dB ^ k := by
    have := undigits_lt dB (scatter π (digits dB k (x % dB ^ k))) (scatter_lt dB hdB _ _ (digits_lt dB k _ hdB))
    rwa [length_scatter, perm_length hπ] at this
  unfold permIdx
  constructor
  · rw [Nat.add_comm, Nat.add_mul_div_right _ _ hB, Nat.div_eq_of_lt hu, Nat.zero_add]
  · rw [Nat.add_comm, Nat.add_mul_mod_self_right, Nat.mod_eq_of_lt hu]

theorem permIdx_lt (dA dB k : Nat) (hdB : 0 < dB) {π : List Nat} (hπ : π.Perm (List.range k)) {x : Nat} (hx : x < dA * dB ^ k) :
    permIdx dB k π x < dA * dB ^ k := by
  have hB : 0 < dB ^ k := Nat.pow_pos hdB
  obtain ⟨h1, h2⟩ := permIdx_parts dB k hdB hπ x
  have ha : x / dB ^ k < dA := (Nat.div_lt_iff_lt_mul hB).2 hx
  rw [← Nat.div_add_mod (permIdx dB k π x) (dB ^ k), h1]
  have : permIdx dB k π x % dB ^ k < dB ^ k := Nat.mod_lt _ hB
  nlinarith

theorem permIdx_permIdx (dB k : Nat) (hdB : 0 < dB) {π σ : List Nat} (hπ : π.Perm (List.range k)) (hσ : σ.Perm (List.range k)) (x : Nat) :
    permIdx dB k π (permIdx dB k σ x) = permIdx dB k (compose π σ) x := by
  obtain ⟨h1, h2⟩ := permIdx_parts dB k hdB hσ x
  have hd : digits dB k (undigits dB (scatter σ (digits dB k (x % dB ^ k)))) = scatter σ (digits dB k (x % dB ^ k)) := by
    have := digits_undigits dB (scatter σ (digits dB k (x % dB ^ k))) (scatter_lt dB hdB _ _ (digits_lt dB k _ hdB))
    rwa [length_scatter, perm_length hσ] at this
  have e : ∀ y, permIdx dB k π y = y / dB ^ k * dB ^ k + undigits dB (scatter π (digits dB k (y % dB ^ k))) := fun _ => rfl
  rw [e (permIdx dB k σ x), h1, h2, hd, scatter_scatter hπ hσ]
  rfl

theorem permIdx_range (dB k x : Nat) : permIdx dB k (List.range k) x = x := by
  unfold permIdx
  rw [scatter_range k _ (length_digits dB k _), undigits_digits, Nat.mod_mod, Nat.div_add_mod']

/-! ### the permutation sum -/

theorem abkSym_invariant (dA dB k : Nat) (hdB : 0 < dB) (G : Nat → Nat → ℂ) {σ : List Nat} (hσ : σ ∈ perms k) (x y : Nat) :
    abkSym dA dB k G (permIdx dB k σ x) (permIdx dB k σ y) = abkSym dA dB k G x y := by
  have hσ' := mem_perms.1 hσ
  simp only [abkSym]
  rw [← sum_perms_compose hσ' fun π =>
    gram (dA * dB ^ k) G (permIdx dB k π x) (permIdx dB k π y) / (traceN (dA * dB ^ k) (gram (dA * dB ^ k) G) * ((fact k : Nat) : ℂ))]
  congr 1
  apply List.map_congr_left
  intro π hπ
  rw [permIdx_permIdx dB k hdB (mem_perms.1 hπ) hσ', permIdx_permIdx dB k hdB (mem_perms.1 hπ) hσ']

theorem toMat_list_sum {α : Type} (N : Nat) (l : List α) (g : α → Nat → Nat → ℂ) :
    toMat N N (fun x y => (l.map fun a => g a x y).sum) = (l.map fun a => toMat N N (g a)).sum := by
  induction l with
  | nil => ext i j; simp [toMat]
  | cons a l ih =>
    simp only [List.map_cons, List.sum_cons]
    rw [← ih]
    ext i j; simp [toMat]

/-- the index map of the term `π` on `Fin N` -/
def permFin (dA dB k : Nat) (hdB : 0 < dB) (π : List Nat) (hπ : π.Perm (List.range k)) (x : Fin (dA * dB ^ k)) : Fin (dA * dB ^ k) :=
  ⟨permIdx dB k π x.val, permIdx_lt dA dB k hdB hπ x.isLt⟩

theorem permFin_bijective (dA dB k : Nat) (hdB : 0 < dB) (π : List Nat) (hπ : π.Perm (List.range k)) :
    Function.Bijective (permFin dA dB k hdB π hπ) := by
  rw [← Finite.injective_iff_bijective]
  intro x y h
  have h' : permIdx dB k π x.val = permIdx dB k π y.val := congrArg Fin.val h
  have e : ∀ z, permIdx dB k (invPerm k π) (permIdx dB k π z) = z := by
    intro z
    rw [permIdx_permIdx dB k hdB (invPerm_perm hπ) hπ, compose_invPerm_left hπ, permIdx_range]
  exact Fin.ext (by rw [← e x.val, ← e y.val, h'])

theorem toMat_abk_term (dA dB k : Nat) (hdB : 0 < dB) (M : Nat → Nat → ℂ) (c : ℂ) (π : List Nat) (hπ : π.Perm (List.range k)) :
    toMat (dA * dB ^ k) (dA * dB ^ k) (fun x y => M (permIdx dB k π x) (permIdx dB k π y) / c) =
      c⁻¹ • (toMat (dA * dB ^ k) (dA * dB ^ k) M).submatrix (permFin dA dB k hdB π hπ) (permFin dA dB k hdB π hπ) := by
  ext x y
  simp [toMat, permFin, div_eq_inv_mul]

theorem toMat_abkSym (dA dB k : Nat) (G : Nat → Nat → ℂ) :
    toMat (dA * dB ^ k) (dA * dB ^ k) (abkSym dA dB k G) =
      ((perms k).map fun π => toMat (dA * dB ^ k) (dA * dB ^ k) fun x y =>
        gram (dA * dB ^ k) G (permIdx dB k π x) (permIdx dB k π y) /
          (traceN (dA * dB ^ k) (gram (dA * dB ^ k) G) * ((fact k : Nat) : ℂ))).sum := by
  rw [← toMat_list_sum]
  rfl

theorem list_sum_posSemidef {n : Type} [Fintype n] (l : List (Matrix n n ℂ)) (h : ∀ A ∈ l, A.PosSemidef) : l.sum.PosSemidef := by
  induction l with
  | nil => simpa using Matrix.PosSemidef.zero
  | cons A l ih =>
    rw [List.sum_cons]
    exact (h A (List.mem_cons_self ..)).add (ih fun B hB => h B (List.mem_cons_of_mem _ hB))

theorem list_sum_trace {n : Type} [Fintype n] (l : List (Matrix n n ℂ)) : l.sum.trace = (l.map Matrix.trace).sum := by
  induction l with
  | nil => simp
  | cons A l ih => simp [Matrix.trace_add, ih]

theorem abkSym_posSemidef (dA dB k : Nat) (hdB : 0 < dB) (G : Nat → Nat → ℂ) :
    (toMat (dA * dB ^ k) (dA * dB ^ k) (abkSym dA dB k G)).PosSemidef := by
  rw [toMat_abkSym]
  refine list_sum_posSemidef _ fun A hA => ?_
  simp only [List.mem_map] at hA
  obtain ⟨π, hπ, rfl⟩ := hA
  rw [toMat_abk_term dA dB k hdB _ _ π (mem_perms.1 hπ), toMat_gram]
  have hM := Matrix.posSemidef_self_mul_conjTranspose (toMat (dA * dB ^ k) (dA * dB ^ k) G)
  refine (hM.submatrix _).smul ?_
  rw [traceN_eq, toMat_gram]
  exact inv_nonneg.2 (mul_nonneg hM.trace_nonneg (by exact_mod_cast Nat.zero_le _))

theorem abkSym_trace (dA dB k : Nat) (hdB : 0 < dB) (G : Nat → Nat → ℂ) (htr : traceN (dA * dB ^ k) (gram (dA * dB ^ k) G) ≠ 0) :
    (toMat (dA * dB ^ k) (dA * dB ^ k) (abkSym dA dB k G)).trace = 1 := by
  rw [toMat_abkSym, list_sum_trace, List.map_map]
  set tr := traceN (dA * dB ^ k) (gram (dA * dB ^ k) G) with htrd
  have hterm : ∀ π ∈ perms k, (Matrix.trace ∘ fun π => toMat (dA * dB ^ k) (dA * dB ^ k) fun x y =>
      gram (dA * dB ^ k) G (permIdx dB k π x) (permIdx dB k π y) / (tr * ((fact k : Nat) : ℂ))) π
        = (tr * ((fact k : Nat) : ℂ))⁻¹ * tr := by
    intro π hπ
    have hπ' := mem_perms.1 hπ
    simp only [Function.comp]
    rw [toMat_abk_term dA dB k hdB _ _ π hπ', Matrix.trace_smul, smul_eq_mul]
    congr 1
    have := trace_submatrix_equiv (Equiv.ofBijective _ (permFin_bijective dA dB k hdB π hπ')) (toMat (dA * dB ^ k) (dA * dB ^ k) (gram (dA * dB ^ k) G))
    rw [htrd, traceN_eq]
    exact this
  rw [List.map_congr_left hterm, List.map_const', List.sum_replicate, length_perms, nsmul_eq_mul]
  have hk : ((fact k : Nat) : ℂ) ≠ 0 := by
    rw [fact_eq]; exact_mod_cast (Nat.factorial_pos k).ne'
  field_simp

end Numqi.RandNorm
