/-
Roots-of-unity algebra for the UPB families `gentiles1`, `gentiles2`, `quadres` of `numqi/entangle/upb.py`
(model tables: `NumqiModel/CatalogueRoots.lean`; framework `inner`/`Orthonormal`/`prodVec`: `NumqiProofs/CatalogueUpb.lean`).

The orthonormality theorems `gt1_orthonormal`, `gt2_orthonormal`, `qr_orthonormal` are proved from the *relations*
`RootData` (ω^h = 1, |ω| = 1, Σ_k ω^{jk} = 0 for 0 < j < h), `ScaleData` / `QuadScale` (the squares of the real scales);
the last section shows that the numbers the library uses — ω = exp(2πi/h), scales 1/√· , N = max(−σ, 1+σ) — satisfy them.
-/
import NumqiProofs.CatalogueUpb
import NumqiModel.CatalogueRoots
import Mathlib.RingTheory.RootsOfUnity.Complex
import Mathlib.Analysis.Real.Sqrt
import Mathlib.NumberTheory.LegendreSymbol.QuadraticChar.Basic
import Mathlib.NumberTheory.LegendreSymbol.Basic

namespace Numqi.Catalogue
open Finset


/-- what the proofs need from the root of unity `η` of order `h` -/
structure RootData (h : ℕ) (η : ℂ) : Prop where
  pow : η ^ h = 1
  unit : starRingEnd ℂ η * η = 1
  vanish : ∀ j, 0 < j → j < h → ∑ k ∈ range h, η ^ (j * k) = 0

/-- real scales -/
structure ScaleData (sc : ℕ → ℂ) (h dA dB : ℕ) : Prop where
  real : ∀ c, starRingEnd ℂ (sc c) = sc c
  one : sc 1 = 1
  tile : sc 2 * sc 2 * (h : ℂ) = 1
  stopA : sc 3 * sc 3 * (dA : ℂ) = 1
  stopB : sc 5 * sc 5 * (dB : ℂ) = 1
  half : sc 4 * sc 4 * 2 = 1

theorem conj_pow_mul_pow {η : ℂ} (hu : starRingEnd ℂ η * η = 1) (e : ℕ) : starRingEnd ℂ (η ^ e) * η ^ e = 1 := by
  rw [map_pow, ← mul_pow, hu, one_pow]

/-- `conj(η^a) · η^b = η^(b-a)` for `a ≤ b` -/
theorem conj_pow_mul_pow_le {η : ℂ} (hu : starRingEnd ℂ η * η = 1) {a b : ℕ} (hab : a ≤ b) :
    starRingEnd ℂ (η ^ a) * η ^ b = η ^ (b - a) := by
  obtain ⟨c, rfl⟩ := Nat.exists_eq_add_of_le hab
  rw [pow_add, ← mul_assoc, conj_pow_mul_pow hu, one_mul, Nat.add_sub_cancel_left]

theorem pow_mod_of {h : ℕ} {η : ℂ} (hp : η ^ h = 1) (e : ℕ) : η ^ (e % h) = η ^ e := by
  conv_rhs => rw [← Nat.div_add_mod e h, pow_add, pow_mul, hp, one_pow, one_mul]

/-- rotation index `(i - j) mod d` -/
theorem rot_eq {d i j : ℕ} (hi : i < d) (hj : j < d) : (i + d - j) % d = if j ≤ i then i - j else i + d - j := by
  split
  · rename_i h
    have : i + d - j = (i - j) + d := by omega
    rw [this, Nat.add_mod_right, Nat.mod_eq_of_lt (by omega)]
  · rw [Nat.mod_eq_of_lt (by omega)]

/-- a sum over a full period is invariant under rotation of the index -/
theorem sum_rot {d j : ℕ} (hj : j < d) (f : ℕ → ℂ) : ∑ i ∈ range d, f ((i + d - j) % d) = ∑ k ∈ range d, f k := by
  apply Finset.sum_nbij' (fun i => (i + d - j) % d) (fun k => (k + j) % d)
  · intro i hi; exact mem_range.2 (Nat.mod_lt _ (by omega))
  · intro k hk; exact mem_range.2 (Nat.mod_lt _ (by omega))
  · intro i hi
    have hi' := mem_range.1 hi
    show _ = _
    rw [rot_eq hi' hj]
    split
    · rename_i h; have : i - j + j = i := by omega
      rw [this, Nat.mod_eq_of_lt hi']
    · have : i + d - j + j = i + d := by omega
      rw [this, Nat.add_mod_right, Nat.mod_eq_of_lt hi']
  · intro k hk
    have hk' := mem_range.1 hk
    show _ = _
    by_cases h : k + j < d
    · rw [Nat.mod_eq_of_lt h, rot_eq h hj, if_pos (by omega)]; omega
    · have e : (k + j) % d = k + j - d := by
        have : k + j = (k + j - d) + d := by omega
        rw [this, Nat.add_mod_right, Nat.mod_eq_of_lt (by omega)]; omega
      rw [e, rot_eq (by omega) hj, if_neg (by omega)]; omega
  · intro i _; rfl

/-- value of a symbolic component in `ℂ` -/
noncomputable def ev (sc : ℕ → ℂ) (η : ℂ) (x : RootEnt) : ℂ := x.eval sc (fun e => η ^ e)

theorem ev_zero (sc : ℕ → ℂ) (η : ℂ) : ev sc η RootEnt.zero = 0 := by simp [ev, RootEnt.eval, RootEnt.zero]

theorem ev_unit {sc : ℕ → ℂ} (h1 : sc 1 = 1) (η : ℂ) (j i : ℕ) : ev sc η (unitEnt j i) = if i = j then 1 else 0 := by
  unfold unitEnt; split
  · simp [ev, RootEnt.eval, h1]
  · exact ev_zero sc η

theorem inner_unit_left {sc : ℕ → ℂ} (h1 : sc 1 = 1) (η : ℂ) {d j : ℕ} (hj : j < d) (y : ℕ → ℂ) :
    inner d (fun i => ev sc η (unitEnt j i)) y = y j := by
  unfold inner
  rw [Finset.sum_eq_single j]
  · simp [ev_unit h1]
  · intro i _ hi; simp [ev_unit h1, hi]
  · intro h; exact absurd (mem_range.2 hj) h

theorem inner_unit_right {sc : ℕ → ℂ} (h1 : sc 1 = 1) (η : ℂ) {d j : ℕ} (hj : j < d) (x : ℕ → ℂ) :
    inner d x (fun i => ev sc η (unitEnt j i)) = starRingEnd ℂ (x j) := by
  unfold inner
  rw [Finset.sum_eq_single j]
  · simp [ev_unit h1]
  · intro i _ hi; simp [ev_unit h1, hi]
  · intro h; exact absurd (mem_range.2 hj) h

/-! ### GenTiles1 -/

section gt1
variable {sc : ℕ → ℂ} {η : ℂ} {h : ℕ}

theorem ev_gt1Tile (hR : RootData h η) (m j i : ℕ) :
    ev sc η (gt1Tile (2 * h) m j i) =
      if (i + 2 * h - j) % (2 * h) < h then sc 2 * η ^ (m * ((i + 2 * h - j) % (2 * h))) else 0 := by
  have hh : 2 * h / 2 = h := by omega
  unfold gt1Tile
  simp only [hh]
  split
  · simp [ev, RootEnt.eval, pow_mod_of hR.pow]
  · exact ev_zero sc η

/-- sum over a tile: `Σ_i F((i-j) mod d)` with `F` supported on `k < h` -/
theorem sum_tile {h : ℕ} {j : ℕ} (hj : j < 2 * h) (g : ℕ → ℂ) :
    ∑ i ∈ range (2 * h), (if (i + 2 * h - j) % (2 * h) < h then g ((i + 2 * h - j) % (2 * h)) else 0) =
      ∑ k ∈ range h, g k := by
  rw [sum_rot hj (fun k => if k < h then g k else 0), two_mul, Finset.sum_range_add]
  have h1 : ∑ x ∈ range h, (if x < h then g x else 0) = ∑ x ∈ range h, g x :=
    Finset.sum_congr rfl (fun x hx => by rw [if_pos (mem_range.1 hx)])
  have h2 : ∑ x ∈ range h, (if h + x < h then g (h + x) else 0) = 0 :=
    Finset.sum_eq_zero (fun x _ => by rw [if_neg (by omega)])
  rw [h1, h2, add_zero]

theorem inner_tile_tile (hR : RootData h η) (hS : ScaleData sc h (2 * h) (2 * h)) {m m' j : ℕ}
    (hm : 0 < m) (hmh : m < h) (hm' : 0 < m') (hmh' : m' < h) (hj : j < 2 * h) :
    inner (2 * h) (fun i => ev sc η (gt1Tile (2 * h) m j i)) (fun i => ev sc η (gt1Tile (2 * h) m' j i)) =
      if m = m' then 1 else 0 := by
  unfold inner
  have e : ∀ i, starRingEnd ℂ (ev sc η (gt1Tile (2 * h) m j i)) * ev sc η (gt1Tile (2 * h) m' j i) =
      if (i + 2 * h - j) % (2 * h) < h then
        (fun k => sc 2 * sc 2 * (starRingEnd ℂ (η ^ (m * k)) * η ^ (m' * k))) ((i + 2 * h - j) % (2 * h)) else 0 := by
    intro i
    rw [ev_gt1Tile hR, ev_gt1Tile hR]
    split
    · simp only [map_mul, hS.real]; ring
    · simp
  rw [Finset.sum_congr rfl (fun i _ => e i),
    sum_tile hj (fun k => sc 2 * sc 2 * (starRingEnd ℂ (η ^ (m * k)) * η ^ (m' * k))), ← Finset.mul_sum]
  by_cases hmm : m = m'
  · subst hmm
    rw [if_pos rfl, Finset.sum_congr rfl (fun k _ => conj_pow_mul_pow hR.unit (m * k))]
    simp only [Finset.sum_const, Finset.card_range, nsmul_eq_mul, mul_one]
    exact hS.tile
  · rw [if_neg hmm]
    rcases Nat.lt_or_gt_of_ne hmm with hlt | hgt
    · have : ∀ k ∈ range h, starRingEnd ℂ (η ^ (m * k)) * η ^ (m' * k) = η ^ ((m' - m) * k) := by
        intro k _
        rw [conj_pow_mul_pow_le hR.unit (Nat.mul_le_mul_right k (le_of_lt hlt)), Nat.sub_mul]
      rw [Finset.sum_congr rfl this, hR.vanish (m' - m) (by omega) (by omega), mul_zero]
    · have : ∀ k ∈ range h, starRingEnd ℂ (η ^ (m * k)) * η ^ (m' * k) = starRingEnd ℂ (η ^ ((m - m') * k)) := by
        intro k _
        rw [Nat.sub_mul, ← conj_pow_mul_pow_le hR.unit (Nat.mul_le_mul_right k (le_of_lt hgt)), map_mul,
          Complex.conj_conj, mul_comm]
      rw [Finset.sum_congr rfl this, ← map_sum, hR.vanish (m - m') (by omega) (by omega), map_zero, mul_zero]

theorem inner_const_tile (hR : RootData h η) (c : ℂ) {m j : ℕ}
    (hm : 0 < m) (hmh : m < h) (hj : j < 2 * h) :
    inner (2 * h) (fun _ => c) (fun i => ev sc η (gt1Tile (2 * h) m j i)) = 0 := by
  unfold inner
  have e : ∀ i, starRingEnd ℂ c * ev sc η (gt1Tile (2 * h) m j i) =
      if (i + 2 * h - j) % (2 * h) < h then
        (fun k => starRingEnd ℂ c * sc 2 * η ^ (m * k)) ((i + 2 * h - j) % (2 * h)) else 0 := by
    intro i; rw [ev_gt1Tile hR]; split
    · ring
    · simp
  rw [Finset.sum_congr rfl (fun i _ => e i), sum_tile hj (fun k => starRingEnd ℂ c * sc 2 * η ^ (m * k)),
    ← Finset.mul_sum, hR.vanish m hm hmh, mul_zero]

end gt1

theorem inner_swap (D : ℕ) (x y : ℕ → ℂ) : inner D x y = starRingEnd ℂ (inner D y x) := by
  unfold inner; rw [map_sum]
  refine Finset.sum_congr rfl fun t _ => by rw [map_mul, Complex.conj_conj, mul_comm]

theorem orthonormal_of_le {m D : ℕ} {w : ℕ → ℕ → ℂ}
    (H : ∀ a b, a ≤ b → b < m → inner D (w a) (w b) = if a = b then 1 else 0) : Orthonormal m D w := by
  intro a ha b hb
  rcases le_total a b with hab | hab
  · exact H a b hab hb
  · rw [inner_swap, H b a hab ha]
    by_cases e : a = b
    · simp [e]
    · rw [if_neg e, if_neg (fun h => e h.symm), map_zero]

theorem inner_const_const (D : ℕ) (c : ℂ) (hc : starRingEnd ℂ c = c) (h1 : c * c * (D : ℂ) = 1) :
    inner D (fun _ => c) (fun _ => c) = 1 := by
  unfold inner
  rw [Finset.sum_const, Finset.card_range, nsmul_eq_mul, hc, ← h1]; ring

section gt1b
variable {sc : ℕ → ℂ} {η : ℂ} {h : ℕ}

theorem tile_support_disjoint {h ja jb : ℕ} (ha : ja < 2 * h) (hb : jb < 2 * h) :
    ¬ ((ja + 2 * h - jb) % (2 * h) < h ∧ (jb + 2 * h - (ja + 1) % (2 * h)) % (2 * h) < h) := by
  have e1 : (ja + 1) % (2 * h) = if ja + 1 < 2 * h then ja + 1 else 0 := by
    split
    · exact Nat.mod_eq_of_lt ‹_›
    · have : ja + 1 = 2 * h := by omega
      rw [this, Nat.mod_self]
  have hlt : (ja + 1) % (2 * h) < 2 * h := Nat.mod_lt _ (by omega)
  rw [rot_eq ha hb, rot_eq hb hlt, e1]
  split <;> split <;> split <;> omega

theorem gt1_cross (hR : RootData h η) (hS : ScaleData sc h (2 * h) (2 * h)) {ma mb ja jb : ℕ}
    (ha : ja < 2 * h) (hb : jb < 2 * h) :
    inner (2 * h) (fun i => ev sc η (unitEnt ja i)) (fun i => ev sc η (gt1Tile (2 * h) mb jb i)) *
      inner (2 * h) (fun i => ev sc η (gt1Tile (2 * h) ma ((ja + 1) % (2 * h)) i)) (fun i => ev sc η (unitEnt jb i)) = 0 := by
  rw [inner_unit_left hS.one η ha, inner_unit_right hS.one η hb, ev_gt1Tile hR, ev_gt1Tile hR]
  have := tile_support_disjoint ha hb
  by_cases c1 : (ja + 2 * h - jb) % (2 * h) < h
  · have c2 : ¬ (jb + 2 * h - (ja + 1) % (2 * h)) % (2 * h) < h := fun c2 => this ⟨c1, c2⟩
    rw [if_neg c2, map_zero, mul_zero]
  · rw [if_neg c1, zero_mul]

theorem gt1_cross' (hR : RootData h η) (hS : ScaleData sc h (2 * h) (2 * h)) {ma mb ja jb : ℕ}
    (ha : ja < 2 * h) (hb : jb < 2 * h) :
    inner (2 * h) (fun i => ev sc η (gt1Tile (2 * h) ma ja i)) (fun i => ev sc η (unitEnt jb i)) *
      inner (2 * h) (fun i => ev sc η (unitEnt ja i)) (fun i => ev sc η (gt1Tile (2 * h) mb ((jb + 1) % (2 * h)) i)) = 0 := by
  rw [inner_unit_left hS.one η ha, inner_unit_right hS.one η hb, ev_gt1Tile hR, ev_gt1Tile hR]
  have := tile_support_disjoint hb ha
  by_cases c1 : (jb + 2 * h - ja) % (2 * h) < h
  · have c2 : ¬ (ja + 2 * h - (jb + 1) % (2 * h)) % (2 * h) < h := fun c2 => this ⟨c1, c2⟩
    rw [if_neg c2, mul_zero]
  · rw [if_neg c1, map_zero, zero_mul]

theorem inner_unit_unit (hS : ScaleData sc h (2 * h) (2 * h)) {ja jb : ℕ} (ha : ja < 2 * h) :
    inner (2 * h) (fun i => ev sc η (unitEnt ja i)) (fun i => ev sc η (unitEnt jb i)) = if ja = jb then 1 else 0 := by
  rw [inner_unit_left hS.one η ha, ev_unit hS.one]

/-- decoding of the GenTiles1 index `a = ((m-1)·d + j)·2 + s` -/
theorem gt1_index {d a b : ℕ} (hm : a / (2 * d) + 1 = b / (2 * d) + 1) (hj : a % (2 * d) / 2 = b % (2 * d) / 2)
    (hs : a % 2 = b % 2) : a = b := by
  have ea := Nat.mod_mod_of_dvd a (Dvd.intro d rfl : 2 ∣ 2 * d)
  have eb := Nat.mod_mod_of_dvd b (Dvd.intro d rfl : 2 ∣ 2 * d)
  have hr : a % (2 * d) = b % (2 * d) := by omega
  have hq : a / (2 * d) = b / (2 * d) := by omega
  rw [← Nat.div_add_mod a (2 * d), ← Nat.div_add_mod b (2 * d), hr, hq]

/-- **GenTiles1 is an orthonormal product family**, for every even `d = 2h ≥ 4`, in any scalars satisfying the
root-of-unity relations `RootData` (order `h`) and the scale relations `ScaleData`. -/
theorem gt1_orthonormal (hR : RootData h η) (hS : ScaleData sc h (2 * h) (2 * h)) (hh : 2 ≤ h) :
    Orthonormal (gt1Count (2 * h)) (2 * h * (2 * h))
      (prodVec (2 * h) (fun a i => ev sc η (gt1A (2 * h) a i)) (fun a i => ev sc η (gt1B (2 * h) a i))) := by
  have hpos : 0 < h := by omega
  have hd : 0 < 2 * h := by omega
  have hh2 : 2 * h / 2 = h := by omega
  apply orthonormal_of_le
  intro a b hab hb
  rw [inner_prodVec (2 * h) (2 * h) hd]
  unfold gt1Count at hb
  rw [hh2] at hb
  -- bounds on the decoded indices
  have dec : ∀ c, c < (h - 1) * (2 * (2 * h)) →
      0 < c / (2 * (2 * h)) + 1 ∧ c / (2 * (2 * h)) + 1 < h ∧ c % (2 * (2 * h)) / 2 < 2 * h := by
    intro c hc
    have h1 : c / (2 * (2 * h)) < h - 1 := (Nat.div_lt_iff_lt_mul (by omega)).2 hc
    have h2 : c % (2 * (2 * h)) < 2 * (2 * h) := Nat.mod_lt _ (by omega)
    generalize c / (2 * (2 * h)) = q at *
    generalize c % (2 * (2 * h)) = r at *
    omega
  have hjm : ∀ j, j < 2 * h → (j + 1) % (2 * h) < 2 * h := fun j _ => Nat.mod_lt _ hd
  simp only [gt1A, gt1B, hh2]
  by_cases hbT : b < (h - 1) * (2 * (2 * h))
  · have haT : a < (h - 1) * (2 * (2 * h)) := by omega
    obtain ⟨ma0, mah, jad⟩ := dec a haT
    obtain ⟨mb0, mbh, jbd⟩ := dec b hbT
    simp only [if_pos haT, if_pos hbT]
    by_cases sa : a % 2 = 0 <;> by_cases sb : b % 2 = 0
    · simp only [if_pos sa, if_pos sb]
      rw [inner_unit_unit hS jad]
      by_cases ej : a % (2 * (2 * h)) / 2 = b % (2 * (2 * h)) / 2
      · rw [if_pos ej, ej, inner_tile_tile hR hS ma0 mah mb0 mbh (hjm _ jbd), one_mul]
        by_cases em : a / (2 * (2 * h)) + 1 = b / (2 * (2 * h)) + 1
        · rw [if_pos em, if_pos (gt1_index em ej (by omega))]
        · rw [if_neg em, if_neg (fun e => em (by rw [e]))]
      · rw [if_neg ej, zero_mul, if_neg (fun e => ej (by rw [e]))]
    · simp only [if_pos sa, if_neg sb]
      rw [gt1_cross hR hS jad jbd, if_neg (fun e => sb (by rw [← e]; exact sa))]
    · simp only [if_neg sa, if_pos sb]
      rw [gt1_cross' hR hS jad jbd, if_neg (fun e => sa (by rw [e]; exact sb))]
    · simp only [if_neg sa, if_neg sb]
      rw [inner_unit_unit hS jad]
      by_cases ej : a % (2 * (2 * h)) / 2 = b % (2 * (2 * h)) / 2
      · rw [if_pos ej, ej, inner_tile_tile hR hS ma0 mah mb0 mbh jbd, mul_one]
        by_cases em : a / (2 * (2 * h)) + 1 = b / (2 * (2 * h)) + 1
        · rw [if_pos em, if_pos (gt1_index em ej (by omega))]
        · rw [if_neg em, if_neg (fun e => em (by rw [e]))]
      · rw [if_neg ej, mul_zero, if_neg (fun e => ej (by rw [e]))]
  · have hbE : b = (h - 1) * (2 * (2 * h)) := by omega
    by_cases haT : a < (h - 1) * (2 * (2 * h))
    · obtain ⟨ma0, mah, jad⟩ := dec a haT
      simp only [if_pos haT, if_neg hbT]
      rw [if_neg (by omega)]
      by_cases sa : a % 2 = 0
      · simp only [if_pos sa]
        rw [inner_swap (2 * h) (fun i => ev sc η (gt1Tile _ _ _ i)),
          inner_const_tile hR _ ma0 mah (hjm _ jad), map_zero, mul_zero]
      · simp only [if_neg sa]
        rw [inner_swap (2 * h) (fun i => ev sc η (gt1Tile _ _ _ i)),
          inner_const_tile hR _ ma0 mah jad, map_zero, zero_mul]
    · have haE : a = b := by omega
      simp only [if_neg haT, if_neg hbT]
      rw [if_pos haE]
      have e3 : ev sc η ⟨3, false, 0⟩ = sc 3 := by simp [ev, RootEnt.eval]
      have e5 : ev sc η ⟨5, false, 0⟩ = sc 5 := by simp [ev, RootEnt.eval]
      simp only [e3, e5]
      rw [inner_const_const _ _ (hS.real 3) (by exact_mod_cast hS.stopA),
        inner_const_const _ _ (hS.real 5) (by exact_mod_cast hS.stopB), one_mul]

end gt1b



theorem sum_conj_pow {N : ℕ} {ζ : ℂ} (hR : RootData N ζ) {l l' : ℕ} (hl : l < N) (hl' : l' < N) :
    ∑ a ∈ range N, starRingEnd ℂ (ζ ^ (l * a)) * ζ ^ (l' * a) = if l = l' then (N : ℂ) else 0 := by
  by_cases hmm : l = l'
  · subst hmm
    rw [if_pos rfl, Finset.sum_congr rfl (fun k _ => conj_pow_mul_pow hR.unit (l * k))]
    simp
  · rw [if_neg hmm]
    rcases Nat.lt_or_gt_of_ne hmm with hlt | hgt
    · have : ∀ k ∈ range N, starRingEnd ℂ (ζ ^ (l * k)) * ζ ^ (l' * k) = ζ ^ ((l' - l) * k) := by
        intro k _
        rw [conj_pow_mul_pow_le hR.unit (Nat.mul_le_mul_right k (le_of_lt hlt)), Nat.sub_mul]
      rw [Finset.sum_congr rfl this, hR.vanish (l' - l) (by omega) (by omega)]
    · have : ∀ k ∈ range N, starRingEnd ℂ (ζ ^ (l * k)) * ζ ^ (l' * k) = starRingEnd ℂ (ζ ^ ((l - l') * k)) := by
        intro k _
        rw [Nat.sub_mul, ← conj_pow_mul_pow_le hR.unit (Nat.mul_le_mul_right k (le_of_lt hgt)), map_mul,
          Complex.conj_conj, mul_comm]
      rw [Finset.sum_congr rfl this, ← map_sum, hR.vanish (l - l') (by omega) (by omega), map_zero]

theorem succ_mod {a m : ℕ} (ha : a < m) : (a + 1) % m = if a + 1 < m then a + 1 else 0 := by
  split
  · exact Nat.mod_eq_of_lt ‹_›
  · have : a + 1 = m := by omega
    rw [this, Nat.mod_self]

theorem sum_two {m a a' : ℕ} (ha : a < m) (ha' : a' < m) (hne : a ≠ a') (x y : ℂ) :
    ∑ i ∈ range m, (if i = a then x else if i = a' then y else 0) = x + y := by
  have : ∀ i, (if i = a then x else if i = a' then y else 0) = (if i = a then x else 0) + (if i = a' then y else 0) := by
    intro i; by_cases h1 : i = a
    · simp [h1, hne]
    · simp [h1]
  simp only [this, Finset.sum_add_distrib, Finset.sum_ite_eq', mem_range, ha, ha', if_true]

/-! ### GenTiles2 -/
section gt2
variable {sc : ℕ → ℂ} {ζ : ℂ} {m n : ℕ}

/-- the support of `φ_{j,·}` enumerates the exponents `0 … n-3` exactly once -/
theorem sum_phi (hm : 2 ≤ m) (hmn : m ≤ n) {j' : ℕ} (hj' : j' < m) (g : ℕ → ℂ) :
    ∑ i ∈ range n, (if i < m then (if (i + m - j') % m < m - 2 then g ((i + m - j') % m) else 0) else g (i - 2)) =
      ∑ a ∈ range (n - 2), g a := by
  obtain ⟨t, rfl⟩ := Nat.exists_eq_add_of_le hmn
  rw [Finset.sum_range_add]
  have e1 : ∑ i ∈ range m, (if i < m then (if (i + m - j') % m < m - 2 then g ((i + m - j') % m) else 0) else g (i - 2)) =
      ∑ a ∈ range (m - 2), g a := by
    rw [Finset.sum_congr rfl (fun i hi => if_pos (mem_range.1 hi)),
      sum_rot hj' (fun k => if k < m - 2 then g k else 0)]
    have hsplit : ∀ p, ∑ k ∈ range (p + 2), (if k < p then g k else 0) = ∑ k ∈ range p, g k := by
      intro p
      rw [Finset.sum_range_add, Finset.sum_congr rfl (fun x hx => if_pos (mem_range.1 hx)),
        Finset.sum_eq_zero (fun x _ => if_neg (by omega)), add_zero]
    have := hsplit (m - 2)
    rwa [show m - 2 + 2 = m by omega] at this
  have e2 : ∑ x ∈ range t, (if m + x < m then (if (m + x + m - j') % m < m - 2 then g ((m + x + m - j') % m) else 0)
      else g (m + x - 2)) = ∑ x ∈ range t, g (m - 2 + x) := by
    refine Finset.sum_congr rfl (fun x _ => ?_)
    rw [if_neg (by omega)]; congr 1; omega
  rw [e1, e2]
  have : m + t - 2 = (m - 2) + t := by omega
  rw [this, Finset.sum_range_add]

theorem ev_gt2Phi (hR : RootData (n - 2) ζ) (j l i : ℕ) :
    ev sc ζ (gt2Phi m n j l i) =
      if i < m then (if (i + m - (j + 1) % m) % m < m - 2 then sc 2 * ζ ^ (l * ((i + m - (j + 1) % m) % m)) else 0)
      else if i < n then sc 2 * ζ ^ (l * (i - 2)) else 0 := by
  unfold gt2Phi
  simp only
  split
  · split
    · simp [ev, RootEnt.eval, pow_mod_of hR.pow, Nat.mul_comm]
    · exact ev_zero sc ζ
  · split
    · simp [ev, RootEnt.eval, pow_mod_of hR.pow, Nat.mul_comm]
    · exact ev_zero sc ζ

theorem inner_phi_phi (hR : RootData (n - 2) ζ) (hS : ScaleData sc (n - 2) m n) (hm : 2 ≤ m) (hmn : m ≤ n)
    {j l l' : ℕ} (hl : l < n - 2) (hl' : l' < n - 2) :
    inner n (fun i => ev sc ζ (gt2Phi m n j l i)) (fun i => ev sc ζ (gt2Phi m n j l' i)) = if l = l' then 1 else 0 := by
  unfold inner
  have hj' : (j + 1) % m < m := Nat.mod_lt _ (by omega)
  have e : ∀ i ∈ range n, starRingEnd ℂ (ev sc ζ (gt2Phi m n j l i)) * ev sc ζ (gt2Phi m n j l' i) =
      if i < m then (if (i + m - (j + 1) % m) % m < m - 2 then
        (fun a => sc 2 * sc 2 * (starRingEnd ℂ (ζ ^ (l * a)) * ζ ^ (l' * a))) ((i + m - (j + 1) % m) % m) else 0)
      else (fun a => sc 2 * sc 2 * (starRingEnd ℂ (ζ ^ (l * a)) * ζ ^ (l' * a))) (i - 2) := by
    intro i hi
    rw [ev_gt2Phi hR, ev_gt2Phi hR]
    split
    · split
      · simp only [map_mul, hS.real]; ring
      · simp
    · rw [if_pos (mem_range.1 hi), if_pos (mem_range.1 hi)]
      simp only [map_mul, hS.real]; ring
  rw [Finset.sum_congr rfl e,
    sum_phi hm hmn hj' (fun a => sc 2 * sc 2 * (starRingEnd ℂ (ζ ^ (l * a)) * ζ ^ (l' * a))), ← Finset.mul_sum,
    sum_conj_pow hR hl hl']
  by_cases h : l = l'
  · rw [if_pos h, if_pos h]; exact hS.tile
  · rw [if_neg h, if_neg h, mul_zero]

theorem inner_const_phi (hR : RootData (n - 2) ζ) (hm : 2 ≤ m) (hmn : m ≤ n) (c : ℂ)
    {j l : ℕ} (hl0 : 0 < l) (hl : l < n - 2) :
    inner n (fun _ => c) (fun i => ev sc ζ (gt2Phi m n j l i)) = 0 := by
  unfold inner
  have hj' : (j + 1) % m < m := Nat.mod_lt _ (by omega)
  have e : ∀ i ∈ range n, starRingEnd ℂ c * ev sc ζ (gt2Phi m n j l i) =
      if i < m then (if (i + m - (j + 1) % m) % m < m - 2 then
        (fun a => starRingEnd ℂ c * sc 2 * ζ ^ (l * a)) ((i + m - (j + 1) % m) % m) else 0)
      else (fun a => starRingEnd ℂ c * sc 2 * ζ ^ (l * a)) (i - 2) := by
    intro i hi
    rw [ev_gt2Phi hR]
    split
    · split
      · ring
      · simp
    · rw [if_pos (mem_range.1 hi)]; ring
  rw [Finset.sum_congr rfl e, sum_phi hm hmn hj' (fun a => starRingEnd ℂ c * sc 2 * ζ ^ (l * a)), ← Finset.mul_sum,
    hR.vanish l hl0 hl, mul_zero]

/-- the party-A difference vector `(e_a − e_{a+1})/√2` -/
theorem ev_gt2A0 {a : ℕ} (ha : a < m) (i : ℕ) :
    ev sc ζ (gt2A m n a i) = if i = a then sc 4 else if i = (a + 1) % m then -sc 4 else 0 := by
  unfold gt2A
  rw [if_pos ha]
  split
  · simp [ev, RootEnt.eval]
  · split
    · simp [ev, RootEnt.eval]
    · exact ev_zero sc ζ

theorem succ_mod_ne {a m : ℕ} (hm : 2 ≤ m) (ha : a < m) : a ≠ (a + 1) % m := by
  rw [succ_mod ha]; split <;> omega

theorem inner_diff_self (hS : ScaleData sc (n - 2) m n) (hm : 2 ≤ m) {a : ℕ} (ha : a < m) :
    inner m (fun i => ev sc ζ (gt2A m n a i)) (fun i => ev sc ζ (gt2A m n a i)) = 1 := by
  unfold inner
  have e : ∀ i ∈ range m, starRingEnd ℂ (ev sc ζ (gt2A m n a i)) * ev sc ζ (gt2A m n a i) =
      if i = a then sc 4 * sc 4 else if i = (a + 1) % m then sc 4 * sc 4 else 0 := by
    intro i _
    rw [ev_gt2A0 ha]
    split
    · rw [hS.real]
    · split
      · rw [map_neg, hS.real]; ring
      · simp
  rw [Finset.sum_congr rfl e, sum_two ha (Nat.mod_lt _ (by omega)) (succ_mod_ne hm ha), ← hS.half]; ring

theorem inner_diff_const (hS : ScaleData sc (n - 2) m n) (hm : 2 ≤ m) {a : ℕ} (ha : a < m) (c : ℂ) :
    inner m (fun i => ev sc ζ (gt2A m n a i)) (fun _ => c) = 0 := by
  unfold inner
  have e : ∀ i ∈ range m, starRingEnd ℂ (ev sc ζ (gt2A m n a i)) * c =
      if i = a then sc 4 * c else if i = (a + 1) % m then -(sc 4 * c) else 0 := by
    intro i _
    rw [ev_gt2A0 ha]
    split
    · rw [hS.real]
    · split
      · rw [map_neg, hS.real]; ring
      · simp
  rw [Finset.sum_congr rfl e, sum_two ha (Nat.mod_lt _ (by omega)) (succ_mod_ne hm ha)]; ring

theorem phi_zero_at (hm : 2 ≤ m) {a j : ℕ} (ha : a < m) (hj : j < m) (h : j = a ∨ j = (a + 1) % m) :
    ¬ (a + m - (j + 1) % m) % m < m - 2 := by
  have hj' : (j + 1) % m < m := Nat.mod_lt _ (by omega)
  rw [rot_eq ha hj', succ_mod hj]
  rw [succ_mod ha] at h
  split <;> split <;> split at h <;> omega

theorem gt2_cross (hR : RootData (n - 2) ζ) (hS : ScaleData sc (n - 2) m n) (hm : 2 ≤ m) (hmn : m ≤ n)
    {a j l : ℕ} (ha : a < m) (hj : j < m) :
    inner m (fun i => ev sc ζ (gt2A m n a i)) (fun i => ev sc ζ (unitEnt j i)) *
      inner n (fun i => ev sc ζ (unitEnt a i)) (fun i => ev sc ζ (gt2Phi m n j l i)) = 0 := by
  rw [inner_unit_right hS.one ζ hj, inner_unit_left hS.one ζ (by omega : a < n), ev_gt2A0 ha, ev_gt2Phi hR, if_pos ha]
  by_cases h : j = a ∨ j = (a + 1) % m
  · rw [if_neg (phi_zero_at hm ha hj h), mul_zero]
  · rw [if_neg (fun e => h (Or.inl e)), if_neg (fun e => h (Or.inr e)), map_zero, zero_mul]

theorem gt2_index {L a b : ℕ} (hj : a / L = b / L) (hl : a % L + 1 = b % L + 1) : a = b := by
  rw [← Nat.div_add_mod a L, ← Nat.div_add_mod b L, hj, Nat.add_right_cancel hl]

/-- **GenTiles2 is an orthonormal product family**, for every `3 ≤ m ≤ n`, `4 ≤ n`. -/
theorem gt2_orthonormal (hR : RootData (n - 2) ζ) (hS : ScaleData sc (n - 2) m n) (hm : 3 ≤ m) (hmn : m ≤ n) (hn : 4 ≤ n) :
    Orthonormal (gt2Count m n) (m * n)
      (prodVec n (fun a i => ev sc ζ (gt2A m n a i)) (fun a i => ev sc ζ (gt2B m n a i))) := by
  have hm2 : 2 ≤ m := by omega
  have hnpos : 0 < n := by omega
  have hL : 0 < n - 3 := by omega
  apply orthonormal_of_le
  intro a b hab hb
  rw [inner_prodVec m n hnpos]
  unfold gt2Count at hb
  have dec : ∀ c, m ≤ c → c < m + m * (n - 3) →
      (c - m) / (n - 3) < m ∧ 0 < (c - m) % (n - 3) + 1 ∧ (c - m) % (n - 3) + 1 < n - 2 := by
    intro c h1 h2
    have h3 : (c - m) / (n - 3) < m := (Nat.div_lt_iff_lt_mul hL).2 (by omega)
    have h4 : (c - m) % (n - 3) < n - 3 := Nat.mod_lt _ hL
    generalize (c - m) / (n - 3) = q at *
    generalize (c - m) % (n - 3) = r at *
    omega
  have e3 : ev sc ζ ⟨3, false, 0⟩ = sc 3 := by simp [ev, RootEnt.eval]
  have e5 : ev sc ζ ⟨5, false, 0⟩ = sc 5 := by simp [ev, RootEnt.eval]
  have uB : ∀ c, c < m → (fun i => ev sc ζ (gt2B m n c i)) = fun i => ev sc ζ (unitEnt c i) := by
    intro c hc; funext i; simp only [gt2B, if_pos hc]
  have pB : ∀ c, m ≤ c → c < m + m * (n - 3) → (fun i => ev sc ζ (gt2B m n c i)) =
      fun i => ev sc ζ (gt2Phi m n ((c - m) / (n - 3)) ((c - m) % (n - 3) + 1) i) := by
    intro c h1 h2; funext i; simp only [gt2B, if_neg (not_lt.2 h1), if_pos h2]
  have pA : ∀ c, m ≤ c → c < m + m * (n - 3) → (fun i => ev sc ζ (gt2A m n c i)) =
      fun i => ev sc ζ (unitEnt ((c - m) / (n - 3)) i) := by
    intro c h1 h2; funext i; simp only [gt2A, if_neg (not_lt.2 h1), if_pos h2]
  have sA : ∀ c, ¬ c < m + m * (n - 3) → (fun i => ev sc ζ (gt2A m n c i)) = fun _ => sc 3 := by
    intro c h2; funext i; simp only [gt2A, if_neg (show ¬ c < m by omega), if_neg h2, e3]
  have sB : ∀ c, ¬ c < m + m * (n - 3) → (fun i => ev sc ζ (gt2B m n c i)) = fun _ => sc 5 := by
    intro c h2; funext i; simp only [gt2B, if_neg (show ¬ c < m by omega), if_neg h2, e5]
  by_cases hb0 : b < m
  · have ha0 : a < m := by omega
    rw [uB a ha0, uB b hb0, inner_unit_left hS.one ζ (by omega : a < n), ev_unit hS.one]
    by_cases e : a = b
    · subst e; rw [inner_diff_self hS hm2 ha0, if_pos rfl, one_mul]
    · rw [if_neg e, mul_zero]
  · by_cases hb1 : b < m + m * (n - 3)
    · obtain ⟨jb, lb0, lbN⟩ := dec b (by omega) hb1
      by_cases ha0 : a < m
      · rw [uB a ha0, pB b (by omega) hb1, pA b (by omega) hb1, gt2_cross hR hS hm2 hmn ha0 jb,
          if_neg (by omega)]
      · obtain ⟨ja, la0, laN⟩ := dec a (by omega) (by omega)
        rw [pA a (by omega) (by omega), pA b (by omega) hb1, pB a (by omega) (by omega), pB b (by omega) hb1,
          inner_unit_left hS.one ζ ja, ev_unit hS.one]
        by_cases ej : (a - m) / (n - 3) = (b - m) / (n - 3)
        · rw [if_pos ej, ej, inner_phi_phi hR hS hm2 hmn laN lbN, one_mul]
          by_cases el : (a - m) % (n - 3) + 1 = (b - m) % (n - 3) + 1
          · have := gt2_index ej el
            rw [if_pos el, if_pos (by omega)]
          · rw [if_neg el, if_neg (fun e => el (by rw [e]))]
        · rw [if_neg ej, zero_mul, if_neg (fun e => ej (by rw [e]))]
    · rw [sA b hb1, sB b hb1]
      by_cases ha0 : a < m
      · rw [inner_diff_const hS hm2 ha0, zero_mul, if_neg (by omega)]
      · by_cases ha1 : a < m + m * (n - 3)
        · obtain ⟨ja, la0, laN⟩ := dec a (by omega) ha1
          rw [pB a (by omega) ha1, inner_swap n, inner_const_phi hR hm2 hmn _ la0 laN, map_zero, mul_zero,
            if_neg (by omega)]
        · rw [sA a ha1, sB a ha1, inner_const_const _ _ (hS.real 3) hS.stopA,
            inner_const_const _ _ (hS.real 5) hS.stopB, one_mul, if_pos (by omega)]

end gt2

section


section quadres
variable {p : ℕ} [hp : Fact p.Prime] {ω : ℂ}

/-- the additive character `x ↦ ω^x` of `ℤ/p` -/
noncomputable def chi (ω : ℂ) (x : ZMod p) : ℂ := ω ^ x.val

theorem chi_natCast (hω : ω ^ p = 1) (k : ℕ) : chi ω (k : ZMod p) = ω ^ k := by
  unfold chi; rw [ZMod.val_natCast, pow_mod_of hω]

theorem chi_add (hω : ω ^ p = 1) (x y : ZMod p) : chi ω (x + y) = chi ω x * chi ω y := by
  unfold chi; rw [ZMod.val_add, pow_mod_of hω, pow_add]

theorem chi_zero : chi ω (0 : ZMod p) = 1 := by unfold chi; rw [ZMod.val_zero, pow_zero]

theorem conj_chi (hR : RootData p ω) (x : ZMod p) : starRingEnd ℂ (chi ω x) = chi ω (-x) := by
  have h1 : starRingEnd ℂ (chi ω x) * chi ω x = 1 := conj_pow_mul_pow hR.unit _
  have h2 : chi ω (-x) * chi ω x = 1 := by rw [← chi_add hR.pow, neg_add_cancel, chi_zero]
  have hne : chi ω x ≠ 0 := fun h => by rw [h, mul_zero] at h1; exact zero_ne_one h1
  exact mul_right_cancel₀ hne (h1.trans h2.symm)

theorem sum_chi_univ (hR : RootData p ω) (hp1 : 1 < p) : ∑ x : ZMod p, chi ω x = 0 := by
  have h := hR.vanish 1 Nat.one_pos hp1
  simp only [one_mul] at h
  rw [← h]
  symm
  apply Finset.sum_bij (fun (k : ℕ) _ => (k : ZMod p))
  · intro k _; exact mem_univ _
  · intro a ha b hb hab
    have := (ZMod.natCast_eq_natCast_iff' a b p).1 hab
    rwa [Nat.mod_eq_of_lt (mem_range.1 ha), Nat.mod_eq_of_lt (mem_range.1 hb)] at this
  · intro y _
    exact ⟨y.val, mem_range.2 (ZMod.val_lt y), ZMod.natCast_zmod_val y⟩
  · intro k _; rw [chi_natCast hR.pow]

/-- nonzero squares / nonsquares of `ℤ/p` -/
noncomputable def Qset (p : ℕ) [Fact p.Prime] : Finset (ZMod p) := univ.filter fun x => x ≠ 0 ∧ IsSquare x
noncomputable def Nset (p : ℕ) [Fact p.Prime] : Finset (ZMod p) := univ.filter fun x => x ≠ 0 ∧ ¬ IsSquare x

/-- the character sum over the squares, twisted by `c` -/
noncomputable def G (ω : ℂ) (c : ZMod p) : ℂ := ∑ q ∈ Qset p, chi ω (c * q)

theorem G_of_isSquare {c : ZMod p} (hc : c ≠ 0) (hs : IsSquare c) : G ω c = G ω (1 : ZMod p) := by
  unfold G
  simp only [one_mul]
  apply Finset.sum_bij' (fun q _ => c * q) (fun q _ => c⁻¹ * q)
  · intro q hq
    simp only [Qset, mem_filter, mem_univ, true_and] at hq ⊢
    exact ⟨mul_ne_zero hc hq.1, hs.mul hq.2⟩
  · intro q hq
    simp only [Qset, mem_filter, mem_univ, true_and] at hq ⊢
    exact ⟨mul_ne_zero (inv_ne_zero hc) hq.1, hs.inv.mul hq.2⟩
  · intro q _; rw [← mul_assoc, inv_mul_cancel₀ hc, one_mul]
  · intro q _; rw [← mul_assoc, mul_inv_cancel₀ hc, one_mul]
  · intro q _; rfl

theorem not_isSquare_mul {c t : ZMod p} (ht : t ≠ 0) (hs : IsSquare t) (hc : ¬ IsSquare c) : ¬ IsSquare (c * t) := by
  intro h
  apply hc
  have : c = c * t * t⁻¹ := by rw [mul_assoc, mul_inv_cancel₀ ht, mul_one]
  rw [this]; exact h.mul hs.inv

theorem isSquare_mul_of_not (hp2 : p ≠ 2) {c t : ZMod p} (hc : ¬ IsSquare c) (ht : ¬ IsSquare t) : IsSquare (c * t) := by
  have hchar : ringChar (ZMod p) ≠ 2 := by rw [ZMod.ringChar_zmod_n]; exact hp2
  have hc0 : c ≠ 0 := fun h => hc (h ▸ IsSquare.zero)
  have ht0 : t ≠ 0 := fun h => ht (h ▸ IsSquare.zero)
  rw [← quadraticChar_one_iff_isSquare (mul_ne_zero hc0 ht0), map_mul,
    (quadraticChar_neg_one_iff_not_isSquare).2 hc, (quadraticChar_neg_one_iff_not_isSquare).2 ht]
  norm_num

/-- multiplication by a non-square maps the non-zero squares bijectively onto the non-squares -/
theorem sum_Qset_mul_nonsq (hp2 : p ≠ 2) (F : ZMod p → ℂ) {c : ZMod p} (hs : ¬ IsSquare c) :
    ∑ q ∈ Qset p, F (c * q) = ∑ x ∈ Nset p, F x := by
  have hc : c ≠ 0 := fun h => hs (h ▸ IsSquare.zero)
  apply Finset.sum_bij' (fun q _ => c * q) (fun q _ => c⁻¹ * q)
  · intro q hq
    simp only [Qset, Nset, mem_filter, mem_univ, true_and] at hq ⊢
    exact ⟨mul_ne_zero hc hq.1, not_isSquare_mul hq.1 hq.2 hs⟩
  · intro q hq
    simp only [Qset, Nset, mem_filter, mem_univ, true_and] at hq ⊢
    refine ⟨mul_ne_zero (inv_ne_zero hc) hq.1, isSquare_mul_of_not hp2 (fun h => hs ?_) hq.2⟩
    have := h.inv; rwa [inv_inv] at this
  · intro q _; rw [← mul_assoc, inv_mul_cancel₀ hc, one_mul]
  · intro q _; rw [← mul_assoc, mul_inv_cancel₀ hc, one_mul]
  · intro q _; rfl

theorem G_of_not_isSquare (hp2 : p ≠ 2) {c : ZMod p} (hs : ¬ IsSquare c) : G ω c = ∑ x ∈ Nset p, chi ω x :=
  sum_Qset_mul_nonsq hp2 (chi ω) hs

/-- `ℤ/p = {0} ⊔ squares ⊔ non-squares` -/
theorem sum_split (F : ZMod p → ℂ) : ∑ x : ZMod p, F x = F 0 + (∑ x ∈ Qset p, F x + ∑ x ∈ Nset p, F x) := by
  rw [← Finset.sum_filter_add_sum_filter_not univ (fun x : ZMod p => x = 0)]
  have e0 : ∑ x ∈ univ.filter (fun x : ZMod p => x = 0), F x = F 0 := by
    rw [Finset.filter_eq' univ (0 : ZMod p), if_pos (mem_univ _), Finset.sum_singleton]
  rw [e0, ← Finset.sum_filter_add_sum_filter_not (univ.filter fun x : ZMod p => ¬ x = 0) (fun x : ZMod p => IsSquare x),
    Finset.filter_filter, Finset.filter_filter]
  rfl

theorem sum_Nset (hR : RootData p ω) (hp1 : 1 < p) : ∑ x ∈ Nset p, chi ω x = -1 - G ω (1 : ZMod p) := by
  have h0 := sum_chi_univ hR hp1
  rw [sum_split, chi_zero] at h0
  have eG : G ω (1 : ZMod p) = ∑ x ∈ Qset p, chi ω x := by unfold G; simp only [one_mul]
  rw [eG]
  linear_combination h0

/-- there are `(p-1)/2` non-zero squares -/
theorem card_Qset (hp2 : p ≠ 2) : 2 * (Qset p).card + 1 = p := by
  have hchar : ringChar (ZMod p) ≠ 2 := by rw [ZMod.ringChar_zmod_n]; exact hp2
  obtain ⟨a, ha⟩ := FiniteField.exists_nonsquare hchar
  have h1 := sum_split (p := p) (fun _ => (1 : ℂ))
  have h2 := sum_Qset_mul_nonsq hp2 (fun _ => (1 : ℂ)) ha
  simp only [Finset.sum_const, Finset.card_univ, ZMod.card, nsmul_eq_mul, mul_one] at h1 h2
  have : ((2 * (Qset p).card + 1 : ℕ) : ℂ) = (p : ℂ) := by
    push_cast; rw [h1, ← h2]; ring
  exact_mod_cast this

/-- the key vanishing: for `t ≠ 0` and a non-square `s`, `(N + G(t)) (N + G(s t)) = (N + σ)(N − 1 − σ)` -/
theorem G_product (hR : RootData p ω) (hp2 : p ≠ 2) {s t : ZMod p} (hs : ¬ IsSquare s) (ht : t ≠ 0) (Nc : ℂ)
    (hN : Nc = - G ω (1 : ZMod p) ∨ Nc = 1 + G ω (1 : ZMod p)) :
    (Nc + G ω t) * (Nc + G ω (s * t)) = 0 := by
  have hp1 : 1 < p := hp.out.one_lt
  by_cases hsq : IsSquare t
  · rw [G_of_isSquare ht hsq, G_of_not_isSquare hp2 (not_isSquare_mul ht hsq hs), sum_Nset hR hp1]
    rcases hN with h | h <;> rw [h] <;> ring
  · have hs0 : s ≠ 0 := fun h => hs (h ▸ IsSquare.zero)
    rw [G_of_not_isSquare hp2 hsq, G_of_isSquare (mul_ne_zero hs0 ht) (isSquare_mul_of_not hp2 hs hsq), sum_Nset hR hp1]
    rcases hN with h | h <;> rw [h] <;> ring

/-! #### the executed lists `quadResidues p`, `firstNonResidue p` -/

theorem mem_quadResidues {x : ℕ} :
    x ∈ quadResidues p ↔ x < p ∧ x ≠ 0 ∧ IsSquare (x : ZMod p) := by
  have hp1 : 1 < p := hp.out.one_lt
  simp only [quadResidues, List.mem_filter, List.mem_range, Bool.and_eq_true, decide_eq_true_eq, List.any_eq_true,
    beq_iff_eq, ne_eq]
  constructor
  · rintro ⟨hx, hx0, k, _, _, hk⟩
    refine ⟨hx, hx0, (k : ZMod p), ?_⟩
    rw [← hk, ZMod.natCast_mod, Nat.cast_mul]
  · rintro ⟨hx, hx0, y, hy⟩
    refine ⟨hx, hx0, ?_⟩
    have hy0 : y ≠ 0 := by
      rintro rfl
      rw [mul_zero] at hy
      have := (ZMod.natCast_eq_zero_iff x p).1 hy
      exact hx0 (Nat.eq_zero_of_dvd_of_lt this hx)
    have hv : y.val < p := ZMod.val_lt y
    have hv0 : y.val ≠ 0 := fun h => hy0 ((ZMod.val_eq_zero y).1 h)
    have key : ∀ k : ℕ, ((k : ZMod p) = y ∨ (k : ZMod p) = -y) → k * k % p = x := by
      intro k hk
      have : ((k * k : ℕ) : ZMod p) = (x : ZMod p) := by
        rw [Nat.cast_mul, hy]; rcases hk with h | h <;> rw [h]; ring
      have := (ZMod.natCast_eq_natCast_iff' _ _ p).1 this
      rwa [Nat.mod_eq_of_lt hx] at this
    by_cases hle : y.val ≤ p / 2
    · exact ⟨y.val, by omega, hv0, key _ (Or.inl (ZMod.natCast_zmod_val y))⟩
    · refine ⟨p - y.val, by omega, by omega, key _ (Or.inr ?_)⟩
      rw [Nat.cast_sub (le_of_lt hv), ZMod.natCast_self, ZMod.natCast_zmod_val, zero_sub]

theorem quadResidues_nodup (p : ℕ) : (quadResidues p).Nodup := List.Nodup.filter _ List.nodup_range

theorem firstNonResidue_spec (hp2 : p ≠ 2) :
    firstNonResidue p < p ∧ ¬ IsSquare ((firstNonResidue p : ℕ) : ZMod p) := by
  have hchar : ringChar (ZMod p) ≠ 2 := by rw [ZMod.ringChar_zmod_n]; exact hp2
  obtain ⟨a, ha⟩ := FiniteField.exists_nonsquare hchar
  have ha0 : a ≠ 0 := fun h => ha (h ▸ IsSquare.zero)
  have hex : ∃ x ∈ List.range p, (decide (x ≠ 0) && !(quadResidues p).contains x) = true := by
    refine ⟨a.val, List.mem_range.2 (ZMod.val_lt a), ?_⟩
    simp only [ne_eq, Bool.and_eq_true, decide_eq_true_eq, Bool.not_eq_true', List.contains_eq_mem, decide_eq_false_iff_not]
    refine ⟨fun h => ha0 ((ZMod.val_eq_zero a).1 h), fun hm => ha ?_⟩
    have := (mem_quadResidues.1 hm).2.2
    rwa [ZMod.natCast_zmod_val] at this
  unfold firstNonResidue
  cases hf : (List.range p).find? (fun x => decide (x ≠ 0) && !(quadResidues p).contains x) with
  | none =>
    rw [List.find?_eq_none] at hf
    obtain ⟨x, hx, hpx⟩ := hex
    exact absurd hpx (hf x hx)
  | some x =>
    have h1 := List.find?_some hf
    have h2 := List.mem_of_find?_eq_some hf
    simp only [ne_eq, Bool.and_eq_true, decide_eq_true_eq, Bool.not_eq_true', List.contains_eq_mem,
      decide_eq_false_iff_not] at h1
    rw [Option.getD_some]
    have hxp := List.mem_range.1 h2
    exact ⟨hxp, fun hsq => h1.2 (mem_quadResidues.2 ⟨hxp, h1.1, hsq⟩)⟩

theorem sum_getD (l : List ℕ) (F : ℕ → ℂ) : ∑ i ∈ range l.length, F (l.getD i 0) = (l.map F).sum := by
  induction l with
  | nil => simp
  | cons a l ih =>
    rw [List.length_cons, Finset.sum_range_succ', List.map_cons, List.sum_cons, add_comm]
    congr 1

/-- a sum over the executed residue list is the sum over the non-zero squares of `ℤ/p` -/
theorem sum_quadResidues (F : ZMod p → ℂ) :
    ∑ i ∈ range (quadResidues p).length, F (((quadResidues p).getD i 0 : ℕ) : ZMod p) = ∑ q ∈ Qset p, F q := by
  rw [sum_getD (quadResidues p) (fun x => F (x : ZMod p)), ← List.sum_toFinset _ (quadResidues_nodup p)]
  apply Finset.sum_bij (fun (x : ℕ) _ => (x : ZMod p))
  · intro x hx
    have := mem_quadResidues.1 (List.mem_toFinset.1 hx)
    simp only [Qset, mem_filter, mem_univ, true_and]
    refine ⟨fun h => this.2.1 ?_, this.2.2⟩
    exact Nat.eq_zero_of_dvd_of_lt ((ZMod.natCast_eq_zero_iff x p).1 h) this.1
  · intro a ha b hb hab
    have h1 := (mem_quadResidues.1 (List.mem_toFinset.1 ha)).1
    have h2 := (mem_quadResidues.1 (List.mem_toFinset.1 hb)).1
    have := (ZMod.natCast_eq_natCast_iff' a b p).1 hab
    rwa [Nat.mod_eq_of_lt h1, Nat.mod_eq_of_lt h2] at this
  · intro y hy
    simp only [Qset, mem_filter, mem_univ, true_and] at hy
    refine ⟨y.val, List.mem_toFinset.2 (mem_quadResidues.2 ⟨ZMod.val_lt y, fun h => hy.1 ((ZMod.val_eq_zero y).1 h), ?_⟩),
      ZMod.natCast_zmod_val y⟩
    rw [ZMod.natCast_zmod_val]; exact hy.2
  · intro x _; rfl

theorem quadResidues_length (hp2 : p ≠ 2) : 2 * (quadResidues p).length + 1 = p := by
  have h := sum_quadResidues (p := p) (fun _ => (1 : ℂ))
  simp only [Finset.sum_const, Finset.card_range, nsmul_eq_mul, mul_one] at h
  have : (quadResidues p).length = (Qset p).card := by exact_mod_cast h
  rw [this]; exact card_Qset hp2

/-- `σ = Σ_{q ∈ quadResidues p} ω^q`, the executed list sum, is the character sum `G 1` -/
theorem sigma_eq_G (hω : ω ^ p = 1) : ((quadResidues p).map (fun q => ω ^ q)).sum = G ω (1 : ZMod p) := by
  rw [← sum_getD, G, ← sum_quadResidues]
  refine Finset.sum_congr rfl (fun i _ => ?_)
  rw [one_mul, chi_natCast hω]

/-- the scale relations of the QuadRes family; `Nc` is the weight `N` of `upb.py:106` -/
structure QuadScale (sc : ℕ → ℂ) (ω : ℂ) (p : ℕ) (Nc : ℂ) : Prop where
  real6 : starRingEnd ℂ (sc 6) = sc 6
  real7 : starRingEnd ℂ (sc 7) = sc 7
  first : sc 6 * sc 6 = Nc * (sc 7 * sc 7)
  norm : sc 7 * sc 7 * (Nc + ((quadResidues p).length : ℂ)) = 1
  choice : Nc = -((quadResidues p).map (fun q => ω ^ q)).sum ∨ Nc = 1 + ((quadResidues p).map (fun q => ω ^ q)).sum

variable {sc : ℕ → ℂ}

/-- the common shape of the two local families: `(√N, ω^{c·q_i·b})_i`, normalised -/
noncomputable def qrVec (sc : ℕ → ℂ) (ω : ℂ) (c : ZMod p) (b i : ℕ) : ℂ :=
  if i = 0 then sc 6 else sc 7 * chi ω (c * (((quadResidues p).getD (i - 1) 0 : ℕ) : ZMod p) * (b : ZMod p))

theorem ev_qrA (hω : ω ^ p = 1) (b i : ℕ) : ev sc ω (qrA p b i) = qrVec sc ω (1 : ZMod p) b i := by
  unfold qrA qrVec
  split
  · simp [ev, RootEnt.eval]
  · simp only [ev, RootEnt.eval]
    rw [if_neg (by decide), if_neg (by decide), pow_mod_of hω, one_mul, ← Nat.cast_mul, chi_natCast hω]

theorem ev_qrB (hω : ω ^ p = 1) (b i : ℕ) :
    ev sc ω (qrB p b i) = qrVec sc ω ((firstNonResidue p : ℕ) : ZMod p) b i := by
  unfold qrB qrVec
  split
  · simp [ev, RootEnt.eval]
  · simp only [ev, RootEnt.eval]
    rw [if_neg (by decide), if_neg (by decide), pow_mod_of hω, ← Nat.cast_mul, ← ZMod.natCast_mod (_ * _) p,
      ← Nat.cast_mul, chi_natCast hω]

theorem inner_qrVec (hR : RootData p ω) {Nc : ℂ} (hS : QuadScale sc ω p Nc) (c : ZMod p) (a b : ℕ) :
    inner ((quadResidues p).length + 1) (qrVec sc ω c a) (qrVec sc ω c b) =
      sc 7 * sc 7 * (Nc + G ω (c * ((b : ZMod p) - (a : ZMod p)))) := by
  unfold inner
  rw [Finset.sum_range_succ']
  have e : ∀ i ∈ range (quadResidues p).length,
      starRingEnd ℂ (qrVec sc ω c a (i + 1)) * qrVec sc ω c b (i + 1) =
        sc 7 * sc 7 * (fun q => chi ω (c * ((b : ZMod p) - (a : ZMod p)) * q))
          (((quadResidues p).getD i 0 : ℕ) : ZMod p) := by
    intro i _
    simp only [qrVec, if_neg (Nat.succ_ne_zero i), Nat.add_sub_cancel, map_mul, hS.real7, conj_chi hR]
    rw [show ∀ x y z w : ℂ, x * y * (z * w) = x * z * (y * w) by intros; ring, ← chi_add hR.pow]
    congr 2; ring
  rw [Finset.sum_congr rfl e, ← Finset.mul_sum,
    sum_quadResidues (fun q => chi ω (c * ((b : ZMod p) - (a : ZMod p)) * q))]
  have z : ∀ x, qrVec sc ω c x 0 = sc 6 := fun x => by simp [qrVec]
  rw [z, z, hS.real6, hS.first, G]
  ring

/-- **QuadRes is an orthonormal product family**: for every odd prime `p` and `dim = (p+1)/2`, in any scalars satisfying the
root-of-unity relations (order `p`) and the scale relations `QuadScale` (in particular `N ∈ {−σ, 1+σ}`). -/
theorem qr_orthonormal (hp2 : p ≠ 2) (hR : RootData p ω) {Nc : ℂ} (hS : QuadScale sc ω p Nc) :
    Orthonormal p (((quadResidues p).length + 1) * ((quadResidues p).length + 1))
      (prodVec ((quadResidues p).length + 1) (fun b i => ev sc ω (qrA p b i)) (fun b i => ev sc ω (qrB p b i))) := by
  intro a ha b hb
  rw [inner_prodVec _ _ (Nat.succ_pos _)]
  simp only [ev_qrA hR.pow, ev_qrB hR.pow]
  rw [show (fun i => qrVec sc ω (1 : ZMod p) a i) = qrVec sc ω (1 : ZMod p) a from rfl,
    show (fun i => qrVec sc ω (1 : ZMod p) b i) = qrVec sc ω (1 : ZMod p) b from rfl,
    show (fun i => qrVec sc ω ((firstNonResidue p : ℕ) : ZMod p) a i) = qrVec sc ω ((firstNonResidue p : ℕ) : ZMod p) a from rfl,
    show (fun i => qrVec sc ω ((firstNonResidue p : ℕ) : ZMod p) b i) = qrVec sc ω ((firstNonResidue p : ℕ) : ZMod p) b from rfl,
    inner_qrVec hR hS, inner_qrVec hR hS, one_mul]
  by_cases hab : a = b
  · subst hab
    have hG0 : G ω (0 : ZMod p) = ((quadResidues p).length : ℂ) := by
      have h := sum_quadResidues (p := p) (fun _ => (1 : ℂ))
      simp only [Finset.sum_const, Finset.card_range, nsmul_eq_mul, mul_one] at h
      unfold G; simp only [zero_mul, chi_zero, Finset.sum_const, nsmul_eq_mul, mul_one]; exact h.symm
    rw [if_pos rfl, sub_self, mul_zero, hG0, hS.norm, one_mul]
  · rw [if_neg hab]
    have ht : ((b : ZMod p) - (a : ZMod p)) ≠ 0 := by
      intro h
      have := (ZMod.natCast_eq_natCast_iff' b a p).1 (sub_eq_zero.1 h)
      rw [Nat.mod_eq_of_lt ha, Nat.mod_eq_of_lt hb] at this
      exact hab this.symm
    have hN := hS.choice
    rw [sigma_eq_G hR.pow] at hN
    have := G_product hR hp2 (firstNonResidue_spec hp2).2 ht Nc hN
    calc _ = sc 7 * sc 7 * (sc 7 * sc 7) * ((Nc + G ω ((b : ZMod p) - (a : ZMod p))) *
            (Nc + G ω (((firstNonResidue p : ℕ) : ZMod p) * ((b : ZMod p) - (a : ZMod p))))) := by ring
      _ = 0 := by rw [this, mul_zero]

end quadres

end

/-! ### the relations hold for the numbers of the library -/
section instances

/-- `exp(2πi/h)` -/
noncomputable def rootC (h : ℕ) : ℂ := Complex.exp (2 * Real.pi * Complex.I / h)

theorem rootData_rootC {h : ℕ} (hh : 0 < h) : RootData h (rootC h) := by
  have hprim : IsPrimitiveRoot (rootC h) h := Complex.isPrimitiveRoot_exp h (by omega)
  refine ⟨hprim.pow_eq_one, ?_, ?_⟩
  · have hn : ‖rootC h‖ = 1 := Complex.norm_eq_one_of_pow_eq_one hprim.pow_eq_one (by omega)
    rw [mul_comm, Complex.mul_conj, Complex.normSq_eq_norm_sq, hn]; simp
  · intro j hj hjh
    have hne : rootC h ^ j ≠ 1 := hprim.pow_ne_one_of_pos_of_lt (by omega) hjh
    simp only [pow_mul]
    rw [geom_sum_eq hne, ← pow_mul, mul_comm, pow_mul, hprim.pow_eq_one, one_pow, sub_self, zero_div]

/-- the real scales `1`, `1/√h`, `1/√dA`, `1/√2`, `1/√dB` of the classes `1 … 5` -/
noncomputable def scaleC (h dA dB : ℕ) (c : ℕ) : ℂ :=
  ((if c = 1 then 1 else if c = 2 then 1 / Real.sqrt h else if c = 3 then 1 / Real.sqrt dA
    else if c = 4 then 1 / Real.sqrt 2 else if c = 5 then 1 / Real.sqrt dB else 0 : ℝ) : ℂ)

theorem roots_inv_sqrt_mul_self {x : ℝ} (hx : 0 < x) : 1 / Real.sqrt x * (1 / Real.sqrt x) * x = 1 := by
  have h := Real.mul_self_sqrt (le_of_lt hx)
  have h0 : Real.sqrt x ≠ 0 := (Real.sqrt_pos.2 hx).ne'
  field_simp
  nlinarith [h]

theorem scaleData_scaleC {h dA dB : ℕ} (hh : 0 < h) (hA : 0 < dA) (hB : 0 < dB) : ScaleData (scaleC h dA dB) h dA dB := by
  refine ⟨fun c => Complex.conj_ofReal _, by simp [scaleC], ?_, ?_, ?_, ?_⟩
  · have := roots_inv_sqrt_mul_self (x := (h : ℝ)) (by exact_mod_cast hh)
    simp only [one_div] at this
    simp only [scaleC]; norm_num; exact_mod_cast this
  · have := roots_inv_sqrt_mul_self (x := (dA : ℝ)) (by exact_mod_cast hA)
    simp only [one_div] at this
    simp only [scaleC]; norm_num; exact_mod_cast this
  · have := roots_inv_sqrt_mul_self (x := (dB : ℝ)) (by exact_mod_cast hB)
    simp only [one_div] at this
    simp only [scaleC]; norm_num; exact_mod_cast this
  · have := roots_inv_sqrt_mul_self (x := (2 : ℝ)) (by norm_num)
    simp only [one_div] at this
    simp only [scaleC]; norm_num; exact_mod_cast this

end instances


section quadInst
variable {p : ℕ} [hp : Fact p.Prime]

/-- `σ = Σ_{q ∈ Q} exp(2πi q/p)` (`upb.py:105`, before `.real`) -/
noncomputable def sigmaC (p : ℕ) : ℂ := ((quadResidues p).map (fun q => rootC p ^ q)).sum

/-- `N = max(−σ, 1+σ)` (`upb.py:106`) -/
noncomputable def weightN (p : ℕ) : ℝ := max (-(sigmaC p).re) (1 + (sigmaC p).re)

/-- classes `6`, `7`: `√N/√(N+|Q|)`, `1/√(N+|Q|)` -/
noncomputable def scaleQ (p : ℕ) (c : ℕ) : ℂ :=
  ((if c = 6 then Real.sqrt (weightN p) / Real.sqrt (weightN p + (quadResidues p).length)
    else if c = 7 then 1 / Real.sqrt (weightN p + (quadResidues p).length) else 0 : ℝ) : ℂ)

/-- for `p ≡ 1 (mod 4)`, `−1` is a square, so `σ` is real -/
theorem sigmaC_real (h4 : p % 4 = 1) : ((sigmaC p).re : ℂ) = sigmaC p := by
  have hR := rootData_rootC hp.out.pos
  rw [← Complex.conj_eq_iff_re]
  unfold sigmaC; rw [sigma_eq_G hR.pow]
  have hm1 : IsSquare (-1 : ZMod p) := ZMod.exists_sq_eq_neg_one_iff.2 (by omega)
  have hne : (-1 : ZMod p) ≠ 0 := neg_ne_zero.2 one_ne_zero
  conv_rhs => rw [← G_of_isSquare hne hm1]
  unfold G; rw [map_sum]
  refine Finset.sum_congr rfl (fun q _ => ?_)
  rw [one_mul, conj_chi hR, neg_one_mul]

theorem weightN_pos (p : ℕ) : 0 < weightN p := by
  unfold weightN
  rcases le_total (sigmaC p).re (-1 / 2) with h | h
  · exact lt_of_lt_of_le (by linarith) (le_max_left _ _)
  · exact lt_of_lt_of_le (by linarith) (le_max_right _ _)

theorem quadScale_scaleQ (h4 : p % 4 = 1) : QuadScale (scaleQ p) (rootC p) p (weightN p : ℂ) := by
  have hN := weightN_pos p
  have hD : 0 < weightN p + ((quadResidues p).length : ℝ) := by positivity
  have hsD : Real.sqrt (weightN p + ((quadResidues p).length : ℝ)) ≠ 0 := (Real.sqrt_pos.2 hD).ne'
  have e6 : scaleQ p 6 = ((Real.sqrt (weightN p) / Real.sqrt (weightN p + (quadResidues p).length) : ℝ) : ℂ) := by
    simp [scaleQ]
  have e7 : scaleQ p 7 = ((1 / Real.sqrt (weightN p + (quadResidues p).length) : ℝ) : ℂ) := by
    simp [scaleQ]
  refine ⟨Complex.conj_ofReal _, Complex.conj_ofReal _, ?_, ?_, ?_⟩
  · rw [e6, e7]
    have : Real.sqrt (weightN p) / Real.sqrt (weightN p + (quadResidues p).length) *
        (Real.sqrt (weightN p) / Real.sqrt (weightN p + (quadResidues p).length)) =
        weightN p * (1 / Real.sqrt (weightN p + (quadResidues p).length) *
          (1 / Real.sqrt (weightN p + (quadResidues p).length))) := by
      have h := Real.mul_self_sqrt (le_of_lt hN)
      field_simp
      nlinarith [h]
    exact_mod_cast this
  · rw [e7]
    have := roots_inv_sqrt_mul_self hD
    exact_mod_cast this
  · have hs := sigmaC_real (p := p) h4
    show (weightN p : ℂ) = -sigmaC p ∨ (weightN p : ℂ) = 1 + sigmaC p
    rw [← hs]
    unfold weightN
    rcases max_choice (-(sigmaC p).re) (1 + (sigmaC p).re) with h | h
    · left; rw [h]; push_cast; ring
    · right; rw [h]; push_cast; ring

end quadInst

end Numqi.Catalogue
