/-
Helper lemmas for the backward-pass model (C04).  Gate application facts come from the simulator property C03
(`applyGate_eq_embed`, `embed_mul`, `embed_conjTranspose`, `applyControlled_eq`, `ctrlEmbed_*`).
-/
import Mathlib.Tactic
import Mathlib.Algebra.Star.BigOperators
import Mathlib.LinearAlgebra.Matrix.DotProduct
import Mathlib.LinearAlgebra.Matrix.ConjTranspose
import Mathlib.LinearAlgebra.Matrix.Trace
import Mathlib.Analysis.Real.Sqrt
import Mathlib.Data.Complex.Basic
import NumqiModel.Backward
import NumqiProofs.PartialTrace
import NumqiProps.C03

namespace Numqi
namespace Backward
open Function Matrix Finset

attribute [local instance] starConj

variable {R : Type} [CommRing R] [StarRing R] {n k n' : Nat}

theorem vdot_eq (φ ψ : Vec n R) : vdot φ ψ = ∑ x, star (φ x) * ψ x := by
  simp only [vdot, sumBits_eq_sum]; rfl

theorem vdot_eq_dot (φ ψ : Vec n R) : vdot φ ψ = star φ ⬝ᵥ ψ := by
  rw [vdot_eq]; rfl

abbrev MatK (k : Nat) (R : Type) := Matrix (Bits k) (Bits k) R

theorem daggerMat_eq (U : MatK k R) : (daggerMat U : MatK k R) = Uᴴ := rfl
theorem transposeMat_eq (U : MatK k R) : (transposeMat U : MatK k R) = Uᵀ := rfl

theorem vdot_add_right (g a b : Vec n R) : vdot g (fun x => a x + b x) = vdot g a + vdot g b := by
  simp only [vdot_eq, mul_add, sum_add_distrib]

theorem vdot_zero_right (g : Vec n R) : vdot g (fun _ => (0 : R)) = 0 := by
  simp [vdot_eq]

/-- a matrix moves to the other side of the inner product as its conjugate transpose -/
theorem vdot_mulVec (M : Matrix (Bits n) (Bits n) R) (g ψ : Vec n R) :
    vdot g (M.mulVec ψ) = vdot (Mᴴ.mulVec g) ψ := by
  rw [vdot_eq_dot, vdot_eq_dot, Matrix.dotProduct_mulVec, Matrix.star_mulVec, Matrix.conjTranspose_conjTranspose]

/-- state part of the gate rule: `⟪g, E(U) δψ⟫ = ⟪E(U†) g, δψ⟫` -/
theorem vdot_applyGate {t : Fin k → Fin n} (ht : Injective t) (U : MatK k R) (g ψ : Vec n R) :
    vdot g (applyGate U t ψ) = vdot (applyGate (daggerMat U) t g) ψ := by
  have h1 := C03.applyGate_eq_embed ht U ψ
  have h2 := C03.applyGate_eq_embed ht (daggerMat U) g
  have h3 := C03.embed_conjTranspose t U
  rw [h1, h2, vdot_mulVec, h3]; rfl

/-- operator part of the gate rule: `⟪g, E(δU) ψ⟫ = ⟪opGrad g conj(ψ), δU⟫` -/
theorem vdot_applyGate_op (t : Fin k → Fin n) (δU : Mat k R) (g ψ : Vec n R) :
    vdot g (applyGate δU t ψ) = ∑ a, ∑ b, star (opGrad t g (conjVec ψ) a b) * δU a b := by
  have hstar : ∀ a b, star (opGrad t g (conjVec ψ) a b)
      = ∑ x : Bits n, if x.sel t = a then star (g x) * ψ (x.upd t b) else 0 := by
    intro a b
    simp only [opGrad, conjVec, sumBits_eq_sum, Bits.beq_iff, star_sum, conj]
    refine sum_congr rfl fun x _ => ?_
    split <;> simp
  simp only [hstar, vdot_eq, applyGate, sumBits_eq_sum, sum_mul, mul_sum]
  symm
  calc ∑ a, ∑ b, ∑ x : Bits n, (if x.sel t = a then star (g x) * ψ (x.upd t b) else 0) * δU a b
      = ∑ a, ∑ x : Bits n, ∑ b, (if x.sel t = a then star (g x) * ψ (x.upd t b) else 0) * δU a b :=
        sum_congr rfl fun a _ => sum_comm
    _ = ∑ x : Bits n, ∑ a, ∑ b, (if x.sel t = a then star (g x) * ψ (x.upd t b) else 0) * δU a b := sum_comm
    _ = ∑ x : Bits n, ∑ b, star (g x) * (δU (x.sel t) b * ψ (x.upd t b)) := by
        refine sum_congr rfl fun x _ => ?_
        rw [sum_eq_single (x.sel t)]
        · exact sum_congr rfl fun b _ => by rw [if_pos rfl]; ring
        · intro a _ ha
          exact sum_eq_zero fun b _ => by rw [if_neg (fun h => ha h.symm), zero_mul]
        · intro h; exact absurd (mem_univ _) h

theorem conjVec_applyGate (t : Fin k → Fin n) (U : Mat k R) (ψ : Vec n R) :
    conjVec (applyGate U t ψ) = applyGate (fun a b => star (U a b)) t (conjVec ψ) := by
  funext x
  simp only [conjVec, applyGate, sumBits_eq_sum, conj, star_sum, star_mul']

theorem conjVec_conjVec (ψ : Vec n R) : conjVec (conjVec ψ) = ψ := by
  funext x; simp [conjVec, conj]

theorem applyGate_transpose_conj (t : Fin k → Fin n) (U : Mat k R) (φ : Vec n R) :
    applyGate (transposeMat U) t (conjVec φ) = conjVec (applyGate (daggerMat U) t φ) := by
  rw [conjVec_applyGate]
  congr 1
  funext a b; simp [transposeMat, daggerMat, conj]

/-- un-applying a **unitary** gate on the conjugated state: `E(Uᵀ) conj(E(U) ψ) = conj ψ` -/
theorem unapply_gate {t : Fin k → Fin n} (ht : Injective t) (U : MatK k R) (hU : Uᴴ * U = 1) (ψ : Vec n R) :
    applyGate (transposeMat U) t (conjVec (applyGate U t ψ)) = conjVec ψ := by
  refine Eq.trans (applyGate_transpose_conj t U _) ?_
  congr 1
  have h1 := C03.applyGate_eq_embed ht U ψ
  have h2 := C03.applyGate_eq_embed ht (daggerMat U) (applyGate U t ψ)
  have h3 := C03.embed_mul ht Uᴴ U
  rw [h2, h1, Matrix.mulVec_mulVec]
  have : (Matrix.of (embed (daggerMat U) t) : Matrix (Bits n) (Bits n) R) * Matrix.of (embed U t) = 1 := by
    rw [show (daggerMat U : MatK k R) = Uᴴ from rfl, ← h3, hU, C03.embed_one]
  rw [this, Matrix.one_mulVec]

/-! ### controlled gates -/

theorem upd_empty (x : Bits n) (t : Fin 0 → Fin n) (y : Bits 0) : x.upd t y = x := by
  funext i; simp [Bits.upd]

/-- on the control-on subspace `x` is recovered from its non-control bits -/
theorem ones_upd_sel {isCtrl : Fin n → Bool} {rest : Fin n' → Fin n} (hrest : Injective rest)
    (hfree : ∀ i, isCtrl i = false ↔ ∃ m, rest m = i) {x : Bits n} (hx : ctrlOn isCtrl x = true) :
    (Bits.ones n).upd rest (x.sel rest) = x := by
  have h := ctrl_upd_eq (k := 0) (tNew := fun j => j.elim0) hrest (fun a => a.elim0) hfree hx (fun j => j.elim0)
  rwa [upd_empty, upd_empty] at h

theorem ctrlOn_ones_upd {isCtrl : Fin n → Bool} {rest : Fin n' → Fin n}
    (hfree : ∀ i, isCtrl i = false ↔ ∃ m, rest m = i) (z : Bits n') :
    ctrlOn isCtrl ((Bits.ones n).upd rest z) = true := by
  rw [ctrlOn_iff]
  intro i hi
  have h1 : ∀ m, rest m ≠ i := fun m e => by
    have := (hfree i).2 ⟨m, e⟩; rw [hi] at this; exact absurd this (by simp)
  rw [Bits.upd_apply_off _ _ h1]; rfl

omit [StarRing R] in
/-- sums over the control-on subspace are sums over the sub-register -/
theorem sum_ctrlOn {isCtrl : Fin n → Bool} {rest : Fin n' → Fin n} (hrest : Injective rest)
    (hfree : ∀ i, isCtrl i = false ↔ ∃ m, rest m = i) (f : Bits n → R) :
    ∑ x, (if ctrlOn isCtrl x then f x else 0) = ∑ z : Bits n', f ((Bits.ones n).upd rest z) := by
  symm
  rw [← sum_filter]
  refine sum_bij (fun z _ => (Bits.ones n).upd rest z) ?_ ?_ ?_ ?_
  · intro z _; simp [ctrlOn_ones_upd hfree z]
  · intro z1 _ z2 _ h
    rw [← Bits.sel_upd hrest (Bits.ones n) z1, h, Bits.sel_upd hrest]
  · intro x hx
    refine ⟨x.sel rest, mem_univ _, ones_upd_sel hrest hfree ?_⟩
    simpa using hx
  · intro z _; rfl

theorem hdisj_of_free {isCtrl : Fin n → Bool} {rest : Fin n' → Fin n} {tNew : Fin k → Fin n'}
    (hfree : ∀ i, isCtrl i = false ↔ ∃ m, rest m = i) : ∀ j, isCtrl (rest (tNew j)) = false :=
  fun j => (hfree _).2 ⟨tNew j, rfl⟩

theorem vdot_applyControlled {isCtrl : Fin n → Bool} {rest : Fin n' → Fin n} {tNew : Fin k → Fin n'}
    (hrest : Injective rest) (htn : Injective tNew) (hfree : ∀ i, isCtrl i = false ↔ ∃ m, rest m = i)
    (U : MatK k R) (g ψ : Vec n R) :
    vdot g (applyControlled U isCtrl rest tNew ψ) = vdot (applyControlled (daggerMat U) isCtrl rest tNew g) ψ := by
  have h1 := C03.applyControlled_eq hrest htn hfree U ψ
  have h2 := C03.applyControlled_eq hrest htn hfree (daggerMat U) g
  have h3 := C03.ctrlEmbed_conjTranspose (t := fun j => rest (tNew j)) (hdisj_of_free hfree) U
  rw [h1, h2, vdot_mulVec, h3]; rfl

theorem slice_conjVec (rest : Fin n' → Fin n) (ψ : Vec n R) : slice rest (conjVec ψ) = conjVec (slice rest ψ) := rfl

theorem vdot_applyControlled_op {isCtrl : Fin n → Bool} {rest : Fin n' → Fin n} (tNew : Fin k → Fin n')
    (hrest : Injective rest) (hfree : ∀ i, isCtrl i = false ↔ ∃ m, rest m = i) (δU : Mat k R) (g ψ : Vec n R) :
    vdot g (fun x => if ctrlOn isCtrl x then applyGate δU tNew (slice rest ψ) (x.sel rest) else 0)
      = ∑ a, ∑ b, star (opGrad tNew (slice rest g) (slice rest (conjVec ψ)) a b) * δU a b := by
  rw [slice_conjVec, ← vdot_applyGate_op, vdot_eq, vdot_eq]
  have : ∀ x : Bits n, star (g x) * (if ctrlOn isCtrl x then applyGate δU tNew (slice rest ψ) (x.sel rest) else 0)
      = if ctrlOn isCtrl x then star (g x) * applyGate δU tNew (slice rest ψ) (x.sel rest) else 0 := by
    intro x; split <;> simp
  rw [sum_congr rfl fun x _ => this x,
    sum_ctrlOn hrest hfree (fun x => star (g x) * applyGate δU tNew (slice rest ψ) (x.sel rest))]
  refine sum_congr rfl fun z _ => ?_
  rw [Bits.sel_upd hrest]; rfl

theorem conjVec_applyControlled (isCtrl : Fin n → Bool) (rest : Fin n' → Fin n) (tNew : Fin k → Fin n')
    (U : Mat k R) (ψ : Vec n R) :
    conjVec (applyControlled U isCtrl rest tNew ψ)
      = applyControlled (fun a b => star (U a b)) isCtrl rest tNew (conjVec ψ) := by
  funext x
  simp only [conjVec, applyControlled]
  split
  · exact congrFun (conjVec_applyGate tNew U (fun z => ψ ((Bits.ones n).upd rest z))) (x.sel rest)
  · rfl

theorem applyControlled_transpose_conj (isCtrl : Fin n → Bool) (rest : Fin n' → Fin n) (tNew : Fin k → Fin n')
    (U : Mat k R) (φ : Vec n R) :
    applyControlled (transposeMat U) isCtrl rest tNew (conjVec φ)
      = conjVec (applyControlled (daggerMat U) isCtrl rest tNew φ) := by
  rw [conjVec_applyControlled]
  congr 1
  funext a b; simp [transposeMat, daggerMat, conj]

theorem unapply_controlled {isCtrl : Fin n → Bool} {rest : Fin n' → Fin n} {tNew : Fin k → Fin n'}
    (hrest : Injective rest) (htn : Injective tNew) (hfree : ∀ i, isCtrl i = false ↔ ∃ m, rest m = i)
    (U : MatK k R) (hU : Uᴴ * U = 1) (ψ : Vec n R) :
    applyControlled (transposeMat U) isCtrl rest tNew (conjVec (applyControlled U isCtrl rest tNew ψ)) = conjVec ψ := by
  refine Eq.trans (applyControlled_transpose_conj isCtrl rest tNew U _) ?_
  congr 1
  have ht : Injective (fun j => rest (tNew j)) := hrest.comp htn
  have h1 := C03.applyControlled_eq hrest htn hfree U ψ
  have h2 := C03.applyControlled_eq hrest htn hfree (daggerMat U) (applyControlled U isCtrl rest tNew ψ)
  have h3 := C03.ctrlEmbed_mul ht (hdisj_of_free hfree) Uᴴ U
  rw [h2, h1, Matrix.mulVec_mulVec]
  have : (Matrix.of (ctrlEmbed (daggerMat U) isCtrl fun j => rest (tNew j)) : Matrix (Bits n) (Bits n) R)
      * Matrix.of (ctrlEmbed U isCtrl fun j => rest (tNew j)) = 1 := by
    rw [show (daggerMat U : MatK k R) = Uᴴ from rfl, ← h3, hU, C03.ctrlEmbed_one]
  rw [this, Matrix.one_mulVec]

/-! ### the reverse sweep -/

/-- `Σ_slots ⟪G[slot], δΘ[slot]⟫` over the slots `(k, s)`, `k < K`, `s < S` -/
def pairing (K S : ℕ) (G δΘ : Params R) : R :=
  ∑ k ∈ range K, ∑ s ∈ range S, ∑ a, ∑ b, star (G k s a b) * δΘ k s a b

theorem pairing_addAt (K S : ℕ) (G δΘ : Params R) (k0 s0 : ℕ) (hk : k0 < K) (hs : s0 < S) (D : Mat k0 R) :
    pairing K S (addAt G k0 s0 D) δΘ = pairing K S G δΘ + ∑ a, ∑ b, star (D a b) * δΘ k0 s0 a b := by
  have hterm : ∀ k s, (∑ a, ∑ b, star (addAt G k0 s0 D k s a b) * δΘ k s a b)
      = (∑ a, ∑ b, star (G k s a b) * δΘ k s a b)
        + if h : k = k0 then (if s = s0 then ∑ a, ∑ b, star ((h ▸ D : Mat k R) a b) * δΘ k s a b else 0) else 0 := by
    intro k s
    by_cases h : k = k0
    · subst h
      by_cases h2 : s = s0
      · subst h2
        simp [addAt, star_add, add_mul, sum_add_distrib]
      · simp [addAt, h2]
    · simp [addAt, h]
  simp only [pairing, hterm, sum_add_distrib]
  congr 1
  rw [sum_eq_single k0]
  · rw [sum_eq_single s0]
    · simp
    · intro s _ hne; simp [hne]
    · intro h; exact absurd (mem_range.2 hs) h
  · intro k _ hne
    exact sum_eq_zero fun s _ => by simp [hne]
  · intro h; exact absurd (mem_range.2 hk) h

/-- side conditions under which a gate-list entry denotes its operator (the same as `Op.WF` of C03) -/
def PGate.WF : PGate n R → Prop
  | .unitary _ t => Injective t
  | .control _ isCtrl rest tNew => Injective rest ∧ Injective tNew ∧ ∀ i, isCtrl i = false ↔ ∃ m, rest m = i
  | .custom _ _ => True

/-- `U†U = 1` -/
def IsUnitaryMat (U : MatK k R) : Prop := Uᴴ * U = 1

/-- the gate's matrix is unitary (`U†U = 1`) at the parameter point `Θ` -/
def PGate.IsUnitary (Θ : Params R) : PGate n R → Prop
  | .unitary src _ => IsUnitaryMat (src.get Θ)
  | .control src _ _ _ => IsUnitaryMat (src.get Θ)
  | .custom src _ => star (scalarOf (src.get Θ)) * scalarOf (src.get Θ) = 1

/-- the slot a parametrised gate reads lies in the range the pairing sums over -/
def PGate.InRange (K S : ℕ) : PGate n R → Prop
  | .unitary (k := k) (.param s) _ => k < K ∧ s < S
  | .control (k := k) (.param s) _ _ _ => k < K ∧ s < S
  | .custom (.param s) _ => 0 < K ∧ s < S
  | _ => True

/-! #### the diagonal-phase custom gate -/

theorem sum_bits0 (f : Bits 0 → Bits 0 → R) : (∑ a, ∑ b, f a b) = f (fun i => i.elim0) (fun i => i.elim0) := by
  have hu : ∀ a : Bits 0, a = fun i => i.elim0 := fun a => funext fun i => i.elim0
  rw [Fintype.sum_eq_single (fun i : Fin 0 => i.elim0) (fun a ha => absurd (hu a) ha),
    Fintype.sum_eq_single (fun i : Fin 0 => i.elim0) (fun a ha => absurd (hu a) ha)]

/-- un-applying a unit-modulus phase: `conj(ψ·a)·a = conj ψ` -/
theorem unapply_custom (a : R) (ha : star a * a = 1) (d : Bits n → Bool) (ψ : Vec n R) :
    customApply a d (conjVec (customApply a d ψ)) = conjVec ψ := by
  funext x
  simp only [customApply, conjVec, conj]
  split
  · rw [star_mul', mul_assoc, ha, mul_one]
  · rfl

/-- the cotangent rule `q0_grad[idx,idx] *= conj(a)` is the adjoint of the forward map -/
theorem vdot_customApply (a : R) (d : Bits n → Bool) (g ψ : Vec n R) :
    vdot (customApply (conj a) d g) ψ = vdot g (customApply a d ψ) := by
  rw [vdot_eq, vdot_eq]
  refine sum_congr rfl fun x _ => ?_
  simp only [customApply, conj]
  split
  · rw [star_mul', star_star]; ring
  · rfl

/-- `op_grad = Σ_diag conj(ψ)·g` paired with `δa` is the cotangent paired with the first-order change of the output -/
theorem vdot_custom_op (d : Bits n → Bool) (δa : R) (g ψ : Vec n R) :
    star (sumBits n fun x => if d x then conjVec ψ x * g x else 0) * δa
      = vdot g (fun x => if d x then ψ x * δa else 0) := by
  rw [vdot_eq, sumBits_eq_sum, star_sum, sum_mul]
  refine sum_congr rfl fun x _ => ?_
  simp only [conjVec, conj]
  split
  · rw [star_mul', star_star]; ring
  · simp

theorem sweep_vjp (K S : ℕ) (Θ δΘ : Params R) (gates : List (PGate n R))
    (hwf : ∀ g ∈ gates, g.WF) (hun : ∀ g ∈ gates, g.IsUnitary Θ) (hr : ∀ g ∈ gates, g.InRange K S)
    (ψ0 δψ gout : Vec n R) (G0 : Params R) :
    (backward Θ gates (conjVec (forward Θ gates ψ0), gout, G0)).1 = conjVec ψ0 ∧
    pairing K S (backward Θ gates (conjVec (forward Θ gates ψ0), gout, G0)).2.2 δΘ
        + vdot (backward Θ gates (conjVec (forward Θ gates ψ0), gout, G0)).2.1 δψ
      = pairing K S G0 δΘ + vdot gout (dforward Θ δΘ gates ψ0 δψ) := by
  induction gates generalizing ψ0 δψ with
  | nil => simp [backward, forward, dforward]
  | cons gate rest ih =>
    have hwf' : ∀ g ∈ rest, g.WF := fun g hg => hwf g (List.mem_cons_of_mem _ hg)
    have hun' : ∀ g ∈ rest, g.IsUnitary Θ := fun g hg => hun g (List.mem_cons_of_mem _ hg)
    have hr' : ∀ g ∈ rest, g.InRange K S := fun g hg => hr g (List.mem_cons_of_mem _ hg)
    have hf : forward Θ (gate :: rest) ψ0 = forward Θ rest (gate.apply Θ ψ0) := rfl
    have hb : ∀ init, backward Θ (gate :: rest) init = gate.back Θ (backward Θ rest init) := fun _ => rfl
    have hd : dforward Θ δΘ (gate :: rest) ψ0 δψ
        = dforward Θ δΘ rest (gate.apply Θ ψ0) (fun x => gate.apply Θ δψ x + gate.dapply δΘ ψ0 x) := rfl
    obtain ⟨ih1, ih2⟩ := ih hwf' hun' hr' (gate.apply Θ ψ0) (fun x => gate.apply Θ δψ x + gate.dapply δΘ ψ0 x)
    rw [hf, hb, hd]
    set r := backward Θ rest (conjVec (forward Θ rest (gate.apply Θ ψ0)), gout, G0) with hrdef
    rw [← ih2, vdot_add_right]
    have gwf := hwf gate List.mem_cons_self
    have gun := hun gate List.mem_cons_self
    have grange := hr gate List.mem_cons_self
    cases gate with
    | unitary src t =>
      have ht : Injective t := gwf
      have hq : applyGate (transposeMat (src.get Θ)) t r.1 = conjVec ψ0 := by
        rw [ih1]; exact unapply_gate ht (src.get Θ) gun ψ0
      refine ⟨hq, ?_⟩
      have hstate : vdot (applyGate (daggerMat (src.get Θ)) t r.2.1) δψ
          = vdot r.2.1 (applyGate (src.get Θ) t δψ) := (vdot_applyGate ht (src.get Θ) r.2.1 δψ).symm
      cases src with
      | fixed U =>
        show pairing K S r.2.2 δΘ + vdot (applyGate (daggerMat U) t r.2.1) δψ = _
        rw [show (daggerMat U) = daggerMat (Src.get Θ (Src.fixed U)) from rfl, hstate]
        simp only [PGate.apply, PGate.dapply, vdot_zero_right, add_zero, Src.get]
      | param s =>
        obtain ⟨hk, hs⟩ := grange
        show pairing K S (addAt r.2.2 _ s (opGrad t r.2.1 (applyGate (transposeMat (Θ _ s)) t r.1))) δΘ
          + vdot (applyGate (daggerMat (Θ _ s)) t r.2.1) δψ = _
        have hq' : applyGate (transposeMat (Θ _ s)) t r.1 = conjVec ψ0 := hq
        rw [hq', pairing_addAt K S _ δΘ _ s hk hs, ← vdot_applyGate_op]
        have := hstate
        simp only [Src.get] at this
        rw [this]
        simp only [PGate.apply, PGate.dapply, Src.get]
        ring
    | control src isCtrl rest' tNew =>
      obtain ⟨hrest, htn, hfree⟩ := gwf
      have hq : applyControlled (transposeMat (src.get Θ)) isCtrl rest' tNew r.1 = conjVec ψ0 := by
        rw [ih1]; exact unapply_controlled hrest htn hfree (src.get Θ) gun ψ0
      refine ⟨hq, ?_⟩
      have hstate : vdot (applyControlled (daggerMat (src.get Θ)) isCtrl rest' tNew r.2.1) δψ
          = vdot r.2.1 (applyControlled (src.get Θ) isCtrl rest' tNew δψ) :=
        (vdot_applyControlled hrest htn hfree (src.get Θ) r.2.1 δψ).symm
      cases src with
      | fixed U =>
        show pairing K S r.2.2 δΘ + vdot (applyControlled (daggerMat U) isCtrl rest' tNew r.2.1) δψ = _
        rw [show (daggerMat U) = daggerMat (Src.get Θ (Src.fixed U)) from rfl, hstate]
        simp only [PGate.apply, PGate.dapply, vdot_zero_right, add_zero, Src.get]
      | param s =>
        obtain ⟨hk, hs⟩ := grange
        show pairing K S (addAt r.2.2 _ s (opGrad tNew (slice rest' r.2.1)
            (slice rest' (applyControlled (transposeMat (Θ _ s)) isCtrl rest' tNew r.1)))) δΘ
          + vdot (applyControlled (daggerMat (Θ _ s)) isCtrl rest' tNew r.2.1) δψ = _
        have hq' : applyControlled (transposeMat (Θ _ s)) isCtrl rest' tNew r.1 = conjVec ψ0 := hq
        rw [hq', pairing_addAt K S _ δΘ _ s hk hs, ← vdot_applyControlled_op tNew hrest hfree]
        have := hstate
        simp only [Src.get] at this
        rw [this]
        simp only [PGate.apply, PGate.dapply, Src.get]
        ring
    | custom src d =>
      have hq : customApply (scalarOf (src.get Θ)) d r.1 = conjVec ψ0 := by
        rw [ih1]; exact unapply_custom _ gun d ψ0
      refine ⟨hq, ?_⟩
      have hstate : vdot (customApply (conj (scalarOf (src.get Θ))) d r.2.1) δψ
          = vdot r.2.1 (customApply (scalarOf (src.get Θ)) d δψ) := vdot_customApply _ d r.2.1 δψ
      cases src with
      | fixed U =>
        show pairing K S r.2.2 δΘ + vdot (customApply (conj (scalarOf U)) d r.2.1) δψ = _
        rw [show scalarOf U = scalarOf (Src.get Θ (Src.fixed U)) from rfl, hstate]
        simp only [PGate.apply, PGate.dapply, vdot_zero_right, add_zero, Src.get]
      | param s =>
        obtain ⟨hk, hs⟩ := grange
        show pairing K S (addAt r.2.2 0 s (fun _ _ => sumBits n fun x =>
            if d x then customApply (scalarOf (Θ 0 s)) d r.1 x * r.2.1 x else 0)) δΘ
          + vdot (customApply (conj (scalarOf (Θ 0 s))) d r.2.1) δψ = _
        have hq' : customApply (scalarOf (Θ 0 s)) d r.1 = conjVec ψ0 := hq
        rw [hq', pairing_addAt K S _ δΘ 0 s hk hs, sum_bits0]
        have h3 := vdot_custom_op d (scalarOf (δΘ 0 s)) r.2.1 ψ0
        have := hstate
        simp only [Src.get] at this
        rw [this]
        simp only [PGate.apply, PGate.dapply, Src.get]
        rw [show δΘ 0 s (fun i => i.elim0) (fun i => i.elim0) = scalarOf (δΘ 0 s) from rfl, h3]
        ring

/-! ### exact second-order expansion of one gate: what `dforward` uses is its first-order part -/

omit [StarRing R] in
theorem applyGate_add_left (t : Fin k → Fin n) (U V : Mat k R) (ψ : Vec n R) :
    applyGate (fun a b => U a b + V a b) t ψ = fun x => applyGate U t ψ x + applyGate V t ψ x := by
  funext x; simp only [applyGate, sumBits_eq_sum, add_mul, sum_add_distrib]

omit [StarRing R] in
theorem applyGate_add_right (t : Fin k → Fin n) (U : Mat k R) (ψ φ : Vec n R) :
    applyGate U t (fun x => ψ x + φ x) = fun x => applyGate U t ψ x + applyGate U t φ x := by
  funext x; simp only [applyGate, sumBits_eq_sum, mul_add, sum_add_distrib]

/-! ### Knill–Laflamme inner product -/

theorem applySeq_eq (ops : List (Op n R)) (hwf : ∀ g ∈ ops, g.WF) (v : Vec n R) :
    applySeq ops v = (circuitMatrix ops).mulVec v := by
  induction ops generalizing v with
  | nil => simp [applySeq, circuitMatrix_nil]
  | cons g c ih =>
    have h1 : applySeq (g :: c) v = applySeq c (g.apply v) := rfl
    rw [h1, ih (fun g' hg' => hwf g' (List.mem_cons_of_mem _ hg')), C03.op_apply_eq g (hwf g List.mem_cons_self),
      circuitMatrix_cons, Matrix.mulVec_mulVec]

/-- no `measure` entries (the operator lists of the QEC module consist of gates) -/
def NoMeasure : Op n R → Prop
  | .measure _ _ => False
  | _ => True

def dagOp : Op n R → Op n R
  | .unitary U t => .unitary (daggerMat U) t
  | .control U c r tn => .control (daggerMat U) c r tn
  | .measure s o => .measure s o

theorem dagRev_eq (ops : List (Op n R)) : dagRev ops = (ops.map dagOp).reverse := by
  unfold dagRev; congr 1

theorem dagOp_wf (g : Op n R) (h : g.WF) : (dagOp g).WF := by cases g <;> exact h

theorem dagOp_matrix (g : Op n R) (hwf : g.WF) (hm : NoMeasure g) :
    (Matrix.of (dagOp g).matrix : Matrix (Bits n) (Bits n) R) = (Matrix.of g.matrix)ᴴ := by
  cases g with
  | unitary U t => exact (C03.embed_conjTranspose t U).symm
  | control U c r tn => exact (C03.ctrlEmbed_conjTranspose (hdisj_of_free hwf.2.2) U).symm
  | measure s o => exact absurd hm id

theorem circuitMatrix_dagRev (ops : List (Op n R)) (hwf : ∀ g ∈ ops, g.WF) (hm : ∀ g ∈ ops, NoMeasure g) :
    circuitMatrix (dagRev ops) = (circuitMatrix ops)ᴴ := by
  rw [dagRev_eq]
  induction ops with
  | nil => simp [circuitMatrix]
  | cons g c ih =>
    have ihc := ih (fun g' hg' => hwf g' (List.mem_cons_of_mem _ hg')) (fun g' hg' => hm g' (List.mem_cons_of_mem _ hg'))
    rw [circuitMatrix_cons, Matrix.conjTranspose_mul, ← ihc,
      ← dagOp_matrix g (hwf g List.mem_cons_self) (hm g List.mem_cons_self)]
    simp [circuitMatrix]

theorem dagRev_wf (ops : List (Op n R)) (hwf : ∀ g ∈ ops, g.WF) : ∀ g ∈ dagRev ops, g.WF := by
  rw [dagRev_eq]
  intro g hg
  rw [List.mem_reverse, List.mem_map] at hg
  obtain ⟨g0, h0, rfl⟩ := hg
  exact dagOp_wf g0 (hwf g0 h0)

theorem star_vdot (a b : Vec n R) : star (vdot a b) = vdot b a := by
  simp only [vdot_eq, star_sum, star_mul', star_star]
  exact sum_congr rfl fun x _ => mul_comm _ _

theorem vdot_add_left (a b w : Vec n R) : vdot (fun x => a x + b x) w = vdot a w + vdot b w := by
  simp only [vdot_eq, star_add, add_mul, sum_add_distrib]

theorem vdot_sum_left (L : ℕ) (c : ℕ → R) (v : ℕ → Vec n R) (w : Vec n R) :
    vdot (fun x => ∑ j ∈ range L, c j * v j x) w = ∑ j ∈ range L, star (c j) * vdot (v j) w := by
  simp only [vdot_eq, star_sum, star_mul', sum_mul, mul_sum]
  rw [sum_comm]
  exact sum_congr rfl fun j _ => sum_congr rfl fun x _ => by ring

/-- the adjoint identity behind the Knill–Laflamme backward pass, for an arbitrary operator `O` -/
theorem kl_adjoint (L : ℕ) (O : Matrix (Bits n) (Bits n) R) (q dq : ℕ → Vec n R) (G : ℕ → ℕ → R) :
    let grad : ℕ → Vec n R := fun i x =>
      (∑ j ∈ range L, star (G i j) * O.mulVec (q j) x) + (∑ j ∈ range L, G j i * Oᴴ.mulVec (q j) x)
    let S := ∑ i ∈ range L, ∑ j ∈ range L, star (G i j) * (vdot (dq i) (O.mulVec (q j)) + vdot (q i) (O.mulVec (dq j)))
    let T := ∑ i ∈ range L, vdot (grad i) (dq i)
    T + star T = S + star S := by
  intro grad S T
  have hT : T = star (∑ i ∈ range L, ∑ j ∈ range L, star (G i j) * vdot (dq i) (O.mulVec (q j)))
      + ∑ i ∈ range L, ∑ j ∈ range L, star (G i j) * vdot (q i) (O.mulVec (dq j)) := by
    have h1 : ∀ i, vdot (grad i) (dq i)
        = (∑ j ∈ range L, G i j * star (vdot (dq i) (O.mulVec (q j))))
          + ∑ j ∈ range L, star (G j i) * vdot (q j) (O.mulVec (dq i)) := by
      intro i
      simp only [grad]
      rw [vdot_add_left, vdot_sum_left, vdot_sum_left]
      congr 1
      · exact sum_congr rfl fun j _ => by rw [star_star, star_vdot]
      · exact sum_congr rfl fun j _ => by rw [← vdot_mulVec]
    simp only [T, h1, sum_add_distrib, star_sum, star_mul', star_star]
    congr 1
    rw [sum_comm]
  have hS : S = (∑ i ∈ range L, ∑ j ∈ range L, star (G i j) * vdot (dq i) (O.mulVec (q j)))
      + ∑ i ∈ range L, ∑ j ∈ range L, star (G i j) * vdot (q i) (O.mulVec (dq j)) := by
    simp only [S, mul_add, sum_add_distrib]
  rw [hT, hS]
  simp only [star_add, star_star]
  ring

/-! ### Sylvester rule for the PSD square root -/

section sylvester
variable {F : Type} [Field F] [StarRing F] [DecidableEq F] {m : ℕ}

/-- the `m × m` matrix of a function on natural-number indices -/
def toMat (m : ℕ) (f : ℕ → ℕ → F) : Matrix (Fin m) (Fin m) F := Matrix.of fun i j => f i.val j.val

theorem toMat_rotateIn (V G : ℕ → ℕ → F) :
    toMat m (rotateIn m V G) = (toMat m V)ᴴ * toMat m G * toMat m V := by
  ext a b
  simp only [rotateIn, sumRange_eq_sum, Matrix.mul_apply, toMat, Matrix.of_apply, Matrix.conjTranspose_apply, conj,
    sum_mul, Finset.sum_range]
  rw [sum_comm]

theorem toMat_rotateOut (V M : ℕ → ℕ → F) :
    toMat m (rotateOut m V M) = toMat m V * toMat m M * (toMat m V)ᴴ := by
  ext i j
  simp only [rotateOut, sumRange_eq_sum, Matrix.mul_apply, toMat, Matrix.of_apply, Matrix.conjTranspose_apply, conj,
    sum_mul, Finset.sum_range]
  rw [sum_comm]

/-- **the code's formula solves the Sylvester equation** `S X + X S = G` for `S = V diag(s) V†`, `V` unitary, provided no
two stored roots add up to zero (the guard found by the proof: the rule divides by `s_a + s_b`) -/
theorem sylvStep_solves (V G : ℕ → ℕ → F) (s : ℕ → F)
    (hV1 : (toMat m V)ᴴ * toMat m V = 1) (hV2 : toMat m V * (toMat m V)ᴴ = 1)
    (hs : ∀ a b, a < m → b < m → s a + s b ≠ 0) :
    let S := toMat m V * Matrix.diagonal (fun a : Fin m => s a.val) * (toMat m V)ᴴ
    let X := toMat m (sylvStep m V s G)
    S * X + X * S = toMat m G := by
  intro S X
  set Vm := toMat m V with hVm
  set D : Matrix (Fin m) (Fin m) F := Matrix.diagonal (fun a : Fin m => s a.val) with hD
  set M : Matrix (Fin m) (Fin m) F :=
    toMat m (fun a b => if a = b ∧ s a = 0 then 0 else rotateIn m V G a b / (s a + s b)) with hM
  have hX : X = Vm * M * Vmᴴ := toMat_rotateOut V _
  have hDM : D * M + M * D = Vmᴴ * toMat m G * Vm := by
    rw [← toMat_rotateIn]
    ext a b
    simp only [hD, hM, Matrix.add_apply, Matrix.diagonal_mul, Matrix.mul_diagonal, toMat, Matrix.of_apply]
    have hab := hs a.val b.val a.isLt b.isLt
    have hne : ¬ (a.val = b.val ∧ s a.val = 0) := by
      rintro ⟨e, h0⟩
      apply hab; rw [← e, h0]; simp
    rw [if_neg hne]
    field_simp
  calc S * X + X * S = Vm * D * (Vmᴴ * Vm) * M * Vmᴴ + Vm * M * (Vmᴴ * Vm) * D * Vmᴴ := by
        rw [hX]; simp only [S, Matrix.mul_assoc]; rfl
    _ = Vm * (D * M + M * D) * Vmᴴ := by
        rw [hV1]; simp only [Matrix.mul_one, Matrix.mul_add, Matrix.add_mul, Matrix.mul_assoc]
    _ = (Vm * Vmᴴ) * toMat m G * (Vm * Vmᴴ) := by rw [hDM]; simp only [Matrix.mul_assoc]
    _ = toMat m G := by rw [hV2]; simp

omit [DecidableEq F] in
/-- **a solution of the Sylvester equation is the vector–Jacobian product of the square root**:
if `S = S†`, `S X + X S = G` and `δA = δS·S + S·δS` (the differential of `A = S·S`) then `⟪G, δS⟫ = ⟪X, δA⟫`. -/
theorem sylvester_adjoint (S X G δS : Matrix (Fin m) (Fin m) F) (hS : Sᴴ = S) (hX : S * X + X * S = G) :
    Matrix.trace (Gᴴ * δS) = Matrix.trace (Xᴴ * (δS * S + S * δS)) := by
  have hG : Gᴴ = Xᴴ * S + S * Xᴴ := by
    rw [← hX, Matrix.conjTranspose_add, Matrix.conjTranspose_mul, Matrix.conjTranspose_mul, hS]
  rw [hG, Matrix.add_mul, Matrix.mul_add, Matrix.trace_add, Matrix.trace_add]
  rw [add_comm]
  congr 1
  · rw [Matrix.mul_assoc, Matrix.trace_mul_comm, Matrix.mul_assoc]
  · rw [Matrix.mul_assoc]

end sylvester

/-! ### repeated square roots -/

section sylvrepeat
variable {F : Type} [Field F] [StarRing F] [DecidableEq F] {m : ℕ}

/-- `V diag(s) V†` -/
def specMat (m : ℕ) (V : ℕ → ℕ → F) (s : ℕ → F) : Matrix (Fin m) (Fin m) F :=
  toMat m V * Matrix.diagonal (fun a : Fin m => s a.val) * (toMat m V)ᴴ

/-- differential of `r` successive squarings starting at `S = V diag(s) V†`: `δ ↦ δ·S + S·δ`, then the same at `S²`, … -/
def dchain (m : ℕ) (V : ℕ → ℕ → F) : ℕ → (ℕ → F) → Matrix (Fin m) (Fin m) F → Matrix (Fin m) (Fin m) F
  | 0, _, δ => δ
  | r + 1, s, δ => dchain m V r (fun a => s a * s a) (δ * specMat m V s + specMat m V s * δ)

/-- no pass divides by zero: `s_a^(2^j) + s_b^(2^j) ≠ 0` for every pass `j < r` -/
def SylvGuard (m r : ℕ) (s : ℕ → F) : Prop := ∀ j, j < r → ∀ a b, a < m → b < m → s a ^ (2 ^ j) + s b ^ (2 ^ j) ≠ 0

theorem specMat_hermitian (V : ℕ → ℕ → F) (s : ℕ → F) (hreal : ∀ a, star (s a) = s a) :
    (specMat m V s)ᴴ = specMat m V s := by
  simp only [specMat, Matrix.conjTranspose_mul, Matrix.conjTranspose_conjTranspose, Matrix.diagonal_conjTranspose,
    Matrix.mul_assoc]
  congr 2
  ext a b
  by_cases h : a = b
  · subst h; simp [Matrix.diagonal, hreal]
  · simp [Matrix.diagonal, h]

/-- **`repeat` passes of the Sylvester rule are the VJP of `repeat` successive squarings** (induction on `repeat`) -/
theorem sylvBackward_adjoint (V : ℕ → ℕ → F) (hV1 : (toMat m V)ᴴ * toMat m V = 1) (hV2 : toMat m V * (toMat m V)ᴴ = 1)
    (r : ℕ) (s : ℕ → F) (hreal : ∀ a, star (s a) = s a) (hg : SylvGuard m r s) (G : ℕ → ℕ → F)
    (δ : Matrix (Fin m) (Fin m) F) :
    Matrix.trace ((toMat m G)ᴴ * δ) = Matrix.trace ((toMat m (sylvBackward m V r s G))ᴴ * dchain m V r s δ) := by
  induction r generalizing s G δ with
  | zero => rfl
  | succ r ih =>
    have h0 : ∀ a b, a < m → b < m → s a + s b ≠ 0 := by
      intro a b ha hb; have := hg 0 (Nat.succ_pos r) a b ha hb; simpa using this
    have hg' : SylvGuard m r (fun a => s a * s a) := by
      intro j hj a b ha hb
      have := hg (j + 1) (Nat.succ_lt_succ hj) a b ha hb
      rw [pow_succ 2 j, Nat.mul_comm, pow_mul, pow_mul] at this
      simpa [sq] using this
    have hreal' : ∀ a, star (s a * s a) = s a * s a := fun a => by rw [star_mul', hreal]
    have step := sylvester_adjoint (specMat m V s) (toMat m (sylvStep m V s G)) (toMat m G) δ
      (specMat_hermitian V s hreal) (sylvStep_solves V G s hV1 hV2 h0)
    rw [step]
    exact ih (fun a => s a * s a) hreal' hg' (sylvStep m V s G) (δ * specMat m V s + specMat m V s * δ)

/-! ### singular inputs: the `tmp1[ind_zero…] = 0` branch (audit M5) -/

/-- the part of `V†GV` the rule discards: the diagonal entries that belong to zero roots -/
def kernelDiag (m : ℕ) (V G : ℕ → ℕ → F) (s : ℕ → F) : Matrix (Fin m) (Fin m) F :=
  toMat m fun a b => if a = b ∧ s a = 0 then rotateIn m V G a b else 0

/-- **with zero roots the rule solves `S X + X S = G − V·K·V†`**, `K` = the zero-root diagonal of `V†GV` (for exactly one zero root
`z`: `V K V† = P G P`, `P` the projector on the kernel).  Guard: two *different* roots never add up to zero (at most one zero
root among non-negative roots) and non-zero roots have non-zero double; with two zero roots the code divides `0/0` (inf/NaN). -/
theorem sylvStep_singular (V G : ℕ → ℕ → F) (s : ℕ → F)
    (hV1 : (toMat m V)ᴴ * toMat m V = 1) (hV2 : toMat m V * (toMat m V)ᴴ = 1)
    (hoff : ∀ a b, a < m → b < m → a ≠ b → s a + s b ≠ 0) (hdiag : ∀ a, a < m → s a ≠ 0 → s a + s a ≠ 0) :
    let S := toMat m V * Matrix.diagonal (fun a : Fin m => s a.val) * (toMat m V)ᴴ
    let X := toMat m (sylvStep m V s G)
    S * X + X * S = toMat m G - toMat m V * kernelDiag m V G s * (toMat m V)ᴴ := by
  intro S X
  set Vm := toMat m V with hVm
  set D : Matrix (Fin m) (Fin m) F := Matrix.diagonal (fun a : Fin m => s a.val) with hD
  set M : Matrix (Fin m) (Fin m) F :=
    toMat m (fun a b => if a = b ∧ s a = 0 then 0 else rotateIn m V G a b / (s a + s b)) with hM
  have hX : X = Vm * M * Vmᴴ := toMat_rotateOut V _
  have hDM : D * M + M * D = Vmᴴ * toMat m G * Vm - kernelDiag m V G s := by
    rw [← toMat_rotateIn]
    ext a b
    simp only [hD, hM, kernelDiag, Matrix.add_apply, Matrix.sub_apply, Matrix.diagonal_mul, Matrix.mul_diagonal, toMat,
      Matrix.of_apply]
    by_cases hz : a.val = b.val ∧ s a.val = 0
    · rw [if_pos hz, if_pos hz]; simp
    · rw [if_neg hz, if_neg hz, sub_zero]
      have hne : s a.val + s b.val ≠ 0 := by
        by_cases hab : a.val = b.val
        · rw [← hab]; exact hdiag a.val a.isLt (fun h0 => hz ⟨hab, h0⟩)
        · exact hoff a.val b.val a.isLt b.isLt hab
      field_simp
  calc S * X + X * S = Vm * D * (Vmᴴ * Vm) * M * Vmᴴ + Vm * M * (Vmᴴ * Vm) * D * Vmᴴ := by
        rw [hX]; simp only [S, Matrix.mul_assoc]; rfl
    _ = Vm * (D * M + M * D) * Vmᴴ := by
        rw [hV1]; simp only [Matrix.mul_one, Matrix.mul_add, Matrix.add_mul, Matrix.mul_assoc]
    _ = (Vm * Vmᴴ) * toMat m G * (Vm * Vmᴴ) - Vm * kernelDiag m V G s * Vmᴴ := by
        rw [hDM]; simp only [Matrix.mul_sub, Matrix.sub_mul, Matrix.mul_assoc]
    _ = _ := by rw [hV2]; simp

/-- **the gradient on a singular input is the VJP restricted to the range**: it is exact for every perturbation `δS` whose
`V†·δS·V` has no diagonal entry on a zero root (no kernel–kernel component) -/
theorem sylvester_singular_adjoint (V G : ℕ → ℕ → F) (s : ℕ → F)
    (hV1 : (toMat m V)ᴴ * toMat m V = 1) (hV2 : toMat m V * (toMat m V)ᴴ = 1)
    (hoff : ∀ a b, a < m → b < m → a ≠ b → s a + s b ≠ 0) (hdiag : ∀ a, a < m → s a ≠ 0 → s a + s a ≠ 0)
    (hreal : ∀ a, star (s a) = s a) (δS : Matrix (Fin m) (Fin m) F)
    (hδ : ∀ a : Fin m, s a.val = 0 → ((toMat m V)ᴴ * δS * toMat m V) a a = 0) :
    Matrix.trace ((toMat m G)ᴴ * δS)
      = Matrix.trace ((toMat m (sylvStep m V s G))ᴴ * (δS * specMat m V s + specMat m V s * δS)) := by
  have hsolve := sylvStep_singular V G s hV1 hV2 hoff hdiag
  simp only at hsolve
  have hadj := sylvester_adjoint (specMat m V s) (toMat m (sylvStep m V s G)) _ δS (specMat_hermitian V s hreal) hsolve
  rw [← hadj, Matrix.conjTranspose_sub, Matrix.sub_mul, Matrix.trace_sub]
  have hzero : Matrix.trace ((toMat m V * kernelDiag m V G s * (toMat m V)ᴴ)ᴴ * δS) = 0 := by
    set W := (toMat m V)ᴴ * δS * toMat m V with hW
    have e : Matrix.trace ((toMat m V * kernelDiag m V G s * (toMat m V)ᴴ)ᴴ * δS)
        = Matrix.trace ((kernelDiag m V G s)ᴴ * W) := by
      rw [Matrix.conjTranspose_mul, Matrix.conjTranspose_mul, Matrix.conjTranspose_conjTranspose, hW]
      simp only [Matrix.mul_assoc]
      rw [Matrix.trace_mul_comm]
      simp only [Matrix.mul_assoc]
    rw [e, Matrix.trace]
    refine Finset.sum_eq_zero fun a _ => ?_
    rw [Matrix.diag_apply, Matrix.mul_apply]
    refine Finset.sum_eq_zero fun b _ => ?_
    rw [Matrix.conjTranspose_apply]
    have hK : kernelDiag m V G s b a = if b.val = a.val ∧ s b.val = 0 then rotateIn m V G b.val a.val else 0 := rfl
    rw [hK]
    by_cases hz : b.val = a.val ∧ s b.val = 0
    · have hab : b = a := Fin.ext hz.1
      subst hab
      rw [hδ b hz.2, mul_zero]
    · rw [if_neg hz, star_zero, zero_mul]
  rw [hzero, sub_zero]

/-! ### forward map of the PSD square root and uniqueness of its differential (audit M4) -/

omit [DecidableEq F] in
theorem toMat_psdForward [Channel.Analytic F] (V : ℕ → ℕ → F) (r : ℕ) (evl : ℕ → F) :
    toMat m (psdSqrtmForward m V r evl) = specMat m V (storedRoots r evl) := by
  ext i j
  simp only [psdSqrtmForward, specMat, toMat, sumRange_eq_sum, Matrix.of_apply, Matrix.mul_apply, Matrix.diagonal_apply,
    Matrix.conjTranspose_apply, conj, Finset.sum_range]
  refine Finset.sum_congr rfl fun a _ => ?_
  rw [Finset.sum_eq_single a]
  · simp
  · intro b _ hb; simp [hb]
  · intro h; exact absurd (Finset.mem_univ a) h

omit [DecidableEq F] in
/-- **the Sylvester operator `δ ↦ S·δ + δ·S` is injective under the guard**: the differential `δS` of the square root is the
unique solution of `δS·S + S·δS = δA` -/
theorem sylvester_unique_aux (V : ℕ → ℕ → F) (s : ℕ → F)
    (hV1 : (toMat m V)ᴴ * toMat m V = 1) (hV2 : toMat m V * (toMat m V)ᴴ = 1)
    (hs : ∀ a b, a < m → b < m → s a + s b ≠ 0) (δ : Matrix (Fin m) (Fin m) F)
    (h : δ * specMat m V s + specMat m V s * δ = 0) : δ = 0 := by
  set Vm := toMat m V with hVm
  set D : Matrix (Fin m) (Fin m) F := Matrix.diagonal (fun a : Fin m => s a.val) with hD
  set W := Vmᴴ * δ * Vm with hW
  have hWD : W * D + D * W = 0 := by
    have := congrArg (fun X => Vmᴴ * X * Vm) h
    simp only [specMat, Matrix.mul_add, Matrix.add_mul, Matrix.mul_zero, Matrix.zero_mul] at this
    calc W * D + D * W = Vmᴴ * (δ * (Vm * D * Vmᴴ)) * Vm + Vmᴴ * (Vm * D * Vmᴴ * δ) * Vm := by
          simp only [hW, Matrix.mul_assoc]
          have e1 : Vmᴴ * (Vm * (D * (Vmᴴ * (δ * Vm)))) = (Vmᴴ * Vm) * (D * (Vmᴴ * (δ * Vm))) := by simp only [Matrix.mul_assoc]
          have e2 : Vmᴴ * (δ * (Vm * (D * (Vmᴴ * Vm)))) = Vmᴴ * (δ * (Vm * D)) := by rw [hV1, Matrix.mul_one]
          rw [e1, e2, hV1, Matrix.one_mul]
      _ = 0 := this
  have hW0 : W = 0 := by
    ext a b
    have := congrFun (congrFun hWD a) b
    simp only [hD, Matrix.add_apply, Matrix.mul_diagonal, Matrix.diagonal_mul, Matrix.zero_apply] at this
    have hne := hs b.val a.val b.isLt a.isLt
    have : W a b * (s b.val + s a.val) = 0 := by rw [mul_add]; linear_combination this
    rcases mul_eq_zero.1 this with h0 | h0
    · exact h0
    · exact absurd h0 hne
  calc δ = (Vm * Vmᴴ) * δ * (Vm * Vmᴴ) := by rw [hV2]; simp
    _ = Vm * W * Vmᴴ := by simp only [hW, Matrix.mul_assoc]
    _ = 0 := by rw [hW0]; simp

omit [DecidableEq F] in
/-- squaring the operator squares the roots (`V` unitary): the chain really is `S, S², S⁴, …` -/
theorem specMat_sq (V : ℕ → ℕ → F) (hV1 : (toMat m V)ᴴ * toMat m V = 1) (s : ℕ → F) :
    specMat m V s * specMat m V s = specMat m V (fun a => s a * s a) := by
  simp only [specMat]
  calc toMat m V * Matrix.diagonal (fun a : Fin m => s a.val) * (toMat m V)ᴴ
        * (toMat m V * Matrix.diagonal (fun a : Fin m => s a.val) * (toMat m V)ᴴ)
      = toMat m V * Matrix.diagonal (fun a : Fin m => s a.val) * ((toMat m V)ᴴ * toMat m V)
          * Matrix.diagonal (fun a : Fin m => s a.val) * (toMat m V)ᴴ := by simp only [Matrix.mul_assoc]
    _ = toMat m V * (Matrix.diagonal (fun a : Fin m => s a.val) * Matrix.diagonal (fun a : Fin m => s a.val)) * (toMat m V)ᴴ := by
        rw [hV1]; simp only [Matrix.mul_one, Matrix.mul_assoc]
    _ = _ := by rw [Matrix.diagonal_mul_diagonal]

end sylvrepeat

/-! ### the forward map over ℂ (real eigenvalues, complex eigenvectors) -/

section sqrtmC
open Channel

/-- over ℂ: `sqrt`, `max`, `log` act on the (real) eigenvalues -/
noncomputable instance analyticComplex : Analytic ℂ :=
  ⟨fun z => (Real.log z.re : ℂ), fun z => (Real.sqrt z.re : ℂ), fun a b => ((max a.re b.re : ℝ) : ℂ)⟩

theorem storedRoots_real (r : ℕ) (ev : ℕ → ℝ) (a : ℕ) :
    ∃ y : ℝ, 0 ≤ y ∧ storedRoots r (fun a => (ev a : ℂ)) a = (y : ℂ) := by
  induction r with
  | zero =>
    refine ⟨max 0 (ev a), le_max_left _ _, ?_⟩
    simp [storedRoots, rootIter, Analytic.max]
  | succ r ih =>
    obtain ⟨y, hy, e⟩ := ih
    refine ⟨Real.sqrt y, Real.sqrt_nonneg _, ?_⟩
    simp only [storedRoots, rootIter] at e ⊢
    rw [e]; simp [Analytic.sqrt]

/-- one more square root: the stored roots of `repeat = r+1` square to those of `repeat = r` -/
theorem storedRoots_sq (r : ℕ) (ev : ℕ → ℝ) (a : ℕ) :
    storedRoots (r + 1) (fun a => (ev a : ℂ)) a * storedRoots (r + 1) (fun a => (ev a : ℂ)) a
      = storedRoots r (fun a => (ev a : ℂ)) a := by
  obtain ⟨y, hy, e⟩ := storedRoots_real r ev a
  have e' : storedRoots (r + 1) (fun a => (ev a : ℂ)) a = (Real.sqrt y : ℂ) := by
    simp only [storedRoots, rootIter] at e ⊢
    rw [e]; simp [Analytic.sqrt]
  rw [e', e, ← Complex.ofReal_mul, Real.mul_self_sqrt hy]

theorem storedRoots_zero (ev : ℕ → ℝ) (hev : ∀ a, 0 ≤ ev a) (a : ℕ) : storedRoots 0 (fun a => (ev a : ℂ)) a = (ev a : ℂ) := by
  simp [storedRoots, rootIter, Analytic.max, max_eq_right (hev a)]

theorem storedRoots_star (r : ℕ) (ev : ℕ → ℝ) (a : ℕ) :
    star (storedRoots r (fun a => (ev a : ℂ)) a) = storedRoots r (fun a => (ev a : ℂ)) a := by
  obtain ⟨y, _, e⟩ := storedRoots_real r ev a
  rw [e]; exact Complex.conj_ofReal y

end sqrtmC

/-! ### flat-parameter bridge -/

theorem unflatten_flatMap {β : Type} (l : List (String × List β)) :
    unflatten (l.map fun p => (p.1, p.2.length)) (l.flatMap (·.2)) = l := by
  induction l with
  | nil => rfl
  | cons p l ih =>
    simp only [List.map_cons, List.flatMap_cons, unflatten, List.take_left', List.drop_left', ih]

theorem insertByName_perm {β : Type} (p : String × β) (l : List (String × β)) : (insertByName p l).Perm (p :: l) := by
  induction l with
  | nil => exact List.Perm.refl _
  | cons q l ih =>
    simp only [insertByName]
    split
    · exact List.Perm.refl _
    · exact ((List.Perm.cons q ih).trans (List.Perm.swap p q l))

theorem sortByName_perm {β : Type} (l : List (String × β)) : (sortByName l).Perm l := by
  induction l with
  | nil => exact List.Perm.refl _
  | cons p l ih => exact (insertByName_perm p _).trans (List.Perm.cons p ih)

theorem insertByName_sorted {β : Type} (p : String × β) (l : List (String × β))
    (h : l.Pairwise fun a b => ¬ b.1 < a.1) : (insertByName p l).Pairwise fun a b => ¬ b.1 < a.1 := by
  induction l with
  | nil => simp [insertByName]
  | cons q l ih =>
    rw [List.pairwise_cons] at h
    simp only [insertByName]
    split
    · rename_i hlt
      refine List.pairwise_cons.2 ⟨?_, List.pairwise_cons.2 h⟩
      intro b hb
      rcases List.mem_cons.1 hb with rfl | hb
      · exact fun h' => absurd hlt (String.lt_asymm h')
      · intro h'
        exact h.1 b hb (String.lt_trans h' hlt)
    · rename_i hnlt
      refine List.pairwise_cons.2 ⟨?_, ih h.2⟩
      intro b hb
      rcases List.mem_cons.1 ((insertByName_perm p l).mem_iff.1 hb) with rfl | hb'
      · exact hnlt
      · exact h.1 b hb'

theorem sortByName_sorted {β : Type} (l : List (String × β)) : (sortByName l).Pairwise fun a b => ¬ b.1 < a.1 := by
  induction l with
  | nil => simp [sortByName]
  | cons p l ih => exact insertByName_sorted p _ ih

/-! ### `_setup`: rows of the stacked gate tensors -/

theorem mem_foldl_firstCome (l : List GateDesc) (acc : List ℕ) (x : ℕ) :
    x ∈ l.foldl (fun acc g => if acc.contains g.objId then acc else acc ++ [g.objId]) acc
      ↔ x ∈ acc ∨ ∃ g ∈ l, g.objId = x := by
  induction l generalizing acc with
  | nil => simp
  | cons g l ih =>
    rw [List.foldl_cons, ih]
    by_cases h : acc.contains g.objId = true
    · rw [if_pos h]
      have hm : g.objId ∈ acc := by simpa using h
      constructor
      · rintro (h1 | ⟨g', hg', rfl⟩)
        · exact Or.inl h1
        · exact Or.inr ⟨g', List.mem_cons_of_mem _ hg', rfl⟩
      · rintro (h1 | ⟨g', hg', rfl⟩)
        · exact Or.inl h1
        · rcases List.mem_cons.1 hg' with rfl | hg'
          · exact Or.inl hm
          · exact Or.inr ⟨g', hg', rfl⟩
    · rw [if_neg h]
      constructor
      · rintro (h1 | ⟨g', hg', rfl⟩)
        · rcases List.mem_append.1 h1 with h1 | h1
          · exact Or.inl h1
          · exact Or.inr ⟨g, List.mem_cons_self, (List.mem_singleton.1 h1).symm⟩
        · exact Or.inr ⟨g', List.mem_cons_of_mem _ hg', rfl⟩
      · rintro (h1 | ⟨g', hg', rfl⟩)
        · exact Or.inl (List.mem_append_left _ h1)
        · rcases List.mem_cons.1 hg' with rfl | hg'
          · exact Or.inl (List.mem_append_right _ (List.mem_singleton.2 rfl))
          · exact Or.inr ⟨g', hg', rfl⟩

theorem mem_firstComeIds (gs : List GateDesc) (nm : String) (g : GateDesc) (hg : g ∈ gs)
    (ht : g.trainable = true) (hp : g.placeholder = false) (hn : g.name = nm) : g.objId ∈ firstComeIds gs nm := by
  unfold firstComeIds
  rw [mem_foldl_firstCome]
  refine Or.inr ⟨g, ?_, rfl⟩
  simp [List.mem_filter, hg, ht, hp, hn]

theorem mem_placeholderPositions (gs : List GateDesc) (nm : String) (i : ℕ) (hi : i < gs.length)
    (hp : gs[i].placeholder = true) (hn : gs[i].name = nm) : i ∈ placeholderPositions gs nm := by
  unfold placeholderPositions
  rw [List.mem_map]
  refine ⟨(gs[i], i), ?_, rfl⟩
  rw [List.mem_filter]
  refine ⟨?_, by simp [hp, hn]⟩
  rw [List.mem_zipIdx_iff_getElem?]
  simp [hi]

/-- **the index maps of `_setup` address distinct rows**: two different gates read the same row of the same stacked tensor
only if both are trainable (non-placeholder) gates that are the *same object* (a shared parameter). -/
theorem slotOf_injective (gs : List GateDesc) (i j : ℕ) (hi : i < gs.length) (hj : j < gs.length) (p : String × ℕ)
    (h1 : slotOf gs i = some p) (h2 : slotOf gs j = some p) :
    i = j ∨ (gs[i].placeholder = false ∧ gs[j].placeholder = false ∧ gs[i].objId = gs[j].objId) := by
  unfold slotOf at h1 h2
  rw [List.getElem?_eq_getElem hi] at h1
  rw [List.getElem?_eq_getElem hj] at h2
  simp only at h1 h2
  by_cases pi : gs[i].placeholder = true
  · rw [if_pos pi] at h1
    by_cases pj : gs[j].placeholder = true
    · rw [if_pos pj] at h2
      left
      have e := h1.trans h2.symm
      simp only [Option.some.injEq, Prod.mk.injEq] at e
      obtain ⟨en, er⟩ := e
      rw [← en] at er
      have er' : (placeholderPositions gs gs[i].name).idxOf i = (placeholderPositions gs gs[i].name).idxOf j := by omega
      exact (List.idxOf_inj (mem_placeholderPositions gs _ i hi pi rfl)).1 er'
    · rw [if_neg pj] at h2
      by_cases tj : gs[j].trainable = true
      · rw [if_pos tj] at h2
        exfalso
        have e := h1.trans h2.symm
        simp only [Option.some.injEq, Prod.mk.injEq] at e
        obtain ⟨en, er⟩ := e
        have hm := mem_firstComeIds gs gs[i].name gs[j] (List.getElem_mem hj) tj (by simpa using pj) en.symm
        have := List.idxOf_lt_length_iff.2 hm
        rw [en] at er this
        omega
      · rw [if_neg tj] at h2; exact absurd h2 (by simp)
  · rw [if_neg pi] at h1
    by_cases ti : gs[i].trainable = true
    · rw [if_pos ti] at h1
      by_cases pj : gs[j].placeholder = true
      · rw [if_pos pj] at h2
        exfalso
        have e := h1.trans h2.symm
        simp only [Option.some.injEq, Prod.mk.injEq] at e
        obtain ⟨en, er⟩ := e
        have hm := mem_firstComeIds gs gs[j].name gs[i] (List.getElem_mem hi) ti (by simpa using pi) en
        have := List.idxOf_lt_length_iff.2 hm
        rw [← en] at er this
        omega
      · rw [if_neg pj] at h2
        by_cases tj : gs[j].trainable = true
        · rw [if_pos tj] at h2
          right
          refine ⟨by simpa using pi, by simpa using pj, ?_⟩
          have e := h1.trans h2.symm
          simp only [Option.some.injEq, Prod.mk.injEq] at e
          obtain ⟨en, er⟩ := e
          rw [← en] at er
          exact (List.idxOf_inj (mem_firstComeIds gs _ gs[i] (List.getElem_mem hi) ti (by simpa using pi) rfl)).1 er
        · rw [if_neg tj] at h2; exact absurd h2 (by simp)
    · rw [if_neg ti] at h1; exact absurd h1 (by simp)

/-! ### the array-level folds of the driver are the modelled folds (audit M6) -/

theorem getElem?_idxOf_self {β : Type} [DecidableEq β] (l : List β) (a : β) (h : a ∈ l) : l[l.idxOf a]? = some a := by
  have hlt : l.idxOf a < l.length := List.idxOf_lt_length_iff.2 h
  rw [List.getElem?_eq_getElem hlt, List.getElem_idxOf]

/-- **the row stacking of `CircuitTorchWrapper.forward` agrees with the row numbers of `_setup`**: the row `r` that
`ind_gate_to_info[i]['ind_torch']` names is, in `concat([theta rows, placeholder rows])`, the row of gate `i`'s own object
(trainable gate) resp. of gate `i` itself (placeholder gate). -/
theorem stack_row_of_slot (gs : List GateDesc) (i : ℕ) (hi : i < gs.length) (nm : String) (r : ℕ)
    (h : slotOf gs i = some (nm, r)) :
    (stackTags gs nm)[r]? = some (if gs[i].placeholder then (true, i) else (false, gs[i].objId)) := by
  unfold slotOf at h
  rw [List.getElem?_eq_getElem hi] at h
  simp only at h
  unfold stackTags
  by_cases hp : gs[i].placeholder = true
  · rw [if_pos hp] at h
    simp only [Option.some.injEq, Prod.mk.injEq] at h
    obtain ⟨hn, hr⟩ := h
    subst hn
    rw [if_pos hp, ← hr, List.getElem?_append_right (by simp)]
    simp only [List.length_map, Nat.add_sub_cancel, List.getElem?_map]
    rw [getElem?_idxOf_self _ _ (mem_placeholderPositions gs _ i hi hp rfl)]
    rfl
  · rw [if_neg hp] at h
    by_cases ht : gs[i].trainable = true
    · rw [if_pos ht] at h
      simp only [Option.some.injEq, Prod.mk.injEq] at h
      obtain ⟨hn, hr⟩ := h
      subst hn
      have hm := mem_firstComeIds gs gs[i].name gs[i] (List.getElem_mem hi) ht (by simpa using hp) rfl
      have hlt : (firstComeIds gs gs[i].name).idxOf gs[i].objId < (firstComeIds gs gs[i].name).length :=
        List.idxOf_lt_length_iff.2 hm
      rw [if_neg hp, ← hr, List.getElem?_append_left (by simpa using hlt)]
      simp only [List.getElem?_map]
      rw [getElem?_idxOf_self _ _ hm]
      rfl
    · rw [if_neg ht] at h; exact absurd h (by simp)

section bridge
variable {α : Type} [Add α] [Mul α] [Zero α] [Conj α] {n : Nat}

theorem forwardA_eq (Θ : Params α) (gates : List (PGate n α)) (a : Array α) :
    lookup (n := n) (forwardA Θ gates a) = forward Θ gates (lookup a) := by
  induction gates generalizing a with
  | nil => rfl
  | cons g rest ih =>
    have h1 : forwardA Θ (g :: rest) a = forwardA Θ rest (tabulate (n := n) (g.apply Θ (lookup a))) := rfl
    have h2 : forward Θ (g :: rest) (lookup a) = forward Θ rest (g.apply Θ (lookup a)) := rfl
    rw [h1, h2, ih, lookup_tabulate]

theorem paramsOf_absent (tab : ParamTable α) (k s : ℕ) (h : ∀ e ∈ tab, ¬ (e.1 = k ∧ e.2.1 = s)) :
    paramsOf tab k s = fun _ _ => 0 := by
  unfold paramsOf
  have : (tab.find? fun e => e.1 == k && e.2.1 == s) = none := by
    rw [List.find?_eq_none]; intro e he; have := h e he; simp; tauto
  rw [this]

/-- re-tabulating every entry of the table from a family `F` gives back `F` on the keys and `0` elsewhere -/
theorem paramsOf_retab (tab : ParamTable α) (F : Params α) (k s : ℕ) :
    paramsOf (tab.map fun e => (e.1, e.2.1, tabulateMat (k := e.1) (F e.1 e.2.1))) k s
      = if ∃ e ∈ tab, e.1 = k ∧ e.2.1 = s then F k s else fun _ _ => 0 := by
  unfold paramsOf
  rw [List.find?_map]
  cases hf : tab.find? ((fun e : ℕ × ℕ × Array α => e.1 == k && e.2.1 == s) ∘
      fun e => (e.1, e.2.1, tabulateMat (k := e.1) (F e.1 e.2.1))) with
  | none =>
    have hnone : ¬ ∃ e ∈ tab, e.1 = k ∧ e.2.1 = s := by
      rintro ⟨e, he, h1, h2⟩
      have := List.find?_eq_none.1 hf e he
      simp [Function.comp, h1, h2] at this
    rw [if_neg hnone]; rfl
  | some e =>
    have hmem := List.mem_of_find?_eq_some hf
    have hp := List.find?_some hf
    simp only [Function.comp, Bool.and_eq_true, beq_iff_eq] at hp
    obtain ⟨h1, h2⟩ := hp
    rw [if_pos ⟨e, hmem, h1, h2⟩]
    subst h1; subst h2
    simp only [Option.map_some]
    exact lookupMat_tabulateMat _

theorem addAt_other (G : Params α) (k0 s0 : ℕ) (D : Mat k0 α) (k s : ℕ) (h : ¬ (k = k0 ∧ s = s0)) :
    addAt G k0 s0 D k s = G k s := by
  unfold addAt
  by_cases hk : k = k0
  · have hs : ¬ s = s0 := fun e => h ⟨hk, e⟩
    simp [hk, hs]
  · simp [hk]

theorem keys_map (tab : ParamTable α) (F : Params α) (k s : ℕ) :
    (∃ e ∈ tab.map (fun e => (e.1, e.2.1, tabulateMat (k := e.1) (F e.1 e.2.1))), e.1 = k ∧ e.2.1 = s)
      ↔ ∃ e ∈ tab, e.1 = k ∧ e.2.1 = s := by
  constructor
  · rintro ⟨e, he, h1, h2⟩
    rw [List.mem_map] at he
    obtain ⟨e0, he0, rfl⟩ := he
    exact ⟨e0, he0, h1, h2⟩
  · rintro ⟨e, he, h1, h2⟩
    exact ⟨_, List.mem_map.2 ⟨e, he, rfl⟩, h1, h2⟩

/-- one gate of the driver's backward loop is one gate of the modelled loop (guard: the gate's slot is a key of the table) -/
theorem absSt_backA (Θ : Params α) (gate : PGate n α) (st : StA α) (hc : gate.Covered st.2.2) :
    absSt (n := n) (gate.backA Θ st) = gate.back Θ (absSt st) := by
  have key : ∀ (r : Vec n α × Vec n α × Params α), (∀ k s, (¬ ∃ e ∈ st.2.2, e.1 = k ∧ e.2.1 = s) → r.2.2 k s = fun _ _ => 0) →
      absSt (n := n) (tabulate r.1, tabulate r.2.1,
        st.2.2.map fun e => (e.1, e.2.1, tabulateMat (k := e.1) (r.2.2 e.1 e.2.1))) = r := by
    intro r hr
    unfold absSt
    simp only [lookup_tabulate]
    refine Prod.ext rfl (Prod.ext rfl ?_)
    funext k s
    show paramsOf _ k s = r.2.2 k s
    rw [paramsOf_retab]
    by_cases h : ∃ e ∈ st.2.2, e.1 = k ∧ e.2.1 = s
    · rw [if_pos h]
    · rw [if_neg h, hr k s h]
  have habs : ∀ k s, (¬ ∃ e ∈ st.2.2, e.1 = k ∧ e.2.1 = s) → paramsOf st.2.2 k s = fun _ _ => 0 :=
    fun k s h => paramsOf_absent _ k s (fun e he hh => h ⟨e, he, hh⟩)
  unfold PGate.backA
  apply key
  intro k s hks
  cases gate with
  | unitary src t =>
    cases src with
    | fixed U => exact habs k s hks
    | param s0 =>
      obtain ⟨e, he, h1, h2⟩ := hc
      show addAt _ _ s0 _ k s = _
      rw [addAt_other _ _ _ _ _ _ (fun hh => hks ⟨e, he, h1.trans hh.1.symm, h2.trans hh.2.symm⟩)]
      exact habs k s hks
  | control src c r tn =>
    cases src with
    | fixed U => exact habs k s hks
    | param s0 =>
      obtain ⟨e, he, h1, h2⟩ := hc
      show addAt _ _ s0 _ k s = _
      rw [addAt_other _ _ _ _ _ _ (fun hh => hks ⟨e, he, h1.trans hh.1.symm, h2.trans hh.2.symm⟩)]
      exact habs k s hks
  | custom src d =>
    cases src with
    | fixed U => exact habs k s hks
    | param s0 =>
      obtain ⟨e, he, h1, h2⟩ := hc
      show addAt _ _ s0 _ k s = _
      rw [addAt_other _ _ _ _ _ _ (fun hh => hks ⟨e, he, h1.trans hh.1.symm, h2.trans hh.2.symm⟩)]
      exact habs k s hks

theorem covered_backA (Θ : Params α) (g g' : PGate n α) (st : StA α) (h : g.Covered st.2.2) :
    g.Covered (g'.backA Θ st).2.2 := by
  unfold PGate.backA
  cases g with
  | unitary src t => cases src with
    | fixed U => trivial
    | param s0 => exact (keys_map _ _ _ _).2 h
  | control src c r tn => cases src with
    | fixed U => trivial
    | param s0 => exact (keys_map _ _ _ _).2 h
  | custom src d => cases src with
    | fixed U => trivial
    | param s0 => exact (keys_map _ _ _ _).2 h

/-- **the driver's backward sweep is the modelled `backward`** (guard: every parametrised gate's slot is a key of the table) -/
theorem backwardA_eq (Θ : Params α) (gates : List (PGate n α)) (init : StA α) (hc : ∀ g ∈ gates, g.Covered init.2.2) :
    absSt (n := n) (backwardA Θ gates init) = backward Θ gates (absSt init) ∧
    ∀ g : PGate n α, g.Covered init.2.2 → g.Covered (backwardA Θ gates init).2.2 := by
  induction gates with
  | nil => exact ⟨rfl, fun g h => h⟩
  | cons gate rest ih =>
    obtain ⟨ih1, ih2⟩ := ih (fun g hg => hc g (List.mem_cons_of_mem _ hg))
    have h1 : backwardA Θ (gate :: rest) init = gate.backA Θ (backwardA Θ rest init) := rfl
    have h2 : backward Θ (gate :: rest) (absSt init) = gate.back Θ (backward Θ rest (absSt init)) := rfl
    rw [h1, h2, ← ih1]
    exact ⟨absSt_backA Θ gate _ (ih2 gate (hc gate List.mem_cons_self)),
      fun g hg => covered_backA Θ g gate _ (ih2 g hg)⟩

omit [Add α] [Mul α] [Zero α] [Conj α] in
theorem coveredB_iff (tab : ParamTable α) (g : PGate n α) : g.coveredB tab = true ↔ g.Covered tab := by
  cases g with
  | unitary src t => cases src with
    | fixed U => simp [PGate.coveredB, PGate.Covered]
    | param s0 =>
      simp only [PGate.coveredB, PGate.Covered, List.any_eq_true, Bool.and_eq_true, beq_iff_eq]
  | control src c r tn => cases src with
    | fixed U => simp [PGate.coveredB, PGate.Covered]
    | param s0 =>
      simp only [PGate.coveredB, PGate.Covered, List.any_eq_true, Bool.and_eq_true, beq_iff_eq]
  | custom src d => cases src with
    | fixed U => simp [PGate.coveredB, PGate.Covered]
    | param s0 =>
      simp only [PGate.coveredB, PGate.Covered, List.any_eq_true, Bool.and_eq_true, beq_iff_eq]

end bridge

/-! ### the canonical slot of a gate -/

theorem repSlot_eq_iff (gs : List GateDesc) (i j : ℕ) (hi : i < gs.length)
    (p q : String × ℕ) (h1 : slotOf gs i = some p) (h2 : slotOf gs j = some q) :
    repSlot gs i = repSlot gs j ↔ p = q := by
  unfold repSlot
  rw [h1, h2]
  simp only
  constructor
  · intro h
    have hfi : ∃ a, (List.range gs.length).find? (fun j => slotOf gs j == some p) = some a := by
      rw [← Option.isSome_iff_exists, List.find?_isSome]
      exact ⟨i, List.mem_range.2 hi, by simp [h1]⟩
    obtain ⟨a, ha⟩ := hfi
    have hb := h ▸ ha
    have e1 := List.find?_some ha
    have e2 := List.find?_some hb
    simp only [beq_iff_eq] at e1 e2
    exact Option.some.inj (e1.symm.trans e2)
  · rintro rfl; rfl

/-! ### the tabulated Sylvester loop of the driver is `sylvBackward` (audit M6) -/

section sylvbridge
variable {α : Type} [Add α] [Mul α] [Div α] [Zero α] [Conj α] [DecidableEq α]

omit [Mul α] [Div α] [Conj α] [DecidableEq α] in
theorem sumRange_congr (n : ℕ) (f g : ℕ → α) (h : ∀ i, i < n → f i = g i) : sumRange n f = sumRange n g := by
  induction n with
  | zero => rfl
  | succ n ih =>
    simp only [sumRange]
    rw [ih (fun i hi => h i (Nat.lt_succ_of_lt hi)), h n (Nat.lt_succ_self n)]

omit [Add α] [Mul α] [Div α] [Conj α] [DecidableEq α] in
theorem ofTab_tabMat (m : ℕ) (X : ℕ → ℕ → α) (i j : ℕ) (hi : i < m) (hj : j < m) : ofTab m (tabMat m X) i j = X i j := by
  unfold ofTab tabMat
  have hlt : i * m + j < m * m := mul_add_lt hi hj
  rw [getD_ofFn _ _ hlt]
  simp only [div_of_lt hj, mod_of_lt hj]

theorem sylvStep_congr (m : ℕ) (V : ℕ → ℕ → α) (s : ℕ → α) (G G' : ℕ → ℕ → α)
    (h : ∀ p q, p < m → q < m → G p q = G' p q) : sylvStep m V s G = sylvStep m V s G' := by
  have hin : ∀ a b, rotateIn m V G a b = rotateIn m V G' a b := by
    intro a b
    unfold rotateIn
    refine sumRange_congr m _ _ fun p hp => sumRange_congr m _ _ fun q hq => ?_
    rw [h p q hp hq]
  funext i j
  unfold sylvStep rotateOut
  simp only [hin]

theorem sylvBackward_congr (m : ℕ) (V : ℕ → ℕ → α) (r : ℕ) (s : ℕ → α) (G G' : ℕ → ℕ → α)
    (h : ∀ p q, p < m → q < m → G p q = G' p q) (i j : ℕ) (hi : i < m) (hj : j < m) :
    sylvBackward m V r s G i j = sylvBackward m V r s G' i j := by
  cases r with
  | zero => exact h i j hi hj
  | succ r =>
    show sylvBackward m V r _ (sylvStep m V s G) i j = sylvBackward m V r _ (sylvStep m V s G') i j
    rw [sylvStep_congr m V s G G' h]

/-- **the driver's tabulated loop computes `sylvBackward`** on the `m × m` block -/
theorem sylvBackwardA_eq (m : ℕ) (V : ℕ → ℕ → α) (r : ℕ) (s : ℕ → α) (G : Array α) (i j : ℕ) (hi : i < m) (hj : j < m) :
    ofTab m (sylvBackwardA m V r s G) i j = sylvBackward m V r s (ofTab m G) i j := by
  induction r generalizing s G with
  | zero => rfl
  | succ r ih =>
    show ofTab m (sylvBackwardA m V r _ (tabMat m (sylvStep m V s (ofTab m G)))) i j
      = sylvBackward m V r _ (sylvStep m V s (ofTab m G)) i j
    rw [ih]
    exact sylvBackward_congr m V r _ _ _ (fun p q hp hq => ofTab_tabMat m _ p q hp hq) i j hi hj

end sylvbridge

/-! ### hand-off bookkeeping -/

theorem insertByName_of_lt {β : Type} (p q : String × β) (l : List (String × β)) (h : p.1 < q.1) :
    insertByName p (q :: l) = p :: q :: l := by simp [insertByName, h]

theorem sortByName_of_sorted {β : Type} (l : List (String × β)) (h : l.Pairwise fun a b => a.1 < b.1) : sortByName l = l := by
  induction l with
  | nil => rfl
  | cons p l ih =>
    rw [List.pairwise_cons] at h
    show insertByName p (sortByName l) = p :: l
    rw [ih h.2]
    cases l with
    | nil => rfl
    | cons q l => exact insertByName_of_lt p q l (h.1 q List.mem_cons_self)

theorem unflatten_names {β : Type} (sh : List (String × ℕ)) (θ : List β) : (unflatten sh θ).map (·.1) = sh.map (·.1) := by
  induction sh generalizing θ with
  | nil => rfl
  | cons p sh ih => simp [unflatten, ih]

theorem flatMap_unflatten {β : Type} (sh : List (String × ℕ)) (θ : List β) (hlen : θ.length = (sh.map (·.2)).sum) :
    (unflatten sh θ).flatMap (·.2) = θ := by
  induction sh generalizing θ with
  | nil => simp at hlen; simp [unflatten, hlen]
  | cons p sh ih =>
    simp only [List.map_cons, List.sum_cons] at hlen
    simp only [unflatten, List.flatMap_cons]
    rw [ih (θ.drop p.2) (by simp [List.length_drop]; omega), List.take_append_drop]

end Backward
end Numqi
