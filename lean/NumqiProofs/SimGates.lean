/-
Helper lemmas for the gate vocabulary (C03): flat arrays as matrices over `Fin d`, transfer of unitarity to the
bit-vector indexed operators of the simulator model, unitarity of every gate array of `NumqiModel/Gates.lean`.
-/
import NumqiProofs.SimLemmas
import NumqiModel.Gates

namespace Numqi
open Function Matrix
variable {R : Type}

/-- the flat row-major array as a `d × d` matrix -/
def flatMat [Zero R] (d : Nat) (a : Array R) : Matrix (Fin d) (Fin d) R := fun i j => a.getD (i.val * d + j.val) 0

/-- `p` is the cosine/sine pair of a real angle: both entries self-adjoint, `c² + s² = 1` -/
structure CS.Valid [Mul R] [Add R] [One R] [Star R] (p : CS R) : Prop where
  real_c : star p.c = p.c
  real_s : star p.s = p.s
  norm : p.c * p.c + p.s * p.s = 1

theorem of_lookupMat_eq [Zero R] (k : Nat) (a : Array R) :
    Matrix.of (lookupMat (k := k) a)
      = (flatMat (2 ^ k) a).submatrix (Bits.equivFin k).symm (Bits.equivFin k).symm := by
  ext x y
  simp [lookupMat, flatMat, Bits.equivFin]

/-- a flat array that is unitary as a `2^k × 2^k` matrix is a unitary operator on `k` qubits -/
theorem lookupMat_unitary [CommRing R] [StarRing R] {d k : Nat} (hd : d = 2 ^ k) (a : Array R)
    (h : flatMat d a ∈ Matrix.unitaryGroup (Fin d) R) :
    Matrix.of (lookupMat (k := k) a) ∈ Matrix.unitaryGroup (Bits k) R := by
  subst hd
  rw [Matrix.mem_unitaryGroup_iff] at h ⊢
  rw [of_lookupMat_eq, Matrix.star_eq_conjTranspose, Matrix.conjTranspose_submatrix, Matrix.submatrix_mul_equiv,
    ← Matrix.star_eq_conjTranspose, h, Matrix.submatrix_one_equiv]

end Numqi
