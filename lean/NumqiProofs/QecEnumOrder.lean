/-
C19: `0 ≤ A_j ≤ B_j` for the model of `quantum_weight_enumerator` over ℂ (Cauchy–Schwarz).
-/
import NumqiProofs.QecEnum
import Mathlib.Data.Complex.BigOperators
import Mathlib.Algebra.Order.Chebyshev

namespace Numqi.Qec
open Complex

attribute [local instance] starConj

/-- a complex number that is a non-negative real -/
def NonnegReal (z : ℂ) : Prop := z.im = 0 ∧ 0 ≤ z.re

theorem star_mul_self_eq (z : ℂ) : star z * z = (normSq z : ℂ) := by
  rw [Complex.star_def, ← normSq_eq_conj_mul_self]

theorem normSq_sum_le (K : Nat) (f : Nat → ℂ) :
    normSq (∑ a ∈ Finset.range K, f a) ≤ K * ∑ a ∈ Finset.range K, normSq (f a) := by
  rw [normSq_apply, re_sum, im_sum]
  have h1 := sq_sum_le_card_mul_sum_sq (s := Finset.range K) (f := fun a => (f a).re)
  have h2 := sq_sum_le_card_mul_sum_sq (s := Finset.range K) (f := fun a => (f a).im)
  simp only [Finset.card_range] at h1 h2
  have : ∑ a ∈ Finset.range K, normSq (f a) = ∑ a ∈ Finset.range K, (f a).re ^ 2 + ∑ a ∈ Finset.range K, (f a).im ^ 2 := by
    rw [← Finset.sum_add_distrib]; apply Finset.sum_congr rfl; intro a _; rw [normSq_apply]; ring
  rw [this]
  nlinarith [h1, h2]

/-- one operator: `|Σ_a M_aa|²` and `Σ_ab |M_ab|²` are non-negative reals and the first is at most `K` times the second -/
theorem enumTerm_order (n K : Nat) (c : Nat → Nat → ℂ) (p : MP) :
    NonnegReal (enumTerm Complex.I n ((List.range K).map c) p).1
    ∧ NonnegReal (enumTerm Complex.I n ((List.range K).map c) p).2
    ∧ (enumTerm Complex.I n ((List.range K).map c) p).1.re ≤ K * (enumTerm Complex.I n ((List.range K).map c) p).2.re := by
  rw [enumTerm_eq]
  simp only [star_mul_self_eq]
  set M : Nat → Nat → ℂ := fun a b => ip n (c a) (pauliAct Complex.I p (c b)) with hM
  have h2 : (∑ a ∈ Finset.range K, ∑ b ∈ Finset.range K, ((normSq (M a b) : ℝ) : ℂ))
      = ((∑ a ∈ Finset.range K, ∑ b ∈ Finset.range K, normSq (M a b) : ℝ) : ℂ) := by
    push_cast; rfl
  rw [h2]
  refine ⟨⟨by simp, by simp [normSq_nonneg]⟩, ⟨by simp, ?_⟩, ?_⟩
  · rw [ofReal_re]; exact Finset.sum_nonneg (fun a _ => Finset.sum_nonneg (fun b _ => normSq_nonneg _))
  · rw [ofReal_re, ofReal_re]
    calc normSq (∑ a ∈ Finset.range K, M a a) ≤ K * ∑ a ∈ Finset.range K, normSq (M a a) := normSq_sum_le K _
      _ ≤ K * ∑ a ∈ Finset.range K, ∑ b ∈ Finset.range K, normSq (M a b) := by
        apply mul_le_mul_of_nonneg_left _ (Nat.cast_nonneg K)
        apply Finset.sum_le_sum
        intro a ha
        exact Finset.single_le_sum (f := fun b => normSq (M a b)) (fun b _ => normSq_nonneg _) ha

theorem NonnegReal.add {z w : ℂ} (hz : NonnegReal z) (hw : NonnegReal w) : NonnegReal (z + w) :=
  ⟨by rw [add_im, hz.1, hw.1, add_zero], by rw [add_re]; exact add_nonneg hz.2 hw.2⟩

theorem list_order (K : Nat) (l : List (ℂ × ℂ))
    (h : ∀ t ∈ l, NonnegReal t.1 ∧ NonnegReal t.2 ∧ t.1.re ≤ K * t.2.re) :
    NonnegReal (sumL (l.map fun t : ℂ × ℂ => t.1)) ∧ NonnegReal (sumL (l.map fun t : ℂ × ℂ => t.2))
      ∧ (sumL (l.map fun t : ℂ × ℂ => t.1)).re ≤ K * (sumL (l.map fun t : ℂ × ℂ => t.2)).re := by
  induction l with
  | nil => simp [sumL, NonnegReal]
  | cons t l ih =>
    obtain ⟨a, b, c⟩ := h t (List.mem_cons_self ..)
    obtain ⟨a', b', c'⟩ := ih (fun t' ht' => h t' (List.mem_cons_of_mem _ ht'))
    simp only [List.map_cons, sumL, List.foldr_cons] at *
    refine ⟨a.add a', b.add b', ?_⟩
    rw [add_re, add_re]; nlinarith

/-- **`0 ≤ A_j ≤ B_j`** for every entry of the model of `quantum_weight_enumerator` over ℂ:
`retA'[w] = K² A_{w+1}` and `retB'[w] = K B_{w+1}` are non-negative reals with `retA'[w] ≤ K · retB'[w]`. -/
theorem weightEnum_order (n K : Nat) (c : Nat → Nat → ℂ) (w : Nat) :
    NonnegReal (enumLevel Complex.I n ((List.range K).map c) w).1
    ∧ NonnegReal (enumLevel Complex.I n ((List.range K).map c) w).2
    ∧ (enumLevel Complex.I n ((List.range K).map c) w).1.re ≤ K * (enumLevel Complex.I n ((List.range K).map c) w).2.re := by
  unfold enumLevel
  apply list_order
  intro t ht
  rw [List.mem_map] at ht
  obtain ⟨p, _, rfl⟩ := ht
  exact enumTerm_order n K c p

end Numqi.Qec
