/-
C09: analysis of one level of `from_int_tuple` / `to_int_tuple` (the coset construction by
transvections) — membership in Sp, well-formedness, and the round trip.
-/
import NumqiProofs.SpF2Lemmas

namespace Numqi.SpF2

/-! ### conjugating a transvection by transvections -/

theorem tv_tv_conj (n x y c : Nat) : tv n (tv n y c) (tv n x c) = tv n (tv n y x) c := by
  have h : tv n (tv n y c) (tv n x c) = tv n y c ^^^ (if ip n y x then tv n x c else 0) := by
    conv_lhs => rw [tv]
    rw [ip_tv_tv]
  rw [h]
  conv_rhs => rw [tv.eq_1 n y x]
  rw [tv_xor]
  by_cases hyx : ip n y x = true
  · simp [hyx]
  · simp [hyx, tv_zero_left]

/-- the composite `T0 ∘ T1` of the two transvections of `find_transvection(e1, a+1)` -/
def cmap (n a x : Nat) : Nat := tv n (tv n x (findTv n 1 (a + 1)).2) (findTv n 1 (a + 1)).1

/-- the remaining transvections `h0`, (`f1`) pulled back through `cmap`: by `e'`, then (if `b[0] = 0`) by `e1` -/
def dmap (n b x : Nat) : Nat :=
  if b.testBit 0 then tv n x (ePrime n b) else tv n (tv n x (ePrime n b)) 1

theorem cmap_conj (n a x y : Nat) : tv n (cmap n a y) (cmap n a x) = cmap n a (tv n y x) := by
  unfold cmap; rw [tv_tv_conj, tv_tv_conj]

theorem ip_cmap (n a x y : Nat) : ip n (cmap n a x) (cmap n a y) = ip n x y := by
  unfold cmap; rw [ip_tv_tv, ip_tv_tv]

theorem one_lt_four_pow {n : Nat} (hn : 0 < n) : 1 < 4 ^ n :=
  Nat.one_lt_pow (by omega) (by norm_num)

theorem cmap_one {n a : Nat} (hn : 0 < n) (ha : a + 1 < 4 ^ n) : cmap n a 1 = a + 1 :=
  findTv_spec_rev n 1 (a + 1) (by norm_num) (by omega) (one_lt_four_pow hn) ha

theorem cmap_lt {n a x : Nat} (hn : 0 < n) (ha : a + 1 < 4 ^ n) (hx : x < 4 ^ n) : cmap n a x < 4 ^ n := by
  have := findTv_lt n 1 (a + 1) (by norm_num) (by omega) (one_lt_four_pow hn) ha
  rw [four_pow] at *
  exact tv_lt (tv_lt hx this.2) this.1

/-- `to_int_tuple`'s composite undoes `cmap` -/
theorem cmap_undo (n a x : Nat) :
    tv n (tv n (cmap n a x) (findTv n (a + 1) 1).2) (findTv n (a + 1) 1).1 = x :=
  findTv_undo n 1 (a + 1) x

theorem tvs_nil (n x : Nat) : tvs n x [] = x := rfl
theorem tvs_cons (n x h : Nat) (hs : List Nat) : tvs n x (h :: hs) = tvs n (tv n x h) hs := rfl

theorem ip_tvs (n x y : Nat) (hs : List Nat) : ip n (tvs n x hs) (tvs n y hs) = ip n x y := by
  induction hs generalizing x y with
  | nil => rfl
  | cons h hs ih => rw [tvs_cons, tvs_cons, ih, ip_tv_tv]

/-- all transvections of one level, in terms of `cmap` and `dmap` -/
theorem tvs_stepHs {n a b : Nat} (hn : 0 < n) (ha : a + 1 < 4 ^ n) (x : Nat) :
    tvs n x (stepHs n a b) = cmap n a (dmap n b x) := by
  have h1 := cmap_one hn ha
  simp only [stepHs, dmap]
  by_cases hb : b.testBit 0 = true
  · simp only [hb, if_true, tvs_cons, tvs_nil]
    exact cmap_conj n a (ePrime n b) x
  · have hb' : b.testBit 0 = false := by simpa using hb
    simp only [hb', Bool.false_eq_true, if_false, tvs_cons, tvs_nil]
    change tv n (tv n (cmap n a x) (cmap n a (ePrime n b))) (a + 1) = _
    rw [cmap_conj]
    have := cmap_conj n a 1 (tv n x (ePrime n b))
    rw [h1] at this
    exact this

/-! ### the vector `e'` and friends -/

theorem one_eq : (1 : Nat) = 2 ^ 0 := rfl

theorem ip_one_right {n : Nat} (hn : 0 < n) (v : Nat) : ip n v 1 = v.testBit n := by
  have := ip_bit_lo n v 0 hn
  simpa using this

theorem ip_one_left {n : Nat} (hn : 0 < n) (v : Nat) : ip n 1 v = v.testBit n := by
  rw [ip_comm, ip_one_right hn]

theorem ip_pown_right {n : Nat} (hn : 0 < n) (v : Nat) : ip n v (2 ^ n) = v.testBit 0 := by
  have := ip_bit_hi n v 0 hn
  simpa using this

theorem ePrime_zero {n : Nat} (hn : 0 < n) (b : Nat) : (ePrime n b).testBit 0 = true := by
  rw [ePrime, testBit_ofFn]; simp [hn]

theorem ePrime_n {n : Nat} (hn : 0 < n) (b : Nat) : (ePrime n b).testBit n = false := by
  have h : n ≠ 0 := by omega
  simp [ePrime, testBit_ofFn, h]

theorem ePrime_lt (n b : Nat) : ePrime n b < 4 ^ n := by
  rw [four_pow]; exact ofFn_lt _ _

theorem testBit_tv (n x h j : Nat) : (tv n x h).testBit j = (x.testBit j ^^ (ip n x h && h.testBit j)) := by
  unfold tv; cases ip n x h <;> simp [Nat.testBit_xor]

/-- on vectors whose entry `n` is `0`, `dmap` is the single transvection by `e'` … -/
theorem dmap_of_n {n b x : Nat} (hn : 0 < n) (hx : x.testBit n = false) : dmap n b x = tv n x (ePrime n b) := by
  unfold dmap
  split
  · rfl
  · have : ip n (tv n x (ePrime n b)) 1 = false := by
      rw [ip_one_right hn, testBit_tv, hx, ePrime_n hn]; simp
    conv_lhs => rw [tv, this]
    simp

/-- … and an involution there. -/
theorem dmap_dmap {n b x : Nat} (hn : 0 < n) (hx : x.testBit n = false) : dmap n b (dmap n b x) = x := by
  rw [dmap_of_n hn hx, dmap_of_n hn, tv_involutive]
  rw [testBit_tv, hx, ePrime_n hn]; simp

theorem dmap_one {n : Nat} (hn : 0 < n) (b : Nat) : dmap n b 1 = 1 := by
  have h1 : tv n 1 (ePrime n b) = 1 := by
    unfold tv; rw [ip_one_left hn, ePrime_n hn]; simp
  unfold dmap
  split
  · exact h1
  · rw [h1]; unfold tv; rw [ip_self]; simp

/-- the vector `[b[0], b[1:n], 1, b[n:]]` -/
def wOf (n b : Nat) : Nat :=
  ofFn (2 * n) fun j => if j < n then b.testBit j else if j = n then true else b.testBit (j - 1)

theorem dmap_pown {n : Nat} (hn : 0 < n) (b : Nat) : dmap n b (2 ^ n) = wOf n b := by
  have hn0 : n ≠ 0 := by omega
  have h1 : tv n (2 ^ n) (ePrime n b) = 2 ^ n ^^^ ePrime n b := by
    unfold tv; rw [ip_comm, ip_pown_right hn, ePrime_zero hn]; simp
  unfold dmap
  split
  · rename_i hb
    rw [h1]
    apply Nat.eq_of_testBit_eq; intro j
    simp only [wOf, ePrime, Nat.testBit_xor, testBit_ofFn, Nat.testBit_two_pow]
    by_cases hj0 : j = 0
    · subst hj0; simp [hn, hn0, hb]
    by_cases hjn : j = n
    · subst hjn; (simp [hj0]; omega)
    by_cases hjl : j < n
    · have : j < 2 * n := by omega
      have hnj : n ≠ j := fun h => hjn h.symm
      simp [hj0, hjl, this, hnj]
    · have hnj : n ≠ j := fun h => hjn h.symm
      simp [hj0, hjn, hjl, hnj]
  · rename_i hb
    have hb' : b.testBit 0 = false := by simpa using hb
    rw [h1]
    have h2 : ip n (2 ^ n ^^^ ePrime n b) 1 = true := by
      rw [ip_one_right hn, Nat.testBit_xor, ePrime_n hn]; simp
    unfold tv; rw [h2]; simp only [if_true]
    apply Nat.eq_of_testBit_eq; intro j
    simp only [wOf, ePrime, Nat.testBit_xor, testBit_ofFn, Nat.testBit_two_pow]
    by_cases hj0 : j = 0
    · subst hj0; simp [hn, hn0, hb']
    have h1j : (1 : Nat).testBit j = false := by
      cases hc : (1 : Nat).testBit j
      · rfl
      · exact absurd (Nat.testBit_one_eq_true_iff_self_eq_zero.mp hc) hj0
    by_cases hjn : j = n
    · subst hjn; (simp [hj0, h1j]; omega)
    by_cases hjl : j < n
    · have : j < 2 * n := by omega
      have hnj : n ≠ j := fun h => hjn h.symm
      simp [hj0, hjl, this, hnj, h1j]
    · have hnj : n ≠ j := fun h => hjn h.symm
      simp [hj0, hjn, hjl, hnj, h1j]

/-! ### rows of the matrices -/

theorem getD_map_range (m k : Nat) (f : Nat → Nat) (hk : k < m) : ((List.range m).map f).getD k 0 = f k := by
  simp [List.getD_eq_getElem?_getD, hk]

theorem getD_map (l : List Nat) (f : Nat → Nat) (k : Nat) (hk : k < l.length) :
    (l.map f).getD k 0 = f (l.getD k 0) := by
  simp [List.getD_eq_getElem?_getD, hk]

theorem getD_eq_getElem' (l : List Nat) (k : Nat) (h : k < l.length) : l.getD k 0 = l[k] := by
  simp [List.getD_eq_getElem?_getD, h]

/-- well-formed `2n × 2n` bit matrix -/
def WF (n : Nat) (M : List Nat) : Prop := M.length = 2 * n ∧ ∀ k, k < 2 * n → M.getD k 0 < 4 ^ n

/-- the rows are a symplectic basis: `S Λ Sᵀ = Λ` -/
def RowsSp (n : Nat) (M : List Nat) : Prop :=
  ∀ i j, i < 2 * n → j < 2 * n → ip n (M.getD i 0) (M.getD j 0) = lam n i j

theorem isSp_iff (n : Nat) (M : List Nat) : isSp n M = true ↔ WF n M ∧ RowsSp n M := by
  unfold isSp WF RowsSp
  simp only [Bool.and_eq_true, beq_iff_eq, List.all_eq_true, decide_eq_true_eq, List.mem_range]
  constructor
  · rintro ⟨⟨h1, h2⟩, h3⟩
    refine ⟨⟨h1, ?_⟩, fun i j hi hj => h3 i hi j hj⟩
    intro k hk
    have : M.getD k 0 = M[k]'(by omega) := by simp [List.getD_eq_getElem?_getD, h1, hk]
    rw [this]; exact h2 _ (List.getElem_mem _)
  · rintro ⟨⟨h1, h2⟩, h3⟩
    refine ⟨⟨h1, ?_⟩, fun i hi j hj => h3 i j hi hj⟩
    intro r hr
    obtain ⟨k, hk, rfl⟩ := List.getElem_of_mem hr
    have := h2 k (by omega)
    simpa [List.getD_eq_getElem?_getD, hk] using this

theorem testBit_embedRow (n r j : Nat) :
    (embedRow n r).testBit j = (decide (j < 2 * n) &&
      (if j = 0 then false else if j < n then r.testBit (j - 1) else if j = n then false else r.testBit (j - 2))) := by
  rw [embedRow, testBit_ofFn]

theorem embedRow_lt (n r : Nat) : embedRow n r < 4 ^ n := by
  rw [four_pow]; exact ofFn_lt _ _

theorem embedRow_zero (n r : Nat) : (embedRow n r).testBit 0 = false := by
  rw [testBit_embedRow]; simp

theorem embedRow_n (n r : Nat) : (embedRow n r).testBit n = false := by
  rw [testBit_embedRow]; simp

theorem cutRow_embedRow {n r : Nat} (hn : 0 < n) (hr : r < 4 ^ (n - 1)) : cutRow n (embedRow n r) = r := by
  apply Nat.eq_of_testBit_eq; intro j
  rw [cutRow, testBit_ofFn]
  rw [four_pow] at hr
  by_cases hj : j < 2 * (n - 1)
  · by_cases hj2 : j < n - 1
    · have h1 : j + 1 < 2 * n := by omega
      have h2 : j + 1 < n := by omega
      simp [hj, hj2, testBit_embedRow, h1, h2]
    · have h1 : j + 2 < 2 * n := by omega
      have h2 : ¬ j + 2 < n := by omega
      have h3 : j + 2 ≠ n := by omega
      simp [hj, hj2, testBit_embedRow, h1, h2, h3]
  · simp [hj, testBit_eq_false_of_lt hr (by omega : 2 * (n - 1) ≤ j)]

theorem ipUpTo_embedRow (n r s k : Nat) (hk : k + 1 ≤ n) :
    ipUpTo n (embedRow n r) (embedRow n s) (k + 1) = ipUpTo (n - 1) r s k := by
  induction k with
  | zero =>
    simp [ipUpTo, ipTerm, embedRow_zero, embedRow_n]
  | succ k ih =>
    rw [ipUpTo, ih (by omega), ipUpTo]
    congr 1
    simp only [ipTerm, testBit_embedRow]
    have h1 : k + 1 < 2 * n := by omega
    have h2 : k + 1 < n := by omega
    have h3 : k + 1 + n < 2 * n := by omega
    have h4 : ¬ k + 1 + n < n := by omega
    have h5 : k + 1 + n ≠ n := by omega
    have h6 : k + 1 + n - 2 = k + (n - 1) := by omega
    simp [h1, h2, h3, h4, h5, h6]

theorem ip_embedRow {n : Nat} (hn : 0 < n) (r s : Nat) :
    ip n (embedRow n r) (embedRow n s) = ip (n - 1) r s := by
  unfold ip
  obtain ⟨m, rfl⟩ : ∃ m, n = m + 1 := ⟨n - 1, by omega⟩
  exact ipUpTo_embedRow (m + 1) r s m le_rfl

/-- row `k` of the matrix `g` -/
def gRow (n : Nat) (sub : List Nat) (k : Nat) : Nat :=
  if k = 0 then 1 else if k < n then embedRow n (sub.getD (k - 1) 0)
  else if k = n then 2 ^ n else embedRow n (sub.getD (k - 2) 0)

theorem embedMat_getD {n k : Nat} (sub : List Nat) (hk : k < 2 * n) : (embedMat n sub).getD k 0 = gRow n sub k := by
  unfold embedMat; rw [getD_map_range _ _ _ hk]; rfl

theorem embedMat_length (n : Nat) (sub : List Nat) : (embedMat n sub).length = 2 * n := by
  simp [embedMat]

theorem gRow_lt {n : Nat} (hn : 0 < n) (sub : List Nat) (k : Nat) : gRow n sub k < 4 ^ n := by
  unfold gRow
  split
  · exact one_lt_four_pow hn
  split
  · exact embedRow_lt _ _
  split
  · rw [four_pow]; exact Nat.pow_lt_pow_right (by norm_num) (by omega)
  · exact embedRow_lt _ _

theorem stepFrom_getD {n a b k : Nat} (hn : 0 < n) (ha : a + 1 < 4 ^ n) (sub : List Nat) (hk : k < 2 * n) :
    (stepFrom n a b sub).getD k 0 = cmap n a (dmap n b (gRow n sub k)) := by
  unfold stepFrom
  rw [getD_map _ _ _ (by rw [embedMat_length]; exact hk), embedMat_getD sub hk, tvs_stepHs hn ha]

theorem stepFrom_length (n a b : Nat) (sub : List Nat) : (stepFrom n a b sub).length = 2 * n := by
  simp [stepFrom, embedMat_length]

theorem dmap_lt {n b x : Nat} (hn : 0 < n) (hx : x < 4 ^ n) : dmap n b x < 4 ^ n := by
  have he := ePrime_lt n b
  have h1 := one_lt_four_pow hn
  rw [four_pow] at *
  unfold dmap; split
  · exact tv_lt hx he
  · exact tv_lt (tv_lt hx he) h1

theorem ip_dmap (n b x y : Nat) : ip n (dmap n b x) (dmap n b y) = ip n x y := by
  unfold dmap; split
  · rw [ip_tv_tv]
  · rw [ip_tv_tv, ip_tv_tv]

theorem stepFrom_WF {n a b : Nat} (hn : 0 < n) (ha : a + 1 < 4 ^ n) (sub : List Nat) : WF n (stepFrom n a b sub) := by
  refine ⟨stepFrom_length _ _ _ _, fun k hk => ?_⟩
  rw [stepFrom_getD hn ha sub hk]
  exact cmap_lt hn ha (dmap_lt hn (gRow_lt hn sub k))

theorem lam_iff (n i j : Nat) : lam n i j = true ↔ (j = i + n ∨ i = j + n) := by simp [lam]

theorem lam_false {n i j : Nat} (h : ¬ (j = i + n ∨ i = j + n)) : lam n i j = false := by
  rw [← Bool.not_eq_true, lam_iff]; exact h

theorem lam_true {n i j : Nat} (h : j = i + n ∨ i = j + n) : lam n i j = true := (lam_iff n i j).2 h

theorem lam_congr {n i j n' i' j' : Nat} (h : (j' = i' + n' ∨ i' = j' + n') ↔ (j = i + n ∨ i = j + n)) :
    lam n' i' j' = lam n i j := by
  rw [Bool.eq_iff_iff, lam_iff, lam_iff]; exact h

/-- the matrix `g` is symplectic when the embedded smaller matrix is -/
theorem gRow_sp {n : Nat} (hn : 0 < n) (sub : List Nat) (hs : RowsSp (n - 1) sub) (i j : Nat)
    (hi : i < 2 * n) (hj : j < 2 * n) : ip n (gRow n sub i) (gRow n sub j) = lam n i j := by
  have hn0 : n ≠ 0 := by omega
  have hpn0 : (2 ^ n).testBit 0 = false := by rw [Nat.testBit_two_pow]; simp [hn0]
  have hpnn : (2 ^ n).testBit n = true := Nat.testBit_two_pow_self
  have h1n : (1 : Nat).testBit n = false := by
    cases hc : (1 : Nat).testBit n
    · rfl
    · exact absurd (Nat.testBit_one_eq_true_iff_self_eq_zero.mp hc) hn0
  have h10 : (1 : Nat).testBit 0 = true := Nat.testBit_one_zero
  unfold gRow
  by_cases hi0 : i = 0
  · subst hi0
    simp only [if_true, ip_one_left hn]
    by_cases hj0 : j = 0
    · subst hj0; simp only [if_true]; rw [h1n, lam_false (by omega)]
    by_cases hjl : j < n
    · simp only [hj0, hjl, if_true, if_false, embedRow_n]; rw [lam_false (by omega)]
    by_cases hjn : j = n
    · subst hjn; simp only [hj0, hjl, if_true, if_false]; rw [hpnn, lam_true (by omega)]
    · simp only [hj0, hjl, hjn, if_false, embedRow_n]; rw [lam_false (by omega)]
  by_cases hil : i < n
  · simp only [hi0, hil, if_true, if_false]
    by_cases hj0 : j = 0
    · subst hj0
      simp only [if_true, ip_one_right hn, embedRow_n]; rw [lam_false (by omega)]
    by_cases hjl : j < n
    · simp only [hj0, hjl, if_true, if_false, ip_embedRow hn]
      rw [hs _ _ (by omega) (by omega)]
      exact lam_congr (by omega)
    by_cases hjn : j = n
    · subst hjn
      simp only [hj0, hjl, if_true, if_false, ip_pown_right hn, embedRow_zero]; rw [lam_false (by omega)]
    · simp only [hj0, hjl, hjn, if_false, ip_embedRow hn]
      rw [hs _ _ (by omega) (by omega)]
      exact lam_congr (by omega)
  by_cases hin : i = n
  · subst hin
    simp only [hi0, hil, if_true, if_false]
    rw [ip_comm, ip_pown_right hn]
    by_cases hj0 : j = 0
    · subst hj0; simp only [if_true]; rw [h10, lam_true (by omega)]
    by_cases hjl : j < i
    · simp only [hj0, hjl, if_true, if_false, embedRow_zero]; rw [lam_false (by omega)]
    by_cases hjn : j = i
    · subst hjn; simp only [hj0, hjl, if_true, if_false]; rw [hpn0, lam_false (by omega)]
    · simp only [hj0, hjl, hjn, if_false, embedRow_zero]; rw [lam_false (by omega)]
  · simp only [hi0, hil, hin, if_false]
    by_cases hj0 : j = 0
    · subst hj0
      simp only [if_true, ip_one_right hn, embedRow_n]; rw [lam_false (by omega)]
    by_cases hjl : j < n
    · simp only [hj0, hjl, if_true, if_false, ip_embedRow hn]
      rw [hs _ _ (by omega) (by omega)]
      exact lam_congr (by omega)
    by_cases hjn : j = n
    · subst hjn
      simp only [hj0, hjl, if_true, if_false, ip_pown_right hn, embedRow_zero]; rw [lam_false (by omega)]
    · simp only [hj0, hjl, hjn, if_false, ip_embedRow hn]
      rw [hs _ _ (by omega) (by omega)]
      exact lam_congr (by omega)

theorem stepFrom_sp {n a b : Nat} (hn : 0 < n) (ha : a + 1 < 4 ^ n) (sub : List Nat) (hs : RowsSp (n - 1) sub) :
    RowsSp n (stepFrom n a b sub) := by
  intro i j hi hj
  rw [stepFrom_getD hn ha sub hi, stepFrom_getD hn ha sub hj, ip_cmap, ip_dmap]
  exact gRow_sp hn sub hs i j hi hj

/-! ### `to_int_tuple` on the image of one level -/

theorem testBit_wOf (n b j : Nat) :
    (wOf n b).testBit j = (decide (j < 2 * n) &&
      (if j < n then b.testBit j else if j = n then true else b.testBit (j - 1))) := by
  rw [wOf, testBit_ofFn]

theorem gRow_zero (n : Nat) (sub : List Nat) : gRow n sub 0 = 1 := by simp [gRow]

theorem gRow_n {n : Nat} (hn : 0 < n) (sub : List Nat) : gRow n sub n = 2 ^ n := by
  have : n ≠ 0 := by omega
  simp [gRow, this]

section level
variable {n a b : Nat} (hn : 0 < n) (ha : a + 1 < 4 ^ n) (hb : b < 2 ^ (2 * n - 1)) (sub : List Nat)
include hn ha

theorem stepFrom_row0 : (stepFrom n a b sub).getD 0 0 = a + 1 := by
  rw [stepFrom_getD hn ha sub (by omega), gRow_zero, dmap_one hn, cmap_one hn ha]

theorem stepFrom_rown : (stepFrom n a b sub).getD n 0 = cmap n a (wOf n b) := by
  rw [stepFrom_getD hn ha sub (by omega), gRow_n hn, dmap_pown hn]

theorem twOf_stepFrom : twOf n (stepFrom n a b sub) = wOf n b := by
  unfold twOf
  simp only [stepFrom_row0 hn ha, stepFrom_rown hn ha]
  exact cmap_undo n a _

include hb in
theorem stepToPair_stepFrom : stepToPair n (stepFrom n a b sub) = (a, b) := by
  unfold stepToPair
  simp only [stepFrom_row0 hn ha, twOf_stepFrom hn ha]
  refine Prod.ext (by simp) ?_
  apply Nat.eq_of_testBit_eq; intro j
  simp only [testBit_ofFn, testBit_wOf]
  by_cases hj : j < 2 * n - 1
  · by_cases hjn : j < n
    · have : j < 2 * n := by omega
      simp [hj, hjn, this]
    · have h1 : j + 1 < 2 * n := by omega
      have h2 : ¬ j + 1 < n := by omega
      have h3 : j + 1 ≠ n := by omega
      simp [hj, hjn, h1, h2, h3]
  · simp [hj, testBit_eq_false_of_lt hb (by omega : 2 * n - 1 ≤ j)]

theorem stepToHs_stepFrom :
    stepToHs n (stepFrom n a b sub) =
      if b.testBit 0 then [(findTv n (a + 1) 1).2, (findTv n (a + 1) 1).1, ePrime n b]
      else [(findTv n (a + 1) 1).2, (findTv n (a + 1) 1).1, ePrime n b, 1] := by
  have hn0 : n ≠ 0 := by omega
  unfold stepToHs
  simp only [stepFrom_row0 hn ha, twOf_stepFrom hn ha]
  have h0 : (wOf n b).testBit 0 = b.testBit 0 := by
    rw [testBit_wOf]; simp [hn]
  have he : (ofFn (2 * n) fun j => if j = 0 then true else if j = n then false else (wOf n b).testBit j) = ePrime n b := by
    apply Nat.eq_of_testBit_eq; intro j
    simp only [ePrime, testBit_ofFn, testBit_wOf]
    by_cases hj : j < 2 * n
    · by_cases hj0 : j = 0
      · simp [hj, hj0]
      by_cases hjn : j = n
      · simp [hj, hj0, hjn, hn0]
      by_cases hjl : j < n
      · simp [hj, hj0, hjn, hjl]
      · simp [hj, hj0, hjn, hjl]
    · simp [hj]
  rw [h0, he]

/-- all transvections of one level of `to_int_tuple`, in terms of `dmap` -/
theorem tvs_stepToHs (r : Nat) :
    tvs n r (stepToHs n (stepFrom n a b sub)) =
      dmap n b (tv n (tv n r (findTv n (a + 1) 1).2) (findTv n (a + 1) 1).1) := by
  rw [stepToHs_stepFrom hn ha]
  unfold dmap
  by_cases hb0 : b.testBit 0 = true
  · simp only [hb0, if_true, tvs_cons, tvs_nil]
  · have hb' : b.testBit 0 = false := by simpa using hb0
    simp only [hb', Bool.false_eq_true, if_false, tvs_cons, tvs_nil]

theorem gRow_testBit_n (k : Nat) (hk0 : k ≠ 0) (hkn : k ≠ n) : (gRow n sub k).testBit n = false := by
  unfold gRow
  simp only [hk0, hkn, if_false]
  split <;> exact embedRow_n _ _

theorem stepToSub_stepFrom (hsub : WF (n - 1) sub) : stepToSub n (stepFrom n a b sub) = sub := by
  apply List.ext_getElem
  · simp [stepToSub, hsub.1]
  intro k h1 h2
  have hk : k < 2 * (n - 1) := by simpa [stepToSub] using h1
  simp only [stepToSub, List.getElem_map, List.getElem_range]
  have key : ∀ k', k' < 2 * n → k' ≠ 0 → k' ≠ n →
      tvs n ((stepFrom n a b sub).getD k' 0) (stepToHs n (stepFrom n a b sub)) = gRow n sub k' := by
    intro k' hk' h0 hn'
    rw [tvs_stepToHs hn ha, stepFrom_getD hn ha sub hk', cmap_undo,
      dmap_dmap hn (gRow_testBit_n hn ha sub k' h0 hn')]
  have hsk : sub.getD k 0 = sub[k] := by simp [List.getD_eq_getElem?_getD, h2]
  have hlt : sub[k] < 4 ^ (n - 1) := by rw [← hsk]; exact hsub.2 k hk
  by_cases hkl : k < n - 1
  · rw [if_pos hkl, key (k + 1) (by omega) (by omega) (by omega)]
    have : gRow n sub (k + 1) = embedRow n (sub.getD k 0) := by
      have h3 : k + 1 < n := by omega
      simp [gRow, h3]
    rw [this, hsk, cutRow_embedRow hn hlt]
  · rw [if_neg hkl, key (k + 2) (by omega) (by omega) (by omega)]
    have : gRow n sub (k + 2) = embedRow n (sub.getD k 0) := by
      have h3 : ¬ k + 2 < n := by omega
      have h4 : k + 2 ≠ n := by omega
      simp [gRow, h3, h4]
    rw [this, hsk, cutRow_embedRow hn hlt]

end level

/-! ### the whole recursion -/

theorem inRangeRev_cons {a b : Nat} {rest : List (Nat × Nat)} (h : inRangeRev ((a, b) :: rest) = true) :
    a + 1 < 4 ^ (rest.length + 1) ∧ b < 2 ^ (2 * (rest.length + 1) - 1) ∧ inRangeRev rest = true := by
  simp only [inRangeRev, Bool.and_eq_true, decide_eq_true_eq] at h
  obtain ⟨⟨h1, h2⟩, h3⟩ := h
  refine ⟨by omega, ?_, h3⟩
  have : 4 ^ (rest.length + 1) / 2 = 2 ^ (2 * (rest.length + 1) - 1) := by
    rw [four_pow]
    have : 2 * (rest.length + 1) = (2 * (rest.length + 1) - 1) + 1 := by omega
    conv_lhs => rw [this, pow_succ]
    omega
  omega

/-- everything about `from_int_tuple` on the reversed tuple, by induction on the number of levels -/
theorem fromRev_all (l : List (Nat × Nat)) (h : inRangeRev l = true) :
    WF l.length (fromRev l) ∧ RowsSp l.length (fromRev l) ∧ toIntTuple l.length (fromRev l) = some l.reverse := by
  induction l with
  | nil =>
    refine ⟨⟨rfl, fun k hk => by simp at hk⟩, fun i j hi hj => by simp at hi, rfl⟩
  | cons p rest ih =>
    obtain ⟨a, b⟩ := p
    obtain ⟨ha, hb, hr⟩ := inRangeRev_cons h
    obtain ⟨ihwf, ihsp, ihto⟩ := ih hr
    have hn : 0 < rest.length + 1 := by omega
    have hsub : WF (rest.length + 1 - 1) (fromRev rest) := by simpa using ihwf
    refine ⟨stepFrom_WF hn ha _, stepFrom_sp hn ha _ (by simpa using ihsp), ?_⟩
    show toIntTuple (rest.length + 1) (stepFrom (rest.length + 1) a b (fromRev rest)) = _
    rw [toIntTuple]
    rw [stepFrom_row0 hn ha, if_neg (by omega), stepToSub_stepFrom hn ha _ hsub, ihto,
      stepToPair_stepFrom hn ha hb]
    simp

/-! ### the other composite: `from_int_tuple (to_int_tuple S) = S` for symplectic `S` -/

theorem embedRow_cutRow {n y : Nat} (hn : 0 < n) (hy : y < 4 ^ n) (h0 : y.testBit 0 = false)
    (hyn : y.testBit n = false) : embedRow n (cutRow n y) = y := by
  apply Nat.eq_of_testBit_eq; intro j
  rw [testBit_embedRow]
  rw [four_pow] at hy
  by_cases hj : j < 2 * n
  · by_cases hj0 : j = 0
    · subst hj0; simp [h0]
    by_cases hjl : j < n
    · have h1 : j - 1 < 2 * (n - 1) := by omega
      have h2 : j - 1 < n - 1 := by omega
      have h3 : j - 1 + 1 = j := by omega
      simp [hj, hj0, hjl, cutRow, testBit_ofFn, h1, h2, h3]
    by_cases hjn : j = n
    · subst hjn; simp [hyn]
    · have h1 : j - 2 < 2 * (n - 1) := by omega
      have h2 : ¬ j - 2 < n - 1 := by omega
      have h3 : j - 2 + 2 = j := by omega
      simp [hj, hj0, hjl, hjn, cutRow, testBit_ofFn, h1, h2, h3]
  · simp [hj, testBit_eq_false_of_lt hy (by omega : 2 * n ≤ j)]

theorem cutRow_lt (n y : Nat) : cutRow n y < 4 ^ (n - 1) := by
  rw [four_pow]; exact ofFn_lt _ _

theorem ne_zero_of_ip {n v w : Nat} (h : ip n v w = true) : v ≠ 0 := by
  rintro rfl; rw [ip_zero_left] at h; exact absurd h (by simp)

section tolevel
variable {n : Nat} (hn : 0 < n) (M : List Nat) (hwf : WF n M) (hsp : RowsSp n M)
include hn hwf hsp

/-- one level of `to_int_tuple` on a symplectic matrix: the pair is in range, the smaller matrix is
symplectic, and `from_int_tuple`'s level rebuilds `M` from them -/
theorem stepTo_all :
    let p := stepToPair n M
    p.1 + 1 < 4 ^ n ∧ p.2 < 2 ^ (2 * n - 1) ∧ M.getD 0 0 ≠ 0 ∧
    WF (n - 1) (stepToSub n M) ∧ RowsSp (n - 1) (stepToSub n M) ∧
    stepFrom n p.1 p.2 (stepToSub n M) = M := by
  have hn0 : n ≠ 0 := by omega
  set m0 := M.getD 0 0 with hm0
  have hm0n : ip n m0 (M.getD n 0) = true := by
    rw [hsp 0 n (by omega) (by omega)]; exact lam_true (by omega)
  have hm0ne : m0 ≠ 0 := ne_zero_of_ip hm0n
  have hm0lt : m0 < 4 ^ n := hwf.2 0 (by omega)
  set a := m0 - 1 with ha_def
  have ha1 : a + 1 = m0 := by omega
  have ha : a + 1 < 4 ^ n := by omega
  -- the composite used by `to_int_tuple`
  set cp : Nat → Nat := fun x => tv n (tv n x (findTv n m0 1).2) (findTv n m0 1).1 with hcp
  have hcp_ip : ∀ x y, ip n (cp x) (cp y) = ip n x y := fun x y => by simp only [hcp, ip_tv_tv]
  have hcp_m0 : cp m0 = 1 :=
    findTv_spec_rev n m0 1 hm0ne (by norm_num) hm0lt (one_lt_four_pow hn)
  have hflt := findTv_lt n m0 1 hm0ne (by norm_num) hm0lt (one_lt_four_pow hn)
  have hcp_lt : ∀ x, x < 4 ^ n → cp x < 4 ^ n := by
    intro x hx; simp only [hcp]
    rw [four_pow] at *; exact tv_lt (tv_lt hx hflt.2) hflt.1
  have hC_cp : ∀ x, cmap n a (cp x) = x := by
    intro x; simp only [hcp, cmap, ha1]; exact findTv_undo n m0 1 x
  set tw := twOf n M with htw_def
  have htw : tw = cp (M.getD n 0) := rfl
  have htw_lt : tw < 4 ^ n := by rw [htw]; exact hcp_lt _ (hwf.2 n (by omega))
  have htw_n : tw.testBit n = true := by
    rw [← ip_one_right hn, htw, ← hcp_m0, hcp_ip, ip_comm]; exact hm0n
  set b := (stepToPair n M).2 with hb_def
  have hb_bits : ∀ j, b.testBit j = (decide (j < 2 * n - 1) && (if j < n then tw.testBit j else tw.testBit (j + 1))) := by
    intro j; simp only [hb_def, stepToPair]; rw [testBit_ofFn]
  have hb_lt : b < 2 ^ (2 * n - 1) := by simp only [hb_def, stepToPair]; exact ofFn_lt _ _
  have hp1 : (stepToPair n M).1 = a := rfl
  -- `tw` is the vector `w` of the pair
  have hw : wOf n b = tw := by
    apply Nat.eq_of_testBit_eq; intro j
    rw [testBit_wOf]
    rw [four_pow] at htw_lt
    by_cases hj : j < 2 * n
    · by_cases hjl : j < n
      · have : j < 2 * n - 1 := by omega
        simp [hj, hjl, hb_bits, this]
      by_cases hjn : j = n
      · subst hjn; simp [hj, htw_n]
      · have h1 : j - 1 < 2 * n - 1 := by omega
        have h2 : ¬ j - 1 < n := by omega
        have h3 : j - 1 + 1 = j := by omega
        simp [hj, hjl, hjn, hb_bits, h1, h2, h3]
    · simp [hj, testBit_eq_false_of_lt htw_lt (by omega : 2 * n ≤ j)]
  have hb0 : b.testBit 0 = tw.testBit 0 := by
    rw [hb_bits]; have : 0 < 2 * n - 1 := by omega
    simp [this, hn]
  -- the transvection list of `to_int_tuple` is `cp` followed by `dmap`
  have hHs : ∀ r, tvs n r (stepToHs n M) = dmap n b (cp r) := by
    intro r
    have he : (ofFn (2 * n) fun j => if j = 0 then true else if j = n then false else tw.testBit j) = ePrime n b := by
      apply Nat.eq_of_testBit_eq; intro j
      simp only [ePrime, testBit_ofFn]
      by_cases hj : j < 2 * n
      · by_cases hj0 : j = 0
        · simp [hj, hj0]
        by_cases hjn : j = n
        · simp [hj, hj0, hjn, hn0]
        by_cases hjl : j < n
        · have : j < 2 * n - 1 := by omega
          simp [hj, hj0, hjn, hjl, hb_bits, this]
        · have h1 : j - 1 < 2 * n - 1 := by omega
          have h2 : ¬ j - 1 < n := by omega
          have h3 : j - 1 + 1 = j := by omega
          simp [hj, hj0, hjn, hjl, hb_bits, h1, h2, h3]
      · simp [hj]
    unfold stepToHs
    simp only [← htw_def, ← hm0, he, ← hb0]
    unfold dmap
    by_cases hb0' : b.testBit 0 = true
    · simp only [hb0', if_true, tvs_cons, tvs_nil, hcp]
    · have hb' : b.testBit 0 = false := by simpa using hb0'
      simp only [hb', Bool.false_eq_true, if_false, tvs_cons, tvs_nil, hcp]
  -- `e'` in terms of `tw`
  have hep : ePrime n b = tw ^^^ 2 ^ n ^^^ (if b.testBit 0 then 0 else 1) := by
    have h := dmap_pown hn b
    rw [hw] at h
    have h1 : tv n (2 ^ n) (ePrime n b) = 2 ^ n ^^^ ePrime n b := by
      unfold tv; rw [ip_comm, ip_pown_right hn, ePrime_zero hn]; simp
    unfold dmap at h
    by_cases hb0' : b.testBit 0 = true
    · simp only [hb0', if_true] at h ⊢
      rw [h1] at h; rw [← h]
      apply Nat.eq_of_testBit_eq; intro j
      simp only [Nat.testBit_xor, Nat.zero_testBit]
      cases (2 ^ n).testBit j <;> cases (ePrime n b).testBit j <;> rfl
    · have hb' : b.testBit 0 = false := by simpa using hb0'
      simp only [hb', Bool.false_eq_true, if_false] at h ⊢
      rw [h1] at h
      have h2 : ip n (2 ^ n ^^^ ePrime n b) 1 = true := by
        rw [ip_one_right hn, Nat.testBit_xor, ePrime_n hn]; simp
      unfold tv at h; rw [h2] at h; simp only [if_true] at h
      rw [← h]
      apply Nat.eq_of_testBit_eq; intro j
      simp only [Nat.testBit_xor]
      cases (2 ^ n).testBit j <;> cases (ePrime n b).testBit j <;> cases (1 : Nat).testBit j <;> rfl
  -- the rows other than `0`, `n`
  have hrow : ∀ k, k < 2 * n → k ≠ 0 → k ≠ n →
      let z := cp (M.getD k 0)
      let y := dmap n b z
      z.testBit n = false ∧ y < 4 ^ n ∧ y.testBit 0 = false ∧ y.testBit n = false ∧ dmap n b y = z := by
    intro k hk hk0 hkn z y
    have hz_n : z.testBit n = false := by
      rw [← ip_one_right hn, ← hcp_m0, hcp_ip, hsp k 0 hk (by omega)]; exact lam_false (by omega)
    have hz_tw : ip n z tw = false := by
      rw [htw, hcp_ip, hsp k n hk (by omega)]; exact lam_false (by omega)
    have hz_lt : z < 4 ^ n := hcp_lt _ (hwf.2 k hk)
    have hy : y = tv n z (ePrime n b) := dmap_of_n hn hz_n
    have hzep : ip n z (ePrime n b) = z.testBit 0 := by
      rw [hep, ip_xor_right, ip_xor_right, hz_tw, ip_pown_right hn]
      by_cases hb0' : b.testBit 0 = true
      · simp [hb0', ip_zero_right]
      · have hb' : b.testBit 0 = false := by simpa using hb0'
        simp [hb', ip_one_right hn, hz_n]
    refine ⟨hz_n, dmap_lt hn hz_lt, ?_, ?_, dmap_dmap hn hz_n⟩
    · rw [hy, testBit_tv, hzep, ePrime_zero hn]; simp
    · rw [hy, testBit_tv, hz_n, ePrime_n hn]; simp
  -- rows of the smaller matrix
  have hsublen : (stepToSub n M).length = 2 * (n - 1) := by simp [stepToSub]
  have hsub_get : ∀ k, k < 2 * (n - 1) →
      (stepToSub n M).getD k 0 = cutRow n (dmap n b (cp (M.getD (if k < n - 1 then k + 1 else k + 2) 0))) := by
    intro k hk
    unfold stepToSub
    rw [getD_map_range _ _ _ hk, hHs]
    by_cases hkl : k < n - 1 <;> simp [hkl]
  have hidx : ∀ k, k < 2 * (n - 1) →
      (if k < n - 1 then k + 1 else k + 2) < 2 * n ∧ (if k < n - 1 then k + 1 else k + 2) ≠ 0 ∧
      (if k < n - 1 then k + 1 else k + 2) ≠ n := by
    intro k hk; by_cases hkl : k < n - 1 <;> simp [hkl] <;> omega
  have hembed : ∀ k, k < 2 * (n - 1) →
      embedRow n ((stepToSub n M).getD k 0) = dmap n b (cp (M.getD (if k < n - 1 then k + 1 else k + 2) 0)) := by
    intro k hk
    obtain ⟨h1, h2, h3⟩ := hidx k hk
    obtain ⟨_, hy1, hy2, hy3, _⟩ := hrow _ h1 h2 h3
    rw [hsub_get k hk, embedRow_cutRow hn hy1 hy2 hy3]
  refine ⟨by rw [hp1]; exact ha, hb_lt, hm0ne, ⟨hsublen, ?_⟩, ?_, ?_⟩
  · intro k hk; rw [hsub_get k hk]; exact cutRow_lt _ _
  · intro i j hi hj
    rw [← ip_embedRow hn, hembed i hi, hembed j hj, ip_dmap, hcp_ip]
    obtain ⟨h1, _, _⟩ := hidx i hi
    obtain ⟨h2, _, _⟩ := hidx j hj
    rw [hsp _ _ h1 h2]
    apply lam_congr
    by_cases hil : i < n - 1 <;> by_cases hjl : j < n - 1 <;> simp [hil, hjl] <;> omega
  · apply List.ext_getElem
    · rw [stepFrom_length, hwf.1]
    intro k h1 h2
    have hk : k < 2 * n := by rw [stepFrom_length] at h1; exact h1
    have e1 : (stepFrom n (stepToPair n M).1 (stepToPair n M).2 (stepToSub n M))[k] =
        (stepFrom n a b (stepToSub n M)).getD k 0 := (getD_eq_getElem' _ k h1).symm
    have e2 : M[k] = M.getD k 0 := (getD_eq_getElem' _ k h2).symm
    rw [e1, e2, stepFrom_getD hn ha _ hk]
    by_cases hk0 : k = 0
    · subst hk0; rw [gRow_zero, dmap_one hn, cmap_one hn ha, ha1]
    by_cases hkn : k = n
    · subst hkn; rw [gRow_n hn, dmap_pown hn, hw, htw, hC_cp]
    by_cases hkl : k < n
    · have hg : gRow n (stepToSub n M) k = embedRow n ((stepToSub n M).getD (k - 1) 0) := by
        simp [gRow, hk0, hkl]
      have hk1 : k - 1 < 2 * (n - 1) := by omega
      have hk2 : k - 1 < n - 1 := by omega
      have hk3 : k - 1 + 1 = k := by omega
      rw [hg, hembed _ hk1, if_pos hk2, hk3]
      obtain ⟨_, _, _, _, hdd⟩ := hrow k hk hk0 hkn
      rw [hdd, hC_cp]
    · have hg : gRow n (stepToSub n M) k = embedRow n ((stepToSub n M).getD (k - 2) 0) := by
        simp [gRow, hk0, hkl, hkn]
      have hk1 : k - 2 < 2 * (n - 1) := by omega
      have hk2 : ¬ k - 2 < n - 1 := by omega
      have hk3 : k - 2 + 2 = k := by omega
      rw [hg, hembed _ hk1, if_neg hk2, hk3]
      obtain ⟨_, _, _, _, hdd⟩ := hrow k hk hk0 hkn
      rw [hdd, hC_cp]

end tolevel

/-- everything about `to_int_tuple` on a symplectic matrix, by induction on `n` -/
theorem toIntTuple_all (n : Nat) (M : List Nat) (hwf : WF n M) (hsp : RowsSp n M) :
    ∃ t, toIntTuple n M = some t ∧ t.length = n ∧ inRangeRev t.reverse = true ∧ fromRev t.reverse = M := by
  induction n generalizing M with
  | zero =>
    refine ⟨[], rfl, rfl, rfl, ?_⟩
    have : M.length = 0 := by simpa using hwf.1
    simp [fromRev, List.length_eq_zero_iff.mp this]
  | succ n ih =>
    have hn : 0 < n + 1 := by omega
    obtain ⟨h1, h2, h3, h4, h5, h6⟩ := stepTo_all hn M hwf hsp
    obtain ⟨t, ht1, ht2, ht3, ht4⟩ := ih (stepToSub (n + 1) M) (by simpa using h4) (by simpa using h5)
    refine ⟨t ++ [stepToPair (n + 1) M], ?_, by simp [ht2], ?_, ?_⟩
    · rw [toIntTuple, if_neg h3, ht1]
    · rw [List.reverse_append, List.reverse_singleton, List.singleton_append]
      rcases hp : stepToPair (n + 1) M with ⟨a, b⟩
      simp only [hp] at h1 h2
      simp only [inRangeRev, List.length_reverse, ht2, ht3, Bool.and_true, Bool.and_eq_true, decide_eq_true_eq]
      have : 4 ^ (n + 1) / 2 = 2 ^ (2 * (n + 1) - 1) := by
        rw [four_pow]
        have : 2 * (n + 1) = (2 * (n + 1) - 1) + 1 := by omega
        conv_lhs => rw [this, pow_succ]
        omega
      omega
    · rw [List.reverse_append, List.reverse_singleton, List.singleton_append]
      rcases hp : stepToPair (n + 1) M with ⟨a, b⟩
      simp only [hp] at h6
      simp only [fromRev, List.length_reverse, ht2, ht4]
      exact h6

end Numqi.SpF2
