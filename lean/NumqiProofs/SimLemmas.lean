/-
Helper lemmas for the simulator model (C03, C11; reusable by C04).
-/
import Mathlib.Tactic
import Mathlib.Data.Matrix.Mul
import Mathlib.Algebra.BigOperators.Fin
import Mathlib.LinearAlgebra.UnitaryGroup
import NumqiProofs.PauliLemmas
import NumqiModel.Sim

namespace Numqi
open Function

namespace Bits
variable {n k : Nat}

theorem toNat_lt : ∀ {n : Nat} (x : Bits n), x.toNat < 2 ^ n
  | 0, _ => by simp [toNat]
  | n + 1, x => by
    have ih := toNat_lt (fun i : Fin n => x i.succ)
    have : (x 0).toNat ≤ 1 := Bool.toNat_le _
    simp only [toNat, pow_succ]
    nlinarith

theorem ofNat_toNat : ∀ {n : Nat} (x : Bits n), ofNat n x.toNat = x
  | 0, x => by funext i; exact i.elim0
  | n + 1, x => by
    have ih := ofNat_toNat (fun i : Fin n => x i.succ)
    have hlt := toNat_lt (fun i : Fin n => x i.succ)
    funext i
    simp only [ofNat, toNat]
    rw [mul_comm, Nat.testBit_two_pow_mul_add _ hlt]
    refine Fin.cases ?_ (fun j => ?_) i
    · simp
      cases x 0 <;> simp
    · have hj : n + 1 - 1 - (j.succ : Fin (n+1)).val < n := by
        have := j.isLt; simp only [Fin.val_succ]; omega
      rw [if_pos hj]
      have := congrFun ih j
      simp only [ofNat] at this
      rw [← this]
      congr 1
      have := j.isLt; simp only [Fin.val_succ]; omega

theorem toNat_ofNat : ∀ {n : Nat} {v : Nat}, v < 2 ^ n → (ofNat n v).toNat = v
  | 0, v, h => by simp at h; simp [toNat, h]
  | n + 1, v, h => by
    have hdiv : v / 2 ^ n < 2 := by
      rw [Nat.div_lt_iff_lt_mul (by positivity)]; rw [pow_succ] at h; omega
    have ih := toNat_ofNat (n := n) (v := v % 2 ^ n) (Nat.mod_lt _ (by positivity))
    simp only [toNat]
    have h0 : (ofNat (n + 1) v 0).toNat = v / 2 ^ n := by
      simp only [ofNat]
      simp [Nat.testBit, Nat.shiftRight_eq_div_pow]
      interval_cases (v / 2 ^ n) <;> simp
    have hs : (fun i : Fin n => ofNat (n + 1) v i.succ) = ofNat n (v % 2 ^ n) := by
      funext i
      simp only [ofNat, Nat.testBit_mod_two_pow]
      have : n - 1 - i.val < n := by have := i.isLt; omega
      simp [this]
      congr 1
      omega
    rw [h0, hs, ih]
    exact Nat.div_add_mod' v (2 ^ n)


/-- the flat index is a bijection between `Fin (2^n)` and bit vectors -/
def equivFin (n : Nat) : Fin (2 ^ n) ≃ Bits n where
  toFun i := ofNat n i.val
  invFun x := ⟨x.toNat, toNat_lt x⟩
  left_inv i := Fin.ext (toNat_ofNat i.isLt)
  right_inv x := ofNat_toNat x

theorem toNat_injective : Injective (toNat (n := n)) := fun x y h => by
  rw [← ofNat_toNat x, ← ofNat_toNat y, h]

/-! ### `sel`, `upd`, `agreeOff` -/

theorem upd_apply_target {t : Fin k → Fin n} (ht : Injective t) (x : Bits n) (y : Bits k) (j : Fin k) :
    x.upd t y (t j) = y j := by
  unfold upd
  have : (List.finRange k).find? (fun j' => t j' == t j) = some j := by
    rw [List.find?_eq_some_iff_append]
    refine ⟨by simp, ?_⟩
    obtain ⟨as, bs, h⟩ := List.append_of_mem (List.mem_finRange j)
    refine ⟨as, bs, h, fun a ha => ?_⟩
    have hnd : (List.finRange k).Nodup := List.nodup_finRange k
    rw [h] at hnd
    have : a ≠ j := by
      rintro rfl
      have := (List.nodup_append.1 hnd).2.2 a ha a (by simp)
      exact this rfl
    simpa using fun e => this (ht e)
  rw [this]; rfl

theorem upd_apply_off {t : Fin k → Fin n} (x : Bits n) (y : Bits k) {i : Fin n} (hi : ∀ j, t j ≠ i) :
    x.upd t y i = x i := by
  unfold upd
  have : (List.finRange k).find? (fun j' => t j' == i) = none := by
    rw [List.find?_eq_none]; intro j _; simpa using hi j
  rw [this]; rfl

theorem sel_upd {t : Fin k → Fin n} (ht : Injective t) (x : Bits n) (y : Bits k) : (x.upd t y).sel t = y := by
  funext j; exact upd_apply_target ht x y j

theorem agreeOff_iff {t : Fin k → Fin n} (x x' : Bits n) :
    agreeOff x x' t = true ↔ ∀ i, (∀ j, t j ≠ i) → x i = x' i := by
  unfold agreeOff
  simp only [List.all_eq_true, List.mem_finRange, true_implies, Bool.or_eq_true, List.any_eq_true,
    beq_iff_eq, true_and]
  constructor
  · intro h i hi
    rcases h i with ⟨j, hj⟩ | h
    · exact absurd hj (hi j)
    · exact h
  · intro h i
    by_cases hi : ∃ j, t j = i
    · exact Or.inl hi
    · exact Or.inr (h i (fun j e => hi ⟨j, e⟩))

theorem agreeOff_upd {t : Fin k → Fin n} (x : Bits n) (y : Bits k) : agreeOff x (x.upd t y) t = true := by
  rw [agreeOff_iff]; intro i hi; rw [upd_apply_off x y hi]

theorem upd_sel_of_agreeOff {t : Fin k → Fin n} (ht : Injective t) {x x' : Bits n}
    (h : agreeOff x x' t = true) : x.upd t (x'.sel t) = x' := by
  rw [agreeOff_iff] at h
  funext i
  by_cases hi : ∃ j, t j = i
  · obtain ⟨j, rfl⟩ := hi; rw [upd_apply_target ht]; rfl
  · have hi' : ∀ j, t j ≠ i := fun j e => hi ⟨j, e⟩
    rw [upd_apply_off _ _ hi', h i hi']

theorem eq_of_agreeOff_of_sel {t : Fin k → Fin n} {x x' : Bits n}
    (h : agreeOff x x' t = true) (hs : x.sel t = x'.sel t) : x = x' := by
  rw [agreeOff_iff] at h
  funext i
  by_cases hi : ∃ j, t j = i
  · obtain ⟨j, rfl⟩ := hi; exact congrFun hs j
  · exact h i (fun j e => hi ⟨j, e⟩)

theorem agreeOff_refl {t : Fin k → Fin n} (x : Bits n) : agreeOff x x t = true := by
  rw [agreeOff_iff]; intros; rfl

theorem agreeOff_symm {t : Fin k → Fin n} {x x' : Bits n} (h : agreeOff x x' t = true) :
    agreeOff x' x t = true := by
  rw [agreeOff_iff] at *; intro i hi; exact (h i hi).symm

theorem agreeOff_trans {t : Fin k → Fin n} {x y z : Bits n} (h1 : agreeOff x y t = true)
    (h2 : agreeOff y z t = true) : agreeOff x z t = true := by
  rw [agreeOff_iff] at *; intro i hi; exact (h1 i hi).trans (h2 i hi)

end Bits

/-- first `d` bits / last `n` bits of a `(d+n)`-qubit index -/
def Bits.head {n : Nat} (d : Nat) (x : Bits (d + n)) : Bits d := fun i => x (Fin.castAdd n i)
def Bits.tail {n : Nat} (d : Nat) (x : Bits (d + n)) : Bits n := fun i => x (Fin.natAdd d i)

/-! ### controls -/

theorem ctrlOn_iff {n : Nat} (isCtrl : Fin n → Bool) (x : Bits n) :
    ctrlOn isCtrl x = true ↔ ∀ i, isCtrl i = true → x i = true := by
  unfold ctrlOn
  simp only [List.all_eq_true, List.mem_finRange, true_implies, Bool.or_eq_true, Bool.not_eq_true']
  constructor
  · intro h i hi; rcases h i with h | h
    · rw [hi] at h; exact absurd h (by simp)
    · exact h
  · intro h i; cases hc : isCtrl i
    · exact Or.inl rfl
    · exact Or.inr (h i hc)

/-- the write-back of `apply_control_n_gate` addresses the same entry as the direct update of the target bits -/
theorem ctrl_upd_eq {n n' k : Nat} {isCtrl : Fin n → Bool} {rest : Fin n' → Fin n} {tNew : Fin k → Fin n'}
    (hrest : Injective rest) (htn : Injective tNew) (hfree : ∀ i, isCtrl i = false ↔ ∃ m, rest m = i)
    {x : Bits n} (hx : ctrlOn isCtrl x = true) (y : Bits k) :
    (Bits.ones n).upd rest ((x.sel rest).upd tNew y) = x.upd (fun j => rest (tNew j)) y := by
  rw [ctrlOn_iff] at hx
  funext i
  cases hc : isCtrl i
  · obtain ⟨m, rfl⟩ := (hfree i).1 hc
    rw [Bits.upd_apply_target hrest]
    by_cases hm : ∃ j, tNew j = m
    · obtain ⟨j, rfl⟩ := hm
      rw [Bits.upd_apply_target htn, Bits.upd_apply_target (t := fun j => rest (tNew j)) (hrest.comp htn)]
    · have h1 : ∀ j, tNew j ≠ m := fun j e => hm ⟨j, e⟩
      rw [Bits.upd_apply_off _ _ h1, Bits.upd_apply_off]
      · rfl
      · intro j e; exact h1 j (hrest e)
  · have h1 : ∀ m, rest m ≠ i := fun m e => by
      have := (hfree i).2 ⟨m, e⟩; rw [hc] at this; exact absurd this (by simp)
    rw [Bits.upd_apply_off _ _ h1, Bits.upd_apply_off _ _ (fun j => h1 (tNew j)), hx i hc]; rfl

/-- a gate whose targets avoid the controls does not change whether the controls are all 1 -/
theorem ctrlOn_of_agreeOff {n k : Nat} {isCtrl : Fin n → Bool} {t : Fin k → Fin n}
    (hdisj : ∀ j, isCtrl (t j) = false) {x x' : Bits n} (h : Bits.agreeOff x x' t = true) :
    ctrlOn isCtrl x = ctrlOn isCtrl x' := by
  rw [Bits.agreeOff_iff] at h
  rw [Bool.eq_iff_iff, ctrlOn_iff, ctrlOn_iff]
  have key : ∀ i, isCtrl i = true → x i = x' i := fun i hi =>
    h i (fun j e => by have := hdisj j; rw [e, hi] at this; exact absurd this (by simp))
  exact ⟨fun hx i hi => by rw [← key i hi]; exact hx i hi, fun hx i hi => by rw [key i hi]; exact hx i hi⟩

/-! ### head / tail of a longer register -/

theorem agreeOff_shift (d : Nat) (t : Fin k → Fin n) (x x' : Bits (d + n)) :
    Bits.agreeOff x x' (fun j => Fin.natAdd d (t j)) = true ↔
      Bits.head d x = Bits.head d x' ∧ Bits.agreeOff (Bits.tail d x) (Bits.tail d x') t = true := by
  rw [Bits.agreeOff_iff, Bits.agreeOff_iff]
  constructor
  · intro h
    refine ⟨?_, ?_⟩
    · funext i
      exact h _ (fun j e => by
        have := congrArg Fin.val e; simp only [Fin.val_natAdd, Fin.val_castAdd] at this; omega)
    · intro i hi
      exact h _ (fun j e => hi j (Fin.natAdd_injective _ _ e))
  · rintro ⟨h1, h2⟩ i
    refine Fin.addCases (fun a => ?_) (fun b => ?_) i
    · intro _; exact congrFun h1 a
    · intro hi
      exact h2 b (fun j e => hi j (by rw [e]))

theorem bits_eq_iff_head_tail (d : Nat) (x x' : Bits (d + n)) :
    x = x' ↔ Bits.head d x = Bits.head d x' ∧ Bits.tail d x = Bits.tail d x' := by
  constructor
  · rintro rfl; exact ⟨rfl, rfl⟩
  · rintro ⟨h1, h2⟩
    funext i
    refine Fin.addCases (fun a => ?_) (fun b => ?_) i
    · exact congrFun h1 a
    · exact congrFun h2 b

theorem ctrlOn_shift (d : Nat) (isCtrl : Fin n → Bool) (x : Bits (d + n)) :
    ctrlOn (fun i => Fin.addCases (fun _ => false) isCtrl i) x = ctrlOn isCtrl (Bits.tail d x) := by
  rw [Bool.eq_iff_iff, ctrlOn_iff, ctrlOn_iff]
  constructor
  · intro h i hi
    exact h (Fin.natAdd d i) (by simpa using hi)
  · intro h i
    refine Fin.addCases (fun a => ?_) (fun b => ?_) i
    · simp
    · intro hb; exact h b (by simpa using hb)

/-! ### sums -/

theorem sumBits_eq_sum {M : Type} [AddCommMonoid M] (k : Nat) (f : Bits k → M) :
    sumBits k f = ∑ y, f y := by
  unfold sumBits
  rw [← Fin.sum_univ_def]
  exact Fintype.sum_equiv (Bits.equivFin k) _ _ (fun _ => rfl)

/-- in the proofs the model's conjugation is `star` -/
@[reducible] def starConj (R : Type) [Star R] : Conj R := ⟨star⟩

/-! ### flat arrays -/
section arrays
variable {α : Type} {n k : Nat}

theorem getD_ofFn [Zero α] {N : Nat} (f : Fin N → α) (i : Nat) (h : i < N) : (Array.ofFn f).getD i 0 = f ⟨i, h⟩ := by
  simp [Array.getD, h]

theorem lookup_tabulate [Zero α] (ψ : Vec n α) : lookup (tabulate ψ) = ψ := by
  funext x
  unfold lookup tabulate
  rw [getD_ofFn _ _ (Bits.toNat_lt x)]
  simp [Bits.ofNat_toNat]

theorem flat_div {N a b : Nat} (hb : b < N) : (a * N + b) / N = a := by
  have hN : 0 < N := by omega
  rw [Nat.add_comm, Nat.add_mul_div_right _ _ hN, Nat.div_eq_of_lt hb]; simp
theorem flat_mod {N a b : Nat} (hb : b < N) : (a * N + b) % N = b := by
  rw [Nat.add_comm, Nat.add_mul_mod_self_right, Nat.mod_eq_of_lt hb]
theorem flat_lt {N a b : Nat} (ha : a < N) (hb : b < N) : a * N + b < N * N := by nlinarith

theorem lookupMat_tabulateMat [Zero α] (U : Mat k α) : lookupMat (tabulateMat U) = U := by
  funext r c
  unfold lookupMat tabulateMat
  rw [getD_ofFn _ _ (flat_lt (Bits.toNat_lt r) (Bits.toNat_lt c))]
  simp only [flat_div (Bits.toNat_lt c), flat_mod (Bits.toNat_lt c), Bits.ofNat_toNat]
end arrays

/-! ### gate-list entries -/

/-- the side conditions under which an entry of the gate list denotes its matrix: duplicate-free targets; for
controlled entries `rest` enumerates exactly the non-control qubits and the renumbered targets are duplicate-free -/
def Op.WF {n : Nat} {α : Type} : Op n α → Prop
  | .unitary _ t => Injective t
  | .control _ isCtrl rest tNew =>
      Injective rest ∧ Injective tNew ∧ ∀ i, isCtrl i = false ↔ ∃ m, rest m = i
  | .measure _ _ => True

/-- the operator of the whole gate list: product of the entries' operators, last gate leftmost -/
def circuitMatrix {n : Nat} {R : Type} [Semiring R] (c : List (Op n R)) : Matrix (Bits n) (Bits n) R :=
  ((c.map fun g => (Matrix.of g.matrix : Matrix (Bits n) (Bits n) R)).reverse).prod

theorem circuitMatrix_cons {n : Nat} {R : Type} [Semiring R] (g : Op n R) (c : List (Op n R)) :
    circuitMatrix (g :: c) = circuitMatrix c * Matrix.of g.matrix := by
  simp [circuitMatrix]

theorem circuitMatrix_nil {n : Nat} {R : Type} [Semiring R] : circuitMatrix ([] : List (Op n R)) = 1 := by
  simp [circuitMatrix]

theorem mulVec_basis {n : Nat} {R : Type} [Semiring R] (M : Matrix (Bits n) (Bits n) R) (b x : Bits n) :
    M.mulVec (basis b) x = M x b := by
  simp only [Matrix.mulVec, dotProduct, basis, Bits.beq_iff]
  rw [Finset.sum_eq_single b]
  · simp
  · intro w _ hw; simp [hw]
  · intro h; exact absurd (Finset.mem_univ b) h

/-! ### resolving raw gate-list entries (`RawOp.compile`) -/

theorem distinct_iff (l : List Int) : distinct l = true ↔ l.Nodup := by
  induction l with
  | nil => simp [distinct]
  | cons a l ih => simp [distinct, ih, List.nodup_cons]

theorem validIndex_iff (n : Nat) (t : List Int) :
    validIndex n t = true ↔ (∀ x ∈ t, 0 ≤ x ∧ x < n) ∧ t.Nodup := by
  simp [validIndex, distinct_iff, List.all_eq_true]

theorem mkTarget_val {n : Nat} {t : List Int} (h : ∀ x ∈ t, 0 ≤ x ∧ x < (n + 1 : Nat)) (j : Fin t.length) :
    ((mkTarget n t j).val : Int) = t[j.val] := by
  have hj := h _ (List.getElem_mem j.isLt)
  simp only [mkTarget, List.getD_eq_getElem?_getD, List.getElem?_eq_getElem j.isLt, Option.getD_some, Fin.val_ofNat]
  have : (t[j.val]).toNat < n + 1 := by omega
  rw [Nat.mod_eq_of_lt this]
  omega

theorem mkTarget_injective {n : Nat} {t : List Int} (h : ∀ x ∈ t, 0 ≤ x ∧ x < (n + 1 : Nat)) (hd : t.Nodup) :
    Injective (mkTarget n t) := by
  intro j j' e
  have h1 := mkTarget_val h j
  have h2 := mkTarget_val h j'
  rw [e] at h1
  have : t[j.val] = t[j'.val] := by rw [← h1, ← h2]
  exact Fin.ext ((List.Nodup.getElem_inj_iff hd).1 this)

theorem freeQubits_mem (n : Nat) (c : List Int) (x : Nat) :
    x ∈ freeQubits n c ↔ x < n ∧ c.contains (x : Int) = false := by
  simp [freeQubits]

theorem freeQubits_nodup (n : Nat) (c : List Int) : (freeQubits n c).Nodup :=
  List.Nodup.filter _ List.nodup_range

/-- what `_control_n_index` computes (`tmp0`, `index_map`, `ind_target_new`) is a valid sub-register:
`rest` enumerates exactly the non-control qubits, the renumbered targets are distinct, and `rest ∘ tNew` is the
original target tuple -/
theorem ctrl_data {n n' : Nat} {c t : List Int} (hlen : (freeQubits (n + 1) c).length = n' + 1)
    (hrange : ∀ x ∈ c ++ t, 0 ≤ x ∧ x < ((n + 1 : Nat) : Int)) (hnd : (c ++ t).Nodup) :
    let rest : Fin (n' + 1) → Fin (n + 1) := fun m => Fin.ofNat (n + 1) ((freeQubits (n + 1) c).getD m.val 0)
    let tNew : Fin t.length → Fin (n' + 1) :=
      fun j => Fin.ofNat (n' + 1) ((freeQubits (n + 1) c).idxOf (t.getD j.val 0).toNat)
    Injective rest ∧ Injective tNew ∧ (∀ i : Fin (n + 1), c.contains (i.val : Int) = false ↔ ∃ m, rest m = i)
      ∧ ∀ j : Fin t.length, ((rest (tNew j)).val : Int) = t[j.val] := by
  have hfn := freeQubits_nodup (n + 1) c
  have hfm := freeQubits_mem (n + 1) c
  set free := freeQubits (n + 1) c with hfree
  intro rest tNew
  have hget : ∀ m : Fin (n' + 1), free.getD m.val 0 = free[m.val]'(by rw [hlen]; exact m.isLt) := by
    intro m; simp [List.getD_eq_getElem?_getD, List.getElem?_eq_getElem (show m.val < free.length by rw [hlen]; exact m.isLt)]
  have hlt : ∀ m : Fin (n' + 1), free.getD m.val 0 < n + 1 := by
    intro m; rw [hget]; exact ((hfm _).1 (List.getElem_mem _)).1
  have htmem : ∀ j : Fin t.length, (t.getD j.val 0).toNat ∈ free := by
    intro j
    have hj : t[j.val] ∈ c ++ t := List.mem_append_right _ (List.getElem_mem j.isLt)
    have hr := hrange _ hj
    rw [hfm]
    simp only [List.getD_eq_getElem?_getD, List.getElem?_eq_getElem j.isLt, Option.getD_some]
    refine ⟨by omega, ?_⟩
    have : ((t[j.val]).toNat : Int) = t[j.val] := by omega
    rw [this]
    have hdis := (List.nodup_append.1 hnd).2.2
    simp only [List.contains_eq_mem, decide_eq_false_iff_not]
    intro hmem
    exact hdis _ hmem _ (List.getElem_mem j.isLt) rfl
  have hidx : ∀ j : Fin t.length, free.idxOf (t.getD j.val 0).toNat < n' + 1 := by
    intro j; rw [← hlen]; exact List.idxOf_lt_length_of_mem (htmem j)
  refine ⟨?_, ?_, ?_, ?_⟩
  · intro m m' e
    have := congrArg Fin.val e
    simp only [rest, Fin.val_ofNat] at this
    rw [Nat.mod_eq_of_lt (hlt m), Nat.mod_eq_of_lt (hlt m'), hget, hget] at this
    exact Fin.ext ((List.Nodup.getElem_inj_iff hfn).1 this)
  · intro j j' e
    have := congrArg Fin.val e
    simp only [tNew, Fin.val_ofNat, Nat.mod_eq_of_lt (hidx j), Nat.mod_eq_of_lt (hidx j')] at this
    have e2 : (t.getD j.val 0).toNat = (t.getD j'.val 0).toNat := (List.idxOf_inj (htmem j)).1 this
    simp only [List.getD_eq_getElem?_getD, List.getElem?_eq_getElem j.isLt, List.getElem?_eq_getElem j'.isLt, Option.getD_some] at e2
    have hr1 := hrange _ (List.mem_append_right _ (List.getElem_mem j.isLt))
    have hr2 := hrange _ (List.mem_append_right _ (List.getElem_mem j'.isLt))
    have e3 : t[j.val] = t[j'.val] := by omega
    exact Fin.ext ((List.Nodup.getElem_inj_iff (List.nodup_append.1 hnd).2.1).1 e3)
  · intro i
    constructor
    · intro hi
      have : i.val ∈ free := (hfm _).2 ⟨i.isLt, hi⟩
      obtain ⟨m, hm, hmi⟩ := List.getElem_of_mem this
      refine ⟨⟨m, by rw [← hlen]; exact hm⟩, Fin.ext ?_⟩
      simp only [rest, Fin.val_ofNat]
      have : free.getD m 0 = i.val := by simp [List.getD_eq_getElem?_getD, List.getElem?_eq_getElem hm, hmi]
      rw [this, Nat.mod_eq_of_lt i.isLt]
    · rintro ⟨m, rfl⟩
      simp only [rest, Fin.val_ofNat]
      rw [Nat.mod_eq_of_lt (hlt m), hget]
      exact ((hfm _).1 (List.getElem_mem _)).2
  · intro j
    have hx := htmem j
    have h1 : free.getD (free.idxOf (t.getD j.val 0).toNat) 0 = (t.getD j.val 0).toNat := by
      rw [List.getD_eq_getElem?_getD, List.getElem?_idxOf hx]; rfl
    simp only [rest, tNew, Fin.val_ofNat, Nat.mod_eq_of_lt (hidx j)]
    rw [h1, Nat.mod_eq_of_lt ((hfm _).1 hx).1]
    have hr := hrange _ (List.mem_append_right _ (List.getElem_mem j.isLt))
    simp only [List.getD_eq_getElem?_getD, List.getElem?_eq_getElem j.isLt, Option.getD_some]
    omega

/-- the index tuple an entry refers to, and its control qubits -/
def Op.targets {n : Nat} {α : Type} : Op n α → List (Fin n)
  | .unitary _ t => List.ofFn t
  | .control _ _ rest tNew => List.ofFn fun j => rest (tNew j)
  | .measure s _ => List.ofFn s

def Op.controls {n : Nat} {α : Type} : Op n α → List (Fin n)
  | .control _ isCtrl _ _ => (List.finRange n).filter isCtrl
  | _ => []


/-! ### `num_qubit`, index shifting -/

/-- the qubit indices an entry mentions (`kind='custom'` entries mention none: `index = ()`) -/
def RawOp.indices {α : Type} : RawOp α → List Int
  | .unitary _ t => t
  | .control _ c t => c ++ t
  | .measure s _ => s
  | .custom _ => []

theorem foldl_max_ge_init (l : List Int) (a : Int) : a ≤ l.foldl max a := by
  induction l generalizing a with
  | nil => simp
  | cons x l ih => exact le_trans (le_max_left a x) (ih (max a x))

theorem foldl_max_ge_mem (l : List Int) (a : Int) : ∀ x ∈ l, x ≤ l.foldl max a := by
  induction l generalizing a with
  | nil => simp
  | cons y l ih =>
    intro x hx
    rcases List.mem_cons.1 hx with rfl | hx
    · exact le_trans (le_max_right a x) (foldl_max_ge_init l _)
    · exact ih _ x hx

theorem foldl_max_mem (l : List Int) (a : Int) : l.foldl max a = a ∨ l.foldl max a ∈ l := by
  induction l generalizing a with
  | nil => simp
  | cons y l ih =>
    rcases ih (max a y) with h | h
    · rw [List.foldl_cons, h]
      rcases max_choice a y with h' | h'
      · exact Or.inl h'
      · exact Or.inr (by rw [h']; simp)
    · exact Or.inr (List.mem_cons_of_mem _ h)

theorem maxIndex_eq {α : Type} (g : RawOp α) : g.maxIndex = g.indices.foldl max 0 := by
  cases g <;> rfl


section castk
variable {R : Type}

theorem embed_cast_k [Zero R] {n k k' : Nat} (h : k' = k) (A : Array R) (t : Fin k → Fin n) (t' : Fin k' → Fin n)
    (ht : ∀ j : Fin k', t' j = t (Fin.cast h j)) :
    embed (lookupMat (k := k') A) t' = embed (lookupMat (k := k) A) t := by
  subst h
  have : t' = t := funext fun j => by simpa using ht j
  rw [this]

theorem ctrlEmbed_cast_k [Zero R] [One R] {n k k' : Nat} (h : k' = k) (A : Array R) (isCtrl isCtrl' : Fin n → Bool)
    (hi : ∀ i, isCtrl' i = isCtrl i)
    (t : Fin k → Fin n) (t' : Fin k' → Fin n) (ht : ∀ j : Fin k', t' j = t (Fin.cast h j)) :
    ctrlEmbed (lookupMat (k := k') A) isCtrl' t' = ctrlEmbed (lookupMat (k := k) A) isCtrl t := by
  subst h
  have : t' = t := funext fun j => by simpa using ht j
  have hi' : isCtrl' = isCtrl := funext hi
  rw [this, hi']

end castk

end Numqi
