/-
Helper lemmas for the simulator model (C03, C11; reusable by C04).
-/
import Mathlib.Tactic
import Mathlib.Data.Matrix.Mul
import Mathlib.Algebra.BigOperators.Fin
import NumqiProofs.PauliLemmas
import NumqiModel.Sim

namespace Numqi
open Function

namespace Bits
variable {n k : Nat}

theorem toNat_lt : ∀ {n : Nat} (x : Bits n), x.toNat < 2 ^ n
  | 0, _ => by simp [toNat]
  | n + 1, x => by
    have ih := toNat_lt (fun i : Fin n => x i.succ)
    have : (x 0).toNat ≤ 1 := Bool.toNat_le _
    simp only [toNat, pow_succ]
    nlinarith

theorem ofNat_toNat : ∀ {n : Nat} (x : Bits n), ofNat n x.toNat = x
  | 0, x => by funext i; exact i.elim0
  | n + 1, x => by
    have ih := ofNat_toNat (fun i : Fin n => x i.succ)
    have hlt := toNat_lt (fun i : Fin n => x i.succ)
    funext i
    simp only [ofNat, toNat]
    rw [mul_comm, Nat.testBit_two_pow_mul_add _ hlt]
    refine Fin.cases ?_ (fun j => ?_) i
    · simp
      cases x 0 <;> simp
    · have hj : n + 1 - 1 - (j.succ : Fin (n+1)).val < n := by
        have := j.isLt; simp only [Fin.val_succ]; omega
      rw [if_pos hj]
      have := congrFun ih j
      simp only [ofNat] at this
      rw [← this]
      congr 1
      have := j.isLt; simp only [Fin.val_succ]; omega

theorem toNat_ofNat : ∀ {n : Nat} {v : Nat}, v < 2 ^ n → (ofNat n v).toNat = v
  | 0, v, h => by simp at h; simp [toNat, h]
  | n + 1, v, h => by
    have hdiv : v / 2 ^ n < 2 := by
      rw [Nat.div_lt_iff_lt_mul (by positivity)]; rw [pow_succ] at h; omega
    have ih := toNat_ofNat (n := n) (v := v % 2 ^ n) (Nat.mod_lt _ (by positivity))
    simp only [toNat]
    have h0 : (ofNat (n + 1) v 0).toNat = v / 2 ^ n := by
      simp only [ofNat]
      simp [Nat.testBit, Nat.shiftRight_eq_div_pow]
      interval_cases (v / 2 ^ n) <;> simp
    have hs : (fun i : Fin n => ofNat (n + 1) v i.succ) = ofNat n (v % 2 ^ n) := by
      funext i
      simp only [ofNat, Nat.testBit_mod_two_pow]
      have : n - 1 - i.val < n := by have := i.isLt; omega
      simp [this]
      congr 1
      omega
    rw [h0, hs, ih]
    exact Nat.div_add_mod' v (2 ^ n)


/-- the flat index is a bijection between `Fin (2^n)` and bit vectors -/
def equivFin (n : Nat) : Fin (2 ^ n) ≃ Bits n where
  toFun i := ofNat n i.val
  invFun x := ⟨x.toNat, toNat_lt x⟩
  left_inv i := Fin.ext (toNat_ofNat i.isLt)
  right_inv x := ofNat_toNat x

theorem toNat_injective : Injective (toNat (n := n)) := fun x y h => by
  rw [← ofNat_toNat x, ← ofNat_toNat y, h]

/-! ### `sel`, `upd`, `agreeOff` -/

theorem upd_apply_target {t : Fin k → Fin n} (ht : Injective t) (x : Bits n) (y : Bits k) (j : Fin k) :
    x.upd t y (t j) = y j := by
  unfold upd
  have : (List.finRange k).find? (fun j' => t j' == t j) = some j := by
    rw [List.find?_eq_some_iff_append]
    refine ⟨by simp, ?_⟩
    obtain ⟨as, bs, h⟩ := List.append_of_mem (List.mem_finRange j)
    refine ⟨as, bs, h, fun a ha => ?_⟩
    have hnd : (List.finRange k).Nodup := List.nodup_finRange k
    rw [h] at hnd
    have : a ≠ j := by
      rintro rfl
      have := (List.nodup_append.1 hnd).2.2 a ha a (by simp)
      exact this rfl
    simpa using fun e => this (ht e)
  rw [this]; rfl

theorem upd_apply_off {t : Fin k → Fin n} (x : Bits n) (y : Bits k) {i : Fin n} (hi : ∀ j, t j ≠ i) :
    x.upd t y i = x i := by
  unfold upd
  have : (List.finRange k).find? (fun j' => t j' == i) = none := by
    rw [List.find?_eq_none]; intro j _; simpa using hi j
  rw [this]; rfl

theorem sel_upd {t : Fin k → Fin n} (ht : Injective t) (x : Bits n) (y : Bits k) : (x.upd t y).sel t = y := by
  funext j; exact upd_apply_target ht x y j

theorem agreeOff_iff {t : Fin k → Fin n} (x x' : Bits n) :
    agreeOff x x' t = true ↔ ∀ i, (∀ j, t j ≠ i) → x i = x' i := by
  unfold agreeOff
  simp only [List.all_eq_true, List.mem_finRange, true_implies, Bool.or_eq_true, List.any_eq_true,
    beq_iff_eq, true_and]
  constructor
  · intro h i hi
    rcases h i with ⟨j, hj⟩ | h
    · exact absurd hj (hi j)
    · exact h
  · intro h i
    by_cases hi : ∃ j, t j = i
    · exact Or.inl hi
    · exact Or.inr (h i (fun j e => hi ⟨j, e⟩))

theorem agreeOff_upd {t : Fin k → Fin n} (x : Bits n) (y : Bits k) : agreeOff x (x.upd t y) t = true := by
  rw [agreeOff_iff]; intro i hi; rw [upd_apply_off x y hi]

theorem upd_sel_of_agreeOff {t : Fin k → Fin n} (ht : Injective t) {x x' : Bits n}
    (h : agreeOff x x' t = true) : x.upd t (x'.sel t) = x' := by
  rw [agreeOff_iff] at h
  funext i
  by_cases hi : ∃ j, t j = i
  · obtain ⟨j, rfl⟩ := hi; rw [upd_apply_target ht]; rfl
  · have hi' : ∀ j, t j ≠ i := fun j e => hi ⟨j, e⟩
    rw [upd_apply_off _ _ hi', h i hi']

theorem agreeOff_refl {t : Fin k → Fin n} (x : Bits n) : agreeOff x x t = true := by
  rw [agreeOff_iff]; intros; rfl

theorem agreeOff_symm {t : Fin k → Fin n} {x x' : Bits n} (h : agreeOff x x' t = true) :
    agreeOff x' x t = true := by
  rw [agreeOff_iff] at *; intro i hi; exact (h i hi).symm

theorem agreeOff_trans {t : Fin k → Fin n} {x y z : Bits n} (h1 : agreeOff x y t = true)
    (h2 : agreeOff y z t = true) : agreeOff x z t = true := by
  rw [agreeOff_iff] at *; intro i hi; exact (h1 i hi).trans (h2 i hi)

end Bits

/-! ### sums -/

theorem sumBits_eq_sum {M : Type} [AddCommMonoid M] (k : Nat) (f : Bits k → M) :
    sumBits k f = ∑ y, f y := by
  unfold sumBits
  rw [← Fin.sum_univ_def]
  exact Fintype.sum_equiv (Bits.equivFin k) _ _ (fun _ => rfl)

end Numqi
