/-
`choi_op_to_bloch_map` returns the affine Bloch-vector map of the channel (C12), on top of the Gell-Mann theorems of C16.
-/
import NumqiProofs.Channel
import NumqiProofs.GellmannIso

namespace Numqi
namespace Channel
open Finset Matrix Numqi.Gellmann

variable {R : Type} [CommRing R] [StarRing R]

/-- `Tr(G_μ A) = 2·coef_μ(A)` -/
theorem trace_basis_mul {d : ℕ} (S : Scalars R) (hS : S.Valid d) (hd : 1 ≤ d) (A : Mat d R) {μ : ℕ} (hμ : μ < d * d) :
    trace (basis S d μ * Matrix.of A) = coef S d A μ * 2 := by
  rw [coef_eq_inner S hS hd A hμ, mul_comm S.half, mul_assoc, hS.half_two, mul_one]

/-- a matrix is the sum of its coefficients times the basis -/
theorem expand {d : ℕ} (S : Scalars R) (hS : S.Valid d) (hd : 1 ≤ d) (A : Mat d R) :
    (Matrix.of A : Matrix (Fin d) (Fin d) R) = ∑ μ ∈ range (d * d), coef S d A μ • basis S d μ := by
  have h1 := synthesis_coef S hS hd A
  have h2 := synthesis_eq_sum' S hd (coef S d A)
  rw [h1] at h2
  exact h2

/-- coefficients are linear: coefficient of a combination of matrices -/
theorem coef_sum {d : ℕ} (S : Scalars R) (hS : S.Valid d) (hd : 1 ≤ d) (L : ℕ) (c : ℕ → R) (N : ℕ → Mat d R) {ν : ℕ}
    (hν : ν < d * d) :
    coef S d (fun a b => ∑ μ ∈ range L, c μ * N μ a b) ν = ∑ μ ∈ range L, c μ * coef S d (N μ) ν := by
  rw [coef_eq_inner S hS hd _ hν]
  have : (Matrix.of (fun a b => ∑ μ ∈ range L, c μ * N μ a b) : Matrix (Fin d) (Fin d) R)
      = ∑ μ ∈ range L, c μ • Matrix.of (N μ) := by
    ext a b; simp [Matrix.sum_apply]
  rw [this, Matrix.mul_sum, trace_sum, mul_sum]
  refine sum_congr rfl fun μ _ => ?_
  rw [Matrix.mul_smul, trace_smul, coef_eq_inner S hS hd _ hν, smul_eq_mul]; ring

/-- the channel output in terms of the Gell-Mann coefficients of the input -/
theorem applyChoi_expand {din dout : ℕ} (Sin : Scalars R) (hSin : Sin.Valid din) (hdin : 1 ≤ din)
    (C ρ : ℕ → ℕ → R) (a b : ℕ) :
    applyChoi din dout C ρ a b
      = ∑ μ ∈ range (din * din), (coef Sin din (fun i j : Fin din => ρ i.val j.val) μ * 2) * blochTmp1 Sin din dout C a b μ := by
  set M : Mat din R := fun j i => C (i.val * dout + a) (j.val * dout + b) with hM
  have h1 : applyChoi din dout C ρ a b = trace (Matrix.of M * Matrix.of (fun i j : Fin din => ρ i.val j.val)) := by
    simp only [applyChoi, sumRange_eq_sum, trace, diag_apply, Matrix.mul_apply, Matrix.of_apply, hM, Finset.sum_range]
    rw [sum_comm]
  rw [h1, expand Sin hSin hdin (fun i j : Fin din => ρ i.val j.val), Matrix.mul_sum, trace_sum]
  refine sum_congr rfl fun μ hμ => ?_
  rw [Matrix.mul_smul, trace_smul, trace_mul_comm, trace_basis_mul Sin hSin hdin M (mem_range.1 hμ), smul_eq_mul]
  show _ = _ * coef Sin din M μ
  ring

theorem star_two : star (2 : R) = 2 := by
  rw [show (2 : R) = 1 + 1 by norm_num, star_add, star_one]

theorem re_self {d : ℕ} (S : Scalars R) (hS : S.Valid d) {x : R} (hx : star x = x) : re S x = x := re_of_star_eq S hS hx

/-- the affine Bloch map, complex-linear core: coefficient `ν` of the output state -/
theorem coef_applyChoi {din dout : ℕ} (Sin Sout : Scalars R) (hSin : Sin.Valid din) (hSout : Sout.Valid dout)
    (hdin : 1 ≤ din) (hdout : 1 ≤ dout) (C ρ : ℕ → ℕ → R) {ν : ℕ} (hν : ν < dout * dout) :
    coef Sout dout (fun a b : Fin dout => applyChoi din dout C ρ a.val b.val) ν
      = ∑ μ ∈ range (din * din), (coef Sin din (fun i j : Fin din => ρ i.val j.val) μ * 2)
          * blochX Sout dout (blochTmp1 Sin din dout C) μ ν := by
  have h1 : (fun a b : Fin dout => applyChoi din dout C ρ a.val b.val)
      = fun a b : Fin dout => ∑ μ ∈ range (din * din),
          (coef Sin din (fun i j : Fin din => ρ i.val j.val) μ * 2) * blochTmp1 Sin din dout C a.val b.val μ := by
    funext a b; exact applyChoi_expand Sin hSin hdin C ρ a.val b.val
  rw [h1, coef_sum Sout hSout hdout (din * din) _ (fun μ a b => blochTmp1 Sin din dout C a.val b.val μ) hν]
  rfl

/-- **`choi_op_to_bloch_map` is the affine action on Bloch vectors** (all `din, dout ≥ 1`): for a Hermitian input of trace
one and a channel whose second-stage coefficients are real (Hermiticity-preserving map, see `bloch_real_of_hermitian`),
`r(Φρ)_ν = Σ_μ A[ν,μ]·r(ρ)_μ + b_ν`. -/
theorem bloch_affine {din dout : ℕ} (Sin Sout : Scalars R) (hSin : Sin.Valid din) (hSout : Sout.Valid dout)
    (hdin : 1 ≤ din) (hdout : 1 ≤ dout) (C ρ : ℕ → ℕ → R)
    (hρH : (Matrix.of (fun i j : Fin din => ρ i.val j.val))ᴴ = Matrix.of (fun i j : Fin din => ρ i.val j.val))
    (hρtr : ∑ l : Fin din, ρ l.val l.val = 1)
    (hX : ∀ μ ν, μ < din * din → ν < dout * dout →
      star (blochX Sout dout (blochTmp1 Sin din dout C) μ ν) = blochX Sout dout (blochTmp1 Sin din dout C) μ ν)
    {ν : ℕ} (hν : ν < dout * dout - 1) :
    (dmToVec Sout dout (fun a b : Fin dout => applyChoi din dout C ρ a.val b.val) false).getD ν 0
      = (∑ μ ∈ range (din * din - 1),
          blochA Sin Sout din dout C ν μ * (dmToVec Sin din (fun i j : Fin din => ρ i.val j.val) false).getD μ 0)
        + blochB Sin Sout din dout C ν := by
  have hν' : ν < dout * dout := by omega
  have hpos : 0 < din * din := Nat.mul_pos hdin hdin
  have hlast : din * din - 1 < din * din := by omega
  set ρm : Mat din R := fun i j => ρ i.val j.val with hρm
  have hx : ∀ μ, μ < din * din → star (coef Sin din ρm μ) = coef Sin din ρm μ :=
    fun μ hμ => coef_star_of_hermitian Sin hSin hdin ρm hρH hμ
  rw [dmToVec_getD Sout hdout _ hν, coef_applyChoi Sin Sout hSin hSout hdin hdout C ρ hν']
  have hreal : star (∑ μ ∈ range (din * din), (coef Sin din ρm μ * 2) * blochX Sout dout (blochTmp1 Sin din dout C) μ ν)
      = ∑ μ ∈ range (din * din), (coef Sin din ρm μ * 2) * blochX Sout dout (blochTmp1 Sin din dout C) μ ν := by
    rw [star_sum]
    refine sum_congr rfl fun μ hμ => ?_
    rw [star_mul', star_mul', hx μ (mem_range.1 hμ), star_two, hX μ ν (mem_range.1 hμ) hν']
  rw [re_self Sout hSout hreal]
  have hsplit : din * din = (din * din - 1) + 1 := by omega
  rw [hsplit, sum_range_succ, ← hsplit]
  congr 1
  · refine sum_congr rfl fun μ hμ => ?_
    have hμ' : μ < din * din := by have := mem_range.1 hμ; omega
    rw [dmToVec_getD Sin hdin ρm (mem_range.1 hμ), re_self Sin hSin (hx μ hμ')]
    simp only [blochA, blochGm]
    rw [re_self Sout hSout (hX μ ν hμ' hν')]
    ring
  · rw [coef_last Sin hdin ρm, hρtr, one_mul]
    simp only [blochB, blochGm]
    rw [re_self Sout hSout (hX _ ν hlast hν'), hSin.aI_eq]
    have := hSin.half_two
    linear_combination (Sin.cI * blochX Sout dout (blochTmp1 Sin din dout C) (din * din - 1) ν) * this

theorem star_coef {d : ℕ} (S : Scalars R) (hS : S.Valid d) (hd : 1 ≤ d) (A : Mat d R) {μ : ℕ} (hμ : μ < d * d) :
    star (coef S d A μ) = coef S d (fun i j => star (A j i)) μ := by
  rw [coef_eq_inner S hS hd A hμ, coef_eq_inner S hS hd _ hμ, star_mul', hS.star_half]
  congr 1
  have h1 : (Matrix.of (fun i j => star (A j i)) : Matrix (Fin d) (Fin d) R) = (Matrix.of A)ᴴ := by
    ext i j; simp [Matrix.conjTranspose_apply]
  rw [h1, ← Matrix.trace_conjTranspose, Matrix.conjTranspose_mul, basis_hermitian S hS hd hμ, Matrix.trace_mul_comm]

/-- for a Hermitian Choi operator (Hermiticity-preserving map) the second-stage coefficients are real, so `.real` loses nothing -/
theorem blochX_real {din dout : ℕ} (Sin Sout : Scalars R) (hSin : Sin.Valid din) (hSout : Sout.Valid dout)
    (hdin : 1 ≤ din) (hdout : 1 ≤ dout) (C : ℕ → ℕ → R) (hC : ∀ x y, star (C x y) = C y x)
    (μ ν : ℕ) (hμ : μ < din * din) (hν : ν < dout * dout) :
    star (blochX Sout dout (blochTmp1 Sin din dout C) μ ν) = blochX Sout dout (blochTmp1 Sin din dout C) μ ν := by
  refine coef_star_of_hermitian Sout hSout hdout (fun a b : Fin dout => blochTmp1 Sin din dout C a.val b.val μ) ?_ hν
  ext a b
  simp only [Matrix.conjTranspose_apply, Matrix.of_apply]
  show star (coef Sin din _ μ) = coef Sin din _ μ
  rw [star_coef Sin hSin hdin _ hμ]
  congr 1
  funext j i
  exact hC _ _

end Channel
end Numqi
