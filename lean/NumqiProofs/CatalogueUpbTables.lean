/-
Helper lemmas for C18: the fixed UPB tables (`tiles`, `feng4x4`, `feng2x2x2x2`) are orthonormal sets of product vectors in
the sense of `Orthonormal` (over ℂ, amplitudes `sgn·√sq` interpreted with the real square root), so that
`upb_bes_projector` / `upb_bes_ppt` apply to them.
-/
import NumqiProofs.CatalogueUpb
import Mathlib.Analysis.SpecialFunctions.Sqrt

set_option linter.unusedSectionVars false

namespace Numqi.Catalogue
open Finset

/-- the real number denoted by a signed-square amplitude -/
noncomputable def SAmp.val (a : SAmp) : ℝ := (a.sgn : ℝ) * Real.sqrt (a.sq : ℝ)

/-- local vector `a` of a party, as a real function of the component index -/
noncomputable def tableVecR (party : List (List SAmp)) (a t : ℕ) : ℝ := ((party.getD a []).getD t SAmp.zero).val

/-- real dot product on `range D` -/
noncomputable def rdot (D : ℕ) (x y : ℕ → ℝ) : ℝ := ∑ t ∈ Finset.range D, x t * y t

theorem inner_ofReal (D : ℕ) (x y : ℕ → ℝ) :
    Numqi.Catalogue.inner D (fun t => (x t : ℂ)) (fun t => (y t : ℂ)) = ((rdot D x y : ℝ) : ℂ) := by
  unfold Numqi.Catalogue.inner rdot
  push_cast
  refine Finset.sum_congr rfl fun t _ => by rw [Complex.conj_ofReal]

theorem inv_sqrt_mul_self (x : ℝ) (hx : 0 ≤ x) : (Real.sqrt x)⁻¹ * (Real.sqrt x)⁻¹ = x⁻¹ := by
  rw [← mul_inv, Real.mul_self_sqrt hx]

/-- two parties: orthonormality of the product vectors from the products of the local dot products -/
theorem orthonormal_of_local2 (m dA dB : ℕ) (hB : 0 < dB) (uA uB : ℕ → ℕ → ℝ)
    (h : ∀ a < m, ∀ b < m, rdot dA (uA a) (uA b) * rdot dB (uB a) (uB b) = if a = b then 1 else 0) :
    Orthonormal m (dA * dB) (prodVec dB (fun a t => (uA a t : ℂ)) (fun a t => (uB a t : ℂ))) := by
  intro a ha b hb
  rw [inner_prodVec dA dB hB, inner_ofReal, inner_ofReal, ← Complex.ofReal_mul, h a ha b hb]
  split_ifs <;> simp

/-- four parties (cut `A | B | C | D` nested from the right) -/
theorem orthonormal_of_local4 (m dA dB dC dD : ℕ) (hB : 0 < dB) (hC : 0 < dC) (hD : 0 < dD) (uA uB uC uD : ℕ → ℕ → ℝ)
    (h : ∀ a < m, ∀ b < m, rdot dA (uA a) (uA b) * (rdot dB (uB a) (uB b) * (rdot dC (uC a) (uC b) * rdot dD (uD a) (uD b)))
      = if a = b then 1 else 0) :
    Orthonormal m (dA * (dB * (dC * dD)))
      (prodVec (dB * (dC * dD)) (fun a t => (uA a t : ℂ))
        (prodVec (dC * dD) (fun a t => (uB a t : ℂ)) (prodVec dD (fun a t => (uC a t : ℂ)) (fun a t => (uD a t : ℂ))))) := by
  intro a ha b hb
  rw [inner_prodVec dA _ (by positivity), inner_prodVec dB _ (by positivity), inner_prodVec dC dD hD,
    inner_ofReal, inner_ofReal, inner_ofReal, inner_ofReal, ← Complex.ofReal_mul, ← Complex.ofReal_mul, ← Complex.ofReal_mul, h a ha b hb]
  split_ifs <;> simp

theorem tiles_local (a b : ℕ) (ha : a < 5) (hb : b < 5) :
    rdot 3 (tableVecR (upbTiles.getD 0 []) a) (tableVecR (upbTiles.getD 0 []) b)
      * rdot 3 (tableVecR (upbTiles.getD 1 []) a) (tableVecR (upbTiles.getD 1 []) b) = if a = b then 1 else 0 := by
  have i2 := inv_sqrt_mul_self 2 (by norm_num)
  have i3 := inv_sqrt_mul_self 3 (by norm_num)
  interval_cases a <;> interval_cases b <;>
    simp [rdot, tableVecR, upbTiles, SAmp.val, sa, s0, s1, SAmp.zero, Finset.sum_range_succ] <;>
    (try rw [i2]) <;> (try rw [i3]) <;> norm_num

theorem feng4x4_local (a b : ℕ) (ha : a < 8) (hb : b < 8) :
    rdot 4 (tableVecR (upbFeng4x4.getD 0 []) a) (tableVecR (upbFeng4x4.getD 0 []) b)
      * rdot 4 (tableVecR (upbFeng4x4.getD 1 []) a) (tableVecR (upbFeng4x4.getD 1 []) b) = if a = b then 1 else 0 := by
  have i3 := inv_sqrt_mul_self 3 (by norm_num)
  interval_cases a <;> interval_cases b <;>
    simp [rdot, tableVecR, upbFeng4x4, SAmp.val, sa, s0, s1, SAmp.zero, Finset.sum_range_succ] <;>
    (try rw [i3]) <;> norm_num

theorem feng2x2x2x2_local (a b : ℕ) (ha : a < 6) (hb : b < 6) :
    rdot 2 (tableVecR (upbFeng2x2x2x2.getD 0 []) a) (tableVecR (upbFeng2x2x2x2.getD 0 []) b)
      * (rdot 2 (tableVecR (upbFeng2x2x2x2.getD 1 []) a) (tableVecR (upbFeng2x2x2x2.getD 1 []) b)
      * (rdot 2 (tableVecR (upbFeng2x2x2x2.getD 2 []) a) (tableVecR (upbFeng2x2x2x2.getD 2 []) b)
      * rdot 2 (tableVecR (upbFeng2x2x2x2.getD 3 []) a) (tableVecR (upbFeng2x2x2x2.getD 3 []) b))) = if a = b then 1 else 0 := by
  have i2 := inv_sqrt_mul_self 2 (by norm_num)
  have i4 := inv_sqrt_mul_self 4 (by norm_num)
  have h34 : Real.sqrt 3 / Real.sqrt 4 * (Real.sqrt 3 / Real.sqrt 4) = 3 / 4 := by
    rw [div_mul_div_comm, Real.mul_self_sqrt (by norm_num), Real.mul_self_sqrt (by norm_num)]
  interval_cases a <;> interval_cases b <;>
    simp [rdot, tableVecR, upbFeng2x2x2x2, SAmp.val, sa, s0, s1, SAmp.zero, Finset.sum_range_succ]
  all_goals first
    | ring1
    | (right; ring1)
    | (simp only [i2, i4, h34]; norm_num)


/-! ### Min4x4: entries in `ℤ[√2]` -/

/-- the real number `a + b√2` -/
noncomputable def Z2.val (x : Z2) : ℝ := (x.a : ℝ) + (x.b : ℝ) * Real.sqrt 2

theorem Z2.val_add (x y : Z2) : (x + y).val = x.val + y.val := by
  show (((x.a + y.a : ℤ) : ℝ)) + ((x.b + y.b : ℤ) : ℝ) * Real.sqrt 2 = _
  unfold Z2.val; push_cast; ring

theorem Z2.val_mul (x y : Z2) : (x * y).val = x.val * y.val := by
  show (((x.a * y.a + 2 * x.b * y.b : ℤ) : ℝ)) + ((x.a * y.b + x.b * y.a : ℤ) : ℝ) * Real.sqrt 2 = _
  unfold Z2.val; push_cast
  have h := Real.mul_self_sqrt (show (0 : ℝ) ≤ 2 by norm_num)
  linear_combination (-(x.b : ℝ) * (y.b : ℝ)) * h

theorem Z2.val_zero : (0 : Z2).val = 0 := by
  show ((0 : ℤ) : ℝ) + ((0 : ℤ) : ℝ) * Real.sqrt 2 = 0; simp

/-- local vector `a` of a `ℤ[√2]` table: `entries / √normSq` -/
noncomputable def zrowVec (rows : List Z2Row) (a t : ℕ) : ℝ :=
  ((rows.getD a ⟨z 0, []⟩).entries.getD t 0).val / Real.sqrt ((rows.getD a ⟨z 0, []⟩).normSq.val)

/-- **soundness of the `ℤ[√2]` arithmetic**: the real dot product of two 4-entry rows is the value of the exact dot product
divided by the two norms -/
theorem zrow_dot (rows : List Z2Row) (a b : ℕ) (e0 e1 e2 e3 f0 f1 f2 f3 : Z2)
    (ha : (rows.getD a ⟨z 0, []⟩).entries = [e0, e1, e2, e3]) (hb : (rows.getD b ⟨z 0, []⟩).entries = [f0, f1, f2, f3]) :
    rdot 4 (zrowVec rows a) (zrowVec rows b)
      = (dotList (rows.getD a ⟨z 0, []⟩).entries (rows.getD b ⟨z 0, []⟩).entries).val
        / (Real.sqrt ((rows.getD a ⟨z 0, []⟩).normSq.val) * Real.sqrt ((rows.getD b ⟨z 0, []⟩).normSq.val)) := by
  unfold rdot zrowVec
  rw [ha, hb]
  simp only [Finset.sum_range_succ, Finset.sum_range_zero, dotList, List.zip_cons_cons, List.zip_nil_right, List.foldl_cons, List.foldl_nil,
    Z2.val_add, Z2.val_mul, Z2.val_zero, List.getD_cons_zero, List.getD_cons_succ]
  ring

theorem min4x4_shape (a : ℕ) (ha : a < 8) :
    (∃ e0 e1 e2 e3, (min4x4A.getD a ⟨z 0, []⟩).entries = [e0, e1, e2, e3]) ∧
    (∃ e0 e1 e2 e3, (min4x4B.getD a ⟨z 0, []⟩).entries = [e0, e1, e2, e3]) := by
  interval_cases a <;> exact ⟨⟨_, _, _, _, rfl⟩, ⟨_, _, _, _, rfl⟩⟩

theorem min4x4_norms : ∀ a < 8,
    dotList (min4x4A.getD a ⟨z 0, []⟩).entries (min4x4A.getD a ⟨z 0, []⟩).entries = (min4x4A.getD a ⟨z 0, []⟩).normSq ∧
    dotList (min4x4B.getD a ⟨z 0, []⟩).entries (min4x4B.getD a ⟨z 0, []⟩).entries = (min4x4B.getD a ⟨z 0, []⟩).normSq := by
  decide +kernel

theorem min4x4_orth : ∀ a < 8, ∀ b < 8, a ≠ b →
    dotList (min4x4A.getD a ⟨z 0, []⟩).entries (min4x4A.getD b ⟨z 0, []⟩).entries = 0 ∨
    dotList (min4x4B.getD a ⟨z 0, []⟩).entries (min4x4B.getD b ⟨z 0, []⟩).entries = 0 := by
  decide +kernel

theorem min4x4_pos (a : ℕ) (ha : a < 8) :
    0 < (min4x4A.getD a ⟨z 0, []⟩).normSq.val ∧ 0 < (min4x4B.getD a ⟨z 0, []⟩).normSq.val := by
  have h2 := Real.mul_self_sqrt (show (0 : ℝ) ≤ 2 by norm_num)
  have h0 := Real.sqrt_nonneg 2
  interval_cases a <;> simp [min4x4A, min4x4B, Z2.val, z] <;> nlinarith

theorem min4x4_local (a b : ℕ) (ha : a < 8) (hb : b < 8) :
    rdot 4 (zrowVec min4x4A a) (zrowVec min4x4A b) * rdot 4 (zrowVec min4x4B a) (zrowVec min4x4B b) = if a = b then 1 else 0 := by
  obtain ⟨⟨e0, e1, e2, e3, hAa⟩, ⟨g0, g1, g2, g3, hBa⟩⟩ := min4x4_shape a ha
  obtain ⟨⟨f0, f1, f2, f3, hAb⟩, ⟨k0, k1, k2, k3, hBb⟩⟩ := min4x4_shape b hb
  rw [zrow_dot min4x4A a b _ _ _ _ _ _ _ _ hAa hAb, zrow_dot min4x4B a b _ _ _ _ _ _ _ _ hBa hBb]
  by_cases hab : a = b
  · subst hab
    rw [if_pos rfl, (min4x4_norms a ha).1, (min4x4_norms a ha).2]
    obtain ⟨pA, pB⟩ := min4x4_pos a ha
    rw [Real.mul_self_sqrt pA.le, Real.mul_self_sqrt pB.le, div_self pA.ne', div_self pB.ne', mul_one]
  · rw [if_neg hab]
    rcases min4x4_orth a ha b hb hab with h | h
    · rw [h, Z2.val_zero, zero_div, zero_mul]
    · rw [h, Z2.val_zero, zero_div, mul_zero]

end Numqi.Catalogue
