/-
The table check of `permutation_with_antisymmetric_factor` for tuples of length 5 (all 16 sorted patterns, 120 permutations),
evaluated by the kernel.  Kept in its own module because it takes a few minutes to elaborate (once; cached afterwards).
-/
import NumqiProofs.MatrixSpaceMinors

namespace Numqi.MatrixSpace

set_option maxRecDepth 10000000 in
theorem tablesOK_five : TablesOK 5 := by decide +kernel

end Numqi.MatrixSpace
