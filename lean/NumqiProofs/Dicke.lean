/-
Helper lemmas for the Dicke model (C17).
-/
import Mathlib.Tactic
import Mathlib.Algebra.BigOperators.Fin
import Mathlib.Algebra.BigOperators.Intervals
import Mathlib.Data.Nat.Choose.Basic
import Mathlib.Data.Nat.Choose.Sum
import Mathlib.Data.List.GetD
import NumqiModel.Dicke
import NumqiProofs.PartialTrace

namespace Numqi
namespace Dicke
open Finset

theorem fact_eq (n : ℕ) : fact n = n.factorial := by
  induction n with
  | zero => rfl
  | succ n ih => rw [fact, ih, Nat.factorial_succ]

theorem fact_pos (n : ℕ) : 0 < fact n := by rw [fact_eq]; exact Nat.factorial_pos n

theorem prodFact_pos (a : List ℕ) : 0 < prodFact a := by
  induction a with
  | nil => simp [prodFact]
  | cons x xs ih => simp only [prodFact]; exact Nat.mul_pos (fact_pos x) ih

theorem prodFact_dvd (a : List ℕ) : prodFact a ∣ fact a.sum := by
  induction a with
  | nil => simp [prodFact]
  | cons x xs ih =>
    simp only [prodFact, List.sum_cons]
    calc fact x * prodFact xs ∣ fact x * fact xs.sum := Nat.mul_dvd_mul_left _ ih
      _ ∣ fact (x + xs.sum) := by
        simp only [fact_eq]; exact Nat.factorial_mul_factorial_dvd_factorial_add x xs.sum

/-- `M(a) · ∏ aᵢ! = (Σ a)!` -/
theorem multinomial_mul (a : List ℕ) : multinomial a * prodFact a = fact a.sum :=
  Nat.div_mul_cancel (prodFact_dvd a)

theorem multinomial_pos (a : List ℕ) : 0 < multinomial a :=
  Nat.div_pos (Nat.le_of_dvd (fact_pos _) (prodFact_dvd a)) (prodFact_pos a)

theorem prodFact_set (a : List ℕ) (r : ℕ) (hr : r < a.length) (hpos : 0 < a.getD r 0) :
    prodFact a = a.getD r 0 * prodFact (a.set r (a.getD r 0 - 1)) := by
  induction a generalizing r with
  | nil => simp at hr
  | cons x xs ih =>
    cases r with
    | zero =>
      simp only [List.getD_cons_zero, List.set_cons_zero, prodFact] at hpos ⊢
      obtain ⟨y, rfl⟩ : ∃ y, x = y + 1 := ⟨x - 1, by omega⟩
      simp only [fact, Nat.add_sub_cancel]; ring
    | succ r =>
      simp only [List.getD_cons_succ, List.set_cons_succ, prodFact] at hpos ⊢
      rw [ih r (by simpa using hr) hpos]; ring

theorem sum_set (a : List ℕ) (r : ℕ) (hr : r < a.length) (hpos : 0 < a.getD r 0) :
    (a.set r (a.getD r 0 - 1)).sum + 1 = a.sum := by
  induction a generalizing r with
  | nil => simp at hr
  | cons x xs ih =>
    cases r with
    | zero => simp only [List.getD_cons_zero, List.set_cons_zero, List.sum_cons] at hpos ⊢; omega
    | succ r =>
      simp only [List.getD_cons_succ, List.set_cons_succ, List.sum_cons] at hpos ⊢
      have := ih r (by simpa using hr) hpos; omega

/-- **`n · M(a − e_r) = a_r · M(a)`** -/
theorem multinomial_shift' (a : List ℕ) (r : ℕ) (hr : r < a.length) (hpos : 0 < a.getD r 0) :
    a.sum * multinomial (a.set r (a.getD r 0 - 1)) = a.getD r 0 * multinomial a := by
  set a' := a.set r (a.getD r 0 - 1) with ha'
  have h1 := multinomial_mul a
  have h2 := multinomial_mul a'
  have hs := sum_set a r hr hpos
  have hp := prodFact_set a r hr hpos
  rw [← ha'] at hs hp
  have hf : fact a.sum = a.sum * fact a'.sum := by rw [← hs, fact]
  have key : a.sum * multinomial a' * prodFact a' = a.getD r 0 * multinomial a * prodFact a' := by
    calc a.sum * multinomial a' * prodFact a' = a.sum * (multinomial a' * prodFact a') := by ring
      _ = fact a.sum := by rw [h2, hf]
      _ = multinomial a * prodFact a := h1.symm
      _ = a.getD r 0 * multinomial a * prodFact a' := by rw [hp]; ring
  exact Nat.eq_of_mul_eq_mul_right (prodFact_pos a') key

/-! ### `klist` -/

theorem klist_one (n : ℕ) : klist 1 n = [[n]] := by simp [klist]

theorem klist_succ (d n : ℕ) (hd : d ≠ 0) :
    klist (d + 1) n = (List.range (n + 1)).flatMap fun x => (klist d (n - x)).map (x :: ·) := by
  rw [klist]; simp [hd]

theorem mem_klist_iff (d n : ℕ) (a : List ℕ) : a ∈ klist (d + 1) n ↔ a.length = d + 1 ∧ a.sum = n := by
  induction d generalizing n a with
  | zero =>
    rw [klist_one, List.mem_singleton]
    constructor
    · rintro rfl; simp
    · rintro ⟨hl, hs⟩
      match a, hl with
      | [x], _ => simp at hs; rw [hs]
  | succ d ih =>
    rw [klist_succ _ _ (Nat.succ_ne_zero d)]
    simp only [List.mem_flatMap, List.mem_range, List.mem_map]
    constructor
    · rintro ⟨x, hx, y, hy, rfl⟩
      obtain ⟨hl, hs⟩ := (ih _ _).1 hy
      have hx' : x + (n - x) = n := Nat.add_sub_cancel' (Nat.lt_succ_iff.1 hx)
      simp only [List.length_cons, List.sum_cons, hl, hs, hx', and_self]
    · rintro ⟨hl, hs⟩
      match a, hl with
      | x :: y, hl =>
        simp only [List.sum_cons] at hs
        refine ⟨x, by omega, y, (ih _ _).2 ⟨by simpa using hl, by omega⟩, rfl⟩

theorem klist_nodup (d n : ℕ) : (klist (d + 1) n).Nodup := by
  induction d generalizing n with
  | zero => rw [klist_one]; simp
  | succ d ih =>
    rw [klist_succ _ _ (Nat.succ_ne_zero d)]
    rw [List.nodup_flatMap]
    refine ⟨fun x _ => (ih _).map (fun _ _ h => (List.cons_injective h)), ?_⟩
    refine (List.nodup_range).pairwise_of_forall_ne ?_
    intro x _ y _ hxy
    simp only [Function.onFun, List.disjoint_left, List.mem_map]
    rintro a ⟨u, _, rfl⟩ ⟨v, _, h⟩
    exact hxy (List.cons_eq_cons.1 h).1.symm

theorem list_sum_range_eq (m : ℕ) (f : ℕ → ℕ) : ((List.range m).map f).sum = ∑ i ∈ range m, f i := by
  induction m with
  | zero => simp
  | succ m ih => rw [List.sum_range_succ, ih, Finset.sum_range_succ]

theorem hockey (n d : ℕ) : ∑ m ∈ range (n + 1), (m + d).choose d = (n + d + 1).choose (d + 1) := by
  induction n with
  | zero => simp
  | succ n ih =>
    rw [Finset.sum_range_succ, ih]
    have : n + 1 + d + 1 = (n + d + 1) + 1 := by omega
    rw [this, Nat.choose_succ_succ (n + d + 1) d]
    have : n + 1 + d = n + d + 1 := by omega
    rw [this]; ring

/-- **the number of Dicke vectors**: `#klist = C(n+d-1, d-1)` -/
theorem klist_length (d n : ℕ) : (klist (d + 1) n).length = (n + d).choose d := by
  induction d generalizing n with
  | zero => rw [klist_one]; simp
  | succ d ih =>
    rw [klist_succ _ _ (Nat.succ_ne_zero d), List.length_flatMap]
    simp only [List.length_map, ih]
    rw [list_sum_range_eq, ← Finset.sum_range_reflect]
    rw [← Nat.add_assoc, ← hockey n d]
    refine Finset.sum_congr rfl fun j hj => ?_
    have := mem_range.1 hj
    congr 1; omega

theorem choose_eq (n k : ℕ) : Dicke.choose n k = n.choose k := by
  induction n generalizing k with
  | zero => cases k <;> simp [Dicke.choose]
  | succ n ih => cases k <;> simp [Dicke.choose, ih, Nat.choose_succ_succ]

/-! ### occupation numbers and the number of strings of a given occupation -/

theorem occ_length (d : ℕ) (l : List ℕ) : (occ d l).length = d := by simp [occ]

theorem occ_getElem (d : ℕ) (l : List ℕ) (v : ℕ) (hv : v < (occ d l).length) : (occ d l)[v] = l.count v := by
  simp [occ]

theorem occ_getD (d : ℕ) (l : List ℕ) (v : ℕ) (hv : v < d) : (occ d l).getD v 0 = l.count v := by
  rw [List.getD_eq_getElem _ _ (by rw [occ_length]; exact hv), occ_getElem]

theorem occ_cons (d q : ℕ) (l : List ℕ) (hq : q < d) :
    occ d (q :: l) = (occ d l).set q ((occ d l).getD q 0 + 1) := by
  rw [occ_getD d l q hq]
  apply List.ext_getElem
  · simp [occ_length]
  · intro i h1 h2
    rw [occ_getElem, List.getElem_set, List.count_cons]
    by_cases h : q = i
    · subst h; simp
    · have : (q == i) = false := by simpa using h
      simp [this, h, occ_getElem]

theorem occ_cons_eq_iff (d q : ℕ) (l a : List ℕ) (hq : q < d) (ha : a.length = d) :
    occ d (q :: l) = a ↔ 0 < a.getD q 0 ∧ occ d l = a.set q (a.getD q 0 - 1) := by
  rw [occ_cons d q l hq]
  have hql : q < (occ d l).length := by rw [occ_length]; exact hq
  have hqa : q < a.length := by rw [ha]; exact hq
  constructor
  · intro h
    subst h
    have hg : ((occ d l).set q ((occ d l).getD q 0 + 1)).getD q 0 = (occ d l).getD q 0 + 1 := by
      rw [List.getD_eq_getElem _ _ (by simpa using hql), List.getElem_set_self]
    refine ⟨by omega, ?_⟩
    rw [hg, Nat.add_sub_cancel, List.set_set, List.getD_eq_getElem _ _ hql, List.set_getElem_self]
  · rintro ⟨hpos, h⟩
    rw [h, List.set_set]
    have : (a.set q (a.getD q 0 - 1)).getD q 0 = a.getD q 0 - 1 := by
      rw [List.getD_eq_getElem _ _ (by simpa using hqa), List.getElem_set_self]
    rw [this, Nat.sub_add_cancel hpos, List.getD_eq_getElem _ _ hqa, List.set_getElem_self]

theorem occ_perm (d : ℕ) {l l' : List ℕ} (h : l.Perm l') : occ d l = occ d l' := by
  simp only [occ]; exact List.map_congr_left fun v _ => h.count_eq v

theorem prodDims_replicate (n d : ℕ) : PT.prodDims (List.replicate n d) = d ^ n := by
  induction n with
  | zero => rfl
  | succ n ih => simp [List.replicate_succ, PT.prodDims, ih, pow_succ, Nat.mul_comm]

theorem digits_succ (d n x : ℕ) : digits d (n + 1) x = (x / d ^ n) :: digits d n (x % d ^ n) := by
  simp [digits, List.replicate_succ, PT.unravel, prodDims_replicate]

theorem digits_zero (d x : ℕ) : digits d 0 x = [] := by simp [digits, PT.unravel]

/-- number of flat indices `x < d^n` whose digit string has occupation `a` -/
def cnt (d n : ℕ) (a : List ℕ) : ℕ := ∑ x ∈ range (d ^ n), if occ d (digits d n x) = a then 1 else 0

theorem sum_getD_eq_sum (a : List ℕ) : ∑ q ∈ range a.length, a.getD q 0 = a.sum := by
  induction a with
  | nil => simp
  | cons x xs ih =>
    rw [List.length_cons, Finset.sum_range_succ', List.sum_cons]
    simp only [List.getD_cons_succ, List.getD_cons_zero, ih]; ring

theorem multinomial_of_sum_zero (a : List ℕ) (h : a.sum = 0) : multinomial a = 1 := by
  have := multinomial_mul a
  rw [h] at this
  exact Nat.eq_one_of_mul_eq_one_right this

/-- Σ_q [a_q>0] M(a − e_q) = M(a) -/
theorem sum_multinomial_decr (a : List ℕ) (hs : 0 < a.sum) :
    ∑ q ∈ range a.length, (if 0 < a.getD q 0 then multinomial (a.set q (a.getD q 0 - 1)) else 0) = multinomial a := by
  apply Nat.eq_of_mul_eq_mul_left hs
  rw [Finset.mul_sum]
  have : ∀ q ∈ range a.length,
      a.sum * (if 0 < a.getD q 0 then multinomial (a.set q (a.getD q 0 - 1)) else 0) = a.getD q 0 * multinomial a := by
    intro q hq
    by_cases h : 0 < a.getD q 0
    · rw [if_pos h, multinomial_shift' a q (mem_range.1 hq) h]
    · rw [if_neg h]; have : a.getD q 0 = 0 := by omega
      rw [this]; simp
  rw [Finset.sum_congr rfl this, ← Finset.sum_mul, sum_getD_eq_sum]

/-- **the number of strings of occupation `a` is the multinomial coefficient** -/
theorem cnt_eq_multinomial (d n : ℕ) (a : List ℕ) (hl : a.length = d) (hs : a.sum = n) :
    cnt d n a = multinomial a := by
  induction n generalizing a with
  | zero =>
    have hz : ∀ x ∈ a, x = 0 := List.sum_eq_zero_iff.1 hs
    have ha : occ d (digits d 0 0) = a := by
      apply List.ext_getElem
      · rw [occ_length, hl]
      · intro i h1 h2
        rw [occ_getElem, digits_zero]; simp [hz _ (List.getElem_mem h2)]
    rw [cnt, pow_zero, Finset.sum_range_one, if_pos ha, multinomial_of_sum_zero a hs]
  | succ n ih =>
    rw [cnt, pow_succ, Nat.mul_comm, sum_range_mul]
    have hq : ∀ q ∈ range d, ∑ r ∈ range (d ^ n), (if occ d (digits d (n + 1) (q * d ^ n + r)) = a then 1 else 0)
        = if 0 < a.getD q 0 then multinomial (a.set q (a.getD q 0 - 1)) else 0 := by
      intro q hq
      have hq' := mem_range.1 hq
      by_cases hpos : 0 < a.getD q 0
      · rw [if_pos hpos, ← ih (a.set q (a.getD q 0 - 1)) (by simpa using hl)
          (by have := sum_set a q (by omega) hpos; omega), cnt]
        refine Finset.sum_congr rfl fun r hr => ?_
        have hr' := mem_range.1 hr
        rw [digits_succ, div_of_lt hr', mod_of_lt hr']
        simp only [occ_cons_eq_iff d q _ a hq' hl, hpos, true_and]
      · rw [if_neg hpos]
        refine Finset.sum_eq_zero fun r hr => ?_
        have hr' := mem_range.1 hr
        rw [digits_succ, div_of_lt hr', mod_of_lt hr', if_neg]
        rw [occ_cons_eq_iff d q _ a hq' hl]; tauto
    rw [Finset.sum_congr rfl hq, ← hl]
    exact sum_multinomial_decr a (by omega)

/-- number of `y < d^n` for which the string `(r, y)` has occupation `a` and `(s, y)` has occupation `b`
(`√(M(a) M(b))` times the overlap `Σ_y ⟨r,y|D_a⟩⟨D_b|s,y⟩`) -/
def common (d n r s : ℕ) (a b : List ℕ) : ℕ :=
  ∑ y ∈ range (d ^ n),
    if occ d (digits d (n + 1) (r * d ^ n + y)) = a ∧ occ d (digits d (n + 1) (s * d ^ n + y)) = b then 1 else 0

theorem common_eq (d n r s : ℕ) (a b : List ℕ) (hr : r < d) (hs : s < d) (hla : a.length = d) (hlb : b.length = d)
    (hsa : a.sum = n + 1) :
    common d n r s a b =
      if 0 < a.getD r 0 ∧ 0 < b.getD s 0 ∧ a.set r (a.getD r 0 - 1) = b.set s (b.getD s 0 - 1)
      then multinomial (a.set r (a.getD r 0 - 1)) else 0 := by
  by_cases hC : 0 < a.getD r 0 ∧ 0 < b.getD s 0 ∧ a.set r (a.getD r 0 - 1) = b.set s (b.getD s 0 - 1)
  · rw [if_pos hC]
    obtain ⟨h1, h2, h3⟩ := hC
    rw [← cnt_eq_multinomial d n (a.set r (a.getD r 0 - 1)) (by simpa using hla)
      (by have := sum_set a r (by omega) h1; omega), cnt, common]
    refine Finset.sum_congr rfl fun y hy => ?_
    have hy' := mem_range.1 hy
    rw [digits_succ, digits_succ, div_of_lt hy', mod_of_lt hy', div_of_lt hy', mod_of_lt hy']
    simp only [occ_cons_eq_iff d r _ a hr hla, occ_cons_eq_iff d s _ b hs hlb, h1, h2, true_and, ← h3, and_self]
  · rw [if_neg hC, common]
    refine Finset.sum_eq_zero fun y hy => ?_
    have hy' := mem_range.1 hy
    rw [digits_succ, digits_succ, div_of_lt hy', mod_of_lt hy', div_of_lt hy', mod_of_lt hy', if_neg]
    rw [occ_cons_eq_iff d r _ a hr hla, occ_cons_eq_iff d s _ b hs hlb]
    rintro ⟨⟨p1, e1⟩, ⟨p2, e2⟩⟩
    exact hC ⟨p1, p2, e1.symm.trans e2⟩

end Dicke
end Numqi
