/-
C14 helper (tableaux, part 3): the enumeration `_get_all_young_tableaux_hf0` without the zero padding (`tabCore`)
lists exactly the standard fillings of the shape that respect the lower bounds, each once — every branch of the code.
-/
import NumqiProofs.YoungTableaux

namespace Numqi.Young

/-- `tabAux` without the zero padding of the rows (same recursion, same branches) -/
def tabCore : List Nat → List Nat → List Nat → List (List (List Nat))
  | [], _, _ => []
  | [_], index, _ => [[index]]
  | r :: r2 :: rest, index, lower =>
    let shape := r :: r2 :: rest
    let youngT := transpose shape
    let N := shape.sum
    let np0 := index.drop 1
    let i0 := index.headD 0
    if r = 1 then [index.map fun v => [v]]
    else if r2 = 1 then
      if lower.all (· == 0) then
        (combPos (r - 1) 0 np0.length).map fun xy => (i0 :: pick np0 xy) :: (unpicked np0 xy).map fun v => [v]
      else
        let bound := lower.zip (pyRange (youngT.headD 0) youngT.sum)
        (boundedComb bound).map fun xy => (i0 :: pick np0 xy) :: (unpicked np0 xy).map fun v => [v]
    else
      let upper := (List.range' 1 (r - 1)).map fun c => N - (youngT.drop c).sum
      let bound := lower.zip upper
      (boundedComb bound).flatMap fun xy =>
        (tabCore (r2 :: rest) (unpicked np0 xy) ((nextLower xy).take (r2 - 1))).map fun t => (i0 :: pick np0 xy) :: t

/-! ### columns of singletons -/

theorem colChain_singletons : ∀ l : List Nat, ColChain (l.map fun v => [v]) ↔ SInc l
  | [] => by simp [ColChain]
  | [a] => by simp [ColChain]
  | a :: b :: l => by
    have ih := colChain_singletons (b :: l)
    simp only [List.map_cons] at ih ⊢
    rw [ColChain, ih]
    have hcl : colLt [a] [b] ↔ a < b := by
      constructor
      · intro h; simpa using h 0 (by simp) (by simp)
      · intro h j hj _; simp at hj; subst hj; simpa using h
    rw [hcl]
    constructor
    · rintro ⟨hab, hs⟩
      refine sinc_cons.2 ⟨?_, hs⟩
      intro u hu
      rcases List.mem_cons.1 hu with rfl | hu
      · exact hab
      · exact lt_trans hab ((sinc_cons.1 hs).1 u hu)
    · intro h
      obtain ⟨h1, hs⟩ := sinc_cons.1 h
      exact ⟨h1 b List.mem_cons_self, hs⟩

/-- a list of rows that all have length one is the column of its entries -/
theorem eq_map_singleton : ∀ (t : List (List Nat)), (∀ row ∈ t, row.length = 1) → t = t.flatten.map fun v => [v]
  | [], _ => by simp
  | row :: t, h => by
    have h1 := h row List.mem_cons_self
    obtain ⟨a, rfl⟩ := List.length_eq_one_iff.1 h1
    have ih := eq_map_singleton t (fun r hr => h r (List.mem_cons_of_mem _ hr))
    simp only [List.flatten_cons, List.singleton_append, List.map_cons]
    rw [← ih]

theorem flatten_map_singleton (l : List Nat) : (l.map fun v => [v]).flatten = l := by
  induction l with
  | nil => rfl
  | cons a l ih => simp [ih]

/-- a valid shape whose second row is `1` is `r, 1, 1, …` -/
theorem ValidShape.ones {r : Nat} {rest : List Nat} (h : ValidShape (r :: 1 :: rest)) : ∀ a ∈ 1 :: rest, a = 1 := by
  intro a ha
  have h1 := h.tail
  have := h1.le_head a ha
  have := h1.2.1 a ha
  omega

/-! ### the bound lists of the code -/

theorem boundedComb_zip {lower U : List Nat} {k : Nat} (hk : 0 < k) (hl : lower.length = k) (hu : U.length = k) :
    (boundedComb (lower.zip U)).Nodup ∧ ∀ xy : List Nat, xy ∈ boundedComb (lower.zip U) ↔
      xy.length = k ∧ SInc xy ∧ ∀ i (h : i < k), lower[i] ≤ xy.getD i 0 ∧ xy.getD i 0 < U[i] := by
  have hzl : (lower.zip U).length = k := by simp [hl, hu]
  obtain ⟨b0, rest, hz⟩ : ∃ b0 rest, lower.zip U = b0 :: rest := by
    cases hzz : lower.zip U with
    | nil => rw [hzz] at hzl; simp at hzl; omega
    | cons b0 rest => exact ⟨b0, rest, rfl⟩
  rw [hz]
  obtain ⟨hnd, hmem⟩ := boundedComb_spec b0 rest
  refine ⟨hnd, fun xy => ?_⟩
  rw [hmem, ← hz, List.forall₂_iff_get]
  constructor
  · rintro ⟨⟨hlen, hget⟩, hs⟩
    refine ⟨by omega, hs, ?_⟩
    intro i hi
    have := hget i (by omega) (by omega)
    simp only [List.get_eq_getElem, List.getElem_zip, InB] at this
    rw [getD_eq_getElem' _ (by omega : i < xy.length)]
    exact this
  · rintro ⟨hlen, hs, hb⟩
    refine ⟨⟨by omega, ?_⟩, hs⟩
    intro i h1 h2
    have := hb i (by omega)
    simp only [List.get_eq_getElem, List.getElem_zip, InB]
    rw [getD_eq_getElem' _ h2] at this
    exact this

section bounds
variable {r r2 : Nat} {rest : List Nat}

theorem upper_general (hv : ValidShape (r :: r2 :: rest)) :
    let U := (List.range' 1 (r - 1)).map fun c => (r :: r2 :: rest).sum - ((transpose (r :: r2 :: rest)).drop c).sum
    U.length = r - 1 ∧ ∀ i (h : i < U.length), U[i] = upB (r :: r2 :: rest) i := by
  refine ⟨by simp, ?_⟩
  intro i h
  simp only [List.getElem_map, List.getElem_range']
  rw [transpose_drop_sum hv, upB]
  congr 2; omega

theorem colsFrom_ones {l : List Nat} (h : ∀ a ∈ l, a = 1) (c : Nat) : colsFrom l (c + 1) = 0 := by
  unfold colsFrom
  rw [List.sum_eq_zero]
  intro x hx
  simp only [List.mem_map] at hx
  obtain ⟨a, ha, rfl⟩ := hx
  rw [h a ha]; omega

theorem sum_ones {l : List Nat} (h : ∀ a ∈ l, a = 1) : l.sum = l.length := by
  induction l with
  | nil => rfl
  | cons a l ih =>
    rw [List.sum_cons, List.length_cons, ih (fun x hx => h x (List.mem_cons_of_mem _ hx)), h a List.mem_cons_self]; omega

theorem upB_hook (hv : ValidShape (r :: 1 :: rest)) (i : Nat) (hi : i + 1 ≤ r) :
    upB (r :: 1 :: rest) i = (r :: 1 :: rest).length + i := by
  have hones := hv.ones
  rw [upB, colsFrom_cons, colsFrom_ones hones, List.sum_cons, sum_ones hones]
  simp only [List.length_cons]; omega

theorem upper_hook (hv : ValidShape (r :: 1 :: rest)) (hr : 2 ≤ r) :
    let T := transpose (r :: 1 :: rest)
    let U := pyRange (T.headD 0) T.sum
    U.length = r - 1 ∧ ∀ i (h : i < U.length), U[i] = upB (r :: 1 :: rest) i := by
  have hones := hv.ones
  have hsum : (transpose (r :: 1 :: rest)).sum = (r :: 1 :: rest).sum := by
    have := transpose_drop_sum hv 0
    rwa [List.drop_zero, colsFrom_zero] at this
  have hhead : (transpose (r :: 1 :: rest)).headD 0 = (r :: 1 :: rest).length := by
    unfold transpose
    obtain ⟨k, rfl⟩ : ∃ k, r = k + 1 := ⟨r - 1, by omega⟩
    simp only [List.headD_cons, List.range_succ_eq_map, List.map_cons, List.headD_cons]
    congr 1
    rw [List.filter_eq_self]
    intro a ha
    have := hv.2.1 a ha
    simpa using this
  have hN : (r :: 1 :: rest).sum = r + (1 :: rest).length := by rw [List.sum_cons, sum_ones hones]
  simp only
  rw [hhead, hsum]
  have hlen : (pyRange (r :: 1 :: rest).length (r :: 1 :: rest).sum).length = r - 1 := by
    simp only [pyRange, List.length_range', hN, List.length_cons]; omega
  refine ⟨hlen, ?_⟩
  intro i h
  have hi : i < r - 1 := by rw [hlen] at h; exact h
  simp only [pyRange, List.getElem_range']
  rw [upB_hook hv i (by omega)]; omega

/-- the positions allowed by an upper bound are positions of `idx[1:]` -/
theorem upB_le {i : Nat} (hi : i + 1 < r) : upB (r :: rest) i ≤ (r :: rest).sum - 1 := by
  rw [upB, colsFrom_cons]
  have := colsFrom_le rest (i + 1)
  rw [List.sum_cons]
  omega

end bounds

/-! ### first rows: positions `xy` ↔ sorted sub-rows of `idx[1:]` -/

/-- the admissible first rows (without the corner entry) -/
def RowOK (shape lower np0 row : List Nat) : Prop :=
  SInc row ∧ (∀ v ∈ row, v ∈ np0) ∧ row.length = lower.length ∧
    ∀ i (h : i < lower.length), lower[i] ≤ cntLt np0 (row.getD i 0) ∧ cntLt np0 (row.getD i 0) < upB shape i

section rows
variable {shape lower U np0 : List Nat} {k : Nat}

theorem rowOK_of_xy (hnp : SInc np0) (hk : 0 < k) (hl : lower.length = k) (hu : U.length = k)
    (hU : ∀ i (h : i < U.length), U[i] = upB shape i) (hle : ∀ i, i < k → upB shape i ≤ np0.length)
    {xy : List Nat} (hxy : xy ∈ boundedComb (lower.zip U)) :
    RowOK shape lower np0 (pick np0 xy) ∧ (pick np0 xy).map (cntLt np0) = xy ∧ (∀ i ∈ xy, i < np0.length) := by
  obtain ⟨hlen, hs, hb⟩ := ((boundedComb_zip hk hl hu).2 xy).1 hxy
  have hlt : ∀ i ∈ xy, i < np0.length := by
    intro x hx
    obtain ⟨i, hi, rfl⟩ := List.getElem_of_mem hx
    have := (hb i (by omega)).2
    rw [getD_eq_getElem' _ hi, hU i (by omega)] at this
    have := hle i (by omega)
    omega
  obtain ⟨p1, p2, p3, p4⟩ := pick_spec hnp hs hlt
  refine ⟨⟨p1, p2, by omega, ?_⟩, p4, hlt⟩
  intro i hi
  have hi' : i < (pick np0 xy).length := by omega
  have e : cntLt np0 ((pick np0 xy).getD i 0) = xy.getD i 0 := by
    have : ((pick np0 xy).map (cntLt np0)).getD i 0 = xy.getD i 0 := by rw [p4]
    rw [← this, getD_eq_getElem' _ hi', getD_eq_getElem' _ (by simpa using hi')]
    simp
  rw [e]
  have := hb i (by omega)
  rw [hU i (by omega)] at this
  exact this

theorem xy_of_rowOK (hnp : SInc np0) (hk : 0 < k) (hl : lower.length = k) (hu : U.length = k)
    (hU : ∀ i (h : i < U.length), U[i] = upB shape i) {row : List Nat} (hrow : RowOK shape lower np0 row) :
    row.map (cntLt np0) ∈ boundedComb (lower.zip U) ∧ pick np0 (row.map (cntLt np0)) = row := by
  obtain ⟨h1, h2, h3, h4⟩ := hrow
  obtain ⟨q1, q2, q3⟩ := row_as_pick hnp h1 h2
  refine ⟨((boundedComb_zip hk hl hu).2 _).2 ⟨by simp; omega, q1, ?_⟩, q3⟩
  intro i hi
  have hi' : i < row.length := by omega
  have e : (row.map (cntLt np0)).getD i 0 = cntLt np0 (row.getD i 0) := by
    rw [getD_eq_getElem' _ (by simpa using hi'), getD_eq_getElem' _ hi']; simp
  rw [e, hU i (by omega)]
  exact h4 i (by omega)

end rows

/-! ### peeling off the first row -/

section peel
variable {r r2 i0 : Nat} {rest np0 : List Nat}

theorem isTab_cons_iff (hv : ValidShape (r :: r2 :: rest)) (hidx : SInc (i0 :: np0)) (t : List (List Nat)) :
    IsTab (r :: r2 :: rest) (i0 :: np0) t ↔
      ∃ row t', t = (i0 :: row) :: t' ∧ SInc row ∧ (∀ v ∈ row, v ∈ np0) ∧ row.length = r - 1 ∧
        IsTab (r2 :: rest) (restOf np0 row) t' ∧ colLt (i0 :: row) (t'.headD []) := by
  have hnp : SInc np0 := (sinc_cons.1 hidx).2
  have hr : 0 < r := hv.2.1 r List.mem_cons_self
  constructor
  · intro ht
    obtain ⟨R0, t1, rfl⟩ : ∃ R0 t1, t = R0 :: t1 := by
      cases t with
      | nil => have := ht.rows; simp at this
      | cons a b => exact ⟨a, b, rfl⟩
    obtain ⟨R1, t2, rfl⟩ : ∃ R1 t2, t1 = R1 :: t2 := by
      cases t1 with
      | nil => have := ht.rows; simp at this
      | cons a b => exact ⟨a, b, rfl⟩
    obtain ⟨row, rfl⟩ := tab_corner hv hidx ht
    have hR0 : SInc (i0 :: row) := ht.rowInc _ List.mem_cons_self
    obtain ⟨hi0row, hrow⟩ := sinc_cons.1 hR0
    have hrows := ht.rows
    simp only [List.map_cons, List.cons.injEq] at hrows
    have hsub : ∀ v ∈ row, v ∈ np0 := by
      intro v hv'
      have hmem : v ∈ (i0 :: np0) := ht.perm.mem_iff.1 (by simp [hv'])
      rcases List.mem_cons.1 hmem with rfl | h
      · exact absurd (hi0row v hv') (lt_irrefl _)
      · exact h
    have hperm : (R1 :: t2).flatten.Perm (restOf np0 row) := by
      have h1 := ht.perm
      simp only [List.flatten_cons, List.cons_append] at h1
      have h2 := (List.perm_cons i0).1 h1
      have h3 := perm_row_restOf hnp hrow hsub
      exact (List.perm_append_left_iff row).1 (by simpa using h2.trans h3)
    refine ⟨row, R1 :: t2, rfl, hrow, hsub, by simp at hrows; omega, ⟨?_, hperm, ?_, ht.colInc.2⟩, ht.colInc.1⟩
    · simp only [List.map_cons, List.cons.injEq]; exact ⟨hrows.2.1, hrows.2.2⟩
    · intro x hx; exact ht.rowInc x (List.mem_cons_of_mem _ hx)
  · rintro ⟨row, t', rfl, hrow, hsub, hlen, ht', hcol⟩
    obtain ⟨R1, t2, rfl⟩ : ∃ R1 t2, t' = R1 :: t2 := by
      cases t' with
      | nil => have := ht'.rows; simp at this
      | cons a b => exact ⟨a, b, rfl⟩
    have hi0 : ∀ u ∈ row, i0 < u := fun u hu => (sinc_cons.1 hidx).1 u (hsub u hu)
    refine ⟨?_, ?_, ?_, ⟨hcol, ht'.colInc⟩⟩
    · simp only [List.map_cons, List.length_cons, List.cons.injEq]
      have := ht'.rows
      simp only [List.map_cons, List.cons.injEq] at this
      exact ⟨by omega, this.1, this.2⟩
    · simp only [List.flatten_cons, List.cons_append]
      refine (List.perm_cons i0).2 ?_
      have h3 := perm_row_restOf hnp hrow hsub
      exact ((List.perm_append_left_iff row).2 ht'.perm).trans h3.symm
    · intro x hx
      rcases List.mem_cons.1 hx with rfl | hx
      · exact sinc_cons.2 ⟨hi0, hrow⟩
      · exact ht'.rowInc x hx

end peel

/-! ### the column condition between the first two rows = the lower bounds handed to the recursive call -/

theorem nextLower_getElem (xy : List Nat) (i : Nat) (h : i < (nextLower xy).length) :
    (nextLower xy)[i] = xy.getD i 0 - i - 1 := by
  have hi : i < xy.length := by simpa [nextLower] using h
  simp [nextLower, List.getElem_zipIdx, List.getD_eq_getElem?_getD, List.getElem?_eq_getElem hi]

theorem nextLower_length (xy : List Nat) : (nextLower xy).length = xy.length := by simp [nextLower]

section collower
variable {np0 row np1 : List Nat} {i1 : Nat}

theorem col_lower (hnp : SInc np0) (hrow : SInc row) (hsub : ∀ v ∈ row, v ∈ np0)
    (hrest : restOf np0 row = i1 :: np1) {j : Nat} (hj : j < row.length) {w : Nat} (hw : w ∈ np1) :
    row.getD j 0 < w ↔ cntLt np0 (row.getD j 0) - j - 1 ≤ cntLt np1 w := by
  set v := row.getD j 0 with hv
  have hvrow : v ∈ row := getD_mem hj
  have hsr : SInc (i1 :: np1) := hrest ▸ sinc_restOf hnp row
  have hw' : w ∈ i1 :: np1 := List.mem_cons_of_mem _ hw
  have hvn : v ∉ i1 :: np1 := by rw [← hrest, mem_restOf]; exact fun h => h.2 hvrow
  have hne : v ≠ w := fun h => hvn (h ▸ hw')
  rw [lt_iff_cntLt_le hw' hne]
  have h1 : cntLt (i1 :: np1) w = cntLt np1 w + 1 := by
    rw [cntLt_cons]; simp [(sinc_cons.1 hsr).1 w hw]
  have h2 : cntLt np0 v = cntLt row v + cntLt (i1 :: np1) v := by
    rw [cntLt_perm (perm_row_restOf hnp hrow hsub) v, cntLt_append, hrest]
  have h3 : cntLt row v = j := by
    rw [hv, getD_eq_getElem' _ hj]; exact cntLt_getElem hrow j hj
  omega

end collower

theorem colsFrom_add_length_le {s : List Nat} (hpos : ∀ a ∈ s, 0 < a) (c : Nat) :
    colsFrom s (c + 1) + s.length ≤ s.sum := by
  induction s with
  | nil => simp [colsFrom]
  | cons a s ih =>
    have := ih (fun x hx => hpos x (List.mem_cons_of_mem _ hx))
    have ha := hpos a List.mem_cons_self
    rw [colsFrom_cons, List.sum_cons, List.length_cons]; omega

/-- the upper bound of the next row is the upper bound of this row minus the cells of the first row -/
theorem upB_tail {r : Nat} {s : List Nat} (hpos : ∀ a ∈ s, 0 < a) (hne : s ≠ []) {i : Nat} (hi : i + 1 ≤ r) :
    upB (r :: s) i = upB s i + (i + 1) ∧ 0 < upB s i := by
  have h1 := colsFrom_add_length_le hpos i
  have h2 : 0 < s.length := List.length_pos_iff.2 hne
  rw [upB, upB, colsFrom_cons, List.sum_cons]
  constructor <;> omega

/-! ### unfolding `tabCore`, the one-column tableaux -/

section unfold
variable {r r2 : Nat} {rest idx lower : List Nat}

theorem tabCore_col (h : r = 1) : tabCore (r :: r2 :: rest) idx lower = [idx.map fun v => [v]] := by
  simp [tabCore, h]

theorem tabCore_hook0 (h1 : r ≠ 1) (h2 : r2 = 1) (hz : lower.all (· == 0) = true) :
    tabCore (r :: r2 :: rest) idx lower =
      (combPos (r - 1) 0 (idx.drop 1).length).map fun xy =>
        (idx.headD 0 :: pick (idx.drop 1) xy) :: (unpicked (idx.drop 1) xy).map fun v => [v] := by
  simp only [tabCore, h1, h2, hz, if_false, if_true]

theorem tabCore_hook1 (h1 : r ≠ 1) (h2 : r2 = 1) (hz : lower.all (· == 0) = false) :
    tabCore (r :: r2 :: rest) idx lower =
      (boundedComb (lower.zip (pyRange ((transpose (r :: r2 :: rest)).headD 0) (transpose (r :: r2 :: rest)).sum))).map fun xy =>
        (idx.headD 0 :: pick (idx.drop 1) xy) :: (unpicked (idx.drop 1) xy).map fun v => [v] := by
  simp only [tabCore, h1, h2, hz, if_false, if_true, Bool.false_eq_true]

theorem tabCore_gen (h1 : r ≠ 1) (h2 : r2 ≠ 1) :
    tabCore (r :: r2 :: rest) idx lower =
      (boundedComb (lower.zip ((List.range' 1 (r - 1)).map fun c =>
          (r :: r2 :: rest).sum - ((transpose (r :: r2 :: rest)).drop c).sum))).flatMap fun xy =>
        (tabCore (r2 :: rest) (unpicked (idx.drop 1) xy) ((nextLower xy).take (r2 - 1))).map fun t =>
          (idx.headD 0 :: pick (idx.drop 1) xy) :: t := by
  simp only [tabCore, h1, h2, if_false]

end unfold

/-- the tableaux of a one-column shape: the sorted column -/
theorem isTab_column {s idx : List Nat} (hones : ∀ a ∈ s, a = 1) (hidx : SInc idx) (hlen : idx.length = s.length)
    (t : List (List Nat)) : IsTab s idx t ↔ t = idx.map fun v => [v] := by
  constructor
  · intro ht
    have hrows : ∀ row ∈ t, row.length = 1 := by
      intro row hrow
      have : row.length ∈ t.map List.length := List.mem_map.2 ⟨row, hrow, rfl⟩
      rw [ht.rows] at this
      exact hones _ this
    have h1 := eq_map_singleton t hrows
    have h2 : SInc t.flatten := by
      rw [← colChain_singletons, ← h1]; exact ht.colInc
    rw [h1, sinc_eq_of_perm h2 hidx ht.perm]
  · rintro rfl
    refine ⟨?_, by rw [flatten_map_singleton], ?_, (colChain_singletons idx).2 hidx⟩
    · rw [List.map_map]
      have : s = List.replicate s.length 1 := List.eq_replicate_iff.2 ⟨rfl, hones⟩
      rw [this, ← hlen]
      apply List.ext_getElem
      · simp
      · intro i h1 h2; simp
    · intro row hrow
      simp only [List.mem_map] at hrow
      obtain ⟨v, _, rfl⟩ := hrow
      exact List.pairwise_singleton _ _

/-! ### the specification -/

/-- the lower bounds are below the upper bounds the code derives from the shape (true at the top level and preserved
by the recursion; needed because the single-row base case ignores its lower bounds) -/
def Feas (shape lower : List Nat) : Prop := ∀ i (h : i < lower.length), lower[i] < upB shape i

/-- the entries of the first row (after the corner) respect the lower bounds on their positions in `idx[1:]` -/
def RowLB (lower np0 row : List Nat) : Prop :=
  ∀ i (h : i < lower.length), i < row.length → lower[i] ≤ cntLt np0 (row.getD i 0)

/-- what `tabCore shape idx lower` has to be -/
def Spec (shape idx lower : List Nat) : Prop :=
  (tabCore shape idx lower).Nodup ∧
    ∀ t, t ∈ tabCore shape idx lower ↔ IsTab shape idx t ∧ RowLB lower idx.tail (t.headD []).tail

theorem spec_single (r : Nat) (idx lower : List Nat) (hidx : SInc idx) (hlen : idx.length = r)
    (hl : lower.length = r - 1) (hf : Feas [r] lower) : Spec [r] idx lower := by
  refine ⟨by simp [tabCore], fun t => ?_⟩
  simp only [tabCore, List.mem_singleton]
  constructor
  · rintro rfl
    refine ⟨⟨by simp [hlen], by simp, by simpa using hidx, trivial⟩, ?_⟩
    intro i h1 h2
    simp only [List.headD_cons] at h2 ⊢
    have hts : SInc idx.tail := hidx.sublist (List.tail_sublist idx)
    have h2' : i < idx.tail.length := h2
    rw [getD_eq_getElem' _ h2', cntLt_getElem hts i h2']
    have := hf i h1
    have hi : i + 1 ≤ r := by simp at h2'; omega
    rw [upB, colsFrom_cons] at this
    simp [colsFrom] at this
    omega
  · rintro ⟨ht, _⟩
    obtain ⟨row, rfl⟩ : ∃ row, t = [row] := by
      have := ht.rows
      cases t with
      | nil => simp at this
      | cons a b =>
        cases b with
        | nil => exact ⟨a, rfl⟩
        | cons c d => simp at this
    have hp := ht.perm
    simp only [List.flatten_cons, List.flatten_nil, List.append_nil] at hp
    rw [sinc_eq_of_perm (ht.rowInc row (by simp)) hidx hp]

theorem spec_column {r r2 : Nat} {rest : List Nat} (hv : ValidShape (r :: r2 :: rest)) (hr : r = 1)
    (idx lower : List Nat) (hidx : SInc idx) (hlen : idx.length = (r :: r2 :: rest).sum)
    (hl : lower.length = r - 1) : Spec (r :: r2 :: rest) idx lower := by
  subst hr
  have hones : ∀ a ∈ 1 :: r2 :: rest, a = 1 := by
    intro a ha
    have := hv.le_head a ha
    have := hv.2.1 a ha
    omega
  have hl0 : lower = [] := List.length_eq_zero_iff.1 (by simpa using hl)
  refine ⟨by simp [tabCore_col], fun t => ?_⟩
  rw [tabCore_col rfl, List.mem_singleton, ← isTab_column hones hidx (by rw [hlen, sum_ones hones])]
  constructor
  · intro h; exact ⟨h, by subst hl0; intro i h1; simp at h1⟩
  · intro h; exact h.1

/-! ### hook shapes `(r, 1, …, 1)` -/

section hook
variable {r i0 : Nat} {rest np0 lower : List Nat}

theorem restOf_length {np0 row : List Nat} (hnp : SInc np0) (hrow : SInc row) (hsub : ∀ v ∈ row, v ∈ np0) :
    (restOf np0 row).length + row.length = np0.length := by
  have := (perm_row_restOf hnp hrow hsub).length_eq
  simp at this; omega

theorem rowOK_of_tab {shape : List Nat} {srest : List Nat} (hs : shape = r :: srest) (hv : ValidShape shape)
    (hidx : SInc (i0 :: np0)) (hN : (i0 :: np0).length = shape.sum) (hl : lower.length = r - 1)
    {row : List Nat} {t' : List (List Nat)} (ht : IsTab shape (i0 :: np0) ((i0 :: row) :: t'))
    (hrow : SInc row) (hsub : ∀ v ∈ row, v ∈ np0) (hlen : row.length = r - 1) (hlb : RowLB lower np0 row) :
    RowOK shape lower np0 row := by
  subst hs
  refine ⟨hrow, hsub, by omega, ?_⟩
  intro i hi
  refine ⟨hlb i hi (by omega), ?_⟩
  have := tab_upper hv hidx hN ht (c := i + 1) (by omega) (by omega)
  simp only [List.getD_cons_succ] at this
  rw [upB]
  omega

/-- the common part of the two hook branches: `X` is the list of position tuples the branch enumerates -/
theorem hook_from_X (hv : ValidShape (r :: 1 :: rest)) (hr : 2 ≤ r) (hidx : SInc (i0 :: np0))
    (hN : (i0 :: np0).length = (r :: 1 :: rest).sum) (X : List (List Nat)) (hX1 : X.Nodup)
    (hX2 : ∀ xy ∈ X, xy.length = r - 1 ∧ SInc xy ∧ (∀ i ∈ xy, i < np0.length) ∧ RowLB lower np0 (pick np0 xy))
    (hX3 : ∀ row t', IsTab (r :: 1 :: rest) (i0 :: np0) ((i0 :: row) :: t') → SInc row → (∀ v ∈ row, v ∈ np0) →
      row.length = r - 1 → RowLB lower np0 row → row.map (cntLt np0) ∈ X) :
    let F := fun xy => (i0 :: pick np0 xy) :: (unpicked np0 xy).map fun v => [v]
    (X.map F).Nodup ∧ ∀ t, t ∈ X.map F ↔
      IsTab (r :: 1 :: rest) (i0 :: np0) t ∧ RowLB lower np0 (t.headD []).tail := by
  intro F
  have hnp : SInc np0 := (sinc_cons.1 hidx).2
  have hones := hv.ones
  have hNn : np0.length + 1 = r + (1 :: rest).length := by
    have := hN; rw [List.sum_cons, sum_ones hones] at this; simpa using this
  constructor
  · refine List.Nodup.map_on ?_ hX1
    intro a ha b hb hab
    obtain ⟨_, sa, la, _⟩ := hX2 a ha
    obtain ⟨_, sb, lb, _⟩ := hX2 b hb
    have h1 : pick np0 a = pick np0 b := by
      have := (List.cons.inj hab).1
      exact (List.cons.inj this).2
    rw [← (pick_spec hnp sa la).2.2.2, ← (pick_spec hnp sb lb).2.2.2, h1]
  · intro t
    simp only [List.mem_map]
    constructor
    · rintro ⟨xy, hxy, rfl⟩
      obtain ⟨hxl, hxs, hxlt, hxlb⟩ := hX2 xy hxy
      obtain ⟨p1, p2, p3, _⟩ := pick_spec hnp hxs hxlt
      simp only [F, List.headD_cons, List.tail_cons]
      refine ⟨?_, hxlb⟩
      rw [isTab_cons_iff hv hidx]
      refine ⟨pick np0 xy, _, rfl, p1, p2, by omega, ?_, ?_⟩
      · rw [unpicked_eq_restOf hnp hxlt, isTab_column hones (sinc_restOf hnp _)]
        have := restOf_length hnp p1 p2
        omega
      · rw [unpicked_eq_restOf hnp hxlt]
        intro j hj1 hj2
        cases hrest : restOf np0 (pick np0 xy) with
        | nil => rw [hrest] at hj2; simp at hj2
        | cons i1 np1 =>
          rw [hrest] at hj2
          simp only [List.map_cons, List.headD_cons, List.length_singleton] at hj2
          have hj0 : j = 0 := by omega
          subst hj0
          have : i1 ∈ np0 := by
            have : i1 ∈ restOf np0 (pick np0 xy) := by rw [hrest]; exact List.mem_cons_self
            exact (mem_restOf.1 this).1
          simpa using (sinc_cons.1 hidx).1 i1 this
    · rintro ⟨ht, hlb⟩
      obtain ⟨row, t', rfl, hrow, hsub, hlen, ht', _⟩ := (isTab_cons_iff hv hidx t).1 ht
      simp only [List.headD_cons, List.tail_cons] at hlb
      have hxy := hX3 row t' ht hrow hsub hlen hlb
      obtain ⟨q1, q2, q3⟩ := row_as_pick hnp hrow hsub
      refine ⟨row.map (cntLt np0), hxy, ?_⟩
      have hcol : t' = (restOf np0 row).map fun v => [v] := by
        rw [isTab_column hones (sinc_restOf hnp _)] at ht'
        · exact ht'
        · have := restOf_length hnp hrow hsub
          omega
      simp only [F]
      rw [q3, unpicked_eq_restOf hnp q2, q3, hcol]

theorem spec_hook (hv : ValidShape (r :: 1 :: rest)) (hr : 2 ≤ r) (hidx : SInc (i0 :: np0))
    (hN : (i0 :: np0).length = (r :: 1 :: rest).sum) (hl : lower.length = r - 1) :
    Spec (r :: 1 :: rest) (i0 :: np0) lower := by
  have hnp : SInc np0 := (sinc_cons.1 hidx).2
  have hk : 0 < r - 1 := by omega
  have hnpl : np0.length = (r :: 1 :: rest).sum - 1 := by
    have := hN; simp only [List.length_cons] at this; omega
  have hle : ∀ i, i < r - 1 → upB (r :: 1 :: rest) i ≤ np0.length := by
    intro i hi; rw [hnpl]; exact upB_le (by omega)
  unfold Spec
  by_cases hz : lower.all (· == 0) = true
  · rw [tabCore_hook0 (by omega) rfl hz]
    simp only [List.drop_one, List.tail_cons, List.headD_cons]
    have hzero : ∀ i (h : i < lower.length), lower[i] = 0 := by
      intro i h
      have := List.all_eq_true.1 hz lower[i] (List.getElem_mem h)
      simpa using this
    obtain ⟨c1, c2⟩ := combPos_spec (r - 1) 0 np0.length
    refine hook_from_X hv hr hidx hN _ c1 ?_ ?_
    · intro xy hxy
      obtain ⟨h1, h2, h3⟩ := (c2 xy).1 hxy
      refine ⟨h1, h2, fun i hi => (h3 i hi).2, ?_⟩
      intro i hi _
      rw [hzero i hi]; exact Nat.zero_le _
    · intro row t' _ hrow hsub hlen _
      obtain ⟨q1, q2, _⟩ := row_as_pick hnp hrow hsub
      exact (c2 _).2 ⟨by simpa using hlen, q1, fun x hx => ⟨Nat.zero_le _, q2 x hx⟩⟩
  · have hz' : lower.all (· == 0) = false := by simpa using hz
    rw [tabCore_hook1 (by omega) rfl hz']
    simp only [List.drop_one, List.tail_cons, List.headD_cons]
    obtain ⟨hu, hU⟩ := upper_hook hv hr
    obtain ⟨b1, b2⟩ := boundedComb_zip hk hl hu
    refine hook_from_X hv hr hidx hN _ b1 ?_ ?_
    · intro xy hxy
      obtain ⟨h1, h2, _⟩ := (b2 xy).1 hxy
      obtain ⟨⟨_, _, _, g4⟩, _, g6⟩ := rowOK_of_xy hnp hk hl hu hU hle hxy
      refine ⟨h1, h2, g6, ?_⟩
      intro i hi _
      exact (g4 i hi).1
    · intro row t' ht hrow hsub hlen hlb
      exact (xy_of_rowOK hnp hk hl hu hU (rowOK_of_tab rfl hv hidx hN hl ht hrow hsub hlen hlb)).1

end hook

/-! ### the general branch -/

theorem colLt_iff_rowLB {np0 row np1 row1 : List Nat} {i0 i1 : Nat} (hnp : SInc np0) (hrow : SInc row)
    (hsub : ∀ v ∈ row, v ∈ np0) (hrest : restOf np0 row = i1 :: np1) (hi01 : i0 < i1)
    (hsub1 : ∀ w ∈ row1, w ∈ np1) (hmr : row1.length ≤ row.length) :
    colLt (i0 :: row) (i1 :: row1) ↔
      RowLB ((nextLower (row.map (cntLt np0))).take row1.length) np1 row1 := by
  have hlen : ((nextLower (row.map (cntLt np0))).take row1.length).length = row1.length := by
    simp [nextLower_length]; omega
  have hget : ∀ i (h : i < ((nextLower (row.map (cntLt np0))).take row1.length).length),
      ((nextLower (row.map (cntLt np0))).take row1.length)[i] = cntLt np0 (row.getD i 0) - i - 1 := by
    intro i h
    have hi : i < row.length := by omega
    rw [List.getElem_take, nextLower_getElem, getD_eq_getElem' _ (by simpa using hi), getD_eq_getElem' _ hi]
    simp
  constructor
  · intro hc i h1 h2
    rw [hget i h1]
    have hi : i < row.length := by omega
    have := hc (i + 1) (by simpa using hi) (by simpa using h2)
    simp only [List.getD_cons_succ] at this
    exact (col_lower hnp hrow hsub hrest hi (hsub1 _ (getD_mem h2))).1 this
  · intro hlb j hj1 hj2
    cases j with
    | zero => simpa using hi01
    | succ i =>
      have hi : i < row.length := by simpa using hj1
      have hi2 : i < row1.length := by simpa using hj2
      simp only [List.getD_cons_succ]
      have := hlb i (by omega) hi2
      rw [hget i (by omega)] at this
      exact (col_lower hnp hrow hsub hrest hi (hsub1 _ (getD_mem hi2))).2 this

section general
variable {r r2 i0 : Nat} {rest np0 lower : List Nat}

theorem spec_general (hv : ValidShape (r :: r2 :: rest)) (h1 : r ≠ 1) (h2 : r2 ≠ 1) (hidx : SInc (i0 :: np0))
    (hN : (i0 :: np0).length = (r :: r2 :: rest).sum) (hl : lower.length = r - 1)
    (IH : ∀ idx' lower', SInc idx' → idx'.length = (r2 :: rest).sum → lower'.length = r2 - 1 →
      Feas (r2 :: rest) lower' → Spec (r2 :: rest) idx' lower') :
    Spec (r :: r2 :: rest) (i0 :: np0) lower := by
  have hnp : SInc np0 := (sinc_cons.1 hidx).2
  have hv' := hv.tail
  have hr2pos : 0 < r2 := hv.2.1 r2 (by simp)
  have hr2 : 2 ≤ r2 := by omega
  have hrr2 : r2 ≤ r := hv.le_head r2 (by simp)
  have hk : 0 < r - 1 := by omega
  have hNs : np0.length + 1 = r + (r2 :: rest).sum := by
    have := hN; simp only [List.length_cons, List.sum_cons] at this ⊢; omega
  have hsum2 : r2 ≤ (r2 :: rest).sum := by rw [List.sum_cons]; omega
  have hle : ∀ i, i < r - 1 → upB (r :: r2 :: rest) i ≤ np0.length := by
    intro i hi
    have := upB_le (r := r) (rest := r2 :: rest) (i := i) (by omega)
    rw [List.sum_cons] at this; omega
  obtain ⟨hu, hU⟩ := upper_general hv
  obtain ⟨b1, b2⟩ := boundedComb_zip hk hl hu
  -- what every admissible position tuple gives
  have hchild : ∀ xy, xy ∈ boundedComb (lower.zip ((List.range' 1 (r - 1)).map fun c =>
      (r :: r2 :: rest).sum - ((transpose (r :: r2 :: rest)).drop c).sum)) →
      RowOK (r :: r2 :: rest) lower np0 (pick np0 xy) ∧ (pick np0 xy).map (cntLt np0) = xy ∧
      unpicked np0 xy = restOf np0 (pick np0 xy) ∧
      Spec (r2 :: rest) (restOf np0 (pick np0 xy)) ((nextLower xy).take (r2 - 1)) := by
    intro xy hxy
    obtain ⟨hok, hpm, hlt⟩ := rowOK_of_xy hnp hk hl hu hU hle hxy
    obtain ⟨hxl, hxs, hxb⟩ := (b2 xy).1 hxy
    have g1 := hok.1
    have g2 := hok.2.1
    have g3 := hok.2.2.1
    refine ⟨hok, hpm, unpicked_eq_restOf hnp hlt, IH _ _ (sinc_restOf hnp _) ?_ ?_ ?_⟩
    · have := restOf_length hnp g1 g2; omega
    · simp [nextLower_length]; omega
    · intro i hi
      have hi' : i < r2 - 1 := by
        have : i < r2 - 1 ∧ i < r - 1 := by simpa [nextLower_length, hxl] using hi
        exact this.1
      rw [List.getElem_take, nextLower_getElem]
      have hb := (hxb i (by omega)).2
      rw [hU i (by omega)] at hb
      obtain ⟨e1, e2⟩ := upB_tail (r := r) (s := r2 :: rest) (i := i) hv'.2.1 (by simp) (by omega)
      omega
  unfold Spec
  rw [tabCore_gen h1 h2]
  simp only [List.drop_one, List.tail_cons, List.headD_cons]
  constructor
  · rw [List.nodup_flatMap]
    constructor
    · intro xy hxy
      obtain ⟨_, _, hun, hsp⟩ := hchild xy hxy
      rw [hun]
      exact hsp.1.map (fun a b h => (List.cons.inj h).2)
    · refine (List.Pairwise.and_mem.1 b1).imp ?_
      rintro xy xy' ⟨hxy, hxy', hne⟩
      simp only [Function.onFun]
      rw [List.disjoint_left]
      intro t ht ht'
      simp only [List.mem_map] at ht ht'
      obtain ⟨a, _, rfl⟩ := ht
      obtain ⟨b, _, hb⟩ := ht'
      have hp : pick np0 xy' = pick np0 xy := (List.cons.inj (List.cons.inj hb).1).2
      apply hne
      rw [← (hchild xy hxy).2.1, ← (hchild xy' hxy').2.1, hp]
  · intro t
    simp only [List.mem_flatMap, List.mem_map]
    constructor
    · rintro ⟨xy, hxy, t', ht', rfl⟩
      obtain ⟨hok, hpm, hun, hsp⟩ := hchild xy hxy
      rw [hun] at ht'
      obtain ⟨htab', hlb'⟩ := (hsp.2 t').1 ht'
      obtain ⟨g1, g2, g3, g4⟩ := hok
      simp only [List.headD_cons, List.tail_cons]
      refine ⟨?_, fun i hi _ => (g4 i hi).1⟩
      rw [isTab_cons_iff hv hidx]
      refine ⟨pick np0 xy, t', rfl, g1, g2, by omega, htab', ?_⟩
      -- the column condition between the first two rows
      obtain ⟨R1, t2, rfl⟩ : ∃ R1 t2, t' = R1 :: t2 := by
        cases t' with
        | nil => have := htab'.rows; simp at this
        | cons a b => exact ⟨a, b, rfl⟩
      cases hrest : restOf np0 (pick np0 xy) with
      | nil =>
        have := restOf_length hnp g1 g2
        rw [hrest] at this; simp at this; omega
      | cons i1 np1 =>
        rw [hrest] at htab' hlb'
        have hsr : SInc (i1 :: np1) := hrest ▸ sinc_restOf hnp _
        obtain ⟨row1, rfl⟩ := tab_corner hv' hsr htab'
        have hR1 : SInc (i1 :: row1) := htab'.rowInc _ List.mem_cons_self
        have hsub1 : ∀ w ∈ row1, w ∈ np1 := by
          intro w hw
          have hm : w ∈ i1 :: np1 := htab'.perm.mem_iff.1 (by simp [hw])
          rcases List.mem_cons.1 hm with rfl | h
          · exact absurd ((sinc_cons.1 hR1).1 w hw) (lt_irrefl _)
          · exact h
        have hl1 : row1.length = r2 - 1 := by
          have := (tab_lengths hv' htab').1; simp at this; omega
        have hi01 : i0 < i1 := by
          have : i1 ∈ restOf np0 (pick np0 xy) := by rw [hrest]; exact List.mem_cons_self
          exact (sinc_cons.1 hidx).1 i1 (mem_restOf.1 this).1
        simp only [List.headD_cons]
        rw [colLt_iff_rowLB hnp g1 g2 hrest hi01 hsub1 (by rw [hl1, g3, hl]; omega), hpm, hl1]
        simpa using hlb'
    · rintro ⟨ht, hlb⟩
      obtain ⟨row, t', rfl, hrow, hsub, hlen, ht', hcol⟩ := (isTab_cons_iff hv hidx t).1 ht
      simp only [List.headD_cons, List.tail_cons] at hlb
      have hok := rowOK_of_tab rfl hv hidx hN hl ht hrow hsub hlen hlb
      obtain ⟨hxy, hpick⟩ := xy_of_rowOK hnp hk hl hu hU hok
      obtain ⟨_, hpm, hun, hsp⟩ := hchild _ hxy
      refine ⟨row.map (cntLt np0), hxy, t', ?_, by rw [hpick]⟩
      rw [hun, hpick, hpick] at *
      rw [hsp.2 t']
      refine ⟨ht', ?_⟩
      obtain ⟨R1, t2, rfl⟩ : ∃ R1 t2, t' = R1 :: t2 := by
        cases t' with
        | nil => have := ht'.rows; simp at this
        | cons a b => exact ⟨a, b, rfl⟩
      cases hrest : restOf np0 row with
      | nil =>
        have := restOf_length hnp hrow hsub
        rw [hrest] at this; simp at this; omega
      | cons i1 np1 =>
        rw [hrest] at ht'
        have hsr : SInc (i1 :: np1) := hrest ▸ sinc_restOf hnp _
        obtain ⟨row1, rfl⟩ := tab_corner hv' hsr ht'
        have hR1 : SInc (i1 :: row1) := ht'.rowInc _ List.mem_cons_self
        have hsub1 : ∀ w ∈ row1, w ∈ np1 := by
          intro w hw
          have hm : w ∈ i1 :: np1 := ht'.perm.mem_iff.1 (by simp [hw])
          rcases List.mem_cons.1 hm with rfl | h
          · exact absurd ((sinc_cons.1 hR1).1 w hw) (lt_irrefl _)
          · exact h
        have hl1 : row1.length = r2 - 1 := by
          have := (tab_lengths hv' ht').1; simp at this; omega
        have hi01 : i0 < i1 := by
          have : i1 ∈ restOf np0 row := by rw [hrest]; exact List.mem_cons_self
          exact (sinc_cons.1 hidx).1 i1 (mem_restOf.1 this).1
        simp only [List.headD_cons, List.tail_cons] at hcol ⊢
        have := (colLt_iff_rowLB hnp hrow hsub hrest hi01 hsub1 (by rw [hl1, hlen]; omega)).1 hcol
        rwa [hl1] at this

end general

/-- **`tabCore shape idx lower` lists exactly the standard fillings of `shape` with the numbers `idx` whose first row respects
the lower bounds, each once** — for every valid shape, every strictly increasing `idx` of the right length and every
feasible list of lower bounds (all four branches of the code). -/
theorem tabCore_spec : ∀ (shape idx lower : List Nat), ValidShape shape → SInc idx → idx.length = shape.sum →
    lower.length = shape.headD 0 - 1 → Feas shape lower → Spec shape idx lower
  | [], _, _, hv, _, _, _, _ => absurd rfl hv.1
  | [r], idx, lower, _, hidx, hlen, hl, hf =>
    spec_single r idx lower hidx (by simpa using hlen) (by simpa using hl) hf
  | r :: r2 :: rest, idx, lower, hv, hidx, hlen, hl, _ => by
    have hr : 0 < r := hv.2.1 r List.mem_cons_self
    obtain ⟨i0, np0, rfl⟩ : ∃ i0 np0, idx = i0 :: np0 := by
      cases idx with
      | nil => simp at hlen; omega
      | cons a b => exact ⟨a, b, rfl⟩
    by_cases h1 : r = 1
    · exact spec_column hv h1 _ _ hidx hlen (by simpa using hl)
    · by_cases h2 : r2 = 1
      · subst h2
        exact spec_hook hv (by omega) hidx hlen (by simpa using hl)
      · exact spec_general hv h1 h2 hidx hlen (by simpa using hl)
          (fun idx' lower' a b c d => tabCore_spec (r2 :: rest) idx' lower' hv.tail a b (by simpa using c) d)

end Numqi.Young
