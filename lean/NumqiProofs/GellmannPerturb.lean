/- C16: perturbation bridge between the exact square-root scalars of the theorems and the binary64 scalars the driver executes. -/
import NumqiProofs.GellmannComplex
import Mathlib.Analysis.Complex.Norm

namespace Numqi.Gellmann
open Finset

variable {d : Nat}

/-- coefficient that multiplies the `k`-th diagonal scalar in `synthesis` -/
def diagCoef (d : Nat) (v : Nat → ℂ) (k : Fin d) : ℂ := if k.val + 1 < d then v (d * (d - 1) + k.val) else v (d * d - 1)

/-- **bridge between the exact scalars of the theorems and the binary64 scalars of the driver**: two scalar records with the same `i`
whose square-root scalars differ by at most `δ` give syntheses that differ entrywise by at most `δ · Σ_k (k+2)|v_k|`
(off-diagonal entries do not involve the square roots at all). -/
theorem synthesis_perturb (S S' : Scalars ℂ) (hI : S.I = S'.I) (δ : ℝ) (hD : ∀ k, ‖S.cD k - S'.cD k‖ ≤ δ) (hcI : ‖S.cI - S'.cI‖ ≤ δ)
    (v : Nat → ℂ) (r c : Fin d) :
    ‖synthesis S d v r c - synthesis S' d v r c‖ ≤ δ * ∑ k : Fin d, ((k.val : ℝ) + 2) * ‖diagCoef d v k‖ := by
  have hδ : 0 ≤ δ := le_trans (norm_nonneg _) hcI
  have hnn : 0 ≤ δ * ∑ k : Fin d, ((k.val : ℝ) + 2) * ‖diagCoef d v k‖ :=
    mul_nonneg hδ (Finset.sum_nonneg fun k _ => mul_nonneg (by positivity) (norm_nonneg _))
  by_cases h1 : r < c
  · simp only [synthesis, h1, if_true, hI, sub_self, norm_zero]; exact hnn
  by_cases h2 : c < r
  · simp only [synthesis, h1, h2, if_true, if_false, hI, sub_self, norm_zero]; exact hnn
  simp only [synthesis, h1, h2, if_false, sumFin_eq]
  rw [← Finset.sum_sub_distrib, Finset.mul_sum]
  refine le_trans (norm_sum_le _ _) (Finset.sum_le_sum fun k _ => ?_)
  rw [← sub_mul, norm_mul]
  have hM : ‖((if c.val ≤ k.val then (1 : ℂ) else 0) + (if c.val = k.val + 1 then -((k.val + 1 : ℕ) : ℂ) else 0))‖ ≤ (k.val : ℝ) + 2 := by
    refine le_trans (norm_add_le _ _) ?_
    have a1 : ‖(if c.val ≤ k.val then (1 : ℂ) else 0)‖ ≤ 1 := by split_ifs <;> simp
    have a2 : ‖(if c.val = k.val + 1 then -((k.val + 1 : ℕ) : ℂ) else 0)‖ ≤ (k.val : ℝ) + 1 := by
      split_ifs
      · rw [norm_neg, Complex.norm_natCast]; push_cast; linarith
      · simp; positivity
    linarith
  have hA : ‖(if k.val + 1 < d then S.cD (k.val + 1) * v (d * (d - 1) + k.val) else v (d * d - 1) * S.cI)
      - (if k.val + 1 < d then S'.cD (k.val + 1) * v (d * (d - 1) + k.val) else v (d * d - 1) * S'.cI)‖ ≤ δ * ‖diagCoef d v k‖ := by
    unfold diagCoef
    split_ifs
    · rw [← sub_mul, norm_mul]; exact mul_le_mul_of_nonneg_right (hD _) (norm_nonneg _)
    · rw [← mul_sub, norm_mul, mul_comm]; exact mul_le_mul_of_nonneg_right hcI (norm_nonneg _)
  calc _ ≤ (δ * ‖diagCoef d v k‖) * ((k.val : ℝ) + 2) := mul_le_mul hA hM (norm_nonneg _) (mul_nonneg hδ (norm_nonneg _))
    _ = δ * (((k.val : ℝ) + 2) * ‖diagCoef d v k‖) := by ring
end Numqi.Gellmann

namespace Numqi.Gellmann
open Finset
variable {d : Nat}

/-- the same bridge for `matrix_to_gellmann_basis`: coefficients computed with scalar records that agree in `1/2`, `i` and whose
`1/sqrt(2k(k+1))`, `1/sqrt(2d)` differ by at most `δ` differ by at most `δ · d · Σ_l |A_ll|` (only the diagonal coefficients change) -/
theorem analysis_perturb (S S' : Scalars ℂ) (hh : S.half = S'.half) (hI : S.I = S'.I) (δ : ℝ)
    (hD : ∀ k, ‖S.aD k - S'.aD k‖ ≤ δ) (haI : ‖S.aI - S'.aI‖ ≤ δ) (A : Mat d ℂ) (a : Nat) :
    ‖(analysis S d A).getD a 0 - (analysis S' d A).getD a 0‖ ≤ δ * ((d : ℝ) * ∑ l : Fin d, ‖A l l‖) := by
  have hδ : 0 ≤ δ := le_trans (norm_nonneg _) haI
  have hsum : 0 ≤ ∑ l : Fin d, ‖A l l‖ := Finset.sum_nonneg fun _ _ => norm_nonneg _
  have hnn : 0 ≤ δ * ((d : ℝ) * ∑ l : Fin d, ‖A l l‖) := mul_nonneg hδ (mul_nonneg (by positivity) hsum)
  rw [analysis_eq_map, analysis_eq_map, List.getD_eq_getElem?_getD, List.getD_eq_getElem?_getD, List.getElem?_map, List.getElem?_map]
  cases hk : (kinds d)[a]? with
  | none => simp; exact hnn
  | some k =>
    simp only [Option.map_some, Option.getD_some]
    cases k with
    | sym p => simp only [coefK, hh, sub_self, norm_zero]; exact hnn
    | asym p => simp only [coefK, hh, hI, sub_self, norm_zero]; exact hnn
    | diag k =>
      simp only [coefK, sum_filter_lt]
      rw [← mul_sub, norm_mul, mul_comm]
      refine mul_le_mul (hD _) ?_ (norm_nonneg _) hδ
      have h1 : ‖∑ r : Fin d, (if r.val < k.val then A r r else 0)‖ ≤ ∑ l : Fin d, ‖A l l‖ := by
        refine le_trans (norm_sum_le _ _) (Finset.sum_le_sum fun r _ => ?_)
        split_ifs <;> simp
      have h2 : ‖(k.val : ℂ) * A k k‖ ≤ ((d : ℝ) - 1) * ∑ l : Fin d, ‖A l l‖ := by
        rw [norm_mul, Complex.norm_natCast]
        have hk1 : (k.val : ℝ) ≤ (d : ℝ) - 1 := by
          have := k.isLt
          have : (k.val : ℝ) + 1 ≤ d := by exact_mod_cast this
          linarith
        have hk2 : ‖A k k‖ ≤ ∑ l : Fin d, ‖A l l‖ := Finset.single_le_sum (f := fun l => ‖A l l‖) (fun _ _ => norm_nonneg _) (Finset.mem_univ k)
        exact mul_le_mul hk1 hk2 (norm_nonneg _) (by linarith [Nat.cast_nonneg (α := ℝ) k.val])
      calc _ ≤ ‖∑ r : Fin d, (if r.val < k.val then A r r else 0)‖ + ‖(k.val : ℂ) * A k k‖ := norm_sub_le _ _
        _ ≤ (d : ℝ) * ∑ l : Fin d, ‖A l l‖ := by nlinarith
    | ident =>
      simp only [coefK, sumFin_eq]
      rw [← mul_sub, norm_mul, mul_comm]
      refine mul_le_mul haI ?_ (norm_nonneg _) hδ
      have h1 : ‖∑ l : Fin d, A l l‖ ≤ ∑ l : Fin d, ‖A l l‖ := norm_sum_le _ _
      have hd : (1 : ℝ) ≤ d ∨ d = 0 := by
        rcases Nat.eq_zero_or_pos d with h | h
        · exact Or.inr h
        · exact Or.inl (by exact_mod_cast h)
      rcases hd with hd | hd
      · nlinarith
      · subst hd; simp
end Numqi.Gellmann
