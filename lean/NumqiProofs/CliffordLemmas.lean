/-
C07 helper lemmas: the cache invariant of the `CliffordCircuit` state machine.
-/
import Mathlib.Tactic
import NumqiModel.Clifford

namespace Numqi.Clifford

/-- the memoised tableau, when present, is the tableau of the recorded gates -/
def Inv (st : St) : Prop := st.cache = none ∨ ∃ t, symplecticOf st.gates = .ok t ∧ st.cache = some t

theorem inv_init : Inv St.init := Or.inl rfl

/-- `to_symplectic_form` under the invariant: gates unchanged, invariant kept, answer = fresh computation -/
theorem query_spec (st : St) (h : Inv st) :
    (st.query).1.gates = st.gates ∧ Inv (st.query).1 ∧ (st.query).2 = symplecticOf st.gates := by
  unfold St.query
  rcases h with h | ⟨t, h1, h2⟩
  · rw [h]
    cases hs : symplecticOf st.gates with
    | ok t => exact ⟨rfl, Or.inr ⟨t, hs, rfl⟩, rfl⟩
    | error e => exact ⟨rfl, Or.inl h, rfl⟩
  · rw [h2]
    exact ⟨rfl, Or.inr ⟨t, h1, h2⟩, h1.symm⟩

/-- one method call: same recorded gates and same answer as the cache-free specification, invariant kept -/
theorem step_spec (st : St) (h : Inv st) (op : Op) :
    (step st op).1.gates = (specStep st.gates op).1 ∧ (step st op).2 = (specStep st.gates op).2 ∧
      Inv (step st op).1 := by
  cases op with
  | append key args =>
    simp only [step, specStep]
    cases checkArgs key args with
    | none => exact ⟨rfl, rfl, h⟩
    | some idx => exact ⟨rfl, rfl, Or.inl rfl⟩
  | gateI => exact ⟨rfl, rfl, h⟩
  | query =>
    obtain ⟨h1, h2, h3⟩ := query_spec st h
    simp only [step, specStep]
    rcases hq : st.query with ⟨st', res⟩
    rw [hq] at h1 h2 h3
    simp only at h1 h2 h3
    rw [← h3]
    cases res with
    | ok t => exact ⟨h1, rfl, h2⟩
    | error e => exact ⟨h1, rfl, h2⟩
  | applyPauli p len =>
    obtain ⟨h1, h2, h3⟩ := query_spec st h
    simp only [step, specStep]
    rcases hq : st.query with ⟨st', res⟩
    rw [hq] at h1 h2 h3
    simp only at h1 h2 h3
    rw [← h3]
    cases res with
    | ok t => exact ⟨h1, rfl, h2⟩
    | error e => exact ⟨h1, rfl, h2⟩
  | exportCirc => exact ⟨rfl, rfl, h⟩

theorem run_spec (ops : List Op) : ∀ (st : St), Inv st → run st ops = specRun st.gates ops := by
  induction ops with
  | nil => intro st _; rfl
  | cons op ops ih =>
    intro st h
    obtain ⟨h1, h2, h3⟩ := step_spec st h op
    simp only [run, specRun]
    rw [ih _ h3, h1, h2]

end Numqi.Clifford
