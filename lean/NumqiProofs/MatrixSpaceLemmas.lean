/-
Helper lemmas for the matrix-subspace model (C20).
-/
import Mathlib.Tactic
import Mathlib.Algebra.BigOperators.Fin
import Mathlib.Data.Nat.Choose.Basic
import Mathlib.Data.List.Sublists
import Mathlib.Data.Complex.Basic
import NumqiModel.MatrixSpace

namespace Numqi.MatrixSpace

/-! ### list folds as `Finset` sums -/

theorem foldr_add_range {M : Type} [AddCommMonoid M] (n : Nat) (f : Nat → M) :
    ((List.range n).map f).foldr (· + ·) 0 = ∑ i ∈ Finset.range n, f i := by
  have h : ((List.range n).map f).foldr (· + ·) 0 = ((List.range n).map f).sum := rfl
  rw [h, ← List.sum_toFinset f (List.nodup_range), List.toFinset_range]

theorem listSum_eq {M : Type} [AddCommMonoid M] (l : List M) : listSum l = l.sum := rfl

theorem listProd_eq {M : Type} [CommMonoid M] (l : List M) : listProd l = l.prod := rfl

/-! ### `itertools.combinations` -/

theorem combos_zero (l : List Nat) : combos l 0 = [[]] := by cases l <;> rfl

theorem combos_length (l : List Nat) (k : Nat) : (combos l k).length = l.length.choose k := by
  induction l generalizing k with
  | nil => cases k <;> simp [combos]
  | cons x xs ih =>
    cases k with
    | zero => simp [combos]
    | succ k => simp [combos, ih, Nat.choose_succ_succ]

theorem mem_combos {l x : List Nat} {k : Nat} : x ∈ combos l k ↔ x.Sublist l ∧ x.length = k := by
  induction l generalizing k x with
  | nil =>
    cases k with
    | zero => simp [combos]
    | succ k => simp [combos]; intro h; subst h; simp
  | cons a as ih =>
    cases k with
    | zero => simp [combos]; intro h; subst h; simp
    | succ k =>
      simp only [combos, List.mem_append, List.mem_map, ih]
      constructor
      · rintro (⟨y, ⟨hy, hl⟩, rfl⟩ | ⟨hy, hl⟩)
        · exact ⟨hy.cons_cons a, by simp [hl]⟩
        · exact ⟨hy.cons a, hl⟩
      · rintro ⟨hs, hl⟩
        cases hs with
        | cons _ h => exact Or.inr ⟨h, hl⟩
        | cons_cons _ h =>
          rename_i y
          exact Or.inl ⟨y, ⟨h, by simpa using hl⟩, rfl⟩

theorem combos_nodup {l : List Nat} (hl : l.Nodup) (k : Nat) : (combos l k).Nodup := by
  induction l generalizing k with
  | nil => cases k <;> simp [combos]
  | cons a as ih =>
    cases k with
    | zero => simp [combos]
    | succ k =>
      rw [List.nodup_cons] at hl
      simp only [combos]
      refine List.Nodup.append ?_ (ih hl.2 _) ?_
      · exact (ih hl.2 k).map (fun _ _ h => by simpa using h)
      · intro x hx hx'
        simp only [List.mem_map] at hx
        obtain ⟨y, _, rfl⟩ := hx
        have := (mem_combos.1 hx').1
        exact hl.1 (this.subset (by simp))

/-! ### `itertools.combinations_with_replacement` -/

theorem combosRepAux_length (fuel : Nat) (l : List Nat) (k : Nat) (h : l.length + k ≤ fuel) :
    (combosRepAux fuel l k).length = Nat.multichoose l.length k := by
  induction fuel generalizing l k with
  | zero =>
    have hl : l = [] := by cases l with | nil => rfl | cons _ _ => simp at h
    have hk : k = 0 := by omega
    subst hl; subst hk; simp [combosRepAux]
  | succ fuel ih =>
    cases k with
    | zero => cases l <;> simp [combosRepAux]
    | succ k =>
      cases l with
      | nil => simp [combosRepAux]
      | cons x xs =>
        simp only [combosRepAux, List.length_append, List.length_map, List.length_cons]
        rw [ih (x :: xs) k (by simp at h ⊢; omega), ih xs (k + 1) (by simp at h ⊢; omega)]
        simp [Nat.multichoose_succ_succ, Nat.add_comm]

theorem combosRep_length (l : List Nat) (k : Nat) :
    (combosRep l k).length = Nat.multichoose l.length k :=
  combosRepAux_length _ l k le_rfl


/-! ### real bipartite forms (`detect_real_matrix_subspace_rank_one`) -/

section bip
variable {R : Type} [CommRing R]
open Finset

theorem quad4_eq (dA dB : Nat) (f : Nat → Nat → Nat → Nat → R) (x : Nat → Nat → R) :
    quad4 dA dB f x = ∑ a ∈ range dA, ∑ b ∈ range dB, ∑ a' ∈ range dA, ∑ b' ∈ range dB,
      x a b * f a b a' b' * x a' b' := by
  simp only [quad4, foldr_add_range]

theorem projector_eq (K : Nat) (B : Nat → Nat → Nat → R) (a b a' b' : Nat) :
    projector K B a b a' b' = ∑ k ∈ range K, B k a b * B k a' b' := by
  simp only [projector, foldr_add_range]

/-- the quadratic form as a sum over pairs -/
theorem quad4_pairs (dA dB : Nat) (f : Nat → Nat → Nat → Nat → R) (x : Nat → Nat → R) :
    quad4 dA dB f x = ∑ p ∈ range dA ×ˢ range dB, ∑ q ∈ range dA ×ˢ range dB,
      x p.1 p.2 * f p.1 p.2 q.1 q.2 * x q.1 q.2 := by
  rw [quad4_eq, Finset.sum_product]
  refine sum_congr rfl fun a _ => sum_congr rfl fun b _ => ?_
  rw [Finset.sum_product]

theorem quad_gram {ι κ : Type} (s : Finset ι) (t : Finset κ) (B : κ → ι → R) (x : ι → R) :
    ∑ p ∈ s, ∑ q ∈ s, x p * (∑ k ∈ t, B k p * B k q) * x q = ∑ k ∈ t, (∑ p ∈ s, B k p * x p) ^ 2 := by
  have h1 : ∀ k, (∑ p ∈ s, B k p * x p) ^ 2 = ∑ p ∈ s, ∑ q ∈ s, (B k p * x p) * (B k q * x q) := by
    intro k; rw [sq, Finset.sum_mul_sum]
  calc ∑ p ∈ s, ∑ q ∈ s, x p * (∑ k ∈ t, B k p * B k q) * x q
      = ∑ p ∈ s, ∑ q ∈ s, ∑ k ∈ t, (B k p * x p) * (B k q * x q) := by
        refine sum_congr rfl fun p _ => sum_congr rfl fun q _ => ?_
        rw [Finset.mul_sum, Finset.sum_mul]; exact sum_congr rfl fun k _ => by ring
    _ = ∑ p ∈ s, ∑ k ∈ t, ∑ q ∈ s, (B k p * x p) * (B k q * x q) :=
        sum_congr rfl fun p _ => Finset.sum_comm
    _ = ∑ k ∈ t, ∑ p ∈ s, ∑ q ∈ s, (B k p * x p) * (B k q * x q) := Finset.sum_comm
    _ = ∑ k ∈ t, (∑ p ∈ s, B k p * x p) ^ 2 := by simp only [h1]

/-- Parseval inside the span of an orthonormal family -/
theorem parseval_span {ι κ : Type} [DecidableEq κ] (s : Finset ι) (t : Finset κ) (B : κ → ι → R) (x : ι → R) (c : κ → R)
    (hspan : ∀ p ∈ s, x p = ∑ k ∈ t, c k * B k p)
    (horth : ∀ k ∈ t, ∀ l ∈ t, ∑ p ∈ s, B k p * B l p = if k = l then 1 else 0) :
    (∀ k ∈ t, ∑ p ∈ s, B k p * x p = c k) ∧ ∑ p ∈ s, x p ^ 2 = ∑ k ∈ t, c k ^ 2 := by
  have hip : ∀ k ∈ t, ∑ p ∈ s, B k p * x p = c k := by
    intro k hk
    calc ∑ p ∈ s, B k p * x p = ∑ p ∈ s, ∑ l ∈ t, c l * (B k p * B l p) := by
          refine sum_congr rfl fun p hp => ?_
          rw [hspan p hp, Finset.mul_sum]; exact sum_congr rfl fun l _ => by ring
      _ = ∑ l ∈ t, c l * ∑ p ∈ s, B k p * B l p := by
          rw [Finset.sum_comm]; exact sum_congr rfl fun l _ => by rw [Finset.mul_sum]
      _ = ∑ l ∈ t, c l * (if k = l then 1 else 0) := sum_congr rfl fun l hl => by rw [horth k hk l hl]
      _ = c k := by simp [hk]
  refine ⟨hip, ?_⟩
  calc ∑ p ∈ s, x p ^ 2 = ∑ p ∈ s, ∑ k ∈ t, c k * (B k p * x p) := by
        refine sum_congr rfl fun p hp => ?_
        rw [sq]; nth_rewrite 1 [hspan p hp]; rw [Finset.sum_mul]; exact sum_congr rfl fun l _ => by ring
    _ = ∑ k ∈ t, c k * ∑ p ∈ s, B k p * x p := by
        rw [Finset.sum_comm]; exact sum_congr rfl fun l _ => by rw [Finset.mul_sum]
    _ = ∑ k ∈ t, c k ^ 2 := sum_congr rfl fun k hk => by rw [hip k hk, sq]

theorem quad4_ptB_prod (dA dB : Nat) (f : Nat → Nat → Nat → Nat → R) (u v : Nat → R) :
    quad4 dA dB (ptB f) (fun a b => u a * v b) = quad4 dA dB f (fun a b => u a * v b) := by
  simp only [quad4_eq, ptB]
  refine sum_congr rfl fun a _ => ?_
  rw [Finset.sum_comm]
  conv_rhs => rw [Finset.sum_comm]
  refine sum_congr rfl fun a' _ => ?_
  rw [Finset.sum_comm]
  exact sum_congr rfl fun b _ => sum_congr rfl fun b' _ => by ring

theorem quad4_mixPT (dA dB : Nat) (p : R) (f : Nat → Nat → Nat → Nat → R) (x : Nat → Nat → R) :
    quad4 dA dB (mixPT p f) x = p * quad4 dA dB f x + (1 - p) * quad4 dA dB (ptB f) x := by
  simp only [quad4_eq, mixPT, Finset.mul_sum, ← Finset.sum_add_distrib]
  exact sum_congr rfl fun a _ => sum_congr rfl fun b _ => sum_congr rfl fun a' _ => sum_congr rfl fun b' _ => by ring

end bip


/-! ### numerical range: Rayleigh quotient of the Hermitian part -/

/-- in theorem files the model's conjugation is `star` -/
scoped instance starConj {R : Type} [Star R] : Conj R := ⟨star⟩

theorem conj_eq_star {R : Type} [Star R] (a : R) : conj a = star a := rfl

section nr
variable {R : Type} [CommRing R] [StarRing R]
open Finset

/-- `y† A y` -/
def rayleigh (n : Nat) (A : Nat → Nat → R) (y : Nat → R) : R :=
  ∑ i ∈ range n, ∑ j ∈ range n, star (y i) * A i j * y j

theorem rayleigh_hermPart (n : Nat) (w : R) (A : Nat → Nat → R) (y : Nat → R) :
    rayleigh n (hermPart w A) y = w * rayleigh n A y + star (w * rayleigh n A y) := by
  have key : star (w * rayleigh n A y)
      = ∑ i ∈ range n, ∑ j ∈ range n, star w * (y j * star (A j i) * star (y i)) := by
    simp only [rayleigh, star_mul', star_sum, star_star, Finset.mul_sum]
    exact Finset.sum_comm
  rw [key]
  simp only [rayleigh, hermPart, conj_eq_star, Finset.mul_sum, ← Finset.sum_add_distrib]
  exact sum_congr rfl fun i _ => sum_congr rfl fun j _ => by ring

end nr

/-! ### structure classes: arithmetic and list shuffles -/

theorem two_mul_nOff (n : Nat) : 2 * nOff n = n * (n - 1) := by
  unfold nOff
  have h : Even (n * (n - 1)) := by
    cases n with
    | zero => simp
    | succ m => simpa [Nat.mul_comm] using Nat.even_mul_succ_self m
  obtain ⟨c, hc⟩ := h
  omega

theorem sq_sub_two_nOff (n : Nat) : n * n - 2 * nOff n = n := by
  rw [two_mul_nOff]
  cases n with
  | zero => rfl
  | succ m => simp [Nat.mul_succ]

theorem nOff_add_self (n : Nat) : nOff n + n = n * (n + 1) / 2 := by
  have h := two_mul_nOff n
  have h2 : n * (n + 1) = n * (n - 1) + 2 * n := by
    cases n with
    | zero => rfl
    | succ m => simp [Nat.mul_succ, Nat.succ_mul]; ring
  omega

section lists
variable {α : Type} [Zero α]

theorem symSelect_symEmbed (n : Nat) (x : List α) (h : nOff n ≤ x.length) :
    symSelect n (symEmbed n x) = x := by
  unfold symSelect symEmbed
  have h1 : (x.take (nOff n)).length = nOff n := by simp [h]
  have e : 2 * nOff n = (x.take (nOff n) ++ List.replicate (nOff n) (0 : α)).length := by simp [h]; omega
  rw [List.append_assoc, List.take_append_of_le_length (by simp [h]), List.take_of_length_le (by simp [h]),
    ← List.append_assoc, e, List.drop_left]
  exact List.take_append_drop _ _

theorem symEmbed_symSelect (n : Nat) (v : List α) (hlen : 2 * nOff n ≤ v.length)
    (hz : (v.drop (nOff n)).take (nOff n) = List.replicate (nOff n) 0) :
    symEmbed n (symSelect n v) = v := by
  unfold symSelect symEmbed
  have h1 : (v.take (nOff n)).length = nOff n := by simp; omega
  rw [List.take_append_of_le_length (by omega), List.take_of_length_le (by omega)]
  have : List.drop (nOff n) (List.take (nOff n) v ++ List.drop (2 * nOff n) v) = List.drop (2 * nOff n) v :=
    List.drop_left' h1
  rw [this, ← hz]
  have : List.drop (2 * nOff n) v = List.drop (nOff n) (List.drop (nOff n) v) := by
    rw [List.drop_drop]; congr 1; omega
  rw [this, List.append_assoc, List.take_append_drop, List.take_append_drop]

theorem getD_flatMap_range (d : α) (m n : Nat) (g : Nat → Nat → α) (a b : Nat) (ha : a < m) (hb : b < n) :
    ((List.range m).flatMap fun a => (List.range n).map (g a)).getD (a * n + b) d = g a b := by
  induction m with
  | zero => omega
  | succ m ih =>
    have hlen : ((List.range m).flatMap fun a => (List.range n).map (g a)).length = m * n := by
      clear ih ha
      induction m with
      | zero => simp
      | succ k ihk => simp [List.range_succ, List.flatMap_append, ihk, Nat.succ_mul]
    rw [List.range_succ, List.flatMap_append]
    by_cases h : a < m
    · have hlt : a * n + b < m * n := by
        calc a * n + b < a * n + n := by omega
          _ = (a + 1) * n := by ring
          _ ≤ m * n := Nat.mul_le_mul_right _ h
      rw [List.getD_eq_getElem?_getD, List.getElem?_append_left (by rw [hlen]; exact hlt), ← List.getD_eq_getElem?_getD]
      exact ih h
    · have ham : a = m := by omega
      subst ham
      rw [List.getD_eq_getElem?_getD, List.getElem?_append_right (by rw [hlen]; omega), hlen]
      simp [hb]

end lists

section block
variable {R : Type} [CommRing R]
open Finset

/-- Frobenius inner product of two `np.block([[r,-i],[i,r]])` forms `= 2·Re tr(A†B)` -/
theorem blockRealify_inner (N1 N2 : Nat) (re im re' im' : Nat → Nat → R) :
    ∑ p ∈ range (N1 + N1), ∑ q ∈ range (N2 + N2),
        blockRealify N1 N2 re im p q * blockRealify N1 N2 re' im' p q
      = 2 * ∑ a ∈ range N1, ∑ b ∈ range N2, (re a b * re' a b + im a b * im' a b) := by
  rw [Finset.sum_range_add]
  have hq : ∀ (F : Nat → R), ∑ q ∈ range (N2 + N2), F q = ∑ q ∈ range N2, F q + ∑ q ∈ range N2, F (N2 + q) :=
    fun F => Finset.sum_range_add F N2 N2
  simp only [hq]
  have e1 : ∀ a ∈ range N1, ∀ b ∈ range N2,
      blockRealify N1 N2 re im a b = re a b ∧ blockRealify N1 N2 re im a (N2 + b) = -im a b
      ∧ blockRealify N1 N2 re im (N1 + a) b = im a b ∧ blockRealify N1 N2 re im (N1 + a) (N2 + b) = re a b := by
    intro a ha b hb
    rw [Finset.mem_range] at ha hb
    simp [blockRealify, ha, hb]
  have e2 : ∀ a ∈ range N1, ∀ b ∈ range N2,
      blockRealify N1 N2 re' im' a b = re' a b ∧ blockRealify N1 N2 re' im' a (N2 + b) = -im' a b
      ∧ blockRealify N1 N2 re' im' (N1 + a) b = im' a b ∧ blockRealify N1 N2 re' im' (N1 + a) (N2 + b) = re' a b := by
    intro a ha b hb
    rw [Finset.mem_range] at ha hb
    simp [blockRealify, ha, hb]
  rw [Finset.mul_sum, ← Finset.sum_add_distrib]
  refine sum_congr rfl fun a ha => ?_
  rw [Finset.mul_sum, ← Finset.sum_add_distrib, ← Finset.sum_add_distrib, ← Finset.sum_add_distrib]
  refine sum_congr rfl fun b hb => ?_
  obtain ⟨h1, h2, h3, h4⟩ := e1 a ha b hb
  obtain ⟨k1, k2, k3, k4⟩ := e2 a ha b hb
  rw [h1, h2, h3, h4, k1, k2, k3, k4]; ring

end block

end Numqi.MatrixSpace
