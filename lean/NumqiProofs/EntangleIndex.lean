/-
Helper lemmas for the index layer of `NumqiModel/Entangle.lean`: row-major flat indices, `transpose`,
bridging of the list sums to `Finset.sum`.
-/
import NumqiModel.Entangle
import Mathlib.Tactic
import Mathlib.Algebra.BigOperators.Fin

namespace Numqi.Ent

/-- `idx` is a valid multi-index of an array of shape `shape` -/
abbrev InShape (idx shape : List Nat) : Prop := List.Forall₂ (· < ·) idx shape

theorem prodL_append (s t : List Nat) : prodL (s ++ t) = prodL s * prodL t := by
  induction s with
  | nil => simp [prodL]
  | cons a s ih => simp [prodL, ih, Nat.mul_assoc]

theorem prodL_eq_prod (s : List Nat) : prodL s = s.prod := by
  induction s with
  | nil => rfl
  | cons a s ih => simp [prodL, ih]

theorem InShape.length_eq {idx shape : List Nat} (h : InShape idx shape) : idx.length = shape.length :=
  List.Forall₂.length_eq h

theorem flat_lt {idx shape : List Nat} (h : InShape idx shape) : flat shape idx < prodL shape := by
  induction h with
  | nil => simp [flat, prodL]
  | @cons i s is ss his _ ih =>
    simp only [flat, prodL]
    calc i * prodL ss + flat ss is < i * prodL ss + prodL ss := by omega
      _ = (i + 1) * prodL ss := by ring
      _ ≤ s * prodL ss := Nat.mul_le_mul_right _ his

theorem unflat_flat {idx shape : List Nat} (h : InShape idx shape) : unflat shape (flat shape idx) = idx := by
  induction h with
  | nil => simp [unflat]
  | @cons i s is ss _ hrest ih =>
    have hlt := flat_lt hrest
    have hpos : 0 < prodL ss := by omega
    simp only [flat, unflat]
    have h1 : (i * prodL ss + flat ss is) / prodL ss = i := by
      rw [Nat.add_comm, Nat.add_mul_div_right _ _ hpos, Nat.div_eq_of_lt hlt, Nat.zero_add]
    have h2 : (i * prodL ss + flat ss is) % prodL ss = flat ss is := by
      rw [Nat.add_comm, Nat.add_mul_mod_self_right, Nat.mod_eq_of_lt hlt]
    rw [h1, h2, ih]

theorem unflat_inShape (shape : List Nat) (k : Nat) (h : k < prodL shape) : InShape (unflat shape k) shape := by
  induction shape generalizing k with
  | nil => simp [unflat]
  | cons s ss ih =>
    simp only [prodL] at h
    have hpos : 0 < prodL ss := by
      rcases Nat.eq_zero_or_pos (prodL ss) with h0 | h0
      · rw [h0] at h; simp at h
      · exact h0
    simp only [unflat]
    refine List.Forall₂.cons ?_ (ih _ (Nat.mod_lt _ hpos))
    exact Nat.div_lt_of_lt_mul (by rwa [Nat.mul_comm] at h)

theorem flat_unflat (shape : List Nat) (k : Nat) (h : k < prodL shape) : flat shape (unflat shape k) = k := by
  induction shape generalizing k with
  | nil => simp [prodL] at h; simp [flat, h]
  | cons s ss ih =>
    simp only [prodL] at h
    have hpos : 0 < prodL ss := by
      rcases Nat.eq_zero_or_pos (prodL ss) with h0 | h0
      · rw [h0] at h; simp at h
      · exact h0
    simp only [unflat, flat]
    rw [ih _ (Nat.mod_lt _ hpos)]
    exact Nat.div_add_mod' k (prodL ss)

theorem flat_append {i1 s1 : List Nat} (h : InShape i1 s1) (i2 s2 : List Nat) :
    flat (s1 ++ s2) (i1 ++ i2) = flat s1 i1 * prodL s2 + flat s2 i2 := by
  induction h with
  | nil => simp [flat]
  | @cons i s is ss _ _ ih =>
    simp only [List.cons_append, flat, ih, prodL_append]
    ring

theorem InShape.append {i1 s1 i2 s2 : List Nat} (h1 : InShape i1 s1) (h2 : InShape i2 s2) :
    InShape (i1 ++ i2) (s1 ++ s2) := by
  induction h1 with
  | nil => simpa using h2
  | cons h _ ih => exact List.Forall₂.cons h ih

/-- **`transpose` reads the permuted multi-index.** For an output multi-index `o` that is valid for the
transposed shape, the entry of `x.reshape(shape).transpose(perm)` at `o` is the entry of `x` at the input
multi-index `transposeIn perm o` (whose component `perm[m]` is `o[m]`, see `transposeIn_getD`). -/
theorem npTranspose_flat {α : Type} (shape perm : List Nat) (x : Nat → α) (o : List Nat)
    (ho : InShape o (permShape shape perm)) :
    npTranspose shape perm x (flat (permShape shape perm) o) = x (flat shape (transposeIn perm o)) := by
  simp only [npTranspose, unflat_flat ho]

theorem transposeIn_getD (perm o : List Nat) (hnd : perm.Nodup) (m : Nat) (hm : m < perm.length)
    (hp : perm[m] < perm.length) : (transposeIn perm o).getD (perm[m]) 0 = o.getD m 0 := by
  unfold transposeIn
  rw [List.getD_eq_getElem?_getD, List.getElem?_map, List.getElem?_range hp]
  simp only [Option.map_some, Option.getD_some]
  rw [List.Nodup.idxOf_getElem hnd]

/-! ### list sums and `Finset.sum` -/

theorem sumRange_succ {M : Type} [AddCommMonoid M] (n : Nat) (f : Nat → M) :
    sumRange (n + 1) f = sumRange n f + f n := by
  simp [sumRange, List.range_succ, List.sum_append]

theorem sumRange_eq_sum {M : Type} [AddCommMonoid M] (n : Nat) (f : Nat → M) :
    sumRange n f = ∑ i ∈ Finset.range n, f i := by
  induction n with
  | zero => simp [sumRange]
  | succ n ih => rw [sumRange_succ, Finset.sum_range_succ, ih]

theorem sumRange_eq_sum_fin {M : Type} [AddCommMonoid M] (n : Nat) (f : Nat → M) :
    sumRange n f = ∑ i : Fin n, f i := by
  rw [sumRange_eq_sum, Finset.sum_range]

/-! ### matrices as flat arrays, three-block view of a multi-index -/

theorem toFlat_flat_append {α : Type} (s : List Nat) (ρ : Nat → Nat → α) {j1 j2 : List Nat}
    (h1 : InShape j1 s) (h2 : InShape j2 s) :
    toFlat (prodL s) ρ (flat (s ++ s) (j1 ++ j2)) = ρ (flat s j1) (flat s j2) := by
  have hlt := flat_lt h2
  have hpos : 0 < prodL s := by omega
  rw [flat_append h1, toFlat]
  congr 1
  · rw [Nat.add_comm, Nat.add_mul_div_right _ _ hpos, Nat.div_eq_of_lt hlt, Nat.zero_add]
  · rw [Nat.add_comm, Nat.add_mul_mod_self_right, Nat.mod_eq_of_lt hlt]

theorem ofFlat_flat_append {α : Type} (x : Nat → α) {i1 s1 : List Nat} (h1 : InShape i1 s1) (i2 s2 : List Nat) :
    ofFlat (prodL s2) x (flat s1 i1) (flat s2 i2) = x (flat (s1 ++ s2) (i1 ++ i2)) := by
  rw [flat_append h1, ofFlat]

theorem inShape3 {a d b x0 x1 x2 : Nat} (h0 : x0 < a) (h1 : x1 < d) (h2 : x2 < b) : InShape [x0, x1, x2] [a, d, b] :=
  .cons h0 (.cons h1 (.cons h2 .nil))

theorem prodL3 (a d b : Nat) : prodL [a, d, b] = a * d * b := by simp [prodL, Nat.mul_assoc]

theorem inShape2 {a b x0 x1 : Nat} (h0 : x0 < a) (h1 : x1 < b) : InShape [x0, x1] [a, b] :=
  .cons h0 (.cons h1 .nil)
theorem prodL2 (a b : Nat) : prodL [a, b] = a * b := by simp [prodL]
theorem InShape.take {x s : List Nat} (h : InShape x s) (i : Nat) : InShape (x.take i) (s.take i) := by
  induction h generalizing i with
  | nil => simp
  | cons h0 _ ih => cases i with
    | zero => simp
    | succ i => simpa using List.Forall₂.cons h0 (ih i)

theorem InShape.drop {x s : List Nat} (h : InShape x s) (i : Nat) : InShape (x.drop i) (s.drop i) := by
  induction h generalizing i with
  | nil => simp
  | cons h0 hr ih => cases i with
    | zero => simpa using List.Forall₂.cons h0 hr
    | succ i => simpa using ih i

theorem InShape.getD_lt {x s : List Nat} (h : InShape x s) (i : Nat) (hi : i < s.length) : x.getD i 0 < s.getD i 1 := by
  induction h generalizing i with
  | nil => simp at hi
  | cons h0 _ ih => cases i with
    | zero => simpa using h0
    | succ i => simpa using ih i (by simpa using hi)

/-- a multi-index over `dim` seen through the three blocks `prod dim[:i]`, `dim[i]`, `prod dim[i+1:]` -/
theorem flat_blocks {x dim : List Nat} (h : InShape x dim) (i : Nat) (hi : i < dim.length) :
    flat dim x = flat [prodL (dim.take i), dim.getD i 1, prodL (dim.drop (i + 1))]
      [flat (dim.take i) (x.take i), x.getD i 0, flat (dim.drop (i + 1)) (x.drop (i + 1))] := by
  have hxl : i < x.length := by rw [h.length_eq]; exact hi
  have hd : dim = dim.take i ++ (dim.getD i 1 :: dim.drop (i + 1)) := by
    rw [← List.getElem_eq_getD (h := hi)]; simp
  have hx : x = x.take i ++ (x.getD i 0 :: x.drop (i + 1)) := by
    rw [← List.getElem_eq_getD (h := hxl)]; simp
  conv_lhs => rw [hd, hx]
  rw [flat_append (h.take i)]
  simp [flat, prodL]


theorem InShape.set {x s : List Nat} (h : InShape x s) (i v : Nat) (hv : v < s.getD i 1) : InShape (x.set i v) s := by
  induction h generalizing i with
  | nil => simp
  | cons h0 hr ih => cases i with
    | zero => exact List.Forall₂.cons (by simpa using hv) hr
    | succ i => exact List.Forall₂.cons h0 (ih i (by simpa using hv))

theorem take_set_self (l : List Nat) (i v : Nat) : (l.set i v).take i = l.take i := by
  induction l generalizing i with
  | nil => simp
  | cons a l ih => cases i <;> simp [ih]

theorem drop_succ_set_self (l : List Nat) (i v : Nat) : (l.set i v).drop (i + 1) = l.drop (i + 1) := by
  induction l generalizing i with
  | nil => simp
  | cons a l ih => cases i <;> simp [ih]

theorem exists_flat3 {a d b r : Nat} (h : r < a * d * b) :
    ∃ r0 r1 r2, r0 < a ∧ r1 < d ∧ r2 < b ∧ r = flat [a, d, b] [r0, r1, r2] := by
  rw [← prodL3] at h
  have hs := unflat_inShape _ _ h
  have hf := flat_unflat _ _ h
  generalize unflat [a, d, b] r = l at hs hf
  match l, hs with
  | [r0, r1, r2], .cons h0 (.cons h1 (.cons h2 .nil)) => exact ⟨r0, r1, r2, h0, h1, h2, hf.symm⟩


/-! ### transposes given by a permutation of the axes -/

theorem permShape_append (s p q : List Nat) : permShape s (p ++ q) = permShape s p ++ permShape s q := by
  simp [permShape]

theorem inShape_map_getD {j shape perm : List Nat} (hj : InShape j shape) (hp : ∀ p ∈ perm, p < shape.length) :
    InShape (perm.map (j.getD · 0)) (permShape shape perm) := by
  unfold permShape InShape
  rw [List.forall₂_map_left_iff, List.forall₂_map_right_iff, List.forall₂_same]
  intro p hpm
  exact hj.getD_lt p (hp p hpm)

theorem transposeIn_map {perm j : List Nat} {n : Nat} (hp : perm.Perm (List.range n)) (hj : j.length = n) :
    transposeIn perm (perm.map (j.getD · 0)) = j := by
  have hlen : perm.length = n := by simpa using hp.length_eq
  apply List.ext_getElem
  · simp [transposeIn, hlen, hj]
  · intro ax h1 h2
    have hax : ax < n := by rw [← hj]; exact h2
    have hmem : ax ∈ perm := hp.mem_iff.2 (List.mem_range.2 hax)
    have hidx : perm.idxOf ax < perm.length := List.idxOf_lt_length_of_mem hmem
    simp only [transposeIn, List.getElem_map, List.getElem_range]
    rw [List.getD_eq_getElem?_getD, List.getElem?_map, List.getElem?_eq_getElem hidx]
    simp [List.getElem_idxOf, List.getElem?_eq_getElem h2]


/-! ### `itertools.combinations`, complements -/

theorem mem_combos {l : List Nat} {k : Nat} {y : List Nat} : y ∈ combos l k ↔ y.Sublist l ∧ y.length = k := by
  induction l generalizing k y with
  | nil =>
    cases k with
    | zero => simp [combos]
    | succ k => simp [combos]; intro h; simp [h]
  | cons a l ih =>
    cases k with
    | zero =>
      simp [combos]
      rintro rfl; simp
    | succ k =>
      simp only [combos, List.mem_append, List.mem_map, ih]
      constructor
      · rintro (⟨z, ⟨hz, hl⟩, rfl⟩ | ⟨hz, hl⟩)
        · exact ⟨hz.cons_cons a, by simp [hl]⟩
        · exact ⟨hz.cons a, hl⟩
      · rintro ⟨hs, hl⟩
        cases hs with
        | cons _ h => exact Or.inr ⟨h, hl⟩
        | cons_cons _ h => exact Or.inl ⟨_, ⟨h, by simpa using hl⟩, rfl⟩

theorem complement_nil (m : Nat) : complement m [] = List.range m := by simp [complement]

theorem append_complement_perm {m : Nat} {y : List Nat} (hy : y.Sublist (List.range m)) :
    (y ++ complement m y).Perm (List.range m) := by
  have hnd : y.Nodup := hy.nodup List.nodup_range
  have h1 : ((List.range m).filter fun v => y.contains v).Perm y := by
    apply (List.perm_ext_iff_of_nodup (List.nodup_range.filter _) hnd).2
    intro a
    simp only [List.mem_filter, List.mem_range, List.contains_iff_mem]
    constructor
    · rintro ⟨_, h⟩; exact h
    · intro h; exact ⟨List.mem_range.1 (hy.subset h), h⟩
  have h2 := List.filter_append_perm (fun v => y.contains v) (List.range m)
  refine List.Perm.trans ?_ h2
  exact List.Perm.append h1.symm (by simp [complement])


end Numqi.Ent
