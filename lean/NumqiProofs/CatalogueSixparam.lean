/-
Helper lemmas for C18: the six-parameter 3×3 UPB — local vectors are unit vectors and every pair of product vectors is
orthogonal on party A or on party B, for all parameter values (`c²+s²=1`, `|e|=1`, `nrm² = cos²γ + sin²γ cos²θ ≠ 0`).
-/
import NumqiProofs.Catalogue
import NumqiProofs.Lie

set_option linter.unusedSectionVars false

namespace Numqi.Catalogue
open Numqi.Lie

variable {F : Type} [Field F]

theorem hdot3 (u0 u1 u2 v0 v1 v2 : Cx F) :
    hdot [u0, u1, u2] [v0, v1, v2] = u0.conj * v0 + u1.conj * v1 + u2.conj * v2 := by
  simp [hdot]

theorem hdot3_swap_zero (u0 u1 u2 v0 v1 v2 : Cx F) (h : hdot [u0, u1, u2] [v0, v1, v2] = 0) :
    hdot [v0, v1, v2] [u0, u1, u2] = 0 := by
  rw [hdot3] at h ⊢
  have h1 := congrArg Cx.re h; have h2 := congrArg Cx.im h
  simp at h1 h2
  ext <;> simp
  · linear_combination h1
  · linear_combination -h2

section
variable (cg sg ct st nrm : F) (e : Cx F)
  (hg : cg * cg + sg * sg = 1) (ht : ct * ct + st * st = 1) (he : e.re * e.re + e.im * e.im = 1)
  (hn : nrm * nrm = cg * cg + sg * sg * (ct * ct)) (hn0 : nrm ≠ 0)
include hg ht he hn hn0

theorem six_norm_theta : hdot (sixRowTheta ct st) (sixRowTheta ct st) = (1 : Cx F) := by
  rw [sixRowTheta, hdot3]; ext <;> simp <;> linear_combination ht

theorem six_norm_mixed : hdot (sixRowMixed cg sg ct st e) (sixRowMixed cg sg ct st e) = (1 : Cx F) := by
  rw [sixRowMixed, hdot3]; ext <;> simp
  · linear_combination (sg * sg) * ht + (cg * cg) * he + hg
  · ring

theorem six_norm_last : hdot (sixRowLast cg sg ct nrm e) (sixRowLast cg sg ct nrm e) = (1 : Cx F) := by
  rw [sixRowLast, hdot3]; ext <;> simp
  · field_simp
    linear_combination (sg * sg * (ct * ct)) * he - hn
  · field_simp; ring

theorem six_theta_mixed : hdot (sixRowTheta ct st) (sixRowMixed cg sg ct st e) = 0 := by
  rw [sixRowTheta, sixRowMixed, hdot3]; ext <;> simp <;> ring

theorem six_mixed_last : hdot (sixRowMixed cg sg ct st e) (sixRowLast cg sg ct nrm e) = 0 := by
  rw [sixRowMixed, sixRowLast, hdot3]; ext <;> simp
  · field_simp
    linear_combination (cg * sg * ct) * he
  · field_simp; ring

theorem six_mixed_theta : hdot (sixRowMixed cg sg ct st e) (sixRowTheta ct st) = 0 :=
  hdot3_swap_zero _ _ _ _ _ _ (by have := six_theta_mixed cg sg ct st nrm e hg ht he hn hn0; rwa [sixRowTheta, sixRowMixed] at this)

theorem six_last_mixed : hdot (sixRowLast cg sg ct nrm e) (sixRowMixed cg sg ct st e) = 0 :=
  hdot3_swap_zero _ _ _ _ _ _ (by have := six_mixed_last cg sg ct st nrm e hg ht he hn hn0; rwa [sixRowMixed, sixRowLast] at this)

end

end Numqi.Catalogue
