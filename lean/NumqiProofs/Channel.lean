/-
Helper lemmas for the channel model (C12).
-/
import Mathlib.Tactic
import Mathlib.Algebra.BigOperators.Fin
import Mathlib.Algebra.Star.BigOperators
import NumqiModel.Channel
import NumqiProofs.PartialTrace

namespace Numqi
namespace Channel
open Finset

theorem div_lt_of_lt_mul {x d n : ℕ} (h : x < d * n) : x / n < d := by
  have hn : 0 < n := Nat.pos_of_ne_zero (by rintro rfl; simp at h)
  exact (Nat.div_lt_iff_lt_mul hn).2 h

theorem mod_lt_of_lt_mul {x d n : ℕ} (h : x < d * n) : x % n < n := by
  have hn : 0 < n := Nat.pos_of_ne_zero (by rintro rfl; simp at h)
  exact Nat.mod_lt _ hn

end Channel
end Numqi
