/-
The executable scalar carriers of `NumqiModel/Scalar.lean` are commutative star rings.

`GInt = ℤ[i]` and `QI = ℚ[i]` carry only operation instances (`Add Mul Neg Sub Zero One Conj`) in the model, because the
model must not import Mathlib.  Here the Mathlib structures `CommRing`, `StarRing`, `CharZero` (and `Field QI`) are built
**on those very operations** (the fields `add := …` etc. are the model's instances, the laws are proved from the structure
definitions), so every theorem stated for "any commutative (star) ring `R`" applies to the carriers the drivers execute:
the bridge lemmas below are all `rfl`.  Also: `GInt.I` is an imaginary unit, `1 ≠ -1`, and the inclusions
`GInt →+* QI →+* ℂ` are star-preserving ring homomorphisms.
-/
import Mathlib.Tactic
import Mathlib.Algebra.Star.Basic
import Mathlib.Algebra.CharZero.Defs
import Mathlib.Data.Complex.Basic
import NumqiModel.Scalar

namespace Numqi
set_option linter.unnecessarySeqFocus false

/-! ### `GInt = ℤ[i]` -/
namespace GInt

theorem ext' {a b : GInt} (h1 : a.re = b.re) (h2 : a.im = b.im) : a = b := by
  cases a; cases b; simp_all

@[simp] theorem zero_re : (0 : GInt).re = 0 := rfl
@[simp] theorem zero_im : (0 : GInt).im = 0 := rfl
@[simp] theorem one_re : (1 : GInt).re = 1 := rfl
@[simp] theorem one_im : (1 : GInt).im = 0 := rfl
@[simp] theorem add_re (a b : GInt) : (a + b).re = a.re + b.re := rfl
@[simp] theorem add_im (a b : GInt) : (a + b).im = a.im + b.im := rfl
@[simp] theorem sub_re (a b : GInt) : (a - b).re = a.re - b.re := rfl
@[simp] theorem sub_im (a b : GInt) : (a - b).im = a.im - b.im := rfl
@[simp] theorem neg_re (a : GInt) : (-a).re = -a.re := rfl
@[simp] theorem neg_im (a : GInt) : (-a).im = -a.im := rfl
@[simp] theorem mul_re (a b : GInt) : (a * b).re = a.re * b.re - a.im * b.im := rfl
@[simp] theorem mul_im (a b : GInt) : (a * b).im = a.re * b.im + a.im * b.re := rfl
@[simp] theorem conj_re (a : GInt) : (conj a).re = a.re := rfl
@[simp] theorem conj_im (a : GInt) : (conj a).im = -a.im := rfl

/-- the commutative-ring structure **on the model's own operations** -/
instance instCommRing : CommRing GInt where
  add := (· + ·)
  mul := (· * ·)
  zero := 0
  one := 1
  neg := Neg.neg
  sub := (· - ·)
  nsmul := nsmulRec
  zsmul := zsmulRec
  natCast n := ⟨n, 0⟩
  intCast n := ⟨n, 0⟩
  add_assoc a b c := by apply ext' <;> simp <;> ring
  zero_add a := by apply ext' <;> simp
  add_zero a := by apply ext' <;> simp
  add_comm a b := by apply ext' <;> simp <;> ring
  neg_add_cancel a := by apply ext' <;> simp
  sub_eq_add_neg a b := by apply ext' <;> simp <;> ring
  mul_assoc a b c := by apply ext' <;> simp <;> ring
  one_mul a := by apply ext' <;> simp
  mul_one a := by apply ext' <;> simp
  zero_mul a := by apply ext' <;> simp
  mul_zero a := by apply ext' <;> simp
  left_distrib a b c := by apply ext' <;> simp <;> ring
  right_distrib a b c := by apply ext' <;> simp <;> ring
  mul_comm a b := by apply ext' <;> simp <;> ring
  natCast_zero := by apply ext' <;> simp
  natCast_succ n := by apply ext' <;> simp
  intCast_ofNat n := rfl
  intCast_negSucc n := by
    apply ext'
    · show (Int.negSucc n : ℤ) = -((n + 1 : ℕ) : ℤ); rfl
    · show (0 : ℤ) = -0; rfl

instance instStar : Star GInt := ⟨conj⟩

instance instStarRing : StarRing GInt where
  star_involutive a := by apply ext' <;> simp [star]
  star_mul a b := by apply ext' <;> simp [star] <;> ring
  star_add a b := by apply ext' <;> simp [star] <;> ring

@[simp] theorem natCast_re (n : ℕ) : ((n : GInt)).re = n := rfl
@[simp] theorem natCast_im (n : ℕ) : ((n : GInt)).im = 0 := rfl

instance : CharZero GInt := ⟨fun a b h => by have := congrArg GInt.re h; simpa using this⟩

/-- `i² = -1`, `ī = -i`, and `1 ≠ -1`: the hypotheses the C03Gates / C07 / C08 theorems put on the imaginary unit -/
theorem I_mul_I : GInt.I * GInt.I = -1 := by apply ext' <;> simp [GInt.I]
theorem star_I : star GInt.I = -GInt.I := by apply ext' <;> simp [GInt.I, star]
theorem one_ne_neg_one : (1 : GInt) ≠ -1 := fun h => by have := congrArg GInt.re h; simp at this

end GInt

/-! ### `QI = ℚ[i]` -/
namespace QI

theorem ext' {a b : QI} (h1 : a.re = b.re) (h2 : a.im = b.im) : a = b := by
  cases a; cases b; simp_all

@[simp] theorem zero_re : (0 : QI).re = 0 := rfl
@[simp] theorem zero_im : (0 : QI).im = 0 := rfl
@[simp] theorem one_re : (1 : QI).re = 1 := rfl
@[simp] theorem one_im : (1 : QI).im = 0 := rfl
@[simp] theorem add_re (a b : QI) : (a + b).re = a.re + b.re := rfl
@[simp] theorem add_im (a b : QI) : (a + b).im = a.im + b.im := rfl
@[simp] theorem sub_re (a b : QI) : (a - b).re = a.re - b.re := rfl
@[simp] theorem sub_im (a b : QI) : (a - b).im = a.im - b.im := rfl
@[simp] theorem neg_re (a : QI) : (-a).re = -a.re := rfl
@[simp] theorem neg_im (a : QI) : (-a).im = -a.im := rfl
@[simp] theorem mul_re (a b : QI) : (a * b).re = a.re * b.re - a.im * b.im := rfl
@[simp] theorem mul_im (a b : QI) : (a * b).im = a.re * b.im + a.im * b.re := rfl
@[simp] theorem conj_re (a : QI) : (conj a).re = a.re := rfl
@[simp] theorem conj_im (a : QI) : (conj a).im = -a.im := rfl

/-- the imaginary unit of `ℚ[i]` (what `Driver/C03.lean` uses as `carQ.I`) -/
def I : QI := ⟨0, 1⟩

instance instCommRing : CommRing QI where
  add := (· + ·)
  mul := (· * ·)
  zero := 0
  one := 1
  neg := Neg.neg
  sub := (· - ·)
  nsmul := nsmulRec
  zsmul := zsmulRec
  natCast n := ⟨n, 0⟩
  intCast n := ⟨n, 0⟩
  add_assoc a b c := by apply ext' <;> simp <;> ring
  zero_add a := by apply ext' <;> simp
  add_zero a := by apply ext' <;> simp
  add_comm a b := by apply ext' <;> simp <;> ring
  neg_add_cancel a := by apply ext' <;> simp
  sub_eq_add_neg a b := by apply ext' <;> simp <;> ring
  mul_assoc a b c := by apply ext' <;> simp <;> ring
  one_mul a := by apply ext' <;> simp
  mul_one a := by apply ext' <;> simp
  zero_mul a := by apply ext' <;> simp
  mul_zero a := by apply ext' <;> simp
  left_distrib a b c := by apply ext' <;> simp <;> ring
  right_distrib a b c := by apply ext' <;> simp <;> ring
  mul_comm a b := by apply ext' <;> simp <;> ring
  natCast_zero := by apply ext' <;> simp
  natCast_succ n := by apply ext' <;> simp
  intCast_ofNat n := by
    apply ext'
    · show (((n : ℕ) : ℤ) : ℚ) = ((n : ℕ) : ℚ); simp
    · rfl
  intCast_negSucc n := by
    apply ext'
    · show ((Int.negSucc n : ℤ) : ℚ) = -(((n + 1 : ℕ) : ℚ)); simp [Int.negSucc_eq]
    · show (0 : ℚ) = -0; simp

instance instStar : Star QI := ⟨conj⟩

instance instStarRing : StarRing QI where
  star_involutive a := by apply ext' <;> simp [star]
  star_mul a b := by apply ext' <;> simp [star] <;> ring
  star_add a b := by apply ext' <;> simp [star] <;> ring

@[simp] theorem natCast_re (n : ℕ) : ((n : QI)).re = n := rfl
@[simp] theorem natCast_im (n : ℕ) : ((n : QI)).im = 0 := rfl

instance : CharZero QI := ⟨fun a b h => by have := congrArg QI.re h; simpa using this⟩

theorem I_mul_I : QI.I * QI.I = -1 := by apply ext' <;> simp [QI.I]
theorem star_I : star QI.I = -QI.I := by apply ext' <;> simp [QI.I, star]
theorem one_ne_neg_one : (1 : QI) ≠ -1 := fun h => by have := congrArg QI.re h; norm_num at this

end QI

/-! ### `ℚ[i]` is a field -/
namespace QI

theorem normSq_eq_zero {a : QI} (h : a.re * a.re + a.im * a.im = 0) : a = 0 := by
  have h1 := mul_self_nonneg a.re
  have h2 := mul_self_nonneg a.im
  apply ext'
  · exact mul_self_eq_zero.1 (by linarith)
  · exact mul_self_eq_zero.1 (by linarith)

instance instInv : Inv QI := ⟨fun a => ⟨a.re / (a.re * a.re + a.im * a.im), -a.im / (a.re * a.re + a.im * a.im)⟩⟩

@[simp] theorem inv_re (a : QI) : a⁻¹.re = a.re / (a.re * a.re + a.im * a.im) := rfl
@[simp] theorem inv_im (a : QI) : a⁻¹.im = -a.im / (a.re * a.re + a.im * a.im) := rfl

instance instField : Field QI where
  inv := Inv.inv
  exists_pair_ne := ⟨0, 1, fun h => by have := congrArg QI.re h; simp at this⟩
  mul_inv_cancel a ha := by
    have hn : a.re * a.re + a.im * a.im ≠ 0 := fun h => ha (normSq_eq_zero h)
    apply ext'
    · simp only [mul_re, inv_re, inv_im, one_re]
      have : a.re * (a.re / (a.re * a.re + a.im * a.im)) - a.im * (-a.im / (a.re * a.re + a.im * a.im))
          = (a.re * a.re + a.im * a.im) / (a.re * a.re + a.im * a.im) := by ring
      rw [this, div_self hn]
    · simp only [mul_im, inv_re, inv_im, one_im]
      ring
  inv_zero := by apply ext' <;> simp
  nnqsmul := _
  nnqsmul_def := fun _ _ => rfl
  qsmul := _
  qsmul_def := fun _ _ => rfl

end QI

/-! ### the Mathlib structures contain exactly the model's operations (all `rfl`: no second copy, no diamond) -/

theorem GInt.bridge_add : @Distrib.toAdd GInt inferInstance = GInt.instAdd := rfl
theorem GInt.bridge_mul : @Distrib.toMul GInt inferInstance = GInt.instMul := rfl
theorem GInt.bridge_zero : @MulZeroClass.toZero GInt inferInstance = GInt.instZero := rfl
theorem GInt.bridge_one : @AddMonoidWithOne.toOne GInt inferInstance = GInt.instOne := rfl
theorem GInt.bridge_neg : @Ring.toNeg GInt inferInstance = GInt.instNeg := rfl
theorem GInt.bridge_sub : @Ring.toSub GInt inferInstance = GInt.instSub := rfl
theorem GInt.bridge_conj : (⟨star⟩ : Conj GInt) = GInt.instConj := rfl

theorem QI.bridge_add : @Distrib.toAdd QI inferInstance = QI.instAdd := rfl
theorem QI.bridge_mul : @Distrib.toMul QI inferInstance = QI.instMul := rfl
theorem QI.bridge_zero : @MulZeroClass.toZero QI inferInstance = QI.instZero := rfl
theorem QI.bridge_one : @AddMonoidWithOne.toOne QI inferInstance = QI.instOne := rfl
theorem QI.bridge_neg : @Ring.toNeg QI inferInstance = QI.instNeg := rfl
theorem QI.bridge_sub : @Ring.toSub QI inferInstance = QI.instSub := rfl
theorem QI.bridge_conj : (⟨star⟩ : Conj QI) = QI.instConj := rfl

/-! ### `ℤ[i] → ℚ[i] → ℂ`: star-preserving injective ring homomorphisms -/

/-- the inclusion `ℤ[i] → ℚ[i]` (`QI.ofGInt` of the model) -/
def GInt.toQI : GInt →+* QI where
  toFun := QI.ofGInt
  map_one' := by apply QI.ext' <;> simp [QI.ofGInt]
  map_mul' a b := by apply QI.ext' <;> simp [QI.ofGInt]
  map_zero' := by apply QI.ext' <;> simp [QI.ofGInt]
  map_add' a b := by apply QI.ext' <;> simp [QI.ofGInt]

theorem GInt.toQI_star (a : GInt) : GInt.toQI (star a) = star (GInt.toQI a) := by
  apply QI.ext' <;> simp [GInt.toQI, QI.ofGInt, star]

theorem GInt.toQI_injective : Function.Injective GInt.toQI := fun a b h => by
  have h1 := congrArg QI.re h
  have h2 := congrArg QI.im h
  simp only [GInt.toQI, QI.ofGInt, RingHom.coe_mk, MonoidHom.coe_mk, OneHom.coe_mk] at h1 h2
  exact GInt.ext' (by exact_mod_cast h1) (by exact_mod_cast h2)

theorem GInt.toQI_I : GInt.toQI GInt.I = QI.I := by apply QI.ext' <;> simp [GInt.toQI, QI.ofGInt, GInt.I, QI.I]

/-- the inclusion `ℚ[i] → ℂ` -/
def QI.toComplex : QI →+* ℂ where
  toFun z := ⟨z.re, z.im⟩
  map_one' := by apply Complex.ext <;> simp
  map_mul' a b := by apply Complex.ext <;> simp
  map_zero' := by apply Complex.ext <;> simp
  map_add' a b := by apply Complex.ext <;> simp

theorem QI.toComplex_star (a : QI) : QI.toComplex (star a) = star (QI.toComplex a) := by
  apply Complex.ext <;> simp [QI.toComplex, star]

theorem QI.toComplex_injective : Function.Injective QI.toComplex := fun a b h => by
  have h1 := congrArg Complex.re h
  have h2 := congrArg Complex.im h
  simp only [QI.toComplex, RingHom.coe_mk, MonoidHom.coe_mk, OneHom.coe_mk] at h1 h2
  exact QI.ext' (by exact_mod_cast h1) (by exact_mod_cast h2)

theorem QI.toComplex_I : QI.toComplex QI.I = Complex.I := by apply Complex.ext <;> simp [QI.toComplex, QI.I]

end Numqi
