/-
Link between C06 and C17: the output of the Dicke-basis reduction (`partial_trace_ABk_to_AB`, the code path of
`PureBosonicExt.forward`) is the reduction of a permutation-symmetric pure state, hence symmetric-extendible.
-/
import NumqiProofs.BoundaryLemmas
import NumqiProps.C17
import Mathlib.Data.List.FinRange

namespace Numqi.Boundary
open Matrix Finset Numqi.Dicke
open scoped ComplexOrder

variable {d : ℕ}

/-- flat index of a configuration of `k` copies: copy `i` has weight `d^i` (the last copy is the most significant digit) -/
def flat {k : ℕ} (f : Fin k → Fin d) : ℕ := (finFunctionFinEquiv f : Fin (d ^ k)).val

theorem flat_lt {k : ℕ} (f : Fin k → Fin d) : flat f < d ^ k := (finFunctionFinEquiv f).isLt

theorem flat_eq_sum {k : ℕ} (f : Fin k → Fin d) : flat f = ∑ i, (f i).val * d ^ (i : ℕ) := by
  unfold flat; rw [finFunctionFinEquiv_apply]

theorem flat_snoc {n : ℕ} (r : Fin n → Fin d) (b : Fin d) :
    flat (Fin.snoc r b : Fin (n + 1) → Fin d) = b.val * d ^ n + flat r := by
  rw [flat_eq_sum, flat_eq_sum, Fin.sum_univ_castSucc]
  simp only [Fin.snoc_castSucc, Fin.snoc_last, Fin.val_castSucc, Fin.val_last]
  ring

/-- the digit string of `flat f` (most significant first) is the reversed configuration -/
theorem digits_flat {k : ℕ} (f : Fin k → Fin d) : digits d k (flat f) = (List.ofFn fun i => (f i).val).reverse := by
  induction k with
  | zero => simp [digits_zero]
  | succ n ih =>
    have hf : f = Fin.snoc (Fin.init f) (f (Fin.last n)) := (Fin.snoc_init_self f).symm
    rw [hf, flat_snoc, digits_succ]
    have hlt := flat_lt (Fin.init f)
    have hpos : 0 < d ^ n := Nat.pos_of_ne_zero (by intro h; rw [h] at hlt; omega)
    have h1 : ((f (Fin.last n)).val * d ^ n + flat (Fin.init f)) / d ^ n = (f (Fin.last n)).val := by
      rw [Nat.add_comm, Nat.add_mul_div_right _ _ hpos, Nat.div_eq_of_lt hlt, Nat.zero_add]
    have h2 : ((f (Fin.last n)).val * d ^ n + flat (Fin.init f)) % d ^ n = flat (Fin.init f) := by
      rw [Nat.add_comm, Nat.add_mul_mod_self_right, Nat.mod_eq_of_lt hlt]
    rw [h1, h2, ih, List.ofFn_succ']
    simp [Fin.init]


open Numqi.C17

/-- the amplitude of a Dicke vector only depends on the configuration up to permutations of the copies -/
theorem amp_flat_perm {k : ℕ} (a : List ℕ) (f : Fin k → Fin d) (π : Equiv.Perm (Fin k)) :
    amp d k a (flat (f ∘ π)) = amp d k a (flat f) := by
  unfold amp
  have hp : (digits d k (flat (f ∘ π))).Perm (digits d k (flat f)) := by
    rw [digits_flat, digits_flat]
    refine (List.reverse_perm _).trans (List.Perm.trans ?_ (List.reverse_perm _).symm)
    exact π.ofFn_comp_perm (fun i => (f i).val)
  rw [occ_perm d hp]

/-- the vector of `A ⊗ B^{⊗(n+1)}` with Dicke coordinates `ψ` (C17 `embed`), indexed by configurations -/
noncomputable def dickeState (dA n : ℕ) (ψ : ℕ → ℕ → ℂ) : Fin dA × (Fin (n + 1) → Fin d) → ℂ :=
  fun p => embed d (n + 1) ψ p.1.val (flat p.2)

theorem dickeState_symm (dA n : ℕ) (ψ : ℕ → ℕ → ℂ) (π : Equiv.Perm (Fin (n + 1))) (p : Fin dA × (Fin (n + 1) → Fin d)) :
    dickeState dA n ψ (p.1, p.2 ∘ π) = dickeState dA n ψ p := by
  unfold dickeState embed
  simp only [amp_flat_perm]

/-- the explicit reduction of C17 is `reduceLast` of the pure symmetric state -/
theorem reduceLast_dickeState (dA n : ℕ) (ψ : ℕ → ℕ → ℂ) (p q : Fin dA × Fin d) :
    reduceLast (vecMulVec (dickeState dA n ψ) (star (dickeState dA n ψ))) p q
      = explicitAB d n ψ p.1.val p.2.val q.1.val q.2.val := by
  unfold reduceLast explicitAB
  simp only [vecMulVec_apply, Pi.star_apply, dickeState, flat_snoc]
  rw [← Equiv.sum_comp (finFunctionFinEquiv (m := d) (n := n)).symm, Finset.sum_range]
  refine Finset.sum_congr rfl fun y _ => ?_
  have : flat ((finFunctionFinEquiv (m := d) (n := n)).symm y) = y.val := by
    unfold flat; rw [Equiv.apply_symm_apply]
  rw [this]
  rfl

/-- **the output of the Dicke-basis reduction is symmetric-extendible**: for every coefficient matrix `ψ` (the parameters of
`PureBosonicExt` with `kext = n+1`), the matrix assembled by `partial_trace_ABk_to_AB` from the index table (C17's model
`Dicke.assembleAB`, proved equal to the explicit reduction by `dicke_reduction_eq`) has a symmetric extension to `n+1` copies. -/
theorem assembleAB_isSymExt (dA n : ℕ) (hd : 2 ≤ d) (ψ : ℕ → ℕ → ℂ) :
    IsSymExt n
      (fun p q : Fin dA × Fin d =>
        @Dicke.assembleAB ℂ _ _ _ ⟨starRingEnd ℂ⟩ d (tableC (n + 1) d) ψ (p.1.val * d + p.2.val) (q.1.val * d + q.2.val))
      (vecMulVec (dickeState dA n ψ) (star (dickeState dA n ψ))) := by
  refine ⟨posSemidef_vecMulVec_self_star _, ?_, ?_⟩
  · intro π p q
    simp only [vecMulVec_apply, Pi.star_apply]
    rw [dickeState_symm dA n ψ π p, dickeState_symm dA n ψ π q]
  · intro p q
    have h1 := dicke_reduction_eq d n hd ψ p.1.val q.1.val p.2.val q.2.val p.2.isLt q.2.isLt
    have h2 := reduceLast_dickeState dA n ψ p q
    unfold reduceLast at h2
    rw [h2, ← h1]

end Numqi.Boundary
