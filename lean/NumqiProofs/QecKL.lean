/-
C19: from the Boolean obligations to the vector-level statements:
stabilizer generators fix the code words, code words are orthogonal with norm `2^h`,
`klCheck ⇒` Knill–Laflamme on the vectors, `listedCheck ⇒` listed strings fix the code words,
`stabCircImplCheck ⇒` the stabilizer circuits are the listed operators.
-/
import NumqiProofs.QecPauliAct

namespace Numqi.Qec
variable {R : Type} [CommRing R]

/-! ### flat index ↔ position -/

theorem posOfIdx_lt (n idx : Nat) (h : idx < 2 ^ n) : posOfIdx n idx < 2 ^ n := by
  induction n generalizing idx with
  | zero => simp [posOfIdx]
  | succ n ih =>
    rw [posOfIdx]
    have h1 := ih (idx % 2 ^ n) (Nat.mod_lt _ (by positivity))
    have h2 : idx / 2 ^ n < 2 := by
      rw [Nat.div_lt_iff_lt_mul (by positivity)]; rw [pow_succ] at h; omega
    rw [pow_succ]; omega

theorem testBit_two_mul_add (m b q : Nat) (hb : b < 2) :
    (2 * m + b).testBit (q + 1) = m.testBit q := by
  rw [Nat.testBit_succ]
  congr 1; omega

theorem testBit_posOfIdx (n idx q : Nat) (h : idx < 2 ^ n) (hq : q < n) :
    (posOfIdx n idx).testBit q = idx.testBit (n - 1 - q) := by
  induction n generalizing idx q with
  | zero => omega
  | succ n ih =>
    rw [posOfIdx]
    have h2 : idx / 2 ^ n < 2 := by
      rw [Nat.div_lt_iff_lt_mul (by positivity)]; rw [pow_succ] at h; omega
    cases q with
    | zero =>
      simp only [Nat.add_sub_cancel, Nat.sub_zero]
      rw [Nat.testBit_zero, Nat.testBit_eq_decide_div_mod_eq]
      have : (2 * posOfIdx n (idx % 2 ^ n) + idx / 2 ^ n) % 2 = idx / 2 ^ n % 2 := by omega
      rw [this]
    | succ q =>
      rw [testBit_two_mul_add _ _ _ h2, ih (idx % 2 ^ n) q (Nat.mod_lt _ (by positivity)) (by omega)]
      rw [Nat.testBit_mod_two_pow]
      have : n - 1 - q < n := by omega
      simp only [this, decide_true, Bool.true_and]
      congr 1; omega

theorem posOfIdx_inj (n a b : Nat) (ha : a < 2 ^ n) (hb : b < 2 ^ n) (h : posOfIdx n a = posOfIdx n b) : a = b := by
  apply Nat.eq_of_testBit_eq
  intro j
  by_cases hj : j < n
  · have : (posOfIdx n a).testBit (n - 1 - j) = (posOfIdx n b).testBit (n - 1 - j) := by rw [h]
    rw [testBit_posOfIdx n a _ ha (by omega), testBit_posOfIdx n b _ hb (by omega)] at this
    have e : n - 1 - (n - 1 - j) = j := by omega
    rwa [e] at this
  · have h1 : a < 2 ^ j := lt_of_lt_of_le ha (Nat.pow_le_pow_right (by norm_num) (by omega))
    have h2 : b < 2 ^ j := lt_of_lt_of_le hb (Nat.pow_le_pow_right (by norm_num) (by omega))
    rw [Nat.testBit_lt_two_pow h1, Nat.testBit_lt_two_pow h2]

/-- the qubits `j < n - k` are `0` in the basis states `|a⟩`, `a < 2^k` -/
theorem posOfIdx_ancilla (n k a j : Nat) (hk : k ≤ n) (ha : a < 2 ^ k) (hj : j < n - k) :
    (posOfIdx n a).testBit j = false := by
  have ha' : a < 2 ^ n := lt_of_lt_of_le ha (Nat.pow_le_pow_right (by norm_num) hk)
  rw [testBit_posOfIdx n a j ha' (by omega)]
  exact Nat.testBit_lt_two_pow (lt_of_lt_of_le ha (Nat.pow_le_pow_right (by norm_num) (by omega)))

/-! ### basis vectors -/

theorem pauliAct_Z_basis {I : R} (j p : Nat) (hj : j < 32) (hp : p.testBit j = false) :
    pauliAct I ⟨0, 0, bit j⟩ (basisVec p) = (basisVec p : Nat → R) := by
  funext i
  simp only [pauliAct, basisVec, Nat.xor_zero, Nat.zero_add]
  by_cases h : i = p
  · subst h
    rw [par_bit_and _ hj, hp]; simp [ipow]
  · simp [h]

variable [StarRing R]

theorem ip_basis (n p p' : Nat) (hp : p < 2 ^ n) :
    ip n (basisVec p) (basisVec p' : Nat → R) = if p = p' then 1 else 0 := by
  unfold ip basisVec
  by_cases h : p = p'
  · subst h
    rw [Finset.sum_eq_single p]
    · simp
    · intro i _ hi; simp [hi]
    · intro hn; exact absurd (Finset.mem_range.2 hp) hn
  · simp only [h, if_false]
    apply Finset.sum_eq_zero
    intro i _
    by_cases h1 : i = p
    · have : ¬ (i = p') := by rw [h1]; exact h
      simp [this]
    · simp [h1]

/-! ### `allSome` -/

theorem allSome_mem {α : Type} : ∀ (l : List (Option α)) (r : List α), allSome l = some r → ∀ x ∈ r, some x ∈ l
  | [], r, h, x, hx => by simp only [allSome, Option.some.injEq] at h; subst h; simp at hx
  | none :: l, r, h, x, hx => by simp [allSome] at h
  | some a :: l, r, h, x, hx => by
    simp only [allSome] at h
    cases h1 : allSome l with
    | none => simp [h1] at h
    | some r1 =>
      simp only [h1, Option.some.injEq] at h
      subst h
      rcases List.mem_cons.1 hx with rfl | hx'
      · simp
      · exact List.mem_cons_of_mem _ (allSome_mem l r1 h1 x hx')

/-! ### the generators fix the code words -/

section main
variable {I : R} (hI : I * I = -1)
include hI

omit [StarRing R] in
theorem gens_fix (c : Code) (hs : shapeCheck c = true) (gs : List MP) (hg : gens c = some gs)
    (g : MP) (hgm : g ∈ gs) (a : Nat) (ha : a < c.K) :
    pauliAct I g (codeword I c a) = codeword I c a := by
  simp only [shapeCheck, Bool.and_eq_true, decide_eq_true_eq, beq_iff_eq] at hs
  obtain ⟨⟨⟨⟨hgo, hK⟩, hk⟩, hn⟩, _⟩ := hs
  have hm := allSome_mem _ _ hg g hgm
  rw [List.mem_map] at hm
  obtain ⟨j, hj, hc⟩ := hm
  rw [List.mem_range] at hj
  have hfix := conjCirc_sound hI hn c.encode hgo ⟨0, 0, bit j⟩ g hc (basisVec (posOfIdx c.n a))
  unfold codeword
  rw [← hfix, pauliAct_Z_basis j _ (by omega)]
  exact posOfIdx_ancilla c.n c.logK a j hk (by rw [hK]; exact ha) hj

omit [StarRing R] in
/-- every product of generators fixes whatever the generators fix -/
theorem span_fix (gs : List MP) (v : Nat → R) (h : ∀ g ∈ gs, pauliAct I g v = v) :
    ∀ s ∈ span gs, pauliAct I s v = v := by
  induction gs with
  | nil => intro s hs; simp only [span, List.mem_singleton] at hs; subst hs; exact pauliAct_one v
  | cons g gs ih =>
    intro s hs
    simp only [span, List.mem_append, List.mem_map] at hs
    have ih' := ih (fun g' hg' => h g' (List.mem_cons_of_mem _ hg'))
    rcases hs with hs | ⟨s', hs', rfl⟩
    · exact ih' s hs
    · rw [pauliAct_mul hI, ih' s' hs', h g (List.mem_cons_self ..)]

variable (hst : star I = -I) (h2 : ∀ a b : R, 2 * a = 2 * b → a = b)
include hst h2

/-- **code words are orthogonal, each of squared norm `2^h`** (`h` = number of Hadamards):
the true vectors `(1/√2)^h · codeword` are orthonormal. -/
theorem codeword_ortho (c : Code) (hs : shapeCheck c = true) (a b : Nat) (ha : a < c.K) (hb : b < c.K) :
    ip c.n (codeword I c a) (codeword I c b) = if a = b then 2 ^ countH c.encode else 0 := by
  simp only [shapeCheck, Bool.and_eq_true, decide_eq_true_eq, beq_iff_eq] at hs
  obtain ⟨⟨⟨⟨hgo, hK⟩, hk⟩, hn⟩, _⟩ := hs
  have hKn : c.K ≤ 2 ^ c.n := by rw [← hK]; exact Nat.pow_le_pow_right (by norm_num) hk
  unfold codeword
  rw [ip_run hI hst h2 c.encode hgo, ip_basis _ _ _ (posOfIdx_lt _ _ (by omega))]
  by_cases h : a = b
  · subst h; simp
  · have : ¬ (posOfIdx c.n a = posOfIdx c.n b) := fun e => h (posOfIdx_inj c.n a b (by omega) (by omega) e)
    simp [h, this]

/-- an error that anticommutes with an operator fixing both code words has vanishing matrix element -/
theorem ip_acomm_zero {n : Nat} (g e : MP) (hgx : g.x < 2 ^ n) (hac : MP.acomm g e = true) (u v : Nat → R)
    (hu : pauliAct I g u = u) (hv : pauliAct I g v = v) :
    ip n u (pauliAct I e v) = 0 := by
  have h1 : ip n u (pauliAct I e v) = ip n (pauliAct I g u) (pauliAct I g (pauliAct I e v)) := by
    rw [ip_pauliAct hI hst g hgx]
  rw [hu, pauliAct_comm hI g e, hac] at h1
  simp only [if_true, hv] at h1
  have h3 : ip n u (fun i => -1 * pauliAct I e v i) = -ip n u (pauliAct I e v) := by
    rw [ip_smul_right]; ring
  rw [h3] at h1
  have : 2 * ip n u (pauliAct I e v) = 2 * 0 := by
    rw [mul_zero, two_mul]; nth_rewrite 1 [h1]; ring
  exact h2 _ _ this

/-- **Knill–Laflamme on the vectors**: `klCheck` implies that for every error `E` of the model of
`make_error_list` there is a scalar `κ_E` with `⟨c_a|E|c_b⟩ = κ_E δ_ab` for all code words. -/
theorem kl_of_klCheck (c : Code) (h : klCheck c = true) :
    ∀ e ∈ errorList c.n c.d, ∃ κ : R, ∀ a < c.K, ∀ b < c.K,
      ip c.n (codeword I c a) (pauliAct I (MP.ofSparse e) (codeword I c b)) = if a = b then κ else 0 := by
  unfold klCheck at h
  rw [Bool.and_eq_true] at h
  obtain ⟨hs, h⟩ := h
  cases hg : gens c with
  | none => simp [hg] at h
  | some gs =>
    simp only [hg, MP.forceList_eq, Bool.and_eq_true, List.all_eq_true, decide_eq_true_eq] at h
    obtain ⟨hbound, hall⟩ := h
    intro e he
    have hone := hall e he
    simp only [klOne, MP.force_eq, Bool.or_eq_true, List.any_eq_true, Bool.and_eq_true, beq_iff_eq] at hone
    have hfix : ∀ g ∈ gs, ∀ a < c.K, pauliAct I g (codeword I c a) = codeword I c a :=
      fun g hgm a ha => gens_fix hI c hs gs hg g hgm a ha
    rcases hone with ⟨g, hgm, hac⟩ | ⟨s, hsm, hsx, hsz⟩
    · refine ⟨0, fun a ha b hb => ?_⟩
      rw [ip_acomm_zero hI hst h2 g _ (hbound g hgm) hac _ _ (hfix g hgm a ha) (hfix g hgm b hb)]
      simp
    · -- E = I^(k_E) X^x Z^z,  s = I^(k_s) X^x Z^z fixes the code words
      set E := MP.ofSparse e with hE
      refine ⟨ipow I (E.k + 3 * s.k) * 2 ^ countH c.encode, fun a ha b hb => ?_⟩
      have hsb := span_fix hI gs (codeword I c b) (fun g hgm => hfix g hgm b hb) s hsm
      have key : ∀ i, pauliAct I E (codeword I c b) i = ipow I (E.k + 3 * s.k) * codeword I c b i := by
        intro i
        have e1 := pauliAct_phase (I := I) E (codeword I c b) i
        have e2 := pauliAct_phase (I := I) s (codeword I c b) i
        rw [hsb, hsx, hsz] at e2
        rw [e1, ipow_add, mul_assoc]
        congr 1
        -- ⟨0,x,z⟩ v = I^(3 k_s) v  because  I^(k_s) · ⟨0,x,z⟩ v = v
        have h4 : ipow I (3 * s.k) * ipow I s.k = 1 := by
          rw [← ipow_add]
          have : ipow I (3 * s.k + s.k) = ipow I 0 := ipow_congr hI (by omega)
          rw [this]; rfl
        calc pauliAct I ⟨0, E.x, E.z⟩ (codeword I c b) i
            = (ipow I (3 * s.k) * ipow I s.k) * pauliAct I ⟨0, E.x, E.z⟩ (codeword I c b) i := by rw [h4, one_mul]
          _ = ipow I (3 * s.k) * (ipow I s.k * pauliAct I ⟨0, E.x, E.z⟩ (codeword I c b) i) := by ring
          _ = _ := by rw [← e2]
      have : pauliAct I E (codeword I c b) = fun i => ipow I (E.k + 3 * s.k) * codeword I c b i := funext key
      rw [this, ip_smul_right, codeword_ortho hI hst h2 c hs a b ha hb]
      split <;> simp

omit hst h2 [StarRing R] in
/-- **listed stabilizers fix every code word**: `listedCheck` implies `S c_a = c_a` for every listed
Pauli string `S` (sign `+1`) and every code word. -/
theorem listed_fix_of_listedCheck (c : Code) (h : listedCheck c = true) :
    ∀ l ∈ c.listed, ∀ a < c.K, pauliAct I (MP.ofSyms l) (codeword I c a) = codeword I c a := by
  unfold listedCheck at h
  simp only [Bool.and_eq_true] at h
  obtain ⟨⟨hs, _⟩, h⟩ := h
  cases hg : gens c with
  | none => simp [hg] at h
  | some gs =>
    simp only [hg, MP.forceList_eq, MP.force_eq, List.all_eq_true, Bool.and_eq_true, List.any_eq_true, beq_iff_eq] at h
    intro l hl a ha
    obtain ⟨_, s, hsm, hsp⟩ := h l hl
    rw [← hsp]
    exact span_fix hI gs _ (fun g hgm => gens_fix hI c hs gs hg g hgm a ha) s hsm

omit hI hst h2 [StarRing R] in
theorem ofSparse_single (q : Nat) :
    MP.ofSparse [(q, 1)] = ⟨0, bit q, 0⟩ ∧ MP.ofSparse [(q, 2)] = ⟨1, bit q, bit q⟩ ∧ MP.ofSparse [(q, 3)] = ⟨0, 0, bit q⟩ := by
  simp [MP.ofSparse, MP.one]

omit hst h2 [StarRing R] in
/-- a circuit of X/Y/Z gates acts as the operator computed by `circPauli` -/
theorem run_circPauli (n : Nat) (hn : n ≤ 32) (gl : List Gate) (p : MP) (h : circPauli n gl = some p) (v : Nat → R) :
    run I gl v = pauliAct I p v := by
  induction gl generalizing p v with
  | nil => simp only [circPauli, Option.some.injEq] at h; subst h; rw [pauliAct_one]; rfl
  | cons g gs ih =>
    have h3 : ipow I 3 = -I := ipow_three hI
    simp only [circPauli] at h
    cases hr : circPauli n gs with
    | none => simp only [hr] at h; split at h <;> simp_all
    | some r =>
      simp only [hr] at h
      simp only [run]
      rw [ih r hr]
      cases g with
      | x q =>
        by_cases hq : q < n
        · simp only [hq, if_true, Option.some.injEq] at h
          subst h
          rw [pauliAct_mul hI]
          congr 1
          funext i
          simp [applyGate, pauliAct, (ofSparse_single q).1, fl, ipow]
        · simp [hq] at h
      | z q =>
        by_cases hq : q < n
        · simp only [hq, if_true, Option.some.injEq] at h
          subst h
          rw [pauliAct_mul hI]
          congr 1
          funext i
          have hq32 : q < 32 := by omega
          have hp : par (bit q &&& i) = i.testBit q := par_bit_and i hq32
          simp only [applyGate, pauliAct, (ofSparse_single q).2.2, tb, Nat.xor_zero, Nat.zero_add, hp]
          rcases Bool.eq_false_or_eq_true (i.testBit q) with h1 | h1 <;> simp [h1, ipow, hI]
        · simp [hq] at h
      | y q =>
        by_cases hq : q < n
        · simp only [hq, if_true, Option.some.injEq] at h
          subst h
          rw [pauliAct_mul hI]
          congr 1
          funext i
          have hq32 : q < 32 := by omega
          have hp : par (bit q &&& (i ^^^ bit q)) = !i.testBit q := by
            rw [par_bit_and _ hq32, testBit_fl]; simp
          simp only [applyGate, pauliAct, (ofSparse_single q).2.1, tb, fl, hp]
          rcases Bool.eq_false_or_eq_true (i.testBit q) with h1 | h1 <;> simp [h1, ipow_one, h3]
        · simp [hq] at h
      | h q => simp at h
      | s q => simp at h
      | cx c t => simp at h
      | cy c t => simp at h
      | cz c t => simp at h
      | unknown => simp at h

omit hst h2 [StarRing R] in
/-- **the shipped stabilizer circuits implement exactly the listed Pauli strings**, as operators on
all vectors -/
theorem stabCirc_of_check (c : Code) (h : stabCircImplCheck c = true) :
    c.stabCircs.length = c.listed.length ∧
    ∀ cl ∈ c.stabCircs.zip c.listed, ∀ v : Nat → R, run I cl.1 v = pauliAct I (MP.ofSyms cl.2) v := by
  unfold stabCircImplCheck at h
  simp only [Bool.and_eq_true, decide_eq_true_eq, beq_iff_eq, List.all_eq_true] at h
  obtain ⟨⟨⟨hn, _⟩, hlen⟩, hall⟩ := h
  refine ⟨hlen, fun cl hcl v => ?_⟩
  have := hall cl hcl
  cases hp : circPauli c.n cl.1 with
  | none => simp [hp] at this
  | some p =>
    simp only [hp, beq_iff_eq] at this
    rw [run_circPauli hI c.n hn cl.1 p hp, this.2]

end main
end Numqi.Qec
