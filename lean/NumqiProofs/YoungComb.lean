/-
C14 helper (tableaux, part 1): the position enumerators of `_get_bounded_combination` / `itertools.combinations`
list exactly the strictly increasing position tuples inside the bounds, each once; counting lemmas for sorted lists.
-/
import Mathlib.Tactic
import Mathlib.Data.List.Forall2
import Mathlib.Data.List.Sort
import NumqiModel.Young

namespace Numqi.Young

/-- strictly increasing -/
abbrev SInc (l : List Nat) : Prop := l.Pairwise (· < ·)

/-- `x` lies in the half-open bound `b = (lo, hi)` -/
def InB (b : Nat × Nat) (x : Nat) : Prop := b.1 ≤ x ∧ x < b.2

theorem mem_pyRange {a b x : Nat} : x ∈ pyRange a b ↔ a ≤ x ∧ x < b := by
  simp only [pyRange, List.mem_range'_1]; omega

theorem nodup_pyRange (a b : Nat) : (pyRange a b).Nodup := List.nodup_range'

theorem forall₂_concat {α β : Type} {R : α → β → Prop} {l₁ : List α} {l₂ : List β} {a : α} {b : β} :
    List.Forall₂ R (l₁ ++ [a]) (l₂ ++ [b]) ↔ List.Forall₂ R l₁ l₂ ∧ R a b := by
  rw [← List.forall₂_reverse_iff]
  simp only [List.reverse_append, List.reverse_singleton, List.singleton_append, List.forall₂_cons,
    List.forall₂_reverse_iff]
  tauto

theorem sinc_cons {a : Nat} {l : List Nat} : SInc (a :: l) ↔ (∀ u ∈ l, a < u) ∧ SInc l := List.pairwise_cons

theorem sinc_map {f : Nat → Nat} {l : List Nat} : SInc (l.map f) ↔ l.Pairwise (fun a b => f a < f b) := List.pairwise_map

theorem sinc_concat {l : List Nat} {y : Nat} : SInc (l ++ [y]) ↔ SInc l ∧ ∀ u ∈ l, u < y := by
  simp [SInc, List.pairwise_append]

/-- for a non-empty strictly increasing list, everything is below `y` iff the last entry is -/
theorem sinc_last_lt {l : List Nat} (hl : SInc l) (hne : l ≠ []) {y : Nat} :
    (∀ u ∈ l, u < y) ↔ l.getLastD 0 < y := by
  obtain ⟨init, a, rfl⟩ : ∃ init a, l = init ++ [a] := ⟨l.dropLast, l.getLast hne, (List.dropLast_append_getLast hne).symm⟩
  rw [sinc_concat] at hl
  simp only [List.getLastD_concat, List.mem_append, List.mem_singleton]
  constructor
  · intro h; exact h a (Or.inr rfl)
  · intro h u hu
    rcases hu with hu | rfl
    · exact lt_trans (hl.2 u hu) h
    · exact h

/-- one step of the nested generators -/
def bcStep (acc : List (List Nat)) (b : Nat × Nat) : List (List Nat) :=
  acc.flatMap fun x => (pyRange (max (x.getLastD 0 + 1) b.1) b.2).map fun y => x ++ [y]

theorem boundedComb_cons (b0 : Nat × Nat) (rest : List (Nat × Nat)) :
    boundedComb (b0 :: rest) = rest.foldl bcStep ((pyRange b0.1 b0.2).map fun x => [x]) := rfl

theorem mem_bcStep {pre : List (Nat × Nat)} (hpre : pre ≠ []) {acc : List (List Nat)}
    (hacc : ∀ x, x ∈ acc ↔ List.Forall₂ InB pre x ∧ SInc x) (b : Nat × Nat) (z : List Nat) :
    z ∈ bcStep acc b ↔ List.Forall₂ InB (pre ++ [b]) z ∧ SInc z := by
  simp only [bcStep, List.mem_flatMap, List.mem_map, mem_pyRange]
  constructor
  · rintro ⟨x, hx, y, ⟨hy1, hy2⟩, rfl⟩
    obtain ⟨hf, hs⟩ := (hacc x).1 hx
    have hxne : x ≠ [] := by
      intro h; subst h; have := hf.length_eq; simp at this; exact hpre this
    refine ⟨forall₂_concat.2 ⟨hf, ⟨by omega, hy2⟩⟩, sinc_concat.2 ⟨hs, (sinc_last_lt hs hxne).2 (by omega)⟩⟩
  · rintro ⟨hf, hs⟩
    have hzne : z ≠ [] := by
      intro h; subst h; have := hf.length_eq; simp at this
    obtain ⟨x, y, rfl⟩ : ∃ x y, z = x ++ [y] := ⟨z.dropLast, z.getLast hzne, (List.dropLast_append_getLast hzne).symm⟩
    obtain ⟨hf1, hf2⟩ := forall₂_concat.1 hf
    obtain ⟨hs1, hs2⟩ := sinc_concat.1 hs
    have hxne : x ≠ [] := by
      intro h; subst h; have := hf1.length_eq; simp at this; exact hpre this
    have := (sinc_last_lt hs1 hxne).1 hs2
    exact ⟨x, (hacc x).2 ⟨hf1, hs1⟩, y, ⟨by have := hf2.1; omega, hf2.2⟩, rfl⟩

theorem nodup_bcStep {acc : List (List Nat)} (hnd : acc.Nodup) (b : Nat × Nat) : (bcStep acc b).Nodup := by
  unfold bcStep
  rw [List.nodup_flatMap]
  refine ⟨fun x _ => (nodup_pyRange _ _).map (fun a c h => by simpa using h), ?_⟩
  refine hnd.imp ?_
  intro x x' hxx
  simp only [Function.onFun]
  rw [List.disjoint_left]
  intro z hz hz'
  simp only [List.mem_map] at hz hz'
  obtain ⟨y, _, rfl⟩ := hz
  obtain ⟨y', _, h⟩ := hz'
  have := List.append_inj_left' h rfl
  exact hxx this.symm

theorem foldl_bcStep_spec : ∀ (bs pre : List (Nat × Nat)) (acc : List (List Nat)), pre ≠ [] → acc.Nodup →
    (∀ x, x ∈ acc ↔ List.Forall₂ InB pre x ∧ SInc x) →
    (bs.foldl bcStep acc).Nodup ∧ ∀ x, x ∈ bs.foldl bcStep acc ↔ List.Forall₂ InB (pre ++ bs) x ∧ SInc x := by
  intro bs
  induction bs with
  | nil => intro pre acc _ hnd hacc; simpa using ⟨hnd, hacc⟩
  | cons b bs ih =>
    intro pre acc hpre hnd hacc
    have := ih (pre ++ [b]) (bcStep acc b) (by simp) (nodup_bcStep hnd b) (mem_bcStep hpre hacc b)
    simpa [List.foldl_cons, List.append_assoc] using this

/-- **`_get_bounded_combination`**: exactly the strictly increasing tuples with `bound[i][0] ≤ xy[i] < bound[i][1]`, each once -/
theorem boundedComb_spec (b0 : Nat × Nat) (rest : List (Nat × Nat)) :
    (boundedComb (b0 :: rest)).Nodup ∧
      ∀ xy, xy ∈ boundedComb (b0 :: rest) ↔ List.Forall₂ InB (b0 :: rest) xy ∧ SInc xy := by
  rw [boundedComb_cons]
  have := foldl_bcStep_spec rest [b0] ((pyRange b0.1 b0.2).map fun x => [x]) (by simp)
    ((nodup_pyRange _ _).map (fun a c h => by simpa using h)) (by
      intro x
      simp only [List.mem_map, mem_pyRange]
      constructor
      · rintro ⟨y, hy, rfl⟩; exact ⟨List.Forall₂.cons hy List.Forall₂.nil, List.pairwise_singleton _ _⟩
      · rintro ⟨hf, _⟩
        cases hf with
        | cons h1 h2 => cases h2; exact ⟨_, h1, rfl⟩)
  simpa using this

/-- **`itertools.combinations(range(m), k)`** (positions `≥ start`): exactly the strictly increasing `k`-tuples, each once -/
theorem combPos_spec : ∀ (k start m : Nat),
    (combPos k start m).Nodup ∧
      ∀ xy, xy ∈ combPos k start m ↔ xy.length = k ∧ SInc xy ∧ ∀ x ∈ xy, start ≤ x ∧ x < m := by
  intro k
  induction k with
  | zero =>
    intro start m
    refine ⟨by simp [combPos], fun xy => ?_⟩
    simp only [combPos, List.mem_singleton]
    constructor
    · rintro rfl; simp
    · rintro ⟨h, _⟩; exact List.length_eq_zero_iff.1 h
  | succ k ih =>
    intro start m
    constructor
    · simp only [combPos]
      rw [List.nodup_flatMap]
      refine ⟨fun i _ => ((ih (i + 1) m).1).map (fun a c h => by simpa using h), ?_⟩
      refine (nodup_pyRange start m).imp ?_
      intro i j hij
      simp only [Function.onFun]
      rw [List.disjoint_left]
      intro z hz hz'
      simp only [List.mem_map] at hz hz'
      obtain ⟨a, _, rfl⟩ := hz
      obtain ⟨b, _, hb⟩ := hz'
      simp at hb
      exact hij hb.1.symm
    · intro xy
      simp only [combPos, List.mem_flatMap, List.mem_map, mem_pyRange]
      constructor
      · rintro ⟨i, ⟨hi1, hi2⟩, x, hx, rfl⟩
        obtain ⟨h1, h2, h3⟩ := ((ih (i + 1) m).2 x).1 hx
        refine ⟨by simp [h1], List.pairwise_cons.2 ⟨fun u hu => by have := (h3 u hu).1; omega, h2⟩, ?_⟩
        intro u hu
        rcases List.mem_cons.1 hu with rfl | hu
        · exact ⟨hi1, hi2⟩
        · have := h3 u hu; omega
      · rintro ⟨h1, h2, h3⟩
        cases xy with
        | nil => simp at h1
        | cons i x =>
          rw [sinc_cons] at h2
          refine ⟨i, h3 i List.mem_cons_self, x, ((ih (i + 1) m).2 x).2 ⟨by simpa using h1, h2.2, ?_⟩, rfl⟩
          intro u hu
          exact ⟨h2.1 u hu, (h3 u (List.mem_cons_of_mem _ hu)).2⟩

/-! ### counting below a value -/

/-- number of entries of `l` smaller than `v` (the position of `v` in a sorted `l`) -/
def cntLt (l : List Nat) (v : Nat) : Nat := l.countP (· < v)

theorem cntLt_cons (a : Nat) (l : List Nat) (v : Nat) : cntLt (a :: l) v = cntLt l v + if a < v then 1 else 0 := by
  simp [cntLt, List.countP_cons]

theorem cntLt_perm {l l' : List Nat} (h : l.Perm l') (v : Nat) : cntLt l v = cntLt l' v := h.countP_eq _

theorem cntLt_append (l l' : List Nat) (v : Nat) : cntLt (l ++ l') v = cntLt l v + cntLt l' v := by
  simp [cntLt]

theorem cntLt_le_length (l : List Nat) (v : Nat) : cntLt l v ≤ l.length := List.countP_le_length

theorem cntLt_mono (l : List Nat) {v w : Nat} (h : v ≤ w) : cntLt l v ≤ cntLt l w := by
  unfold cntLt
  exact List.countP_mono_left (fun x _ hx => by simp at hx ⊢; omega)

/-- a member `w` of the list that is below `v` is counted for `v` but not for itself -/
theorem cntLt_lt_of_mem {l : List Nat} {v w : Nat} (hw : w ∈ l) (h : w < v) : cntLt l w < cntLt l v := by
  induction l with
  | nil => simp at hw
  | cons a l ih =>
    rw [cntLt_cons, cntLt_cons]
    rcases List.mem_cons.1 hw with rfl | hw
    · have := cntLt_mono l (le_of_lt h)
      simp [h]; omega
    · have := ih hw
      by_cases h1 : a < w
      · have : a < v := by omega
        simp [*]
      · simp [h1]; omega

/-- **the comparison used for the lower bounds**: for `w` in the list and `v ≠ w`, `v < w ↔ #below v ≤ #below w` -/
theorem lt_iff_cntLt_le {l : List Nat} {v w : Nat} (hw : w ∈ l) (hne : v ≠ w) : v < w ↔ cntLt l v ≤ cntLt l w := by
  constructor
  · intro h; exact cntLt_mono l (le_of_lt h)
  · intro h
    by_contra hlt
    have : w < v := by omega
    have := cntLt_lt_of_mem hw this
    omega

/-- in a strictly increasing list the number of entries below the `j`-th is `j` -/
theorem cntLt_getElem : ∀ {l : List Nat}, SInc l → ∀ (j : Nat) (hj : j < l.length), cntLt l l[j] = j
  | [], _, j, hj => by simp at hj
  | a :: l, hl, 0, _ => by
    rw [sinc_cons] at hl
    simp only [List.getElem_cons_zero, cntLt_cons, lt_self_iff_false, if_false, add_zero]
    unfold cntLt
    rw [List.countP_eq_zero]
    intro x hx; have := hl.1 x hx; simp; omega
  | a :: l, hl, j + 1, hj => by
    rw [sinc_cons] at hl
    have hj' : j < l.length := by simpa using hj
    simp only [List.getElem_cons_succ, cntLt_cons]
    rw [cntLt_getElem hl.2 j hj']
    have := hl.1 _ (List.getElem_mem hj')
    simp [this]

theorem sinc_nodup {l : List Nat} (h : SInc l) : l.Nodup := h.imp (fun hab => Nat.ne_of_lt hab)

/-- two strictly increasing lists with the same entries are equal -/
theorem sinc_eq_of_perm {l l' : List Nat} (h : SInc l) (h' : SInc l') (hp : l.Perm l') : l = l' :=
  List.Perm.eq_of_pairwise' (r := (· < ·)) h h' hp

/-! ### `pick` / `unpicked`: choosing positions in a sorted list = choosing a sorted sub-row -/

theorem getD_eq_getElem' (l : List Nat) {i : Nat} (h : i < l.length) : l.getD i 0 = l[i] := by
  simp [List.getD_eq_getElem?_getD, List.getElem?_eq_getElem h]

theorem sinc_getElem_lt {l : List Nat} (hl : SInc l) {i j : Nat} (hij : i < j) (hj : j < l.length) :
    l[i]'(by omega) < l[j] := (List.pairwise_iff_getElem.1 hl) i j (by omega) hj hij

theorem mem_sinc_cnt {l : List Nat} (hl : SInc l) {v : Nat} (hv : v ∈ l) :
    ∃ h : cntLt l v < l.length, l[cntLt l v] = v := by
  obtain ⟨j, hj, rfl⟩ := List.getElem_of_mem hv
  have := cntLt_getElem hl j hj
  exact ⟨by omega, by simp [this]⟩

/-- the values that are not picked, in order -/
def restOf (np0 row : List Nat) : List Nat := np0.filter fun v => !row.contains v

theorem mem_restOf {np0 row : List Nat} {v : Nat} : v ∈ restOf np0 row ↔ v ∈ np0 ∧ v ∉ row := by
  simp [restOf]

theorem sinc_restOf {np0 : List Nat} (h : SInc np0) (row : List Nat) : SInc (restOf np0 row) :=
  List.Pairwise.filter _ h

theorem pick_spec {np0 xy : List Nat} (hnp : SInc np0) (hxy : SInc xy) (hlt : ∀ i ∈ xy, i < np0.length) :
    SInc (pick np0 xy) ∧ (∀ v ∈ pick np0 xy, v ∈ np0) ∧ (pick np0 xy).length = xy.length ∧
      (pick np0 xy).map (cntLt np0) = xy := by
  refine ⟨?_, ?_, by simp [pick], ?_⟩
  · unfold pick
    rw [sinc_map]
    refine (List.Pairwise.and_mem.1 hxy).imp ?_
    rintro i j ⟨hi, hj, hij⟩
    rw [getD_eq_getElem' _ (hlt i hi), getD_eq_getElem' _ (hlt j hj)]
    exact sinc_getElem_lt hnp hij (hlt j hj)
  · intro v hv
    simp only [pick, List.mem_map] at hv
    obtain ⟨i, hi, rfl⟩ := hv
    rw [getD_eq_getElem' _ (hlt i hi)]; exact List.getElem_mem _
  · unfold pick
    rw [List.map_map]
    conv_rhs => rw [← List.map_id xy]
    apply List.map_congr_left
    intro i hi
    simp only [Function.comp_apply, id_eq]
    rw [getD_eq_getElem' _ (hlt i hi)]
    exact cntLt_getElem hnp i (hlt i hi)

theorem row_as_pick {np0 row : List Nat} (hnp : SInc np0) (hrow : SInc row) (hsub : ∀ v ∈ row, v ∈ np0) :
    SInc (row.map (cntLt np0)) ∧ (∀ i ∈ row.map (cntLt np0), i < np0.length) ∧
      pick np0 (row.map (cntLt np0)) = row := by
  refine ⟨?_, ?_, ?_⟩
  · rw [sinc_map]
    refine (List.Pairwise.and_mem.1 hrow).imp ?_
    rintro v w ⟨hv, _, hvw⟩
    exact cntLt_lt_of_mem (hsub v hv) hvw
  · intro i hi
    simp only [List.mem_map] at hi
    obtain ⟨v, hv, rfl⟩ := hi
    exact (mem_sinc_cnt hnp (hsub v hv)).1
  · unfold pick
    rw [List.map_map]
    conv_rhs => rw [← List.map_id row]
    apply List.map_congr_left
    intro v hv
    obtain ⟨h1, h2⟩ := mem_sinc_cnt hnp (hsub v hv)
    simp only [Function.comp_apply, id_eq]
    rw [getD_eq_getElem' _ h1, h2]

theorem filter_eq_range (l : List Nat) (q : Nat → Bool) :
    l.filter q = ((List.range l.length).filter fun i => q (l.getD i 0)).map fun i => l.getD i 0 := by
  have hl : l = (List.range l.length).map fun i => l.getD i 0 := by
    apply List.ext_getElem
    · simp
    · intro i h1 h2
      simp [List.getD_eq_getElem?_getD, List.getElem?_eq_getElem h1]
  conv_lhs => rw [hl, List.filter_map]
  rfl

theorem unpicked_eq_restOf {np0 xy : List Nat} (hnp : SInc np0) (hlt : ∀ i ∈ xy, i < np0.length) :
    unpicked np0 xy = restOf np0 (pick np0 xy) := by
  unfold unpicked restOf
  rw [filter_eq_range np0]
  congr 1
  apply List.filter_congr
  intro i hi
  have hi' : i < np0.length := by simpa using hi
  congr 1
  rw [Bool.eq_iff_iff]
  simp only [List.contains_iff_mem, pick, List.mem_map]
  constructor
  · intro h; exact ⟨i, h, rfl⟩
  · rintro ⟨j, hj, hji⟩
    have hj' := hlt j hj
    rw [getD_eq_getElem' _ hj', getD_eq_getElem' _ hi'] at hji
    have := (List.Nodup.getElem_inj_iff (sinc_nodup hnp)).1 hji
    rwa [← this]

/-- the sorted list splits into the picked row and the rest -/
theorem perm_row_restOf {np0 row : List Nat} (hnp : SInc np0) (hrow : SInc row) (hsub : ∀ v ∈ row, v ∈ np0) :
    np0.Perm (row ++ restOf np0 row) := by
  have h1 : (np0.filter fun v => row.contains v) = row := by
    apply sinc_eq_of_perm (List.Pairwise.filter _ hnp) hrow
    rw [List.perm_ext_iff_of_nodup (sinc_nodup (List.Pairwise.filter _ hnp)) (sinc_nodup hrow)]
    intro v
    simp only [List.mem_filter, List.contains_iff_mem]
    exact ⟨fun h => h.2, fun h => ⟨hsub v h, h⟩⟩
  have := List.filter_append_perm (fun v => row.contains v) np0
  rw [h1] at this
  exact this.symm

end Numqi.Young
