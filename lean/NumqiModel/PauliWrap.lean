/-
Wrapper constructors and tables of `numqi/gate/_pauli.py` around the conversions of `NumqiModel/Pauli.lean`:
`PauliOperator.from_index / from_str / from_F2 / __len__ / __str__` (`_pauli.py:287-334`), `get_pauli_group` (`:37-63`) and the
`with_sign=False` paths of `pauli_index_to_F2` / `pauli_F2_to_index` (`:126-190`).  No Mathlib import.
-/
import NumqiModel.Pauli

namespace Numqi.Pauli
variable {n : Nat}

/-- `PauliOperator.from_index(index, num_qubit)`: `_pauli_index_int_to_str` asserts `0 ≤ index < 4^n` (`none`), sign `+1` -/
def fromIndex? (n : Nat) (i : Int) : Option (Pauli n) :=
  if 0 ≤ i ∧ i.toNat < 4 ^ n then some (ofIndex n i.toNat) else none

/-- `PauliOperator.from_str(pauli_str, sign)` -/
def fromStr (n : Nat) (syms : List Nat) (e : Nat) : Pauli n := ofStr n syms e

/-- `PauliOperator.from_F2(np0)` = `PauliOperator(np0)`: `__init__` asserts a 1-d array of even length `≥ 2`;
`num_qubit = len//2 − 1` (which is `0` for the two sign bits alone) -/
def fromF2? (l : List Bool) : Option (Σ n, Pauli n) :=
  if l.length % 2 = 0 ∧ 2 ≤ l.length then some ⟨l.length / 2 - 1, ofF2List (l.length / 2 - 1) l⟩ else none

/-- `PauliOperator.__len__` -/
def len (_ : Pauli n) : Nat := n

/-- the prefix `__str__` prints for `sign = i^e` -/
def signPrefix (e : Nat) : String :=
  match e % 4 with | 0 => "" | 1 => "i" | 2 => "-" | _ => "-i"

def symChar (s : Nat) : Char := "IXYZ".toList.getD s '?'

/-- `PauliOperator.__str__` / `__repr__` (`_pauli.py:311-317`): prefix, letters, `' [b0,b1,…]'` -/
def reprStr (p : Pauli n) : String :=
  signPrefix p.toStr.2 ++ String.ofList (p.toStr.1.map symChar) ++ " [" ++
    ",".intercalate (p.toF2List.map fun b => if b then "1" else "0") ++ "]"

/-- `get_pauli_group(n, kind='str')`: `itertools.product('IXYZ', repeat=n)` joined — entry `i` is the string of index `i` -/
def groupStr (n : Nat) : List (List Nat) := (List.range (4 ^ n)).map (indexToSyms n)

/-- `get_pauli_group(n, kind='str_to_index')`: the dict `{string: position}` in insertion order -/
def groupStrToIndex (n : Nat) : List (List Nat × Nat) := (groupStr n).zipIdx

/-- `get_pauli_group(n, kind='numpy')[i]`: Kronecker product of the factors of string `i` (no phase) — the matrix of `ofIndex n i` -/
def groupMatExp (n i : Nat) (b' b : Bits n) : Option Nat := (ofIndex n i).fullMatrixExp b' b

/-- `pauli_index_to_F2(index, n, with_sign=False)`: the F2 form without the two sign bits -/
def ofIndexNoSign? (n : Nat) (i : Int) : Option (List Bool) := (fromIndex? n i).map fun p => p.toF2List.drop 2

/-- `pauli_F2_to_index(np0, with_sign=False)` on the `2n` bits `x ++ z` -/
def toIndexNoSign (n : Nat) (l : List Bool) : Nat := (ofF2List n (false :: false :: l)).toIndex

end Numqi.Pauli
