/-
Model of `python/numqi/channel/_internal.py` (Kraus / Choi / super-operator representations).  No Mathlib import.

Arrays are functions on (flat, row-major) natural-number indices:

* Kraus set   `K s a i`   — `op[s, a, i]`, shape `(N, dim_out, dim_in)`
* Choi op     `C x y`     — shape `(dim_in*dim_out, dim_in*dim_out)`, `x = i*dim_out + a` (`(in,out,in,out)` after reshape)
* super-op    `S r c`     — shape `(dim_out*dim_out, dim_in*dim_in)`, `r = a*dim_out + b`, `c = i*dim_in + j`
* states      `ρ i j`

Every definition follows one source line (cited); the scalar type only needs `+`, `*`, `0` and `conj`.
-/
import NumqiModel.PartialTrace
import NumqiModel.Gellmann

namespace Numqi
namespace Channel

variable {α : Type} [Zero α] [Add α] [Mul α] [Conj α]

/-- `kraus_op_to_choi_op` (`_internal.py:34-44`): `tmp0 = op.transpose(0,2,1).reshape(N,-1)` has
`tmp0[s, i*dout + a] = op[s,a,i]`; `ret = tmp0.T @ tmp0.conj()`. -/
def krausToChoi (N dout : Nat) (K : Nat → Nat → Nat → α) (x y : Nat) : α :=
  sumRange N fun s => K s (x % dout) (x / dout) * conj (K s (y % dout) (y / dout))

/-- `kraus_op_to_super_op` (`_internal.py:47-49`): `sum(np.kron(x, x.conj()) for x in op)`;
`kron(A,B)[a*dout + b, i*din + j] = A[a,i]·B[b,j]`. -/
def krausToSuper (N din dout : Nat) (K : Nat → Nat → Nat → α) (r c : Nat) : α :=
  sumRange N fun s => K s (r / dout) (c / din) * conj (K s (r % dout) (c % din))

/-- `choi_op_to_super_op` (`_internal.py:64-70`):
`op.reshape(din,dout,din,dout).transpose(1,3,0,2).reshape(dout*dout, din*din)`, i.e. `S[(a,b),(i,j)] = C[(i,a),(j,b)]`. -/
def choiToSuper (din dout : Nat) (C : Nat → Nat → α) (r c : Nat) : α :=
  C ((c / din) * dout + r / dout) ((c % din) * dout + r % dout)

/-- `super_op_to_choi_op` (`_internal.py:73-81`):
`op.reshape(dout,dout,din,din).transpose(2,0,3,1).reshape(din*dout, din*dout)`, i.e. `C[(i,a),(j,b)] = S[(a,b),(i,j)]`. -/
def superToChoi (din dout : Nat) (S : Nat → Nat → α) (x y : Nat) : α :=
  S ((x % dout) * dout + y % dout) ((x / dout) * din + y / dout)

/-- `choi_op_to_kraus_op` (`_internal.py:52-61`) after the `eigh` call: `M = EVC[:,N0:]*sqrt(EVL[N0:])` (columns
`N0..`, `w = sqrt(EVL)`), `ret = M.reshape(din,dout,-1).transpose(2,1,0)`, i.e. `ret[s,a,i] = M[i*dout + a, s]`. -/
def choiToKraus (dout N0 : Nat) (V : Nat → Nat → α) (w : Nat → α) (s a i : Nat) : α :=
  V (i * dout + a) (N0 + s) * w (N0 + s)

/-- `N0 = (EVL < zero_eps).sum()` for integer eigenvalue lists (used by the driver; `zero_eps = 1e-10`, so `< eps` is `≤ 0`) -/
def cutCount (evl : List Int) : Nat := (evl.filter (· ≤ 0)).length

/-- `apply_kraus_op` (`_internal.py:92-94`): `sum(x @ rho @ x.T.conj() for x in op)` -/
def applyKraus (N din : Nat) (K : Nat → Nat → Nat → α) (ρ : Nat → Nat → α) (a b : Nat) : α :=
  sumRange N fun s => sumRange din fun i => sumRange din fun j => K s a i * ρ i j * conj (K s b j)

/-- `apply_choi_op` (`_internal.py:97-106`): `einsum(op.reshape(din,dout,din,dout), [0,1,2,3], rho, [0,2], [1,3])` -/
def applyChoi (din dout : Nat) (C : Nat → Nat → α) (ρ : Nat → Nat → α) (a b : Nat) : α :=
  sumRange din fun i => sumRange din fun j => C (i * dout + a) (j * dout + b) * ρ i j

/-- `apply_super_op` (`_internal.py:108-115`): `(op @ rho.reshape(-1)).reshape(dout, dout)` -/
def applySuper (din dout : Nat) (S : Nat → Nat → α) (ρ : Nat → Nat → α) (a b : Nat) : α :=
  sumRange (din * din) fun c => S (a * dout + b) c * ρ (c / din) (c % din)

/-- `hf_channel_to_choi_op` (`_internal.py:135-145`): the channel applied to the matrix units,
`ret[i,a,j,b] = hf0(E_ij)[a,b]`. -/
def choiOfMap [One α] (dout : Nat) (Φ : (Nat → Nat → α) → Nat → Nat → α) (x y : Nat) : α :=
  Φ (fun i j => if i = x / dout ∧ j = y / dout then 1 else 0) (x % dout) (y % dout)

/-- `hf_channel_to_kraus_op` (`_internal.py:119-132`) up to its call of `super_op_to_kraus_op`: the channel applied to the
matrix units, `np.stack(…, axis=2).reshape(-1, din·din)`: `S[a·dout+b, i·din+j] = hf_channel(E_ij)[a,b]`. -/
def superOfMap [One α] (din dout : Nat) (Φ : (Nat → Nat → α) → Nat → Nat → α) (r c : Nat) : α :=
  Φ (fun i j => if i = c / din ∧ j = c % din then 1 else 0) (r / dout) (r % dout)

/-- `Σ_s K_s† K_s` (must be the identity for a trace-preserving channel) -/
def krausGram (N dout : Nat) (K : Nat → Nat → Nat → α) (i j : Nat) : α :=
  sumRange N fun s => sumRange dout fun a => conj (K s a i) * K s a j

/-! ### built-in noise channels (`_internal.py:7-31`), with the two square roots as parameters
`c0 = sqrt(1-p)` (resp. `sqrt(1-3p/4)`), `c1 = sqrt(p)` (resp. `sqrt(p/4)`); `im` is the imaginary unit. -/

variable [One α] [Neg α]

/-- 2×2 matrix from its four entries -/
def mat2 (m00 m01 m10 m11 : α) (a i : Nat) : α :=
  match a, i with
  | 0, 0 => m00 | 0, 1 => m01 | 1, 0 => m10 | 1, 1 => m11 | _, _ => 0

/-- `hf_dephasing_kraus_op`: `[c0·I, c1·Z]` -/
def dephasingKraus (c0 c1 : α) (s a i : Nat) : α :=
  match s with
  | 0 => mat2 c0 0 0 c0 a i
  | 1 => mat2 c1 0 0 (-c1) a i
  | _ => 0

/-- `hf_depolarizing_kraus_op`: `[c0·I, c1·X, c1·Y, c1·Z]` -/
def depolarizingKraus (im c0 c1 : α) (s a i : Nat) : α :=
  match s with
  | 0 => mat2 c0 0 0 c0 a i
  | 1 => mat2 0 c1 c1 0 a i
  | 2 => mat2 0 (-(c1 * im)) (c1 * im) 0 a i
  | 3 => mat2 c1 0 0 (-c1) a i
  | _ => 0

/-- `hf_amplitude_damping_kraus_op`: `[[1,0],[0,c0]]`, `[[0,c1],[0,0]]` -/
def amplitudeDampingKraus (c0 c1 : α) (s a i : Nat) : α :=
  match s with
  | 0 => mat2 1 0 0 c0 a i
  | 1 => mat2 0 c1 0 0 a i
  | _ => 0

/-! ### `choi_op_to_bloch_map` (`_internal.py:148-157`)

`tmp0 = op.transpose(1,3,2,0).reshape(dout², din, din)`: `tmp0[(a,b)][j,i] = op[i,a,j,b]`;
`tmp1 = matrix_to_gellmann_basis(tmp0)` (`dout² × din²`);
`op_gm = matrix_to_gellmann_basis(tmp1.T.reshape(-1,dout,dout)).real.T` (`dout² × din²`);
`matA = op_gm[:-1,:-1]*2`, `vecb = op_gm[:-1,-1]*sqrt(2/din)`.
The Gell-Mann transforms are the model of property C16 (`Gellmann.analysis`, scalars `Sin` for `din`, `Sout` for `dout`). -/
section bloch
open Gellmann
variable {α : Type} [Zero α] [One α] [Add α] [Sub α] [Neg α] [Mul α] [NatCast α] [Conj α]

/-- `tmp1[(a,b), μ]` -/
def blochTmp1 (Sin : Scalars α) (din dout : Nat) (C : Nat → Nat → α) (a b μ : Nat) : α :=
  (analysis Sin din (fun j i : Fin din => C (i.val * dout + a) (j.val * dout + b))).getD μ 0

/-- entry `(μ, ν)` of the second transform, before `.real.T` -/
def blochX (Sout : Scalars α) (dout : Nat) (T : Nat → Nat → Nat → α) (μ ν : Nat) : α :=
  (analysis Sout dout (fun a b : Fin dout => T a.val b.val μ)).getD ν 0

/-- `op_gm[ν, μ]` -/
def blochGm (Sin Sout : Scalars α) (din dout : Nat) (C : Nat → Nat → α) (ν μ : Nat) : α :=
  re Sout (blochX Sout dout (blochTmp1 Sin din dout C) μ ν)

/-- `matA[ν, μ]` -/
def blochA (Sin Sout : Scalars α) (din dout : Nat) (C : Nat → Nat → α) (ν μ : Nat) : α :=
  blochGm Sin Sout din dout C ν μ * (1 + 1)

/-- `vecb[ν]` -/
def blochB (Sin Sout : Scalars α) (din dout : Nat) (C : Nat → Nat → α) (ν : Nat) : α :=
  blochGm Sin Sout din dout C ν (din * din - 1) * Sin.cI

end bloch

/-! ### entropy / fidelity / relative entropy on the spectrum (`utils.py:129-348`)

Everything these functions do after the `eigvalsh` / `eigh` call, on eigenvalue lists.  For **commuting** (simultaneously
diagonal) states this is the whole function: `EVC0† ρ1 EVC0` is diagonal with the eigenvalues `q` of `ρ1`.
`Analytic` collects the three non-algebraic operations; it is instantiated by `Float` in the driver and by ℝ in the proofs. -/

class Analytic (α : Type) where
  log : α → α
  sqrt : α → α
  max : α → α → α

section spectral
variable {α : Type} [Zero α] [Add α] [Mul α] [Neg α] [Analytic α]

def listSum (l : List α) : α := l.foldr (· + ·) 0

/-- `get_von_neumann_entropy` (`utils.py:196-202`): `EVL = maximum(eigvalsh(rho), eps)`, `-Σ EVL·log EVL` -/
def entropySpec (eps : α) (evl : List α) : α :=
  -(listSum (evl.map fun x => Analytic.max x eps * Analytic.log (Analytic.max x eps)))

/-- `get_fidelity` (`utils.py:164-168`) for commuting states with spectra `p`, `q` (same eigenbasis, same order):
`tmp0 = sqrt(max(0,p))`, `tmp1 = diag(tmp0·q·tmp0)`, `(Σ sqrt(max(0, tmp1)))²` -/
def fidelitySpec (p q : List α) : α :=
  let s := listSum ((p.zip q).map fun pq =>
    Analytic.sqrt (Analytic.max 0 (Analytic.sqrt (Analytic.max 0 pq.1) * pq.2 * Analytic.sqrt (Analytic.max 0 pq.1))))
  s * s

/-- `get_relative_entropy` (`utils.py:335-344`) for commuting states:
`-Σ p·log(max(eps,q)) + Σ max(eps,p)·log(max(eps,p))` -/
def relEntropySpec (eps : α) (p q : List α) : α :=
  -(listSum ((p.zip q).map fun pq => pq.1 * Analytic.log (Analytic.max eps pq.2)))
    + listSum (p.map fun x => Analytic.max eps x * Analytic.log (Analytic.max eps x))

end spectral

/-! ### trace distance, Rényi entropy (spectral level) and purity (`utils.py:209-287`)

`SpecOps` collects the operations the three functions need beyond `Analytic`: `np.abs`, `EVL**alpha`, `/`. -/

class SpecOps (α : Type) where
  abs : α → α
  pow : α → α → α
  div : α → α → α

section spectral2
variable {α : Type} [Zero α] [One α] [Add α] [Mul α] [Neg α] [Analytic α] [SpecOps α]

/-- `get_trace_distance` (`utils.py:266-268`) after `eigvalsh(rho - sigma)`: `np.abs(EVL).sum() / 2` -/
def traceDistSpec (evl : List α) : α := SpecOps.div (listSum (evl.map SpecOps.abs)) (1 + 1)

/-- … for commuting states with spectra `p`, `q` (same eigenbasis): the eigenvalues of `rho - sigma` are `p_i - q_i` -/
def traceDistComm (p q : List α) : α := traceDistSpec ((p.zip q).map fun pq => pq.1 + -pq.2)

/-- `get_Renyi_entropy` (`utils.py:219-225`) after `eigvalsh`: `EVL = maximum(EVL, 0)` (round-off negative eigenvalues of low-rank
states; numqi c3f38eb), `log((EVL**alpha).sum()) / (1-alpha)` -/
def renyiSpec (alpha : α) (evl : List α) : α :=
  SpecOps.div (Analytic.log (listSum (evl.map fun x => SpecOps.pow (Analytic.max x 0) alpha))) (1 + -alpha)

end spectral2

/-- `get_purity` (`utils.py:281-287`): `vdot(rho.reshape(-1), rho.reshape(-1))` = `Σ_ij conj(ρ_ij)·ρ_ij` -/
def purity {α : Type} [Zero α] [Add α] [Mul α] [Conj α] (n : Nat) (ρ : Nat → Nat → α) : α :=
  sumRange n fun i => sumRange n fun j => conj (ρ i j) * ρ i j

/-- `N0 = (EVL < zero_eps).sum()` (`_internal.py:59`) for an arbitrary threshold; `lt x eps` decides `x < eps` -/
def cutCountBelow {β : Type} (lt : β → β → Bool) (eps : β) (evl : List β) : Nat := (evl.filter fun x => lt x eps).length

end Channel
end Numqi
