/-
GENERATED on every run by harness/c05.py:translate (also called by harness/c13.py) from the working tree of numqi:
comparison operators, default tolerances and guard structure of the verdict functions. Do not edit.
-/
namespace Numqi.Ent.Thresholds

/-- comparison operator found in the source (`other` = not recognised) -/
inductive Cmp where
  | lt | le | gt | ge | other
deriving DecidableEq, Repr

/-- `is_ppt(rho, dim, eps=…)` (ppt.py) -/
def isPptEpsDefault : Rat := ((-1) : Rat) / 10000000
/-- `k` in `is_positive_semi_definite(rhoT, shift=k*eps)` (0 = not recognised) -/
def isPptShiftCoeff : Int := -1
/-- `check_reduction_witness(rho, dim, eps=…)` (_misc.py) -/
def reductionEpsDefault : Rat := ((-1) : Rat) / 10000000
def reductionShiftCoeff : Int := -1
/-- `utils.is_positive_semi_definite`: `np0 = np0 + k*shift*eye` then Cholesky succeeds ⇒ True, LinAlgError ⇒ False -/
def psdShiftCoeff : Int := 1
def psdCholesky : Bool := true
/-- `is_generalized_ppt(…, threshold=…)`: `tag = all(x[2] <op> 1+threshold)`, early exit when `ret[-1][2] <brk> 1+threshold` -/
def gpptThresholdDefault : Rat := ((1) : Rat) / 10000000000
def gpptAcceptOp : Cmp := .le
def gpptRhsOnePlusThreshold : Bool := true
def gpptBreakOp : Cmp := .gt
/-- input guards `assert np.abs(rho-rho.T.conj()).max() <(=) 1e-10` of is_ppt / check_reduction_witness / get_negativity: present and complete -/
def isPptHermGuard : Bool := true
def reductionHermGuard : Bool := true
def negativityHermGuard : Bool := true
/-- `check_swap_witness(rho, eps=…)`: `ret = tmp0 <op> eps` -/
def swapEpsDefault : Rat := ((-1) : Rat) / 10000000
def swapOp : Cmp := .gt
/-- `get_eof_2qubit` (eof.py): `if tmp0==0: 0`, `max(0, 1-c²)` under the square root, `if tmp1<1` around the second entropy term -/
def eofZeroShortcut : Bool := true
def eofClampSqrtArg : Bool := true
def eofSecondTermGuardLt1 : Bool := true
def eofRecognised : Bool := true
/-- `get_gme_2qubit` (measure.py): `max(0, 1-c²)` under the square root -/
def gmeClampSqrtArg : Bool := true
def gmeRecognised : Bool := true
/-- `get_concurrence_pure` (eof.py): `max(0, 2*(1-tmp2))` under the square root -/
def concPureClampSqrtArg : Bool := true
def concPureRecognised : Bool := true

end Numqi.Ent.Thresholds
