/-
Model of the gate vocabulary: the constants and constructors of `numqi/gate/_internal.py` that `numqi.sim.Circuit`
uses (`circuit.py:281-426`), and the table "method name ↦ (kind, array, index)" of the `Circuit` class.
No Mathlib import: executed by `Driver/C03.lean` at `ℤ[i]` (integer gates) and `ℚ[i]` (all gates).

Scalars.  Entries live in a type `α` carrying only the operations; the imaginary unit is an explicit argument `I`
(`I*I = -1`, `conj I = -I` in the theorems; `⟨0,1⟩` in the driver).  Transcendental functions never appear: an angle
enters as the pair `(c, s) = (cos, sin)` of the angle *the formula uses* — the half angle `θ/2` for `rx ry rz rzz` and
for the `θ` of `u3`, the full angles `φ`, `λ` for the phases of `u3`, `π/4` for `H` (`c = s = 1/√2`) and `T`
(`e^{iπ/4} = c + i s`).  The theorems hold for every pair with `c² + s² = 1`; the driver receives the pairs as
binary64 bit patterns and computes exactly.

Arrays are flat row-major (`reshape(-1)`), as `RawOp` expects them.
-/
import NumqiModel.Sim

namespace Numqi

/-- cosine / sine of an angle -/
structure CS (α : Type) where
  c : α
  s : α

namespace Gates
variable {α : Type} [Zero α] [One α] [Add α] [Sub α] [Mul α] [Neg α]

/-! ### fixed gates (`gate/_internal.py:6-45`) -/

def I2 : Array α := #[1, 0, 0, 1]
def X : Array α := #[0, 1, 1, 0]
def Y (I : α) : Array α := #[0, -I, I, 0]
def Z : Array α := #[1, 0, 0, -1]
/-- `H = [[1,1],[1,-1]]/√2`; `p = (1/√2, 1/√2)` -/
def H (p : CS α) : Array α := #[p.c, p.s, p.s, -p.c]
def S (I : α) : Array α := #[1, 0, 0, I]
/-- `T = diag(1, e^{iπ/4})`; `p = (cos π/4, sin π/4)` -/
def T (I : α) (p : CS α) : Array α := #[1, 0, 0, p.c + I * p.s]
def CNOT : Array α := #[1,0,0,0, 0,1,0,0, 0,0,0,1, 0,0,1,0]
def CZ : Array α := #[1,0,0,0, 0,1,0,0, 0,0,1,0, 0,0,0,-1]
def Swap : Array α := #[1,0,0,0, 0,0,1,0, 0,1,0,0, 0,0,0,1]

/-! ### parametrised gates (`gate/_internal.py:81-101, 166-288`); `h = (cos θ/2, sin θ/2)` -/

/-- `rx`: `[ca, -isa, -isa, ca]`, `isa = 1j*sin(θ/2)` -/
def rx (I : α) (h : CS α) : Array α := #[h.c, -(I * h.s), -(I * h.s), h.c]
/-- `ry`: `[ca, -sa, sa, ca]` -/
def ry (h : CS α) : Array α := #[h.c, -h.s, h.s, h.c]
/-- `rz`: `[ca-isa, 0, 0, ca+isa]` -/
def rz (I : α) (h : CS α) : Array α := #[h.c - I * h.s, 0, 0, h.c + I * h.s]
/-- `u3(θ, φ, λ)`: `[ct, -st*e^{iλ}, st*e^{iφ}, ct*e^{iλ}*e^{iφ}]`; `h = (cos θ/2, sin θ/2)`, `ph = (cos φ, sin φ)`,
`la = (cos λ, sin λ)` -/
def u3 (I : α) (h ph la : CS α) : Array α :=
  let el := la.c + I * la.s
  let ep := ph.c + I * ph.s
  #[h.c, -(h.s * el), h.s * ep, h.c * el * ep]
/-- `rzz`: `diag(ca-isa, ca+isa, ca+isa, ca-isa)` -/
def rzz (I : α) (h : CS α) : Array α :=
  let m := h.c - I * h.s
  let p := h.c + I * h.s
  #[m,0,0,0, 0,p,0,0, 0,0,p,0, 0,0,0,m]

/-! ### derivatives of the parametrised gates with respect to their angles

`κ` is the chain factor of the pair: a pair `(c, s) = (cos κθ, sin κθ)` moves as `(c, s)' = (−κ s, κ c)`; `κ = ½` for the
half-angle pairs.  These arrays are the ε-coefficients of the constructors above evaluated at the dual pairs
`(c − ε κ s, s + ε κ c)` (`NumqiProps/C04Params.lean`: `rx_dual` …) and equal `−iκ·G·gate` with `G` the generator. -/

def ZZ : Array α := #[1,0,0,0, 0,-1,0,0, 0,0,-1,0, 0,0,0,1]

def drx (I κ : α) (h : CS α) : Array α := #[-(κ * h.s), -(I * (κ * h.c)), -(I * (κ * h.c)), -(κ * h.s)]
def dry (κ : α) (h : CS α) : Array α := #[-(κ * h.s), -(κ * h.c), κ * h.c, -(κ * h.s)]
def drz (I κ : α) (h : CS α) : Array α := #[-(κ * h.s) - I * (κ * h.c), 0, 0, -(κ * h.s) + I * (κ * h.c)]
def drzz (I κ : α) (h : CS α) : Array α :=
  let m := -(κ * h.s) - I * (κ * h.c)
  let p := -(κ * h.s) + I * (κ * h.c)
  #[m,0,0,0, 0,p,0,0, 0,0,p,0, 0,0,0,m]
/-- `∂u3/∂θ` (`h` half-angle pair of θ, chain factor `κ`) -/
def du3Theta (I κ : α) (h ph la : CS α) : Array α :=
  let el := la.c + I * la.s
  let ep := ph.c + I * ph.s
  #[-(κ * h.s), -(κ * h.c * el), κ * h.c * ep, -(κ * h.s) * el * ep]
/-- `∂u3/∂φ` (`ph` full-angle pair: `e^{iφ}' = i e^{iφ}`) -/
def du3Phi (I : α) (h ph la : CS α) : Array α :=
  let el := la.c + I * la.s
  let ep := ph.c + I * ph.s
  #[0, 0, h.s * (I * ep), h.c * el * (I * ep)]
/-- `∂u3/∂λ` -/
def du3Lambda (I : α) (h ph la : CS α) : Array α :=
  let el := la.c + I * la.s
  let ep := ph.c + I * ph.s
  #[0, -(h.s * (I * el)), 0, h.c * (I * el) * ep]

end Gates

/-! ### the vocabulary of `numqi.sim.Circuit` -/

/-- one call of a gate method of `Circuit` (`circuit.py:281-426`); qubits are Python ints, angles are `CS` pairs as
described above -/
inductive Vocab (α : Type) where
  | X (q : Int) | Y (q : Int) | Z (q : Int) | S (q : Int)
  | H (q : Int) (p : CS α) | T (q : Int) (p : CS α)
  | Swap (q0 q1 : Int)
  | cnot (c t : Int) | cy (c t : Int) | cz (c t : Int)
  | toffoli (c0 c1 t : Int)
  | rx (q : Int) (h : CS α) | ry (q : Int) (h : CS α) | rz (q : Int) (h : CS α)
  | u3 (q : Int) (h ph la : CS α)
  | rzz (q0 q1 : Int) (h : CS α)
  | crx (c : List Int) (t : Int) (h : CS α) | cry (c : List Int) (t : Int) (h : CS α) | crz (c : List Int) (t : Int) (h : CS α)
  | cu3 (c : List Int) (t : Int) (h ph la : CS α)

/-- what the method appends to `gate_index_list`: `_unitary_gate` / `_unitary_parameter_gate` entries are
`('unitary', array, index)`, `_control_gate` / `_control_parameter_gate` entries are
`('control', array of the *target* gate, (control set, target))`.  `cnot = cx` is a controlled `sx`, `toffoli` a doubly
controlled `sx`, `cy`/`cz` controlled `sy`/`sz`, `crx…cu3` controlled `rx…u3` with **any number of controls**
(`_control_parameter_gate` does not fix the size of the control set, `circuit.py:82-96`). -/
def Vocab.toRaw {α : Type} [Zero α] [One α] [Add α] [Sub α] [Mul α] [Neg α] (I : α) : Vocab α → RawOp α
  | .X q => .unitary Gates.X [q]
  | .Y q => .unitary (Gates.Y I) [q]
  | .Z q => .unitary Gates.Z [q]
  | .S q => .unitary (Gates.S I) [q]
  | .H q p => .unitary (Gates.H p) [q]
  | .T q p => .unitary (Gates.T I p) [q]
  | .Swap q0 q1 => .unitary Gates.Swap [q0, q1]
  | .cnot c t => .control Gates.X [c] [t]
  | .cy c t => .control (Gates.Y I) [c] [t]
  | .cz c t => .control Gates.Z [c] [t]
  | .toffoli c0 c1 t => .control Gates.X [c0, c1] [t]
  | .rx q h => .unitary (Gates.rx I h) [q]
  | .ry q h => .unitary (Gates.ry h) [q]
  | .rz q h => .unitary (Gates.rz I h) [q]
  | .u3 q h ph la => .unitary (Gates.u3 I h ph la) [q]
  | .rzz q0 q1 h => .unitary (Gates.rzz I h) [q0, q1]
  | .crx c t h => .control (Gates.rx I h) c [t]
  | .cry c t h => .control (Gates.ry h) c [t]
  | .crz c t h => .control (Gates.rz I h) c [t]
  | .cu3 c t h ph la => .control (Gates.u3 I h ph la) c [t]

/-- the `CS` pairs a call carries (the hypotheses `c² + s² = 1` of the theorems range over these) -/
def Vocab.pairs {α : Type} : Vocab α → List (CS α)
  | .H _ p | .T _ p => [p]
  | .rx _ h | .ry _ h | .rz _ h | .rzz _ _ h | .crx _ _ h | .cry _ _ h | .crz _ _ h => [h]
  | .u3 _ h ph la | .cu3 _ _ h ph la => [h, ph, la]
  | _ => []

/-! ### programs over the `Circuit` API (`circuit.py:136-161, 468-486`)

What the harness used to flatten itself is a model constant: a program is a list of statements, `runProg` is the content
of `gate_index_list` after executing them. -/

/-- an entry `apply_state` / `to_unitary` refuse.  It stays in `gate_index_list` (so `num_qubit` and `shift_qubit_index_`
still see it) but no register accepts it. -/
inductive Refused where
  /-- a parametrised gate (`rx ry rz u3 rzz`; the controlled methods do not take placeholders) whose placeholder parameter
  was never set (`circuit.py:497-498`): a canonical `unitary` entry at its index, without an array -/
  | placeholder (t : List Int)
  /-- a gate of a kind outside `unitary/control/measure/custom`, such as the Kraus entries of `dephasing…`
  (`circuit.py:509`): skipped by `num_qubit` (`:460`) and by `shift_qubit_index_` (`:477`) -/
  | nonCanonical

/-- the entry standing for a refused one: the indices are the real ones, the array is empty, so that `RawOp.compile`
rejects it at every width (theorem `C03.refused_not_compiled`) -/
def Refused.toRaw {α : Type} : Refused → RawOp α
  | .placeholder t => .unitary #[] t
  | .nonCanonical => .custom #[]

/-- every method that appends a controlled entry stores the controls as a **set** (`circuit.py:59, 90, 148`:
`set(sorted(hf_tuple_of_int(control_qubit)))`): repeated control indices collapse -/
def RawOp.canon {α : Type} : RawOp α → RawOp α
  | .control U c t => .control U c.eraseDups t
  | g => g

/-- a statement that cannot contain a sub-circuit -/
inductive Stmt0 (α : Type) where
  /-- one entry appended as it is: `single_…/double_…/controlled_…_qubit_gate`, `append_gate` (also of a gate object that is
  already in the list: the same array at another placement), a gate of a class registered by `register_custom_gate`,
  `measure` -/
  | gate (g : RawOp α)
  /-- a named gate method of the vocabulary -/
  | call (v : Vocab α)
  /-- `shift_qubit_index_(δ)`: every entry present **so far** moves by `δ` -/
  | shift (δ : Int)
  /-- an entry `apply_state` refuses -/
  | refused (r : Refused)

/-- a statement: a basic one, or `extend_circuit(sub)` appending the entries of another circuit -/
inductive Stmt (α : Type) where
  | base (s : Stmt0 α)
  | extend (sub : List (Stmt0 α))

section prog
variable {α : Type} [Zero α] [One α] [Add α] [Sub α] [Mul α] [Neg α]

/-- one basic statement acting on the entry list -/
def Stmt0.step (I : α) (acc : List (RawOp α)) : Stmt0 α → List (RawOp α)
  | .gate g => acc ++ [g.canon]
  | .call v => acc ++ [(v.toRaw I).canon]
  | .shift δ => acc.map (RawOp.shift δ)
  | .refused r => acc ++ [r.toRaw]

def runProg0 (I : α) (p : List (Stmt0 α)) : List (RawOp α) := p.foldl (Stmt0.step I) []

def Stmt.step (I : α) (acc : List (RawOp α)) : Stmt α → List (RawOp α)
  | .base s => Stmt0.step I acc s
  | .extend sub => acc ++ runProg0 I sub

/-- `gate_index_list` after the program -/
def runProg (I : α) (p : List (Stmt α)) : List (RawOp α) := p.foldl (Stmt.step I) []
end prog

end Numqi
