/-
Model of `numqi/matrix_space/{_misc,_hierarchy,_numerical_range}.py` (C20).
No Mathlib import: everything here is executable and is what `Driver/C20.lean` runs; the theorems of
`NumqiProps/C20.lean` are about these very constants.

Layers
* enumerations used by the hierarchy: `itertools.combinations`, `combinations_with_replacement`,
  `permutations`, the signed coset table of `permutation_with_antisymmetric_factor`,
  `get_antisymmetric_basis_index`, `get_symmetric_basis_index` (index part);
* `tensor2d_project_to_antisym_basis` (polarised minors) and the vector family of
  `has_rank_hierarchical_method` at level `k = 1`;
* the seven structure classes of `get_matrix_orthogonal_basis`: branch selection, coordinate
  selection / zero-block embedding, real/imag stacking, `np.block([[r,-i],[i,r]])`;
* partial transpose and projector of `detect_real_matrix_subspace_rank_one` /
  `get_real_bipartite_numerical_range`; the Hermitian part used by `get_matrix_numerical_range`;
* the decision layer (`<`, `>` against thresholds); the comparisons of `detect_real_matrix_subspace_rank_one`,
  `has_rank_hierarchical_method` and `is_ABC_completely_entangled_subspace` themselves are regenerated from the source
  (`Generated/Thresholds20.lean`; since the repair 561406a the last two compare the smallest eigenvalue of the Gram matrix,
  `np.linalg.eigvalsh(matAAT)[0] > zero_eps`).

Not modelled (contracts): `np.linalg.svd`, `np.linalg.eigh`, `scipy.linalg.lu`, `eigvalsh`, `eigsh`,
`scipy.optimize.minimize_scalar/root_scalar`; the Gell-Mann transform itself is C16's model.
-/
import NumqiModel.Scalar

namespace Numqi.MatrixSpace

/-! ## 1. enumerations -/

/-- `itertools.combinations(l, k)`: sub-lists of length `k`, lexicographic in positions. -/
def combos : List Nat → Nat → List (List Nat)
  | _, 0 => [[]]
  | [], _ + 1 => []
  | x :: xs, k + 1 => (combos xs k).map (x :: ·) ++ combos xs (k + 1)

/-- `itertools.combinations_with_replacement(l, k)`; `fuel ≥ l.length + k` (see `combosRep`). -/
def combosRepAux : Nat → List Nat → Nat → List (List Nat)
  | _, _, 0 => [[]]
  | _, [], _ + 1 => []
  | 0, _ :: _, _ + 1 => []
  | fuel + 1, x :: xs, k + 1 =>
      (combosRepAux fuel (x :: xs) k).map (x :: ·) ++ combosRepAux fuel xs (k + 1)

/-- `itertools.combinations_with_replacement(l, k)`. -/
def combosRep (l : List Nat) (k : Nat) : List (List Nat) := combosRepAux (l.length + k) l k

/-- all ways to pick one element, in order of position, with the remaining list -/
def picks : List Nat → List (Nat × List Nat)
  | [] => []
  | x :: xs => (x, xs) :: (picks xs).map fun p => (p.1, x :: p.2)

def permsFuel : Nat → List Nat → List (List Nat)
  | 0, _ => [[]]
  | n + 1, l => (picks l).flatMap fun p => (permsFuel n p.2).map (p.1 :: ·)

/-- `itertools.permutations(l)`: lexicographic in positions. -/
def permsLex (l : List Nat) : List (List Nat) := permsFuel l.length l

/-- `_permutation_antisymmetric_hf0(repeat_list, all_index)` (`_hierarchy.py:18-31`);
`all_index` is ascending, so `tuple(sorted(set(all) - set(x)))` is a filter. -/
def hf0 : List Nat → List Nat → List (List Nat)
  | [], _ => []
  | r :: rest, all =>
    if r = 1 then permsLex all
    else if rest.isEmpty then [all]
    else (combos all r).flatMap fun x => (hf0 rest (all.filter fun a => !x.contains a)).map (x ++ ·)

/-- lexicographic `≤` on lists of naturals (Python list comparison) -/
def lexLe : List Nat → List Nat → Bool
  | [], _ => true
  | _ :: _, [] => false
  | a :: as, b :: bs => if a < b then true else if b < a then false else lexLe as bs

def insertBy (le : α → α → Bool) (x : α) : List α → List α
  | [] => [x]
  | y :: ys => if le x y then x :: y :: ys else y :: insertBy le x ys

/-- stable insertion sort (`sorted(..., key=…)`): equal keys keep their order -/
def sortBy (le : α → α → Bool) : List α → List α
  | [] => []
  | x :: xs => insertBy le x (sortBy le xs)

/-- `np.argsort(row)` of a permutation row = inverse permutation -/
def invPerm (p : List Nat) : List Nat := (List.range p.length).map fun j => p.idxOf j

/-- number of inversions `#{i<j : l[i] > l[j]}` (`np.triu(index[:,:,None] > index[:,None], 1).sum()`) -/
def inversions : List Nat → Nat
  | [] => 0
  | x :: xs => (xs.filter fun y => y < x).length + inversions xs

def factorial : Nat → Nat
  | 0 => 1
  | n + 1 => (n + 1) * factorial n

/-- distinct values in ascending order -/
def distinctSorted (l : List Nat) : List Nat :=
  (sortBy (fun a b => decide (a ≤ b)) l).foldr (fun x acc => if acc.head? = some x then acc else x :: acc) []

/-- positions of `v` in `l`, ascending -/
def positionsOf (l : List Nat) (v : Nat) : List Nat :=
  (List.range l.length).filter fun i => l.getD i 0 == v

/-- `permutation_with_antisymmetric_factor(x0)` for a tuple `x0` (`_hierarchy.py:34-69`).
Returns the rows of `pindex` with their `pvalue` (sign × ∏ multiplicity!).
Steps of `_permutation_with_antisymmetric_factor_on_int_tuple`:
group positions by value (ascending value), stable-sort the groups by size (descending),
enumerate the arrangements `hf0`, scatter `index[row, tmp2[row]] = positions`,
sort the rows lexicographically, `argsort` each row, sign by inversion count. -/
def antisymFactorTable (tuple : List Nat) : List (List Nat × Int) :=
  let n := tuple.length
  let groups := (distinctSorted tuple).map (positionsOf tuple)
  let groups := sortBy (fun a b => decide (b.length ≤ a.length)) groups
  let flatpos := groups.flatten
  let tmp2 := hf0 (groups.map List.length) (List.range n)
  let rows := tmp2.map fun t => (List.range n).map fun i => flatpos.getD (t.idxOf i) 0
  let rows := sortBy lexLe rows
  let mult : Nat := (groups.map fun g => factorial g.length).foldl (· * ·) 1
  rows.map fun row =>
    let p := invPerm row
    (p, (if inversions p % 2 = 0 then (1 : Int) else -1) * (mult : Int))

/-- `permutation_with_antisymmetric_factor(r)` for an integer argument: `int_tuple = range(r)`. -/
def antisymFactorTableInt (r : Nat) : List (List Nat × Int) := antisymFactorTable (List.range r)

/-- `get_antisymmetric_basis_index(dim, x)[2]`: `combinations(range(dim), r)`
(the implementation stores the transpose, shape `(r, N)`). -/
def antisymIndex (dim r : Nat) : List (List Nat) := combos (List.range dim) r

/-- `get_symmetric_basis_index(dim, x)[2]`: `combinations_with_replacement(range(dim), r)`. -/
def symIndex (dim r : Nat) : List (List Nat) := combosRep (List.range dim) r

/-- `∏ factorial(count)` over the distinct entries of a tuple
(`collections.Counter(x).values()`, `_hierarchy.py:118`); `pvalue² · |pindex|² = r!/this`. -/
def counterFactorialProd (x : List Nat) : Nat :=
  ((distinctSorted x).map fun v => factorial (positionsOf x v).length).foldl (· * ·) 1

/-- `np.ravel_multi_index(idx, [dim]*len(idx))` -/
def ravelIndex (dim : Nat) (idx : List Nat) : Nat := idx.foldl (fun acc x => acc * dim + x) 0

/-- `get_antisymmetric_basis(dim, rank)` (`_hierarchy.py:73-85`) in signed-square form: the dense `(C(dim,rank), dim^rank)` array
**times `√(rank!)`** — row `c` (a combination) has the sign of the permutation `σ` at flat position `ravel(c[σ])`, `0` elsewhere
(every entry of the implementation is `sign/√(rank!)`, i.e. `entry·|entry|·rank!` is this integer). -/
def antisymBasisDense (dim r : Nat) : List (List Int) :=
  (antisymIndex dim r).map fun c =>
    (List.range (dim ^ r)).map fun t =>
      match (antisymFactorTableInt r).find? fun pv => ravelIndex dim (pv.1.map fun m => c.getD m 0) == t with
      | some pv => pv.2
      | none => 0

/-- `get_symmetric_basis(dim, rank)` (`_hierarchy.py:96-110`) in squared form: row `c` (a combination with replacement) has
`∏ count! ` (numerator of `factor² = ∏count!/rank!`) at the flat positions `ravel(c[σ])`, `0` elsewhere. -/
def symBasisDense (dim r : Nat) : List (List Nat) :=
  (symIndex dim r).map fun c =>
    (List.range (dim ^ r)).map fun t =>
      if (antisymFactorTableInt r).any fun pv => ravelIndex dim (pv.1.map fun m => c.getD m 0) == t then counterFactorialProd c else 0

/-! ## 2. polarised minors (`tensor2d_project_to_antisym_basis`) -/

section ring
variable {α : Type} [Zero α] [One α] [Add α] [Mul α] [Neg α]

def listSum (l : List α) : α := l.foldr (· + ·) 0
def listProd (l : List α) : α := l.foldr (· * ·) 1

/-- `n • x` for the integer weights `value0*value1` (repeated addition, so that no cast is needed) -/
def nsmulN (n : Nat) (x : α) : α :=
  match n with
  | 0 => 0
  | k + 1 => x + nsmulN k x

def zsmulI (z : Int) (x : α) : α :=
  match z with
  | Int.ofNat n => nsmulN n x
  | Int.negSucc n => -(nsmulN (n + 1) x)

/-- One entry `[I, J]` of `tensor2d_project_to_antisym_basis(np_list, INDEX)` **times `r!`**
(`_hierarchy.py:188-213`; the implementation multiplies by `factor = 1/r!`):
`Σ_{(σ,v0)∈tabI} Σ_{(τ,v1)∈tabJ} v0·v1 · ∏_m np_list[INDEX[m]][ rows[σ[m]], cols[τ[m]] ]`.
`mats k i j` is `np_list[k][i,j]`; `rows`/`cols` are the `I`-th/`J`-th columns of `indI`/`indJ`. -/
def polMinorScaled (mats : Nat → Nat → Nat → α) (INDEX : List Nat)
    (tabI tabJ : List (List Nat × Int)) (rows cols : List Nat) : α :=
  listSum <| tabI.map fun sv =>
    listSum <| tabJ.map fun tw =>
      zsmulI (sv.2 * tw.2) <| listProd <|
        (List.range INDEX.length).map fun m =>
          mats (INDEX.getD m 0) (rows.getD (sv.1.getD m 0) 0) (cols.getD (tw.1.getD m 0) 0)

/-- the whole `r!`-scaled array of `tensor2d_project_to_antisym_basis(np_list, INDEX)`, row-major `(N1,N2)` -/
def antisymProjectScaled (mats : Nat → Nat → Nat → α) (dimA dimB : Nat) (INDEX : List Nat) : List α :=
  let r := INDEX.length
  let tabI := antisymFactorTable INDEX
  let tabJ := antisymFactorTableInt r
  (antisymIndex dimA r).flatMap fun rows =>
    (antisymIndex dimB r).map fun cols => polMinorScaled mats INDEX tabI tabJ rows cols

/-- `x.reshape(-1)[j]` of the `k`-th generator (`dimB` columns) -/
def flatEntry (mats : Nat → Nat → Nat → α) (dimB k j : Nat) : α := mats k (j / dimB) (j % dimB)

/-- One entry of `project_to_symmetric_basis([x.reshape(-1) for x in np_list], INDEX)` (`_hierarchy.py:168-186`) for the symmetric
multi-index `K` (a column of `get_symmetric_basis_index(dimA*dimB, INDEX)[2]`), **divided by `pvalue[K]·|pindex|/s!`**, `s = len(INDEX)`:
the implementation sums `∏_m np_list[INDEX[m]][K[p[m]]]` over the rows `p` of `permutation_with_antisymmetric_factor(INDEX)[0]`
(one representative per arrangement) and multiplies by `pvalue[K] = sqrt(s!/∏ count(K)!)/|pindex|`; here every row is weighted by the
number `s!/|pindex| = ∏ multiplicity!` of permutations it stands for, which is the absolute value of the row's `pvalue` in the
antisymmetric table.  `N = len(np_list)`: for `N = 1` the implementation returns `np_list[0]` itself (`:174-175`). -/
def symPartEntry (mats : Nat → Nat → Nat → α) (dimB N : Nat) (INDEX K : List Nat) : α :=
  if N = 1 then flatEntry mats dimB 0 (K.getD 0 0)
  else listSum <| (antisymFactorTable INDEX).map fun pv =>
    nsmulN pv.2.natAbs <| listProd <| (List.range INDEX.length).map fun m =>
      flatEntry mats dimB (INDEX.getD m 0) (K.getD (pv.1.getD m 0) 0)

/-- the index set of the symmetric factor: `[[]]` at level 1 (`np.array([1])`), the positions of `np_list[0]` when `N = 1`,
else `combinations_with_replacement(range(dimA*dimB), s)` -/
def symPartKeys (N dim s : Nat) : List (List Nat) :=
  if s = 0 then [[]] else if N = 1 then (List.range dim).map fun j => [j] else symIndex dim s

/-- One entry of the vector that `has_rank_hierarchical_method` builds for the sorted multi-index `INDEX` (length `r+k`, minors of
size `q = r+1`) (`_hierarchy.py:280-297`), up to the positive factors `factor/q!` (uniform) and `pvalue[K]·|pindex|/s!` (depends on `K` only):
`Σ_{sub ⊂ positions, |sub| = q} antisym(INDEX|sub)[rows, cols] · sym(INDEX|rest)[K]`
(`opt_einsum.contract(TAlpha,[0,1,2], TBeta,[0,3,2], [0,1,3])` sums over the sub-tuples). -/
def hierVecEntry (mats : Nat → Nat → Nat → α) (dimB N q : Nat) (INDEX rows cols K : List Nat) : α :=
  let n := INDEX.length
  listSum <| (combos (List.range n) q).map fun sub =>
    let rest := (List.range n).filter fun x => !sub.contains x
    let idxA := sub.map fun x => INDEX.getD x 0
    let idxS := rest.map fun x => INDEX.getD x 0
    polMinorScaled mats idxA (antisymFactorTable idxA) (antisymFactorTableInt q) rows cols
      * (if rest.isEmpty then 1 else symPartEntry mats dimB N idxS K)

/-- the whole (scaled) vector for one multi-index, flattened as the implementation does: `(I, J)` row-major, then `K` -/
def hierVecScaled (mats : Nat → Nat → Nat → α) (dimA dimB N q : Nat) (INDEX : List Nat) : List α :=
  (antisymIndex dimA q).flatMap fun rows => (antisymIndex dimB q).flatMap fun cols =>
    (symPartKeys N (dimA * dimB) (INDEX.length - q)).map fun K => hierVecEntry mats dimB N q INDEX rows cols K

/-! ### tripartite test (`is_ABC_completely_entangled_subspace`, `_hierarchy.py:313-351`) -/

/-- `x.reshape(dimA, dimB*dimC)` of a `(dimA,dimB,dimC)` tensor -/
def matA_BC (dimC : Nat) (T : Nat → Nat → Nat → α) : Nat → Nat → α := fun a bc => T a (bc / dimC) (bc % dimC)

/-- `x.reshape(dimA*dimB, dimC)` -/
def matAB_C (dimB : Nat) (T : Nat → Nat → Nat → α) : Nat → Nat → α := fun ab c => T (ab / dimB) (ab % dimB) c

variable [Sub α]

/-- `4·contract(X, Y, P_x, P_y)[x, y, x', y']` with `P_n = hf1(n)` the projector on the antisymmetric part of `ℂⁿ⊗ℂⁿ`
(`P[i,j,k,l] = (δ_ik δ_jl - δ_il δ_jk)/2`): the polarised `2×2` minor of `(X, Y)` on rows `x,x'` and columns `y,y'` -/
def antisym2 (X Y : Nat → Nat → α) (x y x' y' : Nat) : α :=
  X x y * Y x' y' - X x' y * Y x y' - X x y' * Y x' y + X x' y' * Y x y

/-- `4·ABC2[a,b,c,a',b',c']` for the pair of tensors `(T1, T2)` (`:332-337`): the `A|BC` cut plus the `AB|C` cut; both flattened
arrays have the index order `(a,b,c,a',b',c')`, so they are added entry by entry. -/
def abcEntry (dimB dimC : Nat) (T1 T2 : Nat → Nat → Nat → α) (a b c a' b' c' : Nat) : α :=
  antisym2 (matA_BC dimC T1) (matA_BC dimC T2) a (b * dimC + c) a' (b' * dimC + c')
    + antisym2 (matAB_C dimB T1) (matAB_C dimB T2) (a * dimB + b) c (a' * dimB + b') c'

/-- the (×4) level-1 vector of the tripartite test for one pair of generators, flattened row-major over `(a,b,c,a',b',c')` -/
def abcVecScaled (dimA dimB dimC : Nat) (T1 T2 : Nat → Nat → Nat → α) : List α :=
  (List.range dimA).flatMap fun a => (List.range dimB).flatMap fun b => (List.range dimC).flatMap fun c =>
    (List.range dimA).flatMap fun a' => (List.range dimB).flatMap fun b' => (List.range dimC).map fun c' =>
      abcEntry dimB dimC T1 T2 a b c a' b' c'

/-- One entry of the vector that `is_ABC_completely_entangled_subspace(np_list, hierarchy_k)` builds for the sorted multi-index `INDEX`
(length `1 + hierarchy_k`, from `combinations_with_replacement`) (`_hierarchy.py:327-347`), **times 4** and up to the positive factor
`pvalue[K]·|pindex|/s!` of the symmetric index (as `symPartEntry`):
`Σ_{(i0,i1) ⊂ positions} (A|BC cut + AB|C cut)(T[INDEX[i0]], T[INDEX[i1]])[a,b,c,a',b',c'] · sym(INDEX without i0,i1)[K]`
(the Gram matrix `TAlphaBeta` contracts `TAlpha` with `TBeta` over the pairs).  The symmetric factor is
`project_to_symmetric_basis([x.reshape(-1) …], rest)`: the tensors flattened, i.e. the matrices `matA_BC` with `dimB·dimC` columns;
`N = len(np_list)` (the `N = 1` shortcut of `project_to_symmetric_basis` applies here as well). -/
def abcLevelEntry (dimB dimC N : Nat) (T : Nat → Nat → Nat → Nat → α) (INDEX : List Nat) (a b c a' b' c' : Nat) (K : List Nat) : α :=
  let n := INDEX.length
  listSum <| (combos (List.range n) 2).map fun sub =>
    let rest := (List.range n).filter fun x => !sub.contains x
    let idxS := rest.map fun x => INDEX.getD x 0
    abcEntry dimB dimC (T (INDEX.getD (sub.getD 0 0) 0)) (T (INDEX.getD (sub.getD 1 0) 0)) a b c a' b' c'
      * (if rest.isEmpty then 1 else symPartEntry (fun g => matA_BC dimC (T g)) (dimB * dimC) N idxS K)

/-- the whole (scaled) level-`k` vector for one multi-index: `(a,b,c,a',b',c')` row-major, then `K` -/
def abcLevelVecScaled (dimA dimB dimC N : Nat) (T : Nat → Nat → Nat → Nat → α) (INDEX : List Nat) : List α :=
  (List.range dimA).flatMap fun a => (List.range dimB).flatMap fun b => (List.range dimC).flatMap fun c =>
    (List.range dimA).flatMap fun a' => (List.range dimB).flatMap fun b' => (List.range dimC).flatMap fun c' =>
      (symPartKeys N (dimA * dimB * dimC) (INDEX.length - 2)).map fun K => abcLevelEntry dimB dimC N T INDEX a b c a' b' c' K

/-- the multi-indices of the vector family of `has_rank_hierarchical_method(…, rank, hierarchy_k)`:
`combinations_with_replacement(range(N), r + k)`, `r = rank-1` (`_hierarchy.py:280`). -/
def hierarchyIndices (N rank k : Nat) : List (List Nat) := combosRep (List.range N) (rank - 1 + k)

end ring

/-! ## 3. structure classes of `get_matrix_orthogonal_basis` -/

inductive SpaceChar where
  | R_T | C_T | R | C | C_H | R_cT | R_c
deriving DecidableEq, Repr

def SpaceChar.toString : SpaceChar → String
  | .R_T => "R_T" | .C_T => "C_T" | .R => "R" | .C => "C" | .C_H => "C_H" | .R_cT => "R_cT" | .R_c => "R_c"

/-- branch selection (`_misc.py:124-199`). `none` = `assert False, 'not implemented yet'`
(real anti-symmetric input). `fieldReal` is `field=='real'`. -/
def classify (isComplexObj fieldReal isSym isAntiSym isHerm : Bool) : Option SpaceChar :=
  if !isComplexObj then
    if isSym then some (if fieldReal then .R_T else .C_T)
    else if isAntiSym then none
    else some (if fieldReal then .R else .C)
  else
    if fieldReal && isHerm then some .C_H
    else if fieldReal && isSym then some .R_cT
    else if fieldReal then some .R_c
    else if isSym then some .C_T
    else some .C

/-- `N3 = (N1*(N1-1))//2` -/
def nOff (n : Nat) : Nat := (n * (n - 1)) / 2

/-- number of columns of the coordinate matrix handed to `reduce_vector_space` in each branch
(= length of the rows of `basis` **plus** `basis_orth` before they are mapped back) -/
def coordLen : SpaceChar → Nat → Nat → Nat
  | .R_T, n, _ => nOff n + (n * n - 2 * nOff n)       -- `concatenate([aS, aDI])`
  | .C_T, n, _ => nOff n + (n * n - 2 * nOff n)
  | .R, m, n => m * n
  | .C, m, n => m * n
  | .C_H, n, _ => n * n
  | .R_cT, n, _ => 2 * (nOff n + (n * n - 2 * nOff n))  -- `[aS.real, aDI.real, aS.imag, aDI.imag]`
  | .R_c, m, n => 2 * m * n

/-- number of rows of `basis_orth` for a rank-`k` reduced basis: `EVC[:, N0:]` has `N1 - N0` columns,
and the `N0 == N1` shortcut returns none (`_misc.py:68-74`). -/
def complementCount (coord k : Nat) : Nat := if k = coord then 0 else coord - k

section coords
variable {α : Type} [Zero α]

/-- `concatenate([aS, aDI])` with `aS = v[:N3]`, `aDI = v[2*N3:]` (`_misc.py:132-134,160-162,186-188`) -/
def symSelect (n : Nat) (v : List α) : List α := v.take (nOff n) ++ v.drop (2 * nOff n)

/-- `concatenate([x[:N3], zeros(N3), x[N3:]])` (`_misc.py:139,168,193`) -/
def symEmbed (n : Nat) (x : List α) : List α :=
  x.take (nOff n) ++ List.replicate (nOff n) 0 ++ x.drop (nOff n)

/-- `concatenate([aS.real, aDI.real, aS.imag, aDI.imag])` (`_misc.py:162`) given the real and imaginary
parts of the Gell-Mann coordinates -/
def rcTStack (n : Nat) (vre vim : List α) : List α := symSelect n vre ++ symSelect n vim

/-- `x[:, :h] + 1j*x[:, h:]`, `h = (N1*N1+N1)//2`, followed by the zero-block embedding
(`_misc.py:167-168`): returns the (real, imaginary) coordinate vectors -/
def rcTUnstack (n : Nat) (x : List α) : List α × List α :=
  let h := (n * n + n) / 2
  (symEmbed n (x.take h), symEmbed n (x.drop h))

/-- `np.concatenate([np0.real, np0.imag], axis=2).reshape(N0, 2*N1*N2)` (`_misc.py:173`), one item -/
def rcFlatten (N1 N2 : Nat) (re im : Nat → Nat → α) : List α :=
  (List.range N1).flatMap fun a =>
    (List.range (2 * N2)).map fun b => if b < N2 then re a b else im a (b - N2)

/-- `x.reshape(-1, N1, 2*N2)`, `tmp3[:,:,:N2]`, `tmp3[:,:,N2:]` (`_misc.py:178-179`), one item -/
def rcUnflatten (_N1 N2 : Nat) (x : List α) : (Nat → Nat → α) × (Nat → Nat → α) :=
  (fun a b => x.getD (a * (2 * N2) + b) 0, fun a b => x.getD (a * (2 * N2) + N2 + b) 0)

variable [Neg α]

/-- `np.block([[r, -i], [i, r]])` (`_misc.py:170,180`) for an `N1×N2` item: the `(2N1)×(2N2)` real form -/
def blockRealify (N1 N2 : Nat) (re im : Nat → Nat → α) : Nat → Nat → α := fun p q =>
  if p < N1 then (if q < N2 then re p q else -(im p (q - N2)))
  else (if q < N2 then im (p - N1) q else re (p - N1) (q - N2))

end coords

/-! ## 4. real bipartite numerical range / rank-one detector -/

section npt
variable {α : Type}

/-- 4-index tensor `(dimA,dimB,dimA,dimB)` from a row-major flat list -/
def ofFlat4 [Zero α] (dA dB : Nat) (l : List α) : Nat → Nat → Nat → Nat → α :=
  fun a b a' b' => l.getD (((a * dB + b) * dA + a') * dB + b') 0

def toFlat4 (dA dB : Nat) (f : Nat → Nat → Nat → Nat → α) : List α :=
  (List.range dA).flatMap fun a => (List.range dB).flatMap fun b =>
    (List.range dA).flatMap fun a' => (List.range dB).map fun b' => f a b a' b'

/-- `mat.transpose(0,3,2,1)` (`_numerical_range.py:127`): `mat_pt[a,b,a',b'] = mat[a,b',a',b]`,
the partial transpose on the second factor. -/
def ptB (f : Nat → Nat → Nat → Nat → α) : Nat → Nat → Nat → Nat → α := fun a b a' b' => f a b' a' b

variable [Zero α] [Add α] [Mul α]

/-- `projector = tmp0.T @ tmp0` reshaped to `(dimA,dimB,dimA,dimB)` (`_numerical_range.py:173-175`);
`basis k a b` is the `k`-th (real) basis matrix, `K` their number. -/
def projector (K : Nat) (basis : Nat → Nat → Nat → α) : Nat → Nat → Nat → Nat → α :=
  fun a b a' b' => ((List.range K).map fun k => basis k a b * basis k a' b').foldr (· + ·) 0

/-- `p*mat + (1-p)*mat_pt` (`_numerical_range.py:135-144`) -/
def mixPT [Sub α] [One α] (p : α) (f : Nat → Nat → Nat → Nat → α) : Nat → Nat → Nat → Nat → α :=
  fun a b a' b' => p * f a b a' b' + (1 - p) * ptB f a b a' b'

/-- `xᵀ M x` for a real vector `x` indexed by pairs `(a,b)` (the Rayleigh numerator the eigen-solver bounds) -/
def quad4 (dA dB : Nat) (f : Nat → Nat → Nat → Nat → α) (x : Nat → Nat → α) : α :=
  ((List.range dA).map fun a => ((List.range dB).map fun b =>
    ((List.range dA).map fun a' => ((List.range dB).map fun b' =>
      x a b * f a b a' b' * x a' b').foldr (· + ·) 0).foldr (· + ·) 0).foldr (· + ·) 0).foldr (· + ·) 0

/-- `⟨u⊗v| M |u⊗v⟩` for real `u`, `v` -/
def quadForm (dA dB : Nat) (f : Nat → Nat → Nat → Nat → α) (u v : Nat → α) : α :=
  quad4 dA dB f fun a b => u a * v b

end npt

/-! ## 5. numerical range: Hermitian part along a direction -/

section nr
variable {α : Type} [Add α] [Mul α] [Conj α]

/-- `tmp0*matA + tmp0.conj()*matA_conj`, `tmp0 = exp(iθ)/2` (`_numerical_range.py:30-31,64-65`) -/
def hermPart (w : α) (A : Nat → Nat → α) : Nat → Nat → α :=
  fun i j => w * A i j + conj w * conj (A j i)

end nr

/-! ## 6. decision layer -/

/-- `np.abs(np.diag(U)).min() > zero_eps` of `is_vector_linear_independent` (`_misc.py:27`) -/
def luCertifies {α : Type} [LT α] [DecidableRel (α := α) (· < ·)] (minAbsDiagU zeroEps : α) : Bool :=
  decide (zeroEps < minAbsDiagU)

/-- `(S > zero_eps).sum()` (`_misc.py:57`): number of singular values kept -/
def keptCount {α : Type} [LT α] [DecidableRel (α := α) (· < ·)] (S : List α) (zeroEps : α) : Nat :=
  (S.filter fun s => decide (zeroEps < s)).length

end Numqi.MatrixSpace
