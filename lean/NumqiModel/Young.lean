/-
Model of the partition / Young-diagram / tableau code of `numqi/group/_symmetric.py` (C14).
No Mathlib import; executable; `NumqiProps/C14.lean` states its theorems about these constants.
-/
import NumqiModel.Scalar

namespace Numqi.Young

/-! ### number of partitions (`_get_sym_group_num_irrep_hf0`, `_symmetric.py:109-130`) -/

/-- the table entry `z0[n, m]` as the code fills it:
rows `n<2` and columns `m<2` are `1`, `z0[2, m≥2] = 2`, `z0[n,m] = z0[n,n]` for `3 ≤ n < m`,
and `z0[n,m] = Σ_{r=0}^{n//m} z0[n - r m, m-1]` for `n ≥ m ≥ 2`. -/
def z0 (m n : Nat) : Nat :=
  if m < 2 then 1
  else if n < 2 then 1
  else if n = 2 then 2
  else if n < m then z0 n n
  else ((List.range (n / m + 1)).map fun r => z0 (m - 1) (n - r * m)).sum
termination_by m
decreasing_by all_goals omega

/-- `get_sym_group_num_irrep(N)`: `N` for `N ≤ 3`, else `z0[N,N]`. -/
def numIrrep (N : Nat) : Nat := if N ≤ 3 then N else z0 N N

/-- `get_sym_group_num_irrep(N, return_full=True)[1]`: the `(N+1)×(N+1)` table, row index `n`, column `m`
(for `N ≤ 3` the code slices a literal `4×4` table, which has the same entries). -/
def numIrrepFull (N : Nat) : List (List Nat) :=
  (List.range (N + 1)).map fun n => (List.range (N + 1)).map fun m => z0 m n

/-! ### Young diagrams (`get_sym_group_young_diagram`, `_symmetric.py:151-211`) -/

/-- `z0[(n,m)]` of the code: the partitions of `n` into at most `m` parts as rows of length `m`
(non-increasing, zero padded), in the code's order: for `r = 0 … n//m` (the value added to all `m`
columns), the rows of `z0[(n - r m, m-1)]` padded by one column.  The five special cases of the
code (`n1==0`, `n1==1`, `m1==1`, `n1==2`, `min(n1,m1)`) are instances of this recursion. -/
def young : (m n : Nat) → List (List Nat)
  | 0, n => if n = 0 then [[]] else []
  | m + 1, n =>
    (List.range (n / (m + 1) + 1)).flatMap fun r =>
      (young m (n - r * (m + 1))).map fun row => (row ++ [0]).map (· + r)

/-- `get_sym_group_young_diagram(N)` (literals for `N ≤ 3`, `z0[(N,N)]` otherwise). -/
def youngDiagram (N : Nat) : List (List Nat) :=
  if N = 1 then [[1]]
  else if N = 2 then [[2,0],[1,1]]
  else if N = 3 then [[3,0,0],[2,1,0],[1,1,1]]
  else young N N

/-- the shapes of `N` boxes as the code's callers use them: rows of `youngDiagram` without the zeros -/
def shapes (N : Nat) : List (List Nat) := (youngDiagram N).map (·.filter (0 < ·))

/-! ### mask, transpose, hook length (`_symmetric.py:214-286`) -/

/-- `check_young_diagram`: non-empty, positive, non-increasing -/
def checkShape : List Nat → Bool
  | [] => false
  | [a] => 0 < a
  | a :: b :: rest => a ≥ b && checkShape (b :: rest)

/-- `get_young_diagram_mask`: `mask[r][c] = (young[r] > c)`, `c < young[0]` -/
def mask (shape : List Nat) : List (List Nat) :=
  shape.map fun a => (List.range (shape.headD 0)).map fun c => if a > c then 1 else 0

/-- `get_young_diagram_transpose`: column lengths, `youngT[c] = #{r : young[r] > c}` -/
def transpose (shape : List Nat) : List Nat :=
  (List.range (shape.headD 0)).map fun c => (shape.filter (· > c)).length

/-- hook length of cell `(r,c)` as the two reversed cumulative sums of the mask compute it:
`mask[r:,c].sum() + mask[r,c:].sum() - 1` -/
def hookAt (shape : List Nat) (r c : Nat) : Nat :=
  ((shape.drop r).filter (· > c)).length + (shape.getD r 0 - c) - 1

/-- `tmp2[mask]`: the hook lengths of all cells, row by row -/
def hooks (shape : List Nat) : List Nat :=
  (List.range shape.length).flatMap fun r => (List.range (shape.getD r 0)).map fun c => hookAt shape r c

/-- `_get_hook_length_hf0`: with `tmp4[x] = 1 - #{cells with hook x}` for `x = 1..N`,
`prod(k**v for v>0) // prod(k**(-v) for v<0)`. -/
def hookLength (shape : List Nat) : Nat :=
  let N := shape.sum
  let hs := hooks shape
  let xs := List.range' 1 N
  let num := (xs.map fun x => if hs.count x = 0 then x else 1).foldl (· * ·) 1
  let den := (xs.map fun x => x ^ (hs.count x - 1)).foldl (· * ·) 1
  num / den

/-! ### tableau enumeration (`_symmetric.py:289-364`) -/

/-- Python `range(a, b)` -/
def pyRange (a b : Nat) : List Nat := List.range' a (b - a)

/-- the position tuples of `_get_bounded_combination`: strictly increasing `xy`, `bound[i][0] ≤ xy[i] < bound[i][1]`,
generated column by column exactly as the nested generators do (`_symmetric.py:289-298`). -/
def boundedComb : List (Nat × Nat) → List (List Nat)
  | [] => []
  | b0 :: rest =>
    rest.foldl (fun acc b => acc.flatMap fun x => (pyRange (max (x.getLastD 0 + 1) b.1) b.2).map fun y => x ++ [y])
      ((pyRange b0.1 b0.2).map fun x => [x])

/-- `tmp1 = [max(x-i-1,0) for i,x in enumerate(xy)]`: lower bounds for the next row -/
def nextLower (xy : List Nat) : List Nat := (xy.zipIdx).map fun (x, i) => x - i - 1

/-- `np0[list(xy)]` -/
def pick (np0 : List Nat) (xy : List Nat) : List Nat := xy.map fun i => np0.getD i 0

/-- `np0[sorted(set(range(len(np0))) - set(xy))]` -/
def unpicked (np0 : List Nat) (xy : List Nat) : List Nat :=
  ((List.range np0.length).filter fun i => !xy.contains i).map fun i => np0.getD i 0

/-- `itertools.combinations(range(m), k)` as position lists, lexicographic -/
def combPos : Nat → Nat → Nat → List (List Nat)
  | 0, _, _ => [[]]
  | k + 1, start, m => (pyRange start m).flatMap fun i => (combPos k (i + 1) m).map (i :: ·)


def padTo (w : Nat) (row : List Nat) : List Nat := row ++ List.replicate (w - row.length) 0

/-- `_get_all_young_tableaux_hf0(young, index, lower_bound)`; a tableau is the list of its rows,
zero padded to the width `young[0]` as the code's arrays are. -/
def tabAux : List Nat → List Nat → List Nat → List (List (List Nat))
  | [], _, _ => []
  | [_], index, _ => [[index]]                                   -- `len(young)==1`
  | r :: r2 :: rest, index, lower =>
    let shape := r :: r2 :: rest
    let youngT := transpose shape
    let N := shape.sum
    let np0 := index.drop 1
    let i0 := index.headD 0
    if r = 1 then [index.map fun v => [v]]                       -- `young[0]==1`
    else if r2 = 1 then                                           -- hook shape
      if lower.all (· == 0) then
        (combPos (r - 1) 0 np0.length).map fun xy =>
          (i0 :: pick np0 xy) :: (unpicked np0 xy).map fun v => padTo r [v]
      else
        let bound := lower.zip (pyRange (youngT.headD 0) youngT.sum)
        (boundedComb bound).map fun xy =>
          (i0 :: pick np0 xy) :: (unpicked np0 xy).map fun v => padTo r [v]
    else
      -- `upper_bound = young.sum() - cumsum(youngT[::-1])[::-1][1:]`
      let upper := (List.range' 1 (r - 1)).map fun c => N - (youngT.drop c).sum
      let bound := lower.zip upper
      (boundedComb bound).flatMap fun xy =>
        (tabAux (r2 :: rest) (unpicked np0 xy) ((nextLower xy).take (r2 - 1))).map fun t =>
          (i0 :: pick np0 xy) :: t.map (padTo r)

/-- `get_all_young_tableaux(young)`: `index = arange(N)`, `lower_bound = [0]*(young[0]-1)`. -/
def allTableaux (shape : List Nat) : List (List (List Nat)) :=
  tabAux shape (List.range shape.sum) (List.replicate (shape.headD 0 - 1) 0)

/-! ### what "standard tableau of the given shape" means (checked, not assumed) -/

/-- the cells of a padded tableau that lie inside the shape -/
def cells (shape : List Nat) (t : List (List Nat)) : List (List Nat) :=
  (shape.zip t).map fun (a, row) => row.take a

def strictIncr : List Nat → Bool
  | [] => true
  | [_] => true
  | a :: b :: rest => a < b && strictIncr (b :: rest)

/-- all entries are `< N` and pairwise different (visited set kept as a bit mask) -/
def distinctBelow (N : Nat) : List Nat → Nat → Bool
  | [], _ => true
  | v :: rest, seen => decide (v < N) && !(seen.testBit v) && distinctBelow N rest (seen ||| (1 <<< v))

/-- every entry is smaller than the entry below it (rows are compared pairwise on their common columns;
the shape is non-increasing, so this is all of the lower row) -/
def colsIncr : List (List Nat) → Bool
  | [] => true
  | [_] => true
  | a :: b :: rest => (List.zipWith (fun x y => decide (x < y)) a b).all id && colsIncr (b :: rest)

/-- the cells have the row lengths of the shape, hold `N` pairwise different numbers `< N` (hence `0..N-1` each once),
rows increase left to right and columns top to bottom -/
def isStandard (shape : List Nat) (t : List (List Nat)) : Bool :=
  let c := cells shape t
  t.length == shape.length
    && (c.map (·.length)) == shape
    && distinctBelow shape.sum c.flatten 0
    && c.all strictIncr
    && colsIncr c

/-- lexicographic `<` on flattened tableaux -/
def lexLt : List Nat → List Nat → Bool
  | [], [] => false
  | [], _ :: _ => true
  | _ :: _, [] => false
  | a :: as, b :: bs => a < b || (a == b && lexLt as bs)

/-- strictly increasing in the lexicographic order of the flattened cells (hence pairwise distinct) -/
def strictLex : List (List Nat) → Bool
  | [] => true
  | [_] => true
  | a :: b :: rest => lexLt a b && strictLex (b :: rest)

/-- number of standard tableaux by the corner-removal recurrence
`f(λ) = Σ_{removable corners} f(λ − corner)` — independent of the hook formula and of the enumeration. -/
def sytCount : Nat → List Nat → Nat
  | 0, _ => 1
  | fuel + 1, shape =>
    if shape.sum = 0 then 1
    else
      ((List.range shape.length).map fun r =>
        let a := shape.getD r 0
        if a > 0 && a > shape.getD (r + 1) 0 then
          sytCount fuel ((shape.set r (a - 1)).filter (0 < ·))
        else 0).sum

/-- everything the property says about one shape, as one Boolean -/
def tableauxOK (shape : List Nat) : Bool :=
  let ts := allTableaux shape
  ts.length == hookLength shape
    && ts.length == sytCount shape.sum shape
    && ts.all (isStandard shape)
    && strictLex (ts.map fun t => (cells shape t).flatten)

/-! ### printing -/

def rowStr (r : List Nat) : String := ",".intercalate (r.map toString)
def rowsStr (T : List (List Nat)) : String := ";".intercalate (T.map rowStr)

end Numqi.Young
