/-
Model of the hand-written backward passes of numqi.  No Mathlib import.

* `opGrad`, `applyGateGrad`            — `numqi.sim.state.apply_gate_grad` (`state.py:95-125`)
* `applyControlledGrad`                — `apply_control_n_gate_grad` (`state.py:168-208`)
* `PGate`, `forward`, `backward`       — `_CircuitFunction.forward/backward` (`sim/_torch_utils.py:9-78`): the reverse
                                         sweep that un-applies every gate and accumulates operator gradients (`+=`)
* `customApply`, `customGrad`          — a `kind='custom'` diagonal-phase gate: `numqi.query.GroverOracle` /
                                         `FractionalGroverOracle` `.forward` / `.grad_backward` (`query/_gradient_model.py:47-105`)
* `slotTable`                          — `CircuitTorchWrapper._setup` (`_torch_utils.py:101-156`): which row of which
                                         stacked gate tensor a gate reads (`ind_gate_to_ind_torch`)
* `klForward`, `klBackward`            — `_KnillLaflammeInnerProductTorchOp` (`qec/_internal.py:150-189`)
* `sylvBackward`                       — `_torch_psd_sqrtm_backward_repeat` (`_torch_op.py:28-58`)
* `flatten`, `unflatten`, `sortedNames`— the flat-parameter bridge (`optimize/_internal.py:8-40`)

The gate application itself (`applyGate`, `applyControlled`, index resolution `RawOp.compile`) is the model of the
simulator in `NumqiModel/Sim.lean` (property C03) and is imported, not duplicated.
-/
import NumqiModel.Sim
import NumqiModel.PartialTrace
import NumqiModel.Channel

namespace Numqi
namespace Backward

section gates
variable {α : Type} [Add α] [Mul α] [Zero α] [Conj α] {n k n' : Nat}

/-- `op.T` -/
def transposeMat (U : Mat k α) : Mat k α := fun a b => U b a
/-- `op.T.conj()` -/
def daggerMat (U : Mat k α) : Mat k α := fun a b => conj (U b a)
def conjVec (ψ : Vec n α) : Vec n α := fun x => conj (ψ x)

/-- The einsum of `state.py:114-121`: `q0_grad` carries labels `0..n-1`, the (already un-applied) `q0_conj` carries the
fresh label `n+j` at target position `index[j]`, the output labels are `index ++ fresh`:
`op_grad[a, b] = Σ_{x : x_t = a} q0_grad[x] · q0_conj[x with x_t := b]`. -/
def opGrad (t : Fin k → Fin n) (g qc : Vec n α) : Mat k α :=
  fun a b => sumBits n fun x => if Bits.beq (x.sel t) a then g x * qc (x.upd t b) else 0

/-- `apply_gate_grad(q0_conj, q0_grad, op, index)` ↦ `(q0_conj', q0_grad', op_grad)` -/
def applyGateGrad (U : Mat k α) (t : Fin k → Fin n) (qc g : Vec n α) : Vec n α × Vec n α × Mat k α :=
  let qc' := applyGate (transposeMat U) t qc
  (qc', applyGate (daggerMat U) t g, opGrad t g qc')

/-- `v.reshape(shape0)[index_tuple0]`: the sub-vector on which all controls are 1 -/
def slice (rest : Fin n' → Fin n) (v : Vec n α) : Vec n' α := fun z => v ((Bits.ones n).upd rest z)

/-- `apply_control_n_gate_grad` (`state.py:168-208`) -/
def applyControlledGrad (U : Mat k α) (isCtrl : Fin n → Bool) (rest : Fin n' → Fin n) (tNew : Fin k → Fin n')
    (qc g : Vec n α) : Vec n α × Vec n α × Mat k α :=
  let qc' := applyControlled (transposeMat U) isCtrl rest tNew qc
  (qc', applyControlled (daggerMat U) isCtrl rest tNew g, opGrad tNew (slice rest g) (slice rest qc'))

/-! ### `kind='custom'`: a diagonal-phase gate (`query/_gradient_model.py:47-105`)

`GroverOracle` / `FractionalGroverOracle` reshape the state to a square matrix and multiply its diagonal by a scalar `a`
(`-1`, resp. `exp(-iπθ)` = the gate's row of the stacked tensor of its name).  The model is abstract in *which* entries are
multiplied (`diag : Bits n → Bool`; the driver instantiates it with "row index = column index"). -/

/-- the only entry of a `1×1` operator (`k = 0`): the scalar of a custom gate's slot -/
def scalarOf (U : Mat 0 α) : α := U (fun i => i.elim0) (fun i => i.elim0)

/-- `gate.forward(q0)`: `q0[idx, idx] *= array` -/
def customApply (a : α) (diag : Bits n → Bool) (ψ : Vec n α) : Vec n α := fun x => if diag x then ψ x * a else ψ x

/-- `gate.grad_backward(q0_conj, q0_grad)` ↦ `(q0_conj', q0_grad', op_grad)`:
`q0_conj[idx,idx] *= array; op_grad = np.dot(q0_conj[idx,idx], q0_grad[idx,idx]); q0_grad[idx,idx] *= array.conj()` -/
def customGrad (a : α) (diag : Bits n → Bool) (qc g : Vec n α) : Vec n α × Vec n α × Mat 0 α :=
  let qc' := customApply a diag qc
  (qc', customApply (conj a) diag g, fun _ _ => sumBits n fun x => if diag x then qc' x * g x else 0)

/-- `inner_product_grad(q0, q1, c_grad)` (`state.py:260-269`), the rule for `c = vdot(q0, q1)`:
`(q0_grad, q1_grad) = (q1·conj(c_grad), q0·c_grad)`; `tag_grad` only selects which of the two is returned. -/
def innerProductGrad (q0 q1 : Vec n α) (c : α) : Vec n α × Vec n α := (fun x => q1 x * conj c, fun x => q0 x * c)

/-! ### the reverse sweep -/

/-- where a gate takes its matrix from: a constant array (`info['array']`) or row `slot` of the stacked gate
tensors of its size (`gate_np_dict[name][ind_torch]`; `slot` encodes the pair `(name, ind_torch)`) -/
inductive Src (k : Nat) (α : Type) where
  | fixed (U : Mat k α)
  | param (slot : Nat)

/-- the gate tensors handed to `_CircuitFunction` (and their gradients): for every gate size, a family of matrices -/
abbrev Params (α : Type) := (k : Nat) → Nat → Mat k α

def Src.get (Θ : Params α) : Src k α → Mat k α
  | .fixed U => U
  | .param s => Θ k s

/-- one entry of `ind_gate_to_info` (kinds `unitary`, `control` and `custom`; `measure` is rejected by the backward pass).
A custom gate's scalar is a `1×1` source: constant (`GroverOracle`: `-1`; a frozen `FractionalGroverOracle`) or slot `s` of the
size-0 family — the row `ind_torch` of the stacked tensor of its name, which is also where its `op_grad` must be accumulated. -/
inductive PGate (n : Nat) (α : Type) where
  | unitary {k : Nat} (src : Src k α) (t : Fin k → Fin n)
  | control {k n' : Nat} (src : Src k α) (isCtrl : Fin n → Bool) (rest : Fin n' → Fin n) (tNew : Fin k → Fin n')
  | custom (src : Src 0 α) (diag : Bits n → Bool)

/-- one step of the forward loop (`_torch_utils.py:19-37`) -/
def PGate.apply (Θ : Params α) : PGate n α → Vec n α → Vec n α
  | .unitary src t, ψ => applyGate (src.get Θ) t ψ
  | .control src c r tn, ψ => applyControlled (src.get Θ) c r tn ψ
  | .custom src d, ψ => customApply (scalarOf (src.get Θ)) d ψ

/-- `_CircuitFunction.forward` -/
def forward (Θ : Params α) (gates : List (PGate n α)) (ψ : Vec n α) : Vec n α :=
  gates.foldl (fun ψ g => g.apply Θ ψ) ψ

/-- `gate_grad_np_dict[name][ind_torch] += op_grad` -/
def addAt (G : Params α) (k0 s0 : Nat) (D : Mat k0 α) : Params α :=
  fun k s => if h : k = k0 then (if s = s0 then fun a b => G k s a b + (h ▸ D) a b else G k s) else G k s

def Src.accumulate (G : Params α) (D : Mat k α) : Src k α → Params α
  | .fixed _ => G
  | .param s => addAt G k s D

/-- one step of the backward loop (`_torch_utils.py:52-75`) on `(q0_conj, q0_grad, gate_grad_np_dict)` -/
def PGate.back (Θ : Params α) : PGate n α → Vec n α × Vec n α × Params α → Vec n α × Vec n α × Params α
  | .unitary src t, (qc, g, G) =>
    let r := applyGateGrad (src.get Θ) t qc g
    (r.1, r.2.1, src.accumulate G r.2.2)
  | .control src c rest tn, (qc, g, G) =>
    let r := applyControlledGrad (src.get Θ) c rest tn qc g
    (r.1, r.2.1, src.accumulate G r.2.2)
  | .custom src d, (qc, g, G) =>
    let r := customGrad (scalarOf (src.get Θ)) d qc g
    (r.1, r.2.1, src.accumulate G r.2.2)

/-- `_CircuitFunction.backward`: the gates are visited from the last to the first -/
def backward (Θ : Params α) (gates : List (PGate n α)) (init : Vec n α × Vec n α × Params α) :
    Vec n α × Vec n α × Params α :=
  gates.foldr (fun gate acc => gate.back Θ acc) init

/-- first-order change of one gate's output when its matrix changes by `δΘ` (zero for constant gates; the controlled
gate is affine in its matrix: only the control-on block depends on it) -/
def PGate.dapply (δΘ : Params α) : PGate n α → Vec n α → Vec n α
  | .unitary (.fixed _) _, _ => fun _ => 0
  | .unitary (.param s) t, ψ => applyGate (δΘ _ s) t ψ
  | .control (.fixed _) _ _ _, _ => fun _ => 0
  | .control (.param s) c r tn, ψ =>
    fun x => if ctrlOn c x then applyGate (δΘ _ s) tn (slice r ψ) (x.sel r) else 0
  | .custom (.fixed _) _, _ => fun _ => 0
  | .custom (.param s) d, ψ => fun x => if d x then ψ x * scalarOf (δΘ 0 s) else 0

/-- derivative of `forward` at `(Θ, ψ)` in the direction `(δΘ, δψ)` by the product rule -/
def dforward (Θ δΘ : Params α) : List (PGate n α) → Vec n α → Vec n α → Vec n α
  | [], _, δψ => δψ
  | g :: rest, ψ, δψ => dforward Θ δΘ rest (g.apply Θ ψ) (fun x => g.apply Θ δψ x + g.dapply δΘ ψ x)

end gates

/-! ### `CircuitTorchWrapper._setup`: which row of which stacked tensor a gate reads -/

/-- what `_setup` looks at: the gate's name, the identity of the gate object, whether it is trainable
(`requires_grad` with plain args) or a placeholder (`args` is a `_ParameterHolder`) -/
structure GateDesc where
  name : String
  objId : Nat
  trainable : Bool
  placeholder : Bool
deriving Repr

/-- distinct object ids of the trainable gates called `nm`, in first-come order (`_get_first_come_id`) -/
def firstComeIds (gs : List GateDesc) (nm : String) : List Nat :=
  (gs.filter fun g => g.trainable && !g.placeholder && g.name == nm).foldl
    (fun acc g => if acc.contains g.objId then acc else acc ++ [g.objId]) []

/-- positions (in the gate list) of the placeholder gates called `nm` (`ind_torch_to_ind_hgate[nm]`) -/
def placeholderPositions (gs : List GateDesc) (nm : String) : List Nat :=
  (gs.zipIdx.filter fun p => p.1.placeholder && p.1.name == nm).map (·.2)

/-- `ind_gate_to_ind_torch[i]` = `(name, row)`; `none` for gates with a constant array -/
def slotOf (gs : List GateDesc) (i : Nat) : Option (String × Nat) :=
  match gs[i]? with
  | none => none
  | some g =>
    if g.placeholder then
      some (g.name, (placeholderPositions gs g.name).idxOf i + (firstComeIds gs g.name).length)
    else if g.trainable then some (g.name, (firstComeIds gs g.name).idxOf g.objId)
    else none

/-- `CircuitTorchWrapper.forward` (`_torch_utils.py:197-218`): the tensor of name `nm` handed to `_CircuitFunction` is
`concat([pgate_torch_dict[nm], hgate_torch_dict[nm]])` — one row per distinct trainable object in first-come order (the rows
of `theta[nm]`), then one row per placeholder gate in circuit order (`setP`, `_torch_utils.py:184-195`).  Row tags:
`(false, objId)` for a trainable row, `(true, position)` for a placeholder row. -/
def stackTags (gs : List GateDesc) (nm : String) : List (Bool × Nat) :=
  (firstComeIds gs nm).map (fun o => (false, o)) ++ (placeholderPositions gs nm).map (fun p => (true, p))

/-! ### array-level execution of the sweep (what `Driver/C04.lean` runs)

Evaluating `forward` / `backward` as nested closures is exponential in the number of gates, so the driver runs the same
folds with a `tabulate` / `lookup` round trip after every gate and with the gradient buffers kept as a table of flat arrays.
`NumqiProofs/Backward.lean` proves `lookup (forwardA …) = forward …` and `absSt (backwardA …) = backward … (absSt …)`
(`forwardA_eq`, `backwardA_eq`), under the stated guard that every parametrised gate's slot is a key of the table. -/

section arrays
variable {α : Type} [Add α] [Mul α] [Zero α] [Conj α] {n : Nat}

/-- gate tensors / gradient buffers as a table `(k, slot, flat 2^k×2^k array)`; absent keys read as the zero matrix -/
abbrev ParamTable (α : Type) := List (Nat × Nat × Array α)

def paramsOf (tab : ParamTable α) : Params α :=
  fun k s => match tab.find? fun e => e.1 == k && e.2.1 == s with
    | some e => lookupMat e.2.2
    | none => fun _ _ => 0

/-- `(q0_conj, q0_grad, gate_grad_np_dict)` on flat arrays -/
abbrev StA (α : Type) := Array α × Array α × ParamTable α

/-- the state the theorems talk about -/
def absSt (st : StA α) : Vec n α × Vec n α × Params α := (lookup st.1, lookup st.2.1, paramsOf st.2.2)

def forwardA (Θ : Params α) (gates : List (PGate n α)) (a : Array α) : Array α :=
  gates.foldl (fun a g => tabulate (n := n) (g.apply Θ (lookup a))) a

def PGate.backA (Θ : Params α) (gate : PGate n α) (st : StA α) : StA α :=
  let r := gate.back Θ (absSt (n := n) st)
  (tabulate r.1, tabulate r.2.1, st.2.2.map fun e => (e.1, e.2.1, tabulateMat (k := e.1) (r.2.2 e.1 e.2.1)))

def backwardA (Θ : Params α) (gates : List (PGate n α)) (init : StA α) : StA α :=
  gates.foldr (fun gate acc => gate.backA Θ acc) init

/-- the slot a gate accumulates into is a key of the table (constant gates: nothing to check) -/
def PGate.Covered (tab : ParamTable α) : PGate n α → Prop
  | .unitary (k := k) (.param s) _ => ∃ e ∈ tab, e.1 = k ∧ e.2.1 = s
  | .control (k := k) (.param s) _ _ _ => ∃ e ∈ tab, e.1 = k ∧ e.2.1 = s
  | .custom (.param s) _ => ∃ e ∈ tab, e.1 = 0 ∧ e.2.1 = s
  | _ => True

def PGate.coveredB (tab : ParamTable α) : PGate n α → Bool
  | .unitary (k := k) (.param s) _ => tab.any fun e => e.1 == k && e.2.1 == s
  | .control (k := k) (.param s) _ _ _ => tab.any fun e => e.1 == k && e.2.1 == s
  | .custom (.param s) _ => tab.any fun e => e.1 == 0 && e.2.1 == s
  | _ => true

end arrays

/-! ### from `_setup`'s `(name, row)` to the slot of the model (`Src.param`) -/

/-- canonical slot of gate `i`: the index of the first gate that reads the same `(name, row)` -/
def repSlot (gs : List GateDesc) (i : Nat) : Option Nat :=
  match slotOf gs i with
  | none => none
  | some p => (List.range gs.length).find? fun j => slotOf gs j == some p

/-- `ind_gate_to_info[-1]` = `hpgate_name_list`: the sorted names that own a stacked tensor -/
def nameList (gs : List GateDesc) : List String :=
  let names := (List.range gs.length).filterMap fun i => (slotOf gs i).map (·.1)
  (names.foldr (fun nm acc => if acc.contains nm then acc else nm :: acc) []).mergeSort (fun a b => a ≤ b)

/-- number of rows of the stacked tensor of `nm` (`max ind_torch + 1`) -/
def rowCount (gs : List GateDesc) (nm : String) : Nat :=
  ((List.range gs.length).filterMap fun i => match slotOf gs i with
    | some (m, r) => if m == nm then some (r + 1) else none
    | none => none).foldl max 0


/-! ### Knill–Laflamme inner product (`qec/_internal.py:150-189`) -/

section kl
variable {α : Type} [Add α] [Mul α] [Zero α] [Conj α] {m : Nat}

/-- an operator sequence applied to every code word (the logical index is a spectator) -/
def applySeq (ops : List (Op m α)) (v : Vec m α) : Vec m α := ops.foldl (fun v g => g.apply v) v

/-- `ret[i,j] = Σ_x conj(q0[i,x]) · (O q0[j])(x)`, `O` = the operator sequence, first entry applied first -/
def klForward (L : Nat) (ops : List (Op m α)) (q : Nat → Vec m α) (i j : Nat) : α :=
  vdot (q i) (applySeq ops (q j))

/-- the two accumulations of the backward pass for one operator sequence:
`conj(G) @ (O q)` and `G.T @ (O† q)`, `O†` = reversed sequence of `op.T.conj()` (passed as `opsDagRev`). -/
def klBackward (L : Nat) (ops opsDagRev : List (Op m α)) (q : Nat → Vec m α) (G : Nat → Nat → α) (i : Nat) : Vec m α :=
  fun x => sumRange L (fun j => conj (G i j) * applySeq ops (q j) x)
         + sumRange L (fun j => G j i * applySeq opsDagRev (q j) x)

/-- the daggered, reversed sequence the code builds with `reversed(op_list[ind0])` and `op_i.T.conj()` -/
def dagRev (ops : List (Op m α)) : List (Op m α) :=
  (ops.map fun g => match g with
    | .unitary U t => Op.unitary (daggerMat U) t
    | .control U c r tn => Op.control (daggerMat U) c r tn
    | .measure s o => Op.measure s o).reverse

end kl

/-! ### PSD square root, Sylvester rule (`_torch_op.py:28-58`) -/

section sylvester
variable {α : Type} [Add α] [Mul α] [Div α] [Zero α] [Conj α] [DecidableEq α]

/-- `EVCh @ ret @ EVC` -/
def rotateIn (n : Nat) (V G : Nat → Nat → α) (a b : Nat) : α :=
  sumRange n fun p => sumRange n fun q => conj (V p a) * G p q * V q b

/-- `EVC @ tmp1 @ EVCh` -/
def rotateOut (n : Nat) (V M : Nat → Nat → α) (i j : Nat) : α :=
  sumRange n fun a => sumRange n fun b => V i a * M a b * conj (V j b)

/-- one pass of the loop: divide by `s_a + s_b` in the eigenbasis; the diagonal entry of a zero eigenvalue is set to 0
(`tmp1[ind_zero…] = 0`) -/
def sylvStep (n : Nat) (V : Nat → Nat → α) (s : Nat → α) (G : Nat → Nat → α) : Nat → Nat → α :=
  rotateOut n V fun a b => if a = b ∧ s a = 0 then 0 else rotateIn n V G a b / (s a + s b)

/-- `_torch_psd_sqrtm_backward_repeat`: `repeat` passes, squaring the stored roots between passes -/
def sylvBackward (n : Nat) (V : Nat → Nat → α) : Nat → (Nat → α) → (Nat → Nat → α) → Nat → Nat → α
  | 0, _, G => G
  | r + 1, s, G => sylvBackward n V r (fun a => s a * s a) (sylvStep n V s G)

end sylvester

/-! ### PSD square root, forward map at the eigenvalue level (`_torch_op.py:7-25`)

`EVL, EVC = eigh(matA)` is a contract; the code then clamps (`maximum(0, EVL)`), takes `repeat` square roots and returns
`(EVC * sqrt_EVL) @ EVC†`, saving `(sqrt_EVL, EVC)` for the backward pass. -/

section sqrtmfwd
variable {α : Type} [Add α] [Mul α] [Zero α] [Conj α] [Channel.Analytic α]

def rootIter : Nat → α → α
  | 0, x => x
  | r + 1, x => Channel.Analytic.sqrt (rootIter r x)

/-- `sqrt_EVL` (the first saved tensor) -/
def storedRoots (r : Nat) (evl : Nat → α) (a : Nat) : α := rootIter r (Channel.Analytic.max 0 (evl a))

/-- `_torch_psd_sqrtm_forward_repeat(matA, repeat=r)` given the eigen-data -/
def psdSqrtmForward (m : Nat) (V : Nat → Nat → α) (r : Nat) (evl : Nat → α) (i j : Nat) : α :=
  sumRange m fun a => V i a * storedRoots r evl a * conj (V j a)

end sqrtmfwd

/-! ### array-level execution of the repeated Sylvester rule -/

section sylvA
variable {α : Type} [Add α] [Mul α] [Div α] [Zero α] [Conj α] [DecidableEq α]

def tabMat (m : Nat) (X : Nat → Nat → α) : Array α := Array.ofFn (n := m * m) fun q => X (q.val / m) (q.val % m)
def ofTab (m : Nat) (a : Array α) : Nat → Nat → α := fun i j => a.getD (i * m + j) 0

/-- `sylvBackward` with the intermediate result tabulated after every pass (`sylvBackwardA_eq`: same values for `i, j < m`) -/
def sylvBackwardA (m : Nat) (V : Nat → Nat → α) : Nat → (Nat → α) → Array α → Array α
  | 0, _, G => G
  | r + 1, s, G => sylvBackwardA m V r (fun a => s a * s a) (tabMat m (sylvStep m V s (ofTab m G)))

/-- the division guard of one call: every pass divides only by non-zero sums, except on the diagonal of a zero root where the
rule stores 0 (`ind_zero`); stated on the roots of the first pass (`s_a = s_b = 0, a ≠ b` ⇔ some later pass divides by zero
as well, for real non-negative roots) -/
def sylvDivides (m : Nat) (s : Nat → α) : Bool :=
  (List.range m).all fun a => (List.range m).all fun b => a == b || !(decide (s a + s b = 0))

/-- every pass of `sylvBackward m V r s` divides only by non-zero sums (off the zero-root diagonal) -/
def sylvDividesAll (m : Nat) : Nat → (Nat → α) → Bool
  | 0, _ => true
  | r + 1, s => sylvDivides m s && sylvDividesAll m r (fun a => s a * s a)

end sylvA

/-- exact division in ℚ[i] (`x / 0 = 0`, the convention of a Lean field; `NumqiProofs/BackwardCarrier.lean` proves that `QI` with
this division is a field, so the Sylvester theorems apply to the carrier the driver executes) -/
instance : Div QI := ⟨fun a b =>
  let d := QI.normSq b
  ⟨(a.re * b.re + a.im * b.im) / d, (a.im * b.re - a.re * b.im) / d⟩⟩

/-! ### flat-parameter bridge (`optimize/_internal.py:8-40`) -/

/-- insertion sort of `(name, data)` pairs by name (`sorted(..., key=lambda x: x[0])`, names are distinct) -/
def insertByName {β : Type} (p : String × β) : List (String × β) → List (String × β)
  | [] => [p]
  | q :: qs => if p.1 < q.1 then p :: q :: qs else q :: insertByName p qs

def sortByName {β : Type} (l : List (String × β)) : List (String × β) := l.foldr insertByName []

/-- `get_model_flat_parameter` / `get_model_flat_grad`: concatenation in sorted-name order -/
def flatten {β : Type} (ps : List (String × List β)) : List β := (sortByName ps).flatMap (·.2)

/-- `set_model_flat_parameter`: cut `theta` at the cumulative sizes (`index01`) of the sorted parameters -/
def unflatten {β : Type} : List (String × Nat) → List β → List (String × List β)
  | [], _ => []
  | (nm, len) :: rest, θ => (nm, θ.take len) :: unflatten rest (θ.drop len)

/-! ### gradient hand-off to the optimiser (`optimize/_internal.py:8-63`, `192-258`)

`_get_sorted_parameter` keeps the parameters with `requires_grad=True`, sorted by name; `get_model_flat_parameter`,
`get_model_flat_grad`, `set_model_flat_parameter` and the closure returned by `hf_model_wrapper` all go through it, so frozen
parameters are skipped consistently and the vector handed to `scipy.optimize.minimize` (`jac=True`) is the concatenation of the
`.grad`s in that order. -/

/-- `(name, requires_grad, flat data)` in registration order -/
abbrev ParamList (β : Type) := List (String × Bool × List β)

/-- `_get_sorted_parameter` -/
def trainable {β : Type} (ps : ParamList β) : List (String × List β) :=
  sortByName ((ps.filter fun p => p.2.1).map fun p => (p.1, p.2.2))

/-- `get_model_flat_parameter` / `get_model_flat_grad` -/
def getFlat {β : Type} (ps : ParamList β) : List β := (trainable ps).flatMap (·.2)

/-- `set_model_flat_parameter`: the trainable parameters after the call (name, new data), `index01` from the cumulative sizes -/
def setFlat {β : Type} (ps : ParamList β) (θ : List β) : List (String × List β) :=
  unflatten ((trainable ps).map fun p => (p.1, p.2.length)) θ

/-- every parameter after `set_model_flat_parameter` (registration order; frozen ones untouched) -/
def afterSet {β : Type} (ps : ParamList β) (θ : List β) : ParamList β :=
  ps.map fun p => if p.2.1 then
      (p.1, true, (((setFlat ps θ).find? fun q => q.1 == p.1).map (·.2)).getD p.2.2)
    else p

end Backward
end Numqi
