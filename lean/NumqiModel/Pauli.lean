/-
Model of `numqi/gate/_pauli.py` (binary-symplectic Pauli operators with two phase bits).
No Mathlib import: everything here is executable and is what `Driver/Main.lean` runs.

F2 layout of the implementation: `[s0, s1, x_0..x_{n-1}, z_0..z_{n-1}]`, operator
`i^(2 s0 + s1) · X^x · Z^z` (qubit 0 most significant).
-/
import NumqiModel.Scalar

namespace Numqi

/-- bit vectors of length `n` -/
abbrev Bits (n : Nat) := Fin n → Bool

namespace Bits
def ofList (n : Nat) (l : List Bool) : Bits n := fun i => l.getD i.val false
def toList {n : Nat} (b : Bits n) : List Bool := List.ofFn b
def xor {n : Nat} (a b : Bits n) : Bits n := fun i => (a i) ^^ (b i)
/-- integer dot product `Σ a_i b_i` (the implementation uses `np.dot` on uint8, then `% 2` or `% 4`) -/
def dotN {n : Nat} (a b : Bits n) : Nat :=
  ((List.finRange n).map fun i => (a i && b i).toNat).sum
def beq {n : Nat} (a b : Bits n) : Bool := (List.finRange n).all fun i => a i == b i
end Bits

/-- phased `n`-qubit Pauli operator `i^(2 s0 + s1) X^x Z^z` -/
structure Pauli (n : Nat) where
  s0 : Bool
  s1 : Bool
  x : Bits n
  z : Bits n

namespace Pauli
variable {n : Nat}

/-- exponent `k` of the phase `i^k`, as stored in the two sign bits -/
def phaseExp (p : Pauli n) : Nat := 2 * p.s0.toNat + p.s1.toNat

def beq (p q : Pauli n) : Bool :=
  p.s0 == q.s0 && p.s1 == q.s1 && Bits.beq p.x q.x && Bits.beq p.z q.z

/-- `PauliOperator.__matmul__` (`_pauli.py:298-305`):
`F2 = (a+b)%2`, `F2[0] = (a0+b0 + z_a·x_b + (a1+b1)//2) % 2`. -/
def mul (a b : Pauli n) : Pauli n :=
  { s0 := (a.s0.toNat + b.s0.toNat + (Bits.dotN a.z b.x) % 2 + (a.s1.toNat + b.s1.toNat) / 2) % 2 == 1
    s1 := a.s1 ^^ b.s1
    x := Bits.xor a.x b.x
    z := Bits.xor a.z b.z }

/-- `PauliOperator.inverse` (`_pauli.py:313-317`): only `F2[0]` changes,
`F2[0] = (s0 + s1 + x·z) % 2`. -/
def inv (a : Pauli n) : Pauli n :=
  { a with s0 := (a.s0.toNat + a.s1.toNat + Bits.dotN a.x a.z) % 2 == 1 }

/-- `PauliOperator.commutate_with` (`_pauli.py:307-311`). -/
def commutes (a b : Pauli n) : Bool :=
  (Bits.dotN a.x b.z + Bits.dotN a.z b.x) % 2 == 0

/-- matrix entry `⟨b'| i^k X^x Z^z |b⟩ = i^(k + 2 z·b) [b' = b ⊕ x]`, as an exponent of `i`
(`none` = entry 0). -/
def matExp (p : Pauli n) (b' b : Bits n) : Option Nat :=
  if Bits.beq b' (Bits.xor b p.x) then some ((p.phaseExp + 2 * Bits.dotN p.z b) % 4) else none

/-! ### string form: list of per-qubit symbols, sign exponent -/

/-- per-qubit symbol code used here: I=0, X=1, Y=2, Z=3 (the index convention of `_pauli.py`) -/
def symOfBits (x z : Bool) : Nat :=
  match x, z with
  | false, false => 0 | true, false => 1 | true, true => 2 | false, true => 3

def symX (s : Nat) : Bool := s == 1 || s == 2
def symZ (s : Nat) : Bool := s == 2 || s == 3

/-- `pauli_F2_to_str` (`_pauli.py:199-222`): symbols and the exponent of the scalar `sign = i^e`,
`e = (2 s0 + s1 + 3 x·z) % 4` (because `XZ = -iY`). -/
def toStr (p : Pauli n) : List Nat × Nat :=
  ((List.finRange n).map fun i => symOfBits (p.x i) (p.z i),
   (p.phaseExp + 3 * Bits.dotN p.x p.z) % 4)

/-- `pauli_str_to_F2` (`_pauli.py:225-259`): `tmp1 = (x·z + e) % 4`, sign bits `tmp1//2, tmp1%2`. -/
def ofStr (n : Nat) (syms : List Nat) (e : Nat) : Pauli n :=
  let x : Bits n := fun i => symX (syms.getD i.val 0)
  let z : Bits n := fun i => symZ (syms.getD i.val 0)
  let t := (Bits.dotN x z + e) % 4
  { s0 := t / 2 == 1, s1 := t % 2 == 1, x := x, z := z }

/-- `_pauli_str_to_index_int`: base-4 value, most significant symbol first. -/
def symsToIndex (syms : List Nat) : Nat := syms.foldl (fun acc s => acc * 4 + s) 0

/-- `_pauli_index_int_to_str`: `num_qubit` base-4 digits, most significant first. -/
def indexToSyms : (numQubit : Nat) → (index : Nat) → List Nat
  | 0, _ => []
  | k + 1, idx => indexToSyms k (idx / 4) ++ [idx % 4]

/-- `pauli_F2_to_index` (sign dropped). -/
def toIndex (p : Pauli n) : Nat := symsToIndex p.toStr.1

/-- `pauli_index_to_F2(with_sign=True)`: sign `+1`. -/
def ofIndex (n : Nat) (idx : Nat) : Pauli n := ofStr n (indexToSyms n idx) 0

/-- `rand_pauli(is_hermitian=…)` sets `F2[1] = x·z % 2` (Hermitian) or its complement. -/
def hermitianFlag (p : Pauli n) : Bool := p.s1 == (Bits.dotN p.x p.z % 2 == 1)

/-! ### dense matrix via per-qubit factors (`PauliOperator.full_matrix`) -/

/-- entry of the 2×2 factor for symbol bits `(x,z)` as exponent of `i` (`none` = 0):
I ↦ δ, Z ↦ (-1)^b δ, X ↦ [b'≠b], Y ↦ i·(-1)^b [b'≠b]  (Y = iXZ). -/
def localExp (x z : Bool) (b' b : Bool) : Option Nat :=
  if b' == (b ^^ x) then some ((x && z).toNat + 2 * (z && b).toNat) else none

/-- `full_matrix`: `sign * kron(factors)`; entry `(b', b)` as exponent of `i`. -/
def fullMatrixExp (p : Pauli n) (b' b : Bits n) : Option Nat :=
  let e0 := p.toStr.2
  (List.finRange n).foldl
    (fun acc i => match acc, localExp (p.x i) (p.z i) (b' i) (b i) with
      | some a, some c => some ((a + c) % 4)
      | _, _ => none)
    (some e0)

/-! ### list-level entry points used by the driver -/

def ofF2List (n : Nat) (l : List Bool) : Pauli n :=
  { s0 := l.getD 0 false, s1 := l.getD 1 false
    x := fun i => l.getD (2 + i.val) false
    z := fun i => l.getD (2 + n + i.val) false }

def toF2List (p : Pauli n) : List Bool :=
  [p.s0, p.s1] ++ List.ofFn p.x ++ List.ofFn p.z

end Pauli
end Numqi
