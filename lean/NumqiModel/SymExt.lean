/-
Model of the formulation (not the solver) of the naive symmetric-extension SDP
`numqi.entangle.is_ABk_symmetric_ext_naive` (`entangle/symext.py:15-63`): the variable `X` is a Hermitian
`N×N` matrix, `N = dimA·dimB^kext` (`kext ≥ 2` copies of B), and the constraints are

  X ⪰ 0,   trace(X) = 1,   partial_trace(X, (dimA·dimB, dimB^(kext-1)), axis=1) = rho,
  X[indP[:,None], indP] = X   for every index array `indP` of `get_symmetric_extension_index_list(dimA, dimB, kext)`.

Arrays are flat row-major read-outs as in `NumqiModel/Entangle.lean`.  No Mathlib import; the driver executes these constants on
Gaussian integers.  (`kext` copies here = `k+1` copies in `Boundary.IsSymExt k`.)
-/
import NumqiModel.Entangle

namespace Numqi.Ent

/-- shape of the extended system: `(dimA, dimB, …, dimB)` with `kext` copies of B -/
def sxDims (dA dB kext : Nat) : List Nat := dA :: List.replicate kext dB

/-- read a multi-index through a map of positions: `result[i] = l[σ i]` -/
def gatherPos (σ : Nat → Nat) (l : List Nat) : List Nat := (List.range l.length).map fun i => l.getD (σ i) 0

/-- exchange the last two entries of a multi-index (`reshape(-1,dB,dB).transpose(0,2,1)`, `symext.py:18`) -/
def swapLastTwo (l : List Nat) : List Nat :=
  gatherPos (fun i => if i + 1 = l.length then i - 1 else if i + 2 = l.length then i + 1 else i) l

/-- move the last copy to the front of the copies, keeping party A in place
(`transpose(…, [0]+list(range(2,kext+1))+[1])`, `symext.py:20`): `(a, c_1, …, c_k) ↦ (a, c_k, c_1, …, c_{k-1})` -/
def rotateCopies (l : List Nat) : List Nat :=
  gatherPos (fun i => if i = 0 then 0 else if i = 1 then l.length - 1 else i - 1) l

/-- the index arrays `get_symmetric_extension_index_list(dimA, dimB, kext, kind='2d')` as functions on flat indices:
number 0 is always present, number 1 only for `kext > 2` -/
def sxPermIndex (dA dB kext which : Nat) (r : Nat) : Nat :=
  let dims := sxDims dA dB kext
  if which = 0 then flat dims (swapLastTwo (unflat dims r)) else flat dims (rotateCopies (unflat dims r))

/-- how many index arrays the implementation imposes -/
def sxNumPerm (kext : Nat) : Nat := if kext > 2 then 2 else 1

/-- left-hand side of a permutation constraint: `X[indP[:,None], indP]` -/
def sxPermuted {α : Type} (dA dB kext which : Nat) (X : Nat → Nat → α) : Nat → Nat → α :=
  fun r c => X (sxPermIndex dA dB kext which r) (sxPermIndex dA dB kext which c)

/-- `kind='1d'`: the same permutation as an index array into `X.reshape(-1, order='F')`, read back with `order='F'`:
`np.reshape(tmp0[ind0[:,None], ind0].T, -1, order='F')` with `tmp0 = arange(N²).reshape(N,N)` -/
def sxPermIndex1d (dA dB kext which : Nat) (N : Nat) (t : Nat) : Nat :=
  -- position t of the F-order flattening of the transposed gather = entry (row t / N, col t % N) of the gather
  sxPermIndex dA dB kext which (t / N) * N + sxPermIndex dA dB kext which (t % N)

/-- `cvxpy.partial_trace(X, (n0, n1), axis=1)`: `out[i,j] = Σ_{t<n1} X[i·n1+t, j·n1+t]` -/
def ptraceLast {α : Type} [Add α] [Zero α] (n1 : Nat) (X : Nat → Nat → α) : Nat → Nat → α :=
  fun i j => sumRange n1 fun t => X (i * n1 + t) (j * n1 + t)

/-- left-hand side of the reduction constraint of the naive SDP: trace out the last `kext-1` copies -/
def sxReduced {α : Type} [Add α] [Zero α] (dB kext : Nat) (X : Nat → Nat → α) : Nat → Nat → α :=
  ptraceLast (prodL (List.replicate (kext - 1) dB)) X

/-- `cvxpy.trace(X)` -/
def sxTrace {α : Type} [Add α] [Zero α] (N : Nat) (X : Nat → Nat → α) : α := sumRange N fun r => X r r

/-- amplitude of the product vector `a ⊗ b^{⊗kext}` at a flat index -/
def sxAmp {α : Type} [Mul α] [One α] (dA dB kext : Nat) (a b : Nat → α) (r : Nat) : α :=
  match unflat (sxDims dA dB kext) r with
  | x0 :: c => a x0 * c.foldl (fun acc v => acc * b v) 1
  | [] => 1

/-- the explicit (unnormalised) extension of the separable state `Σ_k w_k a_k a_kᴴ ⊗ b_k b_kᴴ`:
`Σ_k w_k (a_k ⊗ b_k^{⊗kext})(a_k ⊗ b_k^{⊗kext})ᴴ` on flat indices, `terms` = list of `(w, a, b)` -/
def sxWitness {α : Type} [Add α] [Zero α] [Mul α] [One α] [Conj α] (dA dB kext : Nat) (terms : List (α × (Nat → α) × (Nat → α))) :
    Nat → Nat → α :=
  fun r c => (terms.map fun t => t.1 * sxAmp dA dB kext t.2.1 t.2.2 r * conj (sxAmp dA dB kext t.2.1 t.2.2 c)).sum

/-- the state the witness must reduce to, with the norms of the traced-out copies: `Σ_k w_k (Σ_v b_k[v] conj b_k[v])^(kext-1) a_k a_kᴴ ⊗ b_k b_kᴴ` -/
def sxSepState {α : Type} [Add α] [Zero α] [Mul α] [One α] [Conj α] (_dA dB kext : Nat) (terms : List (α × (Nat → α) × (Nat → α))) :
    Nat → Nat → α :=
  fun i j =>
    (terms.map fun t =>
      let nb := sumRange dB fun v => t.2.2 v * conj (t.2.2 v)
      let pw := (List.replicate (kext - 1) nb).foldl (· * ·) 1
      t.1 * pw * (t.2.1 (i / dB) * t.2.2 (i % dB)) * conj (t.2.1 (j / dB) * t.2.2 (j % dB))).sum

/-! ### the irrep-block path: index helpers and the reduced-state contraction
(`symext.py:66-73`, `:135-153`, `:186`, `:298-306`) -/

/-- `get_cvxpy_transpose0213_indexing(N0,N1,N2,N3)`: `arange(N0·N1·N2·N3).reshape(N2,N3,N0,N1).transpose(3,1,2,0).reshape(-1)` -/
def idx0213 (N0 N1 N2 N3 : Nat) : Nat → Nat := npTranspose [N2, N3, N0, N1] [3, 1, 2, 0] id

/-- the realignment of the input state in `is_ABk_symmetric_ext` / `get_ABk_symmetric_extension_boundary`:
`rho.reshape(dA,dB,dA,dB).transpose(0,2,1,3).reshape(dA·dA, dB·dB)` -/
def sxRealign {α : Type} (dA dB : Nat) (ρ : Nat → Nat → α) : Nat → Nat → α :=
  ofFlat (dB * dB) (npTranspose [dA, dB, dA, dB] [0, 2, 1, 3] (toFlat (dA * dB) ρ))

/-- the right-hand side of the last constraint of `get_ABk_symmetric_extension_boundary`:
`eye(dA·dB) realigned / (dA·dB) + beta * cvx_rho`, `R` = the (already realigned) direction `cvx_rho.value`, `invN = 1/(dA·dB)` -/
def extRaySigma {α : Type} [Add α] [Mul α] [Zero α] [One α] (dA dB : Nat) (invN β : α) (R : Nat → Nat → α) : Nat → Nat → α :=
  fun i j => sxRealign dA dB (fun r c => if r = c then (1 : α) else 0) i j * invN + β * R i j

/-- `cvxpy.reshape(P, size, order='F')`: flat read-out in column-major order of an `n×n` matrix -/
def flatF {α : Type} (n : Nat) (P : Nat → Nat → α) : Nat → α := fun t => P (t % n) (t / n)

/-- `tmp3 = cvxpy.reshape(reshape(P,'F')[idx0213(dA,x)], (dA·dA, x·x), order='F')` for one irrep block of dimension `x` -/
def irrepGather {α : Type} (dA x : Nat) (P : Nat → Nat → α) : Nat → Nat → α :=
  fun r c => flatF (x * dA) P (idx0213 dA x dA x (r + c * (dA * dA)))

/-- contribution of one block to `cvx_rdm` (shape `(dA·dA, dB·dB)`): `tmp3 @ coeffB.reshape(x·x, dB·dB)`; `C` is the flat read-out of the
(numerically derived, hence a parameter here) coefficient tensor `coeffB[i,j,b,b']` -/
def irrepBlockRdm {α : Type} [Add α] [Mul α] [Zero α] (dA x dB : Nat) (P : Nat → Nat → α) (C : Nat → α) : Nat → Nat → α :=
  fun r c => sumRange (x * x) fun t => irrepGather dA x P r t * C (t * (dB * dB) + c)

/-- `cvx_rdm = sum(blocks)`; `blocks` = list of `(x, P, C)` -/
def irrepRdm {α : Type} [Add α] [Mul α] [Zero α] (dA dB : Nat) (blocks : List (Nat × (Nat → Nat → α) × (Nat → α))) : Nat → Nat → α :=
  fun r c => (blocks.map fun b => irrepBlockRdm dA b.1 dB b.2.1 b.2.2 r c).sum

/-- left-hand side of the normalisation constraint `sum(trace(P_i) * multiplicity_i) == 1` -/
def irrepTrace {α : Type} [Add α] [Mul α] [Zero α] (dA : Nat) (blocks : List (Nat × (Nat → Nat → α) × α)) : α :=
  (blocks.map fun b => sumRange (b.1 * dA) (fun t => b.2.1 t t) * b.2.2).sum

end Numqi.Ent
