/-
Model of `numqi/sim/clifford.py`: the symplectic (tableau) action of Clifford gates on phased Pauli
operators, the composition rule, extraction of a tableau from a unitary, the eight basic gates, and the
`CliffordCircuit` object with its lazily cached tableau as a state machine.
No Mathlib import: everything here is executable and is what `Driver/C07.lean` runs.

Representation.  A uint8 bit array is packed little-endian into a `Nat` (array entry `j` = `testBit j`).
A phased Pauli `F2 = [s0, s1, x_0..x_{n-1}, z_0..z_{n-1}]` is `(s0, s1, v)` with `v = F2[2:]`.
A tableau `(cli_r, cli_mat)` on `n` qubits is `r` (packed, `2n` bits) and the list of the `2n` *columns*
of `cli_mat` (column `j` packed: bit `a` = `cli_mat[a, j]`); the columns are the images of `X_j`, `Z_j`.
-/
import NumqiModel.Pauli
import NumqiModel.SpF2
import NumqiModel.Sim

namespace Numqi.Clifford

/-! ### small bit-array helpers -/

/-- `Σ_{i<m} a[i]·b[i]` as an integer (the uint8 `np.dot` wraps mod 256, which is invisible mod 2 and mod 4) -/
def cnt : (m : Nat) → (a b : Nat) → Nat
  | 0, _, _ => 0
  | m + 1, a, b => cnt m a b + (a.testBit m && b.testBit m).toNat

/-- xor of the `cols[j]` with `v[j] = 1`, `j < k`  (`(cli_mat @ v) % 2` for a matrix given by columns) -/
def matVec (cols : List Nat) (v : Nat) : (k : Nat) → Nat
  | 0 => 0
  | k + 1 => matVec cols v k ^^^ (if v.testBit k then cols.getD k 0 else 0)

/-- `Σ_{j<k} v[j]·f j` -/
def sumSel (v : Nat) (f : Nat → Nat) : (k : Nat) → Nat
  | 0 => 0
  | k + 1 => sumSel v f k + (if v.testBit k then f k else 0)

/-- phased Pauli operator in binary form -/
structure PauliB where
  s0 : Bool
  s1 : Bool
  v : Nat
deriving DecidableEq, Repr

/-- tableau of an `n`-qubit Clifford operation -/
structure Tab where
  n : Nat
  r : Nat
  cols : List Nat
deriving DecidableEq, Repr

namespace Tab

/-- `d_j = Σ_a S[a,j]·S[a+n,j]` (x·z of the image of generator `j`) -/
def d (t : Tab) (j : Nat) : Nat := cnt t.n (t.cols.getD j 0) (t.cols.getD j 0 >>> t.n)

/-- `tmp_jk[j,k] / (v_j v_k) = Σ_a S[a+n,j]·S[a,k]` -/
def zx (t : Tab) (j k : Nat) : Nat := cnt t.n (t.cols.getD j 0 >>> t.n) (t.cols.getD k 0)

/-- `np.triu(tmp_jk, 1).sum()`: `Σ_{j<k} v_j v_k Σ_a S[a+n,j] S[a,k]` -/
def tri (t : Tab) (v : Nat) : Nat :=
  sumSel v (fun k => sumSel v (fun j => t.zx j k) k) (2 * t.n)

/-- `delta − pauli_bit[1] = Σ_j v_j d_j` -/
def dsum (t : Tab) (v : Nat) : Nat := sumSel v t.d (2 * t.n)

end Tab

/-- `apply_clifford_on_pauli(pauli_bit, cli_r, cli_mat)` (`clifford.py:19-29`). -/
def applyOnPauli (p : PauliB) (t : Tab) : PauliB :=
  let delta := p.s1.toNat + t.dsum p.v
  { s0 := (p.s0.toNat + cnt (2 * t.n) p.v t.r + t.tri p.v + (delta % 4) / 2) % 2 == 1
    s1 := delta % 2 == 1
    v := matVec t.cols p.v (2 * t.n) }

/-- identity tableau (`R0`, `S0` of `to_symplectic_form`) -/
def Tab.id (n : Nat) : Tab := ⟨n, 0, (List.range (2 * n)).map fun j => 2 ^ j⟩

/-- `clifford_multiply(rx, Sx, ry, Sy)` (`clifford.py:62-72`), `z = y ∘ x`; `none` = the `assert` on line 66 fails. -/
def multiply (x y : Tab) : Option Tab :=
  let n := x.n
  let colsZ := (List.range (2 * n)).map fun j => matVec y.cols (x.cols.getD j 0) (2 * n)
  let z : Tab := ⟨n, 0, colsZ⟩
  let tmp0 := fun j => x.d j
  let tmp1 := fun j => y.dsum (x.cols.getD j 0)
  let tmp2 := fun j => z.d j
  if (List.range (2 * n)).all (fun j => (tmp0 j + tmp1 j + tmp2 j) % 2 == 0) then
    let rz := SpF2.ofFn (2 * n) fun j =>
      let delta := (tmp0 j + tmp1 j + 3 * tmp2 j) % 4        -- `(tmp0 + tmp1 - tmp2) % 4`
      let c := x.cols.getD j 0
      ((x.r.testBit j).toNat + cnt (2 * n) y.r c + y.tri c + delta / 2) % 2 == 1
    some ⟨n, rz, colsZ⟩
  else none

/-- product of phased Paulis on the binary form (`PauliOperator.__matmul__`, the bit-mask version of `Pauli.mul` of C08):
phase exponents add, plus `2·(z_a · x_b)` -/
def mulB (n : Nat) (a b : PauliB) : PauliB :=
  { s0 := (a.s0.toNat + b.s0.toNat + cnt n (a.v >>> n) b.v % 2 + (a.s1.toNat + b.s1.toNat) / 2) % 2 == 1
    s1 := a.s1 ^^ b.s1
    v := a.v ^^^ b.v }

/-- the columns of `cli_mat` form a symplectic basis: `Sᵀ Λ S = Λ` (for a square matrix equivalent to `S Λ Sᵀ = Λ`) -/
def Tab.colSp (t : Tab) : Bool :=
  (List.range (2 * t.n)).all fun b => (List.range b).all fun a =>
    (t.zx a b + t.zx b a) % 2 == (if b = a + t.n then 1 else 0)

/-! ### dense matrices over ℤ[i] (row-major lists; qubit 0 is the most significant index bit) -/

abbrev Mat := List (List GInt)

def Mat.get (A : Mat) (i j : Nat) : GInt := (A.getD i []).getD j 0

def Mat.mul (m : Nat) (A B : Mat) : Mat :=
  (List.range m).map fun i => (List.range m).map fun j =>
    (List.range m).foldl (fun acc k => acc + A.get i k * B.get k j) 0

def Mat.dagger (m : Nat) (A : Mat) : Mat :=
  (List.range m).map fun i => (List.range m).map fun j => conj (A.get j i)

def Mat.scale (c : GInt) (A : Mat) : Mat := A.map fun row => row.map fun e => c * e

/-- basis state of `k` qubits with index `idx` (qubit 0 most significant) -/
def bitsOfIndex (k idx : Nat) : Bits k := fun q => idx.testBit (k - 1 - q.val)

/-- the operator of C08 for a binary Pauli on `k` qubits -/
def toPauli (k : Nat) (p : PauliB) : Pauli k :=
  ⟨p.s0, p.s1, fun i => p.v.testBit i.val, fun i => p.v.testBit (k + i.val)⟩

/-- entry `(r, c)` of the matrix of `i^(2 s0+s1) X^x Z^z` through the matrix semantics of C08 (`Pauli.matExp`) -/
def pauliEntC08 (k : Nat) (p : PauliB) (r c : Nat) : GInt :=
  match (toPauli k p).matExp (bitsOfIndex k r) (bitsOfIndex k c) with
  | some e => GInt.iPow e
  | none => 0

/-- the `x` part as a matrix-index offset: the only non-zero entry of column `c` is in row `c xor xIndex` -/
def xIndex (k v : Nat) : Nat :=
  (List.range k).foldl (fun acc q => if v.testBit q then acc ^^^ 2 ^ (k - 1 - q) else acc) 0

/-- the `z` part in matrix-index bit order -/
def zIndex (k v : Nat) : Nat :=
  (List.range k).foldl (fun acc q => if v.testBit (k + q) then acc ^^^ 2 ^ (k - 1 - q) else acc) 0

/-- the same entry computed on index bit masks: `i^(2 s0 + s1 + 2 z·c)` if `r = c xor x`, else `0`
(`pauliEnt = pauliEntC08` is a theorem in `NumqiProps/C07.lean`) -/
def pauliEnt (k : Nat) (p : PauliB) (r c : Nat) : GInt :=
  if r == (c ^^^ xIndex k p.v) then GInt.iPow (2 * p.s0.toNat + p.s1.toNat + 2 * cnt k (zIndex k p.v) c) else 0

/-- dense matrix of `i^(2 s0+s1) X^x Z^z` -/
def pauliMat (k : Nat) (p : PauliB) : Mat :=
  (List.range (2 ^ k)).map fun r => (List.range (2 ^ k)).map fun c => pauliEnt k p r c

/-- `PauliOperator.from_full_matrix` on a matrix that is `c ×` a Pauli operator (contract of C08: it returns the
operator whose matrix was given; `none` = the `assert`s fail, "not a Pauli operator"). -/
def ofFullMatrix (k : Nat) (c : GInt) (W : Mat) : Option PauliB :=
  let m := 2 ^ k
  -- row of the non-zero entry of column 0 gives x
  match (List.range m).find? (fun r => W.get r 0 != 0) with
  | none => none
  | some xr =>
    let e := W.get xr 0
    match [0, 1, 2, 3].find? (fun ph => c * GInt.iPow ph == e) with
    | none => none
    | some ph =>
      -- z_q from the sign of the entry in column 2^(k-1-q)
      let zbit := fun q : Nat =>
        let col := 2 ^ (k - 1 - q)
        W.get (xr ^^^ col) col != e
      let v := (List.range k).foldl (fun acc q =>
        let acc := if xr.testBit (k - 1 - q) then acc ^^^ 2 ^ q else acc
        if zbit q then acc ^^^ 2 ^ (k + q) else acc) 0
      let p : PauliB := ⟨ph / 2 == 1, ph % 2 == 1, v⟩
      if Mat.scale c (pauliMat k p) == W then some p else none

/-- the operator `X_q` (`isZ = false`) or `Z_q` on `k` qubits, as a binary Pauli -/
def genPauli (k q : Nat) (isZ : Bool) : PauliB := ⟨false, false, if isZ then 2 ^ (k + q) else 2 ^ q⟩

/-- the tableau stored from the recognised images `U X_q U†`, `U Z_q U†` (`clifford.py:44-51`):
`cli_mat[:, j] = bit[2:]`, `cli_r[j] = (bit[0] + (x·z % 4)//2) % 2` -/
def tabOfImages (k : Nat) (imgs : List PauliB) : Tab :=
  { n := k
    r := SpF2.ofFn (2 * k) fun j =>
      let b := imgs.getD j ⟨false, false, 0⟩
      (b.s0.toNat + (cnt k b.v (b.v >>> k) % 4) / 2) % 2 == 1
    cols := (List.range (2 * k)).map fun j => (imgs.getD j ⟨false, false, 0⟩).v }

/-- `clifford_array_to_F2(np0)` (`clifford.py:32-52`) for `np0 = U/√c` with `U` a Gaussian-integer matrix,
`U U† = c·1`: the images `U X_q U†`, `U Z_q U†` (`q = 0..k-1`) are recognised by `from_full_matrix` and stored by
`tabOfImages`; `none` = an `assert` fails. -/
def arrayToF2 (k : Nat) (U : Mat) : Option Tab :=
  let m := 2 ^ k
  let Ud := Mat.dagger m U
  let UU := Mat.mul m U Ud
  let c := UU.get 0 0
  if c == 0 || UU != Mat.scale c (pauliMat k ⟨false, false, 0⟩) then none
  else
    match (List.range (2 * k)).mapM (fun j =>
        ofFullMatrix k c (Mat.mul m (Mat.mul m U (pauliMat k (genPauli k (j % k) (decide (k ≤ j))))) Ud)) with
    | none => none
    | some imgs => some (tabOfImages k imgs)

/-! ### the eight basic gates (`_basic_clifford_dict`, `clifford.py:92-101`) -/

inductive GateKey | X | Y | Z | H | S | CX | CY | CZ
deriving DecidableEq, Repr

def GateKey.arity : GateKey → Nat
  | .CX | .CY | .CZ => 2
  | _ => 1

def GateKey.all : List GateKey := [.X, .Y, .Z, .H, .S, .CX, .CY, .CZ]

def GateKey.name : GateKey → String
  | .X => "X" | .Y => "Y" | .Z => "Z" | .H => "H" | .S => "S" | .CX => "CX" | .CY => "CY" | .CZ => "CZ"

def GateKey.ofName? : String → Option GateKey
  | "X" => some .X | "Y" => some .Y | "Z" => some .Z | "H" => some .H | "S" => some .S
  | "CX" => some .CX | "CY" => some .CY | "CZ" => some .CZ | _ => none

/-- the gate matrix times `√scale` (only `H` needs `scale = 2`) -/
def GateKey.mat : GateKey → Mat
  | .X => [[⟨0, 0⟩, ⟨1, 0⟩], [⟨1, 0⟩, ⟨0, 0⟩]]
  | .Y => [[⟨0, 0⟩, ⟨0, -1⟩], [⟨0, 1⟩, ⟨0, 0⟩]]
  | .Z => [[⟨1, 0⟩, ⟨0, 0⟩], [⟨0, 0⟩, ⟨-1, 0⟩]]
  | .H => [[⟨1, 0⟩, ⟨1, 0⟩], [⟨1, 0⟩, ⟨-1, 0⟩]]
  | .S => [[⟨1, 0⟩, ⟨0, 0⟩], [⟨0, 0⟩, ⟨0, 1⟩]]
  | .CX => [[⟨1, 0⟩, ⟨0, 0⟩, ⟨0, 0⟩, ⟨0, 0⟩], [⟨0, 0⟩, ⟨1, 0⟩, ⟨0, 0⟩, ⟨0, 0⟩],
            [⟨0, 0⟩, ⟨0, 0⟩, ⟨0, 0⟩, ⟨1, 0⟩], [⟨0, 0⟩, ⟨0, 0⟩, ⟨1, 0⟩, ⟨0, 0⟩]]
  | .CY => [[⟨1, 0⟩, ⟨0, 0⟩, ⟨0, 0⟩, ⟨0, 0⟩], [⟨0, 0⟩, ⟨1, 0⟩, ⟨0, 0⟩, ⟨0, 0⟩],
            [⟨0, 0⟩, ⟨0, 0⟩, ⟨0, 0⟩, ⟨0, -1⟩], [⟨0, 0⟩, ⟨0, 0⟩, ⟨0, 1⟩, ⟨0, 0⟩]]
  | .CZ => [[⟨1, 0⟩, ⟨0, 0⟩, ⟨0, 0⟩, ⟨0, 0⟩], [⟨0, 0⟩, ⟨1, 0⟩, ⟨0, 0⟩, ⟨0, 0⟩],
            [⟨0, 0⟩, ⟨0, 0⟩, ⟨1, 0⟩, ⟨0, 0⟩], [⟨0, 0⟩, ⟨0, 0⟩, ⟨0, 0⟩, ⟨-1, 0⟩]]

/-- the one-qubit gate that a two-qubit gate applies to its target (`to_universal_circuit`: `CX ↦ X`, …) -/
def GateKey.base : GateKey → GateKey
  | .CX => .X | .CY => .Y | .CZ => .Z | k => k

def GateKey.scale : GateKey → GInt
  | .H => ⟨2, 0⟩
  | _ => 1

/-- `_basic_clifford_dagger_f2(key)`: tableau of the adjoint gate -/
def basicDaggerF2 (key : GateKey) : Option Tab :=
  arrayToF2 key.arity (Mat.dagger (2 ^ key.arity) key.mat)

/-! ### the circuit object -/

structure Gate where
  key : GateKey
  idx : List Nat        -- one or two qubit indices
deriving DecidableEq, Repr

inductive Err | assert | value
deriving DecidableEq, Repr

/-- `CliffordCircuit.num_qubit`: `max` over all recorded indices `+ 1`; the empty list makes `max()` raise `ValueError` -/
def numQubit (gates : List Gate) : Except Err Nat :=
  match gates.flatMap (·.idx) with
  | [] => .error .value
  | i :: rest => .ok (rest.foldl max i + 1)

/-- `tmpR[index] = r_loc; tmpS[index[:,None], index] = S_loc` on top of the identity (`clifford.py:157-166`),
`index = [q…, q+n…]`: a local bit array `w` is scattered to the positions `index` (`place`), column `index[b]` of the
result is the scattered local column `b`, all other columns are unit vectors -/
def embed (n : Nat) (loc : Tab) (qs : List Nat) : Tab :=
  let index := qs ++ qs.map (· + n)
  let unit := index.map fun i => 2 ^ i
  let place := fun (w : Nat) => matVec unit w index.length
  let pos := fun (j : Nat) => (List.range index.length).find? (fun b => index.getD b 0 == j)
  { n := n
    r := place loc.r
    cols := (List.range (2 * n)).map fun j =>
      match pos j with
      | some b => place (loc.cols.getD b 0)
      | none => 2 ^ j }

/-- one pass of the loop body of `to_symplectic_form` (`clifford.py:156-167`): `ret = tmp ∘ ret` -/
def symStep (n : Nat) (acc : Except Err Tab) (gate : Gate) : Except Err Tab :=
  match acc with
  | .error e => .error e
  | .ok ret =>
    match basicDaggerF2 gate.key with
    | none => .error .assert
    | some loc =>
      match multiply ret (embed n loc gate.idx) with
      | none => .error .assert
      | some z => .ok z

/-- the loop of `to_symplectic_form` (`clifford.py:151-170`): gates in reverse order, starting from the identity -/
def symplecticOf (gates : List Gate) : Except Err Tab :=
  match numQubit gates with
  | .error e => .error e
  | .ok n => gates.reverse.foldl (symStep n) (.ok (Tab.id n))

/-- state of a `CliffordCircuit`: the recorded gates and the memoised `(_R, _S)` -/
structure St where
  gates : List Gate
  cache : Option Tab
deriving DecidableEq, Repr

def St.init : St := ⟨[], none⟩

/-- operations on the object.  `append` carries the raw integer arguments (the guards are part of the model);
`applyPauli` carries the length `len` of the `pauli_F2[2:]` array. -/
inductive Op
  | append (key : GateKey) (args : List Int)
  | gateI
  | query
  | applyPauli (p : PauliB) (len : Nat)
  | exportCirc
deriving DecidableEq, Repr

inductive Out
  | unit
  | err (e : Err)
  | tab (t : Tab)
  | pauli (n : Nat) (p : PauliB)
  | gates (gs : List Gate)
deriving DecidableEq, Repr

/-- the guards of the gate-recording methods (`clifford.py:75-90`): indices `≥ 0`, two-qubit indices distinct -/
def checkArgs (key : GateKey) (args : List Int) : Option (List Nat) :=
  if args.length ≠ key.arity then none
  else if args.any (· < 0) then none
  else match args with
    | [a, b] => if a = b then none else some [a.toNat, b.toNat]
    | _ => some (args.map Int.toNat)

/-- `to_symplectic_form` (`clifford.py:149-173`): use the cache if present, else compute and store. -/
def St.query (st : St) : St × Except Err Tab :=
  match st.cache with
  | some t => (st, .ok t)
  | none =>
    match symplecticOf st.gates with
    | .ok t => ({ st with cache := some t }, .ok t)
    | .error e => (st, .error e)

/-- result of `apply_clifford_on_pauli` incl. the shape error of `cli_mat @ XZin` -/
def applyChecked (p : PauliB) (len : Nat) (t : Tab) : Out :=
  if len ≠ 2 * t.n then .err .value else .pauli t.n (applyOnPauli p t)

/-- one method call on the object -/
def step (st : St) : Op → St × Out
  | .append key args =>
    match checkArgs key args with
    | none => (st, .err .assert)
    | some idx => ({ gates := st.gates ++ [⟨key, idx⟩], cache := none }, .unit)   -- `self._R = self._S = None`
  | .gateI => (st, .unit)
  | .query =>
    match st.query with
    | (st', .ok t) => (st', .tab t)
    | (st', .error e) => (st', .err e)
  | .applyPauli p len =>
    match st.query with
    | (st', .ok t) => (st', applyChecked p len t)
    | (st', .error e) => (st', .err e)
  | .exportCirc => (st, .gates st.gates)

def run : St → List Op → List Out
  | _, [] => []
  | st, op :: ops => let (st', out) := step st op; out :: run st' ops

/-! #### the specification: every answer is computed from all gates recorded so far -/

def specStep (gates : List Gate) : Op → List Gate × Out
  | .append key args =>
    match checkArgs key args with
    | none => (gates, .err .assert)
    | some idx => (gates ++ [⟨key, idx⟩], .unit)
  | .gateI => (gates, .unit)
  | .query =>
    match symplecticOf gates with
    | .ok t => (gates, .tab t)
    | .error e => (gates, .err e)
  | .applyPauli p len =>
    match symplecticOf gates with
    | .ok t => (gates, applyChecked p len t)
    | .error e => (gates, .err e)
  | .exportCirc => (gates, .gates gates)

def specRun : List Gate → List Op → List Out
  | _, [] => []
  | gates, op :: ops => let (gates', out) := specStep gates op; out :: specRun gates' ops

/-! #### `random_one_qubit_gate` / `random_two_qubit_gate` (`clifford.py:140-147`): a raw draw selects an ordinary method call -/

/-- `_single_gate_list = ['I','X','Y','Z','H','S']`; `none` is the no-op `I` -/
def singleGateList : List (Option GateKey) := [none, some .X, some .Y, some .Z, some .H, some .S]

/-- `_two_qubit_gate_list = ['CX','CY','CZ']` -/
def twoGateList : List GateKey := [.CX, .CY, .CZ]

/-- `random_one_qubit_gate(index)` with the raw draw `k = np_rng.integers(0, 6)`: the method call `getattr(self, list[k])(index)` -/
def randomOneOp (k : Nat) (index : Int) : Op :=
  match singleGateList.getD k none with
  | none => .gateI
  | some key => .append key [index]

/-- `random_two_qubit_gate(index0, index1)` with the raw draw `k = np_rng.integers(0, 3)`.  The method asserts
`index0 != index1` before drawing; the recorder called afterwards asserts the same (and `≥ 0`), so the outcome — `AssertionError`,
nothing recorded — is that of the ordinary append; only the number of draws consumed differs (`randomTwoDraws`). -/
def randomTwoOp (k : Nat) (index0 index1 : Int) : Op := .append (twoGateList.getD k .CX) [index0, index1]

/-- draws consumed by `random_two_qubit_gate` -/
def randomTwoDraws (index0 index1 : Int) : Nat := if index0 = index1 then 0 else 1

/-! #### the variant without invalidation (the code before commit 7b24962), for comparison -/

def stepStale (st : St) : Op → St × Out
  | .append key args =>
    match checkArgs key args with
    | none => (st, .err .assert)
    | some idx => ({ st with gates := st.gates ++ [⟨key, idx⟩] }, .unit)
  | op => step st op

def runStale : St → List Op → List Out
  | _, [] => []
  | st, op :: ops => let (st', out) := stepStale st op; out :: runStale st' ops

/-! ### the dense operators the all-`n` theorems are about, over ℤ[i] (executed by the driver ops `opmat`, `paulimat`) -/

/-- a one-qubit gate matrix of the model as a C03 operator (`GateKey.mat`, `H` unnormalised) -/
def gateMat1G (key : GateKey) : Numqi.Mat 1 GInt := fun a b => key.mat.get a.toNat b.toNat

/-- the operator C03 assigns to a recorded gate as `to_universal_circuit` exports it (`embed` of the one-qubit matrix;
`ctrlEmbed` of X/Y/Z controlled by the first index), over ℤ[i] -/
def gateOpG (n : Nat) (g : Gate) : Numqi.Mat n GInt :=
  match g.idx with
  | [q] => if hq : q < n then Numqi.embed (gateMat1G g.key) (fun _ : Fin 1 => ⟨q, hq⟩)
           else fun x y => if Bits.beq x y then 1 else 0
  | [q0, q1] =>
    if hq : q0 < n ∧ q1 < n then
      Numqi.ctrlEmbed (gateMat1G g.key.base) (fun i : Fin n => decide (i.val = q0)) (fun _ : Fin 1 => ⟨q1, hq.2⟩)
    else fun x y => if Bits.beq x y then 1 else 0
  | _ => fun x y => if Bits.beq x y then 1 else 0

/-- `to_universal_circuit` (`clifford.py:180-190`) as the raw C03 gate list over ℤ[i] (flat row-major arrays; the `H` array is
`√2·H`): one-qubit gates as `single_qubit_gate(G, q)`, two-qubit gates as `controlled_single_qubit_gate(base, q0, q1)` -/
def exportRawG (g : Gate) : RawOp GInt :=
  match g.idx with
  | [q] => .unitary (tabulateMat (k := 1) (gateMat1G g.key)) [(q : Int)]
  | [q0, q1] => .control (tabulateMat (k := 1) (gateMat1G g.key.base)) [(q0 : Int)] [(q1 : Int)]
  | _ => .custom #[]

/-- entry of C08's matrix of a binary Pauli, over ℤ[i] -/
def pauliEntG (n : Nat) (p : PauliB) (b' b : Bits n) : GInt :=
  match (toPauli n p).matExp b' b with
  | some k => GInt.iPow k
  | none => 0

/-! ### the F2 random generators (`numqi/random/_spf2.py`): deterministic post-processing of the raw draws -/

/-- columns of a bit matrix given by rows (`cli_mat` as numpy stores it ↦ the packed columns of `Tab`) -/
def colsOfRows (m : Nat) (rows : List Nat) : List Nat :=
  (List.range m).map fun j => SpF2.ofFn m fun a => (rows.getD a 0).testBit j

/-- `rand_Clifford_group(n)` (`_spf2.py:61-76`): `cli_r` = the `2n` raw bits of `rand_F2`, `cli_mat = rand_SpF2(n)` -/
def randCliffordGroup (n : Nat) (rawBits : Nat) (rawTuple : List (Nat × Nat)) : Tab :=
  ⟨n, rawBits % 4 ^ n, colsOfRows (2 * n) (SpF2.randSpF2 rawTuple)⟩

/-- `rand_pauli(n, is_hermitian)` (`_spf2.py:79-101`) after the raw draw `F2 = rand_F2(2n+2)`:
`tmp0 = x·z % 2`; `F2[1] = tmp0` (Hermitian), `1 - tmp0` (anti-Hermitian), unchanged for `None` -/
def randPauliPost {n : Nat} (isHermitian : Option Bool) (raw : Pauli n) : Pauli n :=
  match isHermitian with
  | none => raw
  | some true => { raw with s1 := Bits.dotN raw.x raw.z % 2 == 1 }
  | some false => { raw with s1 := !(Bits.dotN raw.x raw.z % 2 == 1) }

/-! ### `get_pauli_subset_equivalent` / `get_pauli_subset_stabilizer` (`numqi/gate/_pauli.py:402-445`) -/

def natOfBitList (l : List Bool) : Nat := l.foldr (fun b acc => 2 * acc + b.toNat) 0

/-- `pauli_index_to_F2(idx, n, with_sign=False)` as a packed bit array (through C08's `Pauli.ofIndex`) -/
def maskOfIndex (n idx : Nat) : Nat := natOfBitList ((Pauli.ofIndex n idx).toF2List.drop 2)

/-- `pauli_F2_to_index(bits, with_sign=False)` of a packed bit array (through C08's `Pauli.toIndex`) -/
def indexOfMask (n m : Nat) : Nat :=
  (Pauli.ofF2List n (false :: false :: (List.range (2 * n)).map fun j => m.testBit j)).toIndex

/-- `np.sort(pauli_F2_to_index((first_element_GF4 @ S) % 2))`: the image of the index set under the matrix `S` (rows) -/
def subsetImage (n : Nat) (S : List Nat) (subset : List Nat) : List Nat :=
  (subset.map fun idx => indexOfMask n (SpF2.vecMul (maskOfIndex n idx) S (2 * n))).mergeSort (fun a b => decide (a ≤ b))

/-- the images of the (sorted) subset under `from_int_tuple(t)` for all tuples of the `itertools.product` loop -/
def orbitImages (n : Nat) (subset : List Nat) : List (List Nat) :=
  let first := subset.mergeSort (fun a b => decide (a ≤ b))
  (SpF2.allTuples n).map fun t => subsetImage n (SpF2.fromIntTuple t) first

/-- `get_pauli_subset_equivalent(subset, n)`: the set `{first_element} ∪ images`, as a duplicate-free list -/
def subsetEquivalent (n : Nat) (subset : List Nat) : List (List Nat) :=
  (subset.mergeSort (fun a b => decide (a ≤ b)) :: orbitImages n subset).eraseDups

/-- `get_pauli_subset_stabilizer(subset, n)`: the tuples (in loop order) whose matrix maps the subset to itself -/
def subsetStabilizer (n : Nat) (subset : List Nat) : List (List (Nat × Nat)) :=
  let first := subset.mergeSort (fun a b => decide (a ≤ b))
  (SpF2.allTuples n).filter fun t => subsetImage n (SpF2.fromIntTuple t) first == first

/-! ### finite enumerations and dense operators used by the `decide` theorems -/

def allPaulis (k : Nat) : List PauliB :=
  (List.range (4 ^ k)).flatMap fun v => [⟨false, false, v⟩, ⟨false, true, v⟩, ⟨true, false, v⟩, ⟨true, true, v⟩]

/-- entry `(r, c)` of the operator `G` acting on the qubits `qs` (first listed = most significant local index) of `n` qubits -/
def gateOnNEnt (n : Nat) (G : Mat) (qs : List Nat) (r c : Nat) : GInt :=
  let loc := fun (idx : Nat) => qs.foldl (fun acc q => 2 * acc + (idx.testBit (n - 1 - q)).toNat) 0
  let mask := qs.foldl (fun acc q => acc ||| 2 ^ (n - 1 - q)) 0
  if (r ||| mask) == (c ||| mask) then G.get (loc r) (loc c) else 0

def gateOnN (n : Nat) (G : Mat) (qs : List Nat) : Mat :=
  (List.range (2 ^ n)).map fun r => (List.range (2 ^ n)).map fun c => gateOnNEnt n G qs r c

/-- `P · G = G · Q` for `Q = applyOnPauli P t`, entry by entry.  `P` and `Q` have exactly one non-zero entry per
row/column (C08 `mat_apply`: entry `(b', b)` vanishes unless `b' = b xor x`), so both products are single terms:
`(P G)[r,c] = P[r, r^x_P]·G[r^x_P, c]`, `(G Q)[r,c] = G[r, c^x_Q]·Q[c^x_Q, c]`. -/
def intertwines (n : Nat) (G : Mat) (qs : List Nat) (t : Tab) (p : PauliB) : Bool :=
  let q := applyOnPauli p t
  let xp := xIndex n p.v
  let xq := xIndex n q.v
  (List.range (2 ^ n)).all fun r => (List.range (2 ^ n)).all fun c =>
    pauliEnt n p r (r ^^^ xp) * gateOnNEnt n G qs (r ^^^ xp) c == gateOnNEnt n G qs r (c ^^^ xq) * pauliEnt n q (c ^^^ xq) c

/-- the support claim used by `intertwines`: outside `r = c xor xIndex` the entries of the Pauli matrix vanish -/
def pauliSupportOK (k : Nat) (p : PauliB) : Bool :=
  (List.range (2 ^ k)).all fun r => (List.range (2 ^ k)).all fun c =>
    (r == (c ^^^ xIndex k p.v)) || (pauliEnt k p r c == 0)

/-- the factor of an `n`-qubit Pauli on the qubits `qs` (phase kept) -/
def restrictP (n : Nat) (qs : List Nat) (p : PauliB) : PauliB :=
  let index := qs ++ qs.map (· + n)
  ⟨p.s0, p.s1, (List.range index.length).foldl
    (fun acc a => if p.v.testBit (index.getD a 0) then acc ^^^ 2 ^ a else acc) 0⟩

/-- `p` with its factor on the qubits `qs` (and its phase) replaced by the local Pauli `q` -/
def liftP (n : Nat) (qs : List Nat) (p q : PauliB) : PauliB :=
  let index := qs ++ qs.map (· + n)
  let mask := index.foldl (fun acc i => acc ||| 2 ^ i) 0
  let placed := (List.range index.length).foldl
    (fun acc a => if q.v.testBit a then acc ^^^ 2 ^ (index.getD a 0) else acc) 0
  ⟨q.s0, q.s1, p.v ^^^ (p.v &&& mask) ^^^ placed⟩

/-- all placements of a gate of the given arity on `n` qubits -/
def placements (n arity : Nat) : List (List Nat) :=
  if arity = 1 then (List.range n).map fun q => [q]
  else (List.range n).flatMap fun a => ((List.range n).filter (· != a)).map fun b => [a, b]

end Numqi.Clifford
