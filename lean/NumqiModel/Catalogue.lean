/-
Model of the catalogue constructors (C18): `numqi/state/_internal.py`, `numqi/dicke.py:7-32`,
`numqi/entangle/upb.py` (tables + `get_upb_product` + `upb_to_bes`), `numqi/utils.py:351-370`
(tetrahedron POVM), `numqi/unique_determine/_internal.py:61-100` (Chebyshev bases).
No Mathlib import: everything here is executable and is what `Driver/C18.lean` runs.

Every constructor is a closed formula; the model is that formula.

* density matrices are entry functions on `Nat` indices over a scalar type `α` carrying only the operations
  (`+ - * / neg 0 1`, the cast `ℕ → α`); the theorems instantiate `α` with an arbitrary (ordered) field, the driver
  with `Rat` (exact tie: the binary64 parameter is sent as the exact rational it denotes) and `Float`;
* kets whose amplitudes are square roots of rationals are given in *signed-square* form `SAmp` (`sgn·√sq`);
* a square root that the source takes (`np.sqrt(1-b*b)`, `np.sqrt(2)/3`, …) is an explicit argument of the model function
  (`rt`), computed by the caller; the theorems take its defining equation as hypothesis.
-/
import NumqiModel.Scalar
import NumqiModel.Dicke
import NumqiModel.Lie

namespace Numqi.Catalogue

section generic
variable {α : Type} [Add α] [Sub α] [Mul α] [Neg α] [Div α] [Zero α] [One α] [NatCast α]

/-- Kronecker delta -/
def delta (i j : Nat) : α := if i = j then 1 else 0

/-! ### density matrices (`state/_internal.py`) -/

/-- `Werner(d, alpha)` (`_internal.py:144-145`): `pmat[(i,j),(k,l)] = δ_il δ_jk` (the swap),
`ret = (eye(d²) - alpha*pmat)/(d² - d*alpha)`; entry `[(i,j),(k,l)]`. -/
def werner (d : Nat) (a : α) (i j k l : Nat) : α :=
  (delta i k * delta j l - a * (delta i l * delta j k)) / ((d : α) * (d : α) - (d : α) * a)

/-- `Isotropic(d, alpha)` (`_internal.py:235-236`): `((1-alpha)/d²)·eye(d²) + (alpha/d)·|vec I⟩⟨vec I|`. -/
def isotropic (d : Nat) (a : α) (i j k l : Nat) : α :=
  ((1 - a) / ((d : α) * (d : α))) * (delta i k * delta j l) + (a / (d : α)) * (delta i j * delta k l)

/-- `maximally_mixed_state(d)` (`_internal.py:334`): `eye(d*d)/(d*d)` on flat indices. -/
def maxMixed (d : Nat) (r c : Nat) : α := delta r c / ((d : α) * (d : α))

/-- `get_2qutrit_Antoine2022(q)` (`_internal.py:358-362`), flat 9×9; `c25 = 5/2`, `c21 = 21`, `c2 = 2` are passed by the
caller (`2.5`, `21`, `2` in the source). -/
def antoine (c25 c21 c2 : α) (q : α) (r c : Nat) : α :=
  let bp := (c25 + q) / c21
  let bm := (c25 - q) / c21
  let t := c2 / c21
  if r = c then
    (if r = 0 ∨ r = 4 ∨ r = 8 then t else if r = 1 ∨ r = 5 ∨ r = 6 then bm else bp)
  else if (r = 0 ∨ r = 4 ∨ r = 8) ∧ (c = 0 ∨ c = 4 ∨ c = 8) then t else 0

/-- `get_bes2x4_Horodecki1997(b)` (`_internal.py:387-391`), flat 8×8; `rt = sqrt(1-b*b)`; `k7 = 7`, `k14 = 14`, `k2 = 2`. -/
def horodecki2x4 (k7 k14 k2 : α) (b rt : α) (r c : Nat) : α :=
  let x := b / (k7 * b + 1)
  if (r = 4 ∧ c = 4) ∨ (r = 7 ∧ c = 7) then (1 + b) / (k14 * b + k2)
  else if (r = 4 ∧ c = 7) ∨ (r = 7 ∧ c = 4) then rt / (k14 * b + k2)
  else if r = c then x
  else if (r + 5 = c ∧ r ≤ 2) ∨ (c + 5 = r ∧ c ≤ 2) then x
  else 0

/-- `get_bes3x3_Horodecki1997(a)` (`_internal.py:416-420`), flat 9×9; `rt = sqrt(1-a*a)`; `k8 = 8`, `k16 = 16`, `k2 = 2`. -/
def horodecki3x3 (k8 k16 k2 : α) (a rt : α) (r c : Nat) : α :=
  let x := a / (k8 * a + 1)
  if (r = 6 ∧ c = 6) ∨ (r = 8 ∧ c = 8) then (1 + a) / (k16 * a + k2)
  else if (r = 6 ∧ c = 8) ∨ (r = 8 ∧ c = 6) then rt / (k16 * a + k2)
  else if r = c then x
  else if (r = 0 ∨ r = 4 ∨ r = 8) ∧ (c = 0 ∨ c = 4 ∨ c = 8) then x
  else 0

/-- partial transpose on the second factor of a flat `(dA·dB)×(dA·dB)` matrix:
`ρ^{T_B}[(i,j),(k,l)] = ρ[(i,l),(k,j)]`. -/
def ptB (dB : Nat) (m : Nat → Nat → α) (r c : Nat) : α :=
  m ((r / dB) * dB + c % dB) ((c / dB) * dB + r % dB)

end generic

/-! ### closed-form entanglement measures of Werner / isotropic states: the branch layer -/

section measures
variable {α : Type} [Add α] [Sub α] [Mul α] [Neg α] [Div α] [Zero α] [One α] [NatCast α]
  [LT α] [LE α] [DecidableRel (α := α) (· < ·)] [DecidableRel (α := α) (· ≤ ·)]

/-- `get_Werner_ree` (`_internal.py:159-165`): `0` when `alpha <= 1/d`, else the value `v` of the generic routine. -/
def wernerRee (d : Nat) (a v : α) : α := if a ≤ 1 / (d : α) then 0 else v

/-- `get_Isotropic_ree` (`_internal.py:250-256`). -/
def isotropicRee (d : Nat) (a v : α) : α := if a ≤ 1 / ((d : α) + 1) then 0 else v

/-- `get_Werner_GME` (`_internal.py:182-183`): `tmp0 = d - (1-d*d)/(alpha-d)`,
`ret = (tmp0<=0)*(1-sqrt(max(0,1-tmp0²)))/2`. -/
def wernerGME (sqrt : α → α) (two : α) (d : Nat) (a : α) : α :=
  let t := (d : α) - (1 - (d : α) * (d : α)) / (a - (d : α))
  let m := if 1 - t * t < 0 then 0 else 1 - t * t
  (if t ≤ 0 then 1 else 0) * (1 - sqrt m) / two

/-- `get_Werner_eof` (`_internal.py:203-209`): `a = (1-alpha*dim)/(dim-alpha)`; `0` unless `a < 0`, where the value is `v a`. -/
def wernerEof (v : α → α) (d : Nat) (al : α) : α :=
  let a := (1 - al * (d : α)) / ((d : α) - al)
  if a < 0 then v a else 0

/-- `get_Isotropic_GME` (`_internal.py:272-274`): `tmp0 = clip(alpha + (1-alpha)/(d*d), 0, 1)`,
`tmp1 = 1 - (sqrt(tmp0) + sqrt((1-tmp0)*(d-1)))²/d`, `ret = (tmp0 >= 1/d) * tmp1`. -/
def isotropicGME (sqrt : α → α) (d : Nat) (a : α) : α :=
  let f0 := a + (1 - a) / ((d : α) * (d : α))
  let f := if f0 < 0 then 0 else if 1 < f0 then 1 else f0
  let s := sqrt f + sqrt ((1 - f) * ((d : α) - 1))
  (if 1 / (d : α) ≤ f then 1 else 0) * (1 - s * s / (d : α))

/-- `get_Isotropic_eof` (`_internal.py:295-304`): `F = (1+alpha*d*d-alpha)/(d*d)`; `0` unless `F > 1/d`. The two non-zero
branches return `v1 F` (`F <= 4(d-1)/d²`) and `v2 F`. -/
def isotropicEof (v1 v2 : α → α) (four : α) (d : Nat) (al : α) : α :=
  let F := (1 + al * (d : α) * (d : α) - al) / ((d : α) * (d : α))
  let thr := four * ((d : α) - 1) / ((d : α) * (d : α))
  if 1 / (d : α) < F ∧ F ≤ thr then v1 F else if thr < F then v2 F else 0

end measures

/-! ### closed-form values on the entangled branch and the documented parameter ranges

`sqrt`, `log` are `np.sqrt`, `np.log` (natural logarithm); `entr` is `scipy.special.entr` on `x ≥ 0`. -/

section values
variable {α : Type} [Add α] [Sub α] [Mul α] [Neg α] [Div α] [Zero α] [One α] [NatCast α]
  [LT α] [LE α] [DecidableRel (α := α) (· < ·)] [DecidableRel (α := α) (· ≤ ·)]

/-- `entr(x) = -x log x` for `x > 0`, `0` at `x = 0` (negative arguments do not occur on the documented ranges) -/
def entr (log : α → α) (x : α) : α := if 0 < x then -(x * log x) else 0

/-- binary entropy in nats, `entr(t) + entr(1-t)` -/
def entropy2 (log : α → α) (t : α) : α := entr log t + entr log (1 - t)

/-- entangled branch of `get_Werner_eof` (`_internal.py:208-209`): `t = (1-√(1-a²))/2`, `h₂(t)` -/
def wernerEofVal (sqrt log : α → α) (two : α) (a : α) : α := entropy2 log ((1 - sqrt (1 - a * a)) / two)

/-- `get_Werner_eof` with its value -/
def wernerEofFull (sqrt log : α → α) (two : α) (d : Nat) (al : α) : α := wernerEof (wernerEofVal sqrt log two) d al

/-- first entangled branch of `get_Isotropic_eof` (`_internal.py:298-301`): `γ = min((√F + √((d-1)(1-F)))²/d, 1)`,
`h₂(γ) + (1-γ) log(d-1)` -/
def isotropicEofV1 (sqrt log : α → α) (d : Nat) (F : α) : α :=
  let s := sqrt F + sqrt (((d : α) - 1) * (1 - F))
  let g0 := s * s / (d : α)
  let g := if g0 < 1 then g0 else 1
  entropy2 log g + (1 - g) * log ((d : α) - 1)

/-- second branch (`_internal.py:304`): `d log(d-1) (F-1)/(d-2) + log d` -/
def isotropicEofV2 (log : α → α) (two : α) (d : Nat) (F : α) : α :=
  (d : α) * log ((d : α) - 1) * (F - 1) / ((d : α) - two) + log (d : α)

def isotropicEofFull (sqrt log : α → α) (two four : α) (d : Nat) (al : α) : α :=
  isotropicEof (isotropicEofV1 sqrt log d) (isotropicEofV2 log two d) four d al

/-- eigenvalues of `Werner(d, a)`: `(1-a)/(d²-da)` on the symmetric subspace (dimension `d(d+1)/2`), `(1+a)/(d²-da)` on the
antisymmetric one (dimension `d(d-1)/2`) -/
def wernerEigSym (d : Nat) (a : α) : α := (1 - a) / ((d : α) * (d : α) - (d : α) * a)
def wernerEigAnti (d : Nat) (a : α) : α := (1 + a) / ((d : α) * (d : α) - (d : α) * a)

/-- `x (log x - log y)` with `0·log 0 = 0` -/
def relTerm (log : α → α) (x y : α) : α := if 0 < x then x * (log x - log y) else 0

/-- entangled branch of `get_Werner_ree` (`_internal.py:162-164`): relative entropy (nats) of `Werner(d,a)` with respect to the
separable boundary state `Werner(d, 1/d)`; both commute, so it is a sum over the two eigenspaces -/
def wernerReeVal (log : α → α) (two : α) (d : Nat) (a : α) : α :=
  let ns := (d : α) * ((d : α) + 1) / two
  let na := (d : α) * ((d : α) - 1) / two
  ns * relTerm log (wernerEigSym d a) (wernerEigSym d (1 / (d : α)))
    + na * relTerm log (wernerEigAnti d a) (wernerEigAnti d (1 / (d : α)))

def wernerReeFull (log : α → α) (two : α) (d : Nat) (a : α) : α := wernerRee d a (wernerReeVal log two d a)

/-- eigenvalues of `Isotropic(d, a)`: `(1-a)/d² + a` on `|Φ⟩` (multiplicity 1), `(1-a)/d²` elsewhere (multiplicity `d²-1`) -/
def isotropicEigPhi (d : Nat) (a : α) : α := (1 - a) / ((d : α) * (d : α)) + a
def isotropicEigRest (d : Nat) (a : α) : α := (1 - a) / ((d : α) * (d : α))

/-- entangled branch of `get_Isotropic_ree` (`_internal.py:253-255`), reference state `Isotropic(d, 1/(d+1))` -/
def isotropicReeVal (log : α → α) (d : Nat) (a : α) : α :=
  relTerm log (isotropicEigPhi d a) (isotropicEigPhi d (1 / ((d : α) + 1)))
    + ((d : α) * (d : α) - 1) * relTerm log (isotropicEigRest d a) (isotropicEigRest d (1 / ((d : α) + 1)))

def isotropicReeFull (log : α → α) (d : Nat) (a : α) : α := isotropicRee d a (isotropicReeVal log d a)

/-! (the entangled-branch values of `get_Werner_GME` / `get_Isotropic_GME` are already part of `wernerGME` / `isotropicGME`)

documented parameter ranges (the `assert`s of the constructors), evaluated in the scalar type as the source does -/
def wernerInRange (d : Nat) (a : α) : Bool := decide (1 < d) && decide (-1 ≤ a) && decide (a ≤ 1)
def isotropicInRange (d : Nat) (a : α) : Bool :=
  decide (1 < d) && decide (-1 / ((d : α) * (d : α) - 1) ≤ a) && decide (a ≤ 1)
def unitInRange (b : α) : Bool := decide (0 ≤ b) && decide (b ≤ 1)
def antoineInRange (c25 : α) (q : α) : Bool := decide (-c25 ≤ q) && decide (q ≤ c25)

end values

/-! ### kets with amplitudes `±√(rational)` -/

/-- amplitude `sgn · √sq` -/
structure SAmp where
  sgn : Int
  sq : Rat
deriving DecidableEq, Repr, Inhabited

def SAmp.zero : SAmp := ⟨0, 0⟩

/-- `W(n)` (`_internal.py:19-21`): `√(1/n)` at the indices `2^k`, `k < n`. -/
def ketW (n : Nat) (x : Nat) : SAmp :=
  if (List.range n).any (fun k => x == 2 ^ k) then ⟨1, 1 / (n : Rat)⟩ else SAmp.zero

/-- `GHZ(n)` (`_internal.py:81-83`): `1/√2` at the first and the last index. -/
def ketGHZ (n : Nat) (x : Nat) : SAmp :=
  if x = 0 ∨ x + 1 = 2 ^ n then ⟨1, 1 / 2⟩ else SAmp.zero

/-- `Bell(i)` (`_internal.py:97-104`). -/
def ketBell (i : Nat) (x : Nat) : SAmp :=
  match i, x with
  | 0, 0 => ⟨1, 1/2⟩ | 0, 3 => ⟨1, 1/2⟩
  | 1, 0 => ⟨1, 1/2⟩ | 1, 3 => ⟨-1, 1/2⟩
  | 2, 1 => ⟨1, 1/2⟩ | 2, 2 => ⟨1, 1/2⟩
  | 3, 1 => ⟨1, 1/2⟩ | 3, 2 => ⟨-1, 1/2⟩
  | _, _ => SAmp.zero

/-- `maximally_entangled_state(d)` (`_internal.py:320`): `diag(√(1/d))` flattened; entry `(i,j)`. -/
def ketMaxEnt (d : Nat) (i j : Nat) : SAmp := if i = j then ⟨1, 1 / (d : Rat)⟩ else SAmp.zero

/-- `maximally_coherent_state(d)` (`_internal.py:439`): all amplitudes `1/√d`. -/
def ketMaxCoh (d : Nat) (_x : Nat) : SAmp := ⟨1, 1 / (d : Rat)⟩

/-- `maximally_coherent_state(d, return_dm=True)` (`_internal.py:437`): `ones((d,d))/d`. -/
def dmMaxCoh (d : Nat) (_r _c : Nat) : Rat := 1 / (d : Rat)

/-- `Dicke(*klist)` (`dicke.py:7-32`): `1/√M` on the `M` distinct arrangements of the multiset, `M` = multinomial coefficient
(`len(np.unique(permutations))`).  Support test and `M` are the ones of the C17 model (`NumqiModel/Dicke.lean`):
the base-`dim` digit string of `x` (most significant first, `base = dim**arange(n)[::-1]`) has occupation numbers `klist`. -/
def ketDicke (klist : List Nat) (x : Nat) : SAmp :=
  if Dicke.occ klist.length (Dicke.digits klist.length klist.sum x) = klist then
    ⟨1, 1 / (Dicke.multinomial klist : Rat)⟩
  else SAmp.zero

/-! ### W-type states (`Wtype`, `_internal.py:35-39`) -/

section wtype
variable {α : Type} [Div α] [Zero α]

/-- `coeff/‖coeff‖` written to the indices `2^k`; `nrm` is `np.linalg.norm(coeff)`, computed by the caller.
(`x` is a power of two iff `x = 2^(log2 x)`.) -/
def ketWtype (coeff : List α) (nrm : α) (x : Nat) : α :=
  if x = 2 ^ x.log2 ∧ x.log2 < coeff.length then coeff.getD x.log2 0 / nrm else 0

end wtype

/-! ### closed-form geometric measures of Dicke and W-type states (`state/_internal.py:42-67, 108-118`) -/

/-- `C(n,k)` by the multiplicative formula (every intermediate division is exact) -/
def binomN (n k : Nat) : Nat := (List.range k).foldl (fun acc i => acc * (n - i) / (i + 1)) 1

/-- `get_qubit_dicke_state_GME(n, k) = 1 - C(n,k) (k/n)^k ((n-k)/n)^(n-k)` over the rationals (`0^0 = 1` as in Python) -/
def dickeGME (n k : Nat) : Rat :=
  1 - (binomN n k : Rat) * ((k : Rat) / (n : Rat)) ^ k * (((n - k : Nat) : Rat) / (n : Rat)) ^ (n - k)

section wtypegme
variable {α : Type} [Add α] [Sub α] [Mul α] [Div α] [Zero α] [One α] [LT α] [DecidableRel (α := α) (· < ·)]

/-- `max(x, y, z)` as Python evaluates it (first maximal element) -/
def max3 (x y z : α) : α := let m := if x < y then y else x; if m < z then z else m

/-- `get_Wtype_state_GME(a, b, c)` after its normalisation assert; `c16 = 16`, `two = 2`, `q34 = 3/4`, `four = 4` -/
def wtypeGME (c16 two q34 four : α) (a b c : α) : α :=
  let r1 := b * b + c * c - a * a
  let r2 := a * a + c * c - b * b
  let r3 := a * a + b * b - c * c
  if 0 < r1 ∧ 0 < r2 ∧ 0 < r3 then
    let w := two * a * b
    let t := (c16 * a * a * b * b * c * c - w * w + r3 * r3) / (w * w - r3 * r3)
    q34 - t / four
  else 1 - max3 (a * a) (b * b) (c * c)

end wtypegme

/-! ### element-probing measurements (`unique_determine/_internal.py:210-254`), entries as Gaussian integers

`eq8`: `2·dim` Hermitian operators `1, E₀₀, E₀ₖ+Eₖ₀, -iE₀ₖ+iEₖ₀`.  `eq9` (even `dim ≥ 4`): four orthonormal bases `B1..B4`
whose rows are `(|p⟩ ± u|q⟩)/√2`, `u ∈ {1, i}`; the model gives `√2 ×` the entry. -/

/-- `get_element_probing_POVM('eq8', dim)[m, r, c]` -/
def eprobe8 (dim m r c : Nat) : GInt :=
  if m = 0 then (if r = c then 1 else 0)
  else if m = 1 then (if r = 0 ∧ c = 0 then 1 else 0)
  else if m ≤ dim then                     -- m = k+1, k = 1..dim-1: E_{0k} + E_{k0}
    (if (r = 0 ∧ c = m - 1) ∨ (r = m - 1 ∧ c = 0) then 1 else 0)
  else                                       -- m = k+dim: -i E_{0k} + i E_{k0}
    (if r = 0 ∧ c = m - dim then ⟨0, -1⟩ else if r = m - dim ∧ c = 0 then ⟨0, 1⟩ else 0)

/-- `√2 ×` entry `(i, c)` of basis `B_{b+1}` (`b = 0..3`) of `get_element_probing_POVM('eq9', dim)` -/
def eprobe9 (b dim i c : Nat) : GInt :=
  let p := if b % 2 = 0 then (i / 2) * 2 else (i / 2) * 2 + 1
  let q := if b % 2 = 0 then (i / 2) * 2 + 1 else ((i / 2) * 2 + 2) % dim
  let u : GInt := if b < 2 then ⟨1, 0⟩ else ⟨0, 1⟩
  let v : GInt := if i % 2 = 0 then u else -u
  -- the second assignment of the source overwrites the first when both hit the same column (never for even dim ≥ 2)
  if c = q then v else if c = p then 1 else 0

/-- exact test (`eprobe9Unitary = eprobe9RowsOK && eprobe9ColsOK`): the rows of `B_{b+1}` are orthonormal (`Σ_c conj(B i c) B j c = 2 δ_ij` for the scaled entries) and complete
(`Σ_i B i c conj(B i c') = 2 δ_cc'`), so `Σ_i |b_i⟩⟨b_i| = 1` -/
def eprobe9RowsOK (b dim : Nat) : Bool :=
  let idx := List.range dim
  (idx.all fun i => idx.all fun j =>
    (idx.foldl (fun acc c => acc + conj (eprobe9 b dim i c) * eprobe9 b dim j c) (0 : GInt)) == (if i = j then ⟨2, 0⟩ else 0))

def eprobe9ColsOK (b dim : Nat) : Bool :=
  let idx := List.range dim
  (idx.all fun c => idx.all fun c' =>
    (idx.foldl (fun acc i => acc + eprobe9 b dim i c * conj (eprobe9 b dim i c')) (0 : GInt)) == (if c = c' then ⟨2, 0⟩ else 0))

def eprobe9Unitary (b dim : Nat) : Bool := eprobe9RowsOK b dim && eprobe9ColsOK b dim

/-! ### unextendible product bases (`entangle/upb.py`) -/

/-- a fixed table: for every party, a list of local vectors in signed-square form -/
abbrev UPBTable := List (List (List SAmp))

def sa (sgn : Int) (n d : Nat) : SAmp := ⟨sgn, (n : Rat) / (d : Rat)⟩
def s0 : SAmp := SAmp.zero
def s1 : SAmp := ⟨1, 1⟩

/-- `load_upb('tiles')` (`upb.py:59-61`). -/
def upbTiles : UPBTable :=
  [ [ [s1, s0, s0], [sa 1 1 2, sa (-1) 1 2, s0], [s0, s0, s1], [s0, sa 1 1 2, sa (-1) 1 2], [sa 1 1 3, sa 1 1 3, sa 1 1 3] ],
    [ [sa 1 1 2, sa (-1) 1 2, s0], [s0, s0, s1], [s0, sa 1 1 2, sa (-1) 1 2], [s1, s0, s0], [sa 1 1 3, sa 1 1 3, sa 1 1 3] ] ]

/-- `load_upb('feng4x4')` (`upb.py:69-77`). -/
def upbFeng4x4 : UPBTable :=
  let t := sa 1 1 3; let m := sa (-1) 1 3
  let e0 := [s1, s0, s0, s0]; let e1 := [s0, s1, s0, s0]; let e2 := [s0, s0, s1, s0]; let e3 := [s0, s0, s0, s1]
  let r0 := [s0, t, t, t]; let r1 := [t, s0, m, t]; let r2 := [t, t, s0, m]; let r3 := [t, m, t, s0]
  [ [e0, e1, e2, e3, r0, r1, r2, r3],
    -- tmp2[[0,6,5,3]] = eye(4); tmp2[7] = r0; tmp2[4] = r3; tmp2[1] = r1; tmp2[2] = r2
    [e0, r1, r2, e3, r3, e2, e1, r0] ]

/-- `load_upb('feng2x2x2x2')` (`upb.py:127-134`). -/
def upbFeng2x2x2x2 : UPBTable :=
  let b10 := [s1, s0]; let b11 := [s0, s1]
  let b20 := [sa 1 1 2, sa 1 1 2]; let b21 := [sa 1 1 2, sa (-1) 1 2]
  let b30 := [sa 1 1 4, sa (-1) 3 4]; let b31 := [sa 1 3 4, sa 1 1 4]
  [ [b10, b11, b10, b20, b21, b20],
    [b10, b20, b11, b11, b21, b10],
    [b10, b20, b30, b21, b31, b11],
    [b10, b20, b30, b31, b11, b21] ]

/-- squared norm of a local vector -/
def sampNormSq (v : List SAmp) : Rat := (v.map fun a => if a.sgn = 0 then 0 else a.sq).foldl (· + ·) 0

/-- exact test that `Σ_k sgn_k·sgn'_k·√(sq_k)·√(sq'_k) = 0`: the terms are grouped by the product `sq_k·sq'_k`
(`√a·√b = √(ab)`) and every group has signs summing to zero (sufficient, and what happens in all three tables). -/
def sampOrthogonal (u v : List SAmp) : Bool :=
  let terms := (u.zip v).filter fun p => p.1.sgn ≠ 0 ∧ p.2.sgn ≠ 0
  terms.all fun p =>
    ((terms.filter fun q => q.1.sq * q.2.sq = p.1.sq * p.2.sq).map fun q => q.1.sgn * q.2.sgn).foldl (· + ·) 0 == 0

/-- the product vectors of a table are normalised and pairwise orthogonal (some party has orthogonal local vectors) -/
def upbTableOrthonormal (t : UPBTable) : Bool :=
  let n := (t.headD []).length
  t.all (fun party => party.length == n && party.all fun v => sampNormSq v == 1) &&
  (List.range n).all fun a => (List.range n).all fun b =>
    a == b || t.any fun party => sampOrthogonal (party.getD a []) (party.getD b [])

/-! ### `get_upb_product` and `upb_to_bes` over the Gaussian rationals (exact on the binary64 values of the tables) -/

/-- `get_upb_product` (`upb.py:26-29`): row `a` of the result is the Kronecker product of the rows `a` of the parties. -/
def upbProductRow {α : Type} [Mul α] [One α] (rows : List (List α)) : List α :=
  rows.foldl (fun acc v => acc.flatMap fun x => v.map fun y => x * y) [1]

section upbgeneric
variable {α : Type} [Add α] [Sub α] [Mul α] [Zero α] [One α] [Conj α]

/-- `Σ_{a<m} f a` as a left fold -/
def sumRange (m : Nat) (f : Nat → α) : α := (List.range m).foldl (fun acc a => acc + f a) 0

/-- `(upb.T @ upb.conj())[r,c] = Σ_a w_a[r]·conj(w_a[c])`; `w a` is the `a`-th product vector (row `a` of `upb`) -/
def upbProj (m : Nat) (w : Nat → Nat → α) (r c : Nat) : α := sumRange m fun a => w a r * conj (w a c)

/-- `upb_to_bes` before normalisation (`upb.py:222`): `eye(D) - upb.T @ upb.conj()`; entry `(r, c)`. -/
def upbCompl (m : Nat) (w : Nat → Nat → α) (r c : Nat) : α := (if r = c then 1 else 0) - upbProj m w r c

/-- product vectors across a bipartite cut (`get_upb_product`, `upb.py:28`): `w_a[i·dB + j] = u_a[i]·v_a[j]` -/
def prodVec (dB : Nat) (u v : Nat → Nat → α) (a x : Nat) : α := u a (x / dB) * v a (x % dB)

end upbgeneric

/-- `upb_to_bes` before normalisation on the list of product vectors (what the driver runs, over `ℚ[i]`). -/
def upbComplement (prod : List (List QI)) (r c : Nat) : QI :=
  upbCompl prod.length (fun a x => (prod.getD a []).getD x 0) r c

/-! ### GenShifts UPB (`upb.py:116-124`): `2k` product vectors of `2k-1` qubits -/

/-- `tmp0 = [0, k, k-1, …, 1, k+1, …, 2k-1]` -/
def gsPerm (k j : Nat) : Nat := if j = 0 then 0 else if j ≤ k then k + 1 - j else j

/-- row `i` of party `x` is `tmp2[[0] ++ np.roll(arange(1,2k), x)][i]`; `np.roll(a, x)[t] = a[(t-x) mod n]`, `n = 2k-1` -/
def gsIndex (k x i : Nat) : Nat := if i = 0 then 0 else 1 + ((i - 1 + (2 * k - 1) - x) % (2 * k - 1))

/-- the local vector of product vector `i` on party `x` is `(cos, sin)(gsAngle·π/2k)` -/
def gsAngle (k x i : Nat) : Nat := gsPerm k (gsIndex k x i)

/-- local vector; `c a`, `s a` stand for `cos(aπ/2k)`, `sin(aπ/2k)` -/
def gsVec {α : Type} (c s : Nat → α) (k x i : Nat) : α × α := (c (gsAngle k x i), s (gsAngle k x i))

/-! ### Pyramid UPB (`upb.py:63-66`) -/

/-- `tmp1[x] = (2/√(5+√5))·(cos(2πx/5), sin(2πx/5), h)`; `c x`, `s x` stand for the cosine / sine, `h = √(1+√5)/2`,
`scale = 2/√(5+√5)` -/
def pyramidVec {α : Type} [Mul α] (c s : Nat → α) (h scale : α) (x : Nat) : List α := [scale * c x, scale * s x, scale * h]

/-- party A uses `tmp1[a]`, party B `tmp1[[0,2,4,1,3][a]] = tmp1[2a mod 5]` -/
def pyramidIdx (party a : Nat) : Nat := if party = 0 then a else (2 * a) % 5

/-- real dot product of two lists -/
def dotList {α : Type} [Add α] [Mul α] [Zero α] (u v : List α) : α := (u.zip v).foldl (fun acc p => acc + p.1 * p.2) 0

/-! ### Min4x4 UPB (`upb.py:79-92`): entries in `ℤ[√2]`, each row divided by the square root of its squared norm -/

/-- `a + b√2` -/
structure Z2 where
  a : Int
  b : Int
deriving DecidableEq, Repr, Inhabited

namespace Z2
instance : Add Z2 := ⟨fun x y => ⟨x.a + y.a, x.b + y.b⟩⟩
instance : Mul Z2 := ⟨fun x y => ⟨x.a * y.a + 2 * x.b * y.b, x.a * y.b + x.b * y.a⟩⟩
instance : Zero Z2 := ⟨⟨0, 0⟩⟩
def ofInt (n : Int) : Z2 := ⟨n, 0⟩
def toFloat (x : Z2) : Float := Float.ofInt x.a + Float.ofInt x.b * Float.sqrt 2
end Z2

/-- a row: squared norm and the un-normalised entries; the vector is `entries / √normSq` -/
structure Z2Row where
  normSq : Z2
  entries : List Z2

def z (n : Int) : Z2 := ⟨n, 0⟩
def r2 : Z2 := ⟨0, 1⟩

/-- party A (`tmp0`): `[1,-3,1,1]/√12`, `e0`, `[0,1,2,1]/√6`, `[1,0,0,-1]/√2`, `e1`, `[3,1,-1,1]/√12`, `[0,1,1,0]/√2`, `e2` -/
def min4x4A : List Z2Row :=
  [ ⟨z 12, [z 1, z (-3), z 1, z 1]⟩, ⟨z 1, [z 1, z 0, z 0, z 0]⟩, ⟨z 6, [z 0, z 1, z 2, z 1]⟩, ⟨z 2, [z 1, z 0, z 0, z (-1)]⟩,
    ⟨z 1, [z 0, z 1, z 0, z 0]⟩, ⟨z 12, [z 3, z 1, z (-1), z 1]⟩, ⟨z 2, [z 0, z 1, z 1, z 0]⟩, ⟨z 1, [z 0, z 0, z 1, z 0]⟩ ]

/-- party B (`tmp1`) -/
def min4x4B : List Z2Row :=
  [ ⟨⟨15, 8⟩, [z 0, z 1, ⟨-3, -1⟩, ⟨-1, -1⟩]⟩, ⟨z 1, [z 1, z 0, z 0, z 0]⟩, ⟨⟨5, -2⟩, [z 1, z 0, ⟨-1, 1⟩, z 1]⟩, ⟨z 1, [z 0, z 1, z 0, z 0]⟩,
    ⟨⟨5, 2⟩, [z (-1), ⟨1, 1⟩, z 0, z 1]⟩, ⟨z 1, [z 0, z 0, z 1, z 0]⟩, ⟨z 5, [z 1, z 1, z 1, ⟨0, -1⟩]⟩, ⟨⟨5, 2⟩, [z (-1), ⟨1, 1⟩, z 0, z 1]⟩ ]

/-- exact test in `ℤ[√2]`: every row has the stated squared norm, and every pair of product vectors is orthogonal on
party A or on party B (`a + b√2 = 0` iff `a = b = 0`) -/
def min4x4Orthonormal : Bool :=
  let ok (t : List Z2Row) := t.all fun r => dotList r.entries r.entries == r.normSq
  ok min4x4A && ok min4x4B && min4x4A.length == 8 && min4x4B.length == 8 &&
  (List.range 8).all fun i => (List.range 8).all fun j => i == j ||
    dotList ((min4x4A.getD i ⟨z 0, []⟩).entries) ((min4x4A.getD j ⟨z 0, []⟩).entries) == (0 : Z2) ||
    dotList ((min4x4B.getD i ⟨z 0, []⟩).entries) ((min4x4B.getD j ⟨z 0, []⟩).entries) == (0 : Z2)

/-! ### six-parameter UPB of `3 × 3` (`upb.py:135-162`) -/

section sixparam
open Numqi.Lie
variable {α : Type} [Add α] [Sub α] [Mul α] [Neg α] [Div α] [Zero α] [One α]

/-- the two local vectors that depend on the parameters: `cg, sg = cos γ, sin γ`, `ct, st = cos θ, sin θ`, `e = exp(iφ)`,
`nrm = max(√(cos²γ + sin²γ cos²θ), 1e-12)` -/
def sixRowMixed (cg sg ct st : α) (e : Cx α) : List (Cx α) := [Cx.ofReal (sg * st), Cx.smul cg e, Cx.ofReal (-(sg * ct))]
def sixRowLast (cg sg ct nrm : α) (e : Cx α) : List (Cx α) :=
  [0, ⟨(Cx.smul (sg * ct) e).re / nrm, (Cx.smul (sg * ct) e).im / nrm⟩, Cx.ofReal (cg / nrm)]
def sixRowTheta (ct st : α) : List (Cx α) := [Cx.ofReal ct, 0, Cx.ofReal st]

/-- party A: `e0, e1, (cθ,0,sθ), mixed, last` -/
def sixparamA (cg sg ct st nrm : α) (e : Cx α) : List (List (Cx α)) :=
  [[1, 0, 0], [0, 1, 0], sixRowTheta ct st, sixRowMixed cg sg ct st e, sixRowLast cg sg ct nrm e]
/-- party B: `e1, mixed, e0, (cθ,0,sθ), last` -/
def sixparamB (cg sg ct st nrm : α) (e : Cx α) : List (List (Cx α)) :=
  [[0, 1, 0], sixRowMixed cg sg ct st e, [1, 0, 0], sixRowTheta ct st, sixRowLast cg sg ct nrm e]

/-- Hermitian inner product `Σ conj(u_t) v_t` -/
def hdot (u v : List (Cx α)) : Cx α := (u.zip v).foldl (fun acc q => acc + q.1.conj * q.2) 0

end sixparam

/-! ### tetrahedron POVM (`utils.py:361-369`) -/

section povm
variable {α : Type} [Add α] [Sub α] [Mul α] [Neg α] [Zero α] [One α]

/-- Bloch rows `vec[k] = (1, x, y, z)/4`; `a = √2/3`, `b = √(2/3)`, `third = 1/3`, `quarter = 1/4`, `two = 2`. -/
def tetraVec (a b third quarter two : α) (k : Nat) : List α :=
  (match k with
   | 0 => [1, 0, 0, 1]
   | 1 => [1, two * a, 0, -third]
   | 2 => [1, -a, b, -third]
   | _ => [1, -a, -b, -third]).map (quarter * ·)

/-- one-qubit element `Σ_μ vec[k,μ] σ_μ`, entry `(r,c)` as a pair (re, im): `σ_0 = I, σ_1 = X, σ_2 = Y, σ_3 = Z`
(`tmp0` of the source: `[[1,0],[0,1]], [[0,1],[1,0]], [[0,-i],[i,0]], [[1,0],[0,-1]]`). -/
def tetra1 (a b third quarter two : α) (k r c : Nat) : α × α :=
  match tetraVec a b third quarter two k with
  | [v0, v1, v2, v3] =>
    (match r, c with
     | 0, 0 => (v0 + v3, 0) | 0, 1 => (v1, -v2)
     | 1, 0 => (v1, v2) | 1, 1 => (v0 - v3, 0)
     | _, _ => (0, 0))
  | _ => (0, 0)

/-- complex product on pairs -/
def cmul (x y : α × α) : α × α := (x.1 * y.1 - x.2 * y.2, x.1 * y.2 + x.2 * y.1)

/-- `get_tetrahedron_POVM(n)`: element `k` (base-4 digits `k_1 … k_n`, most significant first) is
`M_{k_1} ⊗ … ⊗ M_{k_n}`; entry `(r, c)` with bits of `r, c` most significant first (`utils.py:367-368`). -/
def tetraN (a b third quarter two : α) : (n : Nat) → (k r c : Nat) → α × α
  | 0, _, _, _ => (1, 0)
  | n + 1, k, r, c => cmul (tetraN a b third quarter two n (k / 4) (r / 2) (c / 2)) (tetra1 a b third quarter two (k % 4) (r % 2) (c % 2))

end povm

/-! ### Chebyshev bases (`unique_determine/_internal.py:61-100`), Float model -/

/-- `T_n(x)` by the three-term recurrence `T_{n+2} = 2x T_{n+1} - T_n` (`2x·T` written as `x·T + x·T`, which is the same
binary64 value); generic in the scalar so that the orthogonality statement can be written over `ℝ`. -/
def chebT {α : Type} [Add α] [Sub α] [Mul α] [One α] (x : α) : Nat → α
  | 0 => 1
  | 1 => x
  | n + 2 => (x * chebT x (n + 1) + x * chebT x (n + 1)) - chebT x n

section cheb
variable {α : Type} [Add α] [Sub α] [Mul α] [Div α] [Zero α] [One α]

/-- `hf_chebval_n(x, n)`: `T_n(x)·(1 if n==0 else √2)`; `sqrt2` stands for `np.sqrt(2)` -/
def chebvalN (sqrt2 x : α) (n : Nat) : α := chebT x n * (if n = 0 then 1 else sqrt2)

/-- `basis0[k, n] = hf_chebval_n(rootd[k], n)/√d`; `node k = cos(π(k+½)/d)`, `sqrtD = √d` are computed by the caller -/
def chebBasis0 (sqrt2 sqrtD : α) (node : Nat → α) (k n : Nat) : α := chebvalN sqrt2 (node k) n / sqrtD

/-- `basis1`: rows `k < d-1`: `hf_chebval_n(rootd1[k], n)/√(d-1)` with `node1 k = cos(π(k+½)/(d-1))`; last row `e_{d-1}`. -/
def chebBasis1 (sqrt2 sqrtD1 : α) (node1 : Nat → α) (d k n : Nat) : α :=
  if k + 1 < d then chebvalN sqrt2 (node1 k) n / sqrtD1 else if n + 1 = d then 1 else 0

end cheb

def piF : Float := 3.141592653589793

end Numqi.Catalogue
