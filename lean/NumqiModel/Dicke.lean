/-
Model of `python/numqi/dicke.py`.  No Mathlib import.

* `klist d n`            — `get_dicke_klist(num_qudit=n, dim=d)` (`dicke.py:61-77`), recursion order included
* `multinomial a`        — number of distinct permutations of the string with occupation `a`
                           (`len(tmp1)` in `_dicke_hf0`, `dicke.py:7-12`)
* `dickeSq d n a x`      — *squared* amplitude of the Dicke vector `D_a` at the flat base-`d` index `x`
                           (`1/len(tmp1)` on the strings of occupation `a`, else `0`); rational
* `bijTable n d r s`     — the index triples of `get_partial_trace_ABk_to_AB_index` (`dicke.py:102-154`)
                           with `value²` (rational) in place of `value`
* `assembleAB`           — `partial_trace_ABk_to_AB` (`dicke.py:164-177`): the stack / reshape / transpose
                           assembly of the reduced matrix from index triples, over any scalar type
-/
import NumqiModel.PartialTrace

namespace Numqi
namespace Dicke

/-- `hf0(d, n)` of `get_dicke_klist`: `[(n,)]` if `d ≤ 1`, else `[(x,)+y for x in range(n+1) for y in hf0(d-1, n-x)]` -/
def klist : Nat → Nat → List (List Nat)
  | 0, n => [[n]]
  | d + 1, n =>
    if d = 0 then [[n]]
    else (List.range (n + 1)).flatMap fun x => (klist d (n - x)).map (x :: ·)

def fact : Nat → Nat
  | 0 => 1
  | n + 1 => (n + 1) * fact n

def prodFact : List Nat → Nat
  | [] => 1
  | a :: as => fact a * prodFact as

/-- `(Σ a)! / ∏ aᵢ!` -/
def multinomial (a : List Nat) : Nat := fact a.sum / prodFact a

/-- occupation numbers of a digit string: how often each level `0..d-1` occurs -/
def occ (d : Nat) (digits : List Nat) : List Nat := (List.range d).map fun v => digits.count v

/-- base-`d` digits (most significant first, `n` of them) of the flat index `x`:
`base = dim**(np.arange(num_qudit)[::-1])` -/
def digits (d n x : Nat) : List Nat := PT.unravel (List.replicate n d) x

/-- squared amplitude of `D_a` at flat index `x` (`_dicke_hf0`) -/
def dickeSq (d n : Nat) (a : List Nat) (x : Nat) : Rat :=
  if occ d (digits d n x) = a then 1 / (multinomial a : Rat) else 0

/-- `a` with entry `r` decreased and entry `s` increased by one; `none` if `a_r = 0`
(the Python tuple then contains `-1` and is not a key of `klist_to_index`) -/
def shift (a : List Nat) (r s : Nat) : Option (List Nat) :=
  if a.getD r 0 = 0 then none
  else some ((a.set r (a.getD r 0 - 1)).set s ((a.set r (a.getD r 0 - 1)).getD s 0 + 1))

def indexOf? (l : List (List Nat)) (a : List Nat) : Option Nat :=
  let i := l.idxOf a
  if i < l.length then some i else none

/-- entry `r*dim+s` of `Bij`: triples `(i, j, value²)`.
`r = s`: all `i`, `j = i`, `value = a_r/n`.
`r ≠ s`: those `i` for which `b = a - e_r + e_s` is again in the list, `j = index b`, `value = √(a_r b_s)/n`. -/
def bijTable (n d r s : Nat) : List (Nat × Nat × Rat) :=
  let kl := klist d n
  if r = s then
    kl.zipIdx.map fun (a, i) => (i, i, ((a.getD r 0 * a.getD r 0 : Nat) : Rat) / ((n * n : Nat) : Rat))
  else
    kl.zipIdx.filterMap fun (a, i) =>
      match shift a r s with
      | none => none
      | some b =>
        match indexOf? kl b with
        | none => none
        | some j => some (i, j, ((a.getD r 0 * b.getD s 0 : Nat) : Rat) / ((n * n : Nat) : Rat))

/-- `scipy.special.binom(n+d-1, d-1)` as used by `get_dicke_number` (exact for the sizes in use) -/
def choose : Nat → Nat → Nat
  | _, 0 => 1
  | 0, _ + 1 => 0
  | n + 1, k + 1 => choose n k + choose n (k + 1)

def dickeNumber (n d : Nat) : Nat := choose (n + d - 1) (d - 1)

variable {α : Type} [Zero α] [Add α] [Mul α] [Conj α]

/-- `partial_trace_ABk_to_AB(state, Bij)` (`dicke.py:164-177`):
`ret[q][α,β] = Σ_l state[α, i_l] · value_l · conj state[β, j_l]`, stacked on axis 2, reshaped to
`(dimA,dimA,dimB,dimB)`, transposed `(0,2,1,3)` and flattened: entry `(α·dimB + r, β·dimB + s)` is `ret[r·dimB+s][α,β]`. -/
def assembleAB (dimB : Nat) (table : Nat → List (Nat × Nat × α)) (ψ : Nat → Nat → α) (x y : Nat) : α :=
  let a := x / dimB
  let r := x % dimB
  let b := y / dimB
  let s := y % dimB
  (table (r * dimB + s)).foldr (fun e acc => ψ a e.1 * e.2.2 * conj (ψ b e.2.1) + acc) 0

/-! ### users of the reduction: `entangle/pureb.py`, `maximum_entropy/_internal.py` -/

/-- `PureBosonicExt.forward` (`pureb.py:65-67`): `tmp1 = self.manifold().reshape(self.dimA, -1)` — the parameter vector of
length `dimA·L` read as the coefficient matrix `ψ[α, i] = v[α·L + i]` (`L` = number of Dicke vectors) -/
def purebCoeff {α : Type} (L : Nat) (v : Nat → α) (a i : Nat) : α := v (a * L + i)

section users
variable {α : Type} [Zero α] [Add α] [Mul α] [Conj α]

/-- `dm_torch = partial_trace_ABk_to_AB(tmp1, self.Bij)` -/
def purebReduce (dimB L : Nat) (table : Nat → List (Nat × Nat × α)) (v : Nat → α) : Nat → Nat → α :=
  assembleAB dimB table (purebCoeff L v)

/-- the expectation branch of `PureBosonicExt.forward` (`pureb.py:55-63,75`): `set_expectation_op` stores `op.T.reshape(-1)`, the loss is
`dot(dm_torch.view(-1), expect_op_T_vec)` (its real part): `Σ_{x,y} ρ[x,y]·op[y,x]` -/
def expectLoss (N : Nat) (op ρ : Nat → Nat → α) : α := sumRange N fun x => sumRange N fun y => ρ x y * op y x

/-- the table `PureBosonicExt.__init__` stores (`pureb.py:31-34`): the index lists of `bijTable` with the values `w` (the casts to
`int64` / `complex128` do not change them; the exact tie substitutes integer values position by position) -/
def tableWith {β : Type} (tab : List (Nat × Nat × β)) (w : List α) : List (Nat × Nat × α) :=
  (tab.zip w).map fun p => (p.1.1, p.1.2.1, p.2)

/-- `get_partial_trace_ABk_to_AB_index(…, return_tensor=True)` (`dicke.py:146-152`): `Brsab[r,s,i,j] = value` for the triples of
entry `r·dim+s` (at most one triple per `(i,j)`), zero elsewhere -/
def tensorOfTable (dimB : Nat) (table : Nat → List (Nat × Nat × α)) (r s i j : Nat) : α :=
  match (table (r * dimB + s)).find? fun e => e.1 == i && e.2.1 == j with
  | some e => e.2.2
  | none => 0

/-- the reduced matrix written with the tensor: `ρ[(a,r),(b,s)] = Σ_{i,j} ψ[a,i]·B[r,s,i,j]·conj ψ[b,j]` -/
def assembleTensor (dimB L : Nat) (B : Nat → Nat → Nat → Nat → α) (ψ : Nat → Nat → α) (x y : Nat) : α :=
  sumRange L fun i => sumRange L fun j => ψ (x / dimB) i * B (x % dimB) (y % dimB) i j * conj (ψ (y / dimB) j)

/-- `get_ABk_gellmann_preimage_op(kind='boson')` (`maximum_entropy/_internal.py:144-147`) for one operator `G` on `AB`:
`einsum(matG[g,a,r,a',s], Brsab[r,s,p,q] → [g,a,p,a',q]).reshape(N0, dimA·L, dimA·L)` -/
def preimageBoson (dimB L : Nat) (G : Nat → Nat → α) (B : Nat → Nat → Nat → Nat → α) (x y : Nat) : α :=
  sumRange dimB fun r => sumRange dimB fun s => G ((x / L) * dimB + r) ((y / L) * dimB + s) * B r s (x % L) (y % L)

/-- mask of the register `[A, B_1, …, B_k]` keeping `A` and the copy `B_c` (`c = 1..k`) -/
def maskAB (k c : Nat) : List Bool := true :: (List.range k).map fun i => i + 1 == c

/-- `get_ABk_gellmann_preimage_op(kind='symmetric')` (`_internal.py:148-160`) before the final `/kext`:
`Σ_c (G on A ⊗ B_c, identity on the other copies)` -/
def preimageSymSum (dimA dimB k : Nat) (G : Nat → Nat → α) (x y : Nat) : α :=
  sumRange k fun c => PT.embedKeep (dimA :: List.replicate k dimB) (maskAB k (c + 1)) G x y

end users

end Dicke
end Numqi
