/-
Verdict layer of the entanglement criteria and the guarded closed forms of the two-qubit measures.
No Mathlib import.  Every comparison operator, default tolerance and guard flag used here is a constant of
`NumqiModel/Generated/Thresholds.lean`, regenerated from the numqi sources on every run; the theorems in
`NumqiProps/C05.lean` / `C13.lean` are about these definitions at those constants, the driver executes them
(at `Rat` for the verdicts, at `Float` for the closed forms).
-/
import NumqiModel.Generated.Thresholds

namespace Numqi.Ent
open Thresholds

/-- `x <op> y` -/
def Cmp.eval {α : Type} [LT α] [LE α] [DecidableRel (α := α) (· < ·)] [DecidableRel (α := α) (· ≤ ·)]
    (op : Cmp) (x y : α) : Bool :=
  match op with
  | .lt => decide (x < y)
  | .le => decide (x ≤ y)
  | .gt => decide (y < x)
  | .ge => decide (y ≤ x)
  | .other => false

section verdicts
variable {α : Type} [LT α] [LE α] [DecidableRel (α := α) (· < ·)] [DecidableRel (α := α) (· ≤ ·)]
  [Add α] [Mul α] [IntCast α] [OfNat α 0] [OfNat α 1]

/-- `utils.is_positive_semi_definite(M, shift)` (`utils.py:373-399`) as a function of the smallest eigenvalue
`lmin` of `M`: the matrix `M + k·shift·1` is handed to Cholesky, which (contract) succeeds exactly when it is
positive definite, i.e. when `lmin + k·shift > 0`. -/
def psdAccept (lmin shift : α) : Bool :=
  psdCholesky && decide ((0 : α) < lmin + (psdShiftCoeff : α) * shift)

/-- verdict of `is_ppt` for one party, given the smallest eigenvalue of the partial transpose (`ppt.py:154`) -/
def isPptAccept (eps lmin : α) : Bool := psdAccept lmin ((isPptShiftCoeff : α) * eps)

/-- verdict of `check_reduction_witness` for one party (`_misc.py:203`) -/
def reductionAccept (eps lmin : α) : Bool := psdAccept lmin ((reductionShiftCoeff : α) * eps)

/-- verdict of `is_generalized_ppt` for one bipartition, given the nuclear norm (`ppt.py:201`) -/
def gpptAccept (threshold nuc : α) : Bool :=
  gpptRhsOnePlusThreshold && Cmp.eval gpptAcceptOp nuc ((1 : α) + threshold)

/-- the early-exit test of `is_generalized_ppt` (`ppt.py:199`) -/
def gpptBreak (threshold nuc : α) : Bool := Cmp.eval gpptBreakOp nuc ((1 : α) + threshold)

/-- verdict of `check_swap_witness`, given the real part of `Σ ρ[ab,ba]` (`_misc.py:170`) -/
def swapAccept (eps v : α) : Bool := Cmp.eval swapOp v eps

end verdicts

/-! ### input guards (`ppt.py:147`, `_misc.py:191`, `_misc.py:230`) -/

/-- `assert np.abs(rho - rho.T.conj()).max() <(=) 1e-10` of `is_ppt` / `check_reduction_witness` / `get_negativity` on exactly represented
entries (Gaussian integers / rationals, where a deviation is either `0` or far above `1e-10`): with the guard present (`guard`, a constant of
`Generated/Thresholds.lean`) the call is rejected iff some entry differs from the conjugate of its mirror entry; `herm r c` decides
`ρ[r,c] = conj ρ[c,r]`. -/
def hermGuardRejects (guard : Bool) (N : Nat) (herm : Nat → Nat → Bool) : Bool :=
  guard && !((List.range N).all fun r => (List.range N).all fun c => herm r c)

/-! ### guarded closed forms (`eof.py:97-105`, `measure.py:26-27`) -/

/-- the two transcendental functions the closed forms need (`np.sqrt`, `np.log`) -/
class SqrtLog (α : Type) where
  sqrt : α → α
  log : α → α

instance : SqrtLog Float := ⟨Float.sqrt, Float.log⟩

section closed
variable {α : Type} [LT α] [DecidableRel (α := α) (· < ·)] [BEq α]
  [Add α] [Sub α] [Mul α] [Div α] [Neg α] [OfNat α 0] [OfNat α 1] [OfNat α 2] [SqrtLog α]

/-- Python's `max(0, x)`: `x` if `x > 0`, else `0` (also for NaN) -/
def pyMax0 (x : α) : α := if (0 : α) < x then x else 0

/-- the argument of `np.sqrt` : `max(0, 1-c*c)` if the source clamps, else `1-c*c` -/
def sqrtArg (clamp : Bool) (c : α) : α := if clamp then pyMax0 (1 - c * c) else 1 - c * c

/-- `tmp1 = (1 + np.sqrt(…))/2` -/
def eofT (c : α) : α := (1 + SqrtLog.sqrt (sqrtArg eofClampSqrtArg c)) / 2

/-- arguments of `np.log` evaluated on the branch taken for a given (already rounded) `tmp1 = t` -/
def eofLogArgs (t : α) : List α :=
  if eofSecondTermGuardLt1 then (if t < 1 then [t, 1 - t] else [t]) else [t, 1 - t]

/-- `ret = -tmp1*log(tmp1)`; `if tmp1<1: ret = ret - (1-tmp1)*log(1-tmp1)` -/
def eofBody (t : α) : α :=
  let ret := -t * SqrtLog.log t
  if eofSecondTermGuardLt1 then (if t < 1 then ret - (1 - t) * SqrtLog.log (1 - t) else ret)
  else ret - (1 - t) * SqrtLog.log (1 - t)

/-- `get_eof_2qubit` as a function of the concurrence -/
def eof2qubit (c : α) : α :=
  if eofZeroShortcut && c == 0 then 0 else eofBody (eofT c)

/-- the argument of `np.sqrt` in `get_concurrence_pure` (`eof.py:56`), given the radicand `2*(1-tmp2)` -/
def concPureSqrtArg (x : α) : α := if concPureClampSqrtArg then pyMax0 x else x

/-- the read-out of `get_concurrence_2qubit` from the (ascending) eigenvalues returned by `eigvalsh` (`eof.py:32-33`):
`EVL = sqrt(maximum(0, ev))`, `maximum(2*EVL[-1] - EVL.sum(), 0)` -/
def woottersReadout (ev : List α) : α :=
  let l := ev.map fun x => SqrtLog.sqrt (pyMax0 x)
  pyMax0 (2 * l.getLastD 0 - l.foldl (· + ·) 0)

/-- the scale applied to an eigenvector column in `set_density_matrix` of every variational model (`eof.py:150-153`, `measure.py:82-85`):
`np.sqrt(np.maximum(0, EVL[-rank:]))`; the columns are `EVC[:, -rank:]` -/
def sqrtRhoScale (lam : α) : α := SqrtLog.sqrt (pyMax0 lam)

/-- `_sqrt_rho[k, j]` (real or imaginary part `v` of `EVC[k, N-rank+j]`) from the `eigh` output, `N` = dimension -/
def sqrtRhoEntry (evl : List α) (N rank j : Nat) (v : α) : α := v * sqrtRhoScale (evl.getD (N - rank + j) 0)

/-- the read-out of `get_negativity` from the spectrum returned by `np.linalg.eigvals` (`_misc.py:232`): `(sum(abs(ev)) - 1)/2`
(real spectrum: the partial transpose of a Hermitian matrix is Hermitian) -/
def negativityReadout (ev : List α) : α :=
  ((ev.map fun x => if x < 0 then -x else x).foldl (· + ·) 0 - 1) / 2

/-- `get_eof_pure` from the eigenvalues of the reduced state (`eof.py:78-80`): `EVL = EVL[EVL>eps]; -dot(EVL, log(EVL))` -/
def eofPureFromWeights (eps : α) (ev : List α) : α :=
  -((ev.filter fun x => decide (eps < x)).foldl (fun acc x => acc + x * SqrtLog.log x) 0)

/-! ### losses of the variational models, as functions of the reduced states of the ensemble members
(`eof.py:163-171, 232-239`, `measure.py:116-124, 235-241`); the eigenvalues of each reduced state come from
`torch.linalg.eigvalsh` (contract) -/

/-- `torch.maximum(x, eps)` -/
def clampBelow (eps x : α) : α := if eps < x then x else eps

/-- `x * log(maximum(x, eps))` -/
def clampXLogX (eps x : α) : α := x * SqrtLog.log (clampBelow eps x)

/-- value contributed by one ensemble member to the EOF loss: `p log p − Σ_i λ_i log λ_i` (`p = tr`, `λ` the spectrum of its
unnormalised reduced state) -/
def eofMember (eps : α) (m : α × List α) : α := clampXLogX eps m.1 - m.2.foldl (fun acc e => acc + clampXLogX eps e) 0

/-- `EntanglementFormationModel.forward`: `dot(prob, log prob) − dot(EVL, log EVL)`, grouped by member -/
def eofLoss (eps : α) (members : List (α × List α)) : α := members.foldl (fun acc m => acc + eofMember eps m) 0

/-- one member of the concurrence loss: `sqrt(maximum(eps, 2(p² − purity)))` -/
def concMember (eps : α) (m : α × α) : α := SqrtLog.sqrt (clampBelow eps (2 * (m.1 * m.1 - m.2)))

/-- `ConcurrenceModel.forward` -/
def concLoss (eps : α) (members : List (α × α)) : α := members.foldl (fun acc m => acc + concMember eps m) 0

/-- `DensityMatrixLinearEntropyModel.forward`: `sign·(1 − Σ purity/maximum(eps, p))` -/
def linentLoss (eps sign : α) (members : List (α × α)) : α :=
  sign * (1 - members.foldl (fun acc m => acc + m.2 / clampBelow eps m.1) 0)

/-- `DensityMatrixGMEModel.forward`: `1 − vdot(ov, ov).real`, `ov` given as (re, im) pairs -/
def gmeLoss (ov : List (α × α)) : α := 1 - ov.foldl (fun acc z => acc + (z.1 * z.1 + z.2 * z.2)) 0

/-- `get_gme_2qubit` as a function of the concurrence -/
def gme2qubit (c : α) : α := (1 - SqrtLog.sqrt (sqrtArg gmeClampSqrtArg c)) / 2

end closed

end Numqi.Ent
