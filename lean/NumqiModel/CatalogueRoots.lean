/-
Model of the roots-of-unity UPB families of `numqi/entangle/upb.py` — `load_upb('gentiles1', d)`,
`load_upb('gentiles2', (m, n))`, `load_upb('quadres', dim)` — as *symbolic* tables: every component of a local vector is
`0` or `± scale · ω^e` with `ω` a root of unity, and the table records `(scale class, sign, exponent)`.
No Mathlib import: the tables are executable (driver `Driver/C18Roots.lean`), the theorems of `NumqiProps/C18Roots.lean`
are about the evaluation `RootEnt.eval` of exactly these tables in `ℂ`.

Vector order = row order of the arrays returned by `load_upb` (`np.concatenate(pieces, axis=1).T`).
-/
import NumqiModel.Catalogue

namespace Numqi.Catalogue

/-- a component `± sc(cls) · ω^e` of a local vector; `cls = 0` is the entry `0`.
Scale classes: `1` ↦ `1`; `2` ↦ `1/√(order of ω)` (the "tile"/Fourier rows); `3` ↦ `1/√dim_A`, `5` ↦ `1/√dim_B` (the stopper
state); `4` ↦ `1/√2`; `6`, `7` (quadres) ↦ `√N/√(N+(p-1)/2)`, `1/√(N+(p-1)/2)`. -/
structure RootEnt where
  cls : Nat
  neg : Bool
  e : Nat
deriving DecidableEq, Repr, Inhabited

def RootEnt.zero : RootEnt := ⟨0, false, 0⟩

/-- value of a component, given the scales `sc cls` and the powers `pw e = ω^e` -/
def RootEnt.eval {α : Type} [Mul α] [Neg α] [Zero α] (sc : Nat → α) (pw : Nat → α) (x : RootEnt) : α :=
  if x.cls = 0 then 0 else if x.neg then -(sc x.cls * pw x.e) else sc x.cls * pw x.e

/-! ### GenTiles1 (`upb.py:163-175`), `d` even, `d ≥ 4`: `d² − 2d + 1` product vectors of `d ⊗ d` -/

/-- column `j` of the circulant `matW` for the parameter `m` (`upb.py:168-169`): entry `i` is `η^(m·k)/√(d/2)` with
`k = (i − j) mod d` when `k < d/2`, else `0`;  `η = exp(4πi/d)` has order `d/2` -/
def gt1Tile (d m j i : Nat) : RootEnt :=
  let k := (i + d - j) % d
  if k < d / 2 then ⟨2, false, (m * k) % (d / 2)⟩ else RootEnt.zero

/-- unit vector `e_j` -/
def unitEnt (j i : Nat) : RootEnt := if i = j then ⟨1, false, 0⟩ else RootEnt.zero

def gt1Count (d : Nat) : Nat := (d / 2 - 1) * (2 * d) + 1

/-- party-A component `i` of product vector `a`: for `a = ((m−1)·d + j)·2 + s`: `e_j` (`s = 0`) or `W_m[:,j]` (`s = 1`); the last
vector is `ones/√d` -/
def gt1A (d a i : Nat) : RootEnt :=
  if a < (d / 2 - 1) * (2 * d) then
    let m := a / (2 * d) + 1
    let j := a % (2 * d) / 2
    if a % 2 = 0 then unitEnt j i else gt1Tile d m j i
  else ⟨3, false, 0⟩

/-- party-B component: `np.roll(matW, -1, axis=1)[:,j] = W_m[:, (j+1) mod d]` (`s = 0`) or `e_j` (`s = 1`) -/
def gt1B (d a i : Nat) : RootEnt :=
  if a < (d / 2 - 1) * (2 * d) then
    let m := a / (2 * d) + 1
    let j := a % (2 * d) / 2
    if a % 2 = 0 then gt1Tile d m ((j + 1) % d) i else unitEnt j i
  else ⟨5, false, 0⟩

/-! ### GenTiles2 (`upb.py:176-200`), `m ≥ 3`, `n ≥ 4`, `n ≥ m`: `mn − 2m + 1` product vectors of `m ⊗ n` -/

def gt2Count (m n : Nat) : Nat := m + m * (n - 3) + 1

/-- the Fourier-type vector `φ_{j,l}` of party B (`upb.py:188-194`): supported on the rows `(a + j + 1) mod m`, `a < m−2`, and
`m … n−1` (`a = row − 2`), entry `ζ^(a·l)/√(n−2)`, `ζ = exp(2πi/(n−2))` -/
def gt2Phi (m n j l i : Nat) : RootEnt :=
  if i < m then
    let k := (i + m - (j + 1) % m) % m
    if k < m - 2 then ⟨2, false, (k * l) % (n - 2)⟩ else RootEnt.zero
  else if i < n then ⟨2, false, ((i - 2) * l) % (n - 2)⟩ else RootEnt.zero

def gt2A (m n a i : Nat) : RootEnt :=
  if a < m then
    (if i = a then ⟨4, false, 0⟩ else if i = (a + 1) % m then ⟨4, true, 0⟩ else RootEnt.zero)
  else if a < m + m * (n - 3) then unitEnt ((a - m) / (n - 3)) i
  else ⟨3, false, 0⟩

def gt2B (m n a i : Nat) : RootEnt :=
  if a < m then unitEnt a i
  else if a < m + m * (n - 3) then gt2Phi m n ((a - m) / (n - 3)) ((a - m) % (n - 3) + 1) i
  else ⟨5, false, 0⟩

/-! ### QuadRes (`upb.py:93-111`), `p = 2·dim − 1` prime, `dim` odd: `p` product vectors of `dim ⊗ dim` -/

/-- `q = sorted(set(k² mod p, k = 1 … (p−1)/2))` -/
def quadResidues (p : Nat) : List Nat :=
  (List.range p).filter fun x => x ≠ 0 && ((List.range (p / 2 + 1)).any fun k => k ≠ 0 && (k * k) % p == x)

/-- the smallest non-residue `s[0]` -/
def firstNonResidue (p : Nat) : Nat :=
  ((List.range p).find? fun x => x ≠ 0 && !(quadResidues p).contains x).getD 0

/-- party-A component `i` of product vector `b` (`F[[0,*q]].T` with row 0 scaled by `√N`, rows normalised):
component `0` is `√N/√(N+(p−1)/2)`, component `i ≥ 1` is `ω^(q_i·b)/√(N+(p−1)/2)`, `ω = exp(2πi/p)` -/
def qrA (p b i : Nat) : RootEnt :=
  if i = 0 then ⟨6, false, 0⟩ else ⟨7, false, ((quadResidues p).getD (i - 1) 0 * b) % p⟩

/-- party-B: the same with `q` replaced by `s[0]·q mod p` -/
def qrB (p b i : Nat) : RootEnt :=
  if i = 0 then ⟨6, false, 0⟩
  else ⟨7, false, ((firstNonResidue p * (quadResidues p).getD (i - 1) 0) % p * b) % p⟩

end Numqi.Catalogue
