/-
Model of the Cayley-table constructors of `numqi/group/_internal.py` and
`numqi/group/_symmetric.py` (C14).  No Mathlib import: everything here is executable and is
what `Driver/C14.lean` runs; the theorems of `NumqiProps/C14.lean` are about these constants.

A table is the list of its rows (`np.ndarray` of shape `(N,N)`, `dtype=int64`).
Elements of a group are represented the way the code represents them (tuples of ints =
`List Nat`, residues = `Nat`), a table built "by dictionary look-up of the product" is
`tableOf elems op`.
-/
import NumqiModel.Scalar

namespace Numqi.FinGroup

abbrev Table := List (List Nat)

/-- `T[i][j]` (totalised; every theorem using it states the shape guard `i,j < N`). -/
def entry (T : Table) (i j : Nat) : Nat := (T.getD i []).getD j 0

/-- The pattern shared by the symmetric / alternating / dihedral / multiplicative constructors:
`elems` is the list of group elements in the code's order, `x_to_index = {y:x for x,y in enumerate(elems)}`
and `ret[i][j] = x_to_index[op(elems[i], elems[j])]`.  `idxOf` is the first position (the Python
dictionary keeps the last one; they agree because the element lists are duplicate-free — a theorem). -/
def tableOf {α : Type} [BEq α] (elems : List α) (op : α → α → α) : Table :=
  elems.map fun a => elems.map fun b => elems.idxOf (op a b)

/-! ### symmetric and alternating group (`_symmetric.py:51-81`) -/

/-- `itertools.permutations(l)` for a list of `k = len(l)` distinct items: first element in the order
of `l`, then the permutations of the rest (this is the order itertools produces). -/
def permsAux : Nat → List Nat → List (List Nat)
  | 0, _ => [[]]
  | k + 1, l => l.flatMap fun x => (permsAux k (l.erase x)).map (x :: ·)

/-- `list(itertools.permutations(list(range(n))))` -/
def perms (n : Nat) : List (List Nat) := permsAux n (List.range n)

/-- `tmp2[:, tmp2][i,j,k] = tmp2[i, tmp2[j,k]]`: the tuple of `p∘q`, `k ↦ p[q[k]]`
(`_symmetric.py:62-63`, also `_internal.py:71`). -/
def compose (p q : List Nat) : List Nat := q.map fun k => p.getD k 0

/-- `_get_symmetric_group_cayley_table_hf0(n, alternating=False)`: `ret[i][j] = index of perm_i ∘ perm_j`. -/
def symTable (n : Nat) : Table := tableOf (perms n) compose

/-- one cycle of `permutation_to_cycle_notation` (`_symmetric.py:36-46`): start at `x0`, follow
`x ↦ p[x]` until `x0` comes back.  `fuel` bounds the walk by `len(p)`. -/
def cycleFrom (p : List Nat) (x0 : Nat) : Nat → Nat → List Nat
  | 0, _ => []
  | fuel + 1, cur =>
    let nxt := p.getD cur 0
    if nxt == x0 then [cur] else cur :: cycleFrom p x0 fuel nxt

/-- `permutation_to_cycle_notation` with the starting points taken in increasing order
(the code pops them from a `set`; the cycle *lengths*, the only thing used, do not depend on that order). -/
def cyclesAux (p : List Nat) : List Nat → List Nat → List (List Nat)
  | [], _ => []
  | x :: todo, seen =>
    if seen.contains x then cyclesAux p todo seen
    else
      let c := cycleFrom p x p.length x
      c :: cyclesAux p todo (c ++ seen)

def cycles (p : List Nat) : List (List Nat) := cyclesAux p (List.range p.length) []

/-- the filter of `_symmetric.py:57`: `sum((len(x)-1) for x in y) % 2 == 0` -/
def cycleEven (p : List Nat) : Bool := ((cycles p).map fun c => c.length - 1).sum % 2 == 0

/-- `perm_list` of the alternating branch: the even permutations in `itertools` order. -/
def altPerms (n : Nat) : List (List Nat) := (perms n).filter cycleEven

def altTable (n : Nat) : Table := tableOf (altPerms n) compose

/-! ### dihedral group (`_internal.py:56-72`) -/

/-- row `i` of `scipy.linalg.circulant(arange(n)).T`: `k ↦ (k - i) mod n` (rotation). -/
def dihRot (n i : Nat) : List Nat := (List.range n).map fun k => (k + (n - i)) % n

/-- row `i` of `tmp0 @ eye(n)[::-1]`: `k ↦ tmp0[i, n-1-k] = (n-1-k-i) mod n` (reflection). -/
def dihRefl (n i : Nat) : List Nat := (List.range n).map fun k => ((n - 1 - k) + (n - i)) % n

/-- `tmp2 = concatenate([tmp0, tmp1])`: the `2n` elements as permutations of the `n` vertices. -/
def dihRows (n : Nat) : List (List Nat) :=
  (List.range n).map (dihRot n) ++ (List.range n).map (dihRefl n)

/-- `get_dihedral_group_cayley_table(n)`: `ret[a][b] = tmp3[tmp2[a, tmp2[b,:]]]`. -/
def dihTable (n : Nat) : Table := tableOf (dihRows n) compose

/-! ### cyclic, multiplicative, Klein, quaternion -/

/-- `get_cyclic_group_cayley_table` (`_internal.py:88-89`): `(i + j) % n`. -/
def cycTable (n : Nat) : Table :=
  (List.range n).map fun i => (List.range n).map fun j => (i + j) % n

/-- `element = [x for x in range(1,n) if gcd(n,x)==1]` (`_internal.py:306`). -/
def units (n : Nat) : List Nat := (List.range' 1 (n - 1)).filter fun x => Nat.gcd n x == 1

/-- `get_multiplicative_group_cayley_table` (`_internal.py:306-308`). -/
def mulTable (n : Nat) : Table := tableOf (units n) fun x y => (x * y) % n

/-- `get_klein_four_group_cayley_table` (`_internal.py:32-37`), literal. -/
def kleinTable : Table := [[0,1,2,3],[1,0,3,2],[2,3,0,1],[3,2,1,0]]

/-- quaternion units in the code's index order `'1 i j k -1 -i -j -k'`; `hf0` (negation) is `+4 mod 8`. -/
def quatNeg (x : Nat) : Nat := (x + 4) % 8

/-- the string table `['1 i j k', 'i -1 k -j', 'j -k -1 i', 'k j -i -1']` (`_internal.py:318`) in index form -/
def quatBase : Table := [[0,1,2,3],[1,4,3,6],[2,7,4,1],[3,2,5,4]]

/-- `get_quaternion_cayley_table` (`_internal.py:318-324`):
`tmp1 = tmp0 + [[hf0(y) for y in x] for x in tmp0]`, `tmp2 = [x + [hf0(y) for y in x] for x in tmp1]`. -/
def quatTable : Table :=
  let t1 := quatBase ++ quatBase.map (·.map quatNeg)
  t1.map fun row => row ++ row.map quatNeg

/-! ### left regular form (`_internal.py:9-23`) -/

/-- `ret[g, index_tuple[g][c], c] = 1`, all other entries `0`: entry `(r,c)` of `L(g)`. -/
def leftRegEntry (T : Table) (g r c : Nat) : Nat := if r = entry T g c then 1 else 0

/-! ### Boolean group-table checker (finite tables: `decide`; also run by the driver) -/

def allLt (N : Nat) (p : Nat → Bool) : Bool := (List.range N).all p

/-- rows and columns have the stated length and all entries are `< N` -/
def shapeB (T : Table) (N : Nat) : Bool :=
  T.length == N && T.all fun row => row.length == N && row.all (· < N)

def assocB (T : Table) (N : Nat) : Bool :=
  allLt N fun i => allLt N fun j => allLt N fun k => entry T (entry T i j) k == entry T i (entry T j k)

def isIdentityB (T : Table) (N e : Nat) : Bool :=
  allLt N fun i => entry T e i == i && entry T i e == i

def hasInverseB (T : Table) (N e i : Nat) : Bool :=
  (List.range N).any fun j => entry T i j == e && entry T j i == e

/-- closure, associativity, an identity, inverses — by exhaustive evaluation -/
def isGroupTableB (T : Table) (N : Nat) : Bool :=
  shapeB T N && assocB T N &&
    (List.range N).any fun e => isIdentityB T N e && allLt N fun i => hasInverseB T N e i

/-! ### list-level entry points used by the driver -/

def rowStr (r : List Nat) : String := ",".intercalate (r.map toString)
def tableStr (T : Table) : String := ";".intercalate (T.map rowStr)

/-- for every `g` and column `c` the list of rows `r` with `L(g)[r,c] = 1` (must be exactly one) -/
def leftRegOnes (T : Table) : List (List (List Nat)) :=
  let N := T.length
  (List.range N).map fun g => (List.range N).map fun c =>
    (List.range N).filter fun r => leftRegEntry T g r c == 1

/-! ### helpers of `group/_internal.py` around the tables (round 6) -/

/-- `hf_Euler_totient(n)` (`_internal.py:273`): `sum(math.gcd(n,x)==1 for x in range(1, n+1))` -/
def eulerTotient (n : Nat) : Nat := ((List.range' 1 n).filter fun x => Nat.gcd n x == 1).length

/-- `_dummy_partition(length, hf0)` (`_internal.py:93-106`): one loop iteration per unit of `fuel`; state `(ind_start, ind_end)` -/
def dummyAux (len : Nat) (p : Nat → Nat → Bool) : Nat → Nat → Nat → List (Nat × Nat)
  | 0, _, _ => []
  | fuel + 1, s, e =>
    if s < len then
      if e = len then [(s, e)]
      else if p s e then dummyAux len p fuel s (e + 1)
      else (s, e) :: dummyAux len p fuel e (e + 1)
    else []

/-- the slices `(start, stop)` returned by `_dummy_partition` (every iteration increases `ind_end`, so `length + 1` iterations suffice) -/
def dummyPartition (len : Nat) (p : Nat → Nat → Bool) : List (Nat × Nat) := dummyAux len p (len + 1) 0 1

/-- `np.nonzero(row)[0]` of a Boolean row -/
def support (row : List Bool) : List Nat := (List.range row.length).filter fun i => row.getD i false

/-- the de-duplication of equivalent blocks inside one dimension group of `reduce_group_representation` (`_internal.py:178-182`):
`tmp3 = set(tuple(sorted(nonzero(x))) for x in overlap)`, `[tmp0[x[0]] for x in tmp3]` — the distinct supports of the rows of the Boolean
overlap matrix, each represented by its first index (the `set` fixes no order: first-occurrence order here, compared as a set) -/
def dedupGroup (E : List (List Bool)) : List Nat := ((E.map support).eraseDups).map fun sup => sup.headD 0

/-- the selection over all dimension groups (`_internal.py:171-182`): `dims` are the block dimensions in the order the blocks were found,
`E d` the overlap matrix of the blocks of dimension `d` (in that order).  `sorted(..., key=dim)` is stable and `groupby` then walks
ascending dimensions; a group of one block is kept as it is.  Result: `(dimension, index inside its group)` of every returned block. -/
def dedupAll (dims : List Nat) (E : Nat → List (List Bool)) : List (Nat × Nat) :=
  let ds := (dims.mergeSort (· ≤ ·)).eraseDups
  ds.flatMap fun d =>
    let cnt := dims.count d
    if cnt = 1 then [(d, 0)] else (dedupGroup (E d)).map fun i => (d, i)

end Numqi.FinGroup
