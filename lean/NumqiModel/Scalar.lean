/-
Executable scalar carriers for the models.  No Mathlib import.

* `GInt`  — Gaussian integers ℤ[i]  (exact tie for multilinear code paths)
* `QI`    — Gaussian rationals ℚ[i] over core `Rat`
* `Conj`  — op-only class for complex conjugation (instantiated by `star` in proofs)

Model definitions are written against the operation classes
`[Add α] [Mul α] [Neg α] [Sub α] [Zero α] [One α]` (+ `[Conj α]`), so the very same
constants are instantiated at ℂ / any commutative ring in `NumqiProps` and executed here.
-/

namespace Numqi

class Conj (α : Type) where
  conj : α → α

export Conj (conj)

/-- Gaussian integer `re + im·i`. -/
structure GInt where
  re : Int
  im : Int
deriving DecidableEq, Repr, Inhabited

namespace GInt
instance : Zero GInt := ⟨⟨0, 0⟩⟩
instance : One GInt := ⟨⟨1, 0⟩⟩
instance : Add GInt := ⟨fun a b => ⟨a.re + b.re, a.im + b.im⟩⟩
instance : Sub GInt := ⟨fun a b => ⟨a.re - b.re, a.im - b.im⟩⟩
instance : Neg GInt := ⟨fun a => ⟨-a.re, -a.im⟩⟩
instance : Mul GInt := ⟨fun a b => ⟨a.re * b.re - a.im * b.im, a.re * b.im + a.im * b.re⟩⟩
instance : Conj GInt := ⟨fun a => ⟨a.re, -a.im⟩⟩
def I : GInt := ⟨0, 1⟩
def ofInt (n : Int) : GInt := ⟨n, 0⟩
def normSq (a : GInt) : Int := a.re * a.re + a.im * a.im
/-- `i^k`. -/
def iPow (k : Nat) : GInt :=
  match k % 4 with
  | 0 => ⟨1, 0⟩ | 1 => ⟨0, 1⟩ | 2 => ⟨-1, 0⟩ | _ => ⟨0, -1⟩
def toStr (a : GInt) : String := s!"{a.re},{a.im}"
end GInt

/-- Gaussian rational. -/
structure QI where
  re : Rat
  im : Rat
deriving DecidableEq, Inhabited

namespace QI
instance : Zero QI := ⟨⟨0, 0⟩⟩
instance : One QI := ⟨⟨1, 0⟩⟩
instance : Add QI := ⟨fun a b => ⟨a.re + b.re, a.im + b.im⟩⟩
instance : Sub QI := ⟨fun a b => ⟨a.re - b.re, a.im - b.im⟩⟩
instance : Neg QI := ⟨fun a => ⟨-a.re, -a.im⟩⟩
instance : Mul QI := ⟨fun a b => ⟨a.re * b.re - a.im * b.im, a.re * b.im + a.im * b.re⟩⟩
instance : Conj QI := ⟨fun a => ⟨a.re, -a.im⟩⟩
def ofGInt (a : GInt) : QI := ⟨a.re, a.im⟩
def normSq (a : QI) : Rat := a.re * a.re + a.im * a.im
def ratStr (r : Rat) : String := s!"{r.num}/{r.den}"
def toStr (a : QI) : String := s!"{ratStr a.re},{ratStr a.im}"
end QI

instance : Conj Int := ⟨id⟩
instance : Conj Rat := ⟨id⟩

/-- Exact value of a finite binary64 given by its bit pattern. -/
def ratOfFloatBits (bits : Nat) : Rat :=
  let neg : Bool := bits / 2^63 % 2 = 1
  let e : Nat := bits / 2^52 % 2048
  let m : Nat := bits % 2^52
  let mag : Rat :=
    if e = 0 then (Int.ofNat m : Rat) / (Int.ofNat (2^1074) : Rat)
    else if e ≥ 1075 then (Int.ofNat ((2^52 + m) * 2^(e - 1075)) : Rat)
    else (Int.ofNat (2^52 + m) : Rat) / (Int.ofNat (2^(1075 - e)) : Rat)
  if neg then -mag else mag

/-! ### tiny line-protocol helpers -/

def parseInt? (s : String) : Option Int := s.toInt?
def parseNat? (s : String) : Option Nat := s.toNat?

/-- `"a,b"` ↦ Gaussian integer. -/
def parseGInt? (s : String) : Option GInt :=
  match s.splitOn "," with
  | [a, b] => do let x ← a.toInt?; let y ← b.toInt?; pure ⟨x, y⟩
  | [a] => do let x ← a.toInt?; pure ⟨x, 0⟩
  | _ => none

/-- `"0110"` ↦ bits. -/
def parseBits? (s : String) : Option (List Bool) :=
  s.toList.mapM fun c => if c = '0' then some false else if c = '1' then some true else none

def bitsStr (l : List Bool) : String := String.ofList (l.map fun b => if b then '1' else '0')

/-- `"1;2;3"` ↦ list of naturals (empty string ↦ []). -/
def parseNatList? (s : String) : Option (List Nat) :=
  if s = "" || s = "-" then some [] else (s.splitOn ";").mapM String.toNat?

def parseIntList? (s : String) : Option (List Int) :=
  if s = "" || s = "-" then some [] else (s.splitOn ";").mapM String.toInt?

def parseGIntList? (s : String) : Option (List GInt) :=
  if s = "" || s = "-" then some [] else (s.splitOn ";").mapM parseGInt?

def natListStr (l : List Nat) : String := ";".intercalate (l.map toString)
def intListStr (l : List Int) : String := ";".intercalate (l.map toString)
def gintListStr (l : List GInt) : String := ";".intercalate (l.map GInt.toStr)

end Numqi
