/-
Model of `numqi.utils.partial_trace` (`python/numqi/utils.py:101-126`).  No Mathlib import.

The code reshapes `rho` to `(*dim, *dim)`, labels the row axes `0..N0-1`, labels column axis `x`
with `x` again when `x` is traced and with `N0+x` when it is kept, and asks `np.einsum` for the output
labels `keep ++ (keep + N0)` with `keep = sorted(set(keep_index))`; the result is reshaped to
`(N1, N1)`, `N1 = ∏ dim[keep]`.

Hence the output axes are the kept axes in ascending order (row-major over the kept dimensions) and
every traced axis is summed with the *same* index in the row and the column.  The model is the index
function of this relabelling on flat row-major indices:

  `ptIndex dims keep a t`  =  flat index (w.r.t. `dims`) of the multi-index whose kept digits are the
                              digits of `a` (w.r.t. the kept dims) and whose traced digits are the
                              digits of `t` (w.r.t. the traced dims)

  `partialTrace dims keep ρ a b = Σ_{t < ∏ traced dims} ρ (ptIndex a t) (ptIndex b t)`.

`keep` is a Boolean mask of the same length as `dims` (`maskOf` builds it from the index collection the
way `sorted(set(keep_index))` does: order and multiplicity of `keep_index` are irrelevant).

Also hosts `sumRange` (finite sums used by every model of this builder).
-/
import NumqiModel.Scalar

namespace Numqi

/-- `Σ_{i<n} f i` -/
def sumRange {α : Type} [Zero α] [Add α] : Nat → (Nat → α) → α
  | 0, _ => 0
  | n + 1, f => sumRange n f + f n

namespace PT

/-- `∏ dims` -/
def prodDims : List Nat → Nat
  | [] => 1
  | d :: ds => d * prodDims ds

/-- product of the dimensions whose mask bit equals `b` (`b = true`: kept, `b = false`: traced) -/
def prodSel (b : Bool) : List Nat → List Bool → Nat
  | d :: ds, k :: ks => (if k = b then d else 1) * prodSel b ds ks
  | _, _ => 1

/-- sub-list of the entries whose mask bit equals `b` -/
def sel {β : Type} (b : Bool) : List β → List Bool → List β
  | x :: xs, k :: ks => if k = b then x :: sel b xs ks else sel b xs ks
  | _, _ => []

/-- flat row-major index (w.r.t. `dims`) assembled from the flat kept index `a` and the flat traced index `t` -/
def ptIndex : List Nat → List Bool → Nat → Nat → Nat
  | d :: ds, k :: ks, a, t =>
    if k = true then (a / prodSel true ds ks) * prodDims ds + ptIndex ds ks (a % prodSel true ds ks) t
    else (t / prodSel false ds ks) * prodDims ds + ptIndex ds ks a (t % prodSel false ds ks)
  | _, _, _, _ => 0

/-- the part of the flat index `x` (w.r.t. `dims`) that lives on the axes with mask bit `b`,
as a flat row-major index w.r.t. those axes -/
def part (b : Bool) : List Nat → List Bool → Nat → Nat
  | _ :: ds, k :: ks, x =>
    if k = b then (x / prodDims ds) * prodSel b ds ks + part b ds ks (x % prodDims ds)
    else part b ds ks (x % prodDims ds)
  | _, _, _ => 0

/-- row-major digits of `x` w.r.t. `dims` (`np.unravel_index`) -/
def unravel : List Nat → Nat → List Nat
  | [], _ => []
  | _ :: ds, x => (x / prodDims ds) :: unravel ds (x % prodDims ds)

variable {α : Type} [Zero α] [Add α]

/-- `partial_trace(rho, dims, keep)` on flat indices -/
def partialTrace (dims : List Nat) (keep : List Bool) (ρ : Nat → Nat → α) (a b : Nat) : α :=
  sumRange (prodSel false dims keep) fun t => ρ (ptIndex dims keep a t) (ptIndex dims keep b t)

/-- the same map on a sparse operator (list of `(row, column, value)`), used by the driver for big
dimension lists: an entry contributes iff its traced parts agree
(equal to `partialTrace` by `C17.partialTrace_eq_contraction`). -/
def partialTraceSparse (dims : List Nat) (keep : List Bool) (ρ : List (Nat × Nat × α)) (a b : Nat) : α :=
  ρ.foldl (fun acc e =>
    if part true dims keep e.1 = a ∧ part true dims keep e.2.1 = b
        ∧ part false dims keep e.1 = part false dims keep e.2.1 then acc + e.2.2 else acc) 0

/-- dense operator denoted by a sparse entry list (repeated positions add up) -/
def denseOf (es : List (Nat × Nat × α)) (x y : Nat) : α :=
  es.foldl (fun acc e => if e.1 = x ∧ e.2.1 = y then acc + e.2.2 else acc) 0

/-- the operator that acts as `G` on the kept axes and as the identity on the traced ones
(`numqi.maximum_entropy.get_ABk_gellmann_preimage_op(kind='symmetric')`, `_internal.py:149-160`, builds these by
`reshape(…,1,…)·eye(…)` broadcasting) -/
def embedKeep (dims : List Nat) (keep : List Bool) (G : Nat → Nat → α) (x y : Nat) : α :=
  if part false dims keep x = part false dims keep y then G (part true dims keep x) (part true dims keep y) else 0

/-- `sdp_2local_rdm_solve` (`maximum_entropy/_internal.py:109-116`): the reduced state of qubits `(ind0, ind0+1)` of a chain, as the
code builds it: `partial_trace(X, [L, 4R], axis=0)` (skipped if `L = 1`), then `partial_trace(·, [4, R], axis=1)` (skipped if `R = 1`);
`L = 2^ind0`, `R = 2^(n-2-ind0)`; `cvxpy.partial_trace(·, dims, axis)` is modelled as tracing out that axis. -/
def rdmTwoStep (L R : Nat) (X : Nat → Nat → α) : Nat → Nat → α :=
  let X1 := if L = 1 then X else partialTrace [L, 4 * R] [false, true] X
  if R = 1 then X1 else partialTrace [4, R] [true, false] X1

/-- `sorted(set(keep_index))` as a mask over `range n` -/
def maskOf (n : Nat) (keepIdx : List Nat) : List Bool := (List.range n).map fun i => keepIdx.contains i

/-- mask (over `dims`) of the axes kept after tracing first to `keep1` and then, among the kept axes,
to `keep2` -/
def composeMask : List Bool → List Bool → List Bool
  | true :: ks, k2 :: k2s => k2 :: composeMask ks k2s
  | false :: ks, k2s => false :: composeMask ks k2s
  | _, _ => []

/-- entry point mirroring the Python signature: `none` = the `assert all(0<=x<N0 …)` fails -/
def partialTraceCode (dims : List Nat) (keepIdx : List Nat) (ρ : Nat → Nat → α) : Option (Nat × (Nat → Nat → α)) :=
  if keepIdx.all (· < dims.length) then
    let m := maskOf dims.length keepIdx
    some (prodSel true dims m, partialTrace dims m ρ)
  else none

end PT
end Numqi
