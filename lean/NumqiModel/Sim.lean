/-
Model of the state-vector / density-matrix simulator of numqi
(`python/numqi/sim/state.py`, `sim/dm.py`, `sim/circuit.py`).  No Mathlib import: everything here is
executable and is what `Driver/C03.lean` (and `Driver/C11.lean`) run; the theorems in
`NumqiProps/C03.lean`, `NumqiProps/C11.lean` are about exactly these constants.

Conventions (they are the implementation's):
* a state of `n` qubits is a function on bit vectors `Bits n = Fin n → Bool`; numpy's flat vector of length
  `2^n` is the row-major flattening with **qubit 0 most significant** (`Bits.toNat` / `Bits.ofNat`,
  `tabulate` / `lookup` are `reshape([2]*n)` / `reshape(-1)`);
* a `k`-qubit operator is `Mat k α = Bits k → Bits k → α`; numpy's `2^k × 2^k` matrix is the row-major
  flattening of both indices, and the `j`-th bit (most significant first) of an operator index belongs to
  the `j`-th entry of the target tuple `index` (targets in the **order given**, not sorted);
* everything is written against operation-only classes (`Add Mul Zero One`, `Conj`), so the same
  definitions are instantiated at any commutative (star-)ring in the proofs, and at `GInt = ℤ[i]`,
  `QI = ℚ[i]` in the driver.  (`applyGate`, `applyControlled` are reused by the backward-pass property C04.)
-/
import NumqiModel.Pauli

namespace Numqi

/-- state of `n` qubits (numpy: flat array of length `2^n`, see `tabulate`) -/
abbrev Vec (n : Nat) (α : Type) := Bits n → α
/-- operator on `k` qubits (numpy: `2^k × 2^k` array, see `tabulateMat`) -/
abbrev Mat (k : Nat) (α : Type) := Bits k → Bits k → α

namespace Bits
variable {n k : Nat}

/-- flat row-major index of a multi-index of `reshape([2]*n)`: qubit 0 is the most significant bit -/
def toNat : {n : Nat} → Bits n → Nat
  | 0, _ => 0
  | n + 1, x => (x 0).toNat * 2 ^ n + toNat (fun i : Fin n => x i.succ)

/-- multi-index of the flat index `v` (inverse of `toNat` on `v < 2^n`) -/
def ofNat (n v : Nat) : Bits n := fun i => v.testBit (n - 1 - i.val)

/-- the bits of `x` at the positions `t` (in the order of `t`) -/
def sel (x : Bits n) (t : Fin k → Fin n) : Bits k := fun j => x (t j)

/-- `x` with the bit at position `t j` replaced by `y j` (first match wins; `t` is duplicate-free in all uses) -/
def upd (x : Bits n) (t : Fin k → Fin n) (y : Bits k) : Bits n :=
  fun i => ((List.finRange k).find? fun j => t j == i).elim (x i) y

/-- `x` and `x'` agree at every position that is not in `t` -/
def agreeOff (x x' : Bits n) (t : Fin k → Fin n) : Bool :=
  (List.finRange n).all fun i => ((List.finRange k).any fun j => t j == i) || x i == x' i

def ones (n : Nat) : Bits n := fun _ => true
end Bits

section generic
variable {α : Type} {n k m n' : Nat}

/-- `Σ_{y : Bits k} f y` in the order of the flat index -/
def sumBits [Add α] [Zero α] (k : Nat) (f : Bits k → α) : α :=
  ((List.finRange (2 ^ k)).map fun i => f (Bits.ofNat k i.val)).sum

/-- `|z|²` as `conj z * z` -/
def normSq [Mul α] [Conj α] (z : α) : α := conj z * z

/-! ### flat arrays (`reshape`) -/

/-- `ψ.reshape(-1)` -/
def tabulate (ψ : Vec n α) : Array α := Array.ofFn (n := 2 ^ n) fun i => ψ (Bits.ofNat n i.val)
/-- `a.reshape([2]*n)` -/
def lookup [Zero α] (a : Array α) : Vec n α := fun x => a.getD x.toNat 0
/-- `U.reshape(-1)` of a `2^k × 2^k` matrix -/
def tabulateMat (U : Mat k α) : Array α :=
  Array.ofFn (n := 2 ^ k * 2 ^ k) fun i => U (Bits.ofNat k (i.val / 2 ^ k)) (Bits.ofNat k (i.val % 2 ^ k))
/-- `a.reshape([2]*(2k))`, first `k` axes = row index -/
def lookupMat [Zero α] (a : Array α) : Mat k α := fun r c => a.getD (r.toNat * 2 ^ k + c.toNat) 0

def basis [Zero α] [One α] (b : Bits n) : Vec n α := fun x => if Bits.beq x b then 1 else 0

/-! ### `numqi.sim.state.apply_gate` (`state.py:67-93`) -/

/-- The einsum of `state.py:86-92`: `q0` carries labels `0..n-1`; the operator, reshaped to `[2]*(2k)`, carries
fresh labels `n..n+k-1` on its row legs and the target labels `index[0..k-1]` on its column legs; the output
carries the fresh label at each target position.  Hence
`ret[x] = Σ_y op[(x_{t_0},…,x_{t_{k-1}}), (y_0,…,y_{k-1})] · q0[x with x_{t_j} := y_j]`. -/
def applyGate [Add α] [Mul α] [Zero α] (U : Mat k α) (t : Fin k → Fin n) (ψ : Vec n α) : Vec n α :=
  fun x => sumBits k fun y => U (x.sel t) y * ψ (x.upd t y)

/-- The explicitly embedded `2^n × 2^n` operator: `U` on the qubits `t` (in that order), identity elsewhere. -/
def embed [Zero α] (U : Mat k α) (t : Fin k → Fin n) : Mat n α :=
  fun x x' => if Bits.agreeOff x x' t then U (x.sel t) (x'.sel t) else 0

/-! ### `numqi.sim.state.apply_control_n_gate` (`state.py:128-165`) -/

/-- all control bits of `x` are 1 -/
def ctrlOn (isCtrl : Fin n → Bool) (x : Bits n) : Bool := (List.finRange n).all fun i => !isCtrl i || x i

/-- `apply_control_n_gate`.  `rest` enumerates the non-control qubits (`tmp0` of `_control_n_index`), `tNew` are
the targets renumbered inside the `n'`-qubit sub-register (`ind_target_new`).  `q0.reshape(shape0)[index_tuple0]`
is the sub-vector `z ↦ ψ(controls = 1, rest := z)`; `apply_gate` acts on it; the result is written back to the
same slice of a copy of `q0` (entries whose controls are not all 1 are untouched). -/
def applyControlled [Add α] [Mul α] [Zero α] (U : Mat k α) (isCtrl : Fin n → Bool)
    (rest : Fin n' → Fin n) (tNew : Fin k → Fin n') (ψ : Vec n α) : Vec n α :=
  fun x =>
    if ctrlOn isCtrl x then
      applyGate U tNew (fun z : Bits n' => ψ ((Bits.ones n).upd rest z)) (x.sel rest)
    else ψ x

/-- the controlled operator as a matrix: `embed U t` on rows whose controls are all 1, identity on the others -/
def ctrlEmbed [Zero α] [One α] (U : Mat k α) (isCtrl : Fin n → Bool) (t : Fin k → Fin n) : Mat n α :=
  fun x x' => if ctrlOn isCtrl x then embed U t x x' else if Bits.beq x x' then 1 else 0

/-! ### `numqi.sim.dm` (`dm.py:23-62`, `82-105`) -/

def conjMat [Conj α] (U : Mat k α) : Mat k α := fun a b => conj (U a b)

/-- `dm.apply_gate`: first pass contracts `op` with the row index of `dm` (`dm.py:45-51`), second pass contracts
`conj(op)` with the column index (`dm.py:53-60`). -/
def dmApply [Add α] [Mul α] [Zero α] [Conj α] (U : Mat k α) (t : Fin k → Fin n) (ρ : Mat n α) : Mat n α :=
  fun r c => applyGate (conjMat U) t (fun x' => applyGate U t (fun x => ρ x x') r) c

/-- `dm.operator_expectation` (`dm.py:95-104`): row bit `t_j` of `dm0` is contracted with column leg `j` of `op`,
column bit `t_j` of `dm0` with row leg `j` of `op`, every other row bit with the same column bit. -/
def expectation [Add α] [Mul α] [Zero α] (O : Mat k α) (t : Fin k → Fin n) (ρ : Mat n α) : α :=
  sumBits n fun c => sumBits k fun a => ρ (c.upd t a) c * O (c.sel t) a

/-- `np.vdot` -/
def vdot [Add α] [Mul α] [Zero α] [Conj α] (φ ψ : Vec n α) : α := sumBits n fun x => conj (φ x) * ψ x

/-- `reduce_to_probability` (`state.py:244-250`): `|q0|²` summed over the qubits not in `keep` (ascending). -/
def reduceToProbability [Add α] [Mul α] [Zero α] [Conj α] (keep : Fin m → Fin n) (ψ : Vec n α) : Vec m α :=
  fun o => sumBits n fun x => if Bits.beq (x.sel keep) o then normSq (ψ x) else 0

/-- projection on the outcome `o` of the qubits `s` (the slice assignment of `measure_quantum_vector`,
`state.py:312-318`, without the division by `√prob`) -/
def project [Zero α] (s : Fin m → Fin n) (o : Bits m) (ψ : Vec n α) : Vec n α :=
  fun x => if Bits.beq (x.sel s) o then ψ x else 0

/-! ### `numqi.sim.Circuit` (`circuit.py:444-510`) -/

/-- one entry of `gate_index_list`, with the index data already resolved against the number of qubits -/
inductive Op (n : Nat) (α : Type) where
  | unitary {k : Nat} (U : Mat k α) (t : Fin k → Fin n)
  | control {k n' : Nat} (U : Mat k α) (isCtrl : Fin n → Bool) (rest : Fin n' → Fin n) (tNew : Fin k → Fin n')
  | measure {m : Nat} (s : Fin m → Fin n) (o : Bits m)

/-- one step of the dispatch loop of `Circuit.apply_state` (`circuit.py:499-509`) -/
def Op.apply [Add α] [Mul α] [Zero α] : Op n α → Vec n α → Vec n α
  | .unitary U t, ψ => applyGate U t ψ
  | .control U c r tn, ψ => applyControlled U c r tn ψ
  | .measure s o, ψ => project s o ψ

/-- projector on the outcome `o` of the qubits `s`, as a (diagonal) matrix -/
def projEmbed [Zero α] [One α] (s : Fin m → Fin n) (o : Bits m) : Mat n α :=
  fun x x' => if Bits.beq x x' && Bits.beq (x.sel s) o then 1 else 0

/-- the `2^n × 2^n` operator an entry of the gate list stands for -/
def Op.matrix [Zero α] [One α] : Op n α → Mat n α
  | .unitary U t => embed U t
  | .control U c r tn => ctrlEmbed U c fun j => r (tn j)
  | .measure s o => projEmbed s o

/-- one step on flat arrays -/
def Op.applyA [Add α] [Mul α] [Zero α] (g : Op n α) (a : Array α) : Array α :=
  tabulate (n := n) (g.apply (lookup a))

/-- `Circuit.apply_state`: left fold over the gate list, on flat arrays -/
def applyStateA [Add α] [Mul α] [Zero α] (c : List (Op n α)) (a : Array α) : Array α :=
  c.foldl (fun a g => g.applyA a) a

def applyState [Add α] [Mul α] [Zero α] (c : List (Op n α)) (ψ : Vec n α) : Vec n α :=
  lookup (applyStateA c (tabulate ψ))

/-- rows of `ret` after the loop of `to_unitary` (`circuit.py:448-450`): row `r` is the image of the basis vector `r` -/
def unitaryRows [Add α] [Mul α] [Zero α] [One α] (c : List (Op n α)) : Array (Array α) :=
  Array.ofFn (n := 2 ^ n) fun r => applyStateA c (tabulate (basis (Bits.ofNat n r.val)))

/-- `Circuit.to_unitary` (`circuit.py:444-452`), flat: `ret.T` -/
def toUnitaryA [Add α] [Mul α] [Zero α] [One α] (c : List (Op n α)) : Array α :=
  let rows := unitaryRows c
  Array.ofFn (n := 2 ^ n * 2 ^ n) fun i => (rows.getD (i.val % 2 ^ n) #[]).getD (i.val / 2 ^ n) 0

def toUnitary [Add α] [Mul α] [Zero α] [One α] (c : List (Op n α)) : Mat n α := lookupMat (toUnitaryA c)

/-- `inner_product_psi0_O_psi1` for one term (`state.py:225-229`): the factors are applied to `psi1` from the
last to the first, then `np.vdot(psi0, ·)`. -/
def innerProductOp [Add α] [Mul α] [Zero α] [Conj α] (ψ0 ψ1 : Vec n α) (term : List (Op n α)) : α :=
  vdot ψ0 (lookup (n := n) (term.foldr (fun g a => g.applyA a) (tabulate ψ1)))

end generic

/-! ### the gate list as the user writes it: integer indices, no number of qubits yet -/

/-- an entry of `gate_index_list` before it meets a state: arrays are flat row-major, indices are Python ints -/
inductive RawOp (α : Type) where
  | unitary (U : Array α) (t : List Int)
  | control (U : Array α) (c : List Int) (t : List Int)
  | measure (s : List Int) (o : List Bool)
  /-- `kind='custom'` gate of `register_custom_gate`: acts on the whole register, `index = ()` -/
  | custom (U : Array α)

namespace RawOp
variable {α : Type}

def maxIndex : RawOp α → Int
  | .unitary _ t => t.foldl max 0
  | .control _ c t => (c ++ t).foldl max 0
  | .measure s _ => s.foldl max 0
  | .custom _ => 0

/-- `Circuit.shift_qubit_index_` on one entry (`circuit.py:474-486`) -/
def shift (δ : Int) : RawOp α → RawOp α
  | .unitary U t => .unitary U (t.map (· + δ))
  | .control U c t => .control U (c.map (· + δ)) (t.map (· + δ))
  | .measure s o => .measure (s.map (· + δ)) o
  | .custom U => .custom U

def isMeasure : RawOp α → Bool
  | .measure _ _ => true
  | _ => false
end RawOp

/-- `Circuit.num_qubit` (`circuit.py:454-466`) -/
def numQubit {α : Type} (c : List (RawOp α)) : Nat := ((c.map RawOp.maxIndex).foldl max 0 + 1).toNat

def distinct : List Int → Bool
  | [] => true
  | a :: l => !l.contains a && distinct l

def strictAsc : List Int → Bool
  | a :: b :: l => a < b && strictAsc (b :: l)
  | _ => true

/-- the index assertions of `apply_gate` (`state.py:83-84`) -/
def validIndex (n : Nat) (t : List Int) : Bool := t.all (fun x => 0 ≤ x && x < n) && distinct t

/-- `tmp0` of `_control_n_index` (`state.py:129`): the non-control qubits, ascending -/
def freeQubits (n : Nat) (c : List Int) : List Nat := (List.range n).filter fun x => !c.contains (x : Int)

/-! ### `reduce_shape_index` (`state.py:10-49`) and the slice it is used for (`state.py:135,163-164`) -/

/-- consecutive runs of `(shape, index)` pairs with the same `index is None` (`itertools.groupby`, `state.py:12`) -/
def groupRuns : List (Nat × Option Nat) → List (List (Nat × Option Nat))
  | [] => []
  | a :: l =>
    match groupRuns l with
    | (b :: g) :: r => if a.2.isNone == b.2.isNone then (a :: b :: g) :: r else [a] :: (b :: g) :: r
    | _ => [[a]]

/-- `_reduce_shape_index_hf0`: a run of `None`s becomes one axis of the product size with a full slice; a run of
integers becomes one axis of the product size with the row-major flat index of the integers
(`np.dot(cumprod([1]+shape[::-1])[:-1], index[::-1])`). -/
def reduceShapeIndex (shape : List Nat) (index : List (Option Nat)) : List Nat × List (Option Nat) :=
  let runs := groupRuns (shape.zip index)
  (runs.map fun g => (g.map (·.1)).foldl (· * ·) 1,
   runs.map fun g => match g with
     | (_, none) :: _ => none
     | _ => some (g.foldl (fun acc p => acc * p.1 + p.2.getD 0) 0))

/-- flat positions (row-major, increasing) of `arr.reshape(shape)[index].reshape(-1)`: `some v` fixes an axis,
`none` is a full slice -/
def slicePositions : List Nat → List (Option Nat) → List Nat
  | d :: ds, i :: is =>
    let w := ds.foldl (· * ·) 1
    let sub := slicePositions ds is
    match i with
    | some v => sub.map (v * w + ·)
    | none => (List.range d).flatMap fun a => sub.map (a * w + ·)
  | _, _ => [0]

/-- `shape0, index_tuple0` of `_control_n_index` (`state.py:132-135`): `index_list[x] = 1` on the controls -/
def controlSlice (n : Nat) (c : List Nat) : List Nat × List (Option Nat) :=
  reduceShapeIndex (List.replicate n 2) ((List.range n).map fun q => if c.contains q then some 1 else none)

/-- the positions the control slice of `apply_control_n_gate` reads and writes -/
def controlPositions (n : Nat) (c : List Nat) : List Nat :=
  let (shape0, index0) := controlSlice n c
  slicePositions shape0 index0

/-- bitwise description: the flat positions (increasing) whose control bits are all 1 -/
def controlPositionsBitwise (n : Nat) (c : List Nat) : List Nat :=
  (List.range (2 ^ n)).filter fun p => c.all fun q => p.testBit (n - 1 - q)

/-- target tuple as a function; total (`Fin.ofNat` reduces mod `n+1`), the identity on valid tuples -/
def mkTarget (n : Nat) (t : List Int) : Fin t.length → Fin (n + 1) :=
  fun j => Fin.ofNat (n + 1) (t.getD j.val 0).toNat

/-- Resolve a raw entry against `n` qubits.  `none` = the implementation raises (assertion / index error).
Control entries run `_control_n_index` (`state.py:128-136`): `tmp0 = freeQubits`, `index_map = position in tmp0`,
`ind_target_new = index_map[target]`. -/
def RawOp.compile {α : Type} [Zero α] : (n : Nat) → RawOp α → Option (Op n α)
  | 0, _ => none
  | n + 1, .unitary U t =>
      if validIndex (n + 1) t && t.length ≥ 1 && U.size == 2 ^ t.length * 2 ^ t.length then
        some (.unitary (k := t.length) (lookupMat U) (mkTarget n t))
      else none
  | n + 1, .control U c t =>
      let free := freeQubits (n + 1) c
      match free.length with
      | 0 => none
      | n' + 1 =>
        if validIndex (n + 1) (c ++ t) && t.length ≥ 1 && U.size == 2 ^ t.length * 2 ^ t.length then
          some (.control (k := t.length) (n' := n' + 1) (lookupMat U)
            (fun i => c.contains (i.val : Int))
            (fun m => Fin.ofNat (n + 1) (free.getD m.val 0))
            (fun j => Fin.ofNat (n' + 1) (free.idxOf (t.getD j.val 0).toNat)))
        else none
  | n + 1, .measure s o =>
      if s.all (fun x => 0 ≤ x && x < (n + 1 : Nat)) && strictAsc s && o.length == s.length then
        some (.measure (m := s.length) (mkTarget n s) (fun j => o.getD j.val false))
      else none
  | n + 1, .custom U =>
      if U.size == 2 ^ (n + 1) * 2 ^ (n + 1) then
        some (.unitary (k := n + 1) (lookupMat U) id)
      else none

/-- resolve a whole gate list; `none` if any entry is rejected -/
def compileCircuit {α : Type} [Zero α] (n : Nat) (c : List (RawOp α)) : Option (List (Op n α)) :=
  c.mapM (RawOp.compile n)

end Numqi
