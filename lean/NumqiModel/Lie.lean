/-
Model of `numqi/group/_lie.py` (Euler angles <-> SO(3) <-> SU(2), spin-j matrices) and of
`numqi/matrix_space/_clebsch_gordan.py:7-18` (angular momentum operators).
No Mathlib import: everything here is executable and is what `Driver/C15.lean` runs.

Scalars.  Real quantities live in a type `α` that only carries the operations
(`+ - * neg 0 1`), complex quantities in `Cx α` (pairs `re + i·im`, defined below).  The theorems in
`NumqiProps/C15.lean` are about these very constants with `α` any commutative ring (hence `ℝ`);
the driver runs them with `α = Float` (angles) and `α = Rat` (exact tie of the polynomial maps).
Transcendental functions enter through the class `Trig` (instance for `Float` here, for `ℝ` in the
proofs), the constant `1/2` through an explicit argument `half`.
-/
import NumqiModel.Scalar

namespace Numqi.Lie

/-! ### complex numbers over `α` -/

/-- `re + i·im` -/
structure Cx (α : Type) where
  re : α
  im : α
deriving Repr, Inhabited, DecidableEq

namespace Cx
variable {α : Type}
instance [Zero α] : Zero (Cx α) := ⟨⟨0, 0⟩⟩
instance [Zero α] [One α] : One (Cx α) := ⟨⟨1, 0⟩⟩
instance [Add α] : Add (Cx α) := ⟨fun a b => ⟨a.re + b.re, a.im + b.im⟩⟩
instance [Sub α] : Sub (Cx α) := ⟨fun a b => ⟨a.re - b.re, a.im - b.im⟩⟩
instance [Neg α] : Neg (Cx α) := ⟨fun a => ⟨-a.re, -a.im⟩⟩
instance [Add α] [Sub α] [Mul α] : Mul (Cx α) :=
  ⟨fun a b => ⟨a.re * b.re - a.im * b.im, a.re * b.im + a.im * b.re⟩⟩
/-- complex conjugate (`.conj()`) -/
def conj [Neg α] (a : Cx α) : Cx α := ⟨a.re, -a.im⟩
/-- real scalar times complex -/
def smul [Mul α] (x : α) (a : Cx α) : Cx α := ⟨x * a.re, x * a.im⟩
/-- `x·i` for real `x` (the Python literals `0.5j`, `-0.5j`, `1j`) -/
def imag [Zero α] (x : α) : Cx α := ⟨0, x⟩
def ofReal [Zero α] (x : α) : Cx α := ⟨x, 0⟩
end Cx

abbrev Mat3 (α : Type) := Fin 3 → Fin 3 → α
abbrev Mat2 (α : Type) := Fin 2 → Fin 2 → α

/-- row-major 3×3 from nine entries -/
def mk3 {α : Type} (a00 a01 a02 a10 a11 a12 a20 a21 a22 : α) : Mat3 α :=
  fun i j => match i, j with
    | 0, 0 => a00 | 0, 1 => a01 | 0, 2 => a02
    | 1, 0 => a10 | 1, 1 => a11 | 1, 2 => a12
    | 2, 0 => a20 | 2, 1 => a21 | 2, 2 => a22

def mk2 {α : Type} (a00 a01 a10 a11 : α) : Mat2 α :=
  fun i j => match i, j with
    | 0, 0 => a00 | 0, 1 => a01
    | 1, 0 => a10 | 1, 1 => a11

def Mat3.toList {α : Type} (m : Mat3 α) : List α :=
  [m 0 0, m 0 1, m 0 2, m 1 0, m 1 1, m 1 2, m 2 0, m 2 1, m 2 2]
def Mat2.toList {α : Type} (m : Mat2 α) : List α := [m 0 0, m 0 1, m 1 0, m 1 1]

/-! ### transcendental functions -/

class Trig (α : Type) where
  cos : α → α
  sin : α → α
  /-- `np.arccos` on `[-1,1]` -/
  acos : α → α
  /-- `np.arctan2 y x` -/
  atan2 : α → α → α
  /-- `np.pi` -/
  pi : α
  /-- `x % (2*np.pi)`, result in `[0, 2π)` -/
  mod2pi : α → α

instance : Trig Float where
  cos := Float.cos
  sin := Float.sin
  acos := Float.acos
  atan2 := Float.atan2
  pi := 3.141592653589793
  mod2pi x := x - (2 * 3.141592653589793) * Float.floor (x / (2 * 3.141592653589793))

section generic
variable {α : Type} [Add α] [Sub α] [Mul α] [Neg α] [Zero α] [One α]

/-! ### Euler angles -> matrices -/

/-- `angle_to_so3` (`_lie.py:47-57`) on the cosines / sines of the three angles. -/
def angleToSO3cs (ca sa cb sb cg sg : α) : Mat3 α :=
  mk3 (ca*cb*cg - sa*sg) (-ca*cb*sg - sa*cg) (ca*sb)
      (sa*cb*cg + ca*sg) (-sa*cb*sg + ca*cg) (sa*sb)
      (-sb*cg) (sb*sg) cb

/-- elementary rotations, used to state `angleToSO3cs = Rz(α) Ry(β) Rz(γ)` -/
def rotZ (c s : α) : Mat3 α := mk3 c (-s) 0 s c 0 0 0 1
def rotY (c s : α) : Mat3 α := mk3 c 0 s 0 1 0 (-s) 0 c

/-- `angle_to_su2` (`_lie.py:21-27`) on `cb = cos(β/2)`, `sb = sin(β/2)`,
`p = exp(i(α+γ)/2)`, `m = exp(i(α-γ)/2)`. -/
def angleToSU2cs (cb sb : α) (p m : Cx α) : Mat2 (Cx α) :=
  mk2 (Cx.smul cb p.conj) (-(Cx.smul sb m.conj)) (Cx.smul sb m) (Cx.smul cb p)

/-- the seven entries `x00 x10 x02 x12 x20 x21 x22` (complex, before `.real`) that `su2_to_angle`
(`_lie.py:134-142`) hands to the extraction; `a = U[0,0]`, `b = U[0,1]`. -/
def su2Entries7 (half : α) (a b : Cx α) : List (Cx α) :=
  let aH := a.conj; let bH := b.conj
  [ Cx.smul half (a*a + aH*aH - b*b - bH*bH),
    Cx.imag half * (a*a - aH*aH - b*b + bH*bH),
    -(a*b) - aH*bH,
    Cx.imag 1 * (aH*bH - a*b),
    aH*b + a*bH,
    Cx.imag 1 * (aH*b - a*bH),
    a*aH - b*bH ]

/-- `su2_to_so3` (`_lie.py:184-192`): nine complex polynomials in `a = U[0,0]`, `b = U[0,1]`
and their conjugates, then `.real`. -/
def su2ToSO3cx (half : α) (a b : Cx α) : Mat3 (Cx α) :=
  let aH := a.conj; let bH := b.conj
  mk3 (Cx.smul half (a*a + aH*aH - b*b - bH*bH)) (Cx.imag (-half) * (a*a - aH*aH + b*b - bH*bH)) (-(a*b) - aH*bH)
      (Cx.imag half * (a*a - aH*aH - b*b + bH*bH)) (Cx.smul half (a*a + aH*aH + b*b + bH*bH)) (Cx.imag 1 * (aH*bH - a*b))
      (aH*b + a*bH) (Cx.imag 1 * (aH*b - a*bH)) (a*aH - b*bH)

def su2ToSO3 (half : α) (a b : Cx α) : Mat3 α := fun i j => (su2ToSO3cx half a b i j).re

/-- product of two matrices of the form `[[a, b], [-b̄, ā]]`, as the pair `(a, b)` of the product -/
def su2MulA (a b a' b' : Cx α) : Cx α := a * a' - b * b'.conj
def su2MulB (a b a' b' : Cx α) : Cx α := a * b' + b * a'.conj

/-- 3×3 matrix product (explicit, for the driver; the theorems use `Matrix.mul`) -/
def mul3 (x y : Mat3 α) : Mat3 α := fun i j => x i 0 * y 0 j + x i 1 * y 1 j + x i 2 * y 2 j

end generic

/-! ### matrices -> Euler angles -/

section extract
variable {α : Type} [Add α] [Sub α] [Mul α] [Neg α] [Zero α] [One α] [LT α] [DecidableRel (α := α) (· < ·)] [Trig α]

open Trig

/-- `np.clip(x, -1, 1)` -/
def clip1 (x : α) : α := if x < -1 then -1 else if 1 < x then 1 else x

/-- which branch `_so3_to_angle_hf0` takes -/
inductive Branch | zero | pi | generic
deriving DecidableEq, Repr

/-- `β = arccos(clip(x22))` and the branch masks `ind0 / ind1 / ind2` (`_lie.py:63-68`). -/
def branchOf (beta eps : α) : Branch :=
  if beta < eps then .zero else if (pi - eps : α) < beta then .pi else .generic

/-- `_so3_to_angle_hf0` (`_lie.py:61-81`) for one batch element (the implementation works on masked
slices of the batch; element-wise behaviour is what the correspondence check ties). -/
def so3ToAngleHf0 (half : α) (x00 x10 x02 x12 x20 x21 x22 eps : α) : α × α × α :=
  let beta := acos (clip1 x22)
  match branchOf beta eps with
  | .zero => let t := mod2pi (atan2 x10 x00); (half * t, beta, half * t)
  | .pi => let t := mod2pi (atan2 (-x10) (-x00)); (t, beta, 0)
  | .generic => (mod2pi (atan2 x12 x02), beta, mod2pi (atan2 x21 (-x20)))

/-- `so3_to_angle` (`_lie.py:84-104`). -/
def so3ToAngle (half : α) (r : Mat3 α) (eps : α) : α × α × α :=
  so3ToAngleHf0 half (r 0 0) (r 1 0) (r 0 2) (r 1 2) (r 2 0) (r 2 1) (r 2 2) eps

/-- `angle_to_so3` on angles. -/
def angleToSO3 (a b g : α) : Mat3 α := angleToSO3cs (cos a) (sin a) (cos b) (sin b) (cos g) (sin g)

/-- `angle_to_su2` on angles: `exp(0.5j*(α±γ))`, `cos(β/2)`, `sin(β/2)`. -/
def angleToSU2 (half : α) (a b g : α) : Mat2 (Cx α) :=
  angleToSU2cs (cos (half * b)) (sin (half * b))
    ⟨cos (half * (a + g)), sin (half * (a + g))⟩ ⟨cos (half * (a - g)), sin (half * (a - g))⟩

/-- `su2_to_angle` (`_lie.py:125-147`): extraction on the real parts of the seven entries, then the
4π branch of γ: `γ += 2π` when `Re(exp(i(α+γ)/2)·a − exp(i(α−γ)/2)·b) < 0`
(for `U = angle_to_su2 α β γ'` with `γ' ≡ γ mod 2π` this real part is `±(cos(β/2) + sin(β/2))`, `|·| ≥ 1`). -/
def su2ToAngle (half : α) (a b : Cx α) (eps : α) : α × α × α :=
  match (su2Entries7 half a b).map Cx.re with
  | [x00, x10, x02, x12, x20, x21, x22] =>
    let (al, be, ga) := so3ToAngleHf0 half x00 x10 x02 x12 x20 x21 x22 eps
    let e1 : Cx α := ⟨cos (half * (al + ga)), sin (half * (al + ga))⟩
    let e2 : Cx α := ⟨cos (half * (al - ga)), sin (half * (al - ga))⟩
    if (e1 * a - e2 * b).re < 0 then (al, be, ga + (pi + pi)) else (al, be, ga)
  | _ => (0, 0, 0)

/-- `so3_to_su2` = `angle_to_su2 ∘ so3_to_angle` (`_lie.py:163-164`). -/
def so3ToSU2 (half : α) (r : Mat3 α) (eps : α) : Mat2 (Cx α) :=
  let (a, b, g) := so3ToAngle half r eps
  angleToSU2 half a b g

end extract

/-! ### angular momentum operators (`_clebsch_gordan.py:7-18`) -/

section angmom
variable {K : Type} [Add K] [Sub K] [Mul K] [Neg K] [Zero K]

/-- `jz = diag(arange(j2+1)[::-1] - j2/2)`; `ofNat` is the cast `ℕ → K`. -/
def jzEntry (half : K) (ofNat : Nat → K) (j2 i k : Nat) : K :=
  if i = k then ofNat (j2 - i) - half * ofNat j2 else 0

/-- `tmp1[i] = sqrt((i+1)*(j2-i))/2`; `sq n` stands for `√n`. -/
def ladder (half : K) (sq : Nat → K) (j2 i : Nat) : K := half * sq ((i + 1) * (j2 - i))

/-- `jx = diag(tmp1, 1) + diag(tmp1, -1)` -/
def jxEntry (half : K) (sq : Nat → K) (j2 i k : Nat) : K :=
  if k = i + 1 then ladder half sq j2 i else if i = k + 1 then ladder half sq j2 k else 0

/-- `jy = diag(-1j*tmp1, 1) + diag(1j*tmp1, -1)`; `I` is the imaginary unit of `K`. -/
def jyEntry (I half : K) (sq : Nat → K) (j2 i k : Nat) : K :=
  if k = i + 1 then -(I * ladder half sq j2 i) else if i = k + 1 then I * ladder half sq j2 k else 0

end angmom

/-! ### spin-j matrices (`get_su2_irrep`, `_lie.py:205-270`) -/

def factN : Nat → Nat
  | 0 => 1
  | n + 1 => (n + 1) * factN n

/-- `x^n` by repeated multiplication (`np.vander(…, increasing=True)` columns) -/
def powG {β : Type} [Mul β] [One β] (x : β) : Nat → β
  | 0 => 1
  | n + 1 => powG x n * x

section wigner
variable {α : Type} [Add α] [Sub α] [Mul α] [Neg α] [Div α] [Zero α] [One α]

/-- Wigner small-d entry for row `i`, column `k` (`M = j2/2 - i`, `N = j2/2 - k`):
`Σ_R (-1)^R √((j+M)!(j-M)!(j+N)!(j-N)!) / ((j+M-R)! (j-N-R)! R! (R-M+N)!) · cb^(j2-(2R-M+N)) · sb^(2R-M+N)`,
`R` over all values for which the four factorial arguments are non-negative
(`_lie.py:215-224` builds exactly this range from the shifted triangular circulant).
`sq n` stands for `√n`, `ofNat` for the cast `ℕ → α`. -/
def wignerDG (sq ofNat : Nat → α) (j2 : Nat) (cb sb : α) (i k : Nat) : α :=
  let lo := k - i            -- truncated subtraction: max(0, k-i)
  let hi := min (j2 - i) k
  (List.range (hi + 1 - lo)).foldl (fun acc t =>
    let r := lo + t
    let e := 2 * r + i - k
    let sgn : α := if r % 2 = 0 then 1 else -1
    acc + sgn * sq (factN (j2 - i) * factN i * factN (j2 - k) * factN k)
            / ofNat (factN (j2 - i - r) * factN (k - r) * factN r * factN (r + i - k)) * powG cb (j2 - e) * powG sb e) 0

/-- `get_su2_irrep` on the half-angle data of `angleToSU2cs` (`cb, sb = cos, sin(β/2)`, `p = e^{i(α+γ)/2}`, `m = e^{i(α-γ)/2}`):
`exp(-i M α)·d_{MN}(β)·exp(-i N γ) = p̄^{j2} (p m)^i (p m̄)^k · d_{ik}`. -/
def irrepCS (sq ofNat : Nat → α) (j2 : Nat) (cb sb : α) (p m : Cx α) (i k : Nat) : Cx α :=
  Cx.smul (wignerDG sq ofNat j2 cb sb i k) (powG p.conj j2 * powG (p * m) i * powG (p * m.conj) k)

/-- the matrix of `Sym^{j2}(U)`, `U = [[a, b], [c, d]]`, in the normalised monomial basis:
`Σ_R √((j2-i)! i! (j2-k)! k!) / ((j2-i-R)! (k-R)! R! (R+i-k)!) · a^(j2-i-R) d^(k-R) b^R c^(R+i-k)`. -/
def symD (sq ofNat : Nat → α) (j2 : Nat) (a b c d : Cx α) (i k : Nat) : Cx α :=
  let lo := k - i
  let hi := min (j2 - i) k
  (List.range (hi + 1 - lo)).foldl (fun acc t =>
    let r := lo + t
    acc + Cx.smul (sq (factN (j2 - i) * factN i * factN (j2 - k) * factN k)
            / ofNat (factN (j2 - i - r) * factN (k - r) * factN r * factN (r + i - k)))
          (powG a (j2 - i - r) * powG d (k - r) * powG b r * powG c (r + i - k))) 0

end wigner

/-- the Float instance used by the driver -/
def wignerD (j2 : Nat) (cb sb : Float) (i k : Nat) : Float :=
  wignerDG (fun n => Float.sqrt n.toFloat) Nat.toFloat j2 cb sb i k

/-- `get_su2_irrep(j2, α, β, γ)` with its literal phases (`_lie.py:264-267`): `exp(-i M α) · d_{MN}(β) · exp(-i N γ)`,
`M = (j2-i) - j2/2`, `N = (j2-k) - j2/2` (`tmp0 = arange(j2+1)[::-1] - j2/2`); scalar-generic over `Trig`. -/
def su2IrrepG {α : Type} [Add α] [Sub α] [Mul α] [Neg α] [Div α] [Zero α] [One α] [Trig α]
    (sq ofNat : Nat → α) (half : α) (j2 : Nat) (al be ga : α) (i k : Nat) : Cx α :=
  let mI : α := ofNat (j2 - i) - half * ofNat j2
  let mK : α := ofNat (j2 - k) - half * ofNat j2
  let d := wignerDG sq ofNat j2 (Trig.cos (half * be)) (Trig.sin (half * be)) i k
  let e1 : Cx α := ⟨Trig.cos (mI * al), -Trig.sin (mI * al)⟩
  let e2 : Cx α := ⟨Trig.cos (mK * ga), -Trig.sin (mK * ga)⟩
  e1 * Cx.smul d e2

/-- the Float instance run by the driver (op `irrep`) -/
def su2Irrep (j2 : Nat) (al be ga : Float) (i k : Nat) : Cx Float :=
  su2IrrepG (fun n => Float.sqrt n.toFloat) Nat.toFloat 0.5 j2 al be ga i k

/-! ### Clebsch–Gordan coefficients, exact (`_clebsch_gordan.py:32-47` obtains them from sympy)

Racah's closed formula with doubled quantum numbers; the coefficient is `sgn·√sq` with `sq` rational:
`C = √[(2j+1)(j+j1-j2)!(j-j1+j2)!(j1+j2-j)!/(j1+j2+j+1)!] · √[(j+m)!(j-m)!(j1-m1)!(j1+m1)!(j2-m2)!(j2+m2)!] · S`,
`S = Σ_k (-1)^k / (k!(j1+j2-j-k)!(j1-m1-k)!(j2+m2-k)!(j-j2+m1+k)!(j-j1-m2+k)!)`. -/

/-- `(x/2)!` for an even non-negative integer `x` (0 otherwise; callers guard) -/
def factHalf (x : Int) : Nat := if x < 0 then 0 else factN (x.toNat / 2)

/-- `(sign, square)` of `⟨j1 m1; j2 m2 | j m⟩`, all arguments doubled -/
def cgSq (j1 j2 j m1 m2 m : Int) : Int × Rat :=
  if m ≠ m1 + m2 ∨ j > j1 + j2 ∨ j < (j1 - j2) ∨ j < (j2 - j1) ∨ (j1 + j2 + j) % 2 ≠ 0
      ∨ m1 > j1 ∨ m1 < -j1 ∨ m2 > j2 ∨ m2 < -j2 ∨ m > j ∨ m < -j then (0, 0)
  else
    let A : Rat := ((j + 1 : Int) : Rat) * (factHalf (j + j1 - j2) : Rat) * (factHalf (j - j1 + j2) : Rat) * (factHalf (j1 + j2 - j) : Rat)
        / (factHalf (j1 + j2 + j + 2) : Rat)
    let B : Rat := (factHalf (j + m) : Rat) * (factHalf (j - m) : Rat) * (factHalf (j1 - m1) : Rat) * (factHalf (j1 + m1) : Rat)
        * (factHalf (j2 - m2) : Rat) * (factHalf (j2 + m2) : Rat)
    let kmax := ((j1 + j2 - j) / 2).toNat
    let S : Rat := (List.range (kmax + 1)).foldl (fun acc (k : Nat) =>
      let kk : Int := 2 * (k : Int)
      let args := [kk, j1 + j2 - j - kk, j1 - m1 - kk, j2 + m2 - kk, j - j2 + m1 + kk, j - j1 - m2 + kk]
      if args.any (· < 0) then acc
      else acc + (if k % 2 = 0 then (1 : Rat) else -1) / ((args.map fun x => (factHalf x : Rat)).foldl (· * ·) 1)) 0
    (if S > 0 then 1 else if S < 0 then -1 else 0, A * B * S * S)

/-- the table of `get_clebsch_gordan_coeffient(j1_double, j2_double)` for one `j_double`, flattened in the order
`coeff[j_double-n, j1_double-n1, j2_double-n2] = CG(j1, -j1+n1; j2, -j2+n2 | j, -j+n)` -/
def cgTable (j1 j2 j : Nat) : List (Int × Rat) :=
  (List.range (j + 1)).flatMap fun (r : Nat) => (List.range (j1 + 1)).flatMap fun (s : Nat) => (List.range (j2 + 1)).map fun (t : Nat) =>
    cgSq j1 j2 j ((j1 : Int) - 2 * (s : Int)) ((j2 : Int) - 2 * (t : Int)) ((j : Int) - 2 * (r : Int))

/-! exact orthogonality test for the CG table: every coefficient is `s·√r` (`s ∈ {0,±1}`, `r ≥ 0` rational), a product of two is
`s s'·√(r r')`; write `√(p/q) = (t/q)·√f` with `p q = t² f`, `f` square-free, and add the rational coefficients `s s' t/q` per `f`. -/

/-- `(t', f)` with `t'²·f = t²·N` (`C15.sqfreeGo_spec`, every fuel); trial division, so `f` is square-free whenever `fuel` covers all
divisors up to `√N` — only `N = t²·f` is used for soundness -/
def sqfreeGo : Nat → Nat → Nat → Nat → Nat × Nat
  | 0, _, N, t => (t, N)
  | fuel + 1, d, N, t =>
    if d * d > N then (t, N)
    else if N % (d * d) = 0 then sqfreeGo fuel d (N / (d * d)) (t * d)
    else sqfreeGo fuel (d + 1) N t

def sqfreeDecomp (N : Nat) : Nat × Nat := if N = 0 then (0, 1) else sqfreeGo (N + 64) 2 N 1

/-- `s·√r` as `(c, f)` meaning `c·√f` (`r.num·r.den = t²·f` by `sqfreeDecomp`, `c = s·t/r.den`) -/
def surdNormal (s : Int) (r : Rat) : Rat × Nat :=
  let (t, f) := sqfreeDecomp (r.num.toNat * r.den)
  ((s : Rat) * (t : Rat) / (r.den : Rat), f)

/-- is `Σ_i c_i √f_i = target` with the terms grouped by the square-free radicand (`target` sits in the group `f = 1`)? -/
def surdSumIs (terms : List (Rat × Nat)) (target : Rat) : Bool :=
  let fs := (1 :: terms.map (·.2)).eraseDups
  fs.all fun f => ((terms.filter fun t => t.2 == f).map (·.1)).foldl (· + ·) 0 == (if f = 1 then target else 0)

/-- rows `(j, m)` of the CG table of `(j1, j2)` (doubled) as lists over `m1` (`m2 = m - m1`) -/
def cgRow (j1 j2 j m : Int) : List (Int × Rat) :=
  (List.range (j1.toNat + 1)).map fun (s : Nat) => cgSq j1 j2 j (j1 - 2 * (s : Int)) (m - (j1 - 2 * (s : Int))) m

/-- all `(j, m)` labels -/
def cgLabels (j1 j2 : Nat) : List (Int × Int) :=
  let lo := if j1 ≥ j2 then j1 - j2 else j2 - j1
  ((List.range (j1 + j2 + 1)).filter fun j => j ≥ lo && (j - lo) % 2 == 0).flatMap fun j =>
    (List.range (j + 1)).map fun (r : Nat) => ((j : Int), (j : Int) - 2 * (r : Int))

/-- **orthonormality of the rows** `Σ_{m1 m2} C(j m|m1 m2) C(j' m'|m1 m2) = δ_jj' δ_mm'` (rows with `m ≠ m'` have disjoint supports) -/
def cgRowsOrthonormal (j1 j2 : Nat) : Bool :=
  let L := cgLabels j1 j2
  L.all fun a => L.all fun b =>
    if a.2 ≠ b.2 then true
    else
      let ra := cgRow j1 j2 a.1 a.2; let rb := cgRow j1 j2 b.1 b.2
      surdSumIs ((ra.zip rb).map fun p => surdNormal (p.1.1 * p.2.1) (p.1.2 * p.2.2)) (if a = b then 1 else 0)

/-- rational part: squares of each row sum to one, and squares over `j` for fixed `(m1, m2)` sum to one (completeness) -/
def cgSquaresNormalised (j1 j2 : Nat) : Bool :=
  (cgLabels j1 j2).all (fun a => ((cgRow j1 j2 a.1 a.2).map (·.2)).foldl (· + ·) 0 == 1) &&
  (List.range (j1 + 1)).all fun (s : Nat) => (List.range (j2 + 1)).all fun (t : Nat) =>
    let m1 : Int := (j1 : Int) - 2 * (s : Int); let m2 : Int := (j2 : Int) - 2 * (t : Int)
    let lo := if j1 ≥ j2 then j1 - j2 else j2 - j1
    (((List.range (j1 + j2 + 1)).filter fun j => j ≥ lo && (j - lo) % 2 == 0).map fun (j : Nat) => (cgSq j1 j2 j m1 m2 (m1 + m2)).2).foldl (· + ·) 0 == 1

/-- `get_irreducible_tensor_operator(S_double)` (`_clebsch_gordan.py:51-65`), block `k_double` (the CG table of `(S,S)` at `j = k`):
`T[q, m, m'] = √(S+1)·(-1)^k·(-1)^m · C[q, m, S-m']` (`m, m'` are array indices), in signed-square form -/
def tensorOpTable (S kd : Nat) : List (Int × Rat) :=
  (List.range (kd + 1)).flatMap fun (r : Nat) => (List.range (S + 1)).flatMap fun (mi : Nat) => (List.range (S + 1)).map fun (mj : Nat) =>
    let c := cgSq S S kd ((S : Int) - 2 * (mi : Int)) ((S : Int) - 2 * ((S - mj : Nat) : Int)) ((kd : Int) - 2 * (r : Int))
    let sg : Int := (if (kd / 2) % 2 = 0 then 1 else -1) * (if mi % 2 = 0 then 1 else -1)
    (sg * c.1, ((S : Rat) + 1) * c.2)

/-- every component `T^k_q` has squared Hilbert–Schmidt norm `S_double + 1` (rational arithmetic on the squares) -/
def tensorOpNormalised (S : Nat) : Bool :=
  (List.range (S + 1)).all fun (k : Nat) =>
    let tab := tensorOpTable S (2 * k)
    (List.range (2 * k + 1)).all fun (r : Nat) =>
      (((tab.drop (r * (S + 1) * (S + 1))).take ((S + 1) * (S + 1))).map (·.2)).foldl (· + ·) 0 == (S : Rat) + 1

/-- `get_rational_orthogonal2_matrix` (`_lie.py:287-293`) over the rationals: `[[ct, st], [-st, ct]]`. -/
def rationalOrthogonal2 (m n : Int) : List Rat :=
  let a : Rat := m * m - n * n
  let b : Rat := 2 * m * n
  let c : Rat := m * m + n * n
  [b / c, a / c, -(a / c), b / c]

end Numqi.Lie
