/-
Model for C19 (`numqi/qec/_qecc.py`, `numqi/qec/_internal.py`).  No Mathlib import: everything
here is executable (driver) and kernel-evaluable (`decide +kernel` in `NumqiProps/C19.lean`).

Contents
* `Gate`, `Code`               — the data written by the translator (`Generated/QecCircuits.lean`)
* `MP`                         — phased Pauli operator `i^k X^x Z^z` on `Nat` bitmasks (bit `q` = qubit `q`)
* `conj`, `gens`               — tableau propagation `P ↦ G P G†` (own small tableau, used only as a
                                 *generator of candidates*: every generator is re-checked on the vectors)
* `T`, `run`, `codewords`      — state vectors as perfect binary trees of Gaussian integers (qubit 0 = most
                                 significant = root, the layout of `numqi.sim`), amplitudes scaled by `√2^h`;
                                 model of `Circuit.apply_state` for H/X/Y/Z/S/CX/CY/CZ and of `generate_code_np`
* `applyP`, `inner`            — Pauli operator applied to a vector, inner product
* `errorList`, `asymErrorSet`  — models of `make_error_list`, `hf_split_element`, `make_asymmetric_error_set`
* `stabCheck`, `klCheck`, `orthoCheck`, `listedFixCheck`, `stabCircImplCheck`, `stabCircFixCheck`
                               — the Boolean obligations evaluated per code
-/
import NumqiModel.Scalar

namespace Numqi.Qec

/-! ### data written by the translator -/

/-- a gate of a shipped circuit, as classified by the translator from the live `Gate.array`
(`sim/circuit.py:43-63`): `kind='unitary'` with one index, or `kind='control'` with one control and
one target.  Anything else is `unknown`, which makes every obligation below evaluate to `false`. -/
inductive Gate where
  | h (q : Nat) | x (q : Nat) | y (q : Nat) | z (q : Nat) | s (q : Nat)
  | cx (c t : Nat) | cy (c t : Nat) | cz (c t : Nat)
  | unknown
deriving DecidableEq, Repr, Inhabited

/-- one `generate_code*()` result (`_qecc.py:49-346`): `((n,K,d))`, the `['encode']` gate list, the
Pauli strings listed in the source (symbols I=0 X=1 Y=2 Z=3, qubit 0 first) and the gate lists of
the `['stabilizer']` circuits. -/
structure Code where
  name : String
  n : Nat
  K : Nat
  d : Nat
  encode : List Gate
  listed : List (List Nat)
  stabCircs : List (List Gate)
deriving Repr, Inhabited

/-! ### Pauli operators on bitmasks -/

/-- `i^k · X^x · Z^z`; bit `q` of a mask belongs to qubit `q`. -/
structure MP where
  k : Nat
  x : Nat
  z : Nat
deriving DecidableEq, Repr, Inhabited

def bit (q : Nat) : Nat := 1 <<< q

/-- parity of the number of set bits among the lowest `fuel` bits -/
def parityAux : Nat → Nat → Bool → Bool
  | 0, _, acc => acc
  | f + 1, m, acc => parityAux f (m / 2) (acc ^^ (m % 2 == 1))

def parity (n m : Nat) : Bool := parityAux n m false

namespace MP

def one : MP := ⟨0, 0, 0⟩

/-- do the two operators anticommute?  (symplectic form `x·z' + z·x'` over F2) -/
def acomm (n : Nat) (a b : MP) : Bool := parity n (a.x &&& b.z) ^^ parity n (a.z &&& b.x)

/-- product, phase included: `X^x Z^z X^x' Z^z' = (-1)^{z·x'} X^{x+x'} Z^{z+z'}`. -/
def mul (n : Nat) (a b : MP) : MP :=
  ⟨(a.k + b.k + 2 * (parity n (a.z &&& b.x)).toNat) % 4, a.x ^^^ b.x, a.z ^^^ b.z⟩

def sameXZ (a b : MP) : Bool := a.x == b.x && a.z == b.z

/-- per-qubit symbol (I=0 X=1 Y=2 Z=3) -/
def sym (p : MP) (q : Nat) : Nat :=
  match p.x.testBit q, p.z.testBit q with
  | false, false => 0 | true, false => 1 | true, true => 2 | false, true => 3

def syms (n : Nat) (p : MP) : List Nat := (List.range n).map p.sym

/-- number of `Y` factors among the first `n` qubits -/
def numY (n : Nat) (p : MP) : Nat := ((List.range n).filter fun q => p.x.testBit q && p.z.testBit q).length

/-- exponent `e` of the scalar in `i^e · σ_{s_0} ⊗ … ⊗ σ_{s_{n-1}}` (because `XZ = -iY`) -/
def strPhase (n : Nat) (p : MP) : Nat := (p.k + 3 * p.numY n) % 4

def weight (n : Nat) (p : MP) : Nat := ((List.range n).filter fun q => p.x.testBit q || p.z.testBit q).length

/-- a (qubit, symbol) list ↦ operator `⊗ σ`, sign `+1` (`Y = iXZ`) -/
def ofSparse (l : List (Nat × Nat)) : MP :=
  l.foldl (fun p qs =>
    let q := qs.1; let s := qs.2
    ⟨if s == 2 then (p.k + 1) % 4 else p.k,
     if s == 1 || s == 2 then p.x ||| bit q else p.x,
     if s == 2 || s == 3 then p.z ||| bit q else p.z⟩) one

/-- a full string of symbols (qubit 0 first) ↦ operator, sign `+1` -/
def ofSyms (l : List Nat) : MP := ofSparse ((List.range l.length).zip l)

end MP

/-! ### tableau propagation `P ↦ G P G†` -/

def tb (m q : Nat) : Bool := m.testBit q
def flipIf (c : Bool) (m q : Nat) : Nat := if c then m ^^^ bit q else m

/-- conjugation of `i^k X^x Z^z` by one gate.  `none` for `unknown` / malformed gates. -/
def conj1 (p : MP) : Gate → Option MP
  | .h q =>
      let xb := tb p.x q; let zb := tb p.z q
      some ⟨(p.k + 2 * (xb && zb).toNat) % 4, flipIf (xb != zb) p.x q, flipIf (xb != zb) p.z q⟩
  | .x q => some ⟨(p.k + 2 * (tb p.z q).toNat) % 4, p.x, p.z⟩
  | .z q => some ⟨(p.k + 2 * (tb p.x q).toNat) % 4, p.x, p.z⟩
  | .y q => some ⟨(p.k + 2 * (tb p.x q).toNat + 2 * (tb p.z q).toNat) % 4, p.x, p.z⟩
  | .s q => some ⟨(p.k + (tb p.x q).toNat) % 4, p.x, flipIf (tb p.x q) p.z q⟩
  | .cx c t =>
      if c == t then none else
      some ⟨p.k, flipIf (tb p.x c) p.x t, flipIf (tb p.z t) p.z c⟩
  | .cz c t =>
      if c == t then none else
      some ⟨(p.k + 2 * (tb p.x c && tb p.x t).toNat) % 4, p.x, flipIf (tb p.x c) (flipIf (tb p.x t) p.z c) t⟩
  | .cy c t =>
      if c == t then none else
      -- CY = S_t · CX · S_t†
      let xt := tb p.x t
      let p1 : MP := ⟨(p.k + 3 * xt.toNat) % 4, p.x, flipIf xt p.z t⟩
      let p2 : MP := ⟨p1.k, flipIf (tb p1.x c) p1.x t, flipIf (tb p1.z t) p1.z c⟩
      let xt2 := tb p2.x t
      some ⟨(p2.k + xt2.toNat) % 4, p2.x, flipIf xt2 p2.z t⟩
  | .unknown => none

def conj (p : MP) : List Gate → Option MP
  | [] => some p
  | g :: gs => match conj1 p g with
    | some p' => conj p' gs
    | none => none

/-- number of logical qubits: `K = 2^logK` for the shipped codes -/
def Code.logK (c : Code) : Nat := Nat.log2 c.K

/-- candidate stabilizer generators `S_j = U Z_j U†`, `j < n - log2 K` (the qubits fed with `|0⟩`:
`generate_code_np` sets `q0[ind0] = 1` for `ind0 < K`, so the *last* qubits carry the logical index). -/
def gens (c : Code) : List MP :=
  (List.range (c.n - c.logK)).filterMap fun j => conj ⟨0, 0, bit j⟩ c.encode

/-- all products of sub-multisets of the generators, phases dropped -/
def spanXZ : List MP → List (Nat × Nat)
  | [] => [(0, 0)]
  | g :: gs => let r := spanXZ gs; r ++ r.map fun s => (s.1 ^^^ g.x, s.2 ^^^ g.z)

/-! ### state vectors -/

/-- a vector of length `2^depth`: perfect binary tree, left child = qubit value 0 -/
inductive T where
  | leaf (a : GInt)
  | node (l r : T)
deriving Repr, Inhabited

namespace T

def beq : T → T → Bool
  | leaf a, leaf b => a.re == b.re && a.im == b.im
  | node l r, node l' r' => beq l l' && beq r r'
  | _, _ => false

def zero : Nat → T
  | 0 => leaf 0
  | n + 1 => node (zero n) (zero n)

/-- computational basis state `|idx⟩` of `n` qubits (qubit 0 most significant) -/
def basis : Nat → Nat → T
  | 0, _ => leaf 1
  | n + 1, idx => if idx < 2 ^ n then node (basis n idx) (zero n) else node (zero n) (basis n (idx - 2 ^ n))

/-- `a·s + b·t`, entry-wise -/
def lin (a : GInt) (b : GInt) : T → T → T
  | leaf u, leaf v => leaf (a * u + b * v)
  | node l r, node l' r' => node (lin a b l l') (lin a b r r')
  | _, _ => leaf 0

def toList : T → List GInt
  | leaf a => [a]
  | node l r => toList l ++ toList r

def depthOk : Nat → T → Bool
  | 0, leaf _ => true
  | n + 1, node l r => depthOk n l && depthOk n r
  | _, _ => false

/-- `Σ conj(s_i) t_i` -/
def inner : T → T → GInt
  | leaf a, leaf b => Conj.conj a * b
  | node l r, node l' r' => inner l l' + inner r r'
  | _, _ => 0

end T

/-- 2×2 matrix `[[a,b],[c,d]]` of Gaussian integers -/
structure M2 where
  a : GInt
  b : GInt
  c : GInt
  d : GInt

def mH : M2 := ⟨1, 1, 1, -1⟩            -- √2 · H
def mX : M2 := ⟨0, 1, 1, 0⟩
def mY : M2 := ⟨0, ⟨0, -1⟩, ⟨0, 1⟩, 0⟩
def mZ : M2 := ⟨1, 0, 0, -1⟩
def mS : M2 := ⟨1, 0, 0, ⟨0, 1⟩⟩

/-- one-qubit gate on the qubit at depth `q` (`sim.state.apply_gate`) -/
def app1 (m : M2) : Nat → T → T
  | 0, .node l r => .node (T.lin m.a m.b l r) (T.lin m.c m.d l r)
  | q + 1, .node l r => .node (app1 m q l) (app1 m q r)
  | _, t => t

/-- target at the current depth, control `q+1` levels below: returns the new (target=0, target=1) halves -/
def ctlBelow (m : M2) : Nat → T → T → T × T
  | 0, .node l0 l1, .node r0 r1 => (.node l0 (T.lin m.a m.b l1 r1), .node r0 (T.lin m.c m.d l1 r1))
  | q + 1, .node l0 l1, .node r0 r1 =>
      let a := ctlBelow m q l0 r0
      let b := ctlBelow m q l1 r1
      (.node a.1 b.1, .node a.2 b.2)
  | _, l, r => (l, r)

/-- descend `q` levels, then apply `f` -/
def atDepth (f : T → T) : Nat → T → T
  | 0, t => f t
  | q + 1, .node l r => .node (atDepth f q l) (atDepth f q r)
  | _, t => t

/-- controlled one-qubit gate (`sim.state.apply_control_n_gate` with one control, one target):
the 2×2 matrix acts on the target in the subspace where the control qubit is 1. -/
def appC (m : M2) (c t : Nat) : T → T :=
  if c < t then
    atDepth (fun s => match s with
      | .node l r => .node l (app1 m (t - c - 1) r)
      | s => s) c
  else
    atDepth (fun s => match s with
      | .node l r => let p := ctlBelow m (c - t - 1) l r; .node p.1 p.2
      | s => s) t

/-- a state: the vector is `(1/√2)^h · t` -/
structure St where
  h : Nat
  t : T

/-- model of one step of `Circuit.apply_state` (`sim/circuit.py:488-510`) on `n` qubits -/
def step (n : Nat) (s : St) : Gate → Option St
  | .h q => if q < n then some ⟨s.h + 1, app1 mH q s.t⟩ else none
  | .x q => if q < n then some ⟨s.h, app1 mX q s.t⟩ else none
  | .y q => if q < n then some ⟨s.h, app1 mY q s.t⟩ else none
  | .z q => if q < n then some ⟨s.h, app1 mZ q s.t⟩ else none
  | .s q => if q < n then some ⟨s.h, app1 mS q s.t⟩ else none
  | .cx c t => if c < n && t < n && c != t then some ⟨s.h, appC mX c t s.t⟩ else none
  | .cy c t => if c < n && t < n && c != t then some ⟨s.h, appC mY c t s.t⟩ else none
  | .cz c t => if c < n && t < n && c != t then some ⟨s.h, appC mZ c t s.t⟩ else none
  | .unknown => none

def run (n : Nat) (s : St) : List Gate → Option St
  | [] => some s
  | g :: gs => match step n s g with
    | some s' => run n s' gs
    | none => none

/-- model of `generate_code_np(circ, K)` (`_internal.py:137-146`): the images of `|0⟩ … |K-1⟩` -/
def codewords (c : Code) : List (Option St) :=
  (List.range c.K).map fun a => run c.n ⟨0, T.basis c.n a⟩ c.encode

def allSome {α : Type} : List (Option α) → Option (List α)
  | [] => some []
  | none :: _ => none
  | some a :: l => match allSome l with
    | some r => some (a :: r)
    | none => none

/-! ### Pauli operators on vectors -/

/-- `(P v)(b') = i^{k + 2 z·b} v(b)`, `b = b' ⊕ x`; `q` = depth of the current node. -/
def applyPAux (x z : Nat) : Nat → Nat → T → T
  | _, k, .leaf a => .leaf (GInt.iPow k * a)
  | q, k, .node l r =>
      let zb := 2 * (z.testBit q).toNat
      if x.testBit q then .node (applyPAux x z (q + 1) (k + zb) r) (applyPAux x z (q + 1) k l)
      else .node (applyPAux x z (q + 1) k l) (applyPAux x z (q + 1) (k + zb) r)

def applyP (p : MP) (t : T) : T := applyPAux p.x p.z 0 p.k t

/-! ### error sets -/

/-- `itertools.combinations(l, k)` in its order -/
def combs {α : Type} : List α → Nat → List (List α)
  | _, 0 => [[]]
  | [], _ + 1 => []
  | a :: l, k + 1 => (combs l k).map (a :: ·) ++ combs l (k + 1)

/-- `itertools.product([X,Y,Z], repeat=w)` in its order (symbols 1,2,3) -/
def prods : Nat → List (List Nat)
  | 0 => [[]]
  | w + 1 => [1, 2, 3].flatMap fun o => (prods w).map (o :: ·)

/-- `make_error_list(num_qubit, distance)` (`_internal.py:12-31`), default `op_list`:
for weight in 1..d-1, for qubits in combinations, for gates in product. -/
def errorList (n d : Nat) : List (List (Nat × Nat)) :=
  (List.range (d - 1)).flatMap fun w =>
    (combs (List.range n) (w + 1)).flatMap fun qs =>
      (prods (w + 1)).map fun gs => qs.zip gs

/-- `hf_split_element(l, counts)` (`_internal.py:34-58`): ordered tuples of disjoint index sets of
the given sizes, each set chosen by `combinations` from what is left. -/
def split : List Nat → List Nat → List (List (List Nat))
  | _, [] => [[]]
  | l, c :: rest =>
      (combs l c).flatMap fun s => (split (l.filter fun i => !s.contains i) rest).map (s :: ·)

/-- `⌈a / b⌉` for `b > 0` -/
def ceilDiv (a b : Nat) : Nat := (a + b - 1) / b

/-- `make_asymmetric_error_set(num_qubit, distance, weight_z = p/q)` (`_internal.py:61-78`). -/
def asymErrorSet (n d p q : Nat) : List (List (Nat × Nat)) :=
  (List.range (min n d)).flatMap fun nxy =>
    let bound := ceilDiv ((d - nxy) * q) p
    (List.range (min (n - nxy + 1) bound)).flatMap fun nz =>
      if nxy == 0 && nz == 0 then [] else
      (List.range (nxy + 1)).flatMap fun nx =>
        let ny := nxy - nx
        (split (List.range n) [nx, ny, nz]).map fun ss =>
          match ss with
          | [ix, iy, iz] => ix.map (·, 1) ++ iy.map (·, 2) ++ iz.map (·, 3)
          | _ => []

/-- canonical form of an error given as (qubit, symbol) list: the string of `n` symbols -/
def sparseToSyms (n : Nat) (l : List (Nat × Nat)) : List Nat :=
  (List.range n).map fun q => match l.find? (fun qs => qs.1 == q) with
    | some qs => qs.2
    | none => 0

/-! ### per-code obligations -/

def hOf : List St → Nat
  | [] => 0
  | s :: _ => s.h

/-- every candidate generator fixes every code word, sign included; there are `n - log2 K` of them;
all vectors have the right shape. -/
def stabCheck (c : Code) : Bool :=
  match allSome (codewords c) with
  | none => false
  | some cw =>
      let gs := gens c
      2 ^ c.logK == c.K && c.logK ≤ c.n && gs.length == c.n - c.logK
        && cw.all (fun s => T.depthOk c.n s.t)
        && gs.all fun g => cw.all fun s => T.beq (applyP g s.t) s.t

/-- Knill–Laflamme on the Pauli level: every error of weight `1..d-1` (model of `make_error_list`)
anticommutes with some generator or equals a product of generators up to a phase. -/
def klCheck (c : Code) : Bool :=
  let gs := gens c
  let sp := spanXZ gs
  (errorList c.n c.d).all fun e =>
    let p := MP.ofSparse e
    gs.any (fun g => MP.acomm c.n g p) || sp.any (fun s => s.1 == p.x && s.2 == p.z)

def orthoGo (h : Nat) : List St → Bool
  | [] => true
  | s :: rest =>
      s.h == h && (let v := T.inner s.t s.t; v.re == 2 ^ h && v.im == 0)
        && rest.all (fun s' => let v := T.inner s.t s'.t; v.re == 0 && v.im == 0)
        && orthoGo h rest

/-- `⟨c_a|c_b⟩ = δ_ab`:  scaled vectors have `⟨v_a|v_b⟩ = 2^h δ_ab`. -/
def orthoCheck (c : Code) : Bool :=
  match allSome (codewords c) with
  | none => false
  | some cw => orthoGo (hOf cw) cw

def symsOk (n : Nat) (l : List Nat) : Bool := l.length == n && l.all (· < 4)

/-- every listed Pauli string (sign `+1`) fixes every code word -/
def listedFixCheck (c : Code) : Bool :=
  match allSome (codewords c) with
  | none => false
  | some cw =>
      !c.listed.isEmpty && c.listed.all fun l =>
        symsOk c.n l && cw.all fun s => T.beq (applyP (MP.ofSyms l) s.t) s.t

/-- the operator implemented by a circuit made of X/Y/Z gates only (`none` otherwise):
the circuit `g_1, …, g_m` is the operator `g_m ⋯ g_1`. -/
def circPauli (n : Nat) : List Gate → Option MP
  | [] => some MP.one
  | g :: gs =>
      let p := match g with
        | .x q => if q < n then some (MP.ofSparse [(q, 1)]) else none
        | .y q => if q < n then some (MP.ofSparse [(q, 2)]) else none
        | .z q => if q < n then some (MP.ofSparse [(q, 3)]) else none
        | _ => none
      match p, circPauli n gs with
      | some p, some r => some (MP.mul n r p)
      | _, _ => none

/-- each shipped stabilizer circuit is exactly its listed Pauli string (as an operator, sign `+1`) -/
def stabCircImplCheck (c : Code) : Bool :=
  c.stabCircs.length == c.listed.length &&
  (c.stabCircs.zip c.listed).all fun cl =>
    symsOk c.n cl.2 && match circPauli c.n cl.1 with
    | some p => p == MP.ofSyms cl.2
    | none => false

/-- each shipped stabilizer circuit, run by the state-vector model, maps every code word to itself -/
def stabCircFixCheck (c : Code) : Bool :=
  match allSome (codewords c) with
  | none => false
  | some cw =>
      !c.stabCircs.isEmpty && c.stabCircs.all fun gl => cw.all fun s =>
        match run c.n ⟨0, s.t⟩ gl with
        | some s' => s'.h == 0 && T.beq s'.t s.t
        | none => false

/-! ### weight enumerators (`quantum_weight_enumerator`, `_internal.py:99-127`) on the model vectors -/

/-- all strings of `n` symbols -/
def allSyms : Nat → List (List Nat)
  | 0 => [[]]
  | n + 1 => [0, 1, 2, 3].flatMap fun s => (allSyms n).map (s :: ·)

def symWeight (l : List Nat) : Nat := (l.filter (· != 0)).length

def gnormSq (a : GInt) : Int := a.re * a.re + a.im * a.im

/-- for one Pauli string: `(|Σ_a M_aa|², Σ_ab |M_ab|²)` with `M_ab = ⟨v_a|P|v_b⟩` (scaled by `2^h`) -/
def enumTerm (cw : List St) (l : List Nat) : Int × Int :=
  let p := MP.ofSyms l
  let imgs := cw.map fun s => applyP p s.t
  let tr : GInt := (cw.zip imgs).foldl (fun acc si => acc + T.inner si.1.t si.2) 0
  let b : Int := cw.foldl (fun acc s => imgs.foldl (fun acc' im => acc' + gnormSq (T.inner s.t im)) acc) 0
  (gnormSq tr, b)

/-- `(K²·4^h·A_j, K·4^h·B_j)` for `j = 0..n` -/
def weightEnum (c : Code) : Option (List (Int × Int)) :=
  match allSome (codewords c) with
  | none => none
  | some cw =>
      let terms := (allSyms c.n).map fun l => (symWeight l, enumTerm cw l)
      some ((List.range (c.n + 1)).map fun j =>
        terms.foldl (fun acc t => if t.1 == j then (acc.1 + t.2.1, acc.2 + t.2.2) else acc) (0, 0))

end Numqi.Qec
