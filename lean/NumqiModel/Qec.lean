/-
Model for C19 (`numqi/qec/_qecc.py`, `numqi/qec/_internal.py`, gate application of `sim/circuit.py`).
No Mathlib import: everything here is executable (driver) and kernel-evaluable (`decide +kernel` in
`NumqiProps/C19.lean`).

Contents
* `Gate`, `Code`               — the data written by the translator (`Generated/QecCircuits.lean`)
* `MP`                         — phased Pauli operator `i^k X^x Z^z` on `Nat` bitmasks (bit `q` = qubit `q`)
* `conj1`, `conj`, `gens`, `zbars`, `xbars`
                               — own small tableau: propagation `P ↦ G P G†` through a gate list
* `applyGate`, `run`, `codeword`
                               — state vectors as functions `position → amplitude` over any scalar type
                                 (position: qubit `q` = bit `q`; numpy's flat index is the bit reversal),
                                 `H` scaled by `√2`; model of `Circuit.apply_state` for H/X/Y/Z/S/CX/CY/CZ and
                                 of `generate_code_np`
* `pauliAct`, `inner`          — Pauli operator applied to a vector, inner product
* `errorList`, `asymErrorSet`  — models of `make_error_list`, `hf_split_element`, `make_asymmetric_error_set`;
                                 `sparseToSyms` (canonical string), `asymCond` (the weighted bound)
* `klCheck`, `listedCheck`, `listedIndepCheck`, `stabCircImplCheck`
                               — the Boolean obligations evaluated per code in the kernel
* `runTab`, `codewordTab`, `pauliTab`
                               — the same `applyGate` / `pauliAct`, tabulated after every gate, for the driver
                                 (`runTab_eq`, `codewordTab_eq`, `pauliTab_eq` in `NumqiProofs/QecTab.lean`)
* `weightEnum`, `klLossL2`     — models of `quantum_weight_enumerator`, `knill_laflamme_loss`
-/
import NumqiModel.Scalar
import NumqiModel.Pauli

namespace Numqi.Qec

/-! ### data written by the translator -/

/-- a gate of a shipped circuit, as classified by the translator from the live `Gate.array`
(`sim/circuit.py:43-63`): `kind='unitary'` with one index, or `kind='control'` with one control and
one target.  Anything else is `unknown`, which makes every obligation below evaluate to `false`. -/
inductive Gate where
  | h (q : Nat) | x (q : Nat) | y (q : Nat) | z (q : Nat) | s (q : Nat)
  | cx (c t : Nat) | cy (c t : Nat) | cz (c t : Nat)
  | unknown
deriving DecidableEq, Repr, Inhabited

/-- one `generate_code*()` result (`_qecc.py:49-346`): `((n,K,d))`, the `['encode']` gate list, the
Pauli strings listed in the source (symbols I=0 X=1 Y=2 Z=3, qubit 0 first) and the gate lists of
the `['stabilizer']` circuits. -/
structure Code where
  name : String
  n : Nat
  K : Nat
  d : Nat
  encode : List Gate
  listed : List (List Nat)
  stabCircs : List (List Gate)
deriving Repr, Inhabited

/-- the gate touches only qubits `< n` (and control ≠ target) -/
def gateOk (n : Nat) : Gate → Bool
  | .h q | .x q | .y q | .z q | .s q => q < n
  | .cx c t | .cy c t | .cz c t => c < n && t < n && c != t
  | .unknown => false

/-! ### Pauli operators on bitmasks -/

/-- `i^k · X^x · Z^z`; bit `q` of a mask belongs to qubit `q`. -/
structure MP where
  k : Nat
  x : Nat
  z : Nat
deriving DecidableEq, Repr, Inhabited

def bit (q : Nat) : Nat := 1 <<< q

/-- parity of the number of set bits among the lowest `2^l` bits, by folding halves -/
def parityFold : Nat → Nat → Bool
  | 0, m => m.testBit 0
  | l + 1, m => parityFold l (m ^^^ (m >>> 2 ^ l))

/-- parity of the number of set bits of a mask below `2^32` -/
def par (m : Nat) : Bool := parityFold 5 m

/-- `forceNat v f = f v`.  For the kernel evaluator (`decide +kernel`) the `match` forces `v` to a
literal once, so that `f` does not re-evaluate the expression `v` at every use. -/
def forceNat {α : Type} (v : Nat) (f : Nat → α) : α :=
  match v with
  | 0 => f 0
  | k + 1 => f (k + 1)

namespace MP

def one : MP := ⟨0, 0, 0⟩

/-- do the two operators anticommute?  (symplectic form `x·z' + z·x'` over F2) -/
def acomm (a b : MP) : Bool := par ((a.x &&& b.z) ^^^ (a.z &&& b.x))

/-- product, phase included: `X^x Z^z X^x' Z^z' = (-1)^{z·x'} X^{x+x'} Z^{z+z'}`. -/
def mul (a b : MP) : MP :=
  ⟨(a.k + b.k + 2 * (par (a.z &&& b.x)).toNat) % 4, a.x ^^^ b.x, a.z ^^^ b.z⟩

/-- per-qubit symbol (I=0 X=1 Y=2 Z=3) -/
def sym (p : MP) (q : Nat) : Nat :=
  match p.x.testBit q, p.z.testBit q with
  | false, false => 0 | true, false => 1 | true, true => 2 | false, true => 3

def syms (n : Nat) (p : MP) : List Nat := (List.range n).map p.sym

/-- number of `Y` factors among the first `n` qubits -/
def numY (n : Nat) (p : MP) : Nat := ((List.range n).filter fun q => p.x.testBit q && p.z.testBit q).length

/-- exponent `e` of the scalar in `i^e · σ_{s_0} ⊗ … ⊗ σ_{s_{n-1}}` (because `XZ = -iY`) -/
def strPhase (n : Nat) (p : MP) : Nat := (p.k + 3 * p.numY n) % 4

def weight (n : Nat) (p : MP) : Nat := ((List.range n).filter fun q => p.x.testBit q || p.z.testBit q).length

/-- a (qubit, symbol) list ↦ operator `⊗ σ`, sign `+1` (`Y = iXZ`) -/
def ofSparse : List (Nat × Nat) → MP
  | [] => one
  | (q, s) :: l =>
      let p := ofSparse l
      ⟨if s == 2 then (p.k + 1) % 4 else p.k,
       if s == 1 || s == 2 then p.x ||| bit q else p.x,
       if s == 2 || s == 3 then p.z ||| bit q else p.z⟩

/-- a full string of symbols (qubit 0 first) ↦ operator, sign `+1` -/
def ofSyms (l : List Nat) : MP := ofSparse ((List.range l.length).zip l)

/-- evaluate the three fields once (kernel evaluation) -/
def force {α : Type} (p : MP) (f : MP → α) : α :=
  forceNat p.k fun k => forceNat p.x fun x => forceNat p.z fun z => f ⟨k, x, z⟩

def forceList {α : Type} : List MP → (List MP → α) → α
  | [], f => f []
  | g :: gs, f => force g fun g' => forceList gs fun r => f (g' :: r)

end MP

/-! ### tableau propagation `P ↦ G P G†` -/

abbrev tb (m q : Nat) : Bool := m.testBit q
def flipIf (c : Bool) (m q : Nat) : Nat := if c then m ^^^ bit q else m

/-- conjugation of `i^k X^x Z^z` by one gate.  `none` for `unknown` / control = target. -/
def conj1 (p : MP) : Gate → Option MP
  | .h q =>
      let xb := tb p.x q; let zb := tb p.z q
      some ⟨(p.k + 2 * (xb && zb).toNat) % 4, flipIf (xb != zb) p.x q, flipIf (xb != zb) p.z q⟩
  | .x q => some ⟨(p.k + 2 * (tb p.z q).toNat) % 4, p.x, p.z⟩
  | .z q => some ⟨(p.k + 2 * (tb p.x q).toNat) % 4, p.x, p.z⟩
  | .y q => some ⟨(p.k + 2 * (tb p.x q).toNat + 2 * (tb p.z q).toNat) % 4, p.x, p.z⟩
  | .s q => some ⟨(p.k + (tb p.x q).toNat) % 4, p.x, flipIf (tb p.x q) p.z q⟩
  | .cx c t =>
      if c == t then none else
      some ⟨p.k % 4, flipIf (tb p.x c) p.x t, flipIf (tb p.z t) p.z c⟩
  | .cz c t =>
      if c == t then none else
      some ⟨(p.k + 2 * (tb p.x c && tb p.x t).toNat) % 4, p.x, flipIf (tb p.x c) (flipIf (tb p.x t) p.z c) t⟩
  | .cy c t =>
      if c == t then none else
      -- CY = S_t · CX · S_t†,  S† = S·Z
      let xt := tb p.x t
      -- S_t† P S_t : X ↦ -Y = i^3 X Z
      let k1 := (p.k + 3 * xt.toNat) % 4
      let z1 := flipIf xt p.z t
      -- CX
      let x2 := flipIf (tb p.x c) p.x t
      let z2 := flipIf (tb z1 t) z1 c
      -- S_t
      let xt2 := tb x2 t
      some ⟨(k1 + xt2.toNat) % 4, x2, flipIf xt2 z2 t⟩
  | .unknown => none

def conjCirc (p : MP) : List Gate → Option MP
  | [] => some p
  | g :: gs => match conj1 p g with
    | some p' => conjCirc p' gs
    | none => none

/-- number of logical qubits: `K = 2^logK` for the shipped codes -/
def Code.logK (c : Code) : Nat := Nat.log2 c.K

def allSome {α : Type} : List (Option α) → Option (List α)
  | [] => some []
  | none :: _ => none
  | some a :: l => match allSome l with
    | some r => some (a :: r)
    | none => none

/-- stabilizer generators `S_j = U Z_j U†`, `j < n - log2 K` (the qubits fed with `|0⟩`:
`generate_code_np` sets `q0[ind0] = 1` for the flat index `ind0 < K`, so the *last* `log2 K` qubits
carry the logical index). -/
def gens (c : Code) : Option (List MP) :=
  allSome ((List.range (c.n - c.logK)).map fun j => conjCirc ⟨0, 0, bit j⟩ c.encode)

/-- logical `Z̄_l = U Z_{n-k+l} U†`, `l < k = log2 K` -/
def zbars (c : Code) : Option (List MP) :=
  allSome ((List.range c.logK).map fun l => conjCirc ⟨0, 0, bit (c.n - c.logK + l)⟩ c.encode)

/-- logical `X̄_l = U X_{n-k+l} U†` -/
def xbars (c : Code) : Option (List MP) :=
  allSome ((List.range c.logK).map fun l => conjCirc ⟨0, bit (c.n - c.logK + l), 0⟩ c.encode)

/-- all products of sub-multisets of the generators, phases included -/
def span : List MP → List MP
  | [] => [MP.one]
  | g :: gs => let r := span gs; r ++ r.map fun s => MP.mul g s

/-! ### state vectors

A vector is a function `position → amplitude`; the basis state `|b_0 … b_{n-1}⟩` has position
`Σ b_q 2^q` (qubit `q` = bit `q`, the convention of the `MP` masks).  numpy's flat index (qubit 0 most
significant) is the bit reversal, `posOfIdx`.  Everything is generic in the scalar type `α` with an
element `I` (`I² = -1`): the driver runs it at `GInt`, the theorems hold over any commutative ring.
`H` is `[[1,1],[1,-1]]`, i.e. the true vector is `(1/√2)^{#H} ·` the model vector. -/

section Vec
variable {α : Type} [Add α] [Sub α] [Neg α] [Mul α] [Zero α] [One α]

/-- `I^k` -/
def ipow (I : α) : Nat → α
  | 0 => 1
  | k + 1 => ipow I k * I

/-- flip bit `q` of a position -/
def fl (i q : Nat) : Nat := i ^^^ bit q

/-- model of one step of `Circuit.apply_state` (`sim/circuit.py:488-510`, `sim.state.apply_gate`,
`apply_control_n_gate`): the 2×2 matrix of the gate acts on the target qubit (where the control is 1):
`(G v)(i) = Σ_c G[i_q, c] · v(i with bit q := c)`. -/
def applyGate (I : α) (g : Gate) (v : Nat → α) : Nat → α :=
  match g with
  | .h q => fun i => if tb i q then v (fl i q) - v i else v i + v (fl i q)
  | .x q => fun i => v (fl i q)
  | .y q => fun i => if tb i q then I * v (fl i q) else -(I * v (fl i q))
  | .z q => fun i => if tb i q then -(v i) else v i
  | .s q => fun i => if tb i q then I * v i else v i
  | .cx c t => fun i => if tb i c then v (fl i t) else v i
  | .cy c t => fun i => if tb i c then (if tb i t then I * v (fl i t) else -(I * v (fl i t))) else v i
  | .cz c t => fun i => if tb i c && tb i t then -(v i) else v i
  | .unknown => v

/-- the circuit: gates applied in list order -/
def run (I : α) : List Gate → (Nat → α) → Nat → α
  | [], v => v
  | g :: gs, v => run I gs (applyGate I g v)

/-- basis vector at a position -/
def basisVec (p : Nat) : Nat → α := fun i => if i == p then 1 else 0

/-- `(P v)(i') = I^{k + 2 z·i} v(i)`, `i = i' ⊕ x`  (the operator `i^k X^x Z^z`). -/
def pauliAct (I : α) (p : MP) (v : Nat → α) : Nat → α :=
  fun i' => let i := i' ^^^ p.x; ipow I (p.k + 2 * (par (p.z &&& i)).toNat) * v i

end Vec

/-- position (qubit `q` = bit `q`) of numpy's flat index (qubit 0 most significant) -/
def posOfIdx : Nat → Nat → Nat
  | 0, _ => 0
  | n + 1, idx => 2 * posOfIdx n (idx % 2 ^ n) + idx / 2 ^ n

/-- model of `generate_code_np(circ, K)[a]` (`_internal.py:137-146`): the image of the basis state
with flat index `a` (`q0[ind0] = 1`), scaled by `√2^{#H}`. -/
def codeword {α : Type} [Add α] [Sub α] [Neg α] [Mul α] [Zero α] [One α] (I : α) (c : Code) (a : Nat) : Nat → α :=
  run I c.encode (basisVec (posOfIdx c.n a))

def countH (gs : List Gate) : Nat := (gs.filter fun g => match g with | .h _ => true | _ => false).length

/-! ### error sets -/

/-- `itertools.combinations(l, k)` in its order -/
def combs {α : Type} : List α → Nat → List (List α)
  | _, 0 => [[]]
  | [], _ + 1 => []
  | a :: l, k + 1 => (combs l k).map (a :: ·) ++ combs l (k + 1)

/-- `itertools.product([X,Y,Z], repeat=w)` in its order (symbols 1,2,3) -/
def prods : Nat → List (List Nat)
  | 0 => [[]]
  | w + 1 => [1, 2, 3].flatMap fun o => (prods w).map (o :: ·)

/-- `make_error_list(num_qubit, distance)` (`_internal.py:12-31`), default `op_list`:
for weight in 1..d-1, for qubits in combinations, for gates in product. -/
def errorList (n d : Nat) : List (List (Nat × Nat)) :=
  (List.range (d - 1)).flatMap fun w =>
    (combs (List.range n) (w + 1)).flatMap fun qs =>
      (prods (w + 1)).map fun gs => qs.zip gs

/-- `hf_split_element(l, counts)` (`_internal.py:34-58`): ordered tuples of disjoint index sets of
the given sizes, each set chosen by `combinations` from what is left. -/
def split : List Nat → List Nat → List (List (List Nat))
  | _, [] => [[]]
  | l, c :: rest =>
      (combs l c).flatMap fun s => (split (l.filter fun i => !s.contains i) rest).map (s :: ·)

/-- `⌈a / b⌉` for `b > 0` -/
def ceilDiv (a b : Nat) : Nat := (a + b - 1) / b

/-- `make_asymmetric_error_set` (`_internal.py:61-78`, after fix b728c8a: `nxy` ranges over
`range(min(num_qubit+1, distance))`) with the bound `tmp0` on the number of Z's left abstract:
`bound nxy` stands for `int(np.ceil((distance-nxy)/weight_z))`. -/
def asymErrorSetB (n d : Nat) (bound : Nat → Nat) : List (List (Nat × Nat)) :=
  (List.range (min (n + 1) d)).flatMap fun nxy =>
    (List.range (min (n - nxy + 1) (bound nxy))).flatMap fun nz =>
      if nxy == 0 && nz == 0 then [] else
      (List.range (nxy + 1)).flatMap fun nx =>
        let ny := nxy - nx
        (split (List.range n) [nx, ny, nz]).map fun ss =>
          match ss with
          | [ix, iy, iz] => ix.map (·, 1) ++ iy.map (·, 2) ++ iz.map (·, 3)
          | _ => []

/-- `make_asymmetric_error_set(num_qubit, distance, weight_z = p/q)` in exact arithmetic:
`tmp0 = ⌈(d - nxy)·q / p⌉`. -/
def asymErrorSet (n d p q : Nat) : List (List (Nat × Nat)) :=
  asymErrorSetB n d fun nxy => ceilDiv ((d - nxy) * q) p

/-! #### the bound as the implementation computes it: binary64 division, then `ceil` -/

/-- `2^t` for an integer exponent -/
def ratTwoPow (t : Int) : Rat :=
  match t with
  | .ofNat k => ((2 ^ k : Nat) : Int)
  | .negSucc k => 1 / (((2 ^ (k + 1) : Nat) : Int) : Rat)

/-- nearest integer, ties to even -/
def roundHalfEven (r : Rat) : Int :=
  let f := r.floor
  let d := r - f
  if d < 1 / 2 then f else if 1 / 2 < d then f + 1 else if f % 2 = 0 then f else f + 1

/-- exponent `t` with `2^52 ≤ r·2^t < 2^53` for `r > 0` (from the bit lengths of numerator and denominator) -/
def f64Shift (r : Rat) : Int :=
  let e0 : Int := (Nat.log2 r.num.natAbs : Int) - (Nat.log2 r.den : Int)
  -- 2^e0 / 2 < r < 2^e0 * 2
  let e : Int := if ratTwoPow e0 ≤ r then e0 else e0 - 1
  52 - e

/-- round a positive rational to the nearest binary64 (normal range, no overflow): IEEE 754 round-to-nearest-even -/
def f64Round (r : Rat) : Rat :=
  if r ≤ 0 then 0 else
  let t := f64Shift r
  (roundHalfEven (r * ratTwoPow t) : Rat) / ratTwoPow t

/-- `-(⌊-r⌋)` -/
def ratCeil (r : Rat) : Int := -((-r).floor)

/-- `int(np.ceil(a / w))` for an integer `a` and the binary64 number `w > 0` given by its bit pattern:
the quotient is the correctly rounded binary64 division (`a` is exactly representable), `ceil` is exact. -/
def fceilDiv (a : Nat) (wBits : Nat) : Nat :=
  (ratCeil (f64Round (((a : Int) : Rat) / ratOfFloatBits wBits))).toNat

/-- `make_asymmetric_error_set(num_qubit, distance, weight_z)` for a binary64 `weight_z` (bit pattern) -/
def asymErrorSetF (n d wBits : Nat) : List (List (Nat × Nat)) :=
  asymErrorSetB n d fun nxy => fceilDiv (d - nxy) wBits

/-- canonical form of an error given as (qubit, symbol) list: the string of `n` symbols -/
def sparseToSyms (n : Nat) (l : List (Nat × Nat)) : List Nat :=
  (List.range n).map fun q => match l.find? (fun qs => qs.1 == q) with
    | some qs => qs.2
    | none => 0

/-! ### specification of the asymmetric error set -/

/-- `nx + ny + (p/q)·nz < d` and not the identity, for a string of symbols (I=0 X=1 Y=2 Z=3) -/
def asymCond (d p q : Nat) (l : List Nat) : Bool :=
  let nxy := (l.filter fun s => s == 1 || s == 2).length
  let nz := (l.filter (· == 3)).length
  (nxy + nz != 0) && decide (nxy * q + nz * p < d * q)

/-! ### per-code obligations (tableau level, evaluated in the kernel) -/

def symsOk (n : Nat) (l : List Nat) : Bool := l.length == n && l.all (· < 4)

/-- shape of the code data: gates well-formed, `K = 2^k`, `k ≤ n ≤ 32`, `n - k` generators -/
def shapeCheck (c : Code) : Bool :=
  c.encode.all (gateOk c.n) && 2 ^ c.logK == c.K && c.logK ≤ c.n && c.n ≤ 32 && 1 < c.d

def klOne (gs sp : List MP) (p : MP) : Bool :=
  MP.force p fun p => gs.any (fun g => MP.acomm g p) || sp.any (fun s => s.x == p.x && s.z == p.z)

/-- classification of one error against the generators: `a` anticommutes with one of them,
`0..3` equals `i^e ·` (a product of generators), `F` neither (so `klOne = (klClass ≠ 'F')`, lemma `klOne_eq_klClass`) -/
def klClass (gs sp : List MP) (p : MP) : Char :=
  if gs.any (fun g => MP.acomm g p) then 'a' else
  match sp.find? (fun s => s.x == p.x && s.z == p.z) with
  | some s => "0123".toList.getD ((p.k + 4 - s.k % 4) % 4) '?'
  | none => 'F'

/-- Knill–Laflamme on the Pauli level: every error of weight `1..d-1` (model of `make_error_list`)
anticommutes with some generator `S_j = U Z_j U†` or equals a product of generators up to a phase. -/
def klCheck (c : Code) : Bool :=
  shapeCheck c &&
  match gens c with
  | none => false
  | some gs => MP.forceList gs fun gs => MP.forceList (span gs) fun sp =>
      gs.all (fun g => g.x < 2 ^ c.n) &&
      (errorList c.n c.d).all fun e => klOne gs sp (MP.ofSparse e)

/-- every listed Pauli string is, with sign `+1`, a product of the generators `S_j` -/
def listedCheck (c : Code) : Bool :=
  shapeCheck c && !c.listed.isEmpty &&
  match gens c with
  | none => false
  | some gs => MP.forceList (span gs) fun sp =>
      c.listed.all fun l => symsOk c.n l && MP.force (MP.ofSyms l) fun p => sp.any (fun s => s == p)

/-- the operator implemented by a circuit made of X/Y/Z gates only (`none` otherwise):
the circuit `g_1, …, g_m` is the operator `g_m ⋯ g_1`. -/
def circPauli (n : Nat) : List Gate → Option MP
  | [] => some MP.one
  | g :: gs =>
      let p := match g with
        | .x q => if q < n then some (MP.ofSparse [(q, 1)]) else none
        | .y q => if q < n then some (MP.ofSparse [(q, 2)]) else none
        | .z q => if q < n then some (MP.ofSparse [(q, 3)]) else none
        | _ => none
      match p, circPauli n gs with
      | some p, some r => some (MP.mul r p)
      | _, _ => none

/-- each shipped stabilizer circuit is exactly its listed Pauli string (as an operator, sign `+1`) -/
def stabCircImplCheck (c : Code) : Bool :=
  c.n ≤ 32 && !c.listed.isEmpty && c.stabCircs.length == c.listed.length &&
  (c.stabCircs.zip c.listed).all fun cl =>
    symsOk c.n cl.2 && match circPauli c.n cl.1 with
    | some p => p == MP.ofSyms cl.2
    | none => false

/-- the product of the sub-family selected by the binary digits of `mask` (digit `j` ↔ `ps[j]`) -/
def subsetProd : List MP → Nat → MP
  | [], _ => MP.one
  | p :: ps, mask => if mask % 2 == 1 then MP.mul p (subsetProd ps (mask / 2)) else subsetProd ps (mask / 2)

/-- no non-empty sub-product of `ps` is a scalar multiple of the identity (`X`- and `Z`-part both zero):
the operators are independent in the Pauli group modulo phases -/
def independent (ps : List MP) : Bool :=
  (List.range (2 ^ ps.length)).all fun mask => mask == 0 || MP.force (subsetProd ps mask) fun r => r.x != 0 || r.z != 0

/-- the listed Pauli strings are independent and at most `n - log2 K` in number.  With `listedCheck` (each one is a
product of the `n - log2 K` generators `S_j = U Z_j U†`) they generate a subgroup of order `2^(number listed)` of the
stabilizer group — the whole group exactly when `n - log2 K` strings are listed (the number listed per shipped code is
pinned in `NumqiProps/C19Coverage.lean`; ((6,4,2)) and ((8,8,3)) list 2 of 4 and 4 of 5). -/
def listedIndepCheck (c : Code) : Bool :=
  2 ^ c.logK == c.K && c.logK ≤ c.n && c.listed.length ≤ c.n - c.logK && c.listed.all (symsOk c.n) &&
  MP.forceList (c.listed.map MP.ofSyms) fun ps => independent ps

/-! ### vector-level evaluations (driver) -/

/-- amplitudes in numpy order (flat index, qubit 0 most significant) -/
def ampsOf (n : Nat) (v : Nat → GInt) : Array GInt :=
  ((List.range (2 ^ n)).map fun idx => v (posOfIdx n idx)).toArray

/-- amplitudes by position -/
def tabulate (n : Nat) (v : Nat → GInt) : Array GInt :=
  ((List.range (2 ^ n)).map v).toArray

def ofArray (a : Array GInt) : Nat → GInt := fun i => a.getD i 0

/-- `run`, tabulating after every gate (same function on positions `< 2^n`, cheap to evaluate) -/
def runTab (n : Nat) : List Gate → Array GInt → Array GInt
  | [], a => a
  | g :: gs, a => runTab n gs (tabulate n (applyGate GInt.I g (ofArray a)))

def codewordTab (c : Code) (a : Nat) : Array GInt :=
  runTab c.n c.encode (tabulate c.n (basisVec (posOfIdx c.n a)))

def pauliTab (n : Nat) (p : MP) (a : Array GInt) : Array GInt :=
  tabulate n (pauliAct GInt.I p (ofArray a))

def gnormSq (a : GInt) : Int := a.re * a.re + a.im * a.im

/-- all strings of `n` symbols -/
def allSyms : Nat → List (List Nat)
  | 0 => [[]]
  | n + 1 => [0, 1, 2, 3].flatMap fun s => (allSyms n).map (s :: ·)

def symWeight (l : List Nat) : Nat := (l.filter (· != 0)).length

/-! ### weight enumerators (`quantum_weight_enumerator`, `_internal.py:99-127`)

Generic in the scalar type (`Conj α` is complex conjugation): the driver runs it at `GInt` on the tabulated
code words, the theorems instantiate `conj := star`. -/

section Enum
variable {α : Type} [Add α] [Sub α] [Neg α] [Mul α] [Zero α] [One α] [Conj α]

def sumL (l : List α) : α := l.foldr (· + ·) 0

/-- the first `2^n` amplitudes as a list -/
def vecL (n : Nat) (u : Nat → α) : List α := (List.range (2 ^ n)).map u

/-- `Σ conj(x_i) y_i` -/
def dotL (x y : List α) : α := sumL (List.zipWith (fun a b => conj a * b) x y)

/-- `Σ_{i<2^n} conj(u_i) v_i` (`code_conj @ q0.T`, one entry) -/
def ipL (n : Nat) (u v : Nat → α) : α := dotL (vecL n u) (vecL n v)

/-- `tmp0[a,b] = ⟨c_a| P |c_b⟩` -/
def matEl (I : α) (n : Nat) (p : MP) (u v : Nat → α) : α := ipL n u (pauliAct I p v)

/-- the two increments for one Pauli operator: `(|trace(tmp0)|², vdot(tmp0, tmp0))`, `tmp0[a,b] = matEl a b`
(the images `P c_b` are listed once per operator) -/
def enumTerm (I : α) (n : Nat) (cw : List (Nat → α)) (p : MP) : α × α :=
  let us := cw.map (vecL n)
  let imgs := cw.map fun b => vecL n (pauliAct I p b)
  let tr := sumL ((us.zip imgs).map fun ui => dotL ui.1 ui.2)
  (conj tr * tr, sumL (us.map fun u => sumL (imgs.map fun im => let m := dotL u im; conj m * m)))

/-- the operators of weight `w + 1` in the order of the two generators
(`combinations(range(n), weight)` × `product([X,Y,Z], repeat=weight)`) -/
def enumOps (n w : Nat) : List MP :=
  (combs (List.range n) (w + 1)).flatMap fun qs => (prods (w + 1)).map fun gs => MP.ofSparse (qs.zip gs)

/-- `(retA[w], retB[w])` before the final division by `K²` resp. `K`: sums over the operators of weight `w + 1` -/
def enumLevel (I : α) (n : Nat) (cw : List (Nat → α)) (w : Nat) : α × α :=
  let ts := (enumOps n w).map (enumTerm I n cw)
  (sumL (ts.map (·.1)), sumL (ts.map (·.2)))

/-- model of `quantum_weight_enumerator(code)`: entry `w` is `(K²·A_{w+1}, K·B_{w+1})` for `w = 0..n-1`
(weight 0 is left out by the implementation; with vectors scaled by `√2^h` there is an extra factor `4^h`) -/
def weightEnum (I : α) (n : Nat) (cw : List (Nat → α)) : List (α × α) :=
  (List.range n).map (enumLevel I n cw)

end Enum

/-! ### Knill–Laflamme loss (`knill_laflamme_loss`, `_varqec.py:10-29`)

`inner_product[e, a, b]` for `e < E`, `a, b < K` as a function into the Gaussian rationals.  The loss is
`Σ_e Σ_{a<b} h(|M_e[a,b]|) + Σ_e Σ_a h(|M_e[a,a] - mean_a M_e[a,a]|)` with `h = id` (`'L1'`) or `h = (·)²` (`'L2'`):
only the strict upper triangle enters (`np.triu(…, k=1)`). -/

def QI.divNat (a : QI) (k : Nat) : QI := ⟨a.re / (k : Int), a.im / (k : Int)⟩

def sumQI (l : List QI) : QI := l.foldr (· + ·) 0

/-- `tmp1.mean(axis=1)`: mean of the diagonal of the `e`-th matrix -/
def klMean (K : Nat) (M : Nat → Nat → Nat → QI) (e : Nat) : QI :=
  QI.divNat (sumQI ((List.range K).map fun a => M e a a)) K

/-- `|M_e[a,b]|²` for the strict upper triangle, all `e` -/
def klOffTerms (E K : Nat) (M : Nat → Nat → Nat → QI) : List Rat :=
  (List.range E).flatMap fun e => (List.range K).flatMap fun a =>
    ((List.range K).filter fun b => a < b).map fun b => QI.normSq (M e a b)

/-- `|M_e[a,a] - mean_e|²`, all `e`, `a` -/
def klDiagTerms (E K : Nat) (M : Nat → Nat → Nat → QI) : List Rat :=
  (List.range E).flatMap fun e => (List.range K).map fun a => QI.normSq (M e a a - klMean K M e)

/-- `knill_laflamme_loss(inner_product, kind='L2')` -/
def klLossL2 (E K : Nat) (M : Nat → Nat → Nat → QI) : Rat :=
  (klOffTerms E K M).foldr (· + ·) 0 + (klDiagTerms E K M).foldr (· + ·) 0

/-- for `kind='L1'` the loss is `Σ √t` over these terms (the square roots are taken outside the model) -/
def klLossL1Radicands (E K : Nat) (M : Nat → Nat → Nat → QI) : List Rat :=
  klOffTerms E K M ++ klDiagTerms E K M

/-! ### `parse_simple_pauli` (`_qecc.py:24-45`)

Two input forms: a full word over `XYZI` (no digit anywhere) and the indexed form `X0Y2X13` (regex
`([XYZI][0-9]+)+` matching the whole string).  Result: the list `tmp0` of (symbol, qubit) pairs, here as
(qubit, symbol) with I=0 X=1 Y=2 Z=3.  In the full form the `I` letters are dropped, in the indexed form they are
kept (the circuit builder skips them; the `tag_circuit=False` table lookup raises `KeyError` on them). -/

def pauliSym? (c : Char) : Option Nat :=
  if c == 'I' then some 0 else if c == 'X' then some 1 else if c == 'Y' then some 2 else if c == 'Z' then some 3 else none

def isDigitC (c : Char) : Bool := '0' ≤ c && c ≤ '9'

def digitVal (c : Char) : Nat := c.toNat - '0'.toNat

/-- `int(digits)` -/
def natOfDigits (ds : List Char) : Nat := ds.foldl (fun acc c => acc * 10 + digitVal c) 0

/-- split off the maximal prefix of digits -/
def spanDigits : List Char → List Char × List Char
  | [] => ([], [])
  | c :: cs => if isDigitC c then let r := spanDigits cs; (c :: r.1, r.2) else ([], c :: cs)

/-- the indexed form: tokens `[XYZI][0-9]+` covering the whole string (`fuel` ≥ length) -/
def parseIndexedAux : Nat → List Char → Option (List (Nat × Nat))
  | _, [] => some []
  | 0, _ :: _ => none
  | fuel + 1, c :: cs =>
      match pauliSym? c with
      | none => none
      | some s =>
          let r := spanDigits cs
          if r.1.isEmpty then none else
          match parseIndexedAux fuel r.2 with
          | some rest => some ((natOfDigits r.1, s) :: rest)
          | none => none

/-- the full form: every character in `XYZI`; `I`s dropped, qubit = position -/
def parseFullAux : Nat → List Char → Option (List (Nat × Nat))
  | _, [] => some []
  | q, c :: cs =>
      match pauliSym? c, parseFullAux (q + 1) cs with
      | some s, some rest => some (if s == 0 then rest else (q, s) :: rest)
      | _, _ => none

/-- `tmp0` of `parse_simple_pauli(str0)`; `none` = `AssertionError`.  The indexed form needs at least one token
(`re.match('(…)+')`); a string without digits is the full form (the empty string gives the empty list). -/
def parseSimplePauli (str0 : List Char) : Option (List (Nat × Nat)) :=
  if str0.any isDigitC then
    match parseIndexedAux str0.length str0 with
    | some [] => none
    | r => r
  else parseFullAux 0 str0

/-- what the circuit builder keeps (`tag_circuit=True`): the `I` tokens are skipped -/
def pauliTokensCircuit (l : List (Nat × Nat)) : List (Nat × Nat) := l.filter fun qs => qs.2 != 0

/-- `tag_circuit=False`: `none` = `KeyError: 'I'` when an `I` token survives (indexed form only) -/
def pauliTokensTable (l : List (Nat × Nat)) : Option (List (Nat × Nat)) :=
  if l.any (fun qs => qs.2 == 0) then none else some l

/-! ### `make_error_list(tag_full=True)` (`_internal.py:21-30`)

For each generated error the Kronecker product of `num_qubit` 2×2 matrices (identity except at the listed qubits):
entry `(r, c)` as an exponent of `i` (`none` = 0), through C08's model of `sign · kron(factors)` applied to the
error's string with sign `+1`. -/

/-- the dense matrix of the string `syms` (sign `+1`), entry `(b', b)` for basis states given as bit vectors -/
def denseEntry (n : Nat) (syms : List Nat) (b' b : Bits n) : Option Nat :=
  Pauli.fullMatrixExp (Pauli.ofStr n syms 0) b' b

/-- the strings of `make_error_list(n, d, tag_full=True)`, in order; entry `(b', b)` of the `j`-th matrix is
`denseEntry n (errorListFull n d)[j] b' b` -/
def errorListFull (n d : Nat) : List (List Nat) := (errorList n d).map (sparseToSyms n)

/-! ### `Circuit.shift_qubit_index_` and `VarQEC` (`sim/circuit.py:468-486`, `_varqec.py:80-106`) -/

/-- `shift_qubit_index_(delta)`, `delta ≥ 0`: every qubit index of a unitary / control entry moves up by `delta` -/
def Gate.shift (k : Nat) : Gate → Gate
  | .h q => .h (q + k) | .x q => .x (q + k) | .y q => .y (q + k) | .z q => .z (q + k) | .s q => .s (q + k)
  | .cx c t => .cx (c + k) (t + k) | .cy c t => .cy (c + k) (t + k) | .cz c t => .cz (c + k) (t + k)
  | .unknown => .unknown

/-- the same with a signed `delta`: indices as integers (the implementation stores negative indices as they come) -/
def Gate.shiftInt (k : Int) : Gate → String × List Int
  | .h q => ("h", [q + k]) | .x q => ("x", [q + k]) | .y q => ("y", [q + k]) | .z q => ("z", [q + k]) | .s q => ("s", [q + k])
  | .cx c t => ("cx", [c + k, t + k]) | .cy c t => ("cy", [c + k, t + k]) | .cz c t => ("cz", [c + k, t + k])
  | .unknown => ("unknown", [])

/-- `⌈log2 K⌉` (`hf_num_state_to_num_qubit(K, kind='ceil')`) -/
def ceilLog2 (K : Nat) : Nat := if K ≤ 1 then 0 else Nat.log2 (K - 1) + 1

section VarQEC
variable {α : Type} [Add α] [Sub α] [Neg α] [Mul α] [Zero α] [One α]

/-- `VarQEC._run_circuit`: the `(2^kl, 2^n)` array with `q0[a, a] = 1` for `a < K`, flattened; the logical register
is qubits `0..kl-1` (low bits of the position), the encoder register qubits `kl..kl+n-1`. -/
def varqecInit (n kl K : Nat) : Nat → α := fun pos =>
  if (List.range K).any (fun a => pos == posOfIdx kl a + 2 ^ kl * posOfIdx n a) then 1 else 0

/-- row `a` of `VarQEC.get_code()`: the shifted encoder applied to the flattened array, sliced at logical value `a` -/
def varqecCode (I : α) (c : Code) (K a : Nat) : Nat → α := fun hi =>
  let kl := ceilLog2 K
  run I (c.encode.map (Gate.shift kl)) (varqecInit c.n kl K) (posOfIdx kl a + 2 ^ kl * hi)

end VarQEC

/-! ### `parse_str_qecc` (`_qecc.py:6-21`), `make_error_list(op_list=…)`, `degeneracy` (`_internal.py:81-96`) -/

/-- split at the first occurrence of `c` (`str.split(c, 1)`): `none` if `c` does not occur -/
def splitFirst (c : Char) : List Char → Option (List Char × List Char)
  | [] => none
  | x :: xs => if x == c then some ([], xs) else
      match splitFirst c xs with
      | some r => some (x :: r.1, r.2)
      | none => none

/-- a non-empty string of ASCII digits as a natural number (the only form of `int(…)` modelled) -/
def natOfString? (l : List Char) : Option Nat :=
  if l.isEmpty || !l.all isDigitC then none else some (natOfDigits l)

/-- `digits[.digits]` as an exact rational `(numerator, denominator)` (the only form of `float(…)` modelled) -/
def decimalOfString? (l : List Char) : Option (Nat × Nat) :=
  match splitFirst '.' l with
  | none => (natOfString? l).map fun a => (a, 1)
  | some (ip, fp) =>
      if ip.isEmpty || fp.isEmpty || !ip.all isDigitC || !fp.all isDigitC then none
      else some (natOfDigits (ip ++ fp), 10 ^ fp.length)

/-- `parse_str_qecc`: `((n,K,d))` ↦ `(n, K, none, d)`, `((n,K,de(w)=d))` ↦ `(n, K, some w, d)`; `none` = rejected
(`AssertionError` / `ValueError` / `IndexError` of the implementation, not distinguished) -/
def parseStrQecc (s : List Char) : Option (Nat × Nat × Option (Nat × Nat) × Nat) :=
  if s.length < 4 || s.take 2 != ['(', '('] || (s.drop (s.length - 2)) != [')', ')'] then none else
  let body := (s.drop 2).take (s.length - 4)
  match splitFirst ',' body with
  | none => none
  | some (a, rest) =>
    match splitFirst ',' rest with
    | none => none
    | some (b, c) =>
      match natOfString? a, natOfString? b with
      | some n, some K =>
        if c.contains '=' then
          match splitFirst '(' c with
          | none => none
          | some (_, afterParen) =>
            match splitFirst ')' afterParen, splitFirst '=' c with
            | some (w, _), some (_, dstr) =>
              match decimalOfString? w, natOfString? dstr with
              | some wq, some d => some (n, K, some wq, d)
              | _, _ => none
            | _, _ => none
        else (natOfString? c).map fun d => (n, K, none, d)
      | _, _ => none

/-- `itertools.product(op_list, repeat=w)` for an arbitrary list of symbols -/
def prodsOf (ops : List Nat) : Nat → List (List Nat)
  | 0 => [[]]
  | w + 1 => ops.flatMap fun o => (prodsOf ops w).map (o :: ·)

/-- `make_error_list(n, d, op_list=ops)` -/
def errorListOps (n d : Nat) (ops : List Nat) : List (List (Nat × Nat)) :=
  (List.range (d - 1)).flatMap fun w =>
    (combs (List.range n) (w + 1)).flatMap fun qs =>
      (prodsOf ops (w + 1)).map fun gs => qs.zip gs

section Degeneracy
variable {α : Type} [Add α] [Sub α] [Neg α] [Mul α] [Zero α] [One α] [Conj α]

/-- the matrix handed to `eigvalsh` by `degeneracy(code_i)`: `mat[i,j] = ⟨E_i c|E_j c⟩` over the weight-1 errors of
`make_error_list(n, 2)` followed by the identity -/
def degeneracyGram (I : α) (n : Nat) (v : Nat → α) : List (List α) :=
  let errs := (errorList n 2).map MP.ofSparse ++ [MP.one]
  let imgs := errs.map fun p => vecL n (pauliAct I p v)
  imgs.map fun x => imgs.map fun y => dotL x y

end Degeneracy

/-- the tabulated model code words as functions (driver) -/
def codewordFns (c : Code) : List (Nat → GInt) :=
  -- the arrays are materialised first, so that every closure captures an evaluated array
  let arrs := (List.range c.K).map (codewordTab c)
  arrs.map ofArray

end Numqi.Qec
