/-
C10 (validity half): the *final normalisation steps* of the generators of `numqi/random/_internal.py`, written once against
operation-only classes.  No Mathlib import.  `Driver/C10.lean` executes them on binary64 complex numbers (`CFl`) with the raw
draws and the LAPACK intermediates (`qr`, `eigh`, `inv` outputs) captured from the real generator; `NumqiProps/C10.lean` states the
validity theorems about these same constants at `K = ℂ`, with the LAPACK routines as hypotheses.

Vectors are `Nat → K`, matrices `Nat → Nat → K` (row, column), sizes are explicit.
-/
import NumqiModel.Scalar
import NumqiModel.FinGroup
import NumqiModel.Gellmann

namespace Numqi.RandNorm
open Numqi (Conj conj)

/-- the non-ring operations the normalisation steps use (`K` plays the role of ℂ; reals are the elements with zero imaginary part) -/
class RandOps (K : Type) where
  /-- `np.sqrt(x)` of a non-negative real -/
  rsqrt : K → K
  /-- `1/np.sqrt(np.maximum(0, x))` -/
  invSqrt0 : K → K
  /-- `x ** (1/n)` -/
  rootN : K → Nat → K
  /-- `np.sign(x.real)` with `0 ↦ 1` (`tmp0[tmp0==0] = 1`) -/
  sgn1 : K → K

export RandOps (rsqrt invSqrt0 rootN sgn1)

variable {K : Type} [Zero K] [One K] [Add K] [Mul K] [Div K] [Conj K] [RandOps K]

/-- `Σ_{i<n} f i`, left to right -/
def sumR (n : Nat) (f : Nat → K) : K := ((List.range n).map f).sum

/-- `‖v‖² = Σ v_i conj(v_i)` -/
def normSq (n : Nat) (v : Nat → K) : K := sumR n fun j => v j * conj (v j)

/-- `ret /= np.linalg.norm(ret)` — last line of `rand_haar_state` (`_internal.py:41`), `rand_n_sphere` (`:470`), `tmp2 /= norm(tmp2)` in
`rand_bipartite_state` (`:231`) -/
def normalize (n : Nat) (v : Nat → K) (i : Nat) : K := v i / rsqrt (normSq n v)

/-- `rand_n_ball` (`_internal.py:505-508`): `tmp0 /= norm; tmp1 = uniform ** (1/dim); tmp0 * tmp1` -/
def ballPoint (n : Nat) (v : Nat → K) (u : K) (i : Nat) : K := normalize n v i * rootN u n

/-- `rand_haar_unitary` (`_internal.py:61-63`): `Q * sign(diag(R).real)` (zeros of the sign replaced by 1): column scaling -/
def signFix (Q : Nat → Nat → K) (diagR : Nat → K) (i j : Nat) : K := Q i j * sgn1 (diagR j)

/-- `G @ G.T.conj()` for an `n × k` matrix -/
def gram (k : Nat) (G : Nat → Nat → K) (i j : Nat) : K := sumR k fun s => G i s * conj (G j s)

def traceN (n : Nat) (A : Nat → Nat → K) : K := sumR n fun i => A i i

/-- `rand_density_matrix` (`_internal.py:116-117`): `ret = G @ G^H; ret /= trace(ret)` -/
def densityMatrix (n k : Nat) (G : Nat → Nat → K) (i j : Nat) : K := gram k G i j / traceN n (gram k G)

/-- `kind='bures'` (`_internal.py:115`): `(U + eye) @ tmp0` -/
def buresPre (n : Nat) (U G : Nat → Nat → K) (i s : Nat) : K :=
  sumR n fun a => (U i a + if i = a then 1 else 0) * G a s

/-- `(EVC * w) @ EVC^H` -/
def specMat (n : Nat) (V : Nat → Nat → K) (w : Nat → K) (i j : Nat) : K := sumR n fun a => V i a * w a * conj (V j a)

/-- the inverse square root `tmp2 = (EVC * (1/sqrt(max(0,EVL)))) @ EVC^H` of `rand_povm` (`:196`) / `rand_choi_op` (`:172`) -/
def invSqrtMat (n : Nat) (V : Nat → Nat → K) (evl : Nat → K) : Nat → Nat → K := specMat n V fun a => invSqrt0 (evl a)

/-- `T @ A @ T` -/
def conj3 (n : Nat) (T A : Nat → Nat → K) (i j : Nat) : K := sumR n fun a => sumR n fun b => T i a * A a b * T b j

/-- `rand_povm` (`_internal.py:194-198`): `tmp1[s] = B_s B_s^H`, `ret[s] = tmp2 @ tmp1[s] @ tmp2` -/
def povm (n : Nat) (B : Nat → Nat → Nat → K) (V : Nat → Nat → K) (evl : Nat → K) (s i j : Nat) : K :=
  conj3 n (invSqrtMat n V evl) (gram n (B s)) i j

/-- `Σ_s tmp1[s]` (the matrix handed to `eigh` in `rand_povm`) -/
def povmSum (n m : Nat) (B : Nat → Nat → Nat → K) (i j : Nat) : K := sumR m fun s => gram n (B s) i j

/-- `rand_kraus_op` (`_internal.py:143`): `z0 @ inv(EVC*sqrt(EVL)).T.conj()`; `Minv` is the captured output of `np.linalg.inv` -/
def krausOut (din : Nat) (Z : Nat → Nat → Nat → K) (Minv : Nat → Nat → K) (s a i : Nat) : K :=
  sumR din fun k => Z s a k * conj (Minv i k)

/-- `rand_hermitian_matrix(eig=…)` (`_internal.py:299-300`): `(EVC * EVL) @ EVC^H` -/
def hermEig (n : Nat) (V : Nat → Nat → K) (evl : Nat → K) : Nat → Nat → K := specMat n V evl

/-- `rand_choi_op` (`_internal.py:168-177`): `np0 = G G^H` on the index `(i,a) = i*dout + a`; `tmp1 = Tr_out np0`;
`ret[(i',a),(j',b)] = Σ_{i,j} conj(T[i,i']) np0[(i,a),(j,b)] T[j,j']` -/
def choiPT (din dout r : Nat) (G : Nat → Nat → K) (i j : Nat) : K :=
  sumR dout fun a => gram r G (i * dout + a) (j * dout + a)

def choiOut (din dout r : Nat) (G : Nat → Nat → K) (T : Nat → Nat → K) (x y : Nat) : K :=
  sumR din fun i => sumR din fun j =>
    conj (T i (x / dout)) * gram r G (i * dout + x % dout) (j * dout + y % dout) * T j (y / dout)

/-- `rand_adjacent_matrix` (`_internal.py:443-444`): `tmp0 = triu(draw, 1); tmp0 + tmp0.T` -/
def adjacency (D : Nat → Nat → Nat) (i j : Nat) : Nat :=
  (if i < j then D i j else 0) + (if j < i then D j i else 0)

/-- the rejection test of `rand_F2` (`_spf2.py:24-27`): `not_zero and array_equiv(ret, 0)` or `not_one and array_equiv(ret, 1)` -/
def f2Rejected (notZero notOne : Bool) (x : List Nat) : Bool :=
  (notZero && x.all (· == 0)) || (notOne && x.all (· == 1))

/-- `rand_F2` as a function of the successive raw draws (`while True: ret = integers(0,2,size); if rejected: continue; break`):
the first draw that is not rejected, and how many draws were consumed -/
def f2Result (notZero notOne : Bool) : List (List Nat) → Option (List Nat × Nat)
  | [] => none
  | x :: rest =>
    if f2Rejected notZero notOne x then (f2Result notZero notOne rest).map fun (r, k) => (r, k + 1)
    else some (x, 1)

/-! ### round 6: generators composed from the above (`rand_bipartite_state`, `rand_separable_dm`, `rand_orthonormal_matrix_basis`,
`rand_channel_matrix_space`, `rand_quantum_channel_matrix_subspace`, `rand_ABk_density_matrix`) -/

/-- `ret[:,np.newaxis] * ret.conj()` (`rand_bipartite_state(return_dm=True)`, `_internal.py:234`) -/
def pureDm (v : Nat → K) (i j : Nat) : K := v i * conj (v j)

/-- `rand_bipartite_state(k)` (`_internal.py:228-232`): `tmp2 /= norm(tmp2); ((tmp0*tmp2) @ tmp1.T).reshape(-1)` with `tmp0 = Q0[:,:k]`,
`tmp1 = Q1[:,:k]` the leading columns of the two `qr` factors; flat index `x = a*dB + b` -/
def bipartiteOut (dB k : Nat) (Q0 Q1 : Nat → Nat → K) (c : Nat → K) (x : Nat) : K :=
  sumR k fun s => Q0 (x / dB) s * normalize k c s * Q1 (x % dB) s

/-- `np.kron(A, B)` of two matrices, flat index `x = a*dB + b` -/
def kron (dB : Nat) (A B : Nat → Nat → K) (x y : Nat) : K := A (x / dB) (y / dB) * B (x % dB) (y % dB)

/-- `np.kron(u, v)` of two vectors -/
def kronVec (dB : Nat) (u v : Nat → K) (x : Nat) : K := u (x / dB) * v (x % dB)

/-- `probability /= probability.sum()` (`_internal.py:259`) -/
def probNorm (k : Nat) (p : Nat → K) (i : Nat) : K := p i / sumR k p

/-- `rand_separable_dm(pure_term=False)` (`_internal.py:266-269`): `Σ_i p_i kron(A_i, B_i)` -/
def sepMix (k dB : Nat) (p : Nat → K) (A B : Nat → Nat → Nat → K) (x y : Nat) : K :=
  sumR k fun i => probNorm k p i * kron dB (A i) (B i) x y

/-- `rand_separable_dm(pure_term=True)` (`_internal.py:261-265`): `tmp = kron(u_i, v_i); ret + p_i * tmp[:,None] * tmp.conj()` -/
def sepMixPure (k dB : Nat) (p : Nat → K) (u v : Nat → Nat → K) (x y : Nat) : K :=
  sumR k fun i => probNorm k p i * kronVec dB (u i) (v i) x * conj (kronVec dB (u i) (v i) y)

/-- `y[:,:,np.newaxis]*y[:,np.newaxis].conj()` (`rand_orthonormal_matrix_basis`, `_internal.py:417`): the projector on row `a` of `y` -/
def onbProj (U : Nat → Nat → K) (a c j : Nat) : K := U a c * conj (U a j)

/-- `povm_basis[i,i,i] = 1` (`_internal.py:409-411`) -/
def compBasis (a c j : Nat) : K := if a = c ∧ a = j then 1 else 0

/-- one step of the qudit loop (`_internal.py:421-422`): `einsum(tmp2,[0,1,2,3], tmp1[q],[0,4,5,6], [0,1,4,2,5,3,6])` reshaped — the
Kronecker product of the two projector families, label / row / column `a*d + a'` -/
def kron3 (d : Nat) (P Q : Nat → Nat → Nat → K) (a c j : Nat) : K := P (a / d) (c / d) (j / d) * Q (a % d) (c % d) (j % d)

/-- the `o`-th basis of one qudit: the computational basis for `o = 0`, the rows of `U (o-1)` otherwise (`np.stack([povm_basis]+x)`) -/
def onbBasis (U : Nat → Nat → Nat → K) (o : Nat) : Nat → Nat → Nat → K :=
  if o = 0 then compBasis else onbProj (U (o - 1))

/-- `tmp2` after the qudit loop: `U q o` is the `o`-th captured unitary of qudit `q` -/
def onbOut (d nq : Nat) (U : Nat → Nat → Nat → Nat → K) (o : Nat) : Nat → Nat → Nat → K :=
  ((List.range (nq - 1)).map fun q => onbBasis (U (q + 1)) o).foldl (kron3 d) (onbBasis (U 0) o)

/-- the returned stack (`_internal.py:423-425`): entry `t` is projector `t % D` of basis `t / D` (`D = d^nq`), after the identity if `with_I` -/
def onbFlat (d nq : Nat) (withI : Bool) (U : Nat → Nat → Nat → Nat → K) (t c j : Nat) : K :=
  if withI then (if t = 0 then (if c = j then 1 else 0) else onbOut d nq U ((t - 1) / d ^ nq) ((t - 1) % d ^ nq) c j)
  else onbOut d nq U (t / d ^ nq) (t % d ^ nq) c j

/-- `tmp0 + tmp0.T.conj()` (`rand_channel_matrix_space`, `_internal.py:309`; `rand_hermitian_matrix(eig=None)`, `:296`) -/
def hermSym (Z : Nat → Nat → K) (i j : Nat) : K := Z i j + conj (Z j i)

/-- `rand_channel_matrix_space` (`_internal.py:306-311`): the identity followed by `num_term-1` symmetrised draws -/
def chanSpace (Z : Nat → Nat → Nat → K) (t i j : Nat) : K :=
  if t = 0 then (if i = j then 1 else 0) else hermSym (Z (t - 1)) i j

section gellmann
variable [Sub K] [Neg K] [NatCast K]
open Numqi.Gellmann (Scalars synthesis)

/-- coefficient placement of `rand_quantum_channel_matrix_subspace`, real symmetric block (`_internal.py:330-332`):
`tmp1[:,:N1] = t[:N1]; tmp1[:,2*N1:-1] = t[N1:]` (`N1 = d(d-1)/2`; symmetric off-diagonal and diagonal Gell-Mann slots) -/
def qcmsSymCoeff (d : Nat) (t : Nat → K) (p : Nat) : K :=
  let N1 := d * (d - 1) / 2
  if p < N1 then t p else if 2 * N1 ≤ p ∧ p + 1 < d * d then t (p - N1) else 0

/-- antisymmetric block (`:335-336`): `tmp0[:,N1:2*N1] = t` -/
def qcmsAntiCoeff (d : Nat) (t : Nat → K) (p : Nat) : K :=
  let N1 := d * (d - 1) / 2
  if N1 ≤ p ∧ p < 2 * N1 then t (p - N1) else 0

/-- complex Hermitian case (`:341-342`): `concatenate([t, 0])` -/
def qcmsHermCoeff (d : Nat) (t : Nat → K) (p : Nat) : K := if p + 1 < d * d then t p else 0

/-- `.imag` -/
def imPart (S : Scalars K) (x : K) : K := (x - conj x) * (S.half * -S.I)

/-- `gellmann_basis_to_matrix(tmp1).real` -/
def qcmsSym (S : Scalars K) (d : Nat) (t : Nat → K) : Gellmann.Mat d K := fun r c => Gellmann.re S (synthesis S d (qcmsSymCoeff d t) r c)
/-- `gellmann_basis_to_matrix(tmp0).imag` -/
def qcmsAnti (S : Scalars K) (d : Nat) (t : Nat → K) : Gellmann.Mat d K := fun r c => imPart S (synthesis S d (qcmsAntiCoeff d t) r c)
/-- `gellmann_basis_to_matrix(concatenate([t,0]))` -/
def qcmsHerm (S : Scalars K) (d : Nat) (t : Nat → K) : Gellmann.Mat d K := synthesis S d (qcmsHermCoeff d t)

end gellmann

section abk
variable [NatCast K]

/-- `math.factorial` -/
def fact : Nat → Nat
  | 0 => 1
  | n + 1 => (n + 1) * fact n

/-- the `k` base-`b` digits of `x`, most significant first (`reshape([dB]*k)`) -/
def digits (b k x : Nat) : List Nat := (List.range k).map fun m => x / b ^ (k - 1 - m) % b

def undigits (b : Nat) (l : List Nat) : Nat := l.foldl (fun acc t => acc * b + t) 0

/-- `np.transpose(np0, [0]+[1+π[m]]+…)` reads the source at the multi-index `j` with `j[π[m]] = i[m]`, i.e. `j[t] = i[π⁻¹ t]` -/
def scatter (π bs : List Nat) : List Nat := (List.range π.length).map fun t => bs.getD (π.idxOf t) 0

/-- flat index of the source entry for the term `π` of `rand_ABk_density_matrix` (`_internal.py:358-360`); `x = a*dB^k + (digits)` -/
def permIdx (dB k : Nat) (π : List Nat) (x : Nat) : Nat :=
  x / dB ^ k * dB ^ k + undigits dB (scatter π (digits dB k (x % dB ^ k)))

/-- `rand_ABk_density_matrix` (`_internal.py:351-361`): `M = G Gᴴ`, `np0 = M/(tr M · k!)`, `ret = Σ_π transpose(np0, π)`
(`itertools.permutations(range(k))` = `FinGroup.perms k`; the `kext = 1` branch is the same formula) -/
def abkSym (dA dB k : Nat) (G : Nat → Nat → K) (x y : Nat) : K :=
  let N := dA * dB ^ k
  ((FinGroup.perms k).map fun π =>
    gram N G (permIdx dB k π x) (permIdx dB k π y) / (traceN N (gram N G) * ((fact k : Nat) : K))).sum

end abk

/-! ### executable carrier: complex binary64 -/

structure CFl where
  re : Float
  im : Float
deriving Inhabited

namespace CFl
instance : Zero CFl := ⟨⟨0, 0⟩⟩
instance : One CFl := ⟨⟨1, 0⟩⟩
instance : Add CFl := ⟨fun a b => ⟨a.re + b.re, a.im + b.im⟩⟩
instance : Mul CFl := ⟨fun a b => ⟨a.re * b.re - a.im * b.im, a.re * b.im + a.im * b.re⟩⟩
instance : Div CFl := ⟨fun a b =>
  let d := b.re * b.re + b.im * b.im
  ⟨(a.re * b.re + a.im * b.im) / d, (a.im * b.re - a.re * b.im) / d⟩⟩
instance : Conj CFl := ⟨fun a => ⟨a.re, -a.im⟩⟩
instance : Sub CFl := ⟨fun a b => ⟨a.re - b.re, a.im - b.im⟩⟩
instance : Neg CFl := ⟨fun a => ⟨-a.re, -a.im⟩⟩
instance : NatCast CFl := ⟨fun n => ⟨n.toFloat, 0⟩⟩
instance : RandOps CFl where
  rsqrt a := ⟨Float.sqrt a.re, 0⟩
  invSqrt0 a := ⟨1 / Float.sqrt (if a.re < 0 then 0 else a.re), 0⟩
  rootN a n := ⟨Float.pow a.re (1 / n.toFloat), 0⟩
  sgn1 a := ⟨if a.re < 0 then -1 else 1, 0⟩
/-- the scalars of `gellmann.py` in binary64 (only `half`, `I`, `cD`, `cI` are used by `synthesis`) -/
def gmScalars (d : Nat) : Gellmann.Scalars CFl where
  half := ⟨0.5, 0⟩
  I := ⟨0, 1⟩
  cD k := ⟨Float.sqrt (2 / (k.toFloat * (k.toFloat + 1))), 0⟩
  cI := ⟨Float.sqrt (2 / d.toFloat), 0⟩
  aD _ := 0
  aI := 0
  invD := 0
end CFl

end Numqi.RandNorm
