/-
C10 (validity half): the *final normalisation steps* of the generators of `numqi/random/_internal.py`, written once against
operation-only classes.  No Mathlib import.  `Driver/C10.lean` executes them on binary64 complex numbers (`CFl`) with the raw
draws and the LAPACK intermediates (`qr`, `eigh`, `inv` outputs) captured from the real generator; `NumqiProps/C10.lean` states the
validity theorems about these same constants at `K = ℂ`, with the LAPACK routines as hypotheses.

Vectors are `Nat → K`, matrices `Nat → Nat → K` (row, column), sizes are explicit.
-/
import NumqiModel.Scalar

namespace Numqi.RandNorm
open Numqi (Conj conj)

/-- the non-ring operations the normalisation steps use (`K` plays the role of ℂ; reals are the elements with zero imaginary part) -/
class RandOps (K : Type) where
  /-- `np.sqrt(x)` of a non-negative real -/
  rsqrt : K → K
  /-- `1/np.sqrt(np.maximum(0, x))` -/
  invSqrt0 : K → K
  /-- `x ** (1/n)` -/
  rootN : K → Nat → K
  /-- `np.sign(x.real)` with `0 ↦ 1` (`tmp0[tmp0==0] = 1`) -/
  sgn1 : K → K

export RandOps (rsqrt invSqrt0 rootN sgn1)

variable {K : Type} [Zero K] [One K] [Add K] [Mul K] [Div K] [Conj K] [RandOps K]

/-- `Σ_{i<n} f i`, left to right -/
def sumR (n : Nat) (f : Nat → K) : K := ((List.range n).map f).sum

/-- `‖v‖² = Σ v_i conj(v_i)` -/
def normSq (n : Nat) (v : Nat → K) : K := sumR n fun j => v j * conj (v j)

/-- `ret /= np.linalg.norm(ret)` — last line of `rand_haar_state` (`_internal.py:41`), `rand_n_sphere` (`:470`), `tmp2 /= norm(tmp2)` in
`rand_bipartite_state` (`:231`) -/
def normalize (n : Nat) (v : Nat → K) (i : Nat) : K := v i / rsqrt (normSq n v)

/-- `rand_n_ball` (`_internal.py:505-508`): `tmp0 /= norm; tmp1 = uniform ** (1/dim); tmp0 * tmp1` -/
def ballPoint (n : Nat) (v : Nat → K) (u : K) (i : Nat) : K := normalize n v i * rootN u n

/-- `rand_haar_unitary` (`_internal.py:61-63`): `Q * sign(diag(R).real)` (zeros of the sign replaced by 1): column scaling -/
def signFix (Q : Nat → Nat → K) (diagR : Nat → K) (i j : Nat) : K := Q i j * sgn1 (diagR j)

/-- `G @ G.T.conj()` for an `n × k` matrix -/
def gram (k : Nat) (G : Nat → Nat → K) (i j : Nat) : K := sumR k fun s => G i s * conj (G j s)

def traceN (n : Nat) (A : Nat → Nat → K) : K := sumR n fun i => A i i

/-- `rand_density_matrix` (`_internal.py:116-117`): `ret = G @ G^H; ret /= trace(ret)` -/
def densityMatrix (n k : Nat) (G : Nat → Nat → K) (i j : Nat) : K := gram k G i j / traceN n (gram k G)

/-- `kind='bures'` (`_internal.py:115`): `(U + eye) @ tmp0` -/
def buresPre (n : Nat) (U G : Nat → Nat → K) (i s : Nat) : K :=
  sumR n fun a => (U i a + if i = a then 1 else 0) * G a s

/-- `(EVC * w) @ EVC^H` -/
def specMat (n : Nat) (V : Nat → Nat → K) (w : Nat → K) (i j : Nat) : K := sumR n fun a => V i a * w a * conj (V j a)

/-- the inverse square root `tmp2 = (EVC * (1/sqrt(max(0,EVL)))) @ EVC^H` of `rand_povm` (`:196`) / `rand_choi_op` (`:172`) -/
def invSqrtMat (n : Nat) (V : Nat → Nat → K) (evl : Nat → K) : Nat → Nat → K := specMat n V fun a => invSqrt0 (evl a)

/-- `T @ A @ T` -/
def conj3 (n : Nat) (T A : Nat → Nat → K) (i j : Nat) : K := sumR n fun a => sumR n fun b => T i a * A a b * T b j

/-- `rand_povm` (`_internal.py:194-198`): `tmp1[s] = B_s B_s^H`, `ret[s] = tmp2 @ tmp1[s] @ tmp2` -/
def povm (n : Nat) (B : Nat → Nat → Nat → K) (V : Nat → Nat → K) (evl : Nat → K) (s i j : Nat) : K :=
  conj3 n (invSqrtMat n V evl) (gram n (B s)) i j

/-- `Σ_s tmp1[s]` (the matrix handed to `eigh` in `rand_povm`) -/
def povmSum (n m : Nat) (B : Nat → Nat → Nat → K) (i j : Nat) : K := sumR m fun s => gram n (B s) i j

/-- `rand_kraus_op` (`_internal.py:143`): `z0 @ inv(EVC*sqrt(EVL)).T.conj()`; `Minv` is the captured output of `np.linalg.inv` -/
def krausOut (din : Nat) (Z : Nat → Nat → Nat → K) (Minv : Nat → Nat → K) (s a i : Nat) : K :=
  sumR din fun k => Z s a k * conj (Minv i k)

/-- `rand_hermitian_matrix(eig=…)` (`_internal.py:299-300`): `(EVC * EVL) @ EVC^H` -/
def hermEig (n : Nat) (V : Nat → Nat → K) (evl : Nat → K) : Nat → Nat → K := specMat n V evl

/-- `rand_choi_op` (`_internal.py:168-177`): `np0 = G G^H` on the index `(i,a) = i*dout + a`; `tmp1 = Tr_out np0`;
`ret[(i',a),(j',b)] = Σ_{i,j} conj(T[i,i']) np0[(i,a),(j,b)] T[j,j']` -/
def choiPT (din dout r : Nat) (G : Nat → Nat → K) (i j : Nat) : K :=
  sumR dout fun a => gram r G (i * dout + a) (j * dout + a)

def choiOut (din dout r : Nat) (G : Nat → Nat → K) (T : Nat → Nat → K) (x y : Nat) : K :=
  sumR din fun i => sumR din fun j =>
    conj (T i (x / dout)) * gram r G (i * dout + x % dout) (j * dout + y % dout) * T j (y / dout)

/-- `rand_adjacent_matrix` (`_internal.py:443-444`): `tmp0 = triu(draw, 1); tmp0 + tmp0.T` -/
def adjacency (D : Nat → Nat → Nat) (i j : Nat) : Nat :=
  (if i < j then D i j else 0) + (if j < i then D j i else 0)

/-- the rejection test of `rand_F2` (`_spf2.py:24-27`): `not_zero and array_equiv(ret, 0)` or `not_one and array_equiv(ret, 1)` -/
def f2Rejected (notZero notOne : Bool) (x : List Nat) : Bool :=
  (notZero && x.all (· == 0)) || (notOne && x.all (· == 1))

/-- `rand_F2` as a function of the successive raw draws (`while True: ret = integers(0,2,size); if rejected: continue; break`):
the first draw that is not rejected, and how many draws were consumed -/
def f2Result (notZero notOne : Bool) : List (List Nat) → Option (List Nat × Nat)
  | [] => none
  | x :: rest =>
    if f2Rejected notZero notOne x then (f2Result notZero notOne rest).map fun (r, k) => (r, k + 1)
    else some (x, 1)

/-! ### executable carrier: complex binary64 -/

structure CFl where
  re : Float
  im : Float
deriving Inhabited

namespace CFl
instance : Zero CFl := ⟨⟨0, 0⟩⟩
instance : One CFl := ⟨⟨1, 0⟩⟩
instance : Add CFl := ⟨fun a b => ⟨a.re + b.re, a.im + b.im⟩⟩
instance : Mul CFl := ⟨fun a b => ⟨a.re * b.re - a.im * b.im, a.re * b.im + a.im * b.re⟩⟩
instance : Div CFl := ⟨fun a b =>
  let d := b.re * b.re + b.im * b.im
  ⟨(a.re * b.re + a.im * b.im) / d, (a.im * b.re - a.re * b.im) / d⟩⟩
instance : Conj CFl := ⟨fun a => ⟨a.re, -a.im⟩⟩
instance : RandOps CFl where
  rsqrt a := ⟨Float.sqrt a.re, 0⟩
  invSqrt0 a := ⟨1 / Float.sqrt (if a.re < 0 then 0 else a.re), 0⟩
  rootN a n := ⟨Float.pow a.re (1 / n.toFloat), 0⟩
  sgn1 a := ⟨if a.re < 0 then -1 else 1, 0⟩
end CFl

end Numqi.RandNorm
