/-
Model of the *batched* conversion paths of `numqi/gate/_pauli.py` and of `PauliOperator.from_np_list`.
No Mathlib import; executed by the C08 driver.  The single-item paths are in `NumqiModel/Pauli.lean`; the theorems of
`NumqiProps/C08Batch.lean` say that the batched routes compute the same thing.

* `pauli_index_to_F2`, ndarray branch (`_pauli.py:139-154`): the uint64 index is byte-swapped to big-endian, `np.unpackbits(…,
  bitorder='big')` turns the 8 bytes into 64 bits (most significant first), the last `2n` bits are cut into `n` pairs
  `(hi, lo)` (qubit 0 first) and every pair is translated `(0,1)→(1,0)`, `(1,0)→(1,1)`, `(1,1)→(0,1)` into `(x, z)`; the sign
  bits are `(x·z % 4)//2`, `(x·z % 4)%2`.
* `pauli_F2_to_index`, ndarray branch (`_pauli.py:168-178`): pairs `(x_i, z_i)` translated back, flattened to `2n` bits and
  contracted with `1 << arange(2n)[::-1]`.
* `PauliOperator.from_np_list` (`_pauli.py:336-349`): overlaps `tr(M_i σ_p)` with `I X Y Z`, the three assertions, `argmax`,
  letters → `pauli_str_to_F2`.  Executed over `ℤ[i]` (the factors of a Pauli string have Gaussian-integer entries).
-/
import NumqiModel.Pauli

namespace Numqi.PauliBatch
open Numqi

/-! ### index → F2, batched -/

/-- `np.unpackbits(index.byteswap().view(uint8), bitorder='big')`: bit `j` (0 ≤ j < 64) is bit `7 - j%8` of byte `j/8`,
byte `k` of the big-endian representation being `index >> 8(7-k) & 255` -/
def unpack64 (idx : Nat) : List Bool :=
  (List.range 64).map fun j => (idx / 2 ^ (8 * (7 - j / 8)) % 256) / 2 ^ (7 - j % 8) % 2 == 1

/-- `[:, -(2n):].reshape(-1, n, 2)`: the pair of qubit `q` -/
def indexPair (n idx q : Nat) : Bool × Bool :=
  let bits := (unpack64 idx).drop (64 - 2 * n)
  (bits.getD (2 * q) false, bits.getD (2 * q + 1) false)

/-- the translation loop of `_pauli.py:148-150` -/
def pairToXZ : Bool × Bool → Bool × Bool
  | (false, true) => (true, false)
  | (true, false) => (true, true)
  | (true, true) => (false, true)
  | (false, false) => (false, false)

/-- one item of the batched `pauli_index_to_F2(index, n, with_sign=True)` -/
def ofIndexBatch (n idx : Nat) : Pauli n :=
  let x : Bits n := fun i => (pairToXZ (indexPair n idx i.val)).1
  let z : Bits n := fun i => (pairToXZ (indexPair n idx i.val)).2
  let t := Bits.dotN x z % 4
  { s0 := t / 2 == 1, s1 := t % 2 == 1, x := x, z := z }

/-! ### F2 → index, batched -/

/-- the translation loop of `_pauli.py:173-175` -/
def xzToPair : Bool × Bool → Bool × Bool
  | (true, false) => (false, true)
  | (true, true) => (true, false)
  | (false, true) => (true, true)
  | (false, false) => (false, false)

/-- the `2n` bits `np1.reshape(N0, 2n)` of one item -/
def pairBits {n : Nat} (p : Pauli n) : List Bool :=
  (List.finRange n).flatMap fun i => [(xzToPair (p.x i, p.z i)).1, (xzToPair (p.x i, p.z i)).2]

/-- `bits @ (1 << arange(L)[::-1])` -/
def weighted (bits : List Bool) : Nat :=
  ((List.range bits.length).map fun j => (bits.getD j false).toNat * 2 ^ (bits.length - 1 - j)).sum

/-- one item of the batched `pauli_F2_to_index` (sign dropped) -/
def toIndexBatch {n : Nat} (p : Pauli n) : Nat := weighted (pairBits p)

/-! ### `from_np_list` -/

/-- a 2×2 matrix, row-major `[m00, m01, m10, m11]` -/
abbrev M2 := List GInt

/-- `I X Y Z` (`gate/_internal.py:7-10`) -/
def sigma : Nat → M2
  | 0 => [⟨1,0⟩, ⟨0,0⟩, ⟨0,0⟩, ⟨1,0⟩]
  | 1 => [⟨0,0⟩, ⟨1,0⟩, ⟨1,0⟩, ⟨0,0⟩]
  | 2 => [⟨0,0⟩, ⟨0,-1⟩, ⟨0,1⟩, ⟨0,0⟩]
  | _ => [⟨1,0⟩, ⟨0,0⟩, ⟨0,0⟩, ⟨-1,0⟩]

/-- column `p` of `np_list.reshape(-1,4) @ _pauli_np_list`: `Σ_{ab} M[a,b]·σ_p[b,a] = tr(M σ_p)` -/
def overlap (M : M2) (p : Nat) : GInt :=
  let s := sigma p
  M.getD 0 0 * s.getD 0 0 + M.getD 1 0 * s.getD 2 0 + M.getD 2 0 * s.getD 1 0 + M.getD 3 0 * s.getD 3 0

/-- `np.argmax` of four integers: first index of the maximum -/
def argmax4 (r : List Int) : Nat :=
  let m := r.foldl max (r.getD 0 0)
  (List.range 4).find? (fun i => r.getD i 0 == m) |>.getD 0

/-- `PauliOperator.from_np_list(np_list, sign)`; `none` = one of the three assertions fires (or a factor is not 2×2).
`e` is the exponent of `sign = i^e`. -/
def fromNpList (n : Nat) (mats : List M2) (e : Nat) : Option (Pauli n) :=
  let rows := mats.map fun M => (List.range 4).map (overlap M)
  let ok := rows.all fun r =>
    r.all (fun v => v.im == 0) && (r.map (·.re)).sum == 2 && (r.map (·.re)).foldl max ((r.map (·.re)).getD 0 0) == 2
  if ok && mats.length == n && mats.all (·.length == 4) && decide (e < 4) then
    some (Pauli.ofStr n (rows.map fun r => argmax4 (r.map (·.re))) e)
  else none

/-- `PauliOperator.np_list`: the factors of the string form -/
def npList {n : Nat} (p : Pauli n) : List M2 := p.toStr.1.map sigma

end Numqi.PauliBatch
