/-
Model of `numqi/gellmann.py` (generalised Gell-Mann matrices, coordinates in that basis).
No Mathlib import: everything here is executable and is what `Driver/C16.lean` runs; the
theorems of `NumqiProps/C16.lean` are about these very constants.

The only non-rational numbers in `gellmann.py` are the square roots
`sqrt(2/(k(k+1)))`, `sqrt(2/d)`, `1/sqrt(2k(k+1))`, `1/sqrt(2d)`.  The model takes them as a
record `Scalars α` of parameters: the theorems assume the algebraic relations that the exact square
roots satisfy (`Scalars.Valid` in `NumqiProofs/GellmannLemmas.lean`), the driver instantiates them with
the binary64 square roots (as exact rationals), so that everything except those scalars is exact.
-/
import NumqiModel.Scalar

namespace Numqi.Gellmann

/-- the scalars of `gellmann.py` that are not rational (plus `1/2`, `i`, `1/d`). -/
structure Scalars (α : Type) where
  /-- `1/2` (`/2`, `0.5j`) -/
  half : α
  /-- imaginary unit `1j` -/
  I : α
  /-- `np.sqrt(2/(k*(k+1)))`, `gellmann.py:40,154,167` -/
  cD : Nat → α
  /-- `np.sqrt(2/d)`, `gellmann.py:35,139` -/
  cI : α
  /-- `1/np.sqrt(2*k*(k+1))`, `gellmann.py:103-104,112-113` -/
  aD : Nat → α
  /-- `1/np.sqrt(2*d)`, `gellmann.py:95,204` -/
  aI : α
  /-- `1/d` (`trace/N0`, `gellmann.py:228`) -/
  invD : α

abbrev Mat (d : Nat) (α : Type) := Fin d → Fin d → α

variable {α : Type}

/-- `Σ_i f i`, as the implementation's left-to-right `np.sum` / `np.trace`. -/
def sumFin [Zero α] [Add α] {d : Nat} (f : Fin d → α) : α := ((List.finRange d).map f).sum

section ops
variable [Zero α] [One α] [Add α] [Sub α] [Neg α] [Mul α] [NatCast α]

/-- `gellmann_matrix(i, j, d)` (`gellmann.py:6-43`): `i<j` Pauli-X like, `i>j` Pauli-Y like
(entry `(i,j) = 1j`, `(j,i) = -1j`), `i=j=0` the scaled identity, `i=j>0` Pauli-Z like
`sqrt(2/(i(i+1))) * diag(1,…,1,-i,0,…,0)` with `i` ones. -/
def gm (S : Scalars α) (d i j : Nat) : Mat d α := fun r c =>
  if j < i then
    (if r.val = i ∧ c.val = j then S.I else if r.val = j ∧ c.val = i then -S.I else 0)
  else if i < j then
    (if (r.val = i ∧ c.val = j) ∨ (r.val = j ∧ c.val = i) then 1 else 0)
  else if i = 0 then
    (if r = c then S.cI else 0)
  else
    (if r = c then (if r.val < i then S.cD i else if r.val = i then S.cD i * -(i : α) else 0) else 0)

/-- `[(i,j) for i in range(d) for j in range(i+1,d)]` = `np.triu_indices(d,1)` = `torch.triu_indices(d,d,1)`:
the strict upper triangle in row-major order. -/
def pairs (d : Nat) : List (Fin d × Fin d) :=
  (List.finRange d).flatMap fun i => ((List.finRange d).filter fun j => i < j).map fun j => (i, j)

/-- the indices `1..d-1` of the diagonal elements (`range(1,d)`) -/
def diagIdx (d : Nat) : List (Fin d) := (List.finRange d).filter fun k => 0 < k.val

/-- `_all_gellmann_matrix_cache(d, 1, True)` (`gellmann.py:47-52`): `sym ++ antisym ++ diag ++ [I]`. -/
def allGellmann (S : Scalars α) (d : Nat) : List (Mat d α) :=
  (pairs d).map (fun p => gm S d p.1.val p.2.val)
  ++ (pairs d).map (fun p => gm S d p.2.val p.1.val)
  ++ (diagIdx d).map (fun k => gm S d k.val k.val)
  ++ [gm S d 0 0]

/-- the `with_I` option of `_all_gellmann_matrix_cache` (`gellmann.py:56-57`): `ret[:-1]` when `with_I=False` -/
def dropI {β : Type} (withI : Bool) (L : List β) : List β := if withI then L else L.dropLast

/-- `all_gellmann_matrix(d, tensor_n=1, with_I)` -/
def allGellmannOpt (S : Scalars α) (d : Nat) (withI : Bool) : List (Mat d α) := dropI withI (allGellmann S d)

/-- row index of the first factor: `r / d` -/
def kdiv {d : Nat} (r : Fin (d * d)) : Fin d := ⟨r.val / d, Nat.div_lt_of_lt_mul r.isLt⟩
/-- row index of the second factor: `r % d` -/
def kmod {d : Nat} (r : Fin (d * d)) : Fin d :=
  ⟨r.val % d, Nat.mod_lt _ (Nat.pos_of_ne_zero (by intro h; subst h; exact absurd r.isLt (by simp)))⟩

/-- `np.kron(A, B)` of two `d×d` matrices: entry `(r1*d + r2, c1*d + c2) = A[r1,c1] * B[r2,c2]`, i.e. row `r ↦ (r / d, r % d)`. -/
def kron2 (d : Nat) (A B : Mat d α) : Mat (d * d) α := fun r c => A (kdiv r) (kdiv c) * B (kmod r) (kmod c)

/-- `_all_gellmann_matrix_cache(d, 2, with_I)` (`gellmann.py:53-57`): `itertools.product(range(d²), repeat=2)` enumerates `(a, b)` with `a` outermost,
element `a*d² + b` is `np.kron(G_a, G_b)`; `with_I=False` drops only the last element `I⊗I`. -/
def allGellmannT2 (S : Scalars α) (d : Nat) (withI : Bool) : List (Mat (d * d) α) :=
  dropI withI ((allGellmann S d).flatMap fun A => (allGellmann S d).map fun B => kron2 d A B)

/-- `matrix_to_gellmann_basis` (`gellmann.py:82-120`), numpy and torch branch are the same formula:
`aS = (A+Aᵀ)[triu]/2`, `aA = (A-Aᵀ)[triu]*0.5j`,
`aD_k = (cumsum(diag)[k-1] - k*diag[k]) / sqrt(2k(k+1))`, `aI = trace * 1/sqrt(2d)`. -/
def analysis (S : Scalars α) (d : Nat) (A : Mat d α) : List α :=
  (pairs d).map (fun p => (A p.1 p.2 + A p.2 p.1) * S.half)
  ++ (pairs d).map (fun p => (A p.1 p.2 - A p.2 p.1) * (S.half * S.I))
  ++ (diagIdx d).map (fun k =>
        ((((List.finRange d).filter fun l => l.val < k.val).map fun l => A l l).sum - (k.val : α) * A k k) * S.aD k.val)
  ++ [sumFin (fun l => A l l) * S.aI]

/-- `gellmann_basis_to_matrix` (`gellmann.py:123-170`).  `v p` is `vec[p]`; slices
`vec0 = vec[:N]`, `vec1 = vec[N:d(d-1)]`, `vec2 = vec[d(d-1):-1]`, `vec3 = vec[-1]*sqrt(2/d)`, `N = d(d-1)//2`.
Off-diagonal: the `p`-th pair `(i,j)` of `triu_indices` receives `vec0[p] - 1j*vec1[p]`, its transpose
position `vec0[p] + 1j*vec1[p]` (index assignment in numpy, `torch.scatter` in torch).
Diagonal: `tmp1 @ ((ind0[:,None] >= ind0) + diag(-ind0[1:], k=1))` with
`tmp1 = [sqrt(2/(k(k+1)))*vec2[k-1] for k=1..d-1] ++ [vec3]`. -/
def synthesis (S : Scalars α) (d : Nat) (v : Nat → α) : Mat d α := fun r c =>
  let N := d * (d - 1) / 2
  if r < c then
    let p := (pairs d).idxOf (r, c)
    v p - S.I * v (N + p)
  else if c < r then
    let p := (pairs d).idxOf (c, r)
    v p + S.I * v (N + p)
  else
    sumFin (d := d) fun k =>
      (if k.val + 1 < d then S.cD (k.val + 1) * v (d * (d - 1) + k.val) else v (d * d - 1) * S.cI)
      * ((if c.val ≤ k.val then 1 else 0) + (if c.val = k.val + 1 then -((k.val + 1 : Nat) : α) else 0))

/-- `gellmann_basis_to_dm` (`gellmann.py:191-211`): append `1/sqrt(2d)` and synthesise. -/
def vecToDm (S : Scalars α) (d : Nat) (v : Nat → α) : Mat d α :=
  synthesis S d fun p => if p = d * d - 1 then S.aI else v p

end ops

section conj
variable [Zero α] [One α] [Add α] [Sub α] [Neg α] [Mul α] [NatCast α] [Conj α]

/-- `.real` -/
def re (S : Scalars α) (x : α) : α := (x + conj x) * S.half

/-- `dm_to_gellmann_basis(dm, with_rho0)` (`gellmann.py:173-188`): real part of the coefficients,
last one dropped unless `with_rho0`. -/
def dmToVec (S : Scalars α) (d : Nat) (A : Mat d α) (withRho0 : Bool) : List α :=
  let l := (analysis S d A).map (re S)
  if withRho0 then l else l.dropLast

/-- square of `dm_to_gellmann_norm` (`gellmann.py:214-240`): `‖dm - tr(dm)/d·1‖_F² / 2`
(the implementation returns the square root of this). -/
def dmNorm2 (S : Scalars α) (d : Nat) (A : Mat d α) : α :=
  let t := sumFin (fun l => A l l) * S.invD
  let X : Mat d α := fun r c => A r c - (if r = c then t else 0)
  sumFin (fun r => sumFin fun c => conj (X r c) * X r c) * S.half

/-- `get_density_matrix_distance2` (`gellmann.py:243-265`): `vdot(ρ-σ, ρ-σ)/2`. -/
def distance2 (S : Scalars α) (d : Nat) (A B : Mat d α) : α :=
  sumFin (fun r => sumFin fun c => conj (A r c - B r c) * (A r c - B r c)) * S.half

end conj

/-! ### executable instance: exact Gaussian rationals, binary64 square roots -/

def QI.ofRat (r : Rat) : QI := ⟨r, 0⟩
def QI.ofNat (n : Nat) : QI := ⟨(n : Int), 0⟩
/-- scoped so that it cannot clash with another model's instance -/
scoped instance : NatCast QI := ⟨QI.ofNat⟩

/-- exact rational value of a (finite) `Float` -/
def ratOfFloat (x : Float) : Rat := ratOfFloatBits x.toBits.toNat

/-- the scalars as `gellmann.py` computes them in binary64 (`np.sqrt`, then `/` or `*`), taken exactly. -/
def floatScalars (d : Nat) : Scalars QI where
  half := ⟨(1 : Rat) / 2, 0⟩
  I := ⟨0, 1⟩
  cD := fun k => QI.ofRat (ratOfFloat (Float.sqrt (2 / (k.toFloat * (k.toFloat + 1)))))
  cI := QI.ofRat (ratOfFloat (Float.sqrt (2 / d.toFloat)))
  aD := fun k => QI.ofRat (ratOfFloat (1 / Float.sqrt (2 * k.toFloat * (k.toFloat + 1))))
  aI := QI.ofRat (ratOfFloat (1 / Float.sqrt (2 * d.toFloat)))
  invD := ⟨(1 : Rat) / (d : Int), 0⟩

end Numqi.Gellmann
