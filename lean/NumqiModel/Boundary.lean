/-
Model of the closed-form boundaries of `numqi/entangle/_misc.py` and `numqi/entangle/ppt.py` (C06) and of the LP data of
`numqi/entangle/cha.py`.  No Mathlib import: everything here is executable and is what `Driver/C06.lean` runs; the theorems
of `NumqiProps/C06.lean` are about these very constants.

* `dmBoundary`      — `get_density_matrix_boundary` (`_misc.py:85-117`), one batch item, given the two extreme eigenvalues
                       (`np.linalg.eigvalsh` is a contract) and the Gell-Mann norm
* `ptB`, `ptFlat`   — the partial transpose `reshape(-1,dA,dB,dA,dB).transpose(0,1,4,3,2)` of `get_ppt_boundary` (`ppt.py:116`)
* `pptBoundary`     — the `within_dm` max/min (`ppt.py:117-121`)
* `gmNorm2`         — square of `dm_to_gellmann_norm` (`gellmann.py:214-240`): `‖A - tr(A)/N·1‖_F² / 2`
* `interp`, `interpBeta` — `hf_interpolate_dm` (`_misc.py:61-82`)
* `prodProj`, `chaRow`, `mixture` — the product projectors handed to the LP of `CHABoundaryBagging._cvxpy_solve`
                       (`cha.py:99-106`) and the state `Σ λ_i P_i` the LP point stands for

Not modelled (contracts / probed only): `eigvalsh`, the LP/SDP solvers, the irrep-block encoding of the extension
constraints (`group/symext.py`), `PureBosonicExt` (its reduction map is C17's model), optimiser convergence.
-/
import NumqiModel.Scalar

namespace Numqi.Boundary

/-! ## closed-form boundaries -/

section field
variable {α : Type} [One α] [Sub α] [Neg α] [Mul α] [Div α]

/-- `get_density_matrix_boundary`, one item: `tmp0 = (eigvalsh(dm) - 1/N0)/dm_norm`,
`beta_l = -1/(N0*tmp0[-1])`, `beta_u = -1/(N0*tmp0[0])`.  `nN` is `N0`. -/
def dmBoundary (nN eigMin eigMax dmNorm : α) : α × α :=
  (-1 / (nN * ((eigMax - 1 / nN) / dmNorm)), -1 / (nN * ((eigMin - 1 / nN) / dmNorm)))

/-- `get_ppt_boundary`: the boundary of the partial transpose, intersected with the DM boundary when `within_dm`
(`np.maximum(beta_l, beta_pt_l)`, `np.minimum(beta_u, beta_pt_u)`). -/
def pptBoundary [Max α] [Min α] (withinDm : Bool) (dm pt : α × α) : α × α :=
  if withinDm then (max dm.1 pt.1, min dm.2 pt.2) else pt

end field

/-! ## partial transpose -/

/-- `dm.reshape(dA,dB,dA,dB).transpose(0,3,2,1)` (one item of `ppt.py:116`): `pt[(a,b),(a',b')] = dm[(a,b'),(a',b)]` -/
def ptB {α : Type} {dA dB : Nat} (M : Fin dA × Fin dB → Fin dA × Fin dB → α) :
    Fin dA × Fin dB → Fin dA × Fin dB → α :=
  fun p q => M (p.1, q.2) (q.1, p.2)

/-- row-major position of the pair `(a,b)` in `reshape(dA*dB)` -/
def flatOfPair {dA dB : Nat} (p : Fin dA × Fin dB) : Nat := p.1.val * dB + p.2.val

/-- the pair at row-major position `i` (`none` out of range) -/
def pairOfFlat (dA dB : Nat) (i : Nat) : Option (Fin dA × Fin dB) :=
  if h : 0 < dB ∧ i / dB < dA then some (⟨i / dB, h.2⟩, ⟨i % dB, Nat.mod_lt _ h.1⟩) else none

/-- the pair at row-major position `i` of `reshape(dA, dB)`: `(i / dB, i % dB)` -/
def pairAt (dA dB : Nat) (i : Fin (dA * dB)) : Fin dA × Fin dB :=
  (⟨i.val / dB, Nat.div_lt_of_lt_mul (Nat.lt_of_lt_of_eq i.isLt (Nat.mul_comm dA dB))⟩,
   ⟨i.val % dB, Nat.mod_lt _ (Nat.pos_of_ne_zero (by intro h; have := i.isLt; simp [h] at this))⟩)

/-- a `(dA·dB)×(dA·dB)` matrix from its row-major flat list (`reshape(dA,dB,dA,dB)` read at `[a,b,a',b']`) -/
def ofFlat {α : Type} [Zero α] (dA dB : Nat) (l : List α) : Fin dA × Fin dB → Fin dA × Fin dB → α :=
  let a := l.toArray
  fun p q => a.getD (flatOfPair p * (dA * dB) + flatOfPair q) 0

/-- the row-major flat list of a pair-indexed matrix (`reshape(dA*dB*dA*dB)`): position `i` holds the entry with row pair at
position `i / N` and column pair at position `i % N`, `N = dA·dB` -/
def toFlat {α : Type} (dA dB : Nat) (M : Fin dA × Fin dB → Fin dA × Fin dB → α) : List α :=
  List.ofFn fun i : Fin ((dA * dB) * (dA * dB)) =>
    M (pairAt dA dB ⟨i.val / (dA * dB), Nat.div_lt_of_lt_mul i.isLt⟩)
      (pairAt dA dB ⟨i.val % (dA * dB), Nat.mod_lt _ (Nat.pos_of_ne_zero (by intro h; have := i.isLt; simp [h] at this))⟩)

/-! ## Gell-Mann norm and interpolation -/

section ring
variable {α : Type} [Zero α] [One α] [Add α] [Sub α] [Mul α]

def sumFin {n : Nat} (f : Fin n → α) : α := ((List.finRange n).map f).foldr (· + ·) 0

variable [Conj α]

/-- square of `dm_to_gellmann_norm(dm)`: `‖dm - (tr dm / N)·1‖_F² / 2`; `invN = 1/N`, `half = 1/2` -/
def gmNorm2 {n : Nat} (invN half : α) (A : Fin n → Fin n → α) : α :=
  let t := sumFin (fun l => A l l) * invN
  sumFin (fun r => sumFin fun c =>
    conj (A r c - (if r = c then t else 0)) * (A r c - (if r = c then t else 0))) * half

/-- `hf_interpolate_dm(rho, alpha=…)`: `alpha*rho + (1-alpha)*eye(N)/N` -/
def interp {n : Nat} (invN : α) (alpha : α) (rho : Fin n → Fin n → α) : Fin n → Fin n → α :=
  fun r c => alpha * rho r c + (1 - alpha) * (if r = c then invN else 0)

/-- `hf_interpolate_dm(rho, beta=…)`: `alpha = beta / dm_norm` -/
def interpBeta [Div α] {n : Nat} (invN : α) (beta dmNorm : α) (rho : Fin n → Fin n → α) : Fin n → Fin n → α :=
  interp invN (beta / dmNorm) rho

/-! ## the convex-hull (CHA) linear programme -/

/-- the product projector `|a⟩⟨a| ⊗ |b⟩⟨b|` as built by `np.einsum(ketA,[0,1],ketA.conj(),[0,3],ketB,[0,2],ketB.conj(),[0,4],[0,1,2,3,4])`
(`cha.py:101`) -/
def prodProj {dA dB : Nat} (a : Fin dA → α) (b : Fin dB → α) : Fin dA × Fin dB → Fin dA × Fin dB → α :=
  fun p q => a p.1 * conj (a q.1) * (b p.2 * conj (b q.2))

/-- one row of the LP matrix: `P_i - 1/N` (`cha.py:102`) -/
def chaRow {dA dB : Nat} (invN : α) (a : Fin dA → α) (b : Fin dB → α) : Fin dA × Fin dB → Fin dA × Fin dB → α :=
  fun p q => prodProj a b p q - (if p = q then invN else 0)

/-- the state the LP point stands for: `Σ_i λ_i |a_i b_i⟩⟨a_i b_i|` -/
def mixture {dA dB K : Nat} (lam : Fin K → α) (a : Fin K → Fin dA → α) (b : Fin K → Fin dB → α) :
    Fin dA × Fin dB → Fin dA × Fin dB → α :=
  fun p q => sumFin fun i => lam i * prodProj (a i) (b i) p q

end ring

/-! ## bisection used by the inner models' `get_boundary` (`_ree_bisection_solve`, `entangle/_misc.py:13-30`) -/

section bisect
variable {α : Type} [Add α] [Div α] [OfNat α 2] [LE α] [DecidableRel (α := α) (· ≤ ·)]

/-- the loop of `_ree_bisection_solve`: `xi = (x0+x1)/2; yi = hf(xi); if yi >= threshold: x1 = xi else: x0 = xi`, `maxiter` times;
returns `(x0, x1, xi)` after the last step (`xi` is what the implementation returns) -/
def bisectLoop (hf : α → α) (threshold : α) : Nat → α → α → α → α × α × α
  | 0, x0, x1, xi => (x0, x1, xi)
  | m + 1, x0, x1, _ =>
    let xi := (x0 + x1) / 2
    if threshold ≤ hf xi then bisectLoop hf threshold m x0 xi xi else bisectLoop hf threshold m xi x1 xi

end bisect

/-- `maxiter = int(ceil(log2(max(2, (x1-x0)/xtol))))` for a ratio given as `num/den`: the least `m ≥ 1` with `2^m · den ≥ num` -/
def bisectMaxiter (num den : Nat) : Nat :=
  let rec go (fuel m pw : Nat) : Nat :=
    match fuel with
    | 0 => m
    | f + 1 => if num ≤ pw * den then m else go f (m + 1) (pw * 2)
  go (num + 2) 1 2

end Numqi.Boundary
