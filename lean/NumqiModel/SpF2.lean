/-
Model of `numqi/group/spf2.py` (symplectic group over GF(2), canonical indexing by transvections).
No Mathlib import: everything here is executable and is what `Driver/C09.lean` runs.

Representation.  A uint8 bit array `v` of length `m` is the natural number `Σ_j v[j]·2^j`
(little endian: array entry `j` = `Nat.testBit · j`).  This is exactly `int_to_bitarray` /
`bitarray_to_int` (`spf2.py:82-112`), so those two conversions are the identity in the model.
A `2n × 2n` matrix is the list of its rows (`List Nat`, length `2n`).
-/
import NumqiModel.Scalar

namespace Numqi.SpF2

/-- the bit array `[f 0, …, f (m-1)]` packed little-endian -/
def ofFn : (m : Nat) → (f : Nat → Bool) → Nat
  | 0, _ => 0
  | m + 1, f => ofFn m f ||| (if f m then 2 ^ m else 0)

/-- `int_to_bitarray(i, n)` (`spf2.py:82-97`): `int(i).to_bytes((n+7)//8, 'little')` (`OverflowError` = `none` when `i` does not
fit into `⌈n/8⌉` bytes), `np.unpackbits(…, bitorder='little')`, first `n` bits.  For `2^n ≤ i < 256^⌈n/8⌉` the high bits are
silently dropped. -/
def intToBitarray (i n : Nat) : Option (List Bool) :=
  if 256 ^ ((n + 7) / 8) ≤ i then none else some ((List.range n).map i.testBit)

/-- `bitarray_to_int(b)` (`spf2.py:100-112`): `np.packbits(b, bitorder='little')` read as a little-endian integer -/
def bitarrayToInt (b : List Bool) : Nat := ofFn b.length fun j => b.getD j false

/-- single bit `b` at position `i` (assignment `v[i] = b` into a zero array) -/
def bit (i : Nat) (b : Bool) : Nat := if b then 2 ^ i else 0

/-- one term of the symplectic product: `v[i]·w[i+n] + v[i+n]·w[i] (mod 2)` -/
def ipTerm (n v w i : Nat) : Bool :=
  (v.testBit i && w.testBit (i + n)) ^^ (v.testBit (i + n) && w.testBit i)

/-- partial sums of the symplectic product -/
def ipUpTo (n v w : Nat) : Nat → Bool
  | 0 => false
  | k + 1 => ipUpTo n v w k ^^ ipTerm n v w k

/-- `get_inner_product` (`spf2.py:44-61`): `(v[:n]·w[n:] + v[n:]·w[:n]) % 2`.
(The uint8 dot products wrap mod 256, which does not change the parity.) -/
def ip (n v w : Nat) : Bool := ipUpTo n v w n

/-- `transvection(x, h)` for one `h` (`spf2.py:74-79`): `(x + <x,h>·h) % 2`. -/
def tv (n x h : Nat) : Nat := x ^^^ (if ip n x h then h else 0)

/-- `transvection(x, *h_list)`: the `h` are applied in list order. -/
def tvs (n x : Nat) (hs : List Nat) : Nat := hs.foldl (tv n) x

/-- `transvection(x, *hs)` for `x.ndim ≥ 2` (`spf2.py:74-78`, `tmp0[...,np.newaxis]`): the map acts on the last axis, elementwise
over all leading (batch) axes — here the array flattened to the list of its rows -/
def tvsBatch (n : Nat) (rows : List Nat) (hs : List Nat) : List Nat := rows.map fun r => tvs n r hs

/-- `get_inner_product(v0, v1)` for `v0.ndim ≥ 2` (`spf2.py:60`): one bit per row of `v0` -/
def ipBatch (n : Nat) (rows : List Nat) (w : Nat) : List Bool := rows.map fun r => ip n r w

/-- first index `i < k` with `p i` (`np.nonzero(...)[0][0]`) -/
def findIdx (p : Nat → Bool) : (k : Nat) → Option Nat
  | 0 => none
  | k + 1 => match findIdx p k with
    | some i => some i
    | none => if p k then some k else none

/-- the pair `(v[i], v[i+n])` is not `00` -/
def pairNZ (n v i : Nat) : Bool := v.testBit i || v.testBit (i + n)

/-- the vector `v2` written in the fourth/fifth branch (`spf2.py:186-194` resp. `195-202`) for the
first index where `u` has a non-zero pair and the other vector has `00` -/
def oneSided (n u : Nat) (idx : Option Nat) : Nat :=
  match idx with
  | none => 0
  | some i =>
    if u.testBit i == u.testBit (i + n) then bit (i + n) true
    else bit i (u.testBit (i + n)) ^^^ bit (i + n) (u.testBit i)

/-- `find_transvection(v0, v1)` (`spf2.py:164-204`), the five branches of Lemma 2; returns `(ret[0], ret[1])`.
The two `assert`s (`v0 ≠ 0`, `v1 ≠ 0`) are in `findTransvection`. -/
def findTv (n v0 v1 : Nat) : Nat × Nat :=
  if v0 = v1 then (0, 0)
  else if ip n v0 v1 then (v0 ^^^ v1, 0)
  else
    match findIdx (fun i => pairNZ n v0 i && pairNZ n v1 i) n with
    | some i =>
      let a := v0.testBit i ^^ v1.testBit i
      let b := v0.testBit (i + n) ^^ v1.testBit (i + n)
      let v2 := if !a && !b then bit i (v0.testBit i ^^ v0.testBit (i + n)) ^^^ bit (i + n) true
                else bit i a ^^^ bit (i + n) b
      (v1 ^^^ v2, v0 ^^^ v2)
    | none =>
      let v2 := oneSided n v0 (findIdx (fun i => pairNZ n v0 i && !pairNZ n v1 i) n)
                ^^^ oneSided n v1 (findIdx (fun i => !pairNZ n v0 i && pairNZ n v1 i) n)
      (v1 ^^^ v2, v0 ^^^ v2)

/-- `find_transvection` with its guards: `none` = `AssertionError` (a zero vector). -/
def findTransvection (n v0 v1 : Nat) : Option (Nat × Nat) :=
  if v0 = 0 || v1 = 0 then none else some (findTv n v0 v1)

/-- `[1, bits[1:n], 0, bits[n:]]` (`spf2.py:225`) -/
def ePrime (n b : Nat) : Nat :=
  ofFn (2 * n) fun j => if j = 0 then true else if j < n then b.testBit j
    else if j = n then false else b.testBit (j - 1)

/-- a row of the `2(n-1)`-matrix placed into the `2n`-matrix `g` (`spf2.py:231-234`): columns `0` and `n` are `0` -/
def embedRow (n r : Nat) : Nat :=
  ofFn (2 * n) fun j => if j = 0 then false else if j < n then r.testBit (j - 1)
    else if j = n then false else r.testBit (j - 2)

/-- the matrix `g` (`spf2.py:228-234`): identity with the smaller element in rows/columns `≠ 0, n` -/
def embedMat (n : Nat) (sub : List Nat) : List Nat :=
  (List.range (2 * n)).map fun k =>
    if k = 0 then 1 else if k < n then embedRow n (sub.getD (k - 1) 0)
    else if k = n then 2 ^ n else embedRow n (sub.getD (k - 2) 0)

/-- the list `Tprime_T` of transvections (`spf2.py:221-227`) for the last pair `(a, b)` -/
def stepHs (n a b : Nat) : List Nat :=
  let f1 := a + 1
  let T := findTv n 1 f1
  let h0 := tv n (tv n (ePrime n b) T.2) T.1
  if b.testBit 0 then [T.2, T.1, h0] else [T.2, T.1, h0, f1]

/-- one level of `from_int_tuple` (`spf2.py:216-236`) -/
def stepFrom (n a b : Nat) (sub : List Nat) : List Nat :=
  (embedMat n sub).map fun row => tvs n row (stepHs n a b)

/-- `from_int_tuple` on the reversed list of pairs `(a_i, b_i)` (head = last pair = outermost level) -/
def fromRev : List (Nat × Nat) → List Nat
  | [] => []
  | (a, b) :: rest => stepFrom (rest.length + 1) a b (fromRev rest)

/-- `from_int_tuple(int_tuple)` with `int_tuple = (a_1,b_1,…,a_n,b_n)` given as the list of pairs. -/
def fromIntTuple (t : List (Nat × Nat)) : List Nat := fromRev t.reverse

/-- `rand_SpF2(n)` (`random/_spf2.py:32-58`): `from_int_tuple` of the tuple drawn entry by entry with `rng.randint(0, base-1)` -/
def randSpF2 (rawTuple : List (Nat × Nat)) : List Nat := fromIntTuple rawTuple

/-- remove columns `0` and `n` of a row (`spf2.py:261`) -/
def cutRow (n r : Nat) : Nat :=
  ofFn (2 * (n - 1)) fun j => if j < n - 1 then r.testBit (j + 1) else r.testBit (j + 2)

/-- `tw` of `to_int_tuple` (`spf2.py:251-252`) -/
def twOf (n : Nat) (mat : List Nat) : Nat :=
  let T := findTv n (mat.getD 0 0) 1
  tv n (tv n (mat.getD n 0) T.2) T.1

/-- the transvection list applied to the remaining rows (`spf2.py:253,259`) -/
def stepToHs (n : Nat) (mat : List Nat) : List Nat :=
  let T := findTv n (mat.getD 0 0) 1
  let tw := twOf n mat
  let h0 := ofFn (2 * n) fun j => if j = 0 then true else if j = n then false else tw.testBit j
  if tw.testBit 0 then [T.2, T.1, h0] else [T.2, T.1, h0, 1]

/-- the pair `(ai, bi)` (`spf2.py:254-255`) -/
def stepToPair (n : Nat) (mat : List Nat) : Nat × Nat :=
  let tw := twOf n mat
  (mat.getD 0 0 - 1, ofFn (2 * n - 1) fun j => if j < n then tw.testBit j else tw.testBit (j + 1))

/-- the `2(n-1)` matrix passed to the recursive call (`spf2.py:260-261`) -/
def stepToSub (n : Nat) (mat : List Nat) : List Nat :=
  (List.range (2 * (n - 1))).map fun k =>
    cutRow n (tvs n (if k < n - 1 then mat.getD (k + 1) 0 else mat.getD (k + 2) 0) (stepToHs n mat))

/-- `to_int_tuple` (`spf2.py:239-263`); `none` = `AssertionError` raised by `find_transvection` (first row zero). -/
def toIntTuple : (n : Nat) → List Nat → Option (List (Nat × Nat))
  | 0, _ => some []
  | n + 1, mat =>
    if mat.getD 0 0 = 0 then none
    else match toIntTuple n (stepToSub (n + 1) mat) with
      | none => none
      | some t => some (t ++ [stepToPair (n + 1) mat])

/-- `inverse` (`spf2.py:266-278`): `np.roll(mat.T, n, axis=(0,1))`, entry `(i,j)` = `mat[(j+n)%2n][(i+n)%2n]` -/
def inverse (n : Nat) (mat : List Nat) : List Nat :=
  (List.range (2 * n)).map fun i =>
    ofFn (2 * n) fun j => (mat.getD ((j + n) % (2 * n)) 0).testBit ((i + n) % (2 * n))

/-- `get_number(n,'base')` (`spf2.py:9-12`): `(4^x − 1, 4^x >> 1)` for `x = 1..n`, as pairs -/
def basePairs : Nat → List (Nat × Nat)
  | 0 => []
  | n + 1 => basePairs n ++ [(4 ^ (n + 1) - 1, 4 ^ (n + 1) / 2)]

/-- `get_number(n,'coset')` -/
def cosetNumbers (n : Nat) : List Nat := (basePairs n).map fun p => p.1 * p.2

/-- `get_number(n,'order')`: the running product `ret * (x-1) * (x>>1)` -/
def order (n : Nat) : Nat := (basePairs n).foldl (fun acc p => acc * p.1 * p.2) 1

/-- in-range test on the reversed list of pairs: the head is the pair of level `n = length` and must be
below the bases `(4^n − 1, 4^n / 2)` -/
def inRangeRev : List (Nat × Nat) → Bool
  | [] => true
  | (a, b) :: rest =>
    decide (a < 4 ^ (rest.length + 1) - 1) && decide (b < 4 ^ (rest.length + 1) / 2) && inRangeRev rest

/-- a tuple is in range for `from_int_tuple`: entry `i` below the `i`-th base of `get_number(n,'base')` -/
def inRange (t : List (Nat × Nat)) : Bool := inRangeRev t.reverse

/-! ### the symplectic group, matrix product -/

/-- entry `(i,j)` of `Λ = [[0,1],[1,0]]` -/
def lam (n i j : Nat) : Bool := (j == i + n) || (i == j + n)

/-- `S Λ Sᵀ = Λ`, well-formed: `2n` rows, every row below `4^n` -/
def isSp (n : Nat) (mat : List Nat) : Bool :=
  mat.length == 2 * n && mat.all (fun r => r < 4 ^ n) &&
  (List.range (2 * n)).all fun i => (List.range (2 * n)).all fun j =>
    ip n (mat.getD i 0) (mat.getD j 0) == lam n i j

/-- row vector times matrix over F2: xor of the rows `B[j]` with `a[j] = 1` -/
def vecMul (a : Nat) (B : List Nat) : (k : Nat) → Nat
  | 0 => 0
  | k + 1 => vecMul a B k ^^^ (if a.testBit k then B.getD k 0 else 0)

/-- matrix product over F2 of `m × m` matrices -/
def matMul (m : Nat) (A B : List Nat) : List Nat :=
  (List.range m).map fun i => vecMul (A.getD i 0) B m

def idMat (m : Nat) : List Nat := (List.range m).map fun i => 2 ^ i

/-! ### finite enumerations used by the `decide` theorems and the driver -/

/-- all in-range tuples of length `n`, in the mixed-radix order (last pair fastest) -/
def allTuples : Nat → List (List (Nat × Nat))
  | 0 => [[]]
  | n + 1 => (allTuples n).flatMap fun t =>
      (List.range (4 ^ (n + 1) - 1)).flatMap fun a =>
        (List.range (4 ^ (n + 1) / 2)).map fun b => t ++ [(a, b)]

/-- the `m × m` bit matrix number `code` (row `i` = bits `i·m … i·m+m-1`) -/
def matOfCode (m code : Nat) : List Nat :=
  (List.range m).map fun i => (code >>> (i * m)) % 2 ^ m

end Numqi.SpF2
