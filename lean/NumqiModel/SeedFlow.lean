/-
C10 — seed-flow DSL, its interpreter and the syntactic closedness check.  No Mathlib import.

A `Prog` is what `harness/c10.py:translate` extracts from the Python source of one function / class that
takes a `seed` (or a generator) parameter: which generators are created from what, which generators are
drawn from, which global generators are touched, and what every callee receives as *its* seed.
`Generated/SeedPrograms.lean` (rewritten on every run) contains one `Prog` per such function.

Semantics: a state machine over
  * `heap`    — the states of the explicit generator objects (`numpy.random.Generator`, `random.Random`),
  * `gNumpy`, `gPython`, `gTorch` — the states of the three process-global generators,
  * `entropy` — the OS entropy consumed by `default_rng()` / `Random()` without argument,
  * `trace`   — every number drawn so far (the returned value of the Python function is a deterministic
                function of its arguments and of this trace).
The bit generators themselves are a parameter (`GenModel`): the contract "a generator built from equal
integers yields equal streams" is exactly that `seedState`/`step` are functions.
-/
import NumqiModel.Scalar

namespace Numqi.SeedFlow

abbrev Var := Nat

/-- what is handed to a normaliser (`get_numpy_rng(·)`, `np.random.default_rng(·)`, `get_random_rng(·)`,
`random.Random(·)`) or bound to the `seed` parameter of a callee -/
inductive SeedExpr where
  /-- the enclosing function's own `seed` (or generator) parameter -/
  | param
  /-- a local variable holding a generator -/
  | var (v : Var)
  /-- an integer drawn from a local generator (`rng.randint(...)`, `np_rng.integers(...)`) -/
  | drawInt (v : Var)
  /-- literal `None`, a missing argument, or the callee's `seed` parameter left at its default `None` -/
  | none
  /-- a literal integer -/
  | const (k : Nat)
  /-- anything the translator could not classify -/
  | unknown
deriving DecidableEq, Repr, Inhabited

inductive Global where
  | numpy | python | torch
deriving DecidableEq, Repr, Inhabited

/-- statements in continuation style (the last argument is "the rest of the function body") -/
inductive Prog where
  | done
  /-- `dst = normalise(src)` -/
  | mkRng (dst : Var) (src : SeedExpr) (k : Prog)
  /-- a draw from the local generator `v` (`v.normal(...)`, `v.choice(...)`, …; also a user callback that is handed `v`) -/
  | draw (v : Var) (k : Prog)
  /-- a draw from (or re-seeding of) a process-global generator: `np.random.*`, `random.*`, `torch.rand*` -/
  | drawGlobal (g : Global) (k : Prog)
  /-- a call of translated program number `f`; `seed` is what is bound to the callee's seed parameter -/
  | call (f : Nat) (seed : SeedExpr) (k : Prog)
  /-- a callee that receives a generator (or may draw) and could not be resolved -/
  | unknownCall (k : Prog)
  /-- `if`: which branch is taken is a function of the arguments and of the numbers drawn so far -/
  | branch (id : Nat) (thn els : Prog) (k : Prog)
  /-- `for` / `while` / comprehension / nested function body: repeated while the oracle says so -/
  | loop (id : Nat) (body : Prog) (k : Prog)
deriving Repr, Inhabited

/-! ### closedness: decidable, syntactic -/

def closedExpr (defd : List Var) : SeedExpr → Bool
  | .param => true
  | .var v => defd.contains v
  | .drawInt v => defd.contains v
  | .const _ => true
  | .none => false
  | .unknown => false

/-- `closed nprog defd p`: no global draw, no unresolved callee, no generator created from `None`/entropy,
every generator that is used was created before (from the seed parameter, from another such generator, or
from a literal), every callee exists (`f < nprog`) and receives such a generator / an integer drawn from one. -/
def closed (nprog : Nat) : List Var → Prog → Bool
  | _, .done => true
  | defd, .mkRng dst src k => closedExpr defd src && closed nprog (dst :: defd) k
  | defd, .draw v k => defd.contains v && closed nprog defd k
  | _, .drawGlobal _ _ => false
  | defd, .call f s k => decide (f < nprog) && closedExpr defd s && closed nprog defd k
  | _, .unknownCall _ => false
  | defd, .branch _ t e k => closed nprog defd t && closed nprog defd e && closed nprog defd k
  | defd, .loop _ b k => closed nprog defd b && closed nprog defd k

/-- the verdict for program `p` of a list of `nprog` programs -/
def seedClosed (nprog : Nat) (p : Prog) : Bool := closed nprog [] p

/-! ### semantics -/

/-- the bit generators: how an integer seed / a chunk of OS entropy initialises a generator state, and one draw -/
structure GenModel where
  seedState : Nat → Nat
  step : Nat → Nat × Nat          -- state ↦ (value drawn, next state)

structure St where
  heap : List Nat
  gNumpy : Nat
  gPython : Nat
  gTorch : Nat
  entropy : Nat
  trace : List Nat
deriving Repr, Inhabited

/-- runtime value of a seed expression -/
inductive SeedVal where
  | none
  | int (k : Nat)
  | ref (r : Nat)
deriving DecidableEq, Repr, Inhabited

abbrev Locals := Var → Option Nat

def Locals.set (loc : Locals) (v : Var) (r : Nat) : Locals := fun w => if w = v then some r else loc w

/-- one draw from generator object `r` -/
def drawRef (G : GenModel) (r : Nat) (st : St) : Nat × St :=
  let (x, s') := G.step (st.heap.getD r 0)
  (x, { st with heap := st.heap.set r s', trace := st.trace ++ [x] })

def evalExpr (G : GenModel) (seed : SeedVal) (loc : Locals) (st : St) : SeedExpr → SeedVal × St
  | .param => (seed, st)
  | .var v => (match loc v with | some r => .ref r | none => .none, st)
  | .drawInt v =>
    match loc v with
    | some r => let (x, st') := drawRef G r st; (.int x, st')
    | none => (.none, st)
  | .none => (.none, st)
  | .const k => (.int k, st)
  | .unknown => (.none, st)

/-- `get_numpy_rng` / `get_random_rng` / `default_rng(x)` (`_public.py:4-38`): `None ↦` a new generator
from OS entropy, `int ↦` a new generator `Gen(int)`, generator `↦` the same object -/
def normalise (G : GenModel) (sv : SeedVal) (st : St) : Nat × St :=
  match sv with
  | .ref r => (r, st)
  | .int k => (st.heap.length, { st with heap := st.heap ++ [G.seedState k] })
  | .none => (st.heap.length, { st with heap := st.heap ++ [G.seedState st.entropy], entropy := st.entropy + 1 })

def drawGlobal (G : GenModel) (g : Global) (st : St) : St :=
  match g with
  | .numpy => let (x, s') := G.step st.gNumpy; { st with gNumpy := s', trace := st.trace ++ [x] }
  | .python => let (x, s') := G.step st.gPython; { st with gPython := s', trace := st.trace ++ [x] }
  | .torch => let (x, s') := G.step st.gTorch; { st with gTorch := s', trace := st.trace ++ [x] }

/-- an unresolved callee may do anything: it is modelled as reading every global generator and the entropy -/
def unknownEffect (st : St) : St :=
  { st with trace := st.trace ++ [st.gNumpy + st.gPython + st.gTorch + st.entropy], entropy := st.entropy + 1 }

/-- the interpreter.  `oracle id trace` decides branches and loop continuation (a function of the arguments —
fixed — and of the numbers drawn so far); `fuel` bounds the run (out of fuel: stop). -/
def exec (G : GenModel) (progs : List Prog) (oracle : Nat → List Nat → Bool) :
    Nat → Prog → SeedVal → Locals → St → St
  | 0, _, _, _, st => st
  | fuel + 1, p, seed, loc, st =>
    match p with
    | .done => st
    | .mkRng dst src k =>
      let (sv, st1) := evalExpr G seed loc st src
      let (r, st2) := normalise G sv st1
      exec G progs oracle fuel k seed (loc.set dst r) st2
    | .draw v k =>
      match loc v with
      | some r => exec G progs oracle fuel k seed loc (drawRef G r st).2
      | none => exec G progs oracle fuel k seed loc (drawGlobal G .numpy st)
    | .drawGlobal g k => exec G progs oracle fuel k seed loc (drawGlobal G g st)
    | .call f s k =>
      let (sv, st1) := evalExpr G seed loc st s
      let st2 := exec G progs oracle fuel (progs.getD f .done) sv (fun _ => none) st1
      exec G progs oracle fuel k seed loc st2
    | .unknownCall k => exec G progs oracle fuel k seed loc (unknownEffect st)
    | .branch id t e k =>
      let st1 := exec G progs oracle fuel (if oracle id st.trace then t else e) seed loc st
      exec G progs oracle fuel k seed loc st1
    | .loop id b k =>
      if oracle id st.trace then
        let st1 := exec G progs oracle fuel b seed loc st
        exec G progs oracle fuel (.loop id b k) seed loc st1
      else exec G progs oracle fuel k seed loc st

/-- what the caller can observe: the explicit generators and the numbers drawn -/
def St.obs (st : St) : List Nat × List Nat := (st.heap, st.trace)

/-- run program `i` of `progs` with `seed = int k` -/
def run (G : GenModel) (progs : List Prog) (oracle : Nat → List Nat → Bool) (fuel i k : Nat) (st : St) : St :=
  exec G progs oracle fuel (progs.getD i .done) (.int k) (fun _ => none) st

/-! ### a concrete generator for the driver (a linear congruential toy; any function would do) -/

def lcg : GenModel where
  seedState k := (k * 2654435761 + 12345) % 4294967296
  step s := let s' := (s * 1103515245 + 12345) % 4294967296; (s' / 65536 % 1024, s')

/-- the driver's oracle: parity-like function of the branch id and of the trace -/
def demoOracle (salt : Nat) (id : Nat) (trace : List Nat) : Bool :=
  (id * 7 + salt + trace.length * 3 + trace.foldl (· + ·) 0) % 3 == 0

end Numqi.SeedFlow
