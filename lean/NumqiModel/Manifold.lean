/-
Model of the trivialization maps `numqi.manifold.to_*` (`manifold/_internal.py`, `_stiefel.py`, `_compose.py`).
No Mathlib import.  Every map is written once, against operation-only classes, for a *real* scalar type `α`
(`Float` in the driver, `ℝ` in the theorems) and a *complex* scalar type `K` related to it by `CxOps α K`
(`CF` in the driver, `ℂ` in the theorems; the real branches use the same `K` with `isReal = true` and produce real entries).

Parameter vectors are total functions `θ : Nat → α` (`θ p = theta[..., p]`) with the length given separately.
External numerical routines (`expm`, `inv`, `cholesky`, the inverse square root of `eigh`/`PSDMatrixSqrtm`, `qr`) are
*parameters* of the maps that use them: the theorems take their contract as a hypothesis, the driver passes the
small textbook implementations of section `Num` below.
-/
import NumqiModel.Gellmann

namespace Numqi.Manifold
open Numqi.Gellmann (Mat sumFin Scalars)

/-- the transcendental functions used by the maps -/
class Transc (α : Type) where
  sqrt : α → α
  exp : α → α
  log : α → α
  sin : α → α
  cos : α → α
  /-- `np.log1p` (`log (1 + x)`, accurate for tiny `x`) -/
  log1p : α → α

/-- complex numbers `K` over the reals `α` -/
class CxOps (α : outParam Type) (K : Type) where
  ofReal : α → K
  conj : K → K
  I : K
  re : K → α
  im : K → α

export Transc (sqrt exp log sin cos log1p)
export CxOps (ofReal)

variable {α K : Type}

/-- `Σ_{i<n} f i` (left to right) -/
def sumRange [Zero α] [Add α] (n : Nat) (f : Nat → α) : α := ((List.range n).map f).sum

/-- `Π_{i<n} f i` -/
def prodRange [One α] [Mul α] (n : Nat) (f : Nat → α) : α := (List.range n).foldl (fun acc i => acc * f i) 1

/-- matrices as data (so that the driver evaluates every intermediate result once); semantically a matrix is the
function `get`. `NMat.get (NMat.ofFn m n f) i j = f i j` for `i < m`, `j < n`. -/
abbrev NMat (K : Type) := Array (Array K)

def NMat.ofFn (m n : Nat) (f : Nat → Nat → K) : NMat K :=
  Array.ofFn (n := m) fun i => Array.ofFn (n := n) fun j => f i.val j.val

def NMat.get [Zero K] (a : NMat K) (i j : Nat) : K := (a.getD i #[]).getD j 0

section real
variable [Zero α] [One α] [Add α] [Sub α] [Neg α] [Mul α] [Div α] [LT α] [DecidableLT α] [Transc α]

/-- `_np_softplus` (`_internal.py:172-175`): `log1p(exp(-sign(x) x)) + (1+sign(x))/2 x`; `torch.nn.functional.softplus`
is the same function. -/
def softplus (x : α) : α :=
  if 0 < x then log1p (exp (-x)) + x else log1p (exp x)

/-- `to_positive_real_exp` -/
def expMap (x : α) : α := exp x

/-- `scipy.special.expit` / `torch.sigmoid` -/
def sigmoid (x : α) : α := 1 / (1 + exp (-x))

/-- `to_open_interval` (`_internal.py:103-120`) -/
def openInterval (θ lower upper : α) : α := sigmoid θ * (upper - lower) + lower

/-- `‖θ[:n]‖²` -/
def normSq (n : Nat) (θ : Nat → α) : α := sumRange n fun i => θ i * θ i

/-- `np.linalg.norm(theta, axis=-1)` -/
def norm (n : Nat) (θ : Nat → α) : α := sqrt (normSq n θ)

/-- `to_ball` real branch (`_internal.py:420-443`, as repaired): `θ / (1 + ‖θ‖)`. -/
def ballVec (n : Nat) (θ : Nat → α) : Nat → α := fun i => θ i / (1 + norm n θ)

/-- `to_sphere_quotient` real branch (`_internal.py:490-511`): `θ / ‖θ‖`. -/
def sphereQuotientVec (n : Nat) (θ : Nat → α) : Nat → α := fun i => θ i / norm n θ

/-- `to_sphere_coordinate` real branch (`_internal.py:513-552`): `n` angles ↦ `n+1` coordinates
`[c₀, c₁ s₀, c₂ s₀ s₁, …, s₀⋯s_{n-1}]` (`cumprod` of the sines). -/
def sphereCoordVec (n : Nat) (θ : Nat → α) : Nat → α := fun i =>
  (if i < n then cos (θ i) else 1) * prodRange i fun j => sin (θ j)

/-- maximum of `θ[:n]` -/
def maxRange (n : Nat) (θ : Nat → α) : α :=
  (List.range n).foldl (fun acc i => if acc < θ i then θ i else acc) (θ 0)

/-- `scipy.special.softmax` / `torch.softmax` (`_internal.py:612-626`): `exp(θ - max) / Σ exp(θ - max)`. -/
def softmaxVec (n : Nat) (θ : Nat → α) : Nat → α :=
  let m := maxRange n θ
  let s := sumRange n fun j => exp (θ j - m)
  fun i => exp (θ i - m) / s

/-- `to_discrete_probability_sphere` (`_internal.py:598-610`) -/
def probSphereVec (n : Nat) (θ : Nat → α) : Nat → α := fun i =>
  sphereQuotientVec n θ i * sphereQuotientVec n θ i

/-- `DiscreteProbability.forward` with the class-level option `weight` (`_internal.py:579-596`): `p * (1/weight)`, a point of the weighted
simplex `Σ w_i q_i = 1` -/
def weightedProb (p w : Nat → α) : Nat → α := fun i => p i * (1 / w i)

end real

section cx
variable [Zero α] [One α] [Add α] [Sub α] [Neg α] [Mul α] [Div α] [LT α] [DecidableLT α] [Transc α]
variable [Zero K] [One K] [Add K] [Sub K] [Neg K] [Mul K] [CxOps α K]

local notation "ι" => (CxOps.ofReal (K := K))
local notation "𝕚" => (CxOps.I (K := K))

/-- `x[..., :h] + 1j * x[..., h:]` (`torch.complex(x[..., :h], x[..., h:])`) -/
def pairCx (h : Nat) (x : Nat → α) : Nat → K := fun j => ι (x j) + 𝕚 * ι (x (h + j))

/-- `exp(1j*x)` -/
def cis (x : α) : K := ι (cos x) + 𝕚 * ι (sin x)

/-- `Σ_{k<n} f k` in `K` -/
def sumK (n : Nat) (f : Nat → K) : K := ((List.range n).map f).sum

/-- matrix product of an `l × m` and an `m × n` matrix -/
def matMul (l m n : Nat) (A B : NMat K) : NMat K :=
  NMat.ofFn l n fun i j => sumK m fun k => A.get i k * B.get k j

/-- conjugate transpose of an `m × n` matrix -/
def conjT (m n : Nat) (A : NMat K) : NMat K := NMat.ofFn n m fun i j => CxOps.conj (A.get j i)

/-- `np.tril_indices(dim, -1, rank)` / `torch.tril_indices(dim, rank, -1)`: strictly lower part of a `dim × rank`
matrix in row-major order -/
def trilPairs (dim rank : Nat) : List (Nat × Nat) :=
  (List.range dim).flatMap fun r => (List.range (min r rank)).map fun c => (r, c)

/-- the `dim × rank` Cholesky-like factor of `to_trace1_psd_cholesky` (`_internal.py:210-265`):
diagonal `softplus(θ[:rank])`, strictly lower part `θ[rank:]` in `tril_indices` order (real block, then imaginary block),
everything divided by `sqrt(‖θ[rank:]‖² + ‖softplus(θ[:rank])‖²)`.  (Since c525cad the implementation first rescales both blocks by their
largest entry to avoid float32 underflow of the squares; the exact map is scale invariant, so the model is unchanged.) -/
def psdCholFactor (dim rank : Nat) (isReal : Bool) (θ : Nat → α) : NMat K :=
  let N0 := rank * (2 * dim - rank + 1) / 2
  let nOff := if isReal then N0 - rank else 2 * (N0 - rank)
  let nf : α := sqrt (normSq nOff (fun p => θ (rank + p)) + normSq rank (fun i => softplus (θ i)))
  NMat.ofFn dim rank fun r c =>
    if r = c then ι (softplus (θ c) / nf)
    else if c < r then
      let p := (trilPairs dim rank).idxOf (r, c)
      if isReal then ι (θ (rank + p) / nf)
      else ι (θ (rank + p) / nf) + 𝕚 * ι (θ (rank + (N0 - rank) + p) / nf)
    else 0

/-- `to_trace1_psd_cholesky`: `L Lᴴ`. -/
def psdCholesky (dim rank : Nat) (isReal : Bool) (θ : Nat → α) : NMat K :=
  let L : NMat K := psdCholFactor dim rank isReal θ
  matMul dim rank dim L (conjT dim rank L)

/-- the unit vectors of `to_trace1_psd_ensemble` as the rows of a `rank × dim` matrix -/
def ensemblePsi (dim rank : Nat) (isReal : Bool) (θ : Nat → α) : NMat K :=
  let m := if isReal then dim else 2 * dim
  NMat.ofFn rank dim fun k i =>
    let x : Nat → α := sphereQuotientVec m fun q => θ (rank + k * m + q)
    if isReal then ι (x i) else pairCx (K := K) dim x i

/-- `to_trace1_psd_ensemble` (`_internal.py:178-206`): `Σ_k p_k ψ_k ψ_kᴴ`, `p = softmax(θ[:rank])`,
`ψ_k = to_sphere_quotient(θ[rank + k m : rank + (k+1) m])`. -/
def psdEnsemble (dim rank : Nat) (isReal : Bool) (θ : Nat → α) : NMat K :=
  let p : NMat K := NMat.ofFn 1 rank fun _ k => ι (softmaxVec rank θ k)
  let psi : NMat K := ensemblePsi dim rank isReal θ
  NMat.ofFn dim dim fun i j => sumK rank fun k => p.get 0 k * psi.get k i * CxOps.conj (psi.get k j)

/-- `np.triu_indices(dim)`: upper triangle with the diagonal, row-major -/
def triuPairs (dim : Nat) : List (Nat × Nat) :=
  (List.range dim).flatMap fun r => (List.range' r (dim - r)).map fun c => (r, c)

/-- Frobenius norm squared of an `m × n` complex matrix, as a real number -/
def frobSq (m n : Nat) (A : NMat K) : α :=
  sumRange m fun i => sumRange n fun j => CxOps.re (CxOps.conj (A.get i j) * A.get i j)

/-- `A / x` for a real `x` (numpy/torch divide the real and the imaginary part) -/
def divReal (m n : Nat) (A : NMat K) (x : α) : NMat K :=
  NMat.ofFn m n fun r c => ι (CxOps.re (A.get r c) / x) + 𝕚 * ι (CxOps.im (A.get r c) / x)

variable [NatCast K]

/-- `gellmann_basis_to_matrix(v)` evaluated on Nat indices (`0` outside `dim × dim`) -/
def synthesisN (S : Scalars K) (dim : Nat) (v : Nat → K) (r c : Nat) : K :=
  if h : r < dim ∧ c < dim then Gellmann.synthesis S dim v ⟨r, h.1⟩ ⟨c, h.2⟩ else 0

/-- the matrix of `to_symmetric_matrix` before the optional normalisation (`_internal.py:309-382`).
`S` are the Gell-Mann scalars over `K` (used by the traceless placements). -/
def symmetricRaw (S : Scalars K) (dim : Nat) (isReal isTrace0 : Bool) (θ : Nat → α) : NMat K :=
  let N0 := dim * (dim - 1) / 2
  match isReal, isTrace0 with
  | true, true =>
    -- `gellmann_basis_to_matrix([θ[:N0], 0_{N0}, θ[N0:], 0]).real`
    let v : Nat → K := fun p =>
      if p < N0 then ι (θ p) else if p < 2 * N0 then 0 else if p < dim * dim - 1 then ι (θ (p - N0)) else 0
    NMat.ofFn dim dim fun r c => ι (CxOps.re (synthesisN S dim v r c))
  | true, false =>
    -- `ret[triu] = θ; ret + retᵀ`
    NMat.ofFn dim dim fun r c =>
      if r < c then ι (θ ((triuPairs dim).idxOf (r, c)))
      else if c < r then ι (θ ((triuPairs dim).idxOf (c, r)))
      else ι (θ ((triuPairs dim).idxOf (r, c)) + θ ((triuPairs dim).idxOf (r, c)))
  | false, true =>
    -- `gellmann_basis_to_matrix([θ, 0])`
    let v : Nat → K := fun p => if p < dim * dim - 1 then ι (θ p) else 0
    NMat.ofFn dim dim (synthesisN S dim v)
  | false, false =>
    -- `M = θ.reshape(dim,dim)`; `triu(M) + triu(M)ᵀ + 1j (tril(M,-1) - tril(M,-1)ᵀ)`
    NMat.ofFn dim dim fun r c =>
      if r < c then ι (θ (r * dim + c)) + 𝕚 * ι (-θ (c * dim + r))
      else if c < r then ι (θ (c * dim + r)) + 𝕚 * ι (θ (r * dim + c))
      else ι (θ (r * dim + c) + θ (r * dim + c))

/-- `to_symmetric_matrix` -/
def symmetricMatrix (S : Scalars K) (dim : Nat) (isReal isTrace0 isNorm1 : Bool) (θ : Nat → α) : NMat K :=
  let A := symmetricRaw S dim isReal isTrace0 θ
  if isNorm1 then divReal dim dim A (sqrt (frobSq dim dim A)) else A

/-- generator of `to_special_orthogonal_exp/cayley` (`_internal.py:694-713, 745-771`):
real: `gellmann_basis_to_matrix([0_{N0}, θ, 0_dim]).imag` (antisymmetric block); complex: `1j * gellmann_basis_to_matrix([θ, 0])`. -/
def soGenerator (S : Scalars K) (dim : Nat) (isReal : Bool) (θ : Nat → α) : NMat K :=
  let N0 := dim * (dim - 1) / 2
  if isReal then
    let v : Nat → K := fun p => if p < N0 then 0 else if p < 2 * N0 then ι (θ (p - N0)) else 0
    NMat.ofFn dim dim fun r c => ι (CxOps.im (synthesisN S dim v r c))
  else
    let v : Nat → K := fun p => if p < dim * dim - 1 then ι (θ p) else 0
    NMat.ofFn dim dim fun r c => 𝕚 * synthesisN S dim v r c

/-- `to_special_orthogonal_exp`: `expm(generator)`; `expm` is the external routine. -/
def soExp (expm : NMat K → NMat K) (S : Scalars K) (dim : Nat) (isReal : Bool) (θ : Nat → α) : NMat K :=
  expm (soGenerator S dim isReal θ)

/-- `M^(k+1)` as the loop `ret = ret @ tmp1` of the implementation -/
def matPow (n : Nat) (M : NMat K) : Nat → NMat K
  | 0 => M
  | k + 1 => matMul n n n (matPow n M k) M

/-- `to_special_orthogonal_cayley`: `(inv(1+A) (1-A))^order`; `inv` is the external routine. -/
def soCayley (inv : NMat K → NMat K) (S : Scalars K) (dim order : Nat) (isReal : Bool) (θ : Nat → α) : NMat K :=
  let A := soGenerator S dim isReal θ
  let P := NMat.ofFn dim dim fun r c => (if r = c then 1 else 0) + A.get r c
  let Q := NMat.ofFn dim dim fun r c => (if r = c then 1 else 0) - A.get r c
  let T := matMul dim dim dim (inv P) Q
  matPow dim T (order - 1)

/-- `Stiefel.forward` for `method='so-exp'` / `'so-cayley'` (`_stiefel.py:68-71`): the first `rank` columns `U[..., :rank]` of the SO/SU chart -/
def soColumns (dim rank : Nat) (U : NMat K) : NMat K := NMat.ofFn dim rank fun r c => U.get r c

/-- the `dim × rank` matrix of `to_stiefel_polar` / `to_stiefel_qr` (`_stiefel.py:103-119, 212-221`):
`θ.reshape(dim,rank)`, complex: `θ.reshape(2,dim,rank)[0] + 1j θ.reshape(2,dim,rank)[1]`. -/
def stiefelMat (dim rank : Nat) (isReal : Bool) (θ : Nat → α) : NMat K := NMat.ofFn dim rank fun r c =>
  if isReal then ι (θ (r * rank + c))
  else ι (θ (r * rank + c)) + 𝕚 * ι (θ (dim * rank + r * rank + c))

/-- `to_stiefel_polar`: `rank = 1`: `mat/‖mat‖`; else `mat @ (matᴴ mat)^{-1/2}`; `invSqrt` is the external routine
(`eigh` in numpy, `inv(PSDMatrixSqrtm)` in torch). -/
def stiefelPolar (invSqrt : NMat K → NMat K) (dim rank : Nat) (isReal : Bool) (θ : Nat → α) : NMat K :=
  let M := stiefelMat dim rank isReal θ
  if rank = 1 then divReal dim rank M (sqrt (frobSq dim rank M))
  else matMul dim rank rank M (invSqrt (matMul rank dim rank (conjT dim rank M) M))

/-- `to_stiefel_qr`: the `Q` factor; `qrQ` is the external routine. -/
def stiefelQR (qrQ : NMat K → NMat K) (dim rank : Nat) (isReal : Bool) (θ : Nat → α) : NMat K :=
  qrQ (stiefelMat dim rank isReal θ)

/-- the matrix `matL` of `to_stiefel_choleskyL` (`_stiefel.py:130-191`): unit lower triangular `rank × rank` block from
`θ[:N1]` (`+ 1j θ[N1:2N1]`, `tril_indices(rank,-1)` order), below it `θ[N1:]` (real) or `θ[2N1:]` as `(2, dim-rank, rank)` (complex). -/
def cholLMat (dim rank : Nat) (isReal : Bool) (θ : Nat → α) : NMat K :=
  let N1 := rank * (rank + 1) / 2 - rank
  NMat.ofFn dim rank fun r c =>
    if r < rank then
      if r = c then 1
      else if c < r then
        let p := (trilPairs rank rank).idxOf (r, c)
        if isReal then ι (θ p) else ι (θ p) + 𝕚 * ι (θ (N1 + p))
      else 0
    else
      let q := (r - rank) * rank + c
      if isReal then ι (θ (N1 + q))
      else ι (θ (2 * N1 + q)) + 𝕚 * ι (θ (2 * N1 + (dim - rank) * rank + q))

/-- `to_stiefel_choleskyL`: `matL @ inv(cholesky(matLᴴ matL)ᴴ)`. -/
def stiefelCholL (chol inv : NMat K → NMat K) (dim rank : Nat) (isReal : Bool) (θ : Nat → α) : NMat K :=
  let L := cholLMat dim rank isReal θ
  let C := chol (matMul rank dim rank (conjT dim rank L) L)
  matMul dim rank rank L (inv (conjT rank rank C))

/-! ### Euler–Hurwitz angles (`_stiefel.py:232-388`) -/

/-- offset of block `j` in the angle list: `Σ_{i<j} (dim - rank + i)` -/
def eulerOff (dim rank j : Nat) : Nat := ((List.range j).map fun i => dim - rank + i).sum

/-- the Givens chain: `a_0 = 0`, `a_{I+1} = (c_I e_I) b_I + (s_I e_I) a_I` where `b_I = prev I`. -/
def eulerChain (ct st : Nat → K) (ep : Nat → K) (prev : Nat → K) : Nat → K
  | 0 => 0
  | I + 1 => (ct I * ep I) * prev I + (st I * ep I) * eulerChain ct st ep prev I

/-- one step of the recursion: from the `N0 × j` matrix `prev` to the `(N0+1) × (j+1)` matrix
(`rowJ` is the new **first** column, the old columns are rotated by the Givens chain).
`tθ I`, `tφ I` are the angles of this block (`tφ = 0` in the real case). -/
def eulerStep (N0 j : Nat) (tθ tφ : Nat → α) (prev : NMat K) : NMat K :=
  let ct : Nat → K := fun I => ι (cos (tθ I))
  let st : Nat → K := fun I => ι (sin (tθ I))
  let ep : Nat → K := fun I => cis (tφ I)
  let em : Nat → K := fun I => CxOps.conj (cis (K := K) (tφ I))
  NMat.ofFn (N0 + 1) (j + 1) fun r c =>
    if c = 0 then
      -- `rowJ = sphereCoord(θ) * exp(1j (cumsum([0,φ]) - [φ,0]))`
      ι (sphereCoordVec N0 tθ r) * cis (sumRange r tφ - (if r < N0 then tφ r else 0))
    else
      let a := eulerChain ct st ep (fun I => prev.get I (c - 1))
      if r < N0 then (ct r * em r) * a r - (st r * em r) * prev.get r (c - 1) else a N0

/-- after `j` blocks: a `(dim-rank+j) × j` matrix -/
def eulerRec (dim rank : Nat) (isReal : Bool) (θ : Nat → α) : Nat → NMat K
  | 0 => #[]
  | j + 1 =>
    let N0 := dim - rank + j
    let off := eulerOff dim rank j
    let tθ : Nat → α := fun I => if isReal then θ (off + I) else θ (2 * (off + I))
    let tφ : Nat → α := fun I => if isReal then 0 else θ (2 * (off + I) + 1)
    eulerStep N0 j tθ tφ (eulerRec dim rank isReal θ j)

/-- `to_stiefel_euler(theta, dim, rank, with_phase)` -/
def stiefelEuler (dim rank : Nat) (isReal withPhase : Bool) (θ : Nat → α) : NMat K :=
  let E : NMat K := eulerRec dim rank isReal θ rank
  let nAng := dim * rank - rank * (rank + 1) / 2
  if withPhase && !isReal then NMat.ofFn dim rank fun r c => E.get r c * cis (θ (2 * nAng + c)) else E

/-! ### compositions (`_compose.py`) -/

/-- `QuantumChannel.forward`, `return_kind='kraus'`: `mat.reshape(choi_rank, dim_out, dim_in)`;
entry `(s, o, i)` of the Kraus stack -/
def krausOfStiefel (dimOut : Nat) (X : NMat K) (s o i : Nat) : K := X.get (s * dimOut + o) i

/-- `return_kind='choi'`: `einsum(K,[0,1,2], K.conj(),[0,3,4], [1,2,3,4])` -/
def choiOfKraus (choiRank : Nat) (Ks : Nat → Nat → Nat → K) (o i o' i' : Nat) : K :=
  sumK choiRank fun s => Ks s o i * CxOps.conj (Ks s o' i')

/-- `SeparableDensityMatrix.forward`: `Σ_k p_k (a_k a_kᴴ) ⊗ (b_k b_kᴴ)` as the 4-index tensor `[1,2,3,4]`
(`ρ[i,j,i',j'] = Σ_k p_k a_k[i] conj(a_k[i']) b_k[j] conj(b_k[j'])`); `a`, `b` are `n × dA`, `n × dB`. -/
def separableDM (n : Nat) (p : Nat → K) (a b : NMat K) (i j i' j' : Nat) : K :=
  sumK n fun k => p k * a.get k i * CxOps.conj (a.get k i') * b.get k j * CxOps.conj (b.get k j')

end cx

/-! ## executable instances -/

/-- complex binary64 -/
structure CF where
  re : Float
  im : Float
deriving Inhabited

namespace CF
instance : Zero CF := ⟨⟨0, 0⟩⟩
instance : One CF := ⟨⟨1, 0⟩⟩
instance : Add CF := ⟨fun a b => ⟨a.re + b.re, a.im + b.im⟩⟩
instance : Sub CF := ⟨fun a b => ⟨a.re - b.re, a.im - b.im⟩⟩
instance : Neg CF := ⟨fun a => ⟨-a.re, -a.im⟩⟩
instance : Mul CF := ⟨fun a b => ⟨a.re * b.re - a.im * b.im, a.re * b.im + a.im * b.re⟩⟩
instance : NatCast CF := ⟨fun n => ⟨n.toFloat, 0⟩⟩
def conj (a : CF) : CF := ⟨a.re, -a.im⟩
def normSq (a : CF) : Float := a.re * a.re + a.im * a.im
def inv (a : CF) : CF := let d := a.normSq; ⟨a.re / d, -a.im / d⟩
def smul (x : Float) (a : CF) : CF := ⟨x * a.re, x * a.im⟩
end CF

/-- `log1p` in binary64 (Kahan's correction; `Float` has no `log1p`) -/
def floatLog1p (y : Float) : Float := let u := 1 + y; if u == 1 then y else Float.log u * y / (u - 1)

instance : Transc Float := ⟨Float.sqrt, Float.exp, Float.log, Float.sin, Float.cos, floatLog1p⟩
instance : CxOps Float CF := ⟨fun x => ⟨x, 0⟩, CF.conj, ⟨0, 1⟩, CF.re, CF.im⟩

/-- Gell-Mann scalars in binary64, complex carrier -/
def cfScalars (d : Nat) : Scalars CF where
  half := ⟨0.5, 0⟩
  I := ⟨0, 1⟩
  cD := fun k => ⟨Float.sqrt (2 / (k.toFloat * (k.toFloat + 1))), 0⟩
  cI := ⟨Float.sqrt (2 / d.toFloat), 0⟩
  aD := fun k => ⟨1 / Float.sqrt (2 * k.toFloat * (k.toFloat + 1)), 0⟩
  aI := ⟨1 / Float.sqrt (2 * d.toFloat), 0⟩
  invD := ⟨1 / d.toFloat, 0⟩

/-! ### small textbook numerics for the external routines (driver only, never inside a theorem) -/
namespace Num

abbrev CMat := Array (Array CF)

def ofFn {m n : Nat} (M : Fin m → Fin n → CF) : CMat := Array.ofFn fun i => Array.ofFn fun j => M i j
def toFn (m n : Nat) (a : CMat) : Fin m → Fin n → CF := fun i j => (a.getD i.val #[]).getD j.val 0
def get (a : CMat) (i j : Nat) : CF := (a.getD i #[]).getD j 0
def ident (n : Nat) : CMat := Array.ofFn (n := n) fun i => Array.ofFn (n := n) fun j => if i.val = j.val then (1 : CF) else 0
def mul (a b : CMat) : CMat :=
  let n := b.size
  let m := (b.getD 0 #[]).size
  a.map fun row => Array.ofFn (n := m) fun j => (List.range n).foldl (fun acc k => acc + row.getD k 0 * get b k j.val) (0 : CF)
def add (a b : CMat) : CMat := a.mapIdx fun i row => row.mapIdx fun j x => x + get b i j
def scale (s : Float) (a : CMat) : CMat := a.map fun row => row.map (CF.smul s)
def ctrans (a : CMat) : CMat :=
  let m := a.size
  let n := (a.getD 0 #[]).size
  Array.ofFn (n := n) fun j => Array.ofFn (n := m) fun i => (get a i.val j.val).conj
def maxAbs (a : CMat) : Float := a.foldl (fun acc row => row.foldl (fun acc x => let v := Float.sqrt x.normSq; if acc < v then v else acc) acc) 0

/-- Gauss–Jordan inverse with partial pivoting -/
def inv (a : CMat) : CMat := Id.run do
  let n := a.size
  let mut A := a
  let mut B := ident n
  for c in [0:n] do
    -- pivot
    let mut piv := c
    let mut best := (get A c c).normSq
    for r in [c+1:n] do
      let v := (get A r c).normSq
      if best < v then
        piv := r; best := v
    if piv ≠ c then
      let rc := A.getD c #[]; let rp := A.getD piv #[]
      A := (A.set! c rp).set! piv rc
      let bc := B.getD c #[]; let bp := B.getD piv #[]
      B := (B.set! c bp).set! piv bc
    let pinv := (get A c c).inv
    A := A.set! c ((A.getD c #[]).map (· * pinv))
    B := B.set! c ((B.getD c #[]).map (· * pinv))
    let rowA := A.getD c #[]
    let rowB := B.getD c #[]
    for r in [0:n] do
      if r ≠ c then
        let f := get A r c
        A := A.set! r ((A.getD r #[]).mapIdx fun j x => x - f * rowA.getD j 0)
        B := B.set! r ((B.getD r #[]).mapIdx fun j x => x - f * rowB.getD j 0)
  return B

/-- lower Cholesky factor of a Hermitian positive definite matrix (`np.linalg.cholesky`) -/
def cholesky (a : CMat) : CMat := Id.run do
  let n := a.size
  let mut L : CMat := Array.replicate n (Array.replicate n (0 : CF))
  for j in [0:n] do
    let mut s : Float := (get a j j).re
    for k in [0:j] do
      s := s - (get L j k).normSq
    let d := Float.sqrt s
    L := L.set! j ((L.getD j #[]).set! j ⟨d, 0⟩)
    for i in [j+1:n] do
      let mut t : CF := get a i j
      for k in [0:j] do
        t := t - get L i k * (get L j k).conj
      L := L.set! i ((L.getD i #[]).set! j (CF.smul (1 / d) t))
  return L

/-- `expm` by scaling and squaring with a degree-20 Taylor polynomial -/
def expm (a : CMat) : CMat := Id.run do
  let n := a.size
  let nrm := maxAbs a * n.toFloat
  let mut s : Nat := 0
  let mut sc : Float := 1
  while nrm * sc > 0.25 && s < 60 do
    s := s + 1; sc := sc / 2
  let A := scale sc a
  let mut term := ident n
  let mut sum := ident n
  for k in [1:21] do
    term := scale (1 / k.toFloat) (mul term A)
    sum := add sum term
  for _ in [0:s] do
    sum := mul sum sum
  return sum

/-- inverse square root of a Hermitian positive definite matrix by the Denman–Beavers iteration -/
def invSqrt (a : CMat) : CMat := Id.run do
  let n := a.size
  -- scale to norm about one for fast convergence
  let t := maxAbs a * n.toFloat
  let t := if t > 0 then t else 1
  let mut Y := scale (1 / t) a
  let mut Z := ident n
  for _ in [0:60] do
    let Yi := inv Y
    let Zi := inv Z
    let Y' := scale 0.5 (add Y Zi)
    let Z' := scale 0.5 (add Z Yi)
    Y := Y'; Z := Z'
  return scale (1 / Float.sqrt t) Z

/-- `Q` of the reduced QR decomposition with positive diagonal of `R` (modified Gram–Schmidt, applied twice) -/
def qrQ (a : CMat) : CMat := Id.run do
  let m := a.size
  let n := (a.getD 0 #[]).size
  -- work on columns
  let mut cols : Array (Array CF) := Array.ofFn (n := n) fun j => Array.ofFn (n := m) fun i => get a i.val j.val
  for j in [0:n] do
    let mut v := cols.getD j #[]
    for _ in [0:2] do
      for k in [0:j] do
        let q := cols.getD k #[]
        let dot : CF := (List.range m).foldl (fun acc i => acc + (q.getD i 0).conj * v.getD i 0) 0
        v := v.mapIdx fun i x => x - dot * q.getD i 0
    let nr := Float.sqrt (v.foldl (fun acc x => acc + x.normSq) 0)
    cols := cols.set! j (v.map (CF.smul (1 / nr)))
  return Array.ofFn (n := m) fun i => Array.ofFn (n := n) fun j => (cols.getD j.val #[]).getD i.val 0

end Num

/-! ## `_ABk.py`: symmetric-extension Hermitian manifolds (pure index bookkeeping, exact over any ring) -/
namespace ABk
variable {R : Type} [Zero R] [Add R] [Mul R] [Neg R]

/-- `ABkHermitian.forward` (`_ABk.py:21-25`): `(1j*[0, θ_skew])[index_skew] * factor_skew + θ_sym[index_sym]`.
The three tables come from `numqi.group.symext.get_ABk_symmetry_index` (a contract: the harness checks on the live tables the
hypotheses under which the theorems hold). -/
def hermitian (I : R) (idxSym idxSkew : Nat → Nat → Nat) (fac : Nat → Nat → R) (θsym θskew : Nat → R) (r c : Nat) : R :=
  (I * (if idxSkew r c = 0 then 0 else θskew (idxSkew r c - 1))) * fac r c + θsym (idxSym r c)

/-- digits of `r` in the mixed radix `[dimA, dimB, …, dimB]` (most significant first) with the `B` digits `i`, `j` exchanged:
the row permutation of `ABk_permutate(mat, i, j, dimA, dimB, kext)` (`_ABk.py:58-64`), i.e. `ret[r,c] = mat[perm r, perm c]`. -/
def permIndex (dimB kext i j r : Nat) : Nat :=
  let digit (q : Nat) : Nat := r / dimB ^ (kext - 1 - q) % dimB      -- digit of copy B_q, q = 0..kext-1
  let a := r / dimB ^ kext
  let q' (q : Nat) : Nat := if q = i then j else if q = j then i else q
  a * dimB ^ kext + ((List.range kext).map fun q => digit (q' q) * dimB ^ (kext - 1 - q)).sum

/-- strict upper triangle of a `d × d` matrix, row-major (`torch.triu_indices(d,d,offset=1)`) -/
def triuStrict (d : Nat) : List (Nat × Nat) :=
  (List.range d).flatMap fun r => (List.range' (r + 1) (d - (r + 1))).map fun c => (r, c)

/-- `ABk2localHermitian.forward` (`_ABk.py:43-49`): `(coeff_sym @ M[triu])[index_sym] + 1j (coeff_skew @ Mᵀ[triu₁])[index_skew]`
for the `d × d` real parameter matrix `M` (`d = dimA·dimB`). -/
def twoLocal (I : R) (d : Nat) (coefS : Nat → Nat → R) (idxS : Nat → Nat → Nat) (coefK : Nat → Nat → R) (idxK : Nat → Nat → Nat)
    (M : Nat → Nat → R) (r c : Nat) : R :=
  let p0 : List R := (triuPairs d).map fun x => M x.1 x.2
  let p1 : List R := (triuStrict d).map fun x => M x.2 x.1
  let dotS := ((List.range p0.length).map fun q => coefS (idxS r c) q * p0.getD q 0).sum
  let dotK := ((List.range p1.length).map fun q => coefK (idxK r c) q * p1.getD q 0).sum
  dotS + I * dotK

/-- `ABk2localHermitian.to_AB` (`_ABk.py:51-56`): the Hermitian `d × d` matrix `H_AB` encoded by the real parameter matrix `M` — upper triangle
(diagonal included) = real part, strict lower triangle = imaginary part of the transposed position:
`triu(M) + triu(M)ᵀ - diag + 1j (tril(M,-1)ᵀ - tril(M,-1))`. -/
def toAB (I : R) (M : Nat → Nat → R) (r c : Nat) : R :=
  if r < c then M r c + I * M c r else if c < r then M c r + -(I * M r c) else M r r

/-- `np.kron(H, eye(m))[r, c]` -/
def embed0 (m : Nat) (H : Nat → Nat → R) (r c : Nat) : R := if r % m = c % m then H (r / m) (c / m) else 0

/-- what `ABk2localHermitian.forward` computes through the tables of `ABk_2local_symmetry_index` / `ABk_2local_skew_symmetry_index` / `unique_index_set`:
`Σ_{x<kext} P_{0x} (H_AB ⊗ 1_{B^{kext-1}}) P_{0x}` — the two-local Hamiltonian with `H_AB` acting on `A` and on each copy `B_x` in turn
(`P_{00} = id`; `ABk_permutate(mat,0,x)[r,c] = mat[π r, π c]`, `π = permIndex`). -/
def sumEmbed (I : R) (dimB kext : Nat) (M : Nat → Nat → R) (r c : Nat) : R :=
  ((List.range kext).map fun x =>
    embed0 (dimB ^ (kext - 1)) (toAB I M) (permIndex dimB kext 0 x r) (permIndex dimB kext 0 x c)).sum

end ABk

/-! ## C02: parameter counts of the module constructors and manifold dimensions -/
namespace Count

/-- `r(r+1)/2` -/
def tri (r : Nat) : Nat := r * (r + 1) / 2

/-- `Trace1PSD.__init__` (`_internal.py:147-157`) -/
def psdParam (dim rank : Nat) (isReal : Bool) (cholesky : Bool) : Nat :=
  if cholesky then
    let N0 := (rank * (2 * dim - rank + 1)) / 2
    if isReal then N0 else 2 * N0 - rank
  else
    if isReal then rank + dim * rank else rank + 2 * dim * rank

/-- dimension of the trace-one PSD matrices of rank `≤ r` (`dr - r(r-1)/2 - 1` real, `2dr - r² - 1` complex) -/
def psdDim (dim rank : Nat) (isReal : Bool) : Nat :=
  if isReal then dim * rank - rank * (rank - 1) / 2 - 1 else 2 * dim * rank - rank * rank - 1

/-- `SymmetricMatrix.__init__` (`_internal.py:290-296`) -/
def symParam (dim : Nat) (isReal isTrace0 : Bool) : Nat :=
  (if isReal then (dim * (dim + 1)) / 2 else dim * dim) - (if isTrace0 then 1 else 0)

/-- number of independent real entries of a real symmetric (`i ≤ j` pairs) / complex Hermitian (`d²`) matrix, minus one if traceless -/
def symEntries (dim : Nat) (isReal isTrace0 : Bool) : Nat :=
  (if isReal then (triuPairs dim).length else dim * dim) - (if isTrace0 then 1 else 0)

/-- `is_norm1` removes one more dimension -/
def symDim (dim : Nat) (isReal isTrace0 isNorm1 : Bool) : Nat := symParam dim isReal isTrace0 - (if isNorm1 then 1 else 0)

/-- `PositiveReal.__init__` / `OpenInterval.__init__` (`_internal.py:34, 94`): `1 if batch_size is None else batch_size` independent scalars
(`bs = 0` encodes `None`) -/
def scalarParam (bs : Nat) : Nat := if bs = 0 then 1 else bs

/-- `Ball.__init__` -/
def ballParam (dim : Nat) (isReal : Bool) : Nat := if isReal then dim else 2 * dim

/-- `Sphere.__init__` (`_internal.py:467-476`) -/
def sphereParam (dim : Nat) (isReal quotient : Bool) : Nat :=
  if isReal then (if quotient then dim else dim - 1) else (if quotient then 2 * dim else 2 * dim - 1)

def sphereDim (dim : Nat) (isReal : Bool) : Nat := if isReal then dim - 1 else 2 * dim - 1

/-- `DiscreteProbability.__init__` -/
def probParam (dim : Nat) : Nat := dim
def simplexDim (dim : Nat) : Nat := dim - 1

/-- `SpecialOrthogonal.__init__` (`_internal.py:652-657`) -/
def soParam (dim : Nat) (isReal : Bool) : Nat := if isReal then dim * (dim - 1) / 2 else dim * dim - 1
/-- dimension of `so(d)` / `su(d)` counted as the number of generators of the Gell-Mann basis that the chart uses:
the antisymmetric block (`pairs d`) for `SO(d)`; symmetric + antisymmetric + diagonal traceless elements for `SU(d)` -/
def soDim (dim : Nat) (isReal : Bool) : Nat :=
  if isReal then (Gellmann.pairs dim).length else 2 * (Gellmann.pairs dim).length + (Gellmann.diagIdx dim).length

/-- Stiefel methods -/
inductive StMethod | choleskyL | qr | polar | soExp | soCayley | euler
deriving DecidableEq

/-- `Stiefel.__init__` (`_stiefel.py:40-53`) -/
def stiefelParam (dim rank : Nat) (isReal : Bool) (m : StMethod) (eulerWithPhase : Bool) : Nat :=
  match m with
  | .qr | .polar => if isReal then dim * rank else 2 * dim * rank
  | .choleskyL => (dim * rank - (rank * (rank + 1)) / 2) * (if isReal then 1 else 2)
  | .soExp | .soCayley => if isReal then (dim * (dim - 1)) / 2 else dim * dim - 1
  | .euler =>
    if isReal then dim * rank - rank * (rank + 1) / 2
    else if eulerWithPhase then 2 * dim * rank - rank * rank else 2 * dim * rank - rank * (rank + 1)

/-- dimension of the Stiefel manifold (`dr - r(r+1)/2` real, `2dr - r²` complex) -/
def stiefelDim (dim rank : Nat) (isReal : Bool) : Nat :=
  if isReal then dim * rank - rank * (rank + 1) / 2 else 2 * dim * rank - rank * rank

/-- rank of the differential claimed by the property for each Stiefel chart: the manifold dimension, except for the
minimal-parameter complex charts (choleskyL, euler without phase: the parameter count `2dr - r² - r`) and for the
special-unitary charts with `rank = dim` (`d² - 1`, the dimension of `SU(d)`). -/
def stiefelRank (dim rank : Nat) (isReal : Bool) (m : StMethod) (eulerWithPhase : Bool) : Nat :=
  match m with
  | .qr | .polar => stiefelDim dim rank isReal
  | .choleskyL => stiefelParam dim rank isReal .choleskyL false
  | .euler => stiefelParam dim rank isReal .euler eulerWithPhase
  | .soExp | .soCayley => if !isReal && rank = dim then dim * dim - 1 else stiefelDim dim rank isReal

end Count

end Numqi.Manifold
