/-
Model of `numqi.sim.state.measure_quantum_vector` (`state.py:270-320`) and of the `MeasureGate` bookkeeping
inside `Circuit.apply_state` (`circuit.py:16-40, 504-505`).  No Mathlib import.

Two descriptions of the same computation live here:
* the **bitwise** one — `reduceToProbability s ψ` (Born marginal) and `project s o ψ` from `NumqiModel/Sim.lean` —
  about which the theorems of `NumqiProps/C11.lean` speak;
* the **grouped** one, literal to the code: the qubit axes are merged into runs of measured / unmeasured qubits
  (`_measure_quantum_vector_hf0`), the state is reshaped to that shape, `|·|²` is summed over the unmeasured axes and
  the sampled outcome `ind1` is un-ravelled against the shapes of the measured runs to build the slice.
  `keptIndexGrouped` is the function "flat position of `q0` ↦ flat outcome index" this induces; `grouping_spec`
  says it equals the bitwise description.

The sampled outcome `ind1` is an input (the harness reads it back from the returned bit string).
The division by `√prob[ind1]` is not a ring operation: the model returns the un-normalised projection and the scale
`s` with `s·s·prob = 1` is an explicit parameter of `post`.
-/
import NumqiModel.Sim

namespace Numqi

/-- run-length encoding: `itertools.groupby` over the list of kinds (`state.py:280`) -/
def runLength : List Bool → List (Bool × Nat)
  | [] => []
  | b :: l =>
    match runLength l with
    | (b', c) :: r => if b == b' then (b, c + 1) :: r else (b, 1) :: (b', c) :: r
    | [] => [(b, 1)]

/-- `_measure_quantum_vector_hf0(num_qubit, index)` (`state.py:271-284`): merged `shape`, `keep_dim`, `reduce_dim` -/
def measureGrouping (n : Nat) (index : List Nat) : List Nat × List Nat × List Nat :=
  let kind := (List.range n).map fun i => index.contains i          -- kind[list(index)] = 1
  let z0 := runLength kind
  let shape := z0.map fun g => 2 ^ g.2                                -- hf1: product of the 2's of a run
  let pos := List.range z0.length
  (shape, pos.filter (fun x => (z0.getD x (false, 0)).1), pos.filter (fun x => !(z0.getD x (false, 0)).1))

/-- row-major digits of `v` for `shape` (`np.unravel_index`) -/
def unravel : List Nat → Nat → List Nat
  | [], _ => []
  | _ :: ds, v => let w := ds.foldl (· * ·) 1; (v / w) :: unravel ds (v % w)

/-- row-major flat index (`np.ravel_multi_index`) -/
def ravel (shape digits : List Nat) : Nat := (shape.zip digits).foldl (fun acc p => acc * p.1 + p.2) 0

/-- For the flat position `p` of `q0`: the flat index, in `prob`, of the outcome it contributes to — position `p`
has multi-index `unravel shape p` in `q1 = q0.reshape(shape)`; summing over `reduce_dim` and flattening
(`state.py:307`) sends it to the ravelled kept digits. -/
def keptIndexGrouped (n : Nat) (index : List Nat) (p : Nat) : Nat :=
  let (shape, keepDim, _) := measureGrouping n index
  let digits := unravel shape p
  ravel (keepDim.map fun d => shape.getD d 1) (keepDim.map fun d => digits.getD d 0)

/-- the bitwise description of the same map: read the bits of `p` (qubit 0 most significant of `n`) at the measured
positions, in order -/
def keptIndexBitwise (n : Nat) (index : List Nat) (p : Nat) : Nat :=
  index.foldl (fun acc q => 2 * acc + (p.testBit (n - 1 - q)).toNat) 0

/-- the grouped and the bitwise description agree on every position of an `n`-qubit register -/
def GroupingSpec (n : Nat) (index : List Nat) : Prop :=
  ∀ p, p < 2 ^ n → keptIndexGrouped n index p = keptIndexBitwise n index p

instance (n : Nat) (index : List Nat) : Decidable (GroupingSpec n index) := by
  unfold GroupingSpec; infer_instance

section
variable {α : Type} [Add α] [Mul α] [Zero α] [Conj α]

/-- `prob` of `state.py:305-309`, literal: `(|q1|²).sum(axis=reduce_dim).reshape(-1)` -/
def probGrouped (n : Nat) (index : List Nat) (a : Array α) : Array α :=
  Array.ofFn (n := 2 ^ index.length) fun v =>
    ((List.range (2 ^ n)).map fun p => if keptIndexGrouped n index p == v.val then normSq (a.getD p 0) else 0).sum

/-- `q2` of `state.py:312-319` before the division: `q1[ind2]` on the slice selected by `ind1`, zero elsewhere -/
def projectGrouped (n : Nat) (index : List Nat) (ind1 : Nat) (a : Array α) : Array α :=
  Array.ofFn (n := 2 ^ n) fun p => if keptIndexGrouped n index p.val == ind1 then a.getD p.val 0 else 0

/-- post-measurement state with the normalisation factor `s` (`= 1/√prob[ind1]` in the implementation) -/
def post {n m : Nat} (s : α) (idx : Fin m → Fin n) (o : Bits m) (ψ : Vec n α) : Vec n α :=
  fun x => s * project idx o ψ x

/-- what the `MeasureGate`s of a circuit record while `apply_state` runs: for every measure entry the (un-normalised)
marginals of the state **at that point** of the gate list -/
def measureRecords {n : Nat} : List (Op n α) → Array α → List (Array α)
  | [], _ => []
  | g :: c, a =>
    (match g with
      | .measure s _ => [tabulate (reduceToProbability s (lookup (n := n) a))]
      | _ => []) ++ measureRecords c (g.applyA a)
end

/-- `bitstr` of `state.py:311`: binary digits of `ind1`, most significant first, padded to `len(index)` -/
def bitstrOf (m ind1 : Nat) : List Bool := List.ofFn (Bits.ofNat m ind1)

end Numqi
