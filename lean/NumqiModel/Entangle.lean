/-
Index-level model of the entanglement criteria and two-qubit measures of
`numqi/entangle/{ppt,_misc,eof,measure}.py`.  No Mathlib import: everything here is executable
(the driver runs it on Gaussian integers / Gaussian rationals) and is what the theorems in
`NumqiProps/C05.lean`, `NumqiProps/C13.lean` talk about.

Conventions.  A numpy array is its row-major flat read-out `Nat → α`; a matrix is `Nat → Nat → α`
(row, column).  `reshape` never moves data, so it is only a change of the `shape` argument of
`flat` / `unflat`; `transpose` is `npTranspose`.
-/
import NumqiModel.Scalar

namespace Numqi.Ent

/-! ### numpy indexing: row-major reshape and `transpose` -/

/-- `np.prod(shape)` -/
def prodL : List Nat → Nat
  | [] => 1
  | s :: r => s * prodL r

/-- row-major flat index of the multi-index `idx` in an array of shape `shape` -/
def flat : List Nat → List Nat → Nat
  | _ :: rest, i :: is => i * prodL rest + flat rest is
  | _, _ => 0

/-- multi-index of the flat index `k` in an array of shape `shape` (`np.unravel_index`) -/
def unflat : List Nat → Nat → List Nat
  | [], _ => []
  | _ :: rest, k => (k / prodL rest) :: unflat rest (k % prodL rest)

/-- shape after `transpose(perm)`: axis `m` of the result is axis `perm[m]` of the input -/
def permShape (shape perm : List Nat) : List Nat := perm.map fun p => shape.getD p 1

/-- input multi-index read by the output multi-index `o` of `x.transpose(perm)`:
`result[o] = x[j]` with `j[perm[m]] = o[m]` -/
def transposeIn (perm o : List Nat) : List Nat :=
  (List.range perm.length).map fun ax => o.getD (perm.idxOf ax) 0

/-- `x.reshape(shape).transpose(perm).reshape(-1)` on flat read-outs -/
def npTranspose {α : Type} (shape perm : List Nat) (x : Nat → α) : Nat → α :=
  fun k => x (flat shape (transposeIn perm (unflat (permShape shape perm) k)))

/-- flat read-out of an `? × ncol` matrix -/
def toFlat {α : Type} (ncol : Nat) (m : Nat → Nat → α) : Nat → α := fun k => m (k / ncol) (k % ncol)

/-- `x.reshape(-1, ncol)` -/
def ofFlat {α : Type} (ncol : Nat) (x : Nat → α) : Nat → Nat → α := fun r c => x (r * ncol + c)

/-- `Σ_{i<n} f i` (the model of an `einsum` summation index) -/
def sumRange {α : Type} [Add α] [Zero α] (n : Nat) (f : Nat → α) : α := ((List.range n).map f).sum

/-! ### `is_ppt` (`ppt.py:131-157`) -/

/-- block sizes used by `hf0(i)`: `tmp0 = prod(dim[:i])`, `dim[i]`, `tmp1 = prod(dim[i+1:])` -/
def blocks (dim : List Nat) (i : Nat) : Nat × Nat × Nat :=
  (prodL (dim.take i), dim.getD i 1, prodL (dim.drop (i + 1)))

/-- `rho.reshape(a,d,b,a,d,b).transpose(0,4,2,3,1,5).reshape(N0,N0)` with `N0 = a*d*b` (`ppt.py:153`) -/
def ptBlock {α : Type} (a d b : Nat) (ρ : Nat → Nat → α) : Nat → Nat → α :=
  ofFlat (a * d * b) (npTranspose [a, d, b, a, d, b] [0, 4, 2, 3, 1, 5] (toFlat (a * d * b) ρ))

/-- the matrix that `is_ppt` hands to `is_positive_semi_definite` for party `i` -/
def pptMatrix {α : Type} (dim : List Nat) (i : Nat) (ρ : Nat → Nat → α) : Nat → Nat → α :=
  let (a, d, b) := blocks dim i
  ptBlock a d b ρ

/-! ### `is_generalized_ppt` (`ppt.py:160-203`) -/

/-- `itertools.combinations(l, k)` (lexicographic order) -/
def combos : List Nat → Nat → List (List Nat)
  | _, 0 => [[]]
  | [], _ + 1 => []
  | x :: xs, k + 1 => (combos xs k).map (x :: ·) ++ combos xs (k + 1)

/-- `tuple(sorted(set(range(m)) - set(y)))` -/
def complement (m : Nat) (y : List Nat) : List Nat := (List.range m).filter fun v => !y.contains v

/-- `_is_generalized_ppt_dim_list(num_partite)` (`ppt.py:161-166`):
the trivial split, every subset of fewer than `n` axes against its complement, and every
`n`-subset containing axis 0 against its complement (the `sorted(set(sorted pair))` de-duplication
keeps, of a subset and its complement, the one that contains 0). -/
def gpptDimList (n : Nat) : List (List Nat × List Nat) :=
  let m := 2 * n
  let z0 := (List.range n).tail.flatMap fun x => (combos (List.range m) x).map fun y => (y, complement m y)
  let z1 := ((combos (List.range m) n).filter fun y => y.head? == some 0).map fun y => (y, complement m y)
  ([], List.range m) :: (z0 ++ z1)

/-- `rho.reshape(dim+dim).transpose(*dim0,*dim1).reshape(tmp0,-1)` (`ppt.py:192-196`), the matrix whose
nuclear norm is taken -/
def gpptMatrix {α : Type} (dim d0 d1 : List Nat) (ρ : Nat → Nat → α) : Nat → Nat → α :=
  ofFlat (prodL (permShape (dim ++ dim) d1))
    (npTranspose (dim ++ dim) (d0 ++ d1) (toFlat (prodL dim) ρ))

/-- number of rows `tmp0` and of columns of that matrix -/
def gpptRows (dim d0 : List Nat) : Nat := prodL (permShape (dim ++ dim) d0)

/-! ### `check_reduction_witness` (`_misc.py:174-206`) -/

/-- `np.einsum(rho.reshape(a,d,b,a,d,b), [0,1,2,0,4,2], [1,4])`: the reduced state of party `i` -/
def reducedParty {α : Type} [Add α] [Zero α] (a d b : Nat) (ρ : Nat → Nat → α) (p q : Nat) : α :=
  sumRange a fun s => sumRange b fun t => ρ (flat [a, d, b] [s, p, t]) (flat [a, d, b] [s, q, t])

/-- `np.kron(np.kron(eye(a), tmp3), eye(b)) - rho` -/
def reductionBlock {α : Type} [Add α] [Zero α] [Sub α] (a d b : Nat) (ρ : Nat → Nat → α) : Nat → Nat → α :=
  fun r c =>
    let x := unflat [a, d, b] r
    let y := unflat [a, d, b] c
    (if x.getD 0 0 = y.getD 0 0 ∧ x.getD 2 0 = y.getD 2 0
      then reducedParty a d b ρ (x.getD 1 0) (y.getD 1 0) else 0) - ρ r c

def reductionMatrix {α : Type} [Add α] [Zero α] [Sub α] (dim : List Nat) (i : Nat) (ρ : Nat → Nat → α) :
    Nat → Nat → α :=
  let (a, d, b) := blocks dim i
  reductionBlock a d b ρ

/-! ### `check_swap_witness` (`_misc.py:155-171`) -/

/-- `np.einsum(rho.reshape(d,d,d,d), [0,1,1,0], [])` = `Σ_{a,b} ρ[(a,b),(b,a)]` -/
def swapValue {α : Type} [Add α] [Zero α] (d : Nat) (ρ : Nat → Nat → α) : α :=
  sumRange d fun a => sumRange d fun b => ρ (flat [d, d] [a, b]) (flat [d, d] [b, a])

/-! ### `get_negativity` (`_misc.py:231`), `get_ppt_boundary` (`ppt.py:116`) -/

/-- `rho.reshape(dA,dB,dA,dB).transpose(0,3,2,1).reshape(dA*dB,dA*dB)` -/
def ptB {α : Type} (dA dB : Nat) (ρ : Nat → Nat → α) : Nat → Nat → α :=
  ofFlat (dA * dB) (npTranspose [dA, dB, dA, dB] [0, 3, 2, 1] (toFlat (dA * dB) ρ))

/-! ### two-qubit concurrence: the spin flip (`eof.py:20-21`) -/

/-- `tmp0 = [-1,1,1,-1]` -/
def flipSign {α : Type} [One α] [Neg α] (i : Nat) : α := if i = 0 ∨ i = 3 then -1 else 1

/-- `z0 = (tmp0[:,None]*tmp0) * rho[::-1,::-1].conj()` -/
def spinFlip {α : Type} [One α] [Neg α] [Mul α] [Conj α] (ρ : Nat → Nat → α) : Nat → Nat → α :=
  fun i j => (flipSign i * flipSign j) * conj (ρ (3 - i) (3 - j))

/-- `n × n` matrix product `A @ B` -/
def matMul {α : Type} [Add α] [Zero α] [Mul α] (n : Nat) (A B : Nat → Nat → α) : Nat → Nat → α :=
  fun i j => sumRange n fun k => A i k * B k j

/-- the argument of `np.linalg.eigvalsh` in `get_concurrence_2qubit`: `sqrt_rho @ z0 @ sqrt_rho`
(`sqrt_rho` is the result of the external `eigh`, a parameter here) -/
def concurrenceArg {α : Type} [Add α] [Zero α] [One α] [Neg α] [Mul α] [Conj α] (S ρ : Nat → Nat → α) :
    Nat → Nat → α :=
  matMul 4 (matMul 4 S (spinFlip ρ)) S

/-! ### Bell-diagonal states (`state/_internal.py:86-106`, `Bell(i)` = Φ+, Φ−, Ψ+, Ψ−) -/

/-- entries of `2·Σ_i p_i |Bell_i⟩⟨Bell_i|` (the factor 2 keeps the model division-free) -/
def bellDiag2 {α : Type} [Add α] [Sub α] [Zero α] (p : Nat → α) : Nat → Nat → α := fun r c =>
  if (r = 0 ∧ c = 0) ∨ (r = 3 ∧ c = 3) then p 0 + p 1
  else if (r = 0 ∧ c = 3) ∨ (r = 3 ∧ c = 0) then p 0 - p 1
  else if (r = 1 ∧ c = 1) ∨ (r = 2 ∧ c = 2) then p 2 + p 3
  else if (r = 1 ∧ c = 2) ∨ (r = 2 ∧ c = 1) then p 2 - p 3
  else 0

/-- the (unnormalised, ×√2) Bell vectors in the order in which they diagonalise the partial transpose of a Bell-diagonal
state: `(1,0,0,1), (1,0,0,-1), (0,1,1,0), (0,1,-1,0)` -/
def bellVec {α : Type} [Zero α] [One α] [Neg α] (i r : Nat) : α :=
  match i, r with
  | 0, 0 => 1 | 0, 3 => 1
  | 1, 0 => 1 | 1, 3 => -1
  | 2, 1 => 1 | 2, 2 => 1
  | 3, 1 => 1 | 3, 2 => -1
  | _, _ => 0

/-! ### pure-state concurrence (`eof.py:37-57`) -/

/-- `get_concurrence_pure(psi)` for `psi` of shape `(dA,dB)` (both > 1) returns `np.sqrt` of this number:
`tmp0 = psi @ psi.conj().T` if `dA < dB` else `psi.conj().T @ psi`, `tmp2 = np.vdot(tmp0, tmp0)`, radicand `2*(1-tmp2)` -/
def concPureRadicand {α : Type} [Add α] [Zero α] [One α] [Sub α] [Mul α] [Conj α] (dA dB : Nat) (ψ : Nat → Nat → α) : α :=
  let m := if dA < dB then dA else dB
  let T : Nat → Nat → α :=
    if dA < dB then fun i j => sumRange dB fun b => ψ i b * conj (ψ j b)
    else fun i j => sumRange dA fun a => conj (ψ a i) * ψ a j
  (1 + 1) * (1 - sumRange m fun i => sumRange m fun j => conj (T i j) * T i j)

/-! ### the ensemble contraction of the convex-roof models
(`eof.py:156-161,223-228`, `measure.py:226-231`) -/

/-- `contract_expr(X, X.conj())` with constants `S = _sqrt_rho` (shape `dimA,dimB,rank`) and `conj S`:
for `dimA ≤ dimB`  `out[α,a,a'] = Σ_{b,j,l} S[a,b,j] conj(S[a',b,l]) X[α,j] conj(X[α,l])`  (indices
`[0,3,4],[1,3,5],[2,4],[2,5] → [2,0,1]`), otherwise the same with the roles of the two factors
exchanged (`[3,0,4],[3,1,5]`). `S`, `X` are flat read-outs. -/
def ensembleRdm {α : Type} [Add α] [Zero α] [Mul α] [Conj α] (dimA dimB rank : Nat) (S X : Nat → α)
    (al p q : Nat) : α :=
  if dimA ≤ dimB then
    sumRange dimB fun b => sumRange rank fun j => sumRange rank fun l =>
      S (flat [dimA, dimB, rank] [p, b, j]) * conj (S (flat [dimA, dimB, rank] [q, b, l]))
        * X (al * rank + j) * conj (X (al * rank + l))
  else
    sumRange dimA fun a => sumRange rank fun j => sumRange rank fun l =>
      S (flat [dimA, dimB, rank] [a, p, j]) * conj (S (flat [dimA, dimB, rank] [a, q, l]))
        * X (al * rank + j) * conj (X (al * rank + l))

/-- the ensemble member `ψ_α[k] = Σ_j S[k,j] X[α,j]` (`k` the flat index of the `dimA·dimB` system) -/
def ensembleVec {α : Type} [Add α] [Zero α] [Mul α] (rank : Nat) (S X : Nat → α) (al k : Nat) : α :=
  sumRange rank fun j => S (k * rank + j) * X (al * rank + j)

/-- `contract_expr1(T, T.conj())`: `Σ_{a,b} T[α,a,b] conj(T[α,a,b])` (`eof.py:230`, `measure.py:233`) -/
def ensemblePurity {α : Type} [Add α] [Zero α] [Mul α] [Conj α] (m : Nat) (T : Nat → Nat → Nat → α) (al : Nat) : α :=
  sumRange m fun a => sumRange m fun b => T al a b * conj (T al a b)

/-- `DensityMatrixGMEModel.contract_expr` for `CPrank = 1` (`measure.py:89-93`):
`out[α] = Σ_{i,j} S[i,j] X[α,j] Π_x psi_x[α,i_x]` (`i` the multi-index over `dims`; `psi x` is the
flat read-out of the `num_ensemble × dims[x]` array) -/
def gmeOverlap {α : Type} [Add α] [Zero α] [One α] [Mul α] (dims : List Nat) (rank : Nat) (S X : Nat → α)
    (psi : Nat → Nat → α) (al : Nat) : α :=
  sumRange (prodL dims) fun k => sumRange rank fun j =>
    S (k * rank + j) * X (al * rank + j) *
      ((List.range dims.length).foldl (fun acc x => acc * psi x (al * dims.getD x 1 + (unflat dims k).getD x 0)) 1)

/-- the canonical-polyadic vector of ensemble member `α` in `DensityMatrixGMEModel` with `CPrank = cp > 1` (`measure.py:94-99`):
`Φ_α[k] = Σ_c coeff[α,c] Π_x psi_x[α,c,k_x]`; `coeff` is the flat `num×cp` array, `psi x` the flat `num×cp×dims[x]` array -/
def cpVec {α : Type} [Add α] [Zero α] [One α] [Mul α] (dims : List Nat) (cp : Nat) (coeff : Nat → α) (psi : Nat → Nat → α)
    (al k : Nat) : α :=
  sumRange cp fun c => coeff (al * cp + c) *
    ((List.range dims.length).foldl (fun acc x => acc * psi x ((al * cp + c) * dims.getD x 1 + (unflat dims k).getD x 0)) 1)

/-- `contract_expr(matX, coeff, *psi_list)` for `CPrank > 1`: `out[α] = Σ_{k,j,c} S[k,j] X[α,j] coeff[α,c] Π_x psi_x[α,c,k_x]` -/
def gmeOverlapCP {α : Type} [Add α] [Zero α] [One α] [Mul α] (dims : List Nat) (rank cp : Nat) (S X coeff : Nat → α)
    (psi : Nat → Nat → α) (al : Nat) : α :=
  sumRange (prodL dims) fun k => sumRange rank fun j => sumRange cp fun c =>
    S (k * rank + j) * X (al * rank + j) * coeff (al * cp + c) *
      ((List.range dims.length).foldl (fun acc x => acc * psi x ((al * cp + c) * dims.getD x 1 + (unflat dims k).getD x 0)) 1)

/-- `contract_psi_psi(coeff, coeff, *psi_list, *psi_conj_list)` (`measure.py:61-66`), the squared norm by which `get_state` normalises the
coefficients: `out[α] = Σ_{c,c'} coeff[α,c] coeff[α,c'] Π_x Σ_i psi_x[α,c,i] psiconj_x[α,c',i]` -/
def cpNormSq {α : Type} [Add α] [Zero α] [One α] [Mul α] (dims : List Nat) (cp : Nat) (coeff : Nat → α) (psi psic : Nat → Nat → α)
    (al : Nat) : α :=
  sumRange cp fun c => sumRange cp fun c' => coeff (al * cp + c) * coeff (al * cp + c') *
    ((List.range dims.length).foldl (fun acc x => acc *
      sumRange (dims.getD x 1) fun i => psi x ((al * cp + c) * dims.getD x 1 + i) * psic x ((al * cp + c') * dims.getD x 1 + i)) 1)

end Numqi.Ent
